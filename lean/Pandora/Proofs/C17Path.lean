/-
C17 — paths into a configuration: an error / a constraint violation / a decoded value at the end of a path, seen from
the root; plugin positions with the `type` key anywhere in the mapping; type-only plugin blocks.
-/
import Pandora.Proofs.C17
import Pandora.Proofs.C17Struct
import Pandora.Spec.C17

namespace Pandora.Proofs.C17
open Pandora.Model.C17 Pandora.Spec.C17

/-! ## paths -/

/-- one step of a path into a configuration -/
inductive Step
  | key (k : Str)      -- the value under a key of a struct-decoded mapping, or of a map
  | idx (i : Nat)      -- an element of a list
  | deref              -- through a pointer field
  | plugin             -- from a plugin position into the config of the plugin named by `type`
  | shortcut           -- a schedule given as a list: the `composite` schedule of that list

/-- what `scheduleSliceToCompositeConfigHook` makes of a list at a schedule position -/
def schedMap (xs : List Val) : List (Str × Val) :=
  [("type".toList, .str "composite".toList), ("nested".toList, .list xs)]

/-- `At dive p s cfg s' c'`: following path `p` from a position of schema `s` holding configuration `cfg` arrives at a
position of schema `s'` holding `c'`.  Steps: a struct field (through the data key `findKey` selects for it), a list
element, a map entry, a pointer, the config of the plugin a `type` key names (the `type` key may stand anywhere in
the mapping), the list shortcut of a schedule.  With `dive = true` every slice / map field on the path carries the
`dive` tag (the validator descends into it). -/
inductive At (dive : Bool) : List Step → Schema → Val → Schema → Val → Prop
  | here (s : Schema) (c : Val) : At dive [] s c s c
  | field (fs : Fields) (kvs : List (Str × Val)) (f : FInfo) (s : Schema) (key : Str) (c : Val) (p : List Step)
      (s' : Schema) (c' : Val) :
      FieldIn f s fs → f.settable = true → findKey kvs f.key = some (key, c) →
      (dive = true → isContainer s = true → hasDive f.tags = true) →
      At dive p s c s' c' → At dive (.key key :: p) (.struct fs) (.map kvs) s' c'
  | elem (e : Schema) (d : DVal) (xs : List Val) (i : Nat) (c : Val) (p : List Step) (s' : Schema) (c' : Val) :
      xs[i]? = some c → At dive p e c s' c' → At dive (.idx i :: p) (.slice e d) (.list xs) s' c'
  | entry (e : Schema) (d : Option (List (Str × DVal))) (kvs : List (Str × Val)) (key : Str) (c : Val) (p : List Step)
      (s' : Schema) (c' : Val) :
      (key, c) ∈ kvs → At dive p e c s' c' → At dive (.key key :: p) (.map e d) (.map kvs) s' c'
  | deref (n : Bool) (s : Schema) (c : Val) (p : List Step) (s' : Schema) (c' : Val) :
      c ≠ .null → At dive p s c s' c' → At dive (.deref :: p) (.ptr n s) c s' c'
  | plugin (pi : PInfo) (alts : Alts) (m : List (Str × Val)) (name : Str) (lzy : Bool) (s : Schema) (p : List Step)
      (s' : Schema) (c' : Val) :
      typeEntries m = [.str name] → pi.names.contains name = true → altOf alts name = some (lzy, s) →
      At dive p s (.map (dropType m)) s' c' → At dive (.plugin :: p) (.plugin pi alts) (.map m) s' c'
  | schedList (pi : PInfo) (alts : Alts) (xs : List Val) (p : List Step) (s' : Schema) (c' : Val) :
      pi.hook = .sched → At dive p (.plugin pi alts) (.map (schedMap xs)) s' c' →
      At dive (.shortcut :: p) (.plugin pi alts) (.list xs) s' c'

theorem At.weaken {p : List Step} {s : Schema} {c : Val} {s' : Schema} {c' : Val} (h : At true p s c s' c') :
    At false p s c s' c' := by
  induction h with
  | here s c => exact .here s c
  | field fs kvs f s key c p s' c' hin hset hfind _ _ ih => exact .field fs kvs f s key c p s' c' hin hset hfind (by simp) ih
  | elem e d xs i c p s' c' hget _ ih => exact .elem e d xs i c p s' c' hget ih
  | entry e d kvs key c p s' c' hmem _ ih => exact .entry e d kvs key c p s' c' hmem ih
  | deref n s c p s' c' hn _ ih => exact .deref n s c p s' c' hn ih
  | plugin pi alts m name lzy s p s' c' hte hname halt _ ih => exact .plugin pi alts m name lzy s p s' c' hte hname halt ih
  | schedList pi alts xs p s' c' hh _ ih => exact .schedList pi alts xs p s' c' hh ih

/-! ## plugin positions, `type` key anywhere -/

theorem plugin_rejects_gen (fl : Flags) (env : Env) (pi : PInfo) (alts : Alts) (m : List (Str × Val)) (name : Str)
    (lzy : Bool) (s : Schema)
    (hte : typeEntries m = [.str name]) (hname : pi.names.contains name = true)
    (halt : altOf alts name = some (lzy, s))
    (hfail : settle (decode fl env s (.map (dropType m))) ≠ [] ∨ (decode fl env s (.map (dropType m))).later ≠ []) :
    R.failed (decode fl env (.plugin pi alts) (.map m)) := by
  have hda : decodeAlt fl env alts name (.map (dropType m)) = some (lzy, decode fl env s (.map (dropType m))) := by
    rw [decodeAlt_eq, halt]; rfl
  simp only [decode, hte, hname, hda, Bool.not_true, Bool.false_eq_true, if_false]
  generalize decode fl env s (.map (dropType m)) = r at hfail
  cases lzy
  · simp only [Bool.false_eq_true, if_false]
    by_cases hs : (settle r).isEmpty = true
    · simp only [hs, if_true]
      right
      rcases hfail with h | h
      · exact absurd (List.isEmpty_iff.mp hs) h
      · exact h
    · simp only [hs]
      left
      intro h; apply hs; simp at h; simp [h]
  · simp only [if_true]
    right
    by_cases hs : (settle r).isEmpty = true
    · simp only [hs, if_true]
      rcases hfail with h | h
      · exact absurd (List.isEmpty_iff.mp hs) h
      · exact h
    · simp only [hs]
      intro h; apply hs; simp at h; simp [h]

/-- `parseConf` + `plugin.New` / `NewFactory` on a mapping whose `type` names a registered plugin -/
theorem decode_plugin_map (fl : Flags) (env : Env) (pi : PInfo) (alts : Alts) (m : List (Str × Val)) (name : Str)
    (lzy : Bool) (s : Schema)
    (hte : typeEntries m = [.str name]) (hname : pi.names.contains name = true)
    (halt : altOf alts name = some (lzy, s)) (r : R) (hr : decode fl env s (.map (dropType m)) = r) :
    decode fl env (.plugin pi alts) (.map m) =
      if lzy then
        { val := if pi.factory then .factory r.val else .plugin r.val, later := if (settle r).isEmpty then r.later else settle r }
      else if (settle r).isEmpty then { val := if pi.factory then .factory r.val else .plugin r.val, later := r.later }
      else { val := if pi.dfltSet then (if pi.factory then .factory .opaque else .plugin .opaque) else .nil, errs := settle r } := by
  have hda : decodeAlt fl env alts name (.map (dropType m)) = some (lzy, r) := by
    rw [decodeAlt_eq, halt, ← hr]; rfl
  simp only [decode, hte, hname, hda, Bool.not_true, Bool.false_eq_true, if_false]

/-- a mapping with more than one `type` key, or a `type` that is no string, is refused -/
theorem plugin_bad_type (fl : Flags) (env : Env) (pi : PInfo) (alts : Alts) (m : List (Str × Val))
    (h : ∀ name, typeEntries m ≠ [.str name]) :
    (decode fl env (.plugin pi alts) (.map m)).errs = [.plugintype] := by
  rcases hl : typeEntries m with _ | ⟨v, _ | ⟨w, r⟩⟩
  · simp [decode, hl, R.fail]
  · cases v <;> first | (exfalso; exact h _ hl) | simp [decode, hl, R.fail]
  · simp [decode, hl, R.fail]

theorem decode_sched_list (fl : Flags) (env : Env) (pi : PInfo) (alts : Alts) (xs : List Val) (h : pi.hook = .sched) :
    decode fl env (.plugin pi alts) (.list xs) = decode fl env (.plugin pi alts) (.map (schedMap xs)) := by
  simp [decode, h, schedMap]

/-! ## an error at the end of a path is an error of the whole -/

theorem mem_of_getElem? {α} {xs : List α} {i : Nat} {c : α} (h : xs[i]? = some c) : c ∈ xs := by
  rcases List.getElem?_eq_some_iff.mp h with ⟨hi, rfl⟩
  exact List.getElem_mem hi

theorem nested_failed (fl : Flags) (env : Env) {p : List Step} {s : Schema} {cfg : Val} {s' : Schema} {c' : Val}
    (h : At false p s cfg s' c') (hf : R.failed (decode fl env s' c')) : R.failed (decode fl env s cfg) := by
  induction h with
  | here s c => exact hf
  | field fs kvs f s key c p s' c' hin hset hfind _ _ ih =>
    exact struct_failed_of_flat fl env fs kvs (failed_of_field fl env fs kvs f s key c hin hset hfind (ih hf))
  | elem e d xs i c p s' c' hget _ ih => exact slice_failed fl env e d xs c (mem_of_getElem? hget) (ih hf)
  | entry e d kvs key c p s' c' hmem _ ih => exact map_failed fl env e d kvs key c hmem (ih hf)
  | deref n s c p s' c' hn _ ih =>
    have hp := ptr_errs_later fl env n s c hn
    rcases ih hf with h | h
    · exact Or.inl (hp.1 h)
    · exact hp.2.1 h
  | plugin pi alts m name lzy s p s' c' hte hname halt _ ih =>
    apply plugin_rejects_gen fl env pi alts m name lzy s hte hname halt
    rcases ih hf with h | h
    · exact Or.inl (settle_ne_nil_of_errs h)
    · exact Or.inr h
  | schedList pi alts xs p s' c' hh _ ih =>
    rw [decode_sched_list fl env pi alts xs hh]
    exact ih hf

/-! ## a constraint violation at the end of a path -/

theorem rejected_of_R (fl : Flags) (env : Env) (s : Schema) (cfg : Val) (h : (decode fl env s cfg).rejected) :
    (decodeAndValidate fl env s cfg).rejected = true := by
  rcases h with h | h | h
  · exact rejected_of_failed fl env s cfg (Or.inl h)
  · exact rejected_of_vfail fl env s cfg h
  · exact rejected_of_failed fl env s cfg (Or.inr h)

theorem R.rejected_of_failed {r : R} (h : R.failed r) : r.rejected := by
  rcases h with h | h
  · exact Or.inl h
  · exact Or.inr (Or.inr h)

theorem decode_map_vfail (fl : Flags) (env : Env) (e : Schema) (d : Option (List (Str × DVal))) (kvs : List (Str × Val)) :
    (decode fl env (.map e d) (.map kvs)).vfail = (kvs.map fun kv => (kv.1, decode fl env e kv.2)).any (·.2.vfail) := by
  simp [decode]

theorem settle_ne_nil_of_rejected {r : R} (h : r.rejected) : settle r ≠ [] ∨ r.later ≠ [] := by
  rcases h with h | h | h
  · exact Or.inl (settle_ne_nil_of_errs h)
  · left
    unfold settle
    cases he : r.errs with
    | nil => simp [h]
    | cons x xs => simp
  · exact Or.inr h

theorem nested_rejected (fl : Flags) (env : Env) {p : List Step} {s : Schema} {cfg : Val} {s' : Schema} {c' : Val}
    (h : At true p s cfg s' c') (hr : (decode fl env s' c').rejected) : (decode fl env s cfg).rejected := by
  induction h with
  | here s c => exact hr
  | field fs kvs f s key c p s' c' hin hset hfind hd _ ih =>
    have hfr : fieldResult fl env kvs f s = decode fl env s c := by simp [fieldResult, hset, hfind]
    rcases ih hr with h | h | h
    · exact R.rejected_of_failed (struct_failed_of_flat fl env fs kvs
        (failed_of_field fl env fs kvs f s key c hin hset hfind (Or.inl h)))
    · right; left
      rw [decode_struct_map]
      apply vfail_of_field fl env fs kvs f s hin
      right
      rw [hfr]
      unfold childVfail
      by_cases hc : isContainer s = true
      · simp [hc, hd rfl hc, h]
      · simp [hc, h]
    · exact R.rejected_of_failed (struct_failed_of_flat fl env fs kvs
        (failed_of_field fl env fs kvs f s key c hin hset hfind (Or.inr h)))
  | elem e d xs i c p s' c' hget _ ih =>
    have hmem := mem_of_getElem? hget
    rcases ih hr with h | h | h
    · exact R.rejected_of_failed (slice_failed fl env e d xs c hmem (Or.inl h))
    · right; left
      rw [decode_slice_list]
      simp only [List.any_map, List.any_eq_true]
      exact ⟨c, hmem, h⟩
    · exact R.rejected_of_failed (slice_failed fl env e d xs c hmem (Or.inr h))
  | entry e d kvs key c p s' c' hmem _ ih =>
    rcases ih hr with h | h | h
    · exact R.rejected_of_failed (map_failed fl env e d kvs key c hmem (Or.inl h))
    · right; left
      rw [decode_map_vfail]
      simp only [List.any_map, List.any_eq_true]
      exact ⟨(key, c), hmem, h⟩
    · exact R.rejected_of_failed (map_failed fl env e d kvs key c hmem (Or.inr h))
  | deref n s c p s' c' hn _ ih =>
    have hp := ptr_errs_later fl env n s c hn
    rcases ih hr with h | h | h
    · exact Or.inl (hp.1 h)
    · rcases hp.2.2 h with h' | h'
      · exact Or.inl h'
      · exact Or.inr (Or.inl h')
    · rcases hp.2.1 h with h' | h'
      · exact Or.inl h'
      · exact Or.inr (Or.inr h')
  | plugin pi alts m name lzy s p s' c' hte hname halt _ ih =>
    exact R.rejected_of_failed (plugin_rejects_gen fl env pi alts m name lzy s hte hname halt
      (settle_ne_nil_of_rejected (ih hr)))
  | schedList pi alts xs p s' c' hh _ ih =>
    rw [decode_sched_list fl env pi alts xs hh]
    exact ih hr

/-! ## type-only plugin blocks: the defaults are validated -/

theorem decodeFlat_nil_data (fl : Flags) (env : Env) : ∀ (fs : Fields),
    (decodeFlat fl env fs []).errs = [] ∧ (decodeFlat fl env fs []).later = [] ∧ (decodeFlat fl env fs []).used = [] ∧
    (decodeFlat fl env fs []).vfail = (keepFields false fs).vfail ∧ (decodeFlat fl env fs []).vals = (keepFields false fs).vals
  | .nil => by simp [decodeFlat, keepFields]
  | .cons f s rest => by
    have ih := decodeFlat_nil_data fl env rest
    rw [decodeFlat_cons]
    have : (if f.settable = true then findKey ([] : List (Str × Val)) f.key else none) = none := by
      split <;> simp [findKey]
    simp only [this, keepFields]
    simp [ih.1, ih.2.1, ih.2.2.1, ih.2.2.2.1, ih.2.2.2.2]

/-- an empty mapping decoded into a struct: no error, and the validator sees the defaults -/
theorem decode_struct_empty (fl : Flags) (env : Env) (fs : Fields) :
    (decode fl env (.struct fs) (.map [])).errs = [] ∧ (decode fl env (.struct fs) (.map [])).later = [] ∧
    (decode fl env (.struct fs) (.map [])).vfail = (keep false (.struct fs)).vfail ∧
    (decode fl env (.struct fs) (.map [])).val = (keep false (.struct fs)).val := by
  have h := decodeFlat_nil_data fl env fs
  rw [decode_struct_map]
  simp [h.1, h.2.1, h.2.2.2.1, h.2.2.2.2, keep]

/-! ## the decoded value at a Go field path -/

/-- the first field of that Go name -/
inductive FieldFirst : FInfo → Schema → Fields → Prop
  | head (f s rest) : FieldFirst f s (.cons f s rest)
  | tail (f s g t rest) : g.name ≠ f.name → FieldFirst f s rest → FieldFirst f s (.cons g t rest)

theorem FieldFirst.fieldIn {f : FInfo} {s : Schema} {fs : Fields} (h : FieldFirst f s fs) : FieldIn f s fs := by
  induction h with
  | head rest => exact .head _ _ rest
  | tail g t rest _ _ ih => exact .tail _ _ g t rest ih

/-- `FAt names s cfg s' c'`: the Go field path `names` (through structs and pointers to structs) leads from the
position `(s, cfg)` to the position `(s', c')` -/
inductive FAt : List Str → Schema → Val → Schema → Val → Prop
  | here (s : Schema) (c : Val) : FAt [] s c s c
  | field (fs : Fields) (kvs : List (Str × Val)) (f : FInfo) (s : Schema) (key : Str) (c : Val) (p : List Str)
      (s' : Schema) (c' : Val) :
      FieldFirst f s fs → f.settable = true → findKey kvs f.key = some (key, c) →
      FAt p s c s' c' → FAt (f.name :: p) (.struct fs) (.map kvs) s' c'
  | deref (n : Bool) (fs : Fields) (kvs : List (Str × Val)) (nm : Str) (p : List Str) (s' : Schema) (c' : Val) :
      FAt (nm :: p) (.struct fs) (.map kvs) s' c' → FAt (nm :: p) (.ptr n (.struct fs)) (.map kvs) s' c'

theorem find_first (fl : Flags) (env : Env) (kvs : List (Str × Val)) {f : FInfo} {s : Schema} {fs : Fields}
    (h : FieldFirst f s fs) :
    (decodeFlat fl env fs kvs).vals.find? (fun x => x.1 == f.name) = some (f.name, (fieldResult fl env kvs f s).val) := by
  induction h with
  | head rest =>
    rw [decodeFlat_vals]
    simp [Fields.toList]
  | tail g t rest hne _ ih =>
    rw [decodeFlat_vals] at ih ⊢
    have : (g.name == f.name) = false := by simp [hne]
    simp only [Fields.toList, List.map_cons, List.find?_cons, this]
    exact ih

theorem value_at (fl : Flags) (env : Env) {p : List Str} {s : Schema} {cfg : Val} {s' : Schema} {c' : Val}
    (h : FAt p s cfg s' c') : lookup p (decode fl env s cfg).val = some (decode fl env s' c').val := by
  induction h with
  | here s c => rfl
  | field fs kvs f s key c p s' c' hff hset hfind _ ih =>
    have hfr : fieldResult fl env kvs f s = decode fl env s c := by simp [fieldResult, hset, hfind]
    rw [decode_struct_map]
    simp only [lookup, stepPtr, find_first fl env kvs hff, hfr]
    exact ih
  | deref n fs kvs nm p s' c' _ ih =>
    rw [decode_ptr fl env n (.struct fs) (.map kvs) (by intro h; cases h) (by intro _ h; cases h)]
    rw [decode_struct_map] at ih ⊢
    simpa [lookup, stepPtr] using ih

end Pandora.Proofs.C17
