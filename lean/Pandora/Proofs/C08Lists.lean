/-
C08 / C14 helper lemmas: repeated passes over a list, prefixes of the cyclic sequence.  Core Lean only.
-/
namespace Pandora.Proofs.C08

/-- `q` consecutive copies of `F` (what `q` complete passes over a file deliver) -/
def rep {α : Type} (q : Nat) (F : List α) : List α := (List.replicate q F).flatten

/-- the first `t` elements of the endless repetition of `F` (`F ≠ []`) -/
def cycTake {α : Type} (F : List α) (t : Nat) : List α := (rep t F).take t

variable {α : Type}

@[simp] theorem rep_zero (F : List α) : rep 0 F = [] := by simp [rep]

theorem rep_succ (q : Nat) (F : List α) : rep (q + 1) F = rep q F ++ F := by
  simp [rep, List.replicate_succ']

theorem rep_succ' (q : Nat) (F : List α) : rep (q + 1) F = F ++ rep q F := by
  simp [rep, List.replicate_succ]

theorem rep_add (a b : Nat) (F : List α) : rep (a + b) F = rep a F ++ rep b F := by
  induction b with
  | zero => simp
  | succ b ih => rw [← Nat.add_assoc, rep_succ, ih, rep_succ, List.append_assoc]

@[simp] theorem length_rep (q : Nat) (F : List α) : (rep q F).length = q * F.length := by
  induction q with
  | zero => simp
  | succ q ih => rw [rep_succ, List.length_append, ih, Nat.succ_mul]

theorem filter_rep (p : α → Bool) (q : Nat) (F : List α) : (rep q F).filter p = rep q (F.filter p) := by
  induction q with
  | zero => simp
  | succ q ih => rw [rep_succ, List.filter_append, ih, rep_succ]

/-- a prefix of the repetition does not depend on how many copies it is cut from -/
theorem take_rep_indep (F : List α) (t a b : Nat) (ha : t ≤ a * F.length) (hb : t ≤ b * F.length) :
    (rep a F).take t = (rep b F).take t := by
  have h1 : (rep (a + b) F).take t = (rep a F).take t := by
    rw [rep_add]; exact List.take_append_of_le_length (by simpa using ha)
  have h2 : (rep (b + a) F).take t = (rep b F).take t := by
    rw [rep_add]; exact List.take_append_of_le_length (by simpa using hb)
  rw [← h1, ← h2, Nat.add_comm]

theorem cycTake_eq (F : List α) (t a : Nat) (hf : 0 < F.length) (ha : t ≤ a * F.length) :
    cycTake F t = (rep a F).take t := by
  unfold cycTake
  apply take_rep_indep _ _ _ _ _ ha
  exact Nat.le_mul_of_pos_right t hf

@[simp] theorem length_cycTake (F : List α) (t : Nat) (hf : 0 < F.length) : (cycTake F t).length = t := by
  unfold cycTake
  rw [List.length_take, length_rep]
  exact Nat.min_eq_left (Nat.le_mul_of_pos_right t hf)

/-- a prefix of `rep a F` of length `t` is `cycTake F t` -/
theorem eq_cycTake_of_prefix (F l : List α) (a : Nat) (hf : 0 < F.length) (hp : l <+: rep a F) :
    l = cycTake F l.length := by
  have hl : l.length ≤ a * F.length := by simpa using hp.length_le
  rw [cycTake_eq F l.length a hf hl]
  exact List.prefix_iff_eq_take.mp hp

theorem rep_eq_cycTake (F : List α) (q : Nat) (hf : 0 < F.length) : rep q F = cycTake F (q * F.length) := by
  have := eq_cycTake_of_prefix F (rep q F) q hf (List.prefix_refl _)
  simpa using this

theorem take_succ_getElem (l : List α) (r : Nat) (a : α) (h : l[r]? = some a) : l.take (r + 1) = l.take r ++ [a] := by
  rw [List.take_add_one, h]; rfl

theorem take_prefix_rep (F : List α) (q r : Nat) : rep q F ++ F.take r <+: rep (q + 1) F := by
  rw [rep_succ]
  exact (List.prefix_append_right_inj _).mpr (List.take_prefix r F)

/-- the `k`-th element of the repetition: `cycTake` grows by `F[k % |F|]` -/
theorem cycTake_succ (F : List α) (k : Nat) (a : α) (h : F[k % F.length]? = some a) :
    cycTake F (k + 1) = cycTake F k ++ [a] := by
  have hf : 0 < F.length := by
    cases F with
    | nil => simp at h
    | cons x xs => simp
  have hlt : k % F.length < F.length := Nat.mod_lt _ hf
  -- both sides are prefixes of rep (k / |F| + 1) F
  have hk : k = (k / F.length) * F.length + k % F.length := by
    rw [Nat.mul_comm]; exact (Nat.div_add_mod k F.length).symm
  have hp : rep (k / F.length) F ++ F.take (k % F.length + 1) <+: rep (k / F.length + 1) F := take_prefix_rep _ _ _
  have hlen : (rep (k / F.length) F ++ F.take (k % F.length + 1)).length = k + 1 := by
    rw [List.length_append, length_rep, List.length_take, Nat.min_eq_left (by omega)]; omega
  have hp0 : rep (k / F.length) F ++ F.take (k % F.length) <+: rep (k / F.length + 1) F := take_prefix_rep _ _ _
  have hlen0 : (rep (k / F.length) F ++ F.take (k % F.length)).length = k := by
    rw [List.length_append, length_rep, List.length_take, Nat.min_eq_left (by omega)]; omega
  have e1 := eq_cycTake_of_prefix F _ _ hf hp
  have e0 := eq_cycTake_of_prefix F _ _ hf hp0
  rw [hlen] at e1; rw [hlen0] at e0
  rw [← e1, ← e0, take_succ_getElem F _ a h, List.append_assoc]

theorem cycTake_zero (F : List α) : cycTake F 0 = [] := by simp [cycTake]

end Pandora.Proofs.C08
