/-
C05 — progress: a state in which no step that is BOUND to happen changes anything is a finished pool
(`Done`): `Pool.Run` returned, `onWaitDone` was called once, no goroutine of the pool is left, every gun is
accounted for. Together with the ranking function of `C05Live` (every effective step decreases `mu` once the run
context is cancelled) this is termination of every fair execution.
-/
import Pandora.Proofs.C05Live

namespace Pandora.Proofs.C05
open Pandora.Model.C05

/-- Steps that are bound to happen once they are enabled: the engine's own steps (every `select` with a ready
case fires), calls into components that return (gun / schedule factories, `Bind`, `WarmUp`), and the return of a
goroutine whose context is cancelled (the component contract: provider, aggregator, startup waiter and
`instance.Run` return after their context is done). Not bound to happen: the caller's cancel, startup tokens,
the end of the shared schedule, and returns of components whose context is still live. -/
def Must (s : State) : Choice → Prop
  | .extCancel => False
  | .warm _ => True
  | .sched _ => True
  | .provRet _ => s.runC = true
  | .aggRet _ => s.runC = true
  | .rpsFinished => False
  | .startFirst _ => False
  | .startTick => False
  | .startEnd => s.startC = true
  | .instCreate _ _ => True
  | .instRet _ _ => s.runC = true
  | .awaitProv => True
  | .awaitAgg => True
  | .awaitStart => True
  | .awaitRun => True
  | .errDeliver => True
  | .errSuppress => True
  | .mainCancel => True
  | .mainClosed => True

/-- nothing that is bound to happen can change the state any more -/
def Quiescent (cfg : Cfg) (s : State) : Prop := ∀ c, Must s c → step cfg s c = s

/-- the pool is finished: nothing of it is left running -/
structure Done (cfg : Cfg) (s : State) : Prop where
  returned : ∃ r, s.main = .returned r
  waitDone : s.waitDone = 1
  awaiter : s.aw = .off ∨ s.aw = .finished
  noInst : s.live = []
  noBuf : s.buf = []
  prov : s.prov = .idle ∨ s.prov = .taken
  agg : s.agg = .idle ∨ s.agg = .taken
  start : s.startPc = .idle ∨ (s.startPc = .done ∧ s.startTaken = true)
  guns : ∀ g ∈ s.guns, GunDone cfg g

/-! ### what the awaiter-side helpers leave alone -/

/-- the fields that `finish`, `checkAll`, `afterErr`, `handleRes` never touch -/
def Same (a b : State) : Prop :=
  a.prov = b.prov ∧ a.agg = b.agg ∧ a.startTaken = b.startTaken ∧ a.awaited = b.awaited ∧ a.main = b.main ∧
  a.poolC = b.poolC ∧ a.extC = b.extC ∧ (b.runC = true → a.runC = true)

theorem same_finish (s : State) : Same (finish s) s := by
  unfold finish Same; split <;> simp

theorem same_checkAll (s : State) : Same (checkAll s) s := by
  unfold checkAll Same; repeat' split
  all_goals simp

theorem same_trans {a b c : State} (h1 : Same a b) (h2 : Same b c) : Same a c := by
  unfold Same at *; grind

theorem same_afterErr (s : State) (chk : Bool) : Same (afterErr s chk) s := by
  unfold afterErr
  refine same_trans (same_finish _) ?_
  split
  · refine same_trans (same_checkAll _) ?_; simp [Same]
  · simp [Same]

theorem same_handleRes (s : State) (w : Wrap) (r : Ret) (done chk : Bool) : Same (handleRes s w r done chk) s := by
  unfold handleRes
  split
  · exact same_afterErr _ _
  · simp [Same]

theorem aw_finish (s : State) (h : s.aw = .loop) : (finish s).aw = .loop ∨ (finish s).aw = .finished := by
  unfold finish; split <;> simp [h]

theorem aw_afterErr (s : State) (chk : Bool) : (afterErr s chk).aw = .loop ∨ (afterErr s chk).aw = .finished := by
  unfold afterErr
  apply aw_finish
  split
  · rw [checkAll_aw]
  · rfl

/-! ### the caller's cancel is remembered: `extC → poolC` -/

def InvE (s : State) : Prop := (s.extC = true → s.poolC = true)

macro "e_simp" : tactic => `(tactic|
  simp only [InvE, cancelAll, mainReturn, addErr, sendRes, nextWait] at *)

theorem e_of_same {a b : State} (h : Same a b) (hb : InvE b) : InvE a := by
  unfold Same InvE at *; grind

theorem step_invE (cfg : Cfg) (s : State) (c : Choice) (h : InvE s) : InvE (step cfg s c) := by
  cases c with
  | extCancel => simp [step, InvE, cancelAll]
  | warm o =>
    simp only [step]; split
    · (cases o <;> (e_simp; grind))
    · exact h
  | sched o =>
    simp only [step]; split
    · (cases o <;> (e_simp; grind))
    · exact h
  | provRet r =>
    simp only [step]; split
    · (cases r <;> (e_simp; grind))
    · exact h
  | aggRet r =>
    simp only [step]; split
    · (cases r <;> (e_simp; grind))
    · exact h
  | rpsFinished =>
    simp only [step]; split
    · (e_simp; grind)
    · exact h
  | startFirst o =>
    simp only [step]; split
    · (cases o <;> (e_simp; grind))
    · exact h
  | startTick =>
    simp only [step]; split
    · (e_simp; grind)
    · exact h
  | startEnd =>
    simp only [step]; split
    · (e_simp; grind)
    · exact h
  | instCreate i o =>
    simp only [step]; split
    · cases o <;> (e_simp; grind)
    · exact h
  | instRet i r =>
    simp only [step]; split
    · split
      · exact h
      · cases r <;> (e_simp; grind)
    · exact h
  | awaitProv =>
    simp only [step]; split
    · exact e_of_same (same_handleRes _ _ _ _ _) (by e_simp; grind)
    · exact h
  | awaitAgg =>
    simp only [step]; split
    · exact e_of_same (same_handleRes _ _ _ _ _) (by e_simp; grind)
    · exact h
  | awaitStart =>
    simp only [step]; split
    · exact e_of_same (same_handleRes _ _ _ _ _) (by e_simp; grind)
    · exact h
  | awaitRun =>
    simp only [step]; split
    · split
      · exact e_of_same (same_afterErr _ _) (by split <;> (e_simp; grind))
      · exact e_of_same (same_handleRes _ _ _ _ _) (by e_simp; grind)
    · exact h
  | errDeliver =>
    simp only [step]; split
    · exact e_of_same (same_afterErr _ _) (by e_simp; grind)
    · exact h
  | errSuppress =>
    simp only [step]; split
    · repeat' split
      all_goals first | exact h | exact e_of_same (same_afterErr _ _) h
    · exact h
  | mainCancel =>
    simp only [step]; split
    · (e_simp; grind)
    · exact h
  | mainClosed =>
    simp only [step]; split
    · (e_simp; grind)
    · exact h

theorem invE_init : InvE init := by simp [InvE, init]

theorem foldl_invE (cfg : Cfg) (cs : List Choice) (s : State) (h : InvE s) : InvE (cs.foldl (step cfg) s) := by
  induction cs generalizing s with
  | nil => exact h
  | cons c cs ih => exact ih _ (step_invE cfg s c h)

theorem run_invE (cfg : Cfg) (cs : List Choice) : InvE (run cfg cs) := foldl_invE cfg cs _ invE_init

/-! ### the run context stays cancelled -/

theorem step_runC (cfg : Cfg) (s : State) (c : Choice) (h : s.runC = true) : (step cfg s c).runC = true := by
  cases c with
  | extCancel => simp [step, cancelAll]
  | warm o =>
    simp only [step]; split
    · (cases o <;> simp [mainReturn, cancelAll, h])
    · exact h
  | sched o =>
    simp only [step]; split
    · (cases o <;> simp [mainReturn, cancelAll, h])
    · exact h
  | provRet r =>
    simp only [step]; split
    · (cases r <;> simp [addErr, h])
    · exact h
  | aggRet r =>
    simp only [step]; split
    · (cases r <;> simp [addErr, h])
    · exact h
  | rpsFinished =>
    simp only [step]; split
    · simp [h]
    · exact h
  | startFirst o =>
    simp only [step]; split
    · (cases o <;> simp [h])
    · exact h
  | startTick =>
    simp only [step]; split
    · simp [h]
    · exact h
  | startEnd =>
    simp only [step]; split
    · simp [h]
    · exact h
  | instCreate i o =>
    simp only [step]; split
    · cases o <;> (simp only [sendRes]; by_cases hro : s.runResOpen = false <;> simp [hro, h])
    · exact h
  | instRet i r =>
    simp only [step]; split
    · split
      · exact h
      · cases r <;> (simp only [sendRes, addErr]; by_cases hro : s.runResOpen = false <;> simp [hro, h])
    · exact h
  | awaitProv =>
    simp only [step]; split
    · exact (same_handleRes _ _ _ _ _).2.2.2.2.2.2.2 h
    · exact h
  | awaitAgg =>
    simp only [step]; split
    · exact (same_handleRes _ _ _ _ _).2.2.2.2.2.2.2 h
    · exact h
  | awaitStart =>
    simp only [step]; split
    · exact (same_handleRes _ _ _ _ _).2.2.2.2.2.2.2 h
    · exact h
  | awaitRun =>
    simp only [step]; split
    · split
      · exact (same_afterErr _ _).2.2.2.2.2.2.2 (by split <;> simp [h])
      · exact (same_handleRes _ _ _ _ _).2.2.2.2.2.2.2 h
    · exact h
  | errDeliver =>
    simp only [step]; split
    · exact (same_afterErr _ _).2.2.2.2.2.2.2 (by simp [mainReturn, cancelAll])
    · exact h
  | errSuppress =>
    simp only [step]; split
    · repeat' split
      all_goals first | exact h | exact (same_afterErr _ _).2.2.2.2.2.2.2 h
    · exact h
  | mainCancel =>
    simp only [step]; split
    · simp [mainReturn, cancelAll]
    · exact h
  | mainClosed =>
    simp only [step]; split
    · simp [mainReturn, cancelAll]
    · exact h

/-! ### termination: at most `mu s` effective steps are left once the run context is cancelled -/

/-- number of steps of the continuation `cs` that change the state -/
def effSteps (cfg : Cfg) : State → List Choice → Nat
  | _, [] => 0
  | s, c :: cs => (if step cfg s c = s then 0 else 1) + effSteps cfg (step cfg s c) cs

theorem effSteps_le (cfg : Cfg) (cs : List Choice) (s : State) (ha : InvA s) (he : InvE s) (hr : s.runC = true) :
    effSteps cfg s cs + mu (cs.foldl (step cfg) s) ≤ mu s := by
  induction cs generalizing s with
  | nil => simp [effSteps]
  | cons c cs ih =>
    have ih' := ih (step cfg s c) (step_invA cfg s c ha) (step_invE cfg s c he) (step_runC cfg s c hr)
    simp only [effSteps, List.foldl_cons]
    rcases mu_step cfg s c ha hr he with h | h
    · rw [h] at ih' ⊢; simp; exact ih'
    · split <;> omega

/-! ### progress -/

theorem progress (cfg : Cfg) (hw : cfg.fixWaitDone = true) (s : State) (ha : InvA s) (hg : InvG cfg s)
    (hr : s.runC = true) (hq : Quiescent cfg s) : Done cfg s := by
  have hsc : s.startC = true := ha.1.ctx2 hr
  -- the main goroutine is past warm-up and `runAsync`
  have m1 : s.main ≠ .init := by
    intro hm
    have h := hq (.warm (.ok false)) trivial
    simp only [step, hm, if_true] at h
    have := congrArg State.main h
    simp [hm] at this
  have m2 : s.main ≠ .warmed := by
    intro hm
    have h := hq (.sched none) trivial
    simp only [step, hm, if_true] at h
    have := congrArg State.main h
    simp [hm] at this
  -- provider, aggregator, start goroutine have returned
  have p1 : s.prov ≠ .running := by
    intro hp
    have h := hq (.provRet .ok) hr
    simp only [step, hp, retAllowed, and_self, if_true, addErr] at h
    have := congrArg State.prov h
    simp [hp] at this
  have p2 : s.agg ≠ .running := by
    intro hp
    have h := hq (.aggRet .ok) hr
    simp only [step, hp, retAllowed, and_self, if_true, addErr] at h
    have := congrArg State.agg h
    simp [hp] at this
  have p3 : s.startPc = .idle ∨ s.startPc = .done := by
    have h := hq .startEnd hsc
    simp only [step] at h
    split at h
    · rename_i hc
      have := congrArg State.startPc h
      simp at this
      rw [← this] at hc
      simp at hc
    · rename_i hc
      cases hs : s.startPc with
      | idle => exact Or.inl rfl
      | done => exact Or.inr rfl
      | waiting f => cases f <;> simp [hs] at hc
      | exiting => simp [hs] at hc
  -- no instance goroutine is left
  have l1 : s.live = [] := by
    cases hl : s.live with
    | nil => rfl
    | cons x l =>
      exfalso
      obtain ⟨id, gun⟩ := x
      cases gun with
      | none =>
        have h := hq (.instCreate 0 (.ok false)) trivial
        simp only [step, hl, List.getElem?_cons_zero] at h
        have := congrArg State.live h
        simp [hl] at this
      | some g =>
        have h := hq (.instRet 0 .ok) hr
        simp only [step, hl, List.getElem?_cons_zero, reduceCtorEq, false_and, ite_false] at h
        have := congrArg (fun t => t.live.length) h
        simp only [sendRes, addErr] at this
        by_cases hro : s.runResOpen = false <;> simp [hro, hl] at this
  obtain ⟨hW, hpos, hchk⟩ := ha
  cases haw : s.aw with
  | off =>
    have hpre := hW.pre haw
    have hmain : ∃ r, s.main = .returned r := by
      cases hm : s.main with
      | init => exact absurd hm m1
      | warmed => exact absurd hm m2
      | selecting => exact absurd haw (hg.sel hm)
      | returned r => exact ⟨r, rfl⟩
    obtain ⟨r, hm⟩ := hmain
    refine ⟨⟨r, hm⟩, hg.offRet hw haw (by simp [mainRunning, hm]), Or.inl haw, l1, hpre.2.2.2.2.1,
      Or.inl hpre.1, Or.inl hpre.2.1, Or.inl hpre.2.2.1, ?_⟩
    intro g hgm
    simp only [State.guns, l1, List.filterMap_nil, List.append_nil, List.mem_append, Option.mem_toList] at hgm
    rcases hgm with hgm | hgm
    · exact hg.warm1 g hgm
    · exact hg.ret1 g hgm
  | loop =>
    exfalso
    have hne : s.aw ≠ .off := by simp [haw]
    have hon := hW.on hne
    have htw := hW.toWait hne
    have h0 := hpos haw
    -- every result has been consumed, otherwise an await step is effective
    have c1 : s.prov = .taken := by
      cases hp : s.prov with
      | idle => exact absurd hp hon.1
      | running => exact absurd hp p1
      | taken => rfl
      | ready r =>
        exfalso
        have h := hq .awaitProv trivial
        simp only [step, haw, hp] at h
        have this := congrArg State.prov h
        rw [(same_handleRes _ _ _ _ _).1] at this
        simp [hp] at this
    have c2 : s.agg = .taken := by
      cases hp : s.agg with
      | idle => exact absurd hp hon.2.1
      | running => exact absurd hp p2
      | taken => rfl
      | ready r =>
        exfalso
        have h := hq .awaitAgg trivial
        simp only [step, haw, hp] at h
        have this := congrArg State.agg h
        rw [(same_handleRes _ _ _ _ _).2.1] at this
        simp [hp] at this
    have c3 : s.startTaken = true := by
      cases ht : s.startTaken with
      | true => rfl
      | false =>
        exfalso
        have hd : s.startPc = .done := by
          rcases p3 with h | h
          · exact absurd h hon.2.2.1
          · exact h
        have hsome := hW.startDone.1 hd
        cases hsr : s.startRes with
        | none => simp [hsr] at hsome
        | some nr =>
          obtain ⟨n, r⟩ := nr
          have h := hq .awaitStart trivial
          simp only [step, haw, ht, hsr] at h
          have this := congrArg State.startTaken h
          rw [(same_handleRes _ _ _ _ _).2.2.1] at this
          simp [ht] at this
    have c4 : s.runResOpen = false := by
      cases ho : s.runResOpen with
      | false => rfl
      | true =>
        exfalso
        have hlt := hchk (Or.inl haw) c3 ho
        have hcount := hW.count
        have htk := hW.taken c3
        rw [l1] at hcount
        cases hb : s.buf with
        | nil => simp [hb] at hcount; omega
        | cons x rest =>
          obtain ⟨id, r⟩ := x
          have h := hq .awaitRun trivial
          simp only [step, haw, ho, hb] at h
          split at h
          · have this := congrArg State.awaited h
            rw [(same_afterErr _ _).2.2.2.1] at this
            first | (simp at this) | (split at this <;> simp at this)
          · have this := congrArg State.awaited h
            rw [(same_handleRes _ _ _ _ _).2.2.2.1] at this
            simp at this
    simp [cnt, c1, c2, c3, c4] at htw
    omega
  | onErr w r chk =>
    exfalso
    cases hm : s.main with
    | init => exact absurd hm m1
    | warmed => exact absurd hm m2
    | selecting =>
      have h := hq .errDeliver trivial
      simp only [step, haw, hm] at h
      have this := congrArg State.main h
      rw [(same_afterErr _ _).2.2.2.2.1] at this
      simp [mainReturn, cancelAll, hm] at this
    | returned res =>
      have hp : s.poolC = true := hW.retCancel res hm
      have h := hq .errSuppress trivial
      simp only [step, haw, hp, hr, ite_self, if_true] at h
      have := aw_afterErr s chk
      rw [h, haw] at this
      simp at this
  | finished =>
    have hne : s.aw ≠ .off := by simp [haw]
    have hon := hW.on hne
    have htw := hW.toWait hne
    have hfin := hW.fin haw
    have hmain : ∃ r, s.main = .returned r := by
      cases hm : s.main with
      | init => exact absurd hm m1
      | warmed => exact absurd hm m2
      | selecting =>
        exfalso
        have hc : s.closedErr = true := hW.closed.2 haw
        have h := hq .mainClosed trivial
        simp only [step, hm, hc, and_self, if_true] at h
        have := congrArg State.main h
        simp [mainReturn, cancelAll, hm] at this
      | returned r => exact ⟨r, rfl⟩
    rw [hfin] at htw
    have hc : (s.prov = .taken ∧ s.agg = .taken) ∧ s.startTaken = true ∧ s.runResOpen = false := by
      simp only [cnt] at htw
      refine ⟨⟨?_, ?_⟩, ?_, ?_⟩ <;> grind
    have hcl := hW.closedRun hne hc.2.2
    refine ⟨hmain, hW.wd1 haw, Or.inr haw, l1, hcl.2.2, Or.inr hc.1.1, Or.inr hc.1.2, Or.inr ⟨?_, hc.2.1⟩, ?_⟩
    · rcases p3 with h | h
      · exact absurd h hon.2.2.1
      · exact h
    · intro g hgm
      simp only [State.guns, l1, List.filterMap_nil, List.append_nil, List.mem_append, Option.mem_toList] at hgm
      rcases hgm with hgm | hgm
      · exact hg.warm1 g hgm
      · exact hg.ret1 g hgm

end Pandora.Proofs.C05
