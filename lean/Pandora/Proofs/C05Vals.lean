/-
C05 — value invariants of the pool model: what can sit in the result channels, what `onErrAwaited` is handed,
what `Pool.Run` can return; who may have cancelled the pool context.
-/
import Pandora.Proofs.C05Inv

namespace Pandora.Proofs.C05
open Pandora.Model.C05

/-- a value a component put on a result channel, `done` = its context's state now -/
def ValOK (s : State) (done : Bool) (r : Ret) : Prop :=
  (r = .ctx → done = true) ∧ ∀ e, r = .err e → e ∈ s.compErrs

structure InvB (s : State) : Prop where
  provVal : ∀ r, s.prov = .ready r → ValOK s s.runC r ∧ r ≠ .ooa
  aggVal : ∀ r, s.agg = .ready r → ValOK s s.runC r ∧ r ≠ .ooa
  startVal : ∀ n r, s.startRes = some (n, r) → ValOK s s.startC r ∧ r ≠ .ooa
  bufVal : ∀ x ∈ s.buf, ValOK s s.runC x.2
  onErrVal : ∀ w r c, s.aw = .onErr w r c → ∃ e, r = .err e ∧ e ∈ s.compErrs
  failVal : ∀ w c, s.main = .returned (.fail w c) → ∃ e, c = .err e ∧ e ∈ s.errsAtReturn
  atRet : ∀ e ∈ s.errsAtReturn, e ∈ s.compErrs
  poolExt : s.poolC = true → s.extC = true ∨ ∃ r, s.main = .returned r
  retCtx : s.main = .returned .ctx → s.extAtReturn = true
  retOk : s.main = .returned .ok → s.aw = .finished
  retExt : s.extAtReturn = true → s.extC = true

theorem invB_init : InvB init := by
  constructor <;> simp [init, ValOK]

macro "b_tac" : tactic => `(tactic|
  (constructor <;>
   simp only [cancelAll, mainReturn, finish, checkAll, afterErr, handleRes, addErr, sendRes, nextWait, AwBusy, cnt,
     ValOK, Ret.isCtxError, retAllowed, List.mem_append, List.mem_cons, List.mem_singleton, List.not_mem_nil] at * <;>
   grind))

macro "b_destruct" h:ident : tactic => `(tactic|
  obtain ⟨b1,b2,b3,b4,b5,b6,b7,b8,b9,b10,b11⟩ := $h)

/-- the awaiter-side helpers do not touch what `InvB` talks about, except `aw` -/
theorem b_finish (s : State) (h : InvB s) (hl : s.main = .returned .ok → s.aw = .loop → 0 < s.toWait) :
    InvB (finish s) := by
  b_destruct h
  unfold finish
  split
  · b_tac
  · b_tac

theorem b_checkAll (s : State) (h : InvB s) : InvB (checkAll s) := by
  b_destruct h
  unfold checkAll
  repeat' split
  all_goals b_tac

end Pandora.Proofs.C05
