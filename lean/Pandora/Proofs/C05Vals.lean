/-
C05 — value invariants of the pool model: what can sit in the result channels, what `onErrAwaited` is handed,
what `Pool.Run` can return; who may have cancelled the pool context.
-/
import Pandora.Proofs.C05Inv

namespace Pandora.Proofs.C05
open Pandora.Model.C05

/-- a value a component put on a result channel, `done` = its context's state now -/
def ValOK (s : State) (done : Bool) (r : Ret) : Prop :=
  (r = .ctx → done = true) ∧ ∀ e, r = .err e → e ∈ s.compErrs

structure InvB (s : State) : Prop where
  provVal : ∀ r, s.prov = .ready r → ValOK s s.runC r ∧ r ≠ .ooa
  aggVal : ∀ r, s.agg = .ready r → ValOK s s.runC r ∧ r ≠ .ooa
  startVal : ∀ n r, s.startRes = some (n, r) → ValOK s s.startC r ∧ r ≠ .ooa
  bufVal : ∀ x ∈ s.buf, ValOK s s.runC x.2
  onErrVal : ∀ w r c, s.aw = .onErr w r c → ∃ e, r = .err e ∧ e ∈ s.compErrs
  failVal : ∀ w c, s.main = .returned (.fail w c) → ∃ e, c = .err e ∧ e ∈ s.errsAtReturn
  atRet : ∀ e ∈ s.errsAtReturn, e ∈ s.compErrs
  poolExt : s.poolC = true → s.extC = true ∨ ∃ r, s.main = .returned r
  retCtx : s.main = .returned .ctx → s.extAtReturn = true
  retOk : s.main = .returned .ok → s.aw = .finished
  retExt : s.extAtReturn = true → s.extC = true

theorem invB_init : InvB init := by
  constructor <;> simp [init, ValOK]

macro "b_tac" : tactic => `(tactic|
  (constructor <;>
   simp only [cancelAll, mainReturn, finish, checkAll, afterErr, handleRes, addErr, sendRes, nextWait, AwBusy, cnt,
     ValOK, Ret.isCtxError, retAllowed, List.mem_append, List.mem_cons, List.mem_singleton, List.not_mem_nil] at * <;>
   grind))

macro "b_destruct" h:ident : tactic => `(tactic|
  obtain ⟨b1,b2,b3,b4,b5,b6,b7,b8,b9,b10,b11⟩ := $h)

/-- the awaiter-side helpers do not touch what `InvB` talks about, except `aw` -/
theorem b_finish (s : State) (h : InvB s) : InvB (finish s) := by
  b_destruct h
  unfold finish
  split
  · b_tac
  · b_tac

theorem b_checkAll (s : State) (h : InvB s) : InvB (checkAll s) := by
  b_destruct h
  unfold checkAll
  repeat' split
  all_goals b_tac


theorem b_afterErr (s : State) (chk : Bool) (h : InvB { s with aw := .loop }) : InvB (afterErr s chk) := by
  unfold afterErr
  apply b_finish
  split
  · exact b_checkAll _ h
  · exact h

theorem b_handleRes (s : State) (w : Wrap) (r : Ret) (done chk : Bool) (h : InvB s) (hl : s.aw = .loop)
    (hv : r.isCtxError done = false → ∃ e, r = .err e ∧ e ∈ s.compErrs) : InvB (handleRes s w r done chk) := by
  unfold handleRes
  split
  · apply b_afterErr
    have e : { s with aw := AwPc.loop } = s := by cases s; simp_all
    rw [e]; exact h
  · rename_i hc
    have hv' := hv (by simpa using hc)
    b_destruct h; b_tac

macro "a_destruct" h:ident : tactic => `(tactic|
  obtain ⟨⟨h1,h2,h3,h4,h5,h6,h7,h8,h9,h10,h12,h13,h14,h15,h16,h17,h18,h19,h20,h21⟩, h11, h22⟩ := $h)

section
variable (cfg : Cfg) (s : State)

theorem b_ext (ha : InvA s) (h : InvB s) : InvB (step cfg s .extCancel) := by
  simp only [step]; b_destruct h; b_tac

theorem b_warm (o) (ha : InvA s) (h : InvB s) : InvB (step cfg s (.warm o)) := by
  simp only [step]
  split
  · b_destruct h; a_destruct ha; cases o <;> b_tac
  · exact h

theorem b_sched (o) (ha : InvA s) (h : InvB s) : InvB (step cfg s (.sched o)) := by
  simp only [step]
  split
  · b_destruct h; a_destruct ha; cases o <;> b_tac
  · exact h

theorem b_provRet (r) (ha : InvA s) (h : InvB s) : InvB (step cfg s (.provRet r)) := by
  simp only [step]
  split
  · b_destruct h; cases r <;> b_tac
  · exact h

theorem b_aggRet (r) (ha : InvA s) (h : InvB s) : InvB (step cfg s (.aggRet r)) := by
  simp only [step]
  split
  · b_destruct h; cases r <;> b_tac
  · exact h

theorem b_rps (ha : InvA s) (h : InvB s) : InvB (step cfg s .rpsFinished) := by
  simp only [step]
  split
  · b_destruct h; b_tac
  · exact h

theorem b_startFirst (o) (ha : InvA s) (h : InvB s) : InvB (step cfg s (.startFirst o)) := by
  simp only [step]
  split
  · b_destruct h; a_destruct ha; cases o <;> b_tac
  · exact h

theorem b_startTick (ha : InvA s) (h : InvB s) : InvB (step cfg s .startTick) := by
  simp only [step]
  split
  · b_destruct h; b_tac
  · exact h

theorem b_startEnd (ha : InvA s) (h : InvB s) : InvB (step cfg s .startEnd) := by
  simp only [step]
  split
  · b_destruct h; a_destruct ha; b_tac
  · exact h

theorem b_instCreate (i o) (ha : InvA s) (h : InvB s) : InvB (step cfg s (.instCreate i o)) := by
  simp only [step]
  split
  · b_destruct h; cases o <;> b_tac
  · exact h

theorem b_instRet (i r) (ha : InvA s) (h : InvB s) : InvB (step cfg s (.instRet i r)) := by
  simp only [step]
  split
  · split
    · exact h
    · b_destruct h; cases r <;> b_tac
  · exact h

theorem b_awaitProv (ha : InvA s) (h : InvB s) : InvB (step cfg s .awaitProv) := by
  simp only [step]
  split
  · rename_i r _ hp
    apply b_handleRes
    · b_destruct h; b_tac
    · assumption
    · have := h.provVal r hp; cases r <;> simp_all [ValOK, Ret.isCtxError]
  · exact h

theorem b_awaitAgg (ha : InvA s) (h : InvB s) : InvB (step cfg s .awaitAgg) := by
  simp only [step]
  split
  · rename_i r _ hp
    apply b_handleRes
    · b_destruct h; b_tac
    · assumption
    · have := h.aggVal r hp; cases r <;> simp_all [ValOK, Ret.isCtxError]
  · exact h

theorem b_awaitStart (ha : InvA s) (h : InvB s) : InvB (step cfg s .awaitStart) := by
  simp only [step]
  split
  · rename_i n r _ _ hp
    apply b_handleRes
    · b_destruct h; b_tac
    · assumption
    · have := h.startVal n r hp; cases r <;> simp_all [ValOK, Ret.isCtxError]
  · exact h

theorem b_awaitRun (ha : InvA s) (h : InvB s) : InvB (step cfg s .awaitRun) := by
  simp only [step]
  split
  · rename_i id r rest hl _ hb
    split
    · apply b_afterErr
      b_destruct h; split <;> b_tac
    · apply b_handleRes
      · b_destruct h; b_tac
      · assumption
      · have := h.bufVal (id, r) (by rw [hb]; exact List.mem_cons_self)
        cases r <;> simp_all [ValOK, Ret.isCtxError]
  · exact h

theorem b_errDeliver (ha : InvA s) (h : InvB s) : InvB (step cfg s .errDeliver) := by
  simp only [step]
  split
  · rename_i w r chk _ _
    apply b_afterErr
    b_destruct h; b_tac
  · exact h

theorem b_errSuppress (ha : InvA s) (h : InvB s) : InvB (step cfg s .errSuppress) := by
  simp only [step]
  split
  · rename_i w r chk _
    have key : InvB (afterErr s chk) := by
      apply b_afterErr
      b_destruct h; b_tac
    repeat' split
    all_goals first | exact h | exact key
  · exact h

theorem b_mainCancel (ha : InvA s) (h : InvB s) : InvB (step cfg s .mainCancel) := by
  simp only [step]
  split
  · b_destruct h; b_tac
  · exact h

theorem b_mainClosed (ha : InvA s) (h : InvB s) : InvB (step cfg s .mainClosed) := by
  simp only [step]
  split
  · b_destruct h; a_destruct ha; b_tac
  · exact h

end

theorem step_invB (cfg : Cfg) (s : State) (c : Choice) (ha : InvA s) (h : InvB s) : InvB (step cfg s c) := by
  cases c
  · exact b_ext cfg s ha h
  · exact b_warm cfg s _ ha h
  · exact b_sched cfg s _ ha h
  · exact b_provRet cfg s _ ha h
  · exact b_aggRet cfg s _ ha h
  · exact b_rps cfg s ha h
  · exact b_startFirst cfg s _ ha h
  · exact b_startTick cfg s ha h
  · exact b_startEnd cfg s ha h
  · exact b_instCreate cfg s _ _ ha h
  · exact b_instRet cfg s _ _ ha h
  · exact b_awaitProv cfg s ha h
  · exact b_awaitAgg cfg s ha h
  · exact b_awaitStart cfg s ha h
  · exact b_awaitRun cfg s ha h
  · exact b_errDeliver cfg s ha h
  · exact b_errSuppress cfg s ha h
  · exact b_mainCancel cfg s ha h
  · exact b_mainClosed cfg s ha h

theorem foldl_invAB (cfg : Cfg) (cs : List Choice) (s : State) (ha : InvA s) (h : InvB s) :
    InvA (cs.foldl (step cfg) s) ∧ InvB (cs.foldl (step cfg) s) := by
  induction cs generalizing s with
  | nil => exact ⟨ha, h⟩
  | cons c cs ih => exact ih _ (step_invA cfg s c ha) (step_invB cfg s c ha h)

theorem run_invB (cfg : Cfg) (cs : List Choice) : InvB (run cfg cs) :=
  (foldl_invAB cfg cs _ invA_init invB_init).2

end Pandora.Proofs.C05
