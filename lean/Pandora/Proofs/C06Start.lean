/-
C06 helper lemmas: `startInstances` returns the number of goroutines it started (Model/C06Start.lean), and what the
pool's transition system sees of it.
-/
import Pandora.Model.C06Start

namespace Pandora.Proofs.C06Start
open Pandora.Model.C06Start
open Pandora.Model.C06Pool (PSt PEv)

/-- `started` runs one ahead of the goroutines exactly between the first `started++` and the first `go` -/
def SInv (st : St) : Prop :=
  st.started = st.launched + (if st.pc = .firstGo then 1 else 0) ∧
  ((st.pc = .firstWait ∨ st.pc = .firstNew) → st.launched = 0)

theorem sinv_init : SInv {} := by simp [SInv]

theorem sinv_step {st : St} (h : SInv st) (e : SEv) : SInv (step {} st e) := by
  obtain ⟨h1, h2⟩ := h
  cases e with
  | wait ok =>
    cases hp : st.pc <;> cases ok <;> simp [step, SInv, hp] at h1 h2 ⊢ <;> omega
  | newInstance ok =>
    cases hp : st.pc <;> cases ok <;> simp [step, SInv, hp] at h1 h2 ⊢ <;> omega
  | go =>
    cases hp : st.pc <;> simp [step, SInv, hp] at h1 h2 ⊢ <;> omega

theorem sinv_run (tr : List SEv) {st : St} (h : SInv st) : SInv (run {} st tr) := by
  induction tr generalizing st with
  | nil => exact h
  | cons e es ih => exact ih (sinv_step h e)

/-! ### what the pool sees -/

theorem pool_run_append (a b : List PEv) (pst : PSt) :
    Pandora.Model.C06Pool.run pst (a ++ b) = Pandora.Model.C06Pool.run (Pandora.Model.C06Pool.run pst a) b := by
  induction a generalizing pst with
  | nil => rfl
  | cons e es ih => exact ih _

/-- the pool's view of `startInstances`: as many `.launch`es as goroutines, `starting` until it returns, the start
result on its way from then on -/
def Rel (st : St) (pst : PSt) : Prop :=
  pst.launched = st.launched ∧ pst.running = st.launched ∧
  (pst.starting = true ↔ st.pc ≠ .returned) ∧ (pst.startSent = true ↔ st.pc = .returned)

theorem rel_init (k : Nat) : Rel {} (Pandora.Model.C06Pool.init k) := by
  simp [Rel, Pandora.Model.C06Pool.init]

theorem rel_step (cfg : Cfg) {st : St} {pst : PSt} (h : Rel st pst) (e : SEv) :
    Rel (step cfg st e) (Pandora.Model.C06Pool.run pst (poolEvents cfg st e)) := by
  obtain ⟨h1, h2, h3, h4⟩ := h
  cases e with
  | wait ok =>
    cases hp : st.pc <;> cases ok <;>
      simp [step, poolEvents, Rel, hp, Pandora.Model.C06Pool.run, Pandora.Model.C06Pool.step] at h1 h2 h3 h4 ⊢ <;>
      simp_all
  | newInstance ok =>
    cases hp : st.pc <;> cases ok <;>
      simp [step, poolEvents, Rel, hp, Pandora.Model.C06Pool.run, Pandora.Model.C06Pool.step] at h1 h2 h3 h4 ⊢ <;>
      simp_all
  | go =>
    cases hp : st.pc <;>
      simp [step, poolEvents, Rel, hp, Pandora.Model.C06Pool.run, Pandora.Model.C06Pool.step] at h1 h2 h3 h4 ⊢ <;>
      simp_all

theorem rel_run (cfg : Cfg) (tr : List SEv) {st : St} {pst : PSt} (h : Rel st pst) :
    Rel (run cfg st tr) (Pandora.Model.C06Pool.run pst (poolTrace cfg st tr)) := by
  induction tr generalizing st pst with
  | nil => exact h
  | cons e es ih =>
    simp only [run, poolTrace, pool_run_append]
    exact ih (rel_step cfg h e)

/-! ### the pool's other bookkeeping is untouched by `.launch` / `.startDone` -/

theorem keep_step (pst : PSt) (e : PEv) (he : e = .launch ∨ e = .startDone) :
    (Pandora.Model.C06Pool.step pst e).toWait = pst.toWait ∧
    (Pandora.Model.C06Pool.step pst e).startResOpen = pst.startResOpen := by
  rcases he with rfl | rfl <;> simp only [Pandora.Model.C06Pool.step] <;> split <;> simp

theorem keep_run (tr : List PEv) (pst : PSt) (h : ∀ e ∈ tr, e = .launch ∨ e = .startDone) :
    (Pandora.Model.C06Pool.run pst tr).toWait = pst.toWait ∧
    (Pandora.Model.C06Pool.run pst tr).startResOpen = pst.startResOpen := by
  induction tr generalizing pst with
  | nil => exact ⟨rfl, rfl⟩
  | cons e es ih =>
    have h1 := keep_step pst e (h e (by simp))
    have h2 := ih (Pandora.Model.C06Pool.step pst e) (fun x hx => h x (by simp [hx]))
    simp only [Pandora.Model.C06Pool.run]
    exact ⟨h2.1.trans h1.1, h2.2.trans h1.2⟩

theorem poolEvents_only (cfg : Cfg) (st : St) (e : SEv) : ∀ x ∈ poolEvents cfg st e, x = .launch ∨ x = .startDone := by
  intro x hx
  simp only [poolEvents, List.mem_append] at hx
  rcases hx with hx | hx
  · split at hx <;> simp at hx; exact Or.inl hx
  · split at hx <;> simp at hx; exact Or.inr hx

theorem poolTrace_only (cfg : Cfg) (tr : List SEv) (st : St) :
    ∀ x ∈ poolTrace cfg st tr, x = .launch ∨ x = .startDone := by
  induction tr generalizing st with
  | nil => intro x hx; simp [poolTrace] at hx
  | cons e es ih =>
    intro x hx
    simp only [poolTrace, List.mem_append] at hx
    rcases hx with hx | hx
    · exact poolEvents_only cfg st e x hx
    · exact ih _ x hx

/-- the variant that counts before the check: a failed first instance is counted although no goroutine exists -/
theorem early_failed_stays (cfg : Cfg) (tr : List SEv) (st : St) (h : st.pc = .returned) :
    run cfg st tr = st := by
  induction tr generalizing st with
  | nil => rfl
  | cons e es ih =>
    have : step cfg st e = st := by cases e <;> simp [step, h]
    simp only [run, this]; exact ih st h

end Pandora.Proofs.C06Start
