/-
C01, the float64 gap of the LINE profile, non-decreasing case (from < to) — proved for u = 2⁻⁵³.

With from < to every intermediate quantity of line.go's `NewLine` + `lineDoAt` (cancellation-free form) is a sum,
product, quotient or square root of NON-NEGATIVE quantities, so relative errors only accumulate:

  `Rel u k x y`  —  y approximates the exact x ≥ 0 within k roundings:  (1−u)ᵏ·x ≤ y ≤ (1+u)ᵏ·x
  rules           fl: k+1 · product: k+m · sum: max · square root: k · quotient: k+2m (1/(1−u) ≤ (1+u)²)

The regenerated float64 reading (`Pandora.Gen.Schedule.NewLine_fl` / `lineDoAt_fl`: the same source, every float
operation wrapped in `fl`) puts operation i at ⌊x̃ᵢ⌋ with x̃ᵢ within 27 roundings of the exact instant Xᵢ; the bridge
`NewLine_fl_sem` walks whatever operation tree the current source yields (tactic `rel_tree`) and accepts up to 63.
Count space: the integral is monotone and cum(c·X) ≤ c²·cum(X) for c ≥ 1 (≥ for c ≤ 1), so
cum(⌊x̃⌋) ≤ (1+u)¹²⁶·i ≤ i + 2⁻⁴⁶·i and cum(⌊x̃⌋+1) ≥ (1−u)¹²⁶·i ≥ i − 2⁻⁴⁶·i — inside the Spec's δ = 2⁻⁴⁶·(i + 1 + max·D).
The decreasing case (one genuine subtraction b² − 2|a|i) is not covered.
-/
import Pandora.Proofs.C01Float

set_option linter.unusedVariables false
set_option linter.unusedTactic false
set_option linter.unreachableTactic false

namespace Pandora.Proofs.C01LineFloat
open Pandora Pandora.Gen.Schedule Pandora.Bridge.Schedule Pandora.Proofs.C01Float Pandora.Proofs.LineMath

/-- `y` approximates the exact non-negative quantity `x` within `k` roundings of relative size `u` -/
def Rel (u : ℝ) (k : ℕ) (x y : ℝ) : Prop := 0 ≤ x ∧ (1 - u) ^ k * x ≤ y ∧ y ≤ (1 + u) ^ k * x

variable {u : ℝ} {fl : ℝ → ℝ}

theorem Rel.exact {x : ℝ} (hx : 0 ≤ x) : Rel u 0 x x := ⟨hx, by simp, by simp⟩

theorem Rel.nonneg (hu : Rounding u fl) {k : ℕ} {x y : ℝ} (h : Rel u k x y) : 0 ≤ y := by
  have h1 : 0 ≤ 1 - u := by linarith [hu.u_small]
  exact le_trans (mul_nonneg (pow_nonneg h1 k) h.1) h.2.1

theorem Rel.mono (hu : Rounding u fl) {k m : ℕ} {x y : ℝ} (hkm : k ≤ m) (h : Rel u k x y) : Rel u m x y := by
  have h0 := hu.u_nonneg
  have h1 : 0 ≤ 1 - u := by linarith [hu.u_small]
  refine ⟨h.1, le_trans ?_ h.2.1, le_trans h.2.2 ?_⟩
  · exact mul_le_mul_of_nonneg_right (pow_le_pow_of_le_one h1 (by linarith) hkm) h.1
  · exact mul_le_mul_of_nonneg_right (pow_le_pow_right₀ (by linarith) hkm) h.1

theorem Rel.round (hu : Rounding u fl) {k : ℕ} {x y : ℝ} (h : Rel u k x y) : Rel u (k + 1) x (fl y) := by
  have h0 := hu.u_nonneg
  have h1 : 0 ≤ 1 - u := by linarith [hu.u_small]
  have hy := h.nonneg hu
  refine ⟨h.1, ?_, ?_⟩
  · calc (1 - u) ^ (k + 1) * x = (1 - u) * ((1 - u) ^ k * x) := by ring
      _ ≤ (1 - u) * y := mul_le_mul_of_nonneg_left h.2.1 h1
      _ ≤ fl y := hu.lo hy
  · calc fl y ≤ (1 + u) * y := hu.hi hy
      _ ≤ (1 + u) * ((1 + u) ^ k * x) := mul_le_mul_of_nonneg_left h.2.2 (by linarith)
      _ = (1 + u) ^ (k + 1) * x := by ring

theorem Rel.mul (hu : Rounding u fl) {k m : ℕ} {a a' b b' : ℝ} (ha : Rel u k a a') (hb : Rel u m b b') :
    Rel u (k + m) (a * b) (a' * b') := by
  have h0 := hu.u_nonneg
  have h1 : 0 ≤ 1 - u := by linarith [hu.u_small]
  have ha' := ha.nonneg hu
  have hb' := hb.nonneg hu
  refine ⟨mul_nonneg ha.1 hb.1, ?_, ?_⟩
  · calc (1 - u) ^ (k + m) * (a * b) = ((1 - u) ^ k * a) * ((1 - u) ^ m * b) := by ring
      _ ≤ a' * b' := mul_le_mul ha.2.1 hb.2.1 (mul_nonneg (pow_nonneg h1 m) hb.1) ha'
  · calc a' * b' ≤ ((1 + u) ^ k * a) * ((1 + u) ^ m * b) :=
          mul_le_mul ha.2.2 hb.2.2 hb' (mul_nonneg (pow_nonneg (by linarith) k) ha.1)
      _ = (1 + u) ^ (k + m) * (a * b) := by ring

theorem Rel.add {k : ℕ} {a a' b b' : ℝ} (ha : Rel u k a a') (hb : Rel u k b b') : Rel u k (a + b) (a' + b') := by
  refine ⟨add_nonneg ha.1 hb.1, ?_, ?_⟩
  · have := add_le_add ha.2.1 hb.2.1; linarith [mul_add ((1 - u) ^ k) a b]
  · have := add_le_add ha.2.2 hb.2.2; linarith [mul_add ((1 + u) ^ k) a b]

theorem Rel.sqrt (hu : Rounding u fl) {k : ℕ} {a a' : ℝ} (ha : Rel u k a a') : Rel u k (Real.sqrt a) (Real.sqrt a') := by
  have h0 := hu.u_nonneg
  have h1 : 0 ≤ 1 - u := by linarith [hu.u_small]
  have hlo0 : 0 ≤ (1 - u) ^ k := pow_nonneg h1 k
  have hlo1 : (1 - u) ^ k ≤ 1 := pow_le_one₀ h1 (by linarith)
  have hhi1 : 1 ≤ (1 + u) ^ k := one_le_pow₀ (by linarith)
  refine ⟨Real.sqrt_nonneg a, ?_, ?_⟩
  · calc (1 - u) ^ k * Real.sqrt a ≤ Real.sqrt ((1 - u) ^ k) * Real.sqrt a := by
          apply mul_le_mul_of_nonneg_right _ (Real.sqrt_nonneg a)
          apply Real.le_sqrt_of_sq_le
          calc ((1 - u) ^ k) ^ 2 = (1 - u) ^ k * (1 - u) ^ k := by ring
            _ ≤ (1 - u) ^ k * 1 := mul_le_mul_of_nonneg_left hlo1 hlo0
            _ = (1 - u) ^ k := by ring
      _ = Real.sqrt ((1 - u) ^ k * a) := (Real.sqrt_mul hlo0 a).symm
      _ ≤ Real.sqrt a' := Real.sqrt_le_sqrt ha.2.1
  · calc Real.sqrt a' ≤ Real.sqrt ((1 + u) ^ k * a) := Real.sqrt_le_sqrt ha.2.2
      _ = Real.sqrt ((1 + u) ^ k) * Real.sqrt a := Real.sqrt_mul (by linarith) a
      _ ≤ (1 + u) ^ k * Real.sqrt a := by
          apply mul_le_mul_of_nonneg_right _ (Real.sqrt_nonneg a)
          rw [Real.sqrt_le_left (by linarith)]
          calc (1 + u) ^ k = (1 + u) ^ k * 1 := by ring
            _ ≤ (1 + u) ^ k * (1 + u) ^ k := mul_le_mul_of_nonneg_left hhi1 (by linarith)
            _ = ((1 + u) ^ k) ^ 2 := by ring


/-- division: the divisor's roundings count twice on the way up (1/(1−u) ≤ (1+u)²) -/
theorem Rel.div (hu : Rounding u fl) {k m : ℕ} {a a' b b' : ℝ} (ha : Rel u k a a') (hb : Rel u m b b') (hb0 : 0 < b) :
    Rel u (k + 2 * m) (a / b) (a' / b') := by
  have h0 := hu.u_nonneg
  have hs := hu.u_small
  have h1 : 0 < 1 - u := by linarith
  have hp : 0 < 1 + u := by linarith
  have hlo : 0 < (1 - u) ^ m := pow_pos h1 m
  have hhi : 0 < (1 + u) ^ m := pow_pos hp m
  have hb'pos : 0 < b' := lt_of_lt_of_le (mul_pos hlo hb0) hb.2.1
  have ha' := ha.nonneg hu
  -- (1+u)²(1−u) ≥ 1 and (1−u)²(1+u) ≤ 1
  have e1 : 1 ≤ (1 + u) ^ 2 * (1 - u) := by nlinarith [mul_nonneg h0 h0, mul_nonneg (mul_nonneg h0 h0) h0]
  have e2 : (1 - u) ^ 2 * (1 + u) ≤ 1 := by nlinarith [mul_nonneg h0 h0, mul_nonneg (mul_nonneg h0 h0) h0]
  have e1m : 1 ≤ (1 + u) ^ (2 * m) * (1 - u) ^ m := by
    have : (1 + u) ^ (2 * m) * (1 - u) ^ m = ((1 + u) ^ 2 * (1 - u)) ^ m := by rw [mul_pow, ← pow_mul]
    rw [this]; exact one_le_pow₀ e1
  have e2m : (1 - u) ^ (2 * m) * (1 + u) ^ m ≤ 1 := by
    have : (1 - u) ^ (2 * m) * (1 + u) ^ m = ((1 - u) ^ 2 * (1 + u)) ^ m := by rw [mul_pow, ← pow_mul]
    rw [this]; exact pow_le_one₀ (by positivity) e2
  refine ⟨div_nonneg ha.1 hb0.le, ?_, ?_⟩
  · rw [le_div_iff₀ hb'pos]
    -- (1−u)^(k+2m)·(a/b)·b' ≤ (1−u)^(k+2m)·(a/b)·(1+u)^m·b ≤ (1−u)^k·a ≤ a'
    calc (1 - u) ^ (k + 2 * m) * (a / b) * b' ≤ (1 - u) ^ (k + 2 * m) * (a / b) * ((1 + u) ^ m * b) :=
          mul_le_mul_of_nonneg_left hb.2.2 (mul_nonneg (pow_nonneg h1.le _) (div_nonneg ha.1 hb0.le))
      _ = ((1 - u) ^ (2 * m) * (1 + u) ^ m) * ((1 - u) ^ k * a) := by
          rw [pow_add]; field_simp
      _ ≤ 1 * ((1 - u) ^ k * a) := mul_le_mul_of_nonneg_right e2m (mul_nonneg (pow_nonneg h1.le _) ha.1)
      _ = (1 - u) ^ k * a := one_mul _
      _ ≤ a' := ha.2.1
  · rw [div_le_iff₀ hb'pos]
    calc a' ≤ (1 + u) ^ k * a := ha.2.2
      _ = 1 * ((1 + u) ^ k * a) := (one_mul _).symm
      _ ≤ ((1 + u) ^ (2 * m) * (1 - u) ^ m) * ((1 + u) ^ k * a) :=
          mul_le_mul_of_nonneg_right e1m (mul_nonneg (pow_nonneg hp.le _) ha.1)
      _ = (1 + u) ^ (k + 2 * m) * (a / b) * ((1 - u) ^ m * b) := by
          rw [pow_add]; field_simp
      _ ≤ (1 + u) ^ (k + 2 * m) * (a / b) * b' :=
          mul_le_mul_of_nonneg_left hb.2.1 (mul_nonneg (pow_nonneg hp.le _) (div_nonneg ha.1 hb0.le))


theorem Rel.add' (hu : Rounding u fl) {k m : ℕ} {a a' b b' : ℝ} (ha : Rel u k a a') (hb : Rel u m b b') :
    Rel u (max k m) (a + b) (a' + b') :=
  (ha.mono hu (le_max_left k m)).add (hb.mono hu (le_max_right k m))

/-- end of a derivation: the number of roundings found is within the budget, the exact quantity found is the intended one -/
theorem Rel.conclude (hu : Rounding u fl) {k K : ℕ} {X X' y : ℝ} (h : Rel u k X' y) (hk : k ≤ K) (hX : X' = X) :
    Rel u K X y := hX ▸ h.mono hu hk

/-- `rel_tree hu`: proves `Rel u ?k ?X e` for a float64 expression tree `e` (built from `fl`, `*`, `/`, `+`, `Real.sqrt` and
leaves that are non-negative by assumption or `positivity`), by recursion on `e`; `?k` and the exact quantity `?X` (the
tree with every `fl` erased) are found by unification. Divisors must be positive (`rel_pos`: the facts in context, numerals, products, quotients, sums, square roots).
The shape of the tree is NOT part of any statement: operands may be commuted, sub-terms shared or recomputed, a rounding
more or less — as long as the budget of `Rel.conclude` holds and the erased tree is the intended formula up to `ring_nf`. -/
syntax "rel_pos" : tactic
syntax "rel_nonneg" : tactic
macro_rules
  | `(tactic| rel_pos) => `(tactic|
      first
      | assumption
      | (norm_num; done)
      | (apply div_pos; (· rel_pos); (· rel_pos))
      | (apply mul_pos; (· rel_pos); (· rel_pos))
      | (apply add_pos_of_pos_of_nonneg; (· rel_pos); (· rel_nonneg))
      | (apply add_pos_of_nonneg_of_pos; (· rel_nonneg); (· rel_pos))
      | (apply Real.sqrt_pos.mpr; rel_pos)
      | (apply pow_pos; rel_pos)
      | positivity)
macro_rules
  | `(tactic| rel_nonneg) => `(tactic|
      first
      | assumption
      | exact le_of_lt (by assumption)
      | positivity
      | exact le_of_lt (by rel_pos))

syntax "rel_tree " term : tactic
macro_rules
  | `(tactic| rel_tree $hu) => `(tactic|
      first
      | (apply Rel.round $hu; rel_tree $hu)
      | (apply Rel.sqrt $hu; rel_tree $hu)
      | (apply Rel.div $hu; (· rel_tree $hu); (· rel_tree $hu); (· rel_pos))
      | (apply Rel.mul $hu; (· rel_tree $hu); (· rel_tree $hu))
      | (apply Rel.add' $hu; (· rel_tree $hu); (· rel_tree $hu))
      | exact Rel.exact (by rel_nonneg))

/-- the exact instant (ns) of operation `i` in the cancellation-free form of line.go -/
noncomputable def xExact (f t : ℝ) (D : ℤ) (i : ℤ) : ℝ :=
  2000000000 * (i : ℝ) / (Real.sqrt (2 * slope f t D * (i : ℝ) + f * f) + f)

/-- what the regenerated float64 reading of `NewLine` is for an INCREASING line: some count, and for every operation
`i > 0` an instant `⌊x i⌋` where `x i` lies within 63 roundings of the exact instant (the tree as it stands has 27). The
proof walks whatever tree the current source yields (`rel_tree`). -/
theorem NewLine_fl_sem (hu : Rounding u fl) {f t : ℝ} {D : ℤ} (hf : 0 ≤ f) (hft : f < t) (hD : 0 < D) :
    ∃ (n : ℤ) (x : ℤ → ℝ), NewLine_fl fl f t D = Sched.doAt D n (fun i => if i = 0 then 0 else Go.f2i (x i)) ∧
      ∀ i : ℤ, 0 < i → Rel u 63 (xExact f t D i) (x i) := by
  have hne : f ≠ t := hft.ne
  unfold NewLine_fl lineDoAt_fl
  schedule_aux_unfold
  try simp only [hne, hne.symm, if_false, if_neg, not_false_eq_true]      -- the `from == to` shortcut, if the source has one
  refine ⟨_, _, rfl, ?_⟩
  intro i hi
  have hi' : (0:ℝ) < ((i : ℤ) : ℝ) := by exact_mod_cast hi
  have hD' : (0:ℝ) < ((D : ℤ) : ℝ) := by exact_mod_cast hD
  unfold xExact slope secs
  generalize hd : t - f = d
  have hdpos : 0 < d := by rw [← hd]; linarith
  apply Rel.conclude hu
  · rel_tree hu
  · decide
  · first
    | rfl
    | (ring_nf; done)
    | (congr 1 <;> ring_nf; done)
    | (field_simp; ring_nf; done)

theorem cum_mono_nonneg {a b x y : ℝ} (ha : 0 ≤ a) (hb : 0 ≤ b) (hx : 0 ≤ x) (hxy : x ≤ y) : cum a b x ≤ cum a b y := by
  have hd : cum a b y - cum a b x = (y - x) * (a * (x + y) / 2 + b) := by unfold cum; ring
  have hy : 0 ≤ y := le_trans hx hxy
  have : 0 ≤ (y - x) * (a * (x + y) / 2 + b) := mul_nonneg (by linarith) (by positivity)
  linarith

theorem cum_scale_up {a b x c : ℝ} (ha : 0 ≤ a) (hb : 0 ≤ b) (hx : 0 ≤ x) (hc : 1 ≤ c) :
    cum a b (c * x) ≤ c ^ 2 * cum a b x := by
  have hd : c ^ 2 * cum a b x - cum a b (c * x) = b * x * (c * (c - 1)) := by unfold cum; ring
  have : 0 ≤ b * x * (c * (c - 1)) := mul_nonneg (mul_nonneg hb hx) (mul_nonneg (by linarith) (by linarith))
  linarith

theorem cum_scale_down {a b x c : ℝ} (ha : 0 ≤ a) (hb : 0 ≤ b) (hx : 0 ≤ x) (hc0 : 0 ≤ c) (hc : c ≤ 1) :
    c ^ 2 * cum a b x ≤ cum a b (c * x) := by
  have hd : cum a b (c * x) - c ^ 2 * cum a b x = b * x * (c * (1 - c)) := by unfold cum; ring
  have : 0 ≤ b * x * (c * (1 - c)) := mul_nonneg (mul_nonneg hb hx) (mul_nonneg hc0 (by linarith))
  linarith

theorem pow126_hi : (1 + (1 / 2 ^ 53 : ℝ)) ^ 126 ≤ 1 + 1 / 2 ^ 46 := by norm_num
theorem pow126_lo : 1 - 1 / 2 ^ 46 ≤ (1 - (1 / 2 ^ 53 : ℝ)) ^ 126 := by norm_num

/-- the count-space argument of `line_token_ok`, for a NON-DECREASING line (`from ≤ to`, so also a flat one that is
computed by the line formula): all it needs of the exact instant is that the integral reaches exactly `i` there -/
theorem line_token_ok_core {f t : ℝ} {D : ℤ} (hf : 0 ≤ f) (hft : f ≤ t) (hD : 1000000 ≤ D)
    {i : ℤ} (hipos : 0 < i) {x : ℝ} (hrel : Rel (1 / 2 ^ 53) 63 (xExact f t D i) x)
    (hcumX : cum (slope f t D) f (xExact f t D i / 1000000000) = (i : ℝ)) :
    cum (slope f t D) f (((Go.f2i x : ℤ) : ℝ) / 1000000000) ≤ (i : ℝ) + ((i : ℝ) + 1 + max f t * secs D) / 2 ^ 46 ∧
    (i : ℝ) - ((i : ℝ) + 1 + max f t * secs D) / 2 ^ 46 ≤ cum (slope f t D) f ((((Go.f2i x : ℤ) : ℝ) + 1) / 1000000000) := by
  have hsecs : 0 < secs D := secs_pos hD
  have hA : 0 ≤ slope f t D := by unfold slope; exact div_nonneg (by linarith) hsecs.le
  have hipos' : (0:ℝ) < (i : ℝ) := by exact_mod_cast hipos
  have hi' : (0:ℝ) ≤ (i : ℝ) := hipos'.le
  have hmax : 0 ≤ max f t * secs D := mul_nonneg (le_trans hf (le_max_left f t)) hsecs.le
  have hδ : (i : ℝ) / 2 ^ 46 ≤ ((i : ℝ) + 1 + max f t * secs D) / 2 ^ 46 :=
    div_le_div_of_nonneg_right (by linarith) (by positivity)
  have hX0 : 0 ≤ xExact f t D i / 1000000000 := div_nonneg hrel.1 (by norm_num)
  have hu0 : (0:ℝ) ≤ 1 - 1 / 2 ^ 53 := by norm_num
  have hx0 : 0 ≤ x := le_trans (mul_nonneg (pow_nonneg hu0 _) hrel.1) hrel.2.1
  rw [Go.f2i_of_nonneg hx0]
  have hfl1 : ((⌊x⌋ : ℤ) : ℝ) ≤ x := Int.floor_le _
  have hfl2 : x < ((⌊x⌋ : ℤ) : ℝ) + 1 := Int.lt_floor_add_one _
  have hfl0 : (0:ℝ) ≤ ((⌊x⌋ : ℤ) : ℝ) := by exact_mod_cast Int.floor_nonneg.mpr hx0
  have hchi : 1 ≤ (1 + (1 / 2 ^ 53 : ℝ)) ^ 63 := one_le_pow₀ (by norm_num)
  have hclo0 : 0 ≤ (1 - (1 / 2 ^ 53 : ℝ)) ^ 63 := pow_nonneg (by norm_num) _
  have hclo1 : (1 - (1 / 2 ^ 53 : ℝ)) ^ 63 ≤ 1 := pow_le_one₀ (by norm_num) (by norm_num)
  constructor
  · calc cum (slope f t D) f (((⌊x⌋ : ℤ) : ℝ) / 1000000000)
        ≤ cum (slope f t D) f (x / 1000000000) :=
          cum_mono_nonneg hA hf (div_nonneg hfl0 (by norm_num)) (div_le_div_of_nonneg_right hfl1 (by norm_num))
      _ ≤ cum (slope f t D) f ((1 + 1 / 2 ^ 53) ^ 63 * (xExact f t D i / 1000000000)) := by
          apply cum_mono_nonneg hA hf (div_nonneg hx0 (by norm_num))
          rw [← mul_div_assoc]
          exact div_le_div_of_nonneg_right hrel.2.2 (by norm_num)
      _ ≤ ((1 + 1 / 2 ^ 53) ^ 63) ^ 2 * cum (slope f t D) f (xExact f t D i / 1000000000) :=
          cum_scale_up hA hf hX0 hchi
      _ = (1 + 1 / 2 ^ 53) ^ 126 * (i : ℝ) := by rw [hcumX, ← pow_mul]
      _ ≤ (1 + 1 / 2 ^ 46) * (i : ℝ) := mul_le_mul_of_nonneg_right pow126_hi hi'
      _ = (i : ℝ) + (i : ℝ) / 2 ^ 46 := by ring
      _ ≤ _ := by linarith
  · calc (i : ℝ) - ((i : ℝ) + 1 + max f t * secs D) / 2 ^ 46 ≤ (i : ℝ) - (i : ℝ) / 2 ^ 46 := by linarith
      _ = (1 - 1 / 2 ^ 46) * (i : ℝ) := by ring
      _ ≤ (1 - 1 / 2 ^ 53) ^ 126 * (i : ℝ) := mul_le_mul_of_nonneg_right pow126_lo hi'
      _ = ((1 - 1 / 2 ^ 53) ^ 63) ^ 2 * cum (slope f t D) f (xExact f t D i / 1000000000) := by
          rw [hcumX, ← pow_mul]
      _ ≤ cum (slope f t D) f ((1 - 1 / 2 ^ 53) ^ 63 * (xExact f t D i / 1000000000)) :=
          cum_scale_down hA hf hX0 hclo0 hclo1
      _ ≤ cum (slope f t D) f (x / 1000000000) := by
          apply cum_mono_nonneg hA hf (mul_nonneg hclo0 hX0)
          rw [← mul_div_assoc]
          exact div_le_div_of_nonneg_right hrel.2.1 (by norm_num)
      _ ≤ cum (slope f t D) f ((((⌊x⌋ : ℤ) : ℝ) + 1) / 1000000000) :=
          cum_mono_nonneg hA hf (div_nonneg hx0 (by norm_num)) (div_le_div_of_nonneg_right hfl2.le (by norm_num))

/-- **increasing line, float64**: with u = 2⁻⁵³, an instant `x` within 63 roundings of the exact instant of operation
`i > 0`: its truncation `⌊x⌋` passes the Spec's acceptance test with the Spec's tolerance
δ = 2⁻⁴⁶·(i + 1 + max(from,to)·D) (in fact with 2⁻⁴⁶·i) -/
theorem line_token_ok {f t : ℝ} {D : ℤ} (hf : 0 ≤ f) (hft : f < t) (hD : 1000000 ≤ D)
    {i : ℤ} (hipos : 0 < i) {x : ℝ} (hrel : Rel (1 / 2 ^ 53) 63 (xExact f t D i) x)
    (hlt : (i : ℝ) < cum (slope f t D) f (secs D)) :
    cum (slope f t D) f (((Go.f2i x : ℤ) : ℝ) / 1000000000) ≤ (i : ℝ) + ((i : ℝ) + 1 + max f t * secs D) / 2 ^ 46 ∧
    (i : ℝ) - ((i : ℝ) + 1 + max f t * secs D) / 2 ^ 46 ≤ cum (slope f t D) f ((((Go.f2i x : ℤ) : ℝ) + 1) / 1000000000) := by
  have hsecs : 0 < secs D := secs_pos hD
  have hA : 0 < slope f t D := by unfold slope; exact div_pos (by linarith) hsecs
  have hi' : (0:ℝ) ≤ (i : ℝ) := by exact_mod_cast hipos.le
  have hcfg : Cfg (slope f t D) f (secs D) :=
    ⟨hsecs, hA.ne', hf, by have := mul_pos hA hsecs; linarith⟩
  -- the exact instant, in seconds, is x_k: the integral reaches exactly i there
  have hXs : xExact f t D i / 1000000000 = xk2 (slope f t D) f (i : ℝ) := by
    unfold xExact xk2
    rw [show f * f = f ^ 2 by ring]
    ring
  have hcumX : cum (slope f t D) f (xExact f t D i / 1000000000) = (i : ℝ) := by
    rw [hXs, xk2_eq_xk hcfg hi' hlt.le]
    exact cum_xk hcfg hi' hlt.le
  exact line_token_ok_core hf hft.le hD hipos hrel hcumX

/-- a FLAT line computed by the line formula (slope 0): the exact instant of operation `i` is `i / from` seconds -/
theorem flat_cumX {f : ℝ} {D : ℤ} (hf : 0 < f) (i : ℤ) :
    cum (slope f f D) f (xExact f f D i / 1000000000) = (i : ℝ) := by
  have hs : slope f f D = 0 := by unfold slope; simp
  unfold xExact cum
  rw [hs]
  simp only [mul_zero, zero_mul, zero_div, zero_add, Real.sqrt_mul_self hf.le]
  field_simp
  ring

/-- operation 0 is at offset 0 -/
theorem line_token0_ok {f t : ℝ} {D : ℤ} (hf : 0 ≤ f) (hft : f ≤ t) (hD : 1000000 ≤ D) :
    cum (slope f t D) f ((((0 : ℤ) : ℤ) : ℝ) / 1000000000) ≤ ((0 : ℤ) : ℝ) + (((0 : ℤ) : ℝ) + 1 + max f t * secs D) / 2 ^ 46 ∧
    ((0 : ℤ) : ℝ) - (((0 : ℤ) : ℝ) + 1 + max f t * secs D) / 2 ^ 46 ≤
      cum (slope f t D) f (((((0 : ℤ) : ℤ) : ℝ) + 1) / 1000000000) := by
  have hsecs : 0 < secs D := secs_pos hD
  have hA : 0 ≤ slope f t D := by unfold slope; exact div_nonneg (by linarith) hsecs.le
  have hmax : 0 ≤ max f t * secs D := mul_nonneg (le_trans hf (le_max_left f t)) hsecs.le
  have hδ0 : 0 ≤ ((0:ℝ) + 1 + max f t * secs D) / 2 ^ 46 := by positivity
  simp only [Int.cast_zero, zero_div, zero_add]
  constructor
  · have : cum (slope f t D) f 0 = 0 := by unfold cum; ring
    rw [this]; linarith
  · have : 0 ≤ cum (slope f t D) f (1 / 1000000000) := by unfold cum; positivity
    simp only [zero_add] at hδ0
    linarith

end Pandora.Proofs.C01LineFloat
