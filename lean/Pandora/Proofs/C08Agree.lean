/-
C08: the small-step machine of every provider kind, driven by the schedule of the harness' drain mode (one consumer
that is always ready, cancel after `cancelAt` acquisitions, Done taken when cancelled), ends exactly like the
fuel-function model `Model.C08.run`: same acquired ammo, same result of `Run`, sink closed.
-/
import Pandora.Proofs.C08Conc

namespace Pandora.Proofs.C08
open Pandora.Model.C08

/-- a `Run` that reads a cancelled context at the loop top returns context.Canceled -/
theorem ctxTop_ret (inp : Input) (n : Nat) (hn : 0 < n) (k : Nat) (s : PSt) (hg : Good inp n k s)
    (ht : inp.kind.ctxTop = true) (r : RunRes) (h : stepOf inp n true s = .ret r) : r = .canceled := by
  cases s with
  | stream d a =>
    simp only [stepOf, liftAct_ret, streamStep_true] at h
    cases h; rfl
  | arr d a =>
    simp only [stepOf, liftAct_ret, streamStep_true] at h
    cases h; rfl
  | unloaded =>
    have hlen : (List.range n).length ≠ 0 := by rw [List.length_range]; omega
    simp only [stepOf, loadOf_ok inp.kind n hn, if_neg hlen] at h
    split at h
    · cases h; rfl
    · cases h
  | replay ammos a =>
    simp only [stepOf, liftAct_ret, replayStep] at h
    simp at h
    exact h.symm
  | grpc g =>
    obtain ⟨hk, _⟩ := hg
    simp [hk, Kind.ctxTop] at ht
  | gen a r ps =>
    obtain ⟨hk, _⟩ := hg
    simp [hk, Kind.ctxTop] at ht

/-- the loops without a ctx check never return context.Canceled from an iteration -/
theorem nonTop_ret (inp : Input) (n : Nat) (k : Nat) (s : PSt) (hg : Good inp n k s)
    (ht : inp.kind.ctxTop = false) (c : Bool) (r : RunRes) (h : stepOf inp n c s = .ret r) : r ≠ .canceled := by
  cases s with
  | stream d a =>
    obtain ⟨_, hk, _⟩ := hg
    cases hkind : inp.kind <;> simp [hkind, isStreamKind, Kind.ctxTop] at hk ht
  | arr d a =>
    obtain ⟨_, hk, _⟩ := hg
    simp [hk, Kind.ctxTop] at ht
  | unloaded =>
    obtain ⟨_, hk⟩ := hg
    cases hkind : inp.kind <;> simp [hkind, Kind.isHttp, Kind.ctxTop] at hk ht
  | replay ammos a =>
    obtain ⟨_, _, hk⟩ := hg
    cases hkind : inp.kind <;> simp [hkind, Kind.isHttp, isScenario, Kind.ctxTop] at hk ht
  | grpc g =>
    simp only [stepOf, liftAct_ret, grpcStep] at h
    split at h
    · cases h
    · split at h
      · cases h; simp
      · split at h
        · cases h; simp
        · split at h
          · cases h; simp
          · cases h
  | gen a rd ps =>
    simp only [stepOf, liftAct_ret, genStep] at h
    split at h
    · cases h; simp
    · split at h
      · cases h; simp
      · cases h
      · cases h

theorem kindEnd_top (k : Kind) (ht : k.ctxTop = true) (cancelAt : Option Nat) (T : Nat) :
    kindEnd k cancelAt T = endRes cancelAt T := by
  cases k <;> simp [Kind.ctxTop] at ht <;> rfl

theorem kindEnd_nonTop (k : Kind) (ht : k.ctxTop = false) (cancelAt : Option Nat) (T : Nat) :
    kindEnd k cancelAt T = .nil := by
  cases k <;> simp [Kind.ctxTop] at ht <;> rfl

theorem doneRes_top (k : Kind) (ht : k.ctxTop = true) : doneResOf k = .canceled := by
  cases k <;> simp [Kind.ctxTop] at ht <;> rfl

theorem doneRes_nonTop (k : Kind) (ht : k.ctxTop = false) : doneResOf k = .nil := by
  cases k <;> simp [Kind.ctxTop] at ht <;> rfl

/-- what the drain schedule ends in -/
structure DriveEnd (inp : Input) (n T : Nat) (f : Sys) : Prop where
  res : f.result = some (kindEnd inp.kind inp.cancelAt T)
  acq : f.log.map (·.2) = cycl n T
  closed : f.closed = true

/-- remaining work of the drain schedule -/
def driveMeasure (n T : Nat) (s : Sys) : Nat :=
  3 * (T - s.sent) + (if s.offering.isSome then 1 else 2 + tauBudget n s.ps)

theorem driveSeq_done (inp : Input) (n fuel : Nat) (s : Sys) (h : s.result.isSome = true) :
    driveSeq inp n fuel s = s := by
  cases fuel with
  | zero => rfl
  | succ f => simp [driveSeq, h]

theorem dm_some (n T : Nat) (s : Sys) (p : Nat × PSt) (h : s.offering = some p) :
    driveMeasure n T s = 3 * (T - s.sent) + 1 := by simp [driveMeasure, h]

theorem dm_none (n T : Nat) (s : Sys) (h : s.offering = none) :
    driveMeasure n T s = 3 * (T - s.sent) + (2 + tauBudget n s.ps) := by simp [driveMeasure, h]

theorem sent_hand (s : Sys) (ps' : PSt) (i : Nat) :
    Sys.sent { s with ps := ps', offering := none, log := s.log ++ [(0, i)] } = s.sent + 1 := by
  simp [Sys.sent]; omega

/-- the invariant of the drain schedule at the top of an iteration -/
structure DriveInv (inp : Input) (n T : Nat) (s : Sys) : Prop where
  inv : SysInv inp n inp.kind.chanCap s
  buf : s.buf = []
  res : s.result = none
  le : s.sent ≤ T
  flag : s.cancelled = true → cancelled inp.cancelAt s.log.length = true

/-- one iteration of `driveSeq` from a state whose cancel flag is what the harness would have set -/
def driveIter (inp : Input) (n fuel : Nat) (s1 : Sys) : Sys :=
  match s1.offering with
  | some _ =>
    if s1.cancelled then driveSeq inp n fuel ((s1.next inp n inp.kind.chanCap 1 .done).getD s1)
    else driveSeq inp n fuel ((s1.next inp n inp.kind.chanCap 1 (.hand 0)).getD s1)
  | none => driveSeq inp n fuel ((s1.next inp n inp.kind.chanCap 1 .prod).getD s1)

theorem driveIter_spec (inp : Input) (n T : Nat) (hn : 0 < n)
    (tg : Tgt inp.b.limit inp.b.passes n inp.cancelAt T) (fuel : Nat)
    (ih : ∀ s, DriveInv inp n T s → driveMeasure n T s < fuel → DriveEnd inp n T (driveSeq inp n fuel s))
    (s1 : Sys) (hd : DriveInv inp n T s1) (hfl : s1.cancelled = cancelled inp.cancelAt s1.log.length)
    (hm : driveMeasure n T s1 < fuel + 1) : DriveEnd inp n T (driveIter inp n fuel s1) := by
  obtain ⟨hi1, hbuf, hres1, hle, _⟩ := hd
  have hsent : s1.sent = s1.log.length := by simp [Sys.sent, hbuf]
  obtain ⟨hcl, hg1, ho⟩ := hi1.running hres1
  have hacq : ∀ k, s1.sent = k → s1.log.map (·.2) = cycl n k := by
    intro k hk
    have := hi1.seq
    rw [hbuf, List.append_nil, hk] at this
    exact this
  have hend : s1.ended = [] := by
    cases he : s1.ended with
    | nil => rfl
    | cons a l => have := (hi1.ended (by simp [he])).1; simp [hcl] at this
  unfold driveIter
  cases hc : cancelled inp.cancelAt s1.log.length with
  | true =>
    -- the context is cancelled: sent = T = the cancel point
    have hc1 : s1.cancelled = true := by rw [hfl, hc]
    obtain ⟨c, hca, hck⟩ := (cancelled_true_iff _ _).mp hc
    have hkT : s1.sent = T := by have := tg.le_cancel c hca; omega
    have hendres : endRes inp.cancelAt T = .canceled := by
      unfold endRes
      rw [← hkT, hsent, hc]; rfl
    cases hoff : s1.offering with
    | some p =>
      obtain ⟨i, ps'⟩ := p
      simp only [hc1, if_true]
      have hnext : s1.next inp n inp.kind.chanCap 1 .done =
          some { s1 with offering := none, result := some (doneResOf inp.kind), closed := true } := by
        simp [Sys.next, hres1, hoff, hc1]
      rw [hnext, Option.getD_some, driveSeq_done _ _ _ _ (by simp)]
      refine ⟨?_, hacq T hkT, rfl⟩
      simp only
      cases ht : inp.kind.ctxTop with
      | true => rw [doneRes_top _ ht, kindEnd_top _ ht, hendres]
      | false => rw [doneRes_nonTop _ ht, kindEnd_nonTop _ ht]
    | none =>
      simp only
      have ok := good_step inp n hn s1.cancelled s1.sent s1.ps hg1 hi1.below
      cases hst : stepOf inp n s1.cancelled s1.ps with
      | ret r =>
        have hnext : s1.next inp n inp.kind.chanCap 1 .prod = some { s1 with result := some r, closed := true } := by
          simp [Sys.next, hres1, hoff, hst]
        rw [hnext, Option.getD_some, driveSeq_done _ _ _ _ (by simp)]
        refine ⟨?_, hacq T hkT, rfl⟩
        simp only
        cases ht : inp.kind.ctxTop with
        | true =>
          rw [hc1] at hst
          rw [ctxTop_ret inp n hn _ _ hg1 ht r hst, kindEnd_top _ ht, hendres]
        | false =>
          have hne := nonTop_ret inp n _ _ hg1 ht _ r hst
          rcases ok.ret r hst with ⟨h1, _⟩ | ⟨_, h1⟩
          · rw [h1, kindEnd_nonTop _ ht]
          · exact absurd h1 hne
      | offer i ps' =>
        have hnext : s1.next inp n inp.kind.chanCap 1 .prod = some { s1 with offering := some (i, ps') } := by
          simp [Sys.next, hres1, hoff, hst]
        rw [hnext, Option.getD_some]
        have hi2 := sysInv_next inp n _ 1 hn s1 _ .prod hi1 hnext
        apply ih _ ⟨hi2, hbuf, hres1, hle, fun _ => hc⟩
        rw [dm_some n T _ (i, ps') rfl]
        rw [dm_none n T s1 hoff] at hm
        show 3 * (T - s1.sent) + 1 < fuel
        omega
      | tau ps' =>
        have hlt := (ok.tau ps' hst).2
        have hnext : s1.next inp n inp.kind.chanCap 1 .prod = some { s1 with ps := ps' } := by
          simp [Sys.next, hres1, hoff, hst]
        rw [hnext, Option.getD_some]
        have hi2 := sysInv_next inp n _ 1 hn s1 _ .prod hi1 hnext
        apply ih _ ⟨hi2, hbuf, hres1, hle, fun _ => hc⟩
        rw [dm_none n T { s1 with ps := ps' } hoff]
        rw [dm_none n T s1 hoff] at hm
        show 3 * (T - s1.sent) + (2 + tauBudget n ps') < fuel
        omega
  | false =>
    have hc1 : s1.cancelled = false := by rw [hfl, hc]
    have hnc : ∀ c, inp.cancelAt = some c → s1.log.length < c := (cancelled_false_iff _ _).mp hc
    cases hoff : s1.offering with
    | some p =>
      obtain ⟨i, ps'⟩ := p
      simp only [hc1, Bool.false_eq_true, if_false]
      obtain ⟨_, hstrict, _⟩ := ho i ps' hoff
      -- one more ammo is allowed by every bound and by the cancel point: sent < T
      have hlt : s1.sent < T := by
        rcases tg.attained with ⟨h0, h1⟩ | ⟨h0, h1⟩ | h1
        · rcases hstrict.1 with h2 | h2 <;> omega
        · rcases hstrict.2 with h2 | h2 <;> omega
        · have := hnc T h1; omega
      have hnext : s1.next inp n inp.kind.chanCap 1 (.hand 0) =
          some { s1 with ps := ps', offering := none, log := s1.log ++ [(0, i)] } := by
        simp [Sys.next, hoff, hres1, hbuf, hend]
      rw [hnext, Option.getD_some]
      have hi2 := sysInv_next inp n _ 1 hn s1 _ (.hand 0) hi1 hnext
      have hs2 := sent_hand s1 ps' i
      apply ih _ ⟨hi2, hbuf, hres1, by rw [hs2]; omega, fun h => by simp [hc1] at h⟩
      have hb := tauBudget_le_one n ps'
      rw [dm_none n T _ rfl, hs2]
      rw [dm_some n T s1 (i, ps') hoff] at hm
      show 3 * (T - (s1.sent + 1)) + (2 + tauBudget n ps') < fuel
      omega
    | none =>
      simp only
      have ok := good_step inp n hn s1.cancelled s1.sent s1.ps hg1 hi1.below
      cases hst : stepOf inp n s1.cancelled s1.ps with
      | ret r =>
        have hnext : s1.next inp n inp.kind.chanCap 1 .prod = some { s1 with result := some r, closed := true } := by
          simp [Sys.next, hres1, hoff, hst]
        rw [hnext, Option.getD_some, driveSeq_done _ _ _ _ (by simp)]
        rcases ok.ret r hst with ⟨h1, hb⟩ | ⟨h0, _⟩
        · -- the bound is reached: sent = T
          have hkT : s1.sent = T := by
            obtain ⟨_, hb2⟩ := hb
            rcases hb2 with ⟨h0, h2⟩ | ⟨h0, h2⟩
            · have := tg.le_limit h0; omega
            · have := tg.le_pass h0; omega
          refine ⟨?_, hacq T hkT, rfl⟩
          simp only
          rw [h1]
          cases ht : inp.kind.ctxTop with
          | true =>
            rw [kindEnd_top _ ht]
            unfold endRes
            rw [← hkT, hsent, hc]; rfl
          | false => rw [kindEnd_nonTop _ ht]
        · rw [hc1] at h0; cases h0
      | offer i ps' =>
        have hnext : s1.next inp n inp.kind.chanCap 1 .prod = some { s1 with offering := some (i, ps') } := by
          simp [Sys.next, hres1, hoff, hst]
        rw [hnext, Option.getD_some]
        have hi2 := sysInv_next inp n _ 1 hn s1 _ .prod hi1 hnext
        apply ih _ ⟨hi2, hbuf, hres1, hle, fun h => by simp [hc1] at h⟩
        rw [dm_some n T _ (i, ps') rfl]
        rw [dm_none n T s1 hoff] at hm
        show 3 * (T - s1.sent) + 1 < fuel
        omega
      | tau ps' =>
        have hlt := (ok.tau ps' hst).2
        have hnext : s1.next inp n inp.kind.chanCap 1 .prod = some { s1 with ps := ps' } := by
          simp [Sys.next, hres1, hoff, hst]
        rw [hnext, Option.getD_some]
        have hi2 := sysInv_next inp n _ 1 hn s1 _ .prod hi1 hnext
        apply ih _ ⟨hi2, hbuf, hres1, hle, fun h => by simp [hc1] at h⟩
        rw [dm_none n T { s1 with ps := ps' } hoff]
        rw [dm_none n T s1 hoff] at hm
        show 3 * (T - s1.sent) + (2 + tauBudget n ps') < fuel
        omega

theorem driveSeq_spec (inp : Input) (n T : Nat) (hn : 0 < n)
    (tg : Tgt inp.b.limit inp.b.passes n inp.cancelAt T) :
    ∀ (fuel : Nat) (s : Sys), DriveInv inp n T s → driveMeasure n T s < fuel →
      DriveEnd inp n T (driveSeq inp n fuel s) := by
  intro fuel
  induction fuel with
  | zero => intro s _ h; omega
  | succ fuel ih =>
    intro s hd hm
    by_cases hc : cancelled inp.cancelAt s.log.length = true
    · -- the harness cancels (or has cancelled) the context
      have hstep : driveSeq inp n (fuel + 1) s = driveIter inp n fuel { s with cancelled := true } := by
        cases hoff : s.offering <;> simp [driveSeq, driveIter, hd.res, hc, hoff]
      rw [hstep]
      have hi1 := sysInv_next inp n _ 1 hn s _ .cancel hd.inv rfl
      exact driveIter_spec inp n T hn tg fuel ih _ ⟨hi1, hd.buf, hd.res, hd.le, fun _ => hc⟩ (by simp [hc]) hm
    · have hcf : s.cancelled = false := by
        cases h : s.cancelled with
        | false => rfl
        | true => exact absurd (hd.flag h) hc
      have hstep : driveSeq inp n (fuel + 1) s = driveIter inp n fuel s := by
        cases hoff : s.offering <;> simp [driveSeq, driveIter, hd.res, hc, hoff]
      rw [hstep]
      have hc' : cancelled inp.cancelAt s.log.length = false := by
        cases h : cancelled inp.cancelAt s.log.length with
        | false => rfl
        | true => exact absurd h hc
      exact driveIter_spec inp n T hn tg fuel ih s hd (by rw [hcf, hc']) hm

/-- the machine under the drain schedule = `Model.C08.run` -/
theorem runMach_eq (inp : Input) (n T : Nat) (hn : 0 < n)
    (hT : target inp.b.limit inp.b.passes n inp.cancelAt = some T) :
    runMach inp n = some ⟨cycl n T, kindEnd inp.kind inp.cancelAt T, true⟩ := by
  have tg := tgt_of_target _ _ _ _ _ hn hT
  have hb := tauBudget_le_one n (initSt inp n)
  have h := driveSeq_spec inp n T hn tg (3 * T + 8) (Sys.init inp n)
    ⟨sysInv_init inp n _ hn, rfl, rfl, by simp [Sys.init, Sys.sent], by intro h; simp [Sys.init] at h⟩
    (by rw [dm_none n T _ rfl]; simp only [Sys.init, Sys.sent]; simp; omega)
  unfold runMach
  rw [hT]
  simp only [h.res, h.acq, h.closed]

end Pandora.Proofs.C08
