/-
Real-analysis core of C01 for the `line` profile (exact arithmetic).
rate(x) = a·x + b on [0, s];  cum(x) = a·x²/2 + b·x;  the k-th operation is at
x_k = (√(2ak + b²) − b)/a, the unique (hence earliest) point where cum = k.
-/
import Pandora.Go.Real
import Mathlib.Tactic.NormNum
import Mathlib.Tactic.Positivity

namespace Pandora.Proofs.LineMath
open Real

/-- cumulative number of operations of the linear rate `a·x+b` after `x` seconds -/
noncomputable def cum (a b x : ℝ) : ℝ := a * x ^ 2 / 2 + b * x

/-- the instant of the k-th operation as the code computes it (seconds) -/
noncomputable def xk (a b k : ℝ) : ℝ := (Real.sqrt (2 * a * k + b ^ 2) - b) / a

structure Cfg (a b s : ℝ) : Prop where
  s_pos : 0 < s
  a_ne : a ≠ 0
  b_nonneg : 0 ≤ b
  end_nonneg : 0 ≤ a * s + b        -- the rate at the end (`to`) is non-negative

variable {a b s k : ℝ}

theorem cum_total (a b s : ℝ) : cum a b s = (b + (a * s + b)) / 2 * s := by
  unfold cum; ring

/-- radicand is ≥ (end rate)² when a<0, ≥ b² when a>0; in particular non-negative -/
theorem radicand_nonneg (h : Cfg a b s) (hk0 : 0 ≤ k) (hk : k ≤ cum a b s) :
    0 ≤ 2 * a * k + b ^ 2 := by
  rcases lt_or_gt_of_ne h.a_ne with ha | ha
  · -- a < 0
    have h1 : 2 * a * k ≥ 2 * a * cum a b s := by nlinarith
    have h2 : 2 * a * cum a b s + b ^ 2 = (a * s + b) ^ 2 := by unfold cum; ring
    nlinarith [sq_nonneg (a * s + b)]
  · have : 0 ≤ 2 * a * k := by positivity
    nlinarith [sq_nonneg b]

theorem radicand_ge_end_sq_of_neg (h : Cfg a b s) (ha : a < 0) (hk : k ≤ cum a b s) :
    (a * s + b) ^ 2 ≤ 2 * a * k + b ^ 2 := by
  have h1 : 2 * a * k ≥ 2 * a * cum a b s := by nlinarith
  have h2 : 2 * a * cum a b s + b ^ 2 = (a * s + b) ^ 2 := by unfold cum; ring
  linarith

theorem radicand_le_end_sq_of_pos (ha : 0 < a) (hk : k ≤ cum a b s) :
    2 * a * k + b ^ 2 ≤ (a * s + b) ^ 2 := by
  have h1 : 2 * a * k ≤ 2 * a * cum a b s := by nlinarith
  have h2 : 2 * a * cum a b s + b ^ 2 = (a * s + b) ^ 2 := by unfold cum; ring
  linarith

/-- rate at x_k is √radicand -/
theorem rate_xk (h : Cfg a b s) : a * xk a b k + b = Real.sqrt (2 * a * k + b ^ 2) := by
  unfold xk; field_simp [h.a_ne]; ring

/-- the integral reaches exactly k at x_k -/
theorem cum_xk (h : Cfg a b s) (hk0 : 0 ≤ k) (hk : k ≤ cum a b s) : cum a b (xk a b k) = k := by
  have hR := radicand_nonneg h hk0 hk
  have hs : Real.sqrt (2 * a * k + b ^ 2) ^ 2 = 2 * a * k + b ^ 2 := Real.sq_sqrt hR
  have ha := h.a_ne
  have key : ∀ r : ℝ, cum a b ((r - b) / a) = (r ^ 2 - b ^ 2) / (2 * a) := by
    intro r; unfold cum; field_simp; ring
  unfold xk
  rw [key, hs]
  field_simp
  ring

theorem xk_nonneg (h : Cfg a b s) (hk0 : 0 ≤ k) (hk : k ≤ cum a b s) : 0 ≤ xk a b k := by
  have hR := radicand_nonneg h hk0 hk
  unfold xk
  rcases lt_or_gt_of_ne h.a_ne with ha | ha
  · -- numerator ≤ 0
    apply div_nonneg_of_nonpos _ ha.le
    have : 2 * a * k + b ^ 2 ≤ b ^ 2 := by nlinarith
    have h2 : Real.sqrt (2 * a * k + b ^ 2) ≤ Real.sqrt (b ^ 2) := Real.sqrt_le_sqrt this
    rw [Real.sqrt_sq h.b_nonneg] at h2
    linarith
  · apply div_nonneg _ ha.le
    have : b ^ 2 ≤ 2 * a * k + b ^ 2 := by nlinarith
    have h2 : Real.sqrt (b ^ 2) ≤ Real.sqrt (2 * a * k + b ^ 2) := Real.sqrt_le_sqrt this
    rw [Real.sqrt_sq h.b_nonneg] at h2
    linarith

theorem xk_le (h : Cfg a b s) (hk0 : 0 ≤ k) (hk : k ≤ cum a b s) : xk a b k ≤ s := by
  have hrate := rate_xk (k := k) h
  rcases lt_or_gt_of_ne h.a_ne with ha | ha
  · have h1 := radicand_ge_end_sq_of_neg h ha hk
    have h2 : Real.sqrt ((a * s + b) ^ 2) ≤ Real.sqrt (2 * a * k + b ^ 2) := Real.sqrt_le_sqrt h1
    rw [Real.sqrt_sq h.end_nonneg] at h2
    -- a*xk + b ≥ a*s + b, a<0 ⇒ xk ≤ s
    nlinarith
  · have h1 := radicand_le_end_sq_of_pos (s := s) (b := b) ha hk
    have h2 : Real.sqrt (2 * a * k + b ^ 2) ≤ Real.sqrt ((a * s + b) ^ 2) := Real.sqrt_le_sqrt h1
    rw [Real.sqrt_sq h.end_nonneg] at h2
    nlinarith

/-- the rate is non-negative on [0, s] -/
theorem rate_nonneg (h : Cfg a b s) {y : ℝ} (hy0 : 0 ≤ y) (hys : y ≤ s) : 0 ≤ a * y + b := by
  rcases lt_or_gt_of_ne h.a_ne with ha | ha
  · have := h.end_nonneg; nlinarith
  · have := h.b_nonneg; nlinarith

/-- cum is strictly increasing on [0, s]: nothing earlier than x_k reaches k -/
theorem cum_lt_of_lt (h : Cfg a b s) {x y : ℝ} (hy0 : 0 ≤ y) (hyx : y < x) (hxs : x ≤ s) :
    cum a b y < cum a b x := by
  have hx0 : 0 ≤ x := le_trans hy0 hyx.le
  have hry := rate_nonneg h hy0 (le_trans hyx.le hxs)
  have hrx := rate_nonneg h hx0 hxs
  have hd : cum a b x - cum a b y = (x - y) * ((a * x + b) + (a * y + b)) / 2 := by unfold cum; ring
  have hpos : 0 < (a * x + b) + (a * y + b) := by
    rcases lt_or_gt_of_ne h.a_ne with ha | ha
    · have : a * x + b < a * y + b := by nlinarith
      linarith
    · have : a * y + b < a * x + b := by nlinarith
      linarith
  have : 0 < (x - y) * ((a * x + b) + (a * y + b)) / 2 := by
    apply div_pos (mul_pos (by linarith) hpos) (by norm_num)
  linarith

/-- `x` is the earliest instant in [0,s] at which the integral reaches `k` -/
def Earliest (a b s k x : ℝ) : Prop :=
  0 ≤ x ∧ x ≤ s ∧ cum a b x = k ∧ ∀ y, 0 ≤ y → y < x → cum a b y < k

theorem earliest_xk (h : Cfg a b s) (hk0 : 0 ≤ k) (hk : k ≤ cum a b s) : Earliest a b s k (xk a b k) := by
  refine ⟨xk_nonneg h hk0 hk, xk_le h hk0 hk, cum_xk h hk0 hk, ?_⟩
  intro y hy0 hyx
  have := cum_lt_of_lt h hy0 hyx (xk_le h hk0 hk)
  rw [cum_xk h hk0 hk] at this
  exact this

/-- uniqueness: any earliest instant is x_k (so the statement does not depend on the formula) -/
theorem earliest_unique (h : Cfg a b s) {x x' : ℝ} (hx : Earliest a b s k x) (hx' : Earliest a b s k x') : x = x' := by
  rcases lt_trichotomy x x' with hlt | heq | hgt
  · have := hx'.2.2.2 x hx.1 hlt; rw [hx.2.2.1] at this; exact absurd this (lt_irrefl _)
  · exact heq
  · have := hx.2.2.2 x' hx'.1 hgt; rw [hx'.2.2.1] at this; exact absurd this (lt_irrefl _)

/-- the instant of the k-th operation in the cancellation-free (conjugate) form: `2k / (√(2ak+b²) + b)` -/
noncomputable def xk2 (a b k : ℝ) : ℝ := 2 * k / (Real.sqrt (2 * a * k + b ^ 2) + b)

/-- both closed forms denote the same instant wherever the profile has an operation -/
theorem xk2_eq_xk (h : Cfg a b s) (hk0 : 0 ≤ k) (hk : k ≤ cum a b s) : xk2 a b k = xk a b k := by
  have hR := radicand_nonneg h hk0 hk
  have hs : Real.sqrt (2 * a * k + b ^ 2) ^ 2 = 2 * a * k + b ^ 2 := Real.sq_sqrt hR
  have hr0 : 0 ≤ Real.sqrt (2 * a * k + b ^ 2) := Real.sqrt_nonneg _
  have ha := h.a_ne
  have hb := h.b_nonneg
  unfold xk2 xk
  by_cases hz : Real.sqrt (2 * a * k + b ^ 2) + b = 0
  · have hr : Real.sqrt (2 * a * k + b ^ 2) = 0 := by linarith
    have hb0 : b = 0 := by linarith
    rw [hz, hr, hb0]; simp
  · rw [div_eq_div_iff hz ha]
    nlinarith [hs]

/-- x₀ = 0 -/
theorem xk_zero (h : Cfg a b s) : xk a b 0 = 0 := by
  unfold xk
  have : Real.sqrt (2 * a * 0 + b ^ 2) = b := by
    rw [mul_zero, zero_add]; exact Real.sqrt_sq h.b_nonneg
  rw [this]; simp

end Pandora.Proofs.LineMath
