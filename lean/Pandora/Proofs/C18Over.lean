/-
C18 round 4 — the config decoder on structured options (Model/C18Over): with ZeroFields = false it IS "the registered
defaults overlaid by the user's settings", field by field, for every configuration, every settings and every field
(unbounded map keys / list indices); with ZeroFields = true it is not.
-/
import Pandora.Model.C18Over

namespace Pandora.Proofs.C18Over
open Pandora.Model.C18 Pandora.Model.C18Over

theorem scalar_overlay (d : Int) (u : Opt Int) : decScalar false d u = (setScalar u).getD d := by
  cases u <;> simp [decScalar, setScalar]

theorem arr_overlay (dv : Int) (i : Nat) (u : Opt (List (Option Int))) :
    decArrAt false dv i u = (setArrAt i u).getD dv := by
  cases u with
  | absent => simp [decArrAt, setArrAt]
  | null => simp [decArrAt, setArrAt]
  | val xs =>
    simp only [decArrAt, setArrAt]
    cases h : xs[i]? with
    | none => simp
    | some o => cases o <;> simp

theorem lookup_append_getD (k : Nat) (es d : List (Nat × Int)) :
    mapGet (es ++ d) k = (List.lookup k es).getD (mapGet d k) := by
  induction es with
  | nil => simp [mapGet]
  | cons e es ih =>
    obtain ⟨k', v⟩ := e
    by_cases hk : k = k'
    · subst hk; simp [mapGet, List.lookup]
    · have : (k == k') = false := by simpa using hk
      simp only [mapGet, List.cons_append, List.lookup, this] at ih ⊢
      exact ih

theorem list_getD_mapIdx (base : List Int) (xs : List (Option Int)) (i : Nat) :
    (xs.mapIdx fun j x => decElem false base j x).getD i 0 =
      (match xs[i]? with
       | some (some v) => v
       | some none => base.getD i 0
       | none => 0) := by
  simp only [List.getD_eq_getElem?_getD, List.getElem?_mapIdx]
  cases h : xs[i]? with
  | none => simp
  | some o => cases o <;> simp [decElem, List.getD_eq_getElem?_getD]

/-- the decoder of core/config (ZeroFields = false) overlays: every field of the decoded configuration is the user's
value where the settings name the field and the default's value otherwise -/
theorem overlay (d : OCfg) (u : OSet) (f : Nat) : sem (decode false d u) f = overlaid d u f := by
  unfold overlaid sem semSet decode
  by_cases h1 : f = 1
  · simp [h1, scalar_overlay]
  by_cases h2 : f = 2
  · simp [h2, scalar_overlay]
  by_cases h3 : f = 3
  · simp [h3, scalar_overlay]
  by_cases h8 : f = 8
  · simp [h8, arr_overlay]
  by_cases h9 : f = 9
  · simp [h9, arr_overlay]
  by_cases h10 : f = 10
  · simp [h10, arr_overlay]
  by_cases h11 : f = 11
  · subst h11
    cases hp : u.p with
    | absent => simp [decPtr]; rfl
    | null => simp [decPtr]
    | val xy => obtain ⟨x, y⟩ := xy; simp [decPtr]
  by_cases h12 : f = 12
  · subst h12
    cases hp : u.p with
    | absent => simp [decPtr]
    | null => simp [decPtr]
    | val xy => obtain ⟨x, y⟩ := xy; cases x <;> simp [decPtr]
  by_cases h13 : f = 13
  · subst h13
    cases hp : u.p with
    | absent => simp [decPtr]
    | null => simp [decPtr]
    | val xy => obtain ⟨x, y⟩ := xy; cases y <;> simp [decPtr]
  by_cases h14 : f = 14
  · subst h14
    cases hl : u.l with
    | absent => simp [decList]
    | null => simp [decList]
    | val xs => simp [decList]
  simp only [h1, h2, h3, h8, h9, h10, h11, h12, h13, h14, if_false]
  by_cases h20 : 20 ≤ f
  · simp only [h20, if_true]
    by_cases he : f % 2 = 0
    · simp only [he, if_true]
      cases hm : u.m with
      | absent => simp [decMap]
      | null => simp [decMap]
      | val es => simp [decMap, lookup_append_getD]
    · simp only [he, if_false]
      cases hl : u.l with
      | absent => simp [decList]
      | null => simp [decList]
      | val xs =>
        simp only [decList, Option.getD_some, list_getD_mapIdx]
        cases hx : xs[(f - 21) / 2]? with
        | none => simp
        | some o => cases o <;> simp
  · simp [h20]

/-- the finite `Cfg`s a driver case hands to `Model.C18.run` say the same: looking a listed field up in the flattened
settings laid over the flattened defaults gives the decoded configuration's value of the field -/
theorem get_flat (fs : List Nat) (c : OCfg) (f : Nat) (hf : f ∈ fs) : Cfg.get (flat fs c) f = sem c f := by
  induction fs with
  | nil => cases hf
  | cons g gs ih =>
    by_cases hg : f = g
    · subst hg; simp [flat, Cfg.get]
    · have hb : (f == g) = false := by simpa using hg
      have : f ∈ gs := by
        cases hf with
        | head => exact absurd rfl hg
        | tail _ h => exact h
      simpa [flat, Cfg.get, List.lookup, hb] using ih this

theorem lookup_flatSet (fs : List Nat) (u : OSet) (f : Nat) (hf : f ∈ fs) :
    List.lookup f (flatSet fs u) = semSet u f := by
  induction fs with
  | nil => cases hf
  | cons g gs ih =>
    by_cases hg : f = g
    · subst hg
      cases h : semSet u f with
      | none =>
        by_cases hm : f ∈ gs
        · simpa [flatSet, List.filterMap_cons, h] using (by simpa [flatSet, h] using ih hm)
        · -- not named and nowhere else in the list
          have : ∀ l : List Nat, f ∉ l → List.lookup f (flatSet l u) = none := by
            intro l hl
            induction l with
            | nil => simp [flatSet]
            | cons a as iha =>
              have ha : f ≠ a := fun e => hl (e ▸ List.mem_cons_self)
              have hb : (f == a) = false := by simpa using ha
              have has : f ∉ as := fun m => hl (List.mem_cons_of_mem _ m)
              cases hsa : semSet u a with
              | none => simpa [flatSet, List.filterMap_cons, hsa] using iha has
              | some v => simpa [flatSet, List.filterMap_cons, hsa, List.lookup, hb] using iha has
          simpa [flatSet, List.filterMap_cons, h] using this gs hm
      | some v => simp [flatSet, h]
    · have hb : (f == g) = false := by simpa using hg
      have hm : f ∈ gs := by
        cases hf with
        | head => exact absurd rfl hg
        | tail _ h => exact h
      cases hsg : semSet u g with
      | none => simpa [flatSet, List.filterMap_cons, hsg] using ih hm
      | some v => simpa [flatSet, List.filterMap_cons, hsg, List.lookup, hb] using ih hm

theorem get_append (a b : Cfg) (f : Nat) : Cfg.get (a ++ b) f = (List.lookup f a).getD (Cfg.get b f) := by
  induction a with
  | nil => simp [Cfg.get]
  | cons e es ih =>
    obtain ⟨k, v⟩ := e
    by_cases hk : f = k
    · subst hk; simp [Cfg.get, List.lookup]
    · have : (f == k) = false := by simpa using hk
      simp only [Cfg.get, List.cons_append, List.lookup, this] at ih ⊢
      exact ih

theorem flat_overlay (fs : List Nat) (d : OCfg) (u : OSet) (f : Nat) (hf : f ∈ fs) :
    Cfg.get (flatSet fs u ++ flat fs d) f = sem (decode false d u) f := by
  rw [get_append, lookup_flatSet fs u f hf, get_flat fs d f hf, overlay]; rfl

end Pandora.Proofs.C18Over
