/-
C11 — lemmas about the header-map objects of the http provider's `Acquire` (Model/C11Ammo.lean).
-/
import Pandora.Model.C11Ammo

namespace Pandora.Proofs.C11
open Pandora.Model.C11

theorem updAt_length (f : Hdr → Hdr) : ∀ (st : Store) (i : Nat), (updAt st i f).length = st.length
  | [], _ => rfl
  | _ :: _, 0 => rfl
  | _ :: r, i + 1 => by simp [updAt, updAt_length f r i]

theorem updAt_append_length (f : Hdr → Hdr) (x : Hdr) : ∀ (st : Store), updAt (st ++ [x]) st.length f = st ++ [f x]
  | [] => rfl
  | h :: r => by simp [updAt, updAt_append_length f x r]

theorem updAt_getElem?_ne (f : Hdr → Hdr) : ∀ (st : Store) (i j : Nat), j ≠ i → (updAt st i f)[j]? = st[j]?
  | [], _, _, _ => rfl
  | _ :: _, 0, 0, h => absurd rfl h
  | _ :: _, 0, j + 1, _ => by simp [updAt]
  | _ :: _, i + 1, 0, _ => by simp [updAt]
  | _ :: r, i + 1, j + 1, h => by
    simp only [updAt, List.getElem?_cons_succ]
    exact updAt_getElem?_ne f r i j (by omega)

/-- the code as it is: one `Acquire` allocates the request's map as a new object and writes nothing else -/
theorem acquire_fresh (mws : List (String × String)) (st : Store) (src : Nat) :
    acquire .fresh mws st src = (st ++ [delivered mws (st.getD src [])], st.length) := by
  simp [acquire, build, delivered, updAt_append_length]

theorem getD_append_left (st : Store) (x : Hdr) (s : Nat) (h : s < st.length) : (st ++ [x]).getD s [] = st.getD s [] := by
  simp [List.getD_eq_getElem?_getD, List.getElem?_append_left h]

/-- any number of deliveries, any order of file positions: the store only grows, by one new object per delivery, whose
content is a function of the decoded ammo it was built from -/
theorem acquires_fresh (mws : List (String × String)) : ∀ (srcs : List Nat) (st : Store), (∀ s ∈ srcs, s < st.length) →
    acquires .fresh mws st srcs =
      (st ++ srcs.map (fun s => delivered mws (st.getD s [])), List.range' st.length srcs.length)
  | [], st, _ => by simp [acquires]
  | s :: rest, st, h => by
    have hs : s < st.length := h s (by simp)
    have hrest : ∀ x ∈ rest, x < (st ++ [delivered mws (st.getD s [])]).length := by
      intro x hx
      have := h x (by simp [hx])
      simp; omega
    have ih := acquires_fresh mws rest (st ++ [delivered mws (st.getD s [])]) hrest
    have hmap : rest.map (fun x => delivered mws ((st ++ [delivered mws (st.getD s [])]).getD x [])) =
        rest.map (fun x => delivered mws (st.getD x [])) := by
      apply List.map_congr_left
      intro x hx
      rw [getD_append_left st _ x (h x (by simp [hx]))]
    simp only [acquires, acquire_fresh, ih, hmap]
    simp [List.range'_succ]

end Pandora.Proofs.C11
