/-
C14, round 6 — lemmas about a cancellation that lands inside `Scan` (Model/C14Mid.lean).
-/
import Pandora.Model.C14Mid
import Pandora.Proofs.C08Run

namespace Pandora.Proofs.C14
open Pandora.Model.C08 hiding fullScan httpRun runFuel run
open Pandora.Model.C14 Pandora.Proofs.C08

/-- whatever the file, the bounds, the point of the cancellation and the outcome of the races: when the decoders hand
the cancelled context on as it is, every end of the streaming path is one the engine recognises -/
theorem fullScanMid_recognised {σ α : Type} (scan : σ → ScanRes × σ) (passNum : σ → Nat) (file : List α)
    (chosen : α → Bool) (limit : Nat) (checks notices sendWins : Bool) :
    ∀ fuel j s out o e,
      fullScanMid scan passNum file chosen limit .bare checks notices sendWins fuel j s out = some (o, e) →
      e.recognised = true := by
  intro fuel
  induction fuel with
  | zero => intro j s out o e h; simp [fullScanMid] at h
  | succ n ih =>
    intro j s out o e h
    unfold fullScanMid at h
    repeat' split at h
    all_goals first
      | exact ih _ _ _ _ _ h
      | (simp only [Option.some.injEq, Prod.mk.injEq] at h; obtain ⟨_, rfl⟩ := h; rfl)

/-- `runPreloaded` started under a cancelled context delivers nothing -/
theorem runPreloaded_cancelled {α : Type} (l : List α) (b : Bounds) (fuel : Nat) :
    runPreloaded l b (some 0) (fuel + 1) = some ([], if l.length = 0 then .errNoAmmo else .canceled) := by
  unfold runPreloaded
  split
  · rfl
  · simp [preloaded, cancelled]

/-- the preloaded path never delivers anything when the cancellation lands in the loading pass, and — `loadAmmo`
handing on the context's own error — every end is one the engine recognises -/
theorem preloadMid_recognised {σ α : Type} (scan : Bounds → σ → ScanRes × σ) (init : σ) (file : List α)
    (chosen : α → Bool) (b : Bounds) (checks : Bool) (plan : MidPlan) (fuel : Nat) (o : List α) (e : MidEnd)
    (h : preloadMid scan init file chosen b true checks plan fuel = some (o, e)) :
    o = [] ∧ e.recognised = true := by
  unfold preloadMid at h
  split at h
  · simp at h
  · simp only [Option.some.injEq, Prod.mk.injEq] at h; obtain ⟨rfl, rfl⟩ := h; exact ⟨rfl, rfl⟩
  · simp only [Option.some.injEq, Prod.mk.injEq] at h; obtain ⟨rfl, rfl⟩ := h; exact ⟨rfl, rfl⟩
  · cases fuel with
    | zero =>
      rename_i l hl
      simp [loadAmmoMid] at hl
    | succ f =>
      rw [runPreloaded_cancelled] at h
      simp only [Option.some.injEq, Prod.mk.injEq] at h; obtain ⟨rfl, rfl⟩ := h; exact ⟨rfl, rfl⟩

/-- the streaming path, cancellation inside the FIRST Scan call of the run, a file with at least one entry -/
theorem runMid_stream_first {α : Type} (k : Fmt) (a : α) (rest : List α) (chosen : α → Bool) (b : Bounds)
    (ret : CtxRet) (norm notices sendWins : Bool) (fuel : Nat) :
    runMid k false (a :: rest) chosen b ret norm ⟨0, notices, sendWins⟩ (fuel + 1) =
      some (if scanChecksCtx k && notices then ([], scanCtxEnd ret)
            else if chosen a && sendWins then ([a], ownCtxEnd) else ([], ownCtxEnd)) := by
  have h0 : ¬ (b.limit ≠ 0 ∧ b.limit ≤ 0) := by omega
  have h1 : ¬ (b.passes ≠ 0 ∧ b.passes ≤ 0) := by omega
  cases k <;> cases notices <;>
    simp [runMid, midScanOf, fullScanMid, scanChecksCtx, scanStream, scanLoop, scanArr, Dec.init, ArrDec.init, h0, h1] <;>
    (split <;> simp_all)

/-- the preloaded path of a decoder that looks at the context: the cancel inside the first Scan call ends the load -/
theorem runMid_preload_first_checks {α : Type} (k : Fmt) (hk : scanChecksCtx k = true) (a : α) (rest : List α)
    (chosen : α → Bool) (b : Bounds) (ret : CtxRet) (norm notices sendWins : Bool) (fuel : Nat) :
    runMid k true (a :: rest) chosen b ret norm ⟨0, notices, sendWins⟩ (fuel + 1) = some ([], loadCancelEnd norm) := by
  cases k <;> simp [scanChecksCtx] at hk <;> cases notices <;>
    simp [runMid, midScanOf, preloadMid, loadAmmoMid, scanChecksCtx, scanStream, scanLoop, Dec.init]

/-- the preloaded path of a decoder that never looks at the context (http/json): the whole file is loaded, `runPreloaded`
sees the cancellation (or that nothing is chosen) before it delivers anything -/
theorem runMid_preload_first_json {α : Type} (k : Fmt) (hk : scanChecksCtx k = false) (a : α) (rest : List α)
    (chosen : α → Bool) (b : Bounds) (ret : CtxRet) (norm notices sendWins : Bool) (fuel : Nat)
    (hfuel : rest.length + 2 ≤ fuel) :
    runMid k true (a :: rest) chosen b ret norm ⟨0, notices, sendWins⟩ (fuel + 1) =
      some ([], ⟨if ((a :: rest).filter chosen).length = 0 then .errNoAmmo else .canceled, true⟩) := by
  obtain ⟨f, rfl⟩ : ∃ f, fuel = f + 1 := ⟨fuel - 1, by omega⟩
  have hn : 0 < (a :: rest).length := by simp
  cases k <;> simp [scanChecksCtx] at hk
  · -- jsonLines
    have src := src_topCheck (a :: rest).length 1 hn
    obtain ⟨s', hs, hR⟩ := src.next 0 0 Dec.init (RStream_init _) hn (by omega)
    have hl := loadAmmo_spec (fun b => scanStream .topCheck b (a :: rest).length) (RStream (a :: rest).length) (a :: rest) src
      (f + 1) 1 s' hR (by simp) (by simp; omega)
    simp only [List.take_succ_cons, List.take_zero] at hl
    simp only [runMid, midScanOf, preloadMid, loadAmmoMid, scanChecksCtx, Bool.false_and, hs]
    simp only [List.getElem?_cons_zero, List.nil_append, hl, Bool.false_eq_true, if_false]
    rw [runPreloaded_cancelled]
    by_cases hc : (List.filter chosen (a :: rest)).length = 0 <;> simp [hc, mapSentinel]
  · -- jsonArray
    have src := src_arr (a :: rest).length 1 hn
    obtain ⟨s', hs, hR⟩ := src.next 0 0 ArrDec.init (RArr_init _ hn) hn (by omega)
    have hl := loadAmmo_spec (fun b => scanArr b (a :: rest).length) (RArr (a :: rest).length) (a :: rest) src
      (f + 1) 1 s' hR (by simp) (by simp; omega)
    simp only [List.take_succ_cons, List.take_zero] at hl
    simp only [runMid, midScanOf, preloadMid, loadAmmoMid, scanChecksCtx, Bool.false_and, hs]
    simp only [List.getElem?_cons_zero, List.nil_append, hl, Bool.false_eq_true, if_false]
    rw [runPreloaded_cancelled]
    by_cases hc : (List.filter chosen (a :: rest)).length = 0 <;> simp [hc, mapSentinel]

/-- whatever the point of the cancellation: the streaming path only ever delivers chosen entries of the file, after
what it had delivered before -/
theorem fullScanMid_only_chosen {σ α : Type} (scan : σ → ScanRes × σ) (passNum : σ → Nat) (file : List α)
    (chosen : α → Bool) (limit : Nat) (ret : CtxRet) (checks notices sendWins : Bool) :
    ∀ fuel j s out o e,
      fullScanMid scan passNum file chosen limit ret checks notices sendWins fuel j s out = some (o, e) →
      ∃ more, o = out ++ more ∧ ∀ a ∈ more, a ∈ file ∧ chosen a = true := by
  intro fuel
  induction fuel with
  | zero => intro j s out o e h; simp [fullScanMid] at h
  | succ n ih =>
    intro j s out o e h
    unfold fullScanMid at h
    repeat' split at h
    all_goals first
      | exact ih _ _ _ _ _ h
      | (rename_i i _ a hfa hch
         obtain ⟨more, rfl, hm⟩ := ih _ _ _ _ _ h
         refine ⟨a :: more, ?_, ?_⟩
         · simp
         · intro x hx
           rcases List.mem_cons.mp hx with rfl | hx
           · exact ⟨List.mem_of_getElem? hfa, hch⟩
           · exact hm x hx)
      | (rename_i i _ a hfa hch
         simp only [Option.some.injEq, Prod.mk.injEq] at h; obtain ⟨rfl, _⟩ := h
         refine ⟨[a], rfl, ?_⟩
         intro x hx
         simp only [List.mem_singleton] at hx; subst hx
         simp only [Bool.and_eq_true] at hch
         exact ⟨List.mem_of_getElem? hfa, hch.1⟩)
      | (simp only [Option.some.injEq, Prod.mk.injEq] at h; obtain ⟨rfl, _⟩ := h
         refine ⟨[], ?_, ?_⟩ <;> simp)

end Pandora.Proofs.C14
