/-
C15 round 6 helper lemmas: the size of the ammo ring (repair 4cfc662: `config.CheckSpread`).
-/
import Pandora.Proofs.C15Ring
import Pandora.Proofs.C15Shoot
import Pandora.Proofs.C15Verdict

namespace Pandora.Proofs.C15
open Pandora.Model.C15 Pandora.Spec.C15

theorem foldl_cast_sum : ∀ (l : List Nat) (acc : Int),
    (l.map fun w => ((w : Nat) : Int)).foldl (· + ·) acc = acc + ((l.sum : Nat) : Int)
  | [], acc => by simp
  | w :: ws, acc => by
    simp only [List.map_cons, List.foldl_cons, List.sum_cons]
    rw [foldl_cast_sum ws (acc + (w : Int))]
    omega

theorem length_flatMap_replicate {α β} (c : α → Nat) (F : α → β) :
    ∀ l : List α, (l.flatMap fun x => List.replicate (c x) (F x)).length = (l.map c).sum
  | [] => rfl
  | x :: xs => by
    simp only [List.flatMap_cons, List.length_append, List.length_replicate, List.map_cons, List.sum_cons]
    rw [length_flatMap_replicate c F xs]

/-- the ring `decodeAmmo` accepts holds at most `MaxSpreadSize` ammo -/
theorem decodeAmmo_len {ρ} (reqs : List Char → Option ρ) (scs : List ScenarioCfg) (ring : List (Scenario ρ))
    (hnd : (scs.map (·.name)).Nodup) (hw : ∀ sc ∈ scs, 0 ≤ sc.weight)
    (h : decodeAmmo reqs scs = .ok ring) : (ring.length : Int) ≤ maxSpreadSize := by
  obtain ⟨_, hring⟩ := decodeAmmo_ring reqs scs ring hnd hw h
  have hneg : (scs.any fun sc => decide (sc.weight < 0)) = false := by
    rw [List.any_eq_false]
    intro sc hsc
    have := hw sc hsc
    simp; omega
  unfold decodeAmmo at h
  rw [hneg] at h
  simp only [Bool.false_eq_true, if_false] at h
  match scs, hnd, hw, h, hring with
  | [], _, _, _, hring => subst hring; simp [maxSpreadSize]
  | [s], _, _, _, hring =>
    subst hring
    simp [effW, gcdList, maxSpreadSize]
  | a :: b :: rest, hnd, hw, h, hring =>
    have hsp := spreadNames_two a b rest hw
    simp only at hsp
    rw [hsp] at h
    simp only at h
    split at h
    · cases h
    · rename_i hnr
      have hsz : ¬ ((((a :: b :: rest).map (effW (a :: b :: rest).length)).map fun w =>
          ((w / gcdList ((a :: b :: rest).map (effW (a :: b :: rest).length)) : Nat) : Int)).foldl (· + ·) 0
            > maxSpreadSize) := by
        intro hgt
        apply hnr
        unfold spreadRefused
        simp only [Bool.or_eq_true, decide_eq_true_eq]
        exact Or.inl (Or.inr hgt)
      rw [hring, length_flatMap_replicate]
      have e : (((a :: b :: rest).map (effW (a :: b :: rest).length)).map fun w =>
          ((w / gcdList ((a :: b :: rest).map (effW (a :: b :: rest).length)) : Nat) : Int)) =
          (((a :: b :: rest).map fun sc => effW (a :: b :: rest).length sc /
            gcdList ((a :: b :: rest).map (effW (a :: b :: rest).length))).map fun w => ((w : Nat) : Int)) := by
        simp [List.map_map, Function.comp]
      rw [e, foldl_cast_sum] at hsz
      omega

/-! ### every executed step is reported exactly once (seed C15-r6-1: a second, failed report of a step that succeeded) -/

variable {Req : Type}

def isSample : Ev Req → Bool
  | .sample _ _ _ => true
  | _ => false

def isFailedSample : Ev Req → Bool
  | .sample _ _ true => true
  | _ => false

theorem okEvents_samples (scName : String) (st : Step ReqDef) (r : Req) (c : Int) :
    (okEvents scName st r c).countP isSample = 1 ∧ (okEvents scName st r c).countP isFailedSample = 0 := by
  unfold okEvents
  by_cases h : st.sleep > 0 <;> simp [h, isSample, isFailedSample, List.countP_cons]

theorem okRun_samples (scName : String) : ∀ (steps : List (Step ReqDef)) (rcs : List (Req × Int)),
    rcs.length = steps.length →
    (okRun scName steps rcs).countP isSample = steps.length ∧ (okRun scName steps rcs).countP isFailedSample = 0
  | [], [], _ => by simp [okRun]
  | [], _ :: _, h => by simp at h
  | _ :: _, [], h => by simp at h
  | st :: steps, (r, c) :: rcs, h => by
    have ih := okRun_samples scName steps rcs (by simpa using h)
    have h1 := okEvents_samples scName st r c
    simp only [okRun, List.countP_append, h1.1, h1.2, ih.1, ih.2, List.length_cons]
    exact ⟨by omega, trivial⟩

/-! ### provider → gun: the shots of the ammo a consumer takes, one after the other -/

/-- an instance shoots the ammo it is handed, in order (a failed shot does not stop the instance) -/
def shootAll {Req Resp : Type} (w : World Req Resp) (source : Val) : List (Scenario ReqDef) → GState Req → Option (GState Req)
  | [], g => some g
  | sc :: r, g =>
    match shoot w source sc g with
    | none => none
    | some (_, g') => shootAll w source r g'

theorem shootAll_verdict {Req Resp : Type} (w : World Req Resp) (nm : Req → String) (hnm : Named w nm) (source : Val) :
    ∀ (ammos : List (Scenario ReqDef)) (g g' : GState Req), shootAll w source ammos g = some g' →
      ∃ evss : List (List OEv), obsLog nm g'.log = obsLog nm g.log ++ evss.flatten ∧
        evss.length = ammos.length ∧
        ∀ p ∈ ammos.zip evss, shotVerdict (String.ofList p.1.name) (p.1.steps.map (·.req.name)) p.2 = "ok"
  | [], g, g', h => by
    simp only [shootAll] at h; cases h
    exact ⟨[], by simp, rfl, by simp⟩
  | sc :: r, g, g', h => by
    simp only [shootAll] at h
    split at h
    · cases h
    · rename_i b g1 hs
      obtain ⟨evs, he, hs'⟩ := shootLoop_shape w nm hnm source (String.ofList sc.name) sc.steps [] g b g1 hs
      obtain ⟨evss, hes, hlen, hall⟩ := shootAll_verdict w nm hnm source r g1 g' h
      refine ⟨evs :: evss, ?_, by simp [hlen], ?_⟩
      · rw [hes, he, List.flatten_cons, List.append_assoc]
      · intro p hp
        simp only [List.zip_cons_cons, List.mem_cons] at hp
        rcases hp with rfl | hp
        · exact verdict_of_shape hs'
        · exact hall p hp

end Pandora.Proofs.C15
