/-
C13, round 4 — helper lemmas about the option handling around the decoders (Model/C13Cfg.lean): the `chosen_cases`
filter under `runFullScan` (`ccMulti`, `jlArrayLoopCC`), the plugin name of `parseConf`, the separator of `readCsv`.
-/
import Pandora.Model.C13Cfg
import Pandora.Proofs.C13Jsonline

namespace Pandora.Proofs.C13
open Pandora.Model.C13

/-! ### `ccMulti` -/

/-- a filter that lets nothing through: one pass, then "no ammo" (or the error of the file) - whatever the limits -/
theorem ccMulti_nothing (one : Run) (passes limit : Nat) (fuel passNum read : Nat) :
    ccMulti true one [] passes limit (fuel + 1) passNum read 0 =
      if one.end_ ≠ .ok then ⟨[], one.end_, one.rest⟩ else ⟨[], .err "noammo", []⟩ := by
  unfold ccMulti
  have h0 : ¬ (limit ≠ 0 ∧ 0 + ([] : List Entry).length ≥ limit) := by
    simp only [List.length_nil, Nat.add_zero]; omega
  rw [if_neg h0]
  by_cases he : one.end_ ≠ .ok
  · rw [if_pos he, if_pos he]
  · rw [if_neg he, if_neg he]
    cases httpPassEnd passes (passNum + 1) (read + one.entries.length) <;> simp

/-- with a limit: every repeated pass delivers at least one entry -/
theorem ccMulti_no_fuel_limit (one : Run) (sel : List Entry) (passes limit : Nat) (hone : one.end_ ≠ .fuel) (hl : limit ≠ 0) :
    ∀ (fuel passNum read done : Nat), done = passNum * sel.length → limit - done + 1 ≤ fuel →
      (ccMulti true one sel passes limit fuel passNum read done).end_ ≠ .fuel := by
  intro fuel
  induction fuel with
  | zero => intro passNum read done _ h; omega
  | succ fuel ih =>
    intro passNum read done hd hf
    unfold ccMulti
    split
    · simp
    · rename_i hlim
      split
      · exact hone
      · split
        · rename_i e he
          unfold httpPassEnd at he
          split
          · simp
          · split at he
            · cases he; simp
            · split at he
              · cases he; simp
              · cases he
        · split
          · simp
          · rename_i hg
            rw [prepend_end]
            have hpos : done + sel.length ≠ 0 := fun h0 => hg ⟨rfl, h0⟩
            have hlen : 0 < sel.length := by
              rcases Nat.eq_zero_or_pos sel.length with h0 | h0
              · rw [h0] at hd hpos; simp at hd; omega
              · exact h0
            refine ih (passNum + 1) _ (done + sel.length) ?_ ?_
            · rw [hd, Nat.succ_mul]
            · have hlt : done + sel.length < limit := by
                rcases Nat.lt_or_ge (done + sel.length) limit with h | h
                · exact h
                · exact absurd ⟨hl, h⟩ hlim
              omega

/-- with a pass limit: at most `passes` passes -/
theorem ccMulti_no_fuel_passes (guarded : Bool) (one : Run) (sel : List Entry) (passes limit : Nat) (hone : one.end_ ≠ .fuel)
    (hp : passes ≠ 0) :
    ∀ (fuel passNum read done : Nat), passes - passNum + 1 ≤ fuel →
      (ccMulti guarded one sel passes limit fuel passNum read done).end_ ≠ .fuel := by
  intro fuel
  induction fuel with
  | zero => intro passNum read done h; omega
  | succ fuel ih =>
    intro passNum read done hf
    unfold ccMulti
    split
    · simp
    · split
      · exact hone
      · split
        · rename_i e he
          unfold httpPassEnd at he
          split
          · simp
          · split at he
            · cases he; simp
            · split at he
              · cases he; simp
              · cases he
        · rename_i hag
          obtain ⟨_, hlt⟩ := httpPassEnd_again _ _ _ hag
          split
          · simp
          · rw [prepend_end]
            refine ih (passNum + 1) _ _ ?_
            rcases hlt with h0 | hlt
            · exact absurd h0 hp
            · omega

/-- nothing but chosen entries of the file is delivered -/
theorem ccMulti_mem (guarded : Bool) (one : Run) (sel : List Entry) (passes limit : Nat) :
    ∀ (fuel passNum read done : Nat), ∀ e ∈ (ccMulti guarded one sel passes limit fuel passNum read done).entries, e ∈ sel := by
  intro fuel
  induction fuel with
  | zero => intro _ _ _ e he; simp [ccMulti] at he
  | succ fuel ih =>
    intro passNum read done e he
    unfold ccMulti at he
    split at he
    · exact List.mem_of_mem_take he
    · split at he
      · exact he
      · split at he
        · exact he
        · split at he
          · simp at he
          · simp only [Run.prepend, List.mem_append] at he
            rcases he with h | h
            · exact h
            · exact ih _ _ _ e h

theorem httpPassEnd_stop_zero (passes passNum : Nat) (e : End) (h : httpPassEnd passes passNum 0 = .stop e) :
    e = .ok ∨ e = .err "noammo" := by
  unfold httpPassEnd at h
  split at h
  · cases h; exact .inl rfl
  · simp at h; exact .inr h.symm

/-- a filter that lets everything through: the provider of the earlier rounds (`multiRun`), entry by entry; the end differs
in one case only - a pass limit reached with nothing delivered is "no ammo" here, and was not told from a regular end there -/
theorem ccMulti_all (one : Run) (passes limit : Nat) :
    ∀ (fuel passNum done : Nat),
      (ccMulti true one one.entries passes limit fuel passNum done done).entries = (multiRun one passes limit fuel passNum done).entries ∧
      ((ccMulti true one one.entries passes limit fuel passNum done done).end_ = (multiRun one passes limit fuel passNum done).end_ ∨
       ((multiRun one passes limit fuel passNum done).end_ = .ok ∧
        (ccMulti true one one.entries passes limit fuel passNum done done).end_ = .err "noammo")) := by
  intro fuel
  induction fuel with
  | zero => intro _ _; simp [ccMulti, multiRun]
  | succ fuel ih =>
    intro passNum done
    unfold ccMulti multiRun
    split
    · simp
    · split
      · simp
      · cases hpe : httpPassEnd passes (passNum + 1) (done + one.entries.length) with
        | stop e =>
          simp only [true_and]
          by_cases h0 : done + one.entries.length = 0
          · rw [if_pos h0]
            rw [h0] at hpe
            rcases httpPassEnd_stop_zero _ _ _ hpe with he | he
            · right; exact ⟨he, rfl⟩
            · left; exact he.symm
          · rw [if_neg h0]; simp
        | again =>
          obtain ⟨hpos, _⟩ := httpPassEnd_again _ _ _ hpe
          have hg : ¬ ((true : Bool) = true ∧ done + one.entries.length = 0) := by omega
          rw [if_neg hg]
          obtain ⟨h1, h2⟩ := ih (passNum + 1) (done + one.entries.length)
          refine ⟨?_, ?_⟩
          · show one.entries ++ _ = one.entries ++ _
            rw [h1]
          · exact h2

/-- the provider WITHOUT the test in front of `Scan` (or with a decoder that does not answer the `passCounter` assertion):
a file with an entry, a filter that matches nothing, no pass limit - it never ends, whatever the ammo limit -/
theorem ccMulti_unguarded_spins (e : Entry) (es : List Entry) (limit : Nat) :
    ∀ (fuel passNum read : Nat), (ccMulti false ⟨e :: es, .ok, []⟩ [] 0 limit fuel passNum read 0).end_ = .fuel := by
  intro fuel
  induction fuel with
  | zero => intro _ _; rfl
  | succ fuel ih =>
    intro passNum read
    unfold ccMulti
    have h0 : ¬ (limit ≠ 0 ∧ 0 + ([] : List Entry).length ≥ limit) := by
      simp only [List.length_nil, Nat.add_zero]; omega
    rw [if_neg h0]
    simp only [ne_eq, not_true_eq_false, if_false]
    have hpe : httpPassEnd 0 (passNum + 1) (read + (e :: es).length) = .again := by
      unfold httpPassEnd
      simp
    rw [hpe]
    simp only [Bool.false_eq_true, false_and, if_false, prepend_end]
    exact ih _ _

/-- how the provider with a filter can end: well, as the single pass ends, with "no ammo" - or out of fuel -/
theorem ccMulti_end_cases (guarded : Bool) (one : Run) (sel : List Entry) (passes limit : Nat) :
    ∀ (fuel passNum read done : Nat),
      (ccMulti guarded one sel passes limit fuel passNum read done).end_ = .ok ∨
      (ccMulti guarded one sel passes limit fuel passNum read done).end_ = one.end_ ∨
      (ccMulti guarded one sel passes limit fuel passNum read done).end_ = .fuel ∨
      (ccMulti guarded one sel passes limit fuel passNum read done).end_ = .err "noammo" := by
  intro fuel
  induction fuel with
  | zero => intro _ _ _; simp [ccMulti]
  | succ fuel ih =>
    intro passNum read done
    unfold ccMulti
    split
    · simp
    · split
      · simp
      · split
        · rename_i e he
          split
          · simp
          · unfold httpPassEnd at he
            split at he
            · cases he; simp
            · split at he
              · cases he; simp
              · cases he
        · split
          · simp
          · rw [prepend_end]
            exact ih _ _ _

theorem multiRun_mem (one : Run) (passes limit : Nat) :
    ∀ (fuel passNum done : Nat), ∀ e ∈ (multiRun one passes limit fuel passNum done).entries, e ∈ one.entries := by
  intro fuel
  induction fuel with
  | zero => intro _ _ e he; simp [multiRun] at he
  | succ fuel ih =>
    intro passNum done e he
    unfold multiRun at he
    split at he
    · exact List.mem_of_mem_take he
    · split at he
      · exact he
      · split at he
        · exact he
        · simp only [Run.prepend, List.mem_append] at he
          rcases he with h | h
          · exact h
          · exact ih _ _ e h

/-! ### `jlArrayLoopCC` -/

theorem jlArrayLoopCC_no_panic (guarded : Bool) (chosen : Bytes → Bool) (elems : List Bytes) (passes limit : Nat) :
    ∀ (fuel : Nat) (s : JlArr) (n : Nat) (acc : List Entry),
      (jlArrayLoopCC guarded chosen elems passes limit fuel s n acc).end_ ≠ .panic ∧
      (jlArrayLoopCC guarded chosen elems passes limit fuel s n acc).end_ ≠ .fatal := by
  intro fuel
  induction fuel with
  | zero => intro s n acc; simp [jlArrayLoopCC]
  | succ fuel ih =>
    intro s n acc
    unfold jlArrayLoopCC
    split
    · simp
    · split
      · simp
      · have hnp := scanAmmos_no_panic elems passes s
        split
        · split
          · exact ih _ _ _
          · exact ih _ _ _
        · split <;> simp
        · simp
        · rename_i heq
          rw [heq] at hnp
          simp at hnp

/-- a filter that lets every element through: the loop of round 2 -/
theorem jlArrayLoopCC_all (elems : List Bytes) (passes limit : Nat) :
    ∀ (fuel : Nat) (s : JlArr) (n : Nat) (acc : List Entry),
      jlArrayLoopCC true (fun _ => true) elems passes limit fuel s n acc = jlArrayLoop elems passes limit fuel s n acc := by
  intro fuel
  induction fuel with
  | zero => intro s n acc; rfl
  | succ fuel ih =>
    intro s n acc
    unfold jlArrayLoopCC jlArrayLoop
    split
    · rfl
    · simp only [true_and]
      split
      · rfl
      · split <;> simp_all

/-- an array none of whose elements passes the filter: the run ends with "no ammo" after at most one pass, whatever the limits -/
theorem jlArrayLoopCC_nothing (chosen : Bytes → Bool) (elems : List Bytes) (passes limit : Nat)
    (hnone : ∀ t ∈ elems, chosen t = false) :
    ∀ (fuel : Nat) (s : JlArr) (acc : List Entry), JlArr.Inv elems.length s → 1 ≤ fuel →
      (s.passNum = 0 → elems.length - s.ammoNum + 1 ≤ fuel) →
      jlArrayLoopCC true chosen elems passes limit fuel s 0 acc = ⟨acc.reverse, .err "noammo", []⟩ := by
  intro fuel
  induction fuel with
  | zero => intro s acc _ h; omega
  | succ fuel ih =>
    intro s acc hinv _ hf
    unfold jlArrayLoopCC
    have h0 : ¬ (limit ≠ 0 ∧ 0 ≥ limit) := by omega
    rw [if_neg h0]
    by_cases hp : s.passNum > 0
    · rw [if_pos ⟨rfl, rfl, hp⟩]
    · have hp0 : s.passNum = 0 := by omega
      have hg : ¬ ((true : Bool) = true ∧ 0 = 0 ∧ s.passNum > 0) := by omega
      rw [if_neg hg]
      have hnp := scanAmmos_no_panic elems passes s
      split
      · rename_i t s' heq
        obtain ⟨hinv', hnum, _, hmem⟩ := scanAmmos_ammo elems passes s s' t hinv heq
        rw [hnone t hmem]
        simp only [Bool.false_eq_true, if_false]
        obtain ⟨r, hr, hreq⟩ := hinv
        have hlt : s.ammoNum < elems.length := by rw [hreq, hp0]; simpa using hr
        have hfu := hf hp0
        refine ih s' acc hinv' (by omega) ?_
        intro _
        omega
      · simp
      · rfl
      · rename_i heq
        rw [heq] at hnp
        simp at hnp

/-! ### the `type` of a plugin -/

/-- when the emptiness test looks at a string that is empty whenever the name handed on is, the registry's
`expect(name != "")` cannot fire: a value or an error, for every shape of the `type` key(s) and every registry -/
theorem pluginFromConf_returns (tested returned : Bytes → Bytes) (registered : Bytes → Bool) (vals : List TypeVal)
    (h : ∀ s, returned s = [] → tested s = []) : (pluginFromConf tested returned registered vals).returns = true := by
  unfold pluginFromConf parseConfName
  by_cases hany : (vals.any fun v => !v.isStr) = true
  · rw [if_pos hany]; simp [Res.bind, Res.returns, Res.isPanic, Res.isFatal]
  · rw [if_neg hany]
    match vals with
    | [] => simp [Res.bind, Res.returns, Res.isPanic, Res.isFatal]
    | [.other] => simp [Res.bind, Res.returns, Res.isPanic, Res.isFatal]
    | [.str s] =>
      simp only
      by_cases ht : tested s = []
      · rw [if_pos ht]; simp [Res.bind, Res.returns, Res.isPanic, Res.isFatal]
      · rw [if_neg ht]
        have hr : returned s ≠ [] := fun hr => ht (h s hr)
        simp only [Res.bind, registryNew, hr, if_false]
        split <;> simp [Res.returns, Res.isPanic, Res.isFatal]
    | _ :: _ :: _ => simp [Res.bind, Res.returns, Res.isPanic, Res.isFatal]

/-- a `type` that is empty or only white space names no plugin: an error, as long as no plugin is registered under a
blank name -/
theorem pluginFromConf_blank (registered : Bytes → Bool) (s : Bytes) (hs : trimSpace s = [])
    (hreg : ∀ n, registered n = true → trimSpace n ≠ []) :
    ∃ c, pluginFromConf id id registered [.str s] = .err c := by
  unfold pluginFromConf parseConfName
  simp only [List.any_cons, TypeVal.isStr, Bool.not_true, List.any_nil, Bool.or_self, Bool.false_eq_true, if_false, id]
  by_cases he : s = []
  · exact ⟨"empty", by simp [he, Res.bind]⟩
  · have hnr : registered s ≠ true := fun hr => hreg s hr hs
    refine ⟨"noplugin", ?_⟩
    simp [he, Res.bind, registryNew, hnr]

/-! ### the separator of a csv variable source -/

theorem csvComma_guarded (delimiter : Bytes) : ∃ c, csvComma true delimiter = .ok c := by
  unfold csvComma
  cases delimiter with
  | nil => exact ⟨44, by simp⟩
  | cons b rest => exact ⟨b, by simp [indexC]⟩

theorem csvOpen_returns (delimiter : Bytes) : (csvOpen true delimiter).returns = true := by
  obtain ⟨c, hc⟩ := csvComma_guarded delimiter
  unfold csvOpen
  rw [hc]
  simp only [Res.bind]
  split <;> simp [Res.returns, Res.isPanic, Res.isFatal]

end Pandora.Proofs.C13
