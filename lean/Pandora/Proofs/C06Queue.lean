/-
C06 helper lemmas: the invariant of the reporter / queue / aggregator transition system.
-/
import Pandora.Model.C06AggQueue

namespace Pandora.Proofs.C06Queue
open Pandora.Model.AggQueue

variable {β : Type}

def accepted (log : List (Item β × Bool)) : List (Item β) := (log.filter (fun e => e.2)).map (·.1)
def rejected (log : List (Item β × Bool)) : List (Item β) := (log.filter (fun e => !e.2)).map (·.1)

theorem accepted_snoc_true (log : List (Item β × Bool)) (x : Item β) :
    accepted (log ++ [(x, true)]) = accepted log ++ [x] := by simp [accepted]
theorem accepted_snoc_false (log : List (Item β × Bool)) (x : Item β) :
    accepted (log ++ [(x, false)]) = accepted log := by simp [accepted]
theorem rejected_snoc_true (log : List (Item β × Bool)) (x : Item β) :
    rejected (log ++ [(x, true)]) = rejected log := by simp [rejected]
theorem rejected_snoc_false (log : List (Item β × Bool)) (x : Item β) :
    rejected (log ++ [(x, false)]) = rejected log ++ [x] := by simp [rejected]

theorem ofReporter_snoc_same (r : Nat) (l : List (Item β)) (x : β) :
    ofReporter r (l ++ [(r, x)]) = ofReporter r l ++ [x] := by simp [ofReporter]
theorem ofReporter_snoc_other {r r' : Nat} (h : r' ≠ r) (l : List (Item β)) (x : β) :
    ofReporter r' (l ++ [(r, x)]) = ofReporter r' l := by
  have : (r == r') = false := by simp; exact fun e => h e.symm
  simp [ofReporter, this]

/-- what Run's return value must be -/
def retErr (cfg : Cfg) (n : Nat) : Option Nat :=
  match cfg.kind with
  | .phout => none
  | .encoder => droppedErr n

structure Inv (cfg : Cfg) (progs : Nat → List β) (st : St β) : Prop where
  /-- FIFO conservation: sink ++ buffer ++ queue is exactly the enqueued samples, in order -/
  flow : st.out ++ st.buf ++ st.q = accepted st.log
  drops : st.dropped = rejected st.log
  count : st.droppedCount = st.dropped.length
  nodrop : cfg.kind = .phout → st.dropped = []
  progs : ∀ r, ofReporter r st.reports ++ st.pending r = progs r
  draining : st.phase = .draining → st.cancelled = true
  ret : st.phase = .returned → st.buf = [] ∧ st.closed = true ∧ st.cancelled = true ∧
          (st.late = false → st.q = [] ∧ st.err = retErr cfg st.droppedCount)

theorem inv_init (cfg : Cfg) (progs : Nat → List β) : Inv cfg progs (init progs) := by
  refine ⟨by simp [init, accepted], by simp [init, rejected], by simp [init], by simp [init], ?_, ?_, ?_⟩
  · intro r; simp [init, St.reports, ofReporter]
  · simp [init]
  · simp [init]

/-- a step that only moves samples along queue → buffer → sink (same concatenation), outside the
returned phase, keeps the invariant -/
theorem inv_move {cfg : Cfg} {progs : Nat → List β} {st st' : St β} (h : Inv cfg progs st)
    (hflow : st'.out ++ st'.buf ++ st'.q = st.out ++ st.buf ++ st.q)
    (hpend : st'.pending = st.pending) (hcnt : st'.droppedCount = st.droppedCount)
    (hdrop : st'.dropped = st.dropped) (hlog : st'.log = st.log) (hc : st'.cancelled = st.cancelled)
    (hphase : st'.phase = st.phase) (hnr : st.phase ≠ .returned) : Inv cfg progs st' := by
  refine ⟨by rw [hflow, hlog]; exact h.flow, by rw [hdrop, hlog]; exact h.drops, by rw [hcnt, hdrop]; exact h.count,
    by rw [hdrop]; exact h.nodrop, ?_, ?_, ?_⟩
  · intro r
    have := h.progs r
    simp only [St.reports] at this ⊢
    rw [hlog, hpend]; exact this
  · rw [hphase, hc]; exact h.draining
  · rw [hphase]; intro hr; exact absurd hr hnr

theorem flush_flow (st : St β) : st.flush.out ++ st.flush.buf ++ st.flush.q = st.out ++ st.buf ++ st.q := by
  simp [St.flush]

theorem handle_flow (st : St β) (x : Item β) (rest : List (Item β)) (hq : st.q = x :: rest) :
    (st.handle x rest).out ++ (st.handle x rest).buf ++ (st.handle x rest).q = st.out ++ st.buf ++ st.q := by
  simp [St.handle, hq]

theorem inv_step {cfg : Cfg} {progs : Nat → List β} {st : St β} (h : Inv cfg progs st) (e : Ev) :
    Inv cfg progs (step cfg st e) := by
  cases e with
  | report r =>
    simp only [step]
    split
    · exact h
    · rename_i x rest hp
      split
      · -- enqueued
        refine ⟨?_, ?_, h.count, h.nodrop, ?_, h.draining, ?_⟩
        · simp only [accepted_snoc_true]
          rw [← h.flow]; simp
        · simp only [rejected_snoc_true]; exact h.drops
        · intro r'
          have := h.progs r'
          simp only [St.reports, List.map_append, List.map_cons, List.map_nil] at this ⊢
          by_cases hr : r' = r
          · subst hr
            rw [ofReporter_snoc_same]
            simp only [setPending, if_true]
            rw [hp] at this
            simpa using this
          · rw [ofReporter_snoc_other hr]
            simp only [setPending, hr, if_false]
            exact this
        · intro hr
          obtain ⟨hb, hcl, hca, _⟩ := h.ret hr
          refine ⟨hb, hcl, hca, ?_⟩
          intro hl
          simp [hca] at hl
      · split
        · exact h
        · rename_i hk
          -- dropped
          refine ⟨?_, ?_, ?_, ?_, ?_, h.draining, ?_⟩
          · simp only [accepted_snoc_false]; exact h.flow
          · simp only [rejected_snoc_false]; rw [h.drops]
          · simp [h.count]
          · intro hph; rw [hph] at hk; cases hk
          · intro r'
            have := h.progs r'
            simp only [St.reports, List.map_append, List.map_cons, List.map_nil] at this ⊢
            by_cases hr : r' = r
            · subst hr
              rw [ofReporter_snoc_same]
              simp only [setPending, if_true]
              rw [hp] at this
              simpa using this
            · rw [ofReporter_snoc_other hr]
              simp only [setPending, hr, if_false]
              exact this
          · intro hr
            obtain ⟨hb, hcl, hca, _⟩ := h.ret hr
            refine ⟨hb, hcl, hca, ?_⟩
            intro hl
            simp [hca] at hl
  | recv tf =>
    simp only [step]
    split
    · rename_i x rest hph hq
      have hnr : st.phase ≠ .returned := by rw [hph]; decide
      have hh : Inv cfg progs (st.handle x rest) :=
        inv_move h (handle_flow st x rest hq) rfl rfl rfl rfl rfl rfl hnr
      split
      · split
        · exact inv_move hh (flush_flow _) rfl rfl rfl rfl rfl rfl (by simpa [St.handle] using hnr)
        · exact hh
      · exact hh
    · exact h
  | tick =>
    simp only [step]
    split
    · rename_i hph
      have hnr : st.phase ≠ .returned := by rw [hph]; decide
      split
      · exact inv_move h (flush_flow _) rfl rfl rfl rfl rfl rfl hnr
      · split
        · exact inv_move h (by simp [St.flush]) rfl rfl rfl rfl rfl rfl hnr
        · exact inv_move h rfl rfl rfl rfl rfl rfl rfl hnr
    · exact h
  | spill k =>
    simp only [step]
    split
    · exact h
    · rename_i hk
      have hbuf : st.buf ≠ [] := by
        intro e; apply hk; right; simp [e]
      have hnr : st.phase ≠ .returned := by
        intro hr; exact hbuf (h.ret hr).1
      exact inv_move h (by simp) rfl rfl rfl rfl rfl rfl hnr
  | cancel =>
    simp only [step]
    refine ⟨h.flow, h.drops, h.count, h.nodrop, h.progs, fun _ => rfl, ?_⟩
    intro hr
    obtain ⟨hb, hcl, _, hq⟩ := h.ret hr
    exact ⟨hb, hcl, rfl, hq⟩
  | seeCancel =>
    simp only [step]
    split
    · rename_i hph
      split
      · rename_i hc
        refine ⟨h.flow, h.drops, h.count, h.nodrop, h.progs, fun _ => hc, ?_⟩
        intro hr; cases hr
      · exact h
    · exact h
  | drain =>
    simp only [step]
    split
    · rename_i x rest hph hq
      have hnr : st.phase ≠ .returned := by rw [hph]; decide
      exact inv_move h (handle_flow st x rest hq) rfl rfl rfl rfl rfl rfl hnr
    · rename_i hph hq
      have hc := h.draining hph
      refine ⟨?_, h.drops, h.count, h.nodrop, h.progs, ?_, ?_⟩
      · have := h.flow
        simpa [St.flush] using this
      · intro hd; cases hd
      · intro _
        refine ⟨by simp [St.flush], rfl, by simpa [St.flush] using hc, ?_⟩
        intro _
        refine ⟨by simpa [St.flush] using hq, ?_⟩
        simp only [St.flush, retErr]
        cases cfg.kind <;> rfl
    · exact h

theorem inv_run {cfg : Cfg} {progs : Nat → List β} (sched : List Ev) {st : St β} (h : Inv cfg progs st) :
    Inv cfg progs (run cfg st sched) := by
  induction sched generalizing st with
  | nil => exact h
  | cons e es ih => exact ih (inv_step h e)

/-! ## consequences of the invariant at Run's return -/

theorem accepted_rejected_perm (log : List (Item β × Bool)) :
    (accepted log ++ rejected log).Perm (log.map (·.1)) := by
  unfold accepted rejected
  rw [← List.map_append]
  exact (List.filter_append_perm (fun e => e.2) log).map _

theorem accepted_sublist (log : List (Item β × Bool)) : (accepted log).Sublist (log.map (·.1)) :=
  (List.filter_sublist).map _

theorem accepted_of_rejected_nil {log : List (Item β × Bool)} (h : rejected log = []) :
    accepted log = log.map (·.1) := by
  induction log with
  | nil => rfl
  | cons e es ih =>
    obtain ⟨x, b⟩ := e
    cases b
    · simp [rejected] at h
    · simp only [rejected, accepted] at h ih ⊢
      simp at h ⊢
      simpa using ih (by simpa using h)

/-! ## the schedule-level hypothesis gives the ghost flag -/

theorem late_of_noreport {β : Type} (cfg : Cfg) (sched : List Ev) (st : St β)
    (h : ∀ e ∈ sched, isReportEv e = false) : (run cfg st sched).late = st.late := by
  induction sched generalizing st with
  | nil => rfl
  | cons e es ih =>
    simp only [run]
    rw [ih _ (fun x hx => h x (by simp [hx]))]
    have he := h e (by simp)
    cases e with
    | report r => simp [isReportEv] at he
    | recv tf =>
      simp only [step]; split
      · split
        · split <;> rfl
        · rfl
      · rfl
    | tick =>
      simp only [step]; split
      · split
        · rfl
        · split <;> rfl
      · rfl
    | spill k => simp only [step]; split <;> rfl
    | cancel => rfl
    | seeCancel =>
      simp only [step]; split
      · split <;> rfl
      · rfl
    | drain =>
      simp only [step]; split <;> rfl

theorem not_late {β : Type} (cfg : Cfg) (sched : List Ev) (st : St β) (hc : st.cancelled = false)
    (hl : st.late = false) (h : NoReportAfterCancel sched) : (run cfg st sched).late = false := by
  induction sched generalizing st with
  | nil => exact hl
  | cons e es ih =>
    cases e with
    | cancel =>
      simp only [run]
      rw [late_of_noreport cfg es _ h]
      exact hl
    | report r =>
      simp only [run]
      apply ih _ _ _ h
      · simp only [step]; split
        · exact hc
        · split
          · exact hc
          · split <;> exact hc
      · simp only [step]; split
        · exact hl
        · split
          · simp [hl, hc]
          · split
            · exact hl
            · simp [hl, hc]
    | recv tf =>
      simp only [run]
      apply ih _ _ _ h
      · simp only [step]; split
        · split
          · split <;> exact hc
          · exact hc
        · exact hc
      · simp only [step]; split
        · split
          · split <;> exact hl
          · exact hl
        · exact hl
    | tick =>
      simp only [run]
      apply ih _ _ _ h
      · simp only [step]; split
        · split
          · exact hc
          · split <;> exact hc
        · exact hc
      · simp only [step]; split
        · split
          · exact hl
          · split <;> exact hl
        · exact hl
    | spill k =>
      simp only [run]
      apply ih _ _ _ h
      · simp only [step]; split <;> exact hc
      · simp only [step]; split <;> exact hl
    | seeCancel =>
      simp only [run]
      apply ih _ _ _ h
      · simp only [step]; split
        · split <;> exact hc
        · exact hc
      · simp only [step]; split
        · split <;> exact hl
        · exact hl
    | drain =>
      simp only [run]
      apply ih _ _ _ h
      · simp only [step]; split <;> exact hc
      · simp only [step]; split <;> exact hl

end Pandora.Proofs.C06Queue
