/-
C03 — the ammo-item invariant: every acquired item is held by exactly one instance until it is released, is released
exactly once, and every `Shoot`/`Release` touches an item that is held at that moment.  For ANY number of instances
and ANY trace.  Items are numbered in acquisition order; `cur[i]` is the local variable `ammo` of instance `i`.
-/
import Pandora.Proofs.C03

namespace Pandora.Proofs.C03
open Pandora.Model.C03

structure InvI (c : Cfg) (s : St) : Prop where
  pcsLen : s.pcs.length = c.instances
  curLen : s.cur.length = c.instances
  relsLen : s.rels.length = s.acquired
  /-- an instance between Acquire and Release holds an item that has not been released -/
  holder : ∀ (i : Nat) (p : Pc), s.pcs[i]? = some p → p.holds = true →
    ∃ k : Nat, s.cur[i]? = some (some k) ∧ s.rels[k]? = some 0
  nonholder : ∀ (i : Nat) (p : Pc), s.pcs[i]? = some p → p.holds = false → s.cur[i]? = some none
  /-- no item is held by two instances -/
  inj : ∀ (i j k : Nat), s.cur[i]? = some (some k) → s.cur[j]? = some (some k) → i = j
  /-- an item has been released once, or not at all and then some instance holds it -/
  relsOk : ∀ (k v : Nat), s.rels[k]? = some v → (v = 0 ∧ ∃ i : Nat, s.cur[i]? = some (some k)) ∨ v = 1
  good : s.badUse = false

theorem init_invI (c : Cfg) : InvI c (init c) := by
  refine ⟨by simp [init], by simp [init], by simp [init], ?_, ?_, ?_, ?_, rfl⟩
  · intro i p h hp
    simp only [init] at h
    rw [List.getElem?_replicate] at h
    split at h
    · cases h; simp [Pc.holds] at hp
    · cases h
  · intro i p h _
    simp only [init] at h ⊢
    rw [List.getElem?_replicate] at h ⊢
    split at h
    · rename_i hlt; simp [hlt]
    · cases h
  · intro i j k h
    simp only [init] at h
    rw [List.getElem?_replicate] at h
    split at h <;> cases h
  · intro k v h
    simp [init] at h

/-- whoever holds item `k` in its local variable, the item is unreleased -/
theorem cur_held {c : Cfg} {s : St} (hi : InvI c s) {i k : Nat} (h : s.cur[i]? = some (some k)) :
    s.rels[k]? = some 0 := by
  have hlt : i < s.pcs.length := by
    have := lt_of_get h; rw [hi.curLen] at this; rw [hi.pcsLen]; exact this
  have hp : s.pcs[i]? = some s.pcs[i] := List.getElem?_eq_getElem hlt
  cases hh : s.pcs[i].holds with
  | true =>
    obtain ⟨k', h1, h2⟩ := hi.holder i _ hp hh
    rw [h] at h1
    have : k = k' := by injection h1 with h1; injection h1
    rw [this]; exact h2
  | false =>
    have := hi.nonholder i _ hp hh
    rw [h] at this; cases this

/-- a move of instance `i` that keeps its local variable, the items and the counters alone -/
theorem invI_move {c : Cfg} {s : St} (hi : InvI c s) {i : Nat} {old new : Pc} (h : s.pcs[i]? = some old)
    (s' : St) (hpcs : s'.pcs = s.pcs.set i new) (hcur : s'.cur = s.cur) (hrels : s'.rels = s.rels)
    (hacq : s'.acquired = s.acquired) (hbad : s'.badUse = false) (hholds : new.holds = old.holds) : InvI c s' := by
  refine ⟨by rw [hpcs, List.length_set]; exact hi.pcsLen, by rw [hcur]; exact hi.curLen,
    by rw [hrels, hacq]; exact hi.relsLen, ?_, ?_, by rw [hcur]; exact hi.inj, by rw [hcur, hrels]; exact hi.relsOk, hbad⟩
  · intro j p hj hp
    rw [hpcs, pcs_after h j] at hj
    rw [hcur, hrels]
    by_cases hji : j = i
    · simp only [hji, if_true, Option.some.injEq] at hj
      subst hj
      rw [hji]; exact hi.holder i old h (by rw [← hholds]; exact hp)
    · simp only [hji, if_false] at hj; exact hi.holder j p hj hp
  · intro j p hj hp
    rw [hpcs, pcs_after h j] at hj
    rw [hcur]
    by_cases hji : j = i
    · simp only [hji, if_true, Option.some.injEq] at hj
      subst hj
      rw [hji]; exact hi.nonholder i old h (by rw [← hholds]; exact hp)
    · simp only [hji, if_false] at hj; exact hi.nonholder j p hj hp

theorem invI_acq {c : Cfg} {s : St} (hi : InvI c s) {i : Nat} (h : s.pcs[i]? = some Pc.acquire)
    (s' : St) (hpcs : s'.pcs = s.pcs.set i .wait) (hcur : s'.cur = s.cur.set i (some s.acquired))
    (hrels : s'.rels = s.rels ++ [0]) (hacq : s'.acquired = s.acquired + 1) (hbad : s'.badUse = s.badUse) :
    InvI c s' := by
  have hilt : i < s.cur.length := by
    have := lt_of_get h; rw [hi.pcsLen] at this; rw [hi.curLen]; exact this
  have hnone : s.cur[i]? = some none := hi.nonholder i _ h rfl
  have hfresh : ∀ j : Nat, s.cur[j]? ≠ some (some s.acquired) := by
    intro j hj
    have := lt_of_get (cur_held hi hj)
    rw [hi.relsLen] at this; omega
  have hrelsOld : ∀ (k v : Nat), s.rels[k]? = some v → (s.rels ++ [0])[k]? = some v := by
    intro k v hk
    rw [List.getElem?_append_left (lt_of_get hk)]; exact hk
  refine ⟨by rw [hpcs, List.length_set]; exact hi.pcsLen, by rw [hcur, List.length_set]; exact hi.curLen,
    by rw [hrels, hacq]; simp [hi.relsLen], ?_, ?_, ?_, ?_, by rw [hbad]; exact hi.good⟩
  · intro j p hj hp
    rw [hpcs, pcs_after h j] at hj
    rw [hcur, hrels]
    by_cases hji : j = i
    · refine ⟨s.acquired, ?_, ?_⟩
      · rw [hji]; exact getElem?_set_self' s.cur _ hilt
      · rw [← hi.relsLen]; simp
    · simp only [hji, if_false] at hj
      obtain ⟨k, h1, h2⟩ := hi.holder j p hj hp
      exact ⟨k, by rw [getElem?_set_ne' s.cur _ (Ne.symm hji)]; exact h1, hrelsOld k 0 h2⟩
  · intro j p hj hp
    rw [hpcs, pcs_after h j] at hj
    rw [hcur]
    by_cases hji : j = i
    · simp only [hji, if_true, Option.some.injEq] at hj
      subst hj; simp [Pc.holds] at hp
    · simp only [hji, if_false] at hj
      rw [getElem?_set_ne' s.cur _ (Ne.symm hji)]; exact hi.nonholder j p hj hp
  · intro a b k ha hb
    rw [hcur] at ha hb
    by_cases hai : a = i
    · by_cases hbi : b = i
      · rw [hai, hbi]
      · rw [hai, getElem?_set_self' s.cur _ hilt] at ha
        rw [getElem?_set_ne' s.cur _ (Ne.symm hbi)] at hb
        have : s.acquired = k := by injection ha with ha; injection ha
        rw [← this] at hb
        exact absurd hb (hfresh b)
    · rw [getElem?_set_ne' s.cur _ (Ne.symm hai)] at ha
      by_cases hbi : b = i
      · rw [hbi, getElem?_set_self' s.cur _ hilt] at hb
        have : s.acquired = k := by injection hb with hb; injection hb
        rw [← this] at ha
        exact absurd ha (hfresh a)
      · rw [getElem?_set_ne' s.cur _ (Ne.symm hbi)] at hb
        exact hi.inj a b k ha hb
  · intro k v hk
    rw [hrels] at hk
    rw [hcur]
    by_cases hkl : k < s.rels.length
    · rw [List.getElem?_append_left hkl] at hk
      rcases hi.relsOk k v hk with ⟨hv, j, hj⟩ | hv
      · left
        refine ⟨hv, j, ?_⟩
        have hji : j ≠ i := by
          intro hji; rw [hji, hnone] at hj; cases hj
        rw [getElem?_set_ne' s.cur _ (Ne.symm hji)]; exact hj
      · exact Or.inr hv
    · have hge : s.rels.length ≤ k := by omega
      rw [List.getElem?_append_right hge] at hk
      have hk0 : k - s.rels.length = 0 := by
        rcases Nat.eq_zero_or_pos (k - s.rels.length) with h0 | h0
        · exact h0
        · rw [List.getElem?_eq_none (by simp; omega)] at hk; cases hk
      rw [hk0] at hk
      simp at hk
      left
      refine ⟨hk.symm, i, ?_⟩
      have : k = s.acquired := by rw [← hi.relsLen]; omega
      rw [this]; exact getElem?_set_self' s.cur _ hilt

theorem invI_rel {c : Cfg} {s : St} (hi : InvI c s) {i k : Nat} (h : s.pcs[i]? = some Pc.release)
    (hk : s.cur[i]? = some (some k))
    (s' : St) (hpcs : s'.pcs = s.pcs.set i .check) (hcur : s'.cur = s.cur.set i none)
    (hrels : s'.rels = s.rels.set k (s.rels[k]?.getD 0 + 1)) (hacq : s'.acquired = s.acquired)
    (hbad : s'.badUse = (s.badUse || !s.heldItem k)) : InvI c s' := by
  have hilt : i < s.cur.length := lt_of_get hk
  have hk0 : s.rels[k]? = some 0 := cur_held hi hk
  have hklt : k < s.rels.length := lt_of_get hk0
  refine ⟨by rw [hpcs, List.length_set]; exact hi.pcsLen, by rw [hcur, List.length_set]; exact hi.curLen,
    by rw [hrels, hacq, List.length_set]; exact hi.relsLen, ?_, ?_, ?_, ?_, ?_⟩
  · intro j p hj hp
    rw [hpcs, pcs_after h j] at hj
    rw [hcur, hrels]
    by_cases hji : j = i
    · simp only [hji, if_true, Option.some.injEq] at hj
      subst hj; simp [Pc.holds] at hp
    · simp only [hji, if_false] at hj
      obtain ⟨k', h1, h2⟩ := hi.holder j p hj hp
      have hkk : k ≠ k' := by
        intro hkk; rw [← hkk] at h1; exact hji (hi.inj j i k h1 hk)
      exact ⟨k', by rw [getElem?_set_ne' s.cur _ (Ne.symm hji)]; exact h1,
        by rw [getElem?_set_ne' s.rels _ hkk]; exact h2⟩
  · intro j p hj hp
    rw [hpcs, pcs_after h j] at hj
    rw [hcur]
    by_cases hji : j = i
    · rw [hji]; exact getElem?_set_self' s.cur _ hilt
    · simp only [hji, if_false] at hj
      rw [getElem?_set_ne' s.cur _ (Ne.symm hji)]; exact hi.nonholder j p hj hp
  · intro a b x ha hb
    rw [hcur] at ha hb
    have hai : a ≠ i := by
      intro hai; rw [hai, getElem?_set_self' s.cur _ hilt] at ha; cases ha
    have hbi : b ≠ i := by
      intro hbi; rw [hbi, getElem?_set_self' s.cur _ hilt] at hb; cases hb
    rw [getElem?_set_ne' s.cur _ (Ne.symm hai)] at ha
    rw [getElem?_set_ne' s.cur _ (Ne.symm hbi)] at hb
    exact hi.inj a b x ha hb
  · intro k' v hv
    rw [hrels] at hv
    rw [hcur]
    by_cases hkk : k = k'
    · rw [← hkk, getElem?_set_self' s.rels _ hklt, hk0] at hv
      simp at hv
      exact Or.inr hv.symm
    · rw [getElem?_set_ne' s.rels _ hkk] at hv
      rcases hi.relsOk k' v hv with ⟨hv0, j, hj⟩ | hv1
      · left
        refine ⟨hv0, j, ?_⟩
        have hji : j ≠ i := by
          intro hji; rw [hji, hk] at hj
          have : k = k' := by injection hj with hj; injection hj
          exact hkk this
        rw [getElem?_set_ne' s.cur _ (Ne.symm hji)]; exact hj
      · exact Or.inr hv1
  · rw [hbad, hi.good]
    simp [St.heldItem, hk0]

theorem step_invI {c : Cfg} {s s' : St} {e : Ev} (hi : InvI c s) (hs : step c s e = some s') : InvI c s' := by
  cases e with
  | start i =>
    simp only [step] at hs
    split at hs
    · rename_i h
      cases hs
      exact invI_move hi h.2 _ rfl rfl rfl rfl hi.good rfl
    · cases hs
  | chk i left =>
    simp only [step] at hs
    split at hs
    · rename_i h
      cases hs
      exact invI_move hi h.1 _ rfl rfl rfl rfl hi.good (by by_cases hl : left = 0 <;> simp [hl, Pc.holds])
    · cases hs
  | acq i =>
    simp only [step] at hs
    split at hs
    · rename_i h
      split at hs
      · cases hs; exact invI_acq hi h _ rfl rfl rfl rfl rfl
      · cases hs
      · cases hs; exact invI_acq hi h _ rfl rfl rfl rfl rfl
    · cases hs
  | empty i =>
    simp only [step] at hs
    split at hs
    · rename_i h
      cases hs
      exact invI_move hi h.1 _ rfl rfl rfl rfl hi.good rfl
    · cases hs
  | tokOk i =>
    simp only [step] at hs
    split at hs
    · rename_i h
      cases hs
      unfold St.draw
      split <;> exact invI_move hi h.1 _ rfl rfl rfl rfl hi.good rfl
    · cases hs
  | tokEnd i =>
    simp only [step] at hs
    split at hs
    · rename_i h
      cases hs
      exact invI_move hi h.1 _ rfl rfl rfl rfl hi.good rfl
    · cases hs
  | reqAdd i =>
    simp only [step] at hs
    split at hs
    · rename_i h
      cases hs
      exact invI_move hi h _ rfl rfl rfl rfl hi.good rfl
    · cases hs
  | shoot i k =>
    simp only [step] at hs
    split at hs
    · rename_i h
      cases hs
      refine invI_move hi h.1 _ rfl rfl rfl rfl ?_ rfl
      have := cur_held hi h.2
      simp [hi.good, St.heldItem, this]
    · cases hs
  | respAdd i =>
    simp only [step] at hs
    split at hs
    · rename_i h
      cases hs
      exact invI_move hi h _ rfl rfl rfl rfl hi.good rfl
    · cases hs
  | discard i =>
    simp only [step] at hs
    split at hs
    · rename_i h
      cases hs
      exact invI_move hi h.1 _ rfl rfl rfl rfl hi.good rfl
    · cases hs
  | rel i k =>
    simp only [step] at hs
    split at hs
    · rename_i h
      cases hs
      exact invI_rel hi h.1 h.2 _ rfl rfl rfl rfl rfl
    · cases hs

/-- at the end of the pool no instance holds anything, so every item has been released exactly once -/
theorem all_released {c : Cfg} {s : St} (hi : InvI c s) (ht : s.terminal = true) (k : Nat) (hk : k < s.acquired) :
    s.rels[k]? = some 1 := by
  have hlt : k < s.rels.length := by rw [hi.relsLen]; exact hk
  have hv : s.rels[k]? = some s.rels[k] := List.getElem?_eq_getElem hlt
  rcases hi.relsOk k _ hv with ⟨_, i, hcur⟩ | h1
  · -- some instance still holds it: impossible at the end
    exfalso
    have hilt : i < s.pcs.length := by
      have := lt_of_get hcur; rw [hi.curLen] at this; rw [hi.pcsLen]; exact this
    have hp : s.pcs[i]? = some s.pcs[i] := List.getElem?_eq_getElem hilt
    unfold St.terminal at ht
    rw [List.all_eq_true] at ht
    have := ht s.pcs[i] (List.getElem_mem hilt)
    have hnh : s.pcs[i].holds = false := by
      simp at this
      rcases this with h | h <;> rw [h] <;> rfl
    have := hi.nonholder i _ hp hnh
    rw [hcur] at this; cases this
  · rw [hv, h1]

end Pandora.Proofs.C03
