import Pandora.Proofs.C18Ext
import Pandora.Model.C18Engine

namespace Pandora.Proofs.C18
open Pandora.Model.C18 Pandora.Spec.C18 Pandora.Model.C18Engine

theorem gunK_le (inp : Input) (inst : Nat) : gunK inp inst ≤ poolGunCalls inst := by
  unfold gunK
  split
  · exact Nat.le_refl _
  · split
    · exact Nat.le_refl _
    · exact Nat.min_le_right _ _

theorem eng_products_eq (steps : List Step) : Pandora.Model.C18Engine.products steps = Pandora.Spec.C18.products steps := by
  unfold Pandora.Model.C18Engine.products Pandora.Spec.C18.products
  congr 1

theorem dedup_nodup [DecidableEq α] (l : List α) (h : l.Nodup) : dedup l = l := by
  induction l with
  | nil => rfl
  | cons a l ih =>
    rw [List.nodup_cons] at h
    simp [dedup, ih h.2, h.1]

theorem mem_dedup [DecidableEq α] (a : α) (l : List α) : a ∈ dedup l → a ∈ l := by
  induction l with
  | nil => simp [dedup]
  | cons b l ih =>
    simp only [dedup]
    split
    · intro h; exact List.mem_cons_of_mem _ (ih h)
    · intro h
      simp only [List.mem_cons] at h ⊢
      rcases h with h | h
      · exact .inl h
      · exact .inr (ih h)

theorem products_cells (steps : List Step) :
    (Pandora.Spec.C18.products steps).filterMap (·.cell) = steps.filterMap prodCell? := by
  unfold Pandora.Spec.C18.products
  rw [List.filterMap_filterMap]
  rfl

theorem products_le (inp : Input) (obs : Obs) (hf : inp.form ≠ .component) (he : errorsOk inp obs = true) :
    (Pandora.Spec.C18.products obs.steps).length ≤ inp.k := by
  unfold errorsOk at he
  cases hform : inp.form with
  | component => exact absurd hform hf
  | facNoErr | facErr =>
    simp only [hform] at he
    cases hs : obs.steps with
    | nil => simp [hs] at he
    | cons c calls =>
      simp only [hs, Bool.and_eq_true, List.all_eq_true] at he
      obtain ⟨⟨⟨_, hc⟩, hlen⟩, _⟩ := he
      have hcp : product? c = none := by
        unfold product?
        simp only [isMade, isErr, Bool.or_eq_true, beq_iff_eq] at hc
        rcases hc with hc | hc
        · rw [hc]
        · cases hr : c.res <;> simp_all
      have : (Pandora.Spec.C18.products (c :: calls)).length ≤ calls.length := by
        simp only [Pandora.Spec.C18.products, List.filterMap_cons, hcp]
        exact List.length_filterMap_le _ _
      by_cases hm : isMade c = true
      · simp only [hm, if_true, beq_iff_eq] at hlen
        omega
      · simp only [hm, Bool.false_eq_true, if_false, List.isEmpty_iff] at hlen
        subst hlen
        simp only [List.length_nil, Nat.le_zero_eq] at this
        omega

/-- a pool run, in terms of the registry model -/
theorem engine_run {inp : Input} {inst : Nat} {per : Bool} {eo : EngineObs} (h : engineRun inp inst per = some eo)
    (herr : ∀ obs, run (gunInput inp inst) = some obs → errorsOk (gunInput inp inst) obs = true)
    (hcfg : ∀ obs, run (gunInput inp inst) = some obs → ∀ p ∈ Pandora.Spec.C18.products obs.steps,
      inp.sh.cfg ≠ .none → ∀ f, f ≠ markField → p.seen.get f = (expected inp.sh inp.w).get f)
    (hfresh : ∀ obs, run (gunInput inp inst) = some obs → freshApplies (gunInput inp inst) = true →
      freshOk (gunInput inp inst) obs = true) :
    ∃ obs, run (gunInput inp inst) = some obs ∧
      eo.guns = (Pandora.Spec.C18.products obs.steps).length ∧
      eo.guns ≤ poolGunCalls inst ∧
      (inp.sh.cfg ≠ .none → ∀ t ∈ eo.seen,
        t = ((expected inp.sh inp.w).get 1, (expected inp.sh inp.w).get 2, (expected inp.sh inp.w).get 3)) ∧
      (freshApplies (gunInput inp inst) = true →
        eo.cells = ((Pandora.Spec.C18.products obs.steps).filterMap (·.cell)).length ∧ eo.own = eo.cells) := by
  unfold engineRun at h
  cases hrun : run (gunInput inp inst) with
  | none => simp [hrun] at h
  | some obs =>
    simp only [hrun, Option.map_some, Option.some.injEq] at h
    subst h
    refine ⟨obs, rfl, ?_, ?_, ?_, ?_⟩
    · simp only [eng_products_eq]
    · simp only [eng_products_eq]
      have := products_le (gunInput inp inst) obs (by simp [gunInput]) (herr obs hrun)
      have hk := gunK_le inp inst
      simp only [gunInput] at this
      omega
    · intro hc t ht
      simp only [eng_products_eq] at ht
      have ht := mem_dedup _ _ ht
      simp only [List.mem_map] at ht
      obtain ⟨p, hp, rfl⟩ := ht
      have := hcfg obs hrun p hp hc
      rw [this 1 (by decide), this 2 (by decide), this 3 (by decide)]
    · intro ha
      have hf := hfresh obs hrun ha
      simp only [freshOk, Bool.and_eq_true, List.all_eq_true, nodup, decide_eq_true_eq, beq_iff_eq] at hf
      obtain ⟨⟨⟨⟨⟨⟨_, _⟩, _⟩, _⟩, n3⟩, hown⟩, hlen⟩ := hf
      have hcalls : callsOf (gunInput inp inst) obs = obs.steps.drop 1 := by simp [callsOf, gunInput]
      -- the creation step holds no product
      have hdrop : obs.steps.filterMap prodCell? = (obs.steps.drop 1).filterMap prodCell? := by
        have he := herr obs hrun
        unfold errorsOk at he
        simp only [gunInput] at he
        cases hs : obs.steps with
        | nil => rfl
        | cons c calls =>
          simp only [hs, Bool.and_eq_true] at he
          obtain ⟨⟨⟨_, hc⟩, _⟩, _⟩ := he
          have hcp : prodCell? c = none := by
            unfold prodCell? product?
            simp only [isMade, isErr, Bool.or_eq_true, beq_iff_eq] at hc
            rcases hc with hc | hc
            · rw [hc]; rfl
            · cases hr : c.res <;> simp_all
          simp [hcp]
      rw [hcalls] at n3 hlen
      simp only [eng_products_eq, products_cells, hdrop]
      refine ⟨by rw [dedup_nodup _ n3], ?_⟩
      rw [dedup_nodup _ n3, ← hlen]
      congr 1
      apply List.filter_eq_self.mpr
      intro v hv
      have := hown v hv
      simp [this]

end Pandora.Proofs.C18
