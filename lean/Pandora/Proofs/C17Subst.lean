/-
C17 — the properties-file lookup (exact key, first line), and strings that carry any number of placeholders.
-/
import Pandora.Proofs.C17Cast

namespace Pandora.Proofs.C17
open Pandora.Model.C17 Pandora.Spec.C17

/-! ## lines of a properties file -/

theorem cutEq_none : ∀ (xs acc : Str), (∀ c ∈ xs, c ≠ '=') → cutEq xs acc = none
  | [], _, _ => rfl
  | c :: cs, acc, h => by
    have hc : (c == '=') = false := by simp [h c (by simp)]
    simp only [cutEq, hc, Bool.false_eq_true, if_false]
    exact cutEq_none cs _ (fun c hm => h c (by simp [hm]))

theorem cutEq_key : ∀ (k v acc : Str), (∀ c ∈ k, c ≠ '=') → cutEq (k ++ '=' :: v) acc = some (acc.reverse ++ k, v)
  | [], v, acc, _ => by simp [cutEq]
  | c :: cs, v, acc, h => by
    have hc : (c == '=') = false := by simp [h c (by simp)]
    simp only [List.cons_append, cutEq, hc, Bool.false_eq_true, if_false]
    rw [cutEq_key cs v (c :: acc) (fun c hm => h c (by simp [hm]))]
    simp

/-- what `cutEq` returns is a decomposition of the line at an `=`, with no `=` before it -/
theorem cutEq_some : ∀ (xs acc k v : Str), cutEq xs acc = some (k, v) →
    ∃ k', k = acc.reverse ++ k' ∧ xs = k' ++ '=' :: v ∧ ∀ c ∈ k', c ≠ '='
  | [], _, _, _, h => by simp [cutEq] at h
  | c :: cs, acc, k, v, h => by
    by_cases hc : c = '='
    · subst hc
      simp only [cutEq, beq_self_eq_true, if_true, Option.some.injEq, Prod.mk.injEq] at h
      exact ⟨[], by simp [h.1], by simp [h.2], by simp⟩
    · have hb : (c == '=') = false := by simp [hc]
      simp only [cutEq, hb, Bool.false_eq_true, if_false] at h
      rcases cutEq_some cs (c :: acc) k v h with ⟨k', hk, hxs, hno⟩
      refine ⟨c :: k', by simp [hk], by simp [hxs], ?_⟩
      intro d hd
      rcases List.mem_cons.mp hd with h | h
      · subst h; exact hc
      · exact hno d h

/-- a line is the entry of `key` exactly when it is `key=value` and `key` has no `=` -/
theorem lineKV_iff (line key v : Str) :
    lineKV line = some (key, v) ↔ (line = key ++ '=' :: v ∧ ∀ c ∈ key, c ≠ '=') := by
  constructor
  · intro h
    rcases cutEq_some line [] key v h with ⟨k', hk, hl, hno⟩
    simp at hk
    subst hk
    exact ⟨hl, hno⟩
  · intro ⟨hl, hno⟩
    subst hl
    unfold lineKV
    rw [cutEq_key key v [] hno]
    simp

theorem lineKV_no_eq (line : Str) (h : ∀ c ∈ line, c ≠ '=') : lineKV line = none := cutEq_none line [] h

/-- a line whose key merely STARTS WITH the requested key is not that key's entry -/
theorem lineKV_longer_key (key more v w : Str) (hm : more ≠ []) (hno : ∀ c ∈ more, c ≠ '=') :
    lineKV (key ++ more ++ '=' :: v) ≠ some (key, w) := by
  intro h
  rcases (lineKV_iff _ key w).mp h with ⟨hl, hk⟩
  -- key ++ more ++ '=' :: v = key ++ '=' :: w
  rw [List.append_assoc] at hl
  have := List.append_cancel_left hl
  cases more with
  | nil => exact hm rfl
  | cons c cs =>
    simp only [List.cons_append, List.cons.injEq] at this
    exact hno c (by simp) this.1

/-- the lookup finds nothing exactly when no line is an entry of the key -/
theorem findProp_none_iff (lines : List Str) (key : Str) :
    findProp lines key = none ↔ ∀ l ∈ lines, ∀ v, lineKV l ≠ some (key, v) := by
  induction lines with
  | nil => simp [findProp]
  | cons l r ih =>
    rw [findProp]
    cases hl : lineKV l with
    | none =>
      simp only
      rw [ih]
      constructor
      · intro h l' hl' v
        rcases List.mem_cons.mp hl' with h' | h'
        · subst h'; rw [hl]; simp
        · exact h l' h' v
      · intro h l' hl' v
        exact h l' (by simp [hl']) v
    | some kv =>
      obtain ⟨k, w⟩ := kv
      by_cases hk : k = key
      · subst hk
        simp only [beq_self_eq_true, if_true]
        constructor
        · intro h; cases h
        · intro h
          exact absurd hl (h l (by simp) w)
      · have hb : (k == key) = false := by simp [hk]
        simp only [hb, Bool.false_eq_true, if_false]
        rw [ih]
        constructor
        · intro h l' hl' v
          rcases List.mem_cons.mp hl' with h' | h'
          · subst h'; rw [hl]; intro he; cases he; exact hk rfl
          · exact h l' h' v
        · intro h l' hl' v
          exact h l' (by simp [hl']) v

/-- the lookup returns `v` exactly when the FIRST entry of the key says `v` -/
theorem findProp_some_iff (lines : List Str) (key v : Str) :
    findProp lines key = some v ↔
      ∃ pre l post, lines = pre ++ l :: post ∧ lineKV l = some (key, v) ∧ ∀ l' ∈ pre, ∀ w, lineKV l' ≠ some (key, w) := by
  induction lines with
  | nil => simp [findProp]
  | cons l r ih =>
    rw [findProp]
    have skip : (∀ w, lineKV l ≠ some (key, w)) →
        ((∃ pre l0 post, l :: r = pre ++ l0 :: post ∧ lineKV l0 = some (key, v) ∧ ∀ l' ∈ pre, ∀ w, lineKV l' ≠ some (key, w)) ↔
         (∃ pre l0 post, r = pre ++ l0 :: post ∧ lineKV l0 = some (key, v) ∧ ∀ l' ∈ pre, ∀ w, lineKV l' ≠ some (key, w))) := by
      intro hno
      constructor
      · rintro ⟨pre, l0, post, heq, hkv, hpre⟩
        cases pre with
        | nil =>
          simp only [List.nil_append, List.cons.injEq] at heq
          rw [← heq.1] at hkv
          exact absurd hkv (hno v)
        | cons a pre' =>
          simp only [List.cons_append, List.cons.injEq] at heq
          exact ⟨pre', l0, post, heq.2, hkv, fun l' hl' w => hpre l' (by simp [hl']) w⟩
      · rintro ⟨pre, l0, post, heq, hkv, hpre⟩
        refine ⟨l :: pre, l0, post, by simp [heq], hkv, ?_⟩
        intro l' hl' w
        rcases List.mem_cons.mp hl' with h | h
        · subst h; exact hno w
        · exact hpre l' h w
    cases hl : lineKV l with
    | none =>
      simp only
      rw [ih]
      exact (skip (by intro w; rw [hl]; simp)).symm
    | some kv =>
      obtain ⟨k, w⟩ := kv
      by_cases hk : k = key
      · subst hk
        simp only [beq_self_eq_true, if_true, Option.some.injEq]
        constructor
        · intro h; subst h
          exact ⟨[], l, r, rfl, hl, by simp⟩
        · rintro ⟨pre, l0, post, heq, hkv, hpre⟩
          cases pre with
          | nil =>
            simp only [List.nil_append, List.cons.injEq] at heq
            rw [← heq.1, hl] at hkv
            simpa using hkv
          | cons a pre' =>
            simp only [List.cons_append, List.cons.injEq] at heq
            have := hpre a (by simp) w
            rw [← heq.1, hl] at this
            exact absurd rfl this
      · have hb : (k == key) = false := by simp [hk]
        simp only [hb, Bool.false_eq_true, if_false]
        rw [ih]
        exact (skip (by intro w'; rw [hl]; intro he; cases he; exact hk rfl)).symm

/-! ## strings with any number of placeholders -/

def NoDollar (s : Str) : Prop := ∀ c ∈ s, c ≠ '$'

instance (s : Str) : Decidable (NoDollar s) := by unfold NoDollar; infer_instance

/-- the literal segment of a piece of text (none for the empty text) -/
def litSeg (l : Str) : List Seg := if l.isEmpty then [] else [Seg.lit l]

/-- `pre₁ ${t₁:n₁} pre₂ ${t₂:n₂} … post` -/
def piecesText : List (Str × Str × Str) → Str → Str
  | [], post => post
  | (pre, ty, name) :: r, post => pre ++ placeholder ty name ++ piecesText r post

def piecesSegs : List (Str × Str × Str) → Str → List Seg
  | [], post => litSeg post
  | (pre, ty, name) :: r, post => litSeg pre ++ Seg.tag (placeholder ty name) ty name :: piecesSegs r post

/-- the text with every placeholder replaced by what its resolver returns; `none` when a resolver reports an error -/
def piecesValue (env : Env) : List (Str × Str × Str) → Str → Option Str
  | [], post => some post
  | (pre, ty, name) :: r, post =>
    match resolveTag env (placeholder ty name) ty name with
    | none => none
    | some v => (piecesValue env r post).map fun t => pre ++ v ++ t

def PiecesOk (ps : List (Str × Str × Str)) (post : Str) : Prop :=
  (∀ p ∈ ps, NoDollar p.1 ∧ PlainType p.2.1 ∧ PlainName p.2.2) ∧ NoDollar post

theorem scanLoop_lit (xs : Str) (h : NoDollar xs) : ∀ (rest lit : Str) (acc : List Seg),
    scanLoop (xs ++ rest) lit none acc = scanLoop rest (xs.reverse ++ lit) none acc := by
  induction xs with
  | nil => intro rest lit acc; simp
  | cons c cs ih =>
    intro rest lit acc
    have hc : c ≠ '$' := h c (by simp)
    have hcs : NoDollar cs := fun d hd => h d (by simp [hd])
    have step : scanLoop (c :: (cs ++ rest)) lit none acc = scanLoop (cs ++ rest) (c :: lit) none acc := by
      rw [scanLoop]
      intro cs' h1 _
      exact hc h1
    simp only [List.cons_append, step, ih hcs rest (c :: lit) acc]
    simp

theorem scanLoop_end (lit : Str) (acc : List Seg) : scanLoop [] lit none acc = some (acc ++ litSeg lit.reverse) := by
  simp [scanLoop, litSeg]

theorem scanLoop_placeholder (ty name : Str) (ht : PlainType ty) (hn : PlainName name) (rest lit : Str) (acc : List Seg) :
    scanLoop (placeholder ty name ++ rest) lit none acc =
      scanLoop rest [] none (acc ++ litSeg lit.reverse ++ [Seg.tag (placeholder ty name) ty name]) := by
  have hb : ∀ c ∈ ty ++ ':' :: name, c ≠ '{' ∧ c ≠ '}' := by
    intro c hc
    rcases List.mem_append.mp hc with h | h
    · exact ⟨(ht.1.2 c h).1, (ht.1.2 c h).2.1⟩
    · rcases List.mem_cons.mp h with h | h
      · subst h; decide
      · exact ⟨(hn.2 c h).1, (hn.2 c h).2.1⟩
  unfold placeholder
  simp only [List.cons_append, List.append_assoc]
  rw [scanLoop]
  have := scan_body (ty ++ ':' :: name) [] [] (acc ++ (if lit.isEmpty then [] else [Seg.lit lit.reverse])) rest hb
  simp only [List.append_assoc, List.cons_append, List.nil_append] at this ⊢
  rw [this]
  have hl : (if lit.isEmpty then ([] : List Seg) else [Seg.lit lit.reverse]) = litSeg lit.reverse := by
    unfold litSeg
    cases lit <;> simp
  simp only [List.append_nil, List.reverse_reverse, splitBody_tag ty name ht hn, hl]
  have e : "${".toList = ['$', '{'] := by decide
  rw [e]
  simp

theorem scan_pieces : ∀ (ps : List (Str × Str × Str)) (post : Str), PiecesOk ps post → ∀ (acc : List Seg),
    scanLoop (piecesText ps post) [] none acc = some (acc ++ piecesSegs ps post)
  | [], post, h, acc => by
    have := scanLoop_lit post h.2 [] [] acc
    simp only [List.append_nil] at this
    simp only [piecesText, piecesSegs, this, scanLoop_end]
    simp
  | (pre, ty, name) :: r, post, h, acc => by
    have hp := h.1 (pre, ty, name) (by simp)
    have hr : PiecesOk r post := ⟨fun p hp' => h.1 p (by simp [hp']), h.2⟩
    simp only [piecesText, piecesSegs, List.append_assoc]
    rw [scanLoop_lit pre hp.1, scanLoop_placeholder ty name hp.2.1 hp.2.2]
    rw [scan_pieces r post hr]
    simp

theorem render_litSeg (env : Env) (l : Str) (rest : List Seg) :
    render env (litSeg l ++ rest) = (render env rest).map (l ++ ·) := by
  unfold litSeg
  cases l with
  | nil => simp
  | cons c cs => simp [render]

theorem render_pieces (env : Env) : ∀ (ps : List (Str × Str × Str)) (post : Str),
    render env (piecesSegs ps post) = piecesValue env ps post
  | [], post => by
    have := render_litSeg env post []
    simp only [List.append_nil] at this
    simp [piecesSegs, piecesValue, this, render]
  | (pre, ty, name) :: r, post => by
    simp only [piecesSegs, piecesValue, render_litSeg, render]
    cases resolveTag env (placeholder ty name) ty name with
    | none => simp
    | some v =>
      simp only [render_pieces env r post]
      cases piecesValue env r post <;> simp

theorem hasTag_pieces : ∀ (ps : List (Str × Str × Str)) (post : Str), ps ≠ [] → hasTag (piecesSegs ps post) = true
  | [], _, h => absurd rfl h
  | (pre, ty, name) :: r, post, _ => by
    simp only [piecesSegs, litSeg]
    cases pre <;> simp [hasTag]

end Pandora.Proofs.C17
