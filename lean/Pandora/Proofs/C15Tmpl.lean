/-
C15 round 4 — proofs about the template cache of `TextTemplater.Apply` (Model/C15Tmpl.lean):
the statement lists of `getTemplate` / `Apply` compute the direct readings, and a cache whose entries all belong to the
text of their slot is invisible: every call renders every part from its own text and the variables only.
-/
import Pandora.Model.C15Tmpl

namespace Pandora.Proofs.C15
open Pandora.Model.C15

section
variable {τ V : Type}

theorem lookup_mem {κ β : Type} [BEq κ] [LawfulBEq κ] (l : List (κ × β)) (k : κ) (t : β) (h : l.lookup k = some t) : (k, t) ∈ l := by
  induction l with
  | nil => simp [List.lookup] at h
  | cons a r ih =>
    obtain ⟨a1, a2⟩ := a
    by_cases e : k == a1
    · simp [List.lookup, e] at h
      have : k = a1 := by simpa using e
      subst this; subst h; simp
    · simp [List.lookup, e] at h
      exact List.mem_cons_of_mem _ (ih h)

/-- **`getTemplate` as regenerated is the direct reading** (for the model's statement list) -/
theorem runGet_eq (parse : String → Option τ) (cache : TCache TKey τ) (k : TKey) (text : String) :
    runGet getCode parse cache k text = getT parse cache k text := by
  unfold runGet getT getCode
  simp only [runGOps]
  cases hl : List.lookup k cache with
  | some t => simp
  | none =>
    simp only [Option.isSome_none, Bool.false_eq_true, ↓reduceIte]
    cases hp : parse text with
    | some t => simp
    | none => simp

/-- every entry of the cache is the parsed text of its slot -/
def CacheOK (parse : String → Option τ) (txt : TKey → String) (c : TCache TKey τ) : Prop :=
  ∀ k t, (k, t) ∈ c → parse (txt k) = some t

theorem cacheOK_nil (parse : String → Option τ) (txt : TKey → String) : CacheOK parse txt [] := by
  intro k t h; simp at h

/-- on a good cache `getTemplate` returns the parse of the slot's text, and the cache stays good -/
theorem getT_ok (parse : String → Option τ) (txt : TKey → String) (c : TCache TKey τ) (k : TKey) (text : String)
    (hc : CacheOK parse txt c) (ht : text = txt k) :
    (getT parse c k text).1 = parse text ∧ CacheOK parse txt (getT parse c k text).2 := by
  unfold getT
  cases hl : List.lookup k c with
  | some t =>
    have := hc k t (lookup_mem c k t hl)
    simp [ht, this]; exact hc
  | none =>
    cases hp : parse text with
    | some t =>
      refine ⟨rfl, ?_⟩
      intro k' t' hm
      simp only [List.mem_cons, Prod.mk.injEq] at hm
      rcases hm with ⟨rfl, rfl⟩ | hm
      · rw [← ht]; exact hp
      · exact hc k' t' hm
    | none => exact ⟨rfl, hc⟩

/-- **one part as regenerated** (get, check, execute, check, assign, reset) on an empty buffer and a good cache: the part
is rendered from its own text, the buffer is empty again, the cache stays good -/
theorem runPart_ok (parse : String → Option τ) (exec : τ → V → String × Bool) (txt : TKey → String) (site : TSite)
    (scn stp hk text : String) (vs : V) (c : TCache TKey τ)
    (hc : CacheOK parse txt c) (ht : text = txt (site.keyOf scn stp hk)) :
    (runPart getCode parse exec { site, ops := partOps } id scn stp hk text vs "" c).1 =
        (renderText parse exec text vs).map (·, "") ∧
    CacheOK parse txt (runPart getCode parse exec { site, ops := partOps } id scn stp hk text vs "" c).2 := by
  obtain ⟨h1, h2⟩ := getT_ok parse txt c (site.keyOf scn stp hk) text hc ht
  unfold runPart partOps renderText
  simp only [runAOps, id, runGet_eq]
  rw [h1]
  cases hp : parse text with
  | none => simpa using h2
  | some t =>
    simp only [Option.isNone_some, Bool.false_eq_true, ↓reduceIte]
    cases he : (exec t vs).2 with
    | false => simpa [runAOps] using h2
    | true => simpa [runAOps] using h2

theorem runHeaders_ok (parse : String → Option τ) (exec : τ → V → String × Bool) (txt : TKey → String) (site : TSite)
    (scn stp : String) (vs : V) (hs : List (String × String)) (c : TCache TKey τ)
    (hc : CacheOK parse txt c) (ht : ∀ kv ∈ hs, kv.2 = txt (site.keyOf scn stp kv.1)) :
    (runHeaders getCode parse exec { site, ops := partOps } id scn stp vs hs "" c).1 =
        (renderHeaders parse exec vs hs).map (·, "") ∧
    CacheOK parse txt (runHeaders getCode parse exec { site, ops := partOps } id scn stp vs hs "" c).2 := by
  induction hs generalizing c with
  | nil => exact ⟨rfl, hc⟩
  | cons kv r ih =>
    obtain ⟨k, v⟩ := kv
    obtain ⟨p1, p2⟩ := runPart_ok parse exec txt site scn stp k v vs c hc (ht (k, v) (by simp))
    unfold runHeaders renderHeaders
    generalize hrp : runPart getCode parse exec { site, ops := partOps } id scn stp k v vs "" c = rp at p1 p2
    obtain ⟨o, c'⟩ := rp
    simp only at p1 p2
    cases hr : renderText parse exec v vs with
    | none =>
      rw [hr] at p1; simp at p1; subst p1
      exact ⟨rfl, p2⟩
    | some v' =>
      rw [hr] at p1; simp at p1; subst p1
      dsimp only
      obtain ⟨i1, i2⟩ := ih c' p2 (fun kv h => ht kv (List.mem_cons_of_mem _ h))
      generalize hrh : runHeaders getCode parse exec { site, ops := partOps } id scn stp vs r "" c' = rh at i1 i2
      obtain ⟨o2, c''⟩ := rh
      simp only at i1 i2
      cases hrr : renderHeaders parse exec vs r with
      | none => rw [hrr] at i1; simp at i1; subst i1; exact ⟨rfl, i2⟩
      | some r' => rw [hrr] at i1; simp at i1; subst i1; exact ⟨rfl, i2⟩

/-- a call fits the definitions: its URL, body and every header it visits are the texts of `defs scenario step` -/
def Fits (defs : String → String → TParts) (scn stp : String) (p : TParts) : Prop :=
  p.url = (defs scn stp).url ∧ p.body = (defs scn stp).body ∧
  ∀ kv ∈ p.headers, (defs scn stp).headers.lookup kv.1 = some kv.2

/-- **`Apply` on a good cache renders every part on its own** -/
theorem runApply_ok (parse : String → Option τ) (exec : τ → V → String × Bool) (defs : String → String → TParts)
    (scn stp : String) (p : TParts) (vs : V) (c : TCache TKey τ)
    (hc : CacheOK parse (slotText applyCode defs) c) (hf : Fits defs scn stp p) :
    (runApply applyCode getCode parse exec id c scn stp p vs).1 = applyPure parse exec p vs ∧
    CacheOK parse (slotText applyCode defs) (runApply applyCode getCode parse exec id c scn stp p vs).2 := by
  obtain ⟨hu, hb, hh⟩ := hf
  have tu : p.url = slotText applyCode defs (applyCode.url.site.keyOf scn stp "") := by
    simp [slotText, applyCode, TSite.keyOf, hu]
  obtain ⟨u1, u2⟩ := runPart_ok parse exec _ applyCode.url.site scn stp "" p.url vs c hc tu
  unfold runApply applyPure
  have eu : applyCode.url = { site := applyCode.url.site, ops := partOps } := rfl
  have eh : applyCode.header = { site := applyCode.header.site, ops := partOps } := rfl
  have eb : applyCode.body = { site := applyCode.body.site, ops := partOps } := rfl
  rw [eu, eh, eb]
  generalize hrp : runPart getCode parse exec { site := applyCode.url.site, ops := partOps } id scn stp "" p.url vs "" c = rp at u1 u2
  obtain ⟨o, c1⟩ := rp
  simp only at u1 u2
  cases hr : renderText parse exec p.url vs with
  | none => rw [hr] at u1; simp at u1; subst u1; exact ⟨rfl, u2⟩
  | some u =>
    rw [hr] at u1; simp at u1; subst u1
    dsimp only
    have th : ∀ kv ∈ p.headers, kv.2 = slotText applyCode defs (applyCode.header.site.keyOf scn stp kv.1) := by
      intro kv hm
      have := hh kv hm
      simp [slotText, applyCode, TSite.keyOf, this]
    obtain ⟨h1, h2⟩ := runHeaders_ok parse exec _ applyCode.header.site scn stp vs p.headers c1 u2 th
    generalize hrh : runHeaders getCode parse exec { site := applyCode.header.site, ops := partOps } id scn stp vs p.headers "" c1 = rh at h1 h2
    obtain ⟨o2, c2⟩ := rh
    simp only at h1 h2
    cases hrr : renderHeaders parse exec vs p.headers with
    | none => rw [hrr] at h1; simp at h1; subst h1; exact ⟨rfl, h2⟩
    | some hs =>
      rw [hrr] at h1; simp at h1; subst h1
      dsimp only
      cases hbody : p.body with
      | none => exact ⟨rfl, h2⟩
      | some b =>
        have tb : b = slotText applyCode defs (applyCode.body.site.keyOf scn stp "") := by
          have : (defs scn stp).body = some b := by rw [← hb, hbody]
          simp [slotText, applyCode, TSite.keyOf, this]
        dsimp only
        obtain ⟨b1, b2⟩ := runPart_ok parse exec _ applyCode.body.site scn stp "" b vs c2 h2 tb
        generalize hrb : runPart getCode parse exec { site := applyCode.body.site, ops := partOps } id scn stp "" b vs "" c2 = rb at b1 b2
        obtain ⟨o3, c3⟩ := rb
        simp only at b1 b2
        cases hrt : renderText parse exec b vs with
        | none => rw [hrt] at b1; simp at b1; subst b1; exact ⟨rfl, b2⟩
        | some b' => rw [hrt] at b1; simp at b1; subst b1; exact ⟨rfl, b2⟩

/-- **any sequence of calls on one templater**: every call renders its parts on their own, whatever was cached before -/
theorem runApplies_ok (parse : String → Option τ) (exec : τ → V → String × Bool) (defs : String → String → TParts)
    (calls : List (String × String × TParts × V)) (c : TCache TKey τ)
    (hc : CacheOK parse (slotText applyCode defs) c)
    (hf : ∀ x ∈ calls, Fits defs x.1 x.2.1 x.2.2.1) :
    runApplies applyCode getCode parse exec id c calls = calls.map fun x => applyPure parse exec x.2.2.1 x.2.2.2 := by
  induction calls generalizing c with
  | nil => rfl
  | cons x r ih =>
    obtain ⟨scn, stp, p, vs⟩ := x
    obtain ⟨a1, a2⟩ := runApply_ok parse exec defs scn stp p vs c hc (hf (scn, stp, p, vs) (List.mem_cons_self ..))
    simp only [runApplies, List.map_cons]
    rw [a1, ih _ a2 (fun y hy => hf y (List.mem_cons_of_mem _ hy))]

end

/-! ### a concrete template library and call history (used by the examples and the counterexample of Props/C15) -/

/-- a template library for the examples: the text `bad` does not parse, the template `boom` fails after writing `par`,
every other template writes its text followed by the variables -/
def tExParse : String → Option String := fun s => if s == "bad" then none else some s
def tExExec : String → String → String × Bool := fun t v =>
  if t == "boom" then ("par", false) else (String.ofList (t.toList ++ v.toList), true)
/-- scenario `a_b` step `c` and scenario `a` step `b_c`: different slots whose joined key texts coincide -/
def tExDefs : String → String → TParts := fun scn _ =>
  if scn == "a_b" then { url := "/x", headers := [("h", "1"), ("url", "2")], body := some "B" }
  else { url := "/y", headers := [], body := none }
def tExCalls : List (String × String × TParts × String) :=
  [("a_b", "c", tExDefs "a_b" "c", "!"), ("a", "b_c", tExDefs "a" "b_c", "?"), ("a_b", "c", tExDefs "a_b" "c", "#")]

theorem tExCalls_fit : ∀ x ∈ tExCalls, Fits tExDefs x.1 x.2.1 x.2.2.1 := by
  intro x hx
  simp only [tExCalls, List.mem_cons, List.not_mem_nil, or_false] at hx
  rcases hx with rfl | rfl | rfl <;> refine ⟨rfl, rfl, ?_⟩ <;> decide

end Pandora.Proofs.C15
