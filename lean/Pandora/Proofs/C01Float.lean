/-
C01, the float64 gap of the const profile — proved, not only measured.

`Rounding u fl`: the standard model of floating-point arithmetic — the result of every operation is the exact result
times (1 + e) with |e| ≤ u (IEEE-754 binary64, round to nearest: u = 2⁻⁵³, as long as no underflow/overflow happens).
The regenerated FLOAT64 READING of const.go (`Pandora.Gen.Schedule.NewConst_fl`, `constDoAt_fl`: the same source, every
float operation wrapped in `fl`) is analysed for EVERY such `fl`:

  instant of operation i:  x̃ = fl(fl(i) · fl(10⁹/ops))           three roundings of non-negative quantities
  count:                   ñ = trunc(fl(ops · fl(fl(D)/10⁹)))     three roundings

so x̃ ∈ [(1−u)³, (1+u)³]·T with T = i·10⁹/ops, and (1±u)³ is within 1 ± 4u for u ≤ 1/16.
-/
import Pandora.Bridge.C01

set_option linter.unusedVariables false
set_option linter.unusedSimpArgs false
set_option linter.unusedTactic false

namespace Pandora.Proofs.C01Float
open Pandora Pandora.Gen.Schedule Pandora.Bridge.Schedule

/-- standard model of floating-point arithmetic with unit roundoff `u` -/
structure Rounding (u : ℝ) (fl : ℝ → ℝ) : Prop where
  u_nonneg : 0 ≤ u
  u_small : u ≤ 1 / 16
  err : ∀ x : ℝ, |fl x - x| ≤ u * |x|

variable {u : ℝ} {fl : ℝ → ℝ}

theorem Rounding.lo (h : Rounding u fl) {x : ℝ} (hx : 0 ≤ x) : (1 - u) * x ≤ fl x := by
  have := h.err x
  rw [abs_of_nonneg hx] at this
  have := (abs_le.mp this).1
  linarith

theorem Rounding.hi (h : Rounding u fl) {x : ℝ} (hx : 0 ≤ x) : fl x ≤ (1 + u) * x := by
  have := h.err x
  rw [abs_of_nonneg hx] at this
  have := (abs_le.mp this).2
  linarith

theorem Rounding.nonneg (h : Rounding u fl) {x : ℝ} (hx : 0 ≤ x) : 0 ≤ fl x := by
  have h1 := h.lo hx
  have : 0 ≤ (1 - u) * x := mul_nonneg (by linarith [h.u_small]) hx
  linarith

theorem cube_hi (h : Rounding u fl) : (1 + u) ^ 3 ≤ 1 + 4 * u := by
  have h0 := h.u_nonneg
  have h1 := h.u_small
  have : (1 + u) ^ 3 = 1 + 3 * u + u * (3 * u + u * u) := by ring
  have h2 : 3 * u + u * u ≤ 1 := by nlinarith
  have h3 : u * (3 * u + u * u) ≤ u * 1 := mul_le_mul_of_nonneg_left h2 h0
  linarith

theorem cube_lo (h : Rounding u fl) : 1 - 4 * u ≤ (1 - u) ^ 3 := by
  have h0 := h.u_nonneg
  have h1 := h.u_small
  have : (1 - u) ^ 3 = 1 - 3 * u + u * u * (3 - u) := by ring
  have : 0 ≤ u * u * (3 - u) := mul_nonneg (mul_nonneg h0 h0) (by linarith)
  linarith

/-- a product of two rounded non-negative factors, rounded: within (1 ± u)³ of the exact product -/
theorem prod3 (h : Rounding u fl) {a b a' b' : ℝ} (ha : 0 ≤ a) (hb : 0 ≤ b)
    (ha1 : (1 - u) * a ≤ a') (ha2 : a' ≤ (1 + u) * a) (hb1 : (1 - u) * b ≤ b') (hb2 : b' ≤ (1 + u) * b) :
    (1 - 4 * u) * (a * b) ≤ fl (a' * b') ∧ fl (a' * b') ≤ (1 + 4 * u) * (a * b) := by
  have hu0 := h.u_nonneg
  have hu1 : 0 ≤ 1 - u := by linarith [h.u_small]
  have hab : 0 ≤ a * b := mul_nonneg ha hb
  have ha'0 : 0 ≤ a' := le_trans (mul_nonneg hu1 ha) ha1
  have hb'0 : 0 ≤ b' := le_trans (mul_nonneg hu1 hb) hb1
  have hp0 : 0 ≤ a' * b' := mul_nonneg ha'0 hb'0
  have hlo : (1 - u) * a * ((1 - u) * b) ≤ a' * b' :=
    mul_le_mul ha1 hb1 (mul_nonneg hu1 hb) ha'0
  have hhi : a' * b' ≤ (1 + u) * a * ((1 + u) * b) :=
    mul_le_mul ha2 hb2 hb'0 (mul_nonneg (by linarith) ha)
  have h1 := h.lo hp0
  have h2 := h.hi hp0
  constructor
  · calc (1 - 4 * u) * (a * b) ≤ (1 - u) ^ 3 * (a * b) := mul_le_mul_of_nonneg_right (cube_lo h) hab
      _ = (1 - u) * ((1 - u) * a * ((1 - u) * b)) := by ring
      _ ≤ (1 - u) * (a' * b') := mul_le_mul_of_nonneg_left hlo hu1
      _ ≤ fl (a' * b') := h1
  · calc fl (a' * b') ≤ (1 + u) * (a' * b') := h2
      _ ≤ (1 + u) * ((1 + u) * a * ((1 + u) * b)) := mul_le_mul_of_nonneg_left hhi (by linarith)
      _ = (1 + u) ^ 3 * (a * b) := by ring
      _ ≤ (1 + 4 * u) * (a * b) := mul_le_mul_of_nonneg_right (cube_hi h) hab

/-- "`x i` is within (1 ± 4u) of the exact instant i·10⁹/ops (ns) of operation i" -/
def XBound (u ops : ℝ) (x : ℤ → ℝ) : Prop :=
  ∀ i : ℤ, 0 ≤ i → (1 - 4 * u) * ((i : ℝ) * (1000000000 / ops)) ≤ x i ∧ x i ≤ (1 + 4 * u) * ((i : ℝ) * (1000000000 / ops))

/-- "`c` is within (1 ± 4u) of the exact integral ops·D" -/
def CBound (u ops : ℝ) (D : ℤ) (c : ℝ) : Prop :=
  (1 - 4 * u) * (ops * secs D) ≤ c ∧ c ≤ (1 + 4 * u) * (ops * secs D)

/-- three roundings in a row, each of a non-negative quantity: y₁ ≈ y₀, y₂ ≈ g·y₁ (g ≥ 0 exact), y₃ ≈ y₂ -/
theorem chain3 (h : Rounding u fl) {y0 y1 y2 y3 g : ℝ} (hy0 : 0 ≤ y0) (hg : 0 ≤ g)
    (h1l : (1 - u) * y0 ≤ y1) (h1h : y1 ≤ (1 + u) * y0)
    (h2l : (1 - u) * (g * y1) ≤ y2) (h2h : y2 ≤ (1 + u) * (g * y1))
    (h3l : (1 - u) * y2 ≤ y3) (h3h : y3 ≤ (1 + u) * y2) :
    (1 - 4 * u) * (g * y0) ≤ y3 ∧ y3 ≤ (1 + 4 * u) * (g * y0) := by
  have hu0 := h.u_nonneg
  have hu1 : 0 ≤ 1 - u := by linarith [h.u_small]
  have hgy : 0 ≤ g * y0 := mul_nonneg hg hy0
  constructor
  · calc (1 - 4 * u) * (g * y0) ≤ (1 - u) ^ 3 * (g * y0) := mul_le_mul_of_nonneg_right (cube_lo h) hgy
      _ = (1 - u) * ((1 - u) * (g * ((1 - u) * y0))) := by ring
      _ ≤ (1 - u) * ((1 - u) * (g * y1)) :=
          mul_le_mul_of_nonneg_left (mul_le_mul_of_nonneg_left (mul_le_mul_of_nonneg_left h1l hg) hu1) hu1
      _ ≤ (1 - u) * y2 := mul_le_mul_of_nonneg_left h2l hu1
      _ ≤ y3 := h3l
  · calc y3 ≤ (1 + u) * y2 := h3h
      _ ≤ (1 + u) * ((1 + u) * (g * y1)) := mul_le_mul_of_nonneg_left h2h (by linarith)
      _ ≤ (1 + u) * ((1 + u) * (g * ((1 + u) * y0))) :=
          mul_le_mul_of_nonneg_left (mul_le_mul_of_nonneg_left (mul_le_mul_of_nonneg_left h1h hg) (by linarith)) (by linarith)
      _ = (1 + u) ^ 3 * (g * y0) := by ring
      _ ≤ (1 + 4 * u) * (g * y0) := mul_le_mul_of_nonneg_right (cube_hi h) hgy

/-- shape A of the instant (const.go as it is): `float64(i) * billionDivOps` with `billionDivOps := 1e9 / ops` -/
theorem xbound_A (h : Rounding u fl) {ops : ℝ} (hops : 0 < ops) :
    XBound u ops (fun i => fl (fl ((i : ℤ) : ℝ) * fl (1000000000 / ops))) := by
  intro i hi
  have hi' : (0:ℝ) ≤ (i : ℝ) := by exact_mod_cast hi
  have hp : (0:ℝ) ≤ 1000000000 / ops := by positivity
  exact prod3 h hi' hp (h.lo hi') (h.hi hi') (h.lo hp) (h.hi hp)

/-- shape B of the instant: `float64(i) * 1e9 / ops` -/
theorem xbound_B (h : Rounding u fl) {ops : ℝ} (hops : 0 < ops) :
    XBound u ops (fun i => fl (fl (fl ((i : ℤ) : ℝ) * 1000000000) / ops)) := by
  intro i hi
  have hi' : (0:ℝ) ≤ (i : ℝ) := by exact_mod_cast hi
  have hfi : 0 ≤ fl (i : ℝ) := h.nonneg hi'
  have hm : 0 ≤ fl (i : ℝ) * 1000000000 := by positivity
  have hfm : 0 ≤ fl (fl (i : ℝ) * 1000000000) := h.nonneg hm
  have hq : 0 ≤ fl (fl (i : ℝ) * 1000000000) / ops := by positivity
  -- y0 = i, y1 = fl i, y2 = fl (1e9·y1), y3 = ops·fl (y2/ops) … scaled by 1/ops at the end
  have h2l := h.lo hm
  have h2h := h.hi hm
  have h3l := h.lo hq
  have h3h := h.hi hq
  have key := chain3 h (y0 := (i : ℝ)) (y1 := fl (i : ℝ)) (y2 := fl (fl (i : ℝ) * 1000000000))
    (y3 := fl (fl (fl (i : ℝ) * 1000000000) / ops) * ops) (g := 1000000000) hi' (by norm_num)
    (h.lo hi') (h.hi hi') (by rw [mul_comm (1000000000:ℝ)]; exact h2l) (by rw [mul_comm (1000000000:ℝ)]; exact h2h)
    (by
      have := mul_le_mul_of_nonneg_right h3l hops.le
      have e : (1 - u) * (fl (fl (i : ℝ) * 1000000000) / ops) * ops = (1 - u) * fl (fl (i : ℝ) * 1000000000) := by
        field_simp
      linarith)
    (by
      have := mul_le_mul_of_nonneg_right h3h hops.le
      have e : (1 + u) * (fl (fl (i : ℝ) * 1000000000) / ops) * ops = (1 + u) * fl (fl (i : ℝ) * 1000000000) := by
        field_simp
      linarith)
  have e1 : (i : ℝ) * (1000000000 / ops) = 1000000000 * (i : ℝ) / ops := by ring
  constructor
  · rw [e1, ← mul_div_assoc, div_le_iff₀ hops]; exact key.1
  · rw [e1, ← mul_div_assoc, le_div_iff₀ hops]; exact key.2

/-- the float64 count of const.go: `ops * xn` with `xn := float64(duration) / 1e9` -/
theorem cbound_A (h : Rounding u fl) {ops : ℝ} (hops : 0 ≤ ops) {D : ℤ} (hD : 0 ≤ D) :
    CBound u ops D (fl (ops * fl (fl ((D : ℤ) : ℝ) / 1000000000))) := by
  have hD' : (0:ℝ) ≤ (D : ℝ) := by exact_mod_cast hD
  have hfd0 : 0 ≤ fl (D : ℝ) := h.nonneg hD'
  have hq0 : 0 ≤ fl (D : ℝ) / 1000000000 := by positivity
  have hx0 : 0 ≤ fl (fl (D : ℝ) / 1000000000) := h.nonneg hq0
  have hp0 : 0 ≤ ops * fl (fl (D : ℝ) / 1000000000) := mul_nonneg hops hx0
  -- y0 = D, y1 = fl D, y2 = 1e9·fl (y1/1e9) (g = 1), y3 = fl (ops·…)·1e9/ops … simpler: scale by hand
  have hu0 := h.u_nonneg
  have hu1 : 0 ≤ 1 - u := by linarith [h.u_small]
  have hs : 0 ≤ secs D := by unfold secs; positivity
  have hx1 : (1 - u) * ((1 - u) * secs D) ≤ fl (fl (D : ℝ) / 1000000000) := by
    have h1 := h.lo hD'
    have h2 := h.lo hq0
    have : (1 - u) * secs D ≤ fl (D : ℝ) / 1000000000 := by
      unfold secs
      rw [← mul_div_assoc]
      exact div_le_div_of_nonneg_right h1 (by norm_num)
    calc (1 - u) * ((1 - u) * secs D) ≤ (1 - u) * (fl (D : ℝ) / 1000000000) := mul_le_mul_of_nonneg_left this hu1
      _ ≤ _ := h2
  have hx2 : fl (fl (D : ℝ) / 1000000000) ≤ (1 + u) * ((1 + u) * secs D) := by
    have h1 := h.hi hD'
    have h2 := h.hi hq0
    have : fl (D : ℝ) / 1000000000 ≤ (1 + u) * secs D := by
      unfold secs
      rw [← mul_div_assoc]
      exact div_le_div_of_nonneg_right h1 (by norm_num)
    calc fl (fl (D : ℝ) / 1000000000) ≤ (1 + u) * (fl (D : ℝ) / 1000000000) := h2
      _ ≤ (1 + u) * ((1 + u) * secs D) := mul_le_mul_of_nonneg_left this (by linarith)
  have hab : 0 ≤ ops * secs D := mul_nonneg hops hs
  constructor
  · calc (1 - 4 * u) * (ops * secs D) ≤ (1 - u) ^ 3 * (ops * secs D) := mul_le_mul_of_nonneg_right (cube_lo h) hab
      _ = (1 - u) * (ops * ((1 - u) * ((1 - u) * secs D))) := by ring
      _ ≤ (1 - u) * (ops * fl (fl (D : ℝ) / 1000000000)) :=
          mul_le_mul_of_nonneg_left (mul_le_mul_of_nonneg_left hx1 hops) hu1
      _ ≤ _ := h.lo hp0
  · calc fl (ops * fl (fl (D : ℝ) / 1000000000)) ≤ (1 + u) * (ops * fl (fl (D : ℝ) / 1000000000)) := h.hi hp0
      _ ≤ (1 + u) * (ops * ((1 + u) * ((1 + u) * secs D))) :=
          mul_le_mul_of_nonneg_left (mul_le_mul_of_nonneg_left hx2 hops) (by linarith)
      _ = (1 + u) ^ 3 * (ops * secs D) := by ring
      _ ≤ (1 + 4 * u) * (ops * secs D) := mul_le_mul_of_nonneg_right (cube_hi h) hab

/-- **what the regenerated float64 reading of `NewConst` is**: a leaf of the configured length whose count is the
truncation of some `c` within (1 ± 4u) of the integral and whose operation i is at the truncation of some `x i` within
(1 ± 4u) of the exact instant. The shapes of const.go as it is and of its common respellings (`xn * ops`,
`billionDivOps * float64(i)`, `float64(i) * 1e9 / ops`) are recognised; any other operation tree breaks this lemma. -/
theorem NewConst_fl_sem (h : Rounding u fl) (ops : ℝ) (D : ℤ) (hops : 0 ≤ ops) (hD : 0 ≤ D) :
    ∃ (c : ℝ) (x : ℤ → ℝ), NewConst_fl fl ops D = Sched.doAt D (Go.f2i c) (fun i => Go.f2i (x i)) ∧
      CBound u ops D c ∧ (0 < ops → XBound u ops x) := by
  unfold NewConst_fl constDoAt_fl
  schedule_aux_unfold
  have hneg : ¬ ops < 0 := not_lt.mpr hops
  try simp only [hneg, if_false]
  try dsimp only
  refine ⟨_, _, rfl, ?_, ?_⟩
  · first
    | exact cbound_A h hops hD
    | (simpa only [mul_comm] using cbound_A h hops hD)
  · intro hpos
    first
    | exact xbound_A h hpos
    | exact xbound_B h hpos
    | (simpa only [mul_comm] using xbound_A h hpos)
    | (simpa only [mul_comm] using xbound_B h hpos)

/-- exact integral (operations) of the rate `ops` up to `y` nanoseconds -/
noncomputable def cumNs (ops : ℝ) (y : ℝ) : ℝ := ops * (y / 1000000000)

/-- **the acceptance test of the executable Spec holds for the float64 instant**: the truncated float64 instant `t` of
operation `i` satisfies cum(t) ≤ i + δ and cum(t + 1) ≥ i − δ with δ = 4u·i (for u = 2⁻⁵³: 2⁻⁵¹·i, inside the Spec's
2⁻⁴⁶·(i + 1 + ops·D)). -/
theorem const_token_ok (h : Rounding u fl) {ops : ℝ} (hops : 0 < ops) {x : ℤ → ℝ} (hxb : XBound u ops x)
    {i : ℤ} (hi : 0 ≤ i) :
    0 ≤ Go.f2i (x i) ∧
    cumNs ops (Go.f2i (x i) : ℤ) ≤ (i : ℝ) + 4 * u * (i : ℝ) ∧
    (i : ℝ) - 4 * u * (i : ℝ) ≤ cumNs ops ((Go.f2i (x i) : ℤ) + 1) := by
  obtain ⟨hlo, hhi⟩ := hxb i hi
  have hi' : (0:ℝ) ≤ (i : ℝ) := by exact_mod_cast hi
  have hT0 : (0:ℝ) ≤ (i : ℝ) * (1000000000 / ops) := by positivity
  have hx0 : 0 ≤ x i := by
    have : 0 ≤ (1 - 4 * u) * ((i : ℝ) * (1000000000 / ops)) :=
      mul_nonneg (by linarith [h.u_small]) hT0
    linarith
  rw [Go.f2i_of_nonneg hx0]
  have hfl1 : ((⌊x i⌋ : ℤ) : ℝ) ≤ x i := Int.floor_le _
  have hfl2 : x i < ((⌊x i⌋ : ℤ) : ℝ) + 1 := Int.lt_floor_add_one _
  have hcumT : ∀ c : ℝ, cumNs ops (c * ((i : ℝ) * (1000000000 / ops))) = c * (i : ℝ) := by
    intro c; unfold cumNs; field_simp
  have hmono : ∀ a b : ℝ, a ≤ b → cumNs ops a ≤ cumNs ops b := by
    intro a b hab; unfold cumNs
    exact mul_le_mul_of_nonneg_left (div_le_div_of_nonneg_right hab (by norm_num)) hops.le
  refine ⟨Int.floor_nonneg.mpr hx0, ?_, ?_⟩
  · calc cumNs ops ((⌊x i⌋ : ℤ) : ℝ) ≤ cumNs ops (x i) := hmono _ _ hfl1
      _ ≤ cumNs ops ((1 + 4 * u) * ((i : ℝ) * (1000000000 / ops))) := hmono _ _ hhi
      _ = (i : ℝ) + 4 * u * (i : ℝ) := by rw [hcumT]; ring
  · calc (i : ℝ) - 4 * u * (i : ℝ) = cumNs ops ((1 - 4 * u) * ((i : ℝ) * (1000000000 / ops))) := by rw [hcumT]; ring
      _ ≤ cumNs ops (x i) := hmono _ _ hlo
      _ ≤ cumNs ops (((⌊x i⌋ : ℤ) : ℝ) + 1) := hmono _ _ hfl2.le

/-- **the float64 count**: ⌊(1 − 4u)·ops·D⌋ ≤ ñ ≤ ⌊(1 + 4u)·ops·D⌋, i.e. ñ = ⌊ops·D⌋ unless ops·D lies within 4u·ops·D of an
integer, then possibly the neighbouring one — the Spec's count test. -/
theorem const_count_ok (h : Rounding u fl) {ops : ℝ} (hops : 0 ≤ ops) {D : ℤ} (hD : 0 ≤ D) {c : ℝ}
    (hcb : CBound u ops D c) :
    ⌊(1 - 4 * u) * (ops * secs D)⌋ ≤ Go.f2i c ∧ Go.f2i c ≤ ⌊(1 + 4 * u) * (ops * secs D)⌋ := by
  obtain ⟨hlo, hhi⟩ := hcb
  have hs : 0 ≤ secs D := by
    have hD' : (0:ℝ) ≤ (D : ℝ) := by exact_mod_cast hD
    unfold secs; positivity
  have hc0 : 0 ≤ c := by
    have : 0 ≤ (1 - 4 * u) * (ops * secs D) :=
      mul_nonneg (by linarith [h.u_small]) (mul_nonneg hops hs)
    linarith
  rw [Go.f2i_of_nonneg hc0]
  exact ⟨Int.floor_le_floor hlo, Int.floor_le_floor hhi⟩

/-- **no float64 instant after the end**: as long as 9u·(ops·D) ≤ 1 (u = 2⁻⁵³: fewer than 10¹⁵ operations), every operation
`i < ñ` the schedule hands out is at an offset ≤ D. -/
theorem const_token_le_D (h : Rounding u fl) {ops : ℝ} (hops : 0 < ops) {D : ℤ} (hD : 0 ≤ D)
    {c : ℝ} (hcb : CBound u ops D c) {x : ℤ → ℝ} (hxb : XBound u ops x)
    (hsmall : 9 * u * (ops * secs D) ≤ 1) {i : ℤ} (hi : 0 ≤ i) (hin : i < Go.f2i c) :
    Go.f2i (x i) ≤ D := by
  obtain ⟨hxlo, hxhi⟩ := hxb i hi
  obtain ⟨hclo, hchi⟩ := hcb
  have hu0 := h.u_nonneg
  have hu1 := h.u_small
  have hi' : (0:ℝ) ≤ (i : ℝ) := by exact_mod_cast hi
  have hD' : (0:ℝ) ≤ (D : ℝ) := by exact_mod_cast hD
  have hs : 0 ≤ secs D := by unfold secs; positivity
  have htot0 : 0 ≤ ops * secs D := mul_nonneg hops.le hs
  have hc0 : 0 ≤ c := by
    have : 0 ≤ (1 - 4 * u) * (ops * secs D) := mul_nonneg (by linarith) htot0
    linarith
  rw [Go.f2i_of_nonneg hc0] at hin
  -- i + 1 ≤ ⌊c̃⌋ ≤ c̃ ≤ (1 + 4u)·tot
  have hi1 : (i : ℝ) + 1 ≤ (1 + 4 * u) * (ops * secs D) := by
    have : ((i + 1 : ℤ) : ℝ) ≤ ((⌊c⌋ : ℤ) : ℝ) := by exact_mod_cast (by omega : i + 1 ≤ ⌊c⌋)
    have h2 : ((⌊c⌋ : ℤ) : ℝ) ≤ c := Int.floor_le _
    push_cast at this
    linarith
  -- x̃ ≤ (1 + 4u)·i·P with P = 1e9/ops and tot·P = D
  set P : ℝ := 1000000000 / ops with hP
  have hP0 : 0 < P := by positivity
  have htotP : ops * secs D * P = (D : ℝ) := by unfold secs; rw [hP]; field_simp
  have hx : x i ≤ (D : ℝ) := by
    have h1 : (i : ℝ) ≤ (1 + 4 * u) * (ops * secs D) - 1 := by linarith
    have h2 : (1 + 4 * u) * ((i : ℝ) * P) ≤ (1 + 4 * u) * (((1 + 4 * u) * (ops * secs D) - 1) * P) :=
      mul_le_mul_of_nonneg_left (mul_le_mul_of_nonneg_right h1 hP0.le) (by linarith)
    have h3 : (1 + 4 * u) * (((1 + 4 * u) * (ops * secs D) - 1) * P) =
        (1 + 4 * u) ^ 2 * (D : ℝ) - (1 + 4 * u) * P := by
      rw [← htotP]; ring
    -- ((1+4u)² − 1)·D ≤ (1+4u)·P  ⟸  (8u + 16u²)·tot ≤ 1 + 4u
    have h4 : ((1 + 4 * u) ^ 2 - 1) * (D : ℝ) ≤ (1 + 4 * u) * P := by
      rw [← htotP]
      have h5 : ((1 + 4 * u) ^ 2 - 1) * (ops * secs D) ≤ 1 + 4 * u := by
        have : (1 + 4 * u) ^ 2 - 1 ≤ 9 * u := by nlinarith
        have := mul_le_mul_of_nonneg_right this htot0
        linarith
      have := mul_le_mul_of_nonneg_right h5 hP0.le
      linarith
    linarith
  have hx0 : 0 ≤ x i := by
    have hT0 : (0:ℝ) ≤ (i : ℝ) * P := by positivity
    have : 0 ≤ (1 - 4 * u) * ((i : ℝ) * P) := mul_nonneg (by linarith) hT0
    linarith
  rw [Go.f2i_of_nonneg hx0]
  have := Int.floor_le_floor hx
  simpa using this

/-- the model is not empty: exact arithmetic is a rounding (u = 0), and so is a consistently pessimistic one -/
theorem rounding_id : Rounding 0 (fun x => x) := ⟨le_refl 0, by norm_num, by intro x; simp⟩

theorem rounding_up : Rounding (1 / 16) (fun x => x * (1 + 1 / 16)) :=
  ⟨by norm_num, le_refl _, by
    intro x
    have : x * (1 + 1 / 16) - x = 1 / 16 * x := by ring
    rw [this, abs_mul]
    have : |(1:ℝ) / 16| = 1 / 16 := abs_of_nonneg (by norm_num)
    rw [this]⟩

end Pandora.Proofs.C01Float
