/-
C08 (round 4): proofs for `Model/C08Pick.lean` — grpc/json with its chosencases filter, every kind that has the option,
data sources of the generic JSON provider, machine integers in the replay loop.
-/
import Pandora.Model.C08Pick
import Pandora.Proofs.C08Run

namespace Pandora.Proofs.C08
open Pandora.Model.C08

variable {α : Type}

/-! ## grpc/json with a chosencases filter -/

/-- `grpcjson.Provider.start` with a filter: after `q` passes and `r` lines of the next one the provider has sent the
chosen entries among them (`sel`), `ammoNum` counts exactly those (limit counts DELIVERED ammo), and the loop ends having
sent the first `T` of the endlessly repeated chosen entries. -/
theorem grpcLoop_pick_spec (file : List α) (chosen : α → Bool) (b : Bounds) (cancelAt : Option Nat) (T : Nat)
    (hn : 0 < file.length) (hf : 0 < (file.filter chosen).length)
    (tg : Tgt b.limit b.passes (file.filter chosen).length cancelAt T) :
    ∀ fuel D q r, r ≤ file.length → (b.passes = 0 ∨ q < b.passes) → (sel file chosen q r).length ≤ T →
      q + D = T / (file.filter chosen).length → (D + 1) * (file.length + 1) + 1 ≤ fuel + r →
      grpcLoop file chosen b cancelAt fuel ⟨q + 1, r, (sel file chosen q r).length⟩ (sel file chosen q r)
        = some (cycTake (file.filter chosen) T, .nil) := by
  intro fuel
  induction fuel with
  | zero =>
    intro D q r hr _ _ _ hfuel
    have := succ_mul' D (file.length + 1)
    omega
  | succ fuel ih =>
    intro D q r hr hq hlen hD hfuel
    have hpre := sel_prefix file chosen q r
    have hcyc := eq_cycTake_of_prefix _ _ _ hf hpre
    unfold grpcLoop
    by_cases hA : r < file.length ∧ (b.limit = 0 ∨ (sel file chosen q r).length < b.limit)
    · -- a line is read
      obtain ⟨a, ha⟩ : ∃ a, file[r]? = some a := ⟨file[r], List.getElem?_eq_getElem hA.1⟩
      have hsel := sel_next file chosen q r a ha
      simp only [hA, and_self, if_true, ha]
      by_cases hch : chosen a = true
      · rw [if_pos hch] at hsel ⊢
        by_cases hc : cancelled cancelAt (sel file chosen q r).length = true
        · obtain ⟨c, hc1, hc2⟩ := (cancelled_true_iff _ _).mp hc
          have hT : (sel file chosen q r).length = T := by have := tg.le_cancel c hc1; omega
          rw [if_pos hc, ← hT, ← hcyc]
        · rw [if_neg hc]
          have hnc : ∀ c, cancelAt = some c → (sel file chosen q r).length < c :=
            (cancelled_false_iff _ _).mp (by simpa using hc)
          have hLn : (sel file chosen q r).length + 1 = (sel file chosen q (r + 1)).length := by
            rw [hsel, List.length_append, List.length_singleton]
          have hlen' : (sel file chosen q (r + 1)).length ≤ T := by
            rcases tg.attained with ⟨h0, hT⟩ | ⟨h0, hT⟩ | hT
            · have := hA.2; omega
            · have := sel_len_le file chosen q (r + 1)
              have h2 : (q + 1) * (file.filter chosen).length ≤ b.passes * (file.filter chosen).length :=
                Nat.mul_le_mul_right _ (by omega)
              omega
            · have := hnc T hT; omega
          rw [hLn, ← hsel]
          exact ih D q (r + 1) (by omega) hq hlen' hD (by omega)
      · rw [if_neg hch] at hsel ⊢
        have hlen' : (sel file chosen q (r + 1)).length ≤ T := by rw [hsel]; exact hlen
        have := ih D q (r + 1) (by omega) hq hlen' hD (by omega)
        rw [hsel] at this
        exact this
    · rw [if_neg hA]
      by_cases hl : b.limit ≠ 0 ∧ b.limit ≤ (sel file chosen q r).length
      · have hT : (sel file chosen q r).length = T := by have := tg.le_limit hl.1; omega
        rw [if_pos hl, ← hT, ← hcyc]
      · rw [if_neg hl]
        have hrn : r = file.length := by omega
        subst hrn
        have hlenF : (sel file chosen q file.length).length = (q + 1) * (file.filter chosen).length := by
          rw [sel_full, length_rep]
        by_cases hp : b.passes ≠ 0 ∧ b.passes ≤ q + 1
        · have hpq : b.passes = q + 1 := by omega
          have hT : (sel file chosen q file.length).length = T := by
            have := tg.le_pass hp.1
            rw [hpq] at this
            omega
          rw [if_pos hp, ← hT, ← hcyc]
        · rw [if_neg hp]
          have hp' : b.passes = 0 ∨ q + 1 < b.passes := by omega
          have hq1 : q + 1 ≤ T / (file.filter chosen).length := by
            rw [Nat.le_div_iff_mul_le hf]; omega
          obtain ⟨D', hD'⟩ : ∃ D', D = D' + 1 := ⟨D - 1, by omega⟩
          subst hD'
          have hmul := succ_mul' (D' + 1) (file.length + 1)
          have h0 : sel file chosen q file.length = sel file chosen (q + 1) 0 := by rw [sel_full, sel_zero]
          rw [h0] at hlen ⊢
          exact ih D' (q + 1) 0 (by omega) hp' hlen (by omega) (by omega)

theorem grpcRun_pick_spec (file : List α) (chosen : α → Bool) (b : Bounds) (cancelAt : Option Nat) (T : Nat)
    (hn : 0 < file.length) (hf : 0 < (file.filter chosen).length)
    (tg : Tgt b.limit b.passes (file.filter chosen).length cancelAt T) :
    grpcRun file chosen b cancelAt (fuelFor T file.length (file.filter chosen).length)
      = some ⟨cycTake (file.filter chosen) T, .nil, true⟩ := by
  unfold grpcRun
  have := grpcLoop_pick_spec file chosen b cancelAt T hn hf tg (fuelFor T file.length (file.filter chosen).length)
    (T / (file.filter chosen).length) 0 0 (by omega) (by omega) (by simp [sel]) (by omega) (by unfold fuelFor; omega)
  simp only [sel, rep_zero, List.take_zero, List.filter_nil, List.append_nil, List.length_nil] at this
  simp only [GrpcSt.init]
  rw [this]

/-- every kind that has a chosencases option, with any filter that chooses at least one entry of the file -/
theorem runFuelPick_spec (inp : Input) (file : List α) (chosen : α → Bool) (T : Nat)
    (hk : inp.kind.hasFilter = true)
    (hn : 0 < file.length) (hf : 0 < (file.filter chosen).length)
    (tg : Tgt inp.b.limit inp.b.passes (file.filter chosen).length inp.cancelAt T) :
    runFuelPick inp file chosen (fuelFor T file.length (file.filter chosen).length)
      = some ⟨cycTake (file.filter chosen) T, kindEnd inp.kind inp.cancelAt T, true⟩ := by
  unfold runFuelPick
  cases hkd : inp.kind with
  | grpcJson =>
    simp only [kindEnd]
    exact grpcRun_pick_spec file chosen _ _ T hn hf tg
  | uri | uripost | raw | jsonLines | jsonArray =>
    simp only
    have := runFuel_spec inp file chosen T hn hf (by intro h; simp [hkd, Kind.isHttp] at h) tg
    rw [hkd] at this
    exact this
  | httpScenario | grpcScenario | genericJson => simp [hkd, Kind.hasFilter] at hk

/-! ## scenario weights -/

theorem gcdList_dvd (l : List Nat) : ∀ x ∈ l, gcdList l ∣ x := by
  induction l with
  | nil => intro x hx; cases hx
  | cons a l ih =>
    intro x hx
    simp only [gcdList, List.foldr_cons] at *
    rcases List.mem_cons.mp hx with rfl | h
    · exact Nat.gcd_dvd_left _ _
    · exact Nat.dvd_trans (Nat.gcd_dvd_right _ _) (ih x h)

theorem normWeights_pos (ws : List Nat) : ∀ x ∈ normWeights ws, 0 < x := by
  intro x hx
  simp only [normWeights, List.mem_map] at hx
  obtain ⟨w, _, rfl⟩ := hx
  split <;> omega

/-- every scenario occurs at least once in a pass -/
theorem spreadCounts_pos (ws : List Nat) : ∀ c ∈ spreadCounts ws, 0 < c := by
  intro c hc
  simp only [spreadCounts, List.mem_map] at hc
  obtain ⟨w, hw, rfl⟩ := hc
  have hpos := normWeights_pos ws w hw
  have hd := gcdList_dvd (normWeights ws) w hw
  have hg : 0 < gcdList (normWeights ws) := Nat.pos_of_dvd_of_pos hd hpos
  exact Nat.div_pos (Nat.le_of_dvd hpos hd) hg

theorem length_spreadFrom (i : Nat) (cs : List Nat) : (spreadFrom i cs).length = cs.sum := by
  induction cs generalizing i with
  | nil => rfl
  | cons c cs ih => simp [spreadFrom, ih]

theorem length_le_sum_of_pos (cs : List Nat) (h : ∀ c ∈ cs, 0 < c) : cs.length ≤ cs.sum := by
  induction cs with
  | nil => simp
  | cons c cs ih =>
    have h1 := h c (List.mem_cons_self)
    have h2 := ih (fun x hx => h x (List.mem_cons_of_mem _ hx))
    simp only [List.length_cons, List.sum_cons]
    omega

/-- a pass has at least as many entries as the file has scenarios; its length is the sum of the counts -/
theorem length_spread (ws : List Nat) : (spread ws).length = (spreadCounts ws).sum ∧ ws.length ≤ (spread ws).length := by
  have h1 : (spread ws).length = (spreadCounts ws).sum := length_spreadFrom 0 _
  refine ⟨h1, ?_⟩
  rw [h1]
  have := length_le_sum_of_pos (spreadCounts ws) (spreadCounts_pos ws)
  simpa [spreadCounts, normWeights] using this

/-- how often scenario `j` occurs in `spreadFrom i cs` -/
theorem count_spreadFrom (i : Nat) (cs : List Nat) (j : Nat) :
    (spreadFrom i cs).count j = if i ≤ j then cs.getD (j - i) 0 else 0 := by
  induction cs generalizing i with
  | nil => simp [spreadFrom]
  | cons c cs ih =>
    simp only [spreadFrom, List.count_append, List.count_replicate, ih]
    by_cases h1 : i ≤ j
    · by_cases h2 : i = j
      · subst h2
        have h3 : ¬ i + 1 ≤ i := by omega
        simp [h3]
      · have h3 : i + 1 ≤ j := by omega
        have h4 : j - i = (j - (i + 1)) + 1 := by omega
        simp [h1, h2, h3, h4]
    · have h3 : ¬ i + 1 ≤ j := by omega
      have h2 : ¬ i = j := by omega
      simp [h1, h2, h3]

/-! ## data sources -/

theorem seekable_iff (k : SrcKind) : k.seekable = true ↔ k ≠ .readCloser ∧ k ≠ .reader ∧ k ≠ .buffer := by
  cases k <;> simp [SrcKind.seekable, opensOf, SrcKind.rewindable]

theorem runSrc_seekable (k : SrcKind) (hk : k.seekable = true) (inp : Input) (hg : inp.kind = .genericJson) (n : Nat) :
    runSrc k inp n = run inp n := by
  unfold runSrc effPasses
  rw [hk]
  simp only [if_true]
  cases inp with
  | mk kind preload b cancelAt =>
    cases b
    simp only at hg
    subst hg
    rfl

/-! ## machine integers -/

/-- the `Nat` reading of the loop body of runPreloaded / scenario `Run` (what `Gen.ProvLoops.runPreloadedStep` /
`scenarioStep` are) -/
def replayStepN (passes limit length : Nat) (c : Bool) (ammoNum : Nat) : Act (Nat × Nat) :=
  if c then .ret .canceled
  else if passes ≠ 0 ∧ ammoNum / length ≥ passes then .ret .errPasses
  else if limit ≠ 0 ∧ ammoNum ≥ limit then .ret .errLimit
  else .offer (ammoNum % length) (ammoNum + 1, ammoNum / length)

theorem u64_ne_zero (x : UInt64) : x ≠ 0 ↔ x.toNat ≠ 0 := by
  constructor
  · intro h h0; exact h (UInt64.toNat_inj.mp (by simpa using h0))
  · intro h h0; subst h0; exact h rfl

/-- **no wrap**: for every 64-bit value of passes, limit and length (≥ 1) and every counter that has not itself wrapped
(fewer than 2^64 - 1 ammo sent so far) the loop body over Go's modular `uint` is the loop body over `Nat` -/
theorem replayStepU_eq (passes limit length ammoNum : UInt64) (c : Bool)
    (hinc : ammoNum.toNat + 1 < 2 ^ 64) :
    actToNat (replayStepU passes limit length c ammoNum)
      = replayStepN passes.toNat limit.toNat length.toNat c ammoNum.toNat := by
  unfold replayStepU replayStepN
  cases c with
  | true => simp [actToNat]
  | false =>
    simp only [Bool.false_eq_true, if_false]
    have hp : (passes ≠ 0 ∧ ammoNum / length ≥ passes) ↔ (passes.toNat ≠ 0 ∧ ammoNum.toNat / length.toNat ≥ passes.toNat) := by
      rw [u64_ne_zero, ge_iff_le, UInt64.le_iff_toNat_le, UInt64.toNat_div]
    have hl : (limit ≠ 0 ∧ ammoNum ≥ limit) ↔ (limit.toNat ≠ 0 ∧ ammoNum.toNat ≥ limit.toNat) := by
      rw [u64_ne_zero, ge_iff_le, UInt64.le_iff_toNat_le]
    by_cases h1 : passes ≠ 0 ∧ ammoNum / length ≥ passes
    · rw [if_pos h1, if_pos (hp.mp h1)]; rfl
    · rw [if_neg h1, if_neg (fun h => h1 (hp.mpr h))]
      by_cases h2 : limit ≠ 0 ∧ ammoNum ≥ limit
      · rw [if_pos h2, if_pos (hl.mp h2)]; rfl
      · rw [if_neg h2, if_neg (fun h => h2 (hl.mpr h))]
        simp only [actToNat, UInt64.toNat_mod, UInt64.toNat_div, UInt64.toNat_add]
        have : (ammoNum.toNat + (1 : UInt64).toNat) % 2 ^ 64 = ammoNum.toNat + 1 := by
          simp only [UInt64.toNat_one]
          exact Nat.mod_eq_of_lt hinc
        rw [this]

/-! ## the streaming decoders over machine integers -/

theorem u64_succ_toNat (a : UInt64) (h : a.toNat + 1 < 2 ^ 64) : (a + 1).toNat = a.toNat + 1 := by
  simp only [UInt64.toNat_add, UInt64.toNat_one]
  exact Nat.mod_eq_of_lt h

theorem u64_eq_zero (a : UInt64) : a = 0 ↔ a.toNat = 0 := by
  constructor
  · intro h; subst h; rfl
  · intro h; exact UInt64.toNat_inj.mp (by simpa using h)

/-- uri / uripost / raw: one round of `Scan` over Go's `uint` counters is the round over `Nat`, for every 64-bit `passes` and
all counters that have not themselves wrapped -/
theorem roundEofU_eq (passes ammoNum passNum : UInt64) (c : Bool) (rd : Rd)
    (ha : ammoNum.toNat + 1 < 2 ^ 64) (hp : passNum.toNat + 1 < 2 ^ 64) :
    roundEofU passes c rd ammoNum passNum = roundEof passes.toNat c rd ammoNum.toNat passNum.toNat := by
  unfold roundEofU roundEof
  cases c with
  | true => simp
  | false =>
    simp only [Bool.false_eq_true, if_false]
    cases rd with
    | entry => simp [u64_succ_toNat _ ha]
    | skip => rfl
    | bad => rfl
    | eof =>
      simp only
      have hq : (passes ≠ 0 ∧ passNum + 1 ≥ passes) ↔ (passes.toNat ≠ 0 ∧ passes.toNat ≤ passNum.toNat + 1) := by
        rw [u64_ne_zero, ge_iff_le, UInt64.le_iff_toNat_le, u64_succ_toNat _ hp]
      by_cases h1 : passes ≠ 0 ∧ passNum + 1 ≥ passes
      · rw [if_pos h1, if_pos (hq.mp h1), u64_succ_toNat _ hp]
      · rw [if_neg h1, if_neg (fun h => h1 (hq.mpr h))]
        by_cases h2 : ammoNum = 0
        · rw [if_pos h2, if_pos ((u64_eq_zero _).mp h2), u64_succ_toNat _ hp]
        · rw [if_neg h2, if_neg (fun h => h2 ((u64_eq_zero _).mpr h)), u64_succ_toNat _ hp]

/-- jsonline: the same -/
theorem roundTopU_eq (passes ammoNum passNum : UInt64) (c : Bool) (rd : Rd)
    (ha : ammoNum.toNat + 1 < 2 ^ 64) (hp : passNum.toNat + 1 < 2 ^ 64) :
    roundTopU passes c rd ammoNum passNum = roundTop passes.toNat c rd ammoNum.toNat passNum.toNat := by
  unfold roundTopU roundTop
  have hq : (passes ≠ 0 ∧ passNum ≥ passes) ↔ (passes.toNat ≠ 0 ∧ passes.toNat ≤ passNum.toNat) := by
    rw [u64_ne_zero, ge_iff_le, UInt64.le_iff_toNat_le]
  by_cases h1 : passes ≠ 0 ∧ passNum ≥ passes
  · rw [if_pos h1, if_pos (hq.mp h1)]
  · rw [if_neg h1, if_neg (fun h => h1 (hq.mpr h))]
    cases rd with
    | entry => simp [u64_succ_toNat _ ha]
    | skip => rfl
    | bad => rfl
    | eof =>
      simp only
      by_cases h2 : ammoNum = 0
      · rw [if_pos h2, if_pos ((u64_eq_zero _).mp h2)]
      · rw [if_neg h2, if_neg (fun h => h2 ((u64_eq_zero _).mpr h)), u64_succ_toNat _ hp]

theorem limitReachedU_eq (limit ammoNum : UInt64) :
    limitReachedU limit ammoNum = decide (limit.toNat ≠ 0 ∧ limit.toNat ≤ ammoNum.toNat) := by
  unfold limitReachedU
  rw [decide_eq_decide, u64_ne_zero, ge_iff_le, UInt64.le_iff_toNat_le]

end Pandora.Proofs.C08
