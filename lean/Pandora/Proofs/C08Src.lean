/-
C08 / C14: the three decoders of components/providers/http/decoders behave as one abstract cyclic source.
`R q r s` = decoder state `s` after `q` complete passes and `r` entries of the current pass.
-/
import Pandora.Model.C08
import Pandora.Proofs.C08Lists

namespace Pandora.Proofs.C08
open Pandora.Model.C08

/-- what the provider loops need to know about a decoder (constructed with Limit = 0) over a file of `n ≥ 1` entries -/
structure Src {σ : Type} (scan : σ → ScanRes × σ) (n passes : Nat) (R : Nat → Nat → σ → Prop) : Prop where
  next : ∀ q r s, R q r s → r < n → (passes = 0 ∨ q < passes) → ∃ s', scan s = (.ammo r, s') ∧ R q (r + 1) s'
  wrap : ∀ q s, R q n s → (passes = 0 ∨ q + 1 < passes) → ∃ s', scan s = (.ammo 0, s') ∧ R (q + 1) 1 s'
  stop : ∀ q s, R q n s → passes ≠ 0 → passes ≤ q + 1 → ∃ s', scan s = (.errPass, s')

/-- uri / uripost / raw / jsonline-stream decoder state after `q` passes and `r` entries -/
def RStream (n q r : Nat) (d : Dec) : Prop := d.pos = r ∧ d.passNum = q ∧ d.ammoNum = q * n + r ∧ r ≤ n

theorem RStream_init (n : Nat) : RStream n 0 0 Dec.init := by simp [RStream, Dec.init]

theorem src_eofCheck (n passes : Nat) (hn : 0 < n) :
    Src (scanStream .eofCheck ⟨0, passes⟩ n) n passes (RStream n) where
  next := by
    intro q r d ⟨h1, h2, h3, h4⟩ hr _
    refine ⟨⟨r + 1, d.ammoNum + 1, q⟩, ?_, ?_⟩
    · simp [scanStream, scanLoop, h1, h2, hr]
    · simp [RStream, h3]; omega
  wrap := by
    intro q d ⟨h1, h2, h3, _⟩ hp
    have hne : ¬ (¬ passes = 0 ∧ passes ≤ q + 1) := by omega
    have hn' : n ≠ 0 := by omega
    refine ⟨⟨1, d.ammoNum + 1, q + 1⟩, ?_, ?_⟩
    · simp [scanStream, scanLoop, h1, h2, h3, hn, hne, hn']
    · simp [RStream, h3, Nat.succ_mul]; omega
  stop := by
    intro q d ⟨h1, h2, _, _⟩ hp0 hp
    exact ⟨⟨n, d.ammoNum, q + 1⟩, by simp [scanStream, scanLoop, h1, h2, hp0, hp]⟩

theorem src_topCheck (n passes : Nat) (hn : 0 < n) :
    Src (scanStream .topCheck ⟨0, passes⟩ n) n passes (RStream n) where
  next := by
    intro q r d ⟨h1, h2, h3, h4⟩ hr hq
    have hne : ¬ (¬ passes = 0 ∧ passes ≤ q) := by omega
    refine ⟨⟨r + 1, d.ammoNum + 1, q⟩, ?_, ?_⟩
    · simp [scanStream, scanLoop, h1, h2, hr, hne]
    · simp [RStream, h3]; omega
  wrap := by
    intro q d ⟨h1, h2, h3, _⟩ hp
    have hne : ¬ (¬ passes = 0 ∧ passes ≤ q + 1) := by omega
    have hne' : ¬ (¬ passes = 0 ∧ passes ≤ q) := by omega
    have hn' : n ≠ 0 := by omega
    refine ⟨⟨1, d.ammoNum + 1, q + 1⟩, ?_, ?_⟩
    · simp [scanStream, scanLoop, h1, h2, h3, hn, hne, hne', hn']
    · simp [RStream, h3, Nat.succ_mul]; omega
  stop := by
    intro q d ⟨h1, h2, h3, _⟩ hp0 hp
    have hn' : n ≠ 0 := by omega
    by_cases hq : passes ≤ q
    · exact ⟨d, by simp [scanStream, scanLoop, h2, hp0, hq]⟩
    · exact ⟨⟨0, d.ammoNum, q + 1⟩, by simp [scanStream, scanLoop, h1, h2, h3, hp0, hq, hp, hn']⟩

/-- jsonline-array decoder state after `q` passes and `r` entries (the pass is counted when its last element is handed out) -/
def RArr (n q r : Nat) (d : ArrDec) : Prop := d.ammoNum = q * n + r ∧ r ≤ n ∧ d.passNum = if r = n then q + 1 else q

theorem RArr_init (n : Nat) (hn : 0 < n) : RArr n 0 0 ArrDec.init := by
  simp [RArr, ArrDec.init]; omega

theorem src_arr (n passes : Nat) (hn : 0 < n) :
    Src (scanArr ⟨0, passes⟩ n) n passes (RArr n) where
  next := by
    intro q r d ⟨h1, h2, h3⟩ hr hq
    have hrn : r ≠ n := by omega
    have hmod : (q * n + r) % n = r := by
      rw [Nat.mul_comm, Nat.mul_add_mod]; exact Nat.mod_eq_of_lt hr
    have hn0 : n ≠ 0 := by omega
    have hne : ¬ (¬ passes = 0 ∧ passes ≤ q) := by omega
    simp [hrn] at h3
    refine ⟨⟨d.ammoNum + 1, if r = n - 1 then q + 1 else q⟩, ?_, ?_⟩
    · simp [scanArr, hn0, h1, h3, hmod, hne]
    · simp only [RArr, h1]
      refine ⟨by omega, by omega, ?_⟩
      by_cases h : r = n - 1
      · have h' : r + 1 = n := by omega
        rw [if_pos h, if_pos h']
      · have h' : r + 1 ≠ n := by omega
        rw [if_neg h, if_neg h']
  wrap := by
    intro q d ⟨h1, _, h3⟩ hp
    have hmod : (q * n + n) % n = 0 := by
      rw [Nat.mul_comm, Nat.mul_add_mod]; exact Nat.mod_self n
    have hn0 : n ≠ 0 := by omega
    have hne : ¬ (¬ passes = 0 ∧ passes ≤ q + 1) := by omega
    simp at h3
    refine ⟨⟨d.ammoNum + 1, if 0 = n - 1 then q + 1 + 1 else q + 1⟩, ?_, ?_⟩
    · simp [scanArr, hn0, h1, h3, hmod, hne]
    · simp only [RArr]
      refine ⟨by rw [h1, Nat.succ_mul], by omega, ?_⟩
      by_cases h : 0 = n - 1
      · have h' : 1 = n := by omega
        rw [if_pos h, if_pos h']
      · have h' : ¬ 1 = n := by omega
        rw [if_neg h, if_neg h']
  stop := by
    intro q d ⟨h1, _, h3⟩ hp0 hp
    have hn0 : n ≠ 0 := by omega
    simp at h3
    exact ⟨d, by simp [scanArr, hn0, h3, hp0, hp]⟩

end Pandora.Proofs.C08
