/-
C05 — error accounting for the repaired `onErrAwaited` (`cfg.fixSelect`): as long as the caller has not
cancelled, every component error is either still on its way to `onErrAwaited` or has made `Pool.Run` fail.
-/
import Pandora.Proofs.C05Vals

namespace Pandora.Proofs.C05
open Pandora.Model.C05

def Ret.isErr : Ret → Bool
  | .err _ => true
  | _ => false

def compHasErr : Comp → Bool
  | .ready (.err _) => true
  | _ => false

def startHasErr : Option (Nat × Ret) → Bool
  | some (_, .err _) => true
  | _ => false

def awOnErr : AwPc → Bool
  | .onErr _ _ _ => true
  | _ => false

def mainFailed : MainPc → Bool
  | .returned (.fail _ _) => true
  | _ => false

def mainRunning : MainPc → Bool
  | .returned _ => false
  | _ => true

def IsFail : PRes → Bool
  | .fail _ _ => true
  | _ => false

/-- some component error has been returned and not yet been through `onErrAwaited` -/
def PendingErr (s : State) : Prop :=
  compHasErr s.prov = true ∨ compHasErr s.agg = true ∨ (startHasErr s.startRes = true ∧ s.startTaken = false) ∨
  s.buf.any (fun x => Ret.isErr x.2) = true ∨ awOnErr s.aw = true

structure InvX (s : State) : Prop where
  acc : s.extC = true ∨ s.compErrs = [] ∨ mainFailed s.main = true ∨ (mainRunning s.main = true ∧ PendingErr s)
  atRet : ∀ r, s.main = .returned r → s.extAtReturn = false → s.errsAtReturn ≠ [] → IsFail r = true

theorem invX_init : InvX init := by
  constructor <;> simp [init, mainFailed, mainRunning]

macro "x_tac" : tactic => `(tactic|
  (constructor <;>
   simp only [cancelAll, mainReturn, finish, checkAll, afterErr, handleRes, addErr, sendRes, nextWait, AwBusy, cnt,
     PendingErr, IsFail, ValOK, Ret.isErr, compHasErr, startHasErr, awOnErr, mainFailed, mainRunning,
     List.any_append, List.any_cons, List.any_nil, Bool.or_eq_true, Bool.or_false, Bool.false_or, Ret.isCtxError, retAllowed, List.mem_append, List.mem_cons, List.mem_singleton,
     List.not_mem_nil] at * <;>
   grind))

/-- `x_tac` after a case split on where `Pool.Run` is -/
macro "xm_tac" : tactic => `(tactic|
  (cases hm : State.main ‹State› with
   | returned r => cases r <;> x_tac
   | _ => x_tac))

theorem x_finish (s : State) (h : InvX s) : InvX (finish s) := by
  obtain ⟨x1, x2⟩ := h
  unfold finish
  split
  · x_tac
  · x_tac

theorem x_checkAll (s : State) (h : InvX s) : InvX (checkAll s) := by
  obtain ⟨x1, x2⟩ := h
  unfold checkAll
  repeat' split
  all_goals x_tac

theorem x_afterErr (s : State) (chk : Bool) (h : InvX { s with aw := .loop }) : InvX (afterErr s chk) := by
  unfold afterErr
  apply x_finish
  split
  · exact x_checkAll _ h
  · exact h

/-- a result that is not an error leaves the accounting alone; an error moves into `onErrAwaited` -/
theorem x_handleRes (s : State) (w : Wrap) (r : Ret) (done chk : Bool) (hl : s.aw = .loop)
    (h : InvX s ∨ (InvX { s with aw := .onErr w r chk } ∧ r.isCtxError done = false)) :
    InvX (handleRes s w r done chk) := by
  unfold handleRes
  split
  · rename_i hc
    rcases h with h | ⟨_, h⟩
    · apply x_afterErr
      have e : { s with aw := AwPc.loop } = s := by cases s; simp_all
      rw [e]; exact h
    · simp [hc] at h
  · rename_i hc
    rcases h with h | ⟨h, _⟩
    · obtain ⟨x1, x2⟩ := h; x_tac
    · exact h


macro "x_destruct" h:ident : tactic => `(tactic| obtain ⟨x1, x2⟩ := $h)

section
variable (cfg : Cfg) (s : State)

theorem x_ext (ha : InvA s) (hb : InvB s) (h : InvX s) : InvX (step cfg s .extCancel) := by
  simp only [step]; x_destruct h; a_destruct ha; b_destruct hb; x_tac

theorem x_warm (o) (ha : InvA s) (hb : InvB s) (h : InvX s) : InvX (step cfg s (.warm o)) := by
  simp only [step]
  split
  · x_destruct h; a_destruct ha; b_destruct hb; cases o <;> x_tac
  · exact h

theorem x_sched (o) (ha : InvA s) (hb : InvB s) (h : InvX s) : InvX (step cfg s (.sched o)) := by
  simp only [step]
  split
  · x_destruct h; a_destruct ha; b_destruct hb; cases o <;> x_tac
  · exact h

theorem x_provRet (r) (ha : InvA s) (hb : InvB s) (h : InvX s) : InvX (step cfg s (.provRet r)) := by
  simp only [step]
  split
  · x_destruct h; a_destruct ha; b_destruct hb; cases r <;> xm_tac
  · exact h

theorem x_aggRet (r) (ha : InvA s) (hb : InvB s) (h : InvX s) : InvX (step cfg s (.aggRet r)) := by
  simp only [step]
  split
  · x_destruct h; a_destruct ha; b_destruct hb; cases r <;> xm_tac
  · exact h

theorem x_rps (ha : InvA s) (hb : InvB s) (h : InvX s) : InvX (step cfg s .rpsFinished) := by
  simp only [step]
  split
  · x_destruct h; a_destruct ha; b_destruct hb; x_tac
  · exact h

theorem x_startFirst (o) (ha : InvA s) (hb : InvB s) (h : InvX s) : InvX (step cfg s (.startFirst o)) := by
  simp only [step]
  split
  · x_destruct h; a_destruct ha; b_destruct hb; cases o <;> xm_tac
  · exact h

theorem x_startTick (ha : InvA s) (hb : InvB s) (h : InvX s) : InvX (step cfg s .startTick) := by
  simp only [step]
  split
  · x_destruct h; a_destruct ha; b_destruct hb; x_tac
  · exact h

theorem x_startEnd (ha : InvA s) (hb : InvB s) (h : InvX s) : InvX (step cfg s .startEnd) := by
  simp only [step]
  split
  · x_destruct h; a_destruct ha; b_destruct hb; x_tac
  · exact h

theorem x_instCreate (i o) (ha : InvA s) (hb : InvB s) (h : InvX s) : InvX (step cfg s (.instCreate i o)) := by
  simp only [step]
  split
  · rename_i id hl
    have hf := getElem?_facts _ _ _ hl
    x_destruct h; a_destruct ha; b_destruct hb; cases o <;> xm_tac
  · exact h

theorem x_instRet (i r) (ha : InvA s) (hb : InvB s) (h : InvX s) : InvX (step cfg s (.instRet i r)) := by
  simp only [step]
  split
  · rename_i id g hl
    have hf := getElem?_facts _ _ _ hl
    split
    · exact h
    · x_destruct h; a_destruct ha; b_destruct hb; cases r <;> xm_tac
  · exact h

theorem x_awaitProv (ha : InvA s) (hb : InvB s) (h : InvX s) : InvX (step cfg s .awaitProv) := by
  simp only [step]
  split
  · rename_i r _ hp
    apply x_handleRes _ _ _ _ _ (by assumption)
    x_destruct h; a_destruct ha; b_destruct hb
    cases r
    · left; x_tac
    · left; x_tac
    · left; x_tac
    · right; exact ⟨by x_tac, by simp [Ret.isCtxError]⟩
  · exact h

theorem x_awaitAgg (ha : InvA s) (hb : InvB s) (h : InvX s) : InvX (step cfg s .awaitAgg) := by
  simp only [step]
  split
  · rename_i r _ hp
    apply x_handleRes _ _ _ _ _ (by assumption)
    x_destruct h; a_destruct ha; b_destruct hb
    cases r
    · left; x_tac
    · left; x_tac
    · left; x_tac
    · right; exact ⟨by x_tac, by simp [Ret.isCtxError]⟩
  · exact h

theorem x_awaitStart (ha : InvA s) (hb : InvB s) (h : InvX s) : InvX (step cfg s .awaitStart) := by
  simp only [step]
  split
  · rename_i n r _ _ hp
    apply x_handleRes _ _ _ _ _ (by assumption)
    x_destruct h; a_destruct ha; b_destruct hb
    cases r
    · left; x_tac
    · left; x_tac
    · left; x_tac
    · right; exact ⟨by x_tac, by simp [Ret.isCtxError]⟩
  · exact h

theorem x_awaitRun (ha : InvA s) (hb : InvB s) (h : InvX s) : InvX (step cfg s .awaitRun) := by
  simp only [step]
  split
  · rename_i id r rest _ _ hbuf
    split
    · apply x_afterErr
      rename_i hr; subst hr; x_destruct h; a_destruct ha; b_destruct hb
      split <;> x_tac
    · apply x_handleRes _ _ _ _ _ (by assumption)
      x_destruct h; a_destruct ha; b_destruct hb
      cases r
      · left; x_tac
      · left; x_tac
      · left; x_tac
      · right; exact ⟨by x_tac, by simp [Ret.isCtxError]⟩
  · exact h

theorem x_errDeliver (ha : InvA s) (hb : InvB s) (h : InvX s) : InvX (step cfg s .errDeliver) := by
  simp only [step]
  split
  · rename_i w r chk _ _
    apply x_afterErr
    x_destruct h; a_destruct ha; b_destruct hb; x_tac
  · exact h

/-- the repaired select: suppression needs the POOL context, which only the caller or the return of `Pool.Run` cancels -/
theorem x_errSuppress (hfix : cfg.fixSelect = true) (ha : InvA s) (hb : InvB s) (h : InvX s) :
    InvX (step cfg s .errSuppress) := by
  simp only [step, hfix, if_true]
  split
  · rename_i w r chk _
    split
    · apply x_afterErr
      x_destruct h; a_destruct ha; b_destruct hb; x_tac
    · exact h
  · exact h

theorem x_mainCancel (ha : InvA s) (hb : InvB s) (h : InvX s) : InvX (step cfg s .mainCancel) := by
  simp only [step]
  split
  · x_destruct h; a_destruct ha; b_destruct hb; x_tac
  · exact h

theorem x_mainClosed (ha : InvA s) (hb : InvB s) (h : InvX s) : InvX (step cfg s .mainClosed) := by
  simp only [step]
  split
  · have hbuf := nil_iff_length s.buf
    x_destruct h; a_destruct ha; b_destruct hb; x_tac
  · exact h

end

theorem step_invX (cfg : Cfg) (hfix : cfg.fixSelect = true) (s : State) (c : Choice) (ha : InvA s) (hb : InvB s)
    (h : InvX s) : InvX (step cfg s c) := by
  cases c
  · exact x_ext cfg s ha hb h
  · exact x_warm cfg s _ ha hb h
  · exact x_sched cfg s _ ha hb h
  · exact x_provRet cfg s _ ha hb h
  · exact x_aggRet cfg s _ ha hb h
  · exact x_rps cfg s ha hb h
  · exact x_startFirst cfg s _ ha hb h
  · exact x_startTick cfg s ha hb h
  · exact x_startEnd cfg s ha hb h
  · exact x_instCreate cfg s _ _ ha hb h
  · exact x_instRet cfg s _ _ ha hb h
  · exact x_awaitProv cfg s ha hb h
  · exact x_awaitAgg cfg s ha hb h
  · exact x_awaitStart cfg s ha hb h
  · exact x_awaitRun cfg s ha hb h
  · exact x_errDeliver cfg s ha hb h
  · exact x_errSuppress cfg s hfix ha hb h
  · exact x_mainCancel cfg s ha hb h
  · exact x_mainClosed cfg s ha hb h

theorem foldl_invABX (cfg : Cfg) (hfix : cfg.fixSelect = true) (cs : List Choice) (s : State)
    (ha : InvA s) (hb : InvB s) (h : InvX s) :
    InvA (cs.foldl (step cfg) s) ∧ InvB (cs.foldl (step cfg) s) ∧ InvX (cs.foldl (step cfg) s) := by
  induction cs generalizing s with
  | nil => exact ⟨ha, hb, h⟩
  | cons c cs ih => exact ih _ (step_invA cfg s c ha) (step_invB cfg s c ha hb) (step_invX cfg hfix s c ha hb h)

theorem run_invX (cfg : Cfg) (hfix : cfg.fixSelect = true) (cs : List Choice) : InvX (run cfg cs) :=
  (foldl_invABX cfg hfix cs _ invA_init invB_init invX_init).2.2

end Pandora.Proofs.C05
