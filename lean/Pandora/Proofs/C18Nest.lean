/-
C18 — nested plugins (Model/C18Nest): the composition of the outer creation and the nested registration is consistent.
-/
import Pandora.Proofs.C18Ext
import Pandora.Model.C18Nest

namespace Pandora.Proofs.C18
open Pandora.Model.C18 Pandora.Spec.C18 Pandora.Model.C18Nest

/-- the first k of k + j operations are the k operations -/
theorem iter_take (f : St → St × Step) : ∀ (k j : Nat) (st : St), ((iter f (k + j) st).2).take k = (iter f k st).2 := by
  intro k
  induction k with
  | zero => intro j st; simp [iter]
  | succ k ih =>
    intro j st
    have : k + 1 + j = (k + j) + 1 := by omega
    rw [this]
    simp only [iter, List.take_succ_cons]
    rw [ih]

/-- the steps of `k` creations by `New` -/
theorem run_component_steps (inp : Input) (hf : inp.form = .component) (obs : Obs) (h : run inp = some obs) :
    obs.steps = (iter (step (regNew inp.sh inp.w)) inp.k (initSt inp.sh inp.w)).2 := by
  unfold run runSt at h
  by_cases hr : registerOk inp.sh = true
  · simp only [hr, Bool.not_true, Bool.false_eq_true, if_false, hf, Option.map_some, Option.some.injEq] at h
    rw [← h]
  · simp [hr] at h

theorem run_component_some (inp : Input) (hf : inp.form = .component) (hr : registerOk inp.sh = true) :
    run inp = some ⟨(iter (step (regNew inp.sh inp.w)) inp.k (initSt inp.sh inp.w)).2,
      viewsOf (iter (step (regNew inp.sh inp.w)) inp.k (initSt inp.sh inp.w)).1.heap
        (iter (step (regNew inp.sh inp.w)) inp.k (initSt inp.sh inp.w)).2⟩ := by
  unfold run runSt
  simp [hr, hf]

/-- the nested creations the outer plan looked at ARE the nested creations that happen: the i-th step of the nested
run of `n ≤ b` creations is the i-th step of the run of `b` creations -/
theorem innerSteps_prefix (inner0 : Input) (n b : Nat) (hle : n ≤ b) (io : Obs) (h : run (nestInner inner0 n) = some io) :
    io.steps = (innerSteps inner0 b).take n := by
  have hr : registerOk inner0.sh = true := by
    have := C18reg inner0 n h
    exact this
  have h1 := run_component_steps (nestInner inner0 n) rfl io h
  have h2 := run_component_some (nestInner inner0 b) rfl hr
  obtain ⟨j, rfl⟩ : ∃ j, b = n + j := ⟨b - n, by omega⟩
  simp only [innerSteps, h2, Option.map_some, Option.getD_some]
  rw [h1]
  exact (iter_take _ n j _).symm
where
  C18reg (inner0 : Input) (n : Nat) {io : Obs} (h : run (nestInner inner0 n) = some io) : registerOk inner0.sh = true := by
    unfold run runSt at h
    by_cases hr : registerOk inner0.sh = true
    · exact hr
    · simp [nestInner, hr] at h

/-! ### an operation invokes fillConf at most once, a creation of k calls at most k + 1 times -/

theorem countP_fill_kinds (evs : List Ev) : evs.countP isFillEv = (evs.map kindOf).count K.f := by
  induction evs with
  | nil => rfl
  | cons e evs ih =>
    cases e <;> simp [List.countP_cons, isFillEv, kindOf, ih]

theorem getKinds_fill (sh : Shape) (w : World) : (getKinds sh w).count K.f ≤ 1 := by
  unfold getKinds
  split <;> split <;> simp

theorem callKinds_fill (ff : Step → Bool) (inp : Input) (s : Step) : (callKindsBy ff inp s).count K.f ≤ 1 := by
  unfold callKindsBy
  have := getKinds_fill inp.sh inp.w
  split
  · split
    · simpa using this
    · split <;> simp [List.count_append] <;> omega
  · split <;> simp

theorem createKinds_fill (ff : Step → Bool) (inp : Input) (s : Step) : (createKindsBy ff inp s).count K.f ≤ 1 := by
  unfold createKindsBy
  have := getKinds_fill inp.sh inp.w
  split
  · split
    · simpa using this
    · simp [List.count_append]; omega
  · split <;> simp

theorem sum_le_length {α : Type} (f : α → Nat) (l : List α) (h : ∀ a ∈ l, f a ≤ 1) : (l.map f).sum ≤ l.length := by
  induction l with
  | nil => simp
  | cons a l ih =>
    simp only [List.map_cons, List.sum_cons, List.length_cons]
    have h1 := h a (by simp)
    have h2 := ih (fun b hb => h b (by simp [hb]))
    omega

/-- every step of an observation that satisfies `structOk` invokes fillConf at most once -/
theorem struct_fill_le_one (inp : Input) (obs : Obs) (h : structOk inp obs = true) :
    ∀ s ∈ obs.steps, s.evs.countP isFillEv ≤ 1 := by
  simp only [structOk, structOkBy, Bool.and_eq_true, Bool.or_eq_true, beq_iff_eq, List.all_eq_true] at h
  obtain ⟨⟨h1, h2⟩, _⟩ := h
  intro s hs
  rw [countP_fill_kinds]
  by_cases hf : inp.form = .component
  · have := h2 s (by simpa [callsOf, hf] using hs)
    rw [this]; exact callKinds_fill _ _ _
  · rcases h1 with h1 | h1
    · exact absurd h1 hf
    · cases hst : obs.steps with
      | nil => rw [hst] at hs; simp at hs
      | cons c calls =>
        rw [hst] at hs h1
        simp only [List.head?_cons, beq_iff_eq] at h1
        simp only [List.mem_cons] at hs
        rcases hs with rfl | hs
        · rw [h1]; exact createKinds_fill _ _ _
        · have hcalls : callsOf inp obs = calls := by
            cases hform : inp.form with
            | component => exact absurd hform hf
            | facNoErr => simp [callsOf, hform, hst]
            | facErr => simp [callsOf, hform, hst]
          have := h2 s (by rw [hcalls]; exact hs)
          rw [this]; exact callKinds_fill _ _ _

/-- an observation that satisfies `errorsOk` has at most k + 1 steps -/
theorem errors_length (inp : Input) (obs : Obs) (h : errorsOk inp obs = true) : obs.steps.length ≤ inp.k + 1 := by
  unfold errorsOk at h
  cases hf : inp.form with
  | component =>
    simp only [hf, Bool.and_eq_true, beq_iff_eq] at h
    omega
  | facNoErr =>
    simp only [hf] at h
    cases hst : obs.steps with
    | nil => simp
    | cons c calls =>
      rw [hst] at h
      simp only [Bool.and_eq_true] at h
      obtain ⟨⟨_, h3⟩, _⟩ := h
      by_cases hm : isMade c = true
      · simp only [hm, if_true, beq_iff_eq] at h3; simp [h3]
      · simp only [hm, Bool.false_eq_true, if_false, List.isEmpty_iff] at h3; simp [h3]
  | facErr =>
    simp only [hf] at h
    cases hst : obs.steps with
    | nil => simp
    | cons c calls =>
      rw [hst] at h
      simp only [Bool.and_eq_true] at h
      obtain ⟨⟨_, h3⟩, _⟩ := h
      by_cases hm : isMade c = true
      · simp only [hm, if_true, beq_iff_eq] at h3; simp [h3]
      · simp only [hm, Bool.false_eq_true, if_false, List.isEmpty_iff] at h3; simp [h3]

end Pandora.Proofs.C18
