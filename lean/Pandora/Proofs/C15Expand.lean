/-
C15 helper lemmas: the Go expansion loop (left fold with `Requests[len-1].Sleep +=`) computes the meaning of the
request list given by `Spec.C15.specSteps` (right-to-left, pending pauses).
-/
import Pandora.Model.C15
import Pandora.Spec.C15

namespace Pandora.Proofs.C15
open Pandora.Model.C15 Pandora.Spec.C15

def proj {ρ} (s : Step ρ) : PStep := (s.name, s.sleep)

/-- add a pending pause to the last step; with no step, only a zero pause is meaningful -/
def bumpP (l : List PStep) (p : Int) : Option (List PStep) :=
  match l.getLast? with
  | none => if p == 0 then some [] else none
  | some (n, s) => some (l.dropLast ++ [(n, s + p)])

theorem expandItems_append {ρ} (reqs : List Char → Option ρ) (xs : List Item) (it : Item) (acc : List (Step ρ)) :
    expandItems reqs (xs ++ [it]) acc =
      match expandItems reqs xs acc with
      | .ok a => expandItem reqs a it
      | .err e => .err e
      | .panic p => .panic p := by
  induction xs generalizing acc with
  | nil =>
    simp only [List.nil_append, expandItems]
    cases expandItem reqs acc it <;> rfl
  | cons x xs ih =>
    simp only [List.cons_append, expandItems]
    cases expandItem reqs acc x with
    | ok a => exact ih a
    | err e => rfl
    | panic p => rfl

theorem expandItems_snoc_ok {ρ} {reqs : List Char → Option ρ} {xs : List Item} {it : Item} {acc steps : List (Step ρ)}
    (h : expandItems reqs (xs ++ [it]) acc = .ok steps) :
    ∃ s0, expandItems reqs xs acc = .ok s0 ∧ expandItem reqs s0 it = .ok steps := by
  rw [expandItems_append] at h
  cases h0 : expandItems reqs xs acc with
  | err e => rw [h0] at h; cases h
  | panic e => rw [h0] at h; cases h
  | ok s0 => rw [h0] at h; exact ⟨s0, rfl, h⟩

theorem split_last {α} {l : List α} {a : α} (h : l.getLast? = some a) : l = l.dropLast ++ [a] := by
  obtain ⟨ys, rfl⟩ := List.getLast?_eq_some_iff.mp h
  rw [List.dropLast_concat]

theorem bumpP_zero (l : List PStep) : bumpP l 0 = some l := by
  unfold bumpP
  cases h : l.getLast? with
  | none => simp [List.getLast?_eq_none_iff.mp h]
  | some ns =>
    obtain ⟨n, s⟩ := ns
    simp only [Int.add_zero]
    rw [← split_last h]

theorem proj_replicate {ρ} (k : Nat) (s : Step ρ) : (List.replicate k s).map proj = List.replicate k (proj s) := by
  simp

/-- main invariant, by induction on the reversed item list -/
theorem specStepsRev_of_expand {ρ} (reqs : List Char → Option ρ) :
    ∀ (rs : List Item) (steps : List (Step ρ)) (p : Int),
      expandItems reqs rs.reverse [] = .ok steps → specStepsRev rs p = bumpP (steps.map proj) p
  | [], steps, p, h => by
    simp only [List.reverse_nil, expandItems] at h
    cases h
    simp [specStepsRev, bumpP]
  | it :: left, steps, p, h => by
    rw [List.reverse_cons] at h
    obtain ⟨steps0, h0, h⟩ := expandItems_snoc_ok h
    · have ih := specStepsRev_of_expand reqs left steps0
      unfold specStepsRev
      unfold expandItem at h
      by_cases hs : it.name == sleepName
      · -- a pause: added to the last step so far
        rw [if_pos hs] at h ⊢
        unfold bumpLast at h
        cases hl : steps0.getLast? with
        | none => rw [hl] at h; cases h
        | some l =>
          rw [hl] at h
          cases h
          rw [ih (p + it.cnt) h0]
          have hsplit := split_last hl
          unfold bumpP
          have e1 : (steps0.map proj).getLast? = some (l.name, l.sleep) := by
            rw [hsplit]; simp [proj]
          have e2 : ((steps0.dropLast ++ [{ l with sleep := l.sleep + it.cnt }]).map proj).getLast?
              = some (l.name, l.sleep + it.cnt) := by simp [proj]
          rw [e1, e2]
          simp only [Option.some.injEq]
          have e3 : (steps0.map proj).dropLast = steps0.dropLast.map proj := by
            conv => lhs; rw [hsplit]
            simp
          have e4 : ((steps0.dropLast ++ [{ l with sleep := l.sleep + it.cnt }]).map proj).dropLast
              = steps0.dropLast.map proj := by simp
          rw [e3, e4]
          congr 3
          omega
      · rw [if_neg hs] at h ⊢
        cases hr : reqs it.name with
        | none => rw [hr] at h; cases h
        | some r =>
          rw [hr] at h
          dsimp only at h
          split at h
          · cases h
          cases h
          by_cases hc : it.cnt ≤ 0
          · rw [if_pos hc, ih p h0]
            have : it.cnt.toNat = 0 := by omega
            simp [this]
          · rw [if_neg hc, ih 0 h0, bumpP_zero]
            have hk : it.cnt.toNat = (it.cnt.toNat - 1) + 1 := by omega
            simp only
            unfold bumpP
            generalize hsl : (if it.sleep > 0 then it.sleep else 0) = sl
            have e1 : ((steps0 ++ List.replicate it.cnt.toNat
                ({ name := it.name, req := r, sleep := sl } : Step ρ)).map proj).getLast? = some (it.name, sl) := by
              rw [hk, List.replicate_succ', ← List.append_assoc]
              simp [proj]
            rw [e1]
            simp only [Option.some.injEq]
            rw [hk, List.replicate_succ', ← List.append_assoc, List.map_append, List.map_append]
            simp [proj]

theorem specSteps_of_expand {ρ} (reqs : List Char → Option ρ) (items : List Item) (steps : List (Step ρ))
    (h : expandItems reqs items [] = .ok steps) : specSteps items = some (steps.map proj) := by
  unfold specSteps
  rw [specStepsRev_of_expand reqs items.reverse steps 0 (by simpa using h), bumpP_zero]

/-- order and multiplicity alone -/
theorem names_of_expand {ρ} (reqs : List Char → Option ρ) :
    ∀ (rs : List Item) (steps : List (Step ρ)),
      expandItems reqs rs.reverse [] = .ok steps → steps.map (·.name) = specNames rs.reverse
  | [], steps, h => by
    simp only [List.reverse_nil, expandItems] at h
    cases h; rfl
  | it :: left, steps, h => by
    rw [List.reverse_cons] at h
    obtain ⟨steps0, h0, h⟩ := expandItems_snoc_ok h
    · have ih := names_of_expand reqs left steps0 h0
      unfold expandItem at h
      rw [List.reverse_cons]
      unfold specNames
      rw [List.flatMap_append]
      by_cases hs : it.name == sleepName
      · rw [if_pos hs] at h
        unfold bumpLast at h
        cases hl : steps0.getLast? with
        | none => rw [hl] at h; cases h
        | some l =>
          rw [hl] at h
          cases h
          have hsplit := split_last hl
          simp only [List.flatMap_cons, List.flatMap_nil, hs, if_true, List.append_nil]
          show _ = specNames left.reverse
          rw [← ih]
          conv => rhs; rw [hsplit]
          simp
      · rw [if_neg hs] at h
        cases hr : reqs it.name with
        | none => rw [hr] at h; cases h
        | some r =>
          rw [hr] at h
          dsimp only at h
          split at h
          · cases h
          cases h
          simp only [List.flatMap_cons, List.flatMap_nil, hs, List.append_nil]
          show _ = specNames left.reverse ++ _
          rw [← ih]
          simp

/-! ### parsing interleaved with expansion; the exact domain of success -/

/-- `ParseShootName` on every item -/
def parseAll : List (List Char) → Option (List Item)
  | [] => some []
  | sh :: rest =>
    match parseShootName sh, parseAll rest with
    | .ok it, some its => some (it :: its)
    | _, _ => none

theorem expand_of_parse {ρ} (reqs : List Char → Option ρ) :
    ∀ (shoots : List (List Char)) (items : List Item) (acc : List (Step ρ)),
      parseAll shoots = some items → expand reqs shoots acc = expandItems reqs items acc
  | [], items, acc, h => by
    simp only [parseAll] at h; cases h; rfl
  | sh :: rest, items, acc, h => by
    simp only [parseAll] at h
    split at h
    · rename_i it its hp hr
      cases h
      simp only [expand, hp, expandItems]
      cases expandItem reqs acc it with
      | ok acc' => exact expand_of_parse reqs rest its acc' hr
      | err e => rfl
      | panic p => rfl
    · cases h

theorem parse_of_expand {ρ} (reqs : List Char → Option ρ) :
    ∀ (shoots : List (List Char)) (acc steps : List (Step ρ)),
      expand reqs shoots acc = .ok steps → ∃ items, parseAll shoots = some items
  | [], _, _, _ => ⟨[], rfl⟩
  | sh :: rest, acc, steps, h => by
    simp only [expand] at h
    split at h
    · cases h
    · rename_i it hp
      split at h
      · rename_i acc' _
        obtain ⟨its, hits⟩ := parse_of_expand reqs rest acc' steps h
        exact ⟨it :: its, by simp [parseAll, hp, hits]⟩
      · cases h
      · cases h

/-- the descriptions the decoder accepts: every request name is known, every `sleep` item has an executed step
before it, and no item lets the scenario grow beyond `MaxScenarioRequests` steps (`n` = number of steps produced so far) -/
def domOK {ρ} (reqs : List Char → Option ρ) : List Item → Nat → Bool
  | [], _ => true
  | it :: rest, n =>
    if it.name == sleepName then decide (0 < n) && domOK reqs rest n
    else (reqs it.name).isSome && decide (it.cnt ≤ maxScenarioRequests - (n : Int)) &&
      domOK reqs rest (n + it.cnt.toNat)

theorem bumpLast_none {ρ} (acc : List (Step ρ)) (ms : Int) : bumpLast acc ms = none ↔ acc = [] := by
  unfold bumpLast
  cases h : acc.getLast? with
  | none => simp [List.getLast?_eq_none_iff.mp h]
  | some l =>
    simp only [reduceCtorEq, false_iff]
    intro e; subst e; simp at h

theorem bumpLast_nonempty {ρ} (acc acc' : List (Step ρ)) (ms : Int) (h : bumpLast acc ms = some acc') : acc' ≠ [] := by
  unfold bumpLast at h
  cases hl : acc.getLast? with
  | none => rw [hl] at h; cases h
  | some l => rw [hl] at h; cases h; simp

theorem bumpLast_length {ρ} (acc acc' : List (Step ρ)) (ms : Int) (h : bumpLast acc ms = some acc') :
    acc'.length = acc.length := by
  unfold bumpLast at h
  cases hl : acc.getLast? with
  | none => rw [hl] at h; cases h
  | some l =>
    rw [hl] at h; cases h
    have hne : acc ≠ [] := fun e => by subst e; simp at hl
    have := List.length_pos_iff.mpr hne
    simp [List.length_dropLast]
    omega

/-- the decoder succeeds exactly on the descriptions of `domOK` -/
theorem expandItems_ok_iff {ρ} (reqs : List Char → Option ρ) :
    ∀ (items : List Item) (acc : List (Step ρ)),
      (∃ steps, expandItems reqs items acc = .ok steps) ↔ domOK reqs items acc.length = true
  | [], acc => by simp [expandItems, domOK]
  | it :: rest, acc => by
    simp only [expandItems, domOK, expandItem]
    by_cases hs : it.name == sleepName
    · simp only [hs, if_true]
      cases hb : bumpLast acc it.cnt with
      | none =>
        have : acc = [] := (bumpLast_none acc it.cnt).mp hb
        subst this
        simp
      | some acc' =>
        have hne : acc ≠ [] := fun e => by
          have := (bumpLast_none acc it.cnt).mpr e; rw [hb] at this; cases this
        have hpos : 0 < acc.length := List.length_pos_iff.mpr hne
        have ih := expandItems_ok_iff reqs rest acc'
        rw [bumpLast_length acc acc' it.cnt hb] at ih
        simp only [hpos, decide_true, Bool.true_and]
        exact ih
    · simp only [hs, Bool.false_eq_true, if_false]
      cases hr : reqs it.name with
      | none => simp
      | some r =>
        simp only [Option.isSome_some, Bool.true_and]
        by_cases hc : it.cnt > maxScenarioRequests - (acc.length : Int)
        · have hn : ¬ (it.cnt ≤ maxScenarioRequests - (acc.length : Int)) := by omega
          simp [hc, hn]
        · have hn : it.cnt ≤ maxScenarioRequests - (acc.length : Int) := by omega
          simp only [hc, if_false, hn, decide_true, Bool.true_and]
          have ih := expandItems_ok_iff reqs rest
            (acc ++ List.replicate it.cnt.toNat { name := it.name, req := r, sleep := if it.sleep > 0 then it.sleep else 0 })
          simp only [List.length_append, List.length_replicate] at ih
          exact ih

/-- the length of an accepted step list never exceeds `MaxScenarioRequests` -/
theorem expandItems_length {ρ} (reqs : List Char → Option ρ) :
    ∀ (items : List Item) (acc steps : List (Step ρ)), (acc.length : Int) ≤ maxScenarioRequests →
      expandItems reqs items acc = .ok steps → (steps.length : Int) ≤ maxScenarioRequests
  | [], acc, steps, hacc, h => by
    simp only [expandItems] at h; cases h; exact hacc
  | it :: rest, acc, steps, hacc, h => by
    simp only [expandItems] at h
    split at h
    · rename_i acc' he
      refine expandItems_length reqs rest acc' steps ?_ h
      unfold expandItem at he
      split at he
      · cases hb : bumpLast acc it.cnt with
        | none => rw [hb] at he; cases he
        | some a =>
          rw [hb] at he; cases he
          rw [bumpLast_length acc _ it.cnt hb]; exact hacc
      · split at he
        · cases he
        · dsimp only at he
          split at he
          · cases he
          · cases he
            simp only [List.length_append, List.length_replicate]
            omega
    · cases h
    · cases h

/-- every expanded step carries the request definition registered under its name -/
theorem expandItems_req {ρ} (reqs : List Char → Option ρ) :
    ∀ (items : List Item) (acc steps : List (Step ρ)), (∀ st ∈ acc, reqs st.name = some st.req) →
      expandItems reqs items acc = .ok steps → ∀ st ∈ steps, reqs st.name = some st.req
  | [], acc, steps, hacc, h => by
    simp only [expandItems] at h; cases h; exact hacc
  | it :: rest, acc, steps, hacc, h => by
    simp only [expandItems] at h
    split at h
    · rename_i acc' he
      refine expandItems_req reqs rest acc' steps ?_ h
      unfold expandItem at he
      split at he
      · unfold bumpLast at he
        cases hl : acc.getLast? with
        | none => rw [hl] at he; cases he
        | some l =>
          rw [hl] at he
          cases he
          intro st hst
          rcases List.mem_append.mp hst with e | e
          · exact hacc st (List.dropLast_subset acc e)
          · simp only [List.mem_singleton] at e
            subst e
            exact hacc l (List.mem_of_getLast? hl)
      · split at he
        · cases he
        · rename_i r hr
          dsimp only at he
          split at he
          · cases he
          cases he
          intro st hst
          rcases List.mem_append.mp hst with e | e
          · exact hacc st e
          · have := (List.mem_replicate.mp e).2
            subst this
            exact hr
    · cases h
    · cases h

end Pandora.Proofs.C15
