/-
C08 (round 3): what Go's `select` adds to the possibilistic model after a cancel.

`C08_conc_cancel_stops_counterexample`: without fairness grpc/json and the generic JSON provider (no ctx check at the
loop top) may send `k` more ammo after a cancel for every `k` — the scheduler keeps taking the send case.  The Go
specification resolves a `select` with several ready cases by a uniform pseudo-random choice.  Here that choice is a
coin per select: `coinRun` drives `Run` alone after a cancel against a consumer that is always ready (the worst case:
the send case is always ready too), taking the send case on `true` and the Done case on `false`.  Among the `2^k`
equally likely outcomes of the first `k` coins at most `2^(k-j)` let `Run` send `j` more ammo (`heads_count`,
`coinRun_sent`): the probability of `j` further sends is at most `2^-j`, whatever the provider kind and the state it is
cancelled in, and the first `false` ends `Run`.  Core Lean only.
-/
import Pandora.Model.C08Mach

namespace Pandora.Proofs.C08
open Pandora.Model.C08

/-- `Run` on its own after a cancel, one consumer always ready; a coin decides every select that has a ready send -/
def coinRun (inp : Input) (n cap : Nat) : Nat → List Bool → Sys → Sys
  | 0, _, s => s
  | fuel + 1, coins, s =>
    if s.result.isSome then s else
    match s.offering with
    | none => coinRun inp n cap fuel coins ((s.next inp n cap 1 .prod).getD s)
    | some _ =>
      match coins with
      | [] => s
      | true :: cs =>
        coinRun inp n cap fuel cs ((s.next inp n cap 1 (.hand 0)).getD ((s.next inp n cap 1 .push).getD s))
      | false :: cs => coinRun inp n cap fuel cs ((s.next inp n cap 1 .done).getD s)

/-- the number of selects that took the send case before the first one that took Done -/
def heads : List Bool → Nat
  | true :: cs => heads cs + 1
  | _ => 0

theorem prod_keeps (inp : Input) (n cap cons : Nat) (s s' : Sys) (h : s.next inp n cap cons .prod = some s') :
    s'.sent = s.sent ∧ s'.cancelled = s.cancelled := by
  simp only [Sys.next] at h
  split at h
  · cases h
  · split at h <;> cases h <;> exact ⟨rfl, rfl⟩

theorem push_adds (inp : Input) (n cap cons : Nat) (s s' : Sys) (h : s.next inp n cap cons .push = some s') :
    s'.sent = s.sent + 1 ∧ s'.cancelled = s.cancelled := by
  simp only [Sys.next] at h
  split at h
  · split at h
    · cases h; refine ⟨?_, rfl⟩; simp [Sys.sent]; omega
    · cases h
  · cases h

theorem hand_adds (inp : Input) (n cap cons c : Nat) (s s' : Sys) (h : s.next inp n cap cons (.hand c) = some s') :
    s'.sent = s.sent + 1 ∧ s'.cancelled = s.cancelled := by
  simp only [Sys.next] at h
  split at h
  · split at h
    · cases h; refine ⟨?_, rfl⟩; simp [Sys.sent]; omega
    · cases h
  · cases h

/-- with the context cancelled the Done case of a select in progress is ready, and taking it ends `Run` -/
theorem done_ends (inp : Input) (n cap cons : Nat) (s : Sys) (hr : s.result.isSome = false) (ho : s.offering.isSome = true)
    (hc : s.cancelled = true) :
    ∃ s', s.next inp n cap cons .done = some s' ∧ s'.result.isSome = true ∧ s'.sent = s.sent := by
  have hr' : s.result.isNone = true := by cases h : s.result <;> simp_all
  exact ⟨{ s with offering := none, result := some (doneResOf inp.kind), closed := true },
    by simp only [Sys.next, hr', ho, hc, and_self, if_true], rfl, rfl⟩

theorem coinRun_of_result (inp : Input) (n cap : Nat) (fuel : Nat) (coins : List Bool) (s : Sys)
    (h : s.result.isSome = true) : coinRun inp n cap fuel coins s = s := by
  cases fuel with
  | zero => rfl
  | succ f => simp [coinRun, h]

/-- every further send costs a coin that came up `true`, and there is none after the first `false` -/
theorem coinRun_sent (inp : Input) (n cap : Nat) (fuel : Nat) : ∀ (coins : List Bool) (s : Sys), s.cancelled = true →
    (coinRun inp n cap fuel coins s).sent ≤ s.sent + heads coins := by
  induction fuel with
  | zero => intro coins s _; simp [coinRun]
  | succ fuel ih =>
    intro coins s hc
    unfold coinRun
    by_cases hr : s.result.isSome = true
    · simp [hr]
    · have hr' : s.result.isSome = false := by simpa using hr
      simp only [hr', Bool.false_eq_true, if_false]
      cases ho : s.offering with
      | none =>
        simp only
        cases hp : s.next inp n cap 1 .prod with
        | none => simpa using ih coins s hc
        | some s' =>
          obtain ⟨h1, h2⟩ := prod_keeps inp n cap 1 s s' hp
          have := ih coins s' (by rw [h2, hc])
          simp only [Option.getD_some]; omega
      | some o =>
        simp only
        cases coins with
        | nil => simp
        | cons b cs =>
          cases b with
          | true =>
            simp only [heads]
            have key : ∀ s1 : Sys, s1.cancelled = true → s1.sent ≤ s.sent + 1 →
                (coinRun inp n cap fuel cs s1).sent ≤ s.sent + (heads cs + 1) := by
              intro s1 hc1 hs1
              have := ih cs s1 hc1
              omega
            cases hh : s.next inp n cap 1 (.hand 0) with
            | some s1 =>
              obtain ⟨h1, h2⟩ := hand_adds inp n cap 1 0 s s1 hh
              simp only [Option.getD_some]
              exact key s1 (by rw [h2, hc]) (by omega)
            | none =>
              simp only [Option.getD_none]
              cases hpu : s.next inp n cap 1 .push with
              | some s1 =>
                obtain ⟨h1, h2⟩ := push_adds inp n cap 1 s s1 hpu
                simp only [Option.getD_some]
                exact key s1 (by rw [h2, hc]) (by omega)
              | none =>
                simp only [Option.getD_none]
                exact key s hc (by omega)
          | false =>
            obtain ⟨s', h1, h2, h3⟩ := done_ends inp n cap 1 s hr' (by simp [ho]) hc
            simp only [h1, Option.getD_some, heads]
            rw [coinRun_of_result inp n cap fuel cs s' h2]
            omega

/-- the first coin that comes up `false` while a select is in progress ends `Run` -/
theorem coinRun_tail (inp : Input) (n cap : Nat) (fuel : Nat) (cs : List Bool) (s : Sys)
    (hr : s.result.isSome = false) (ho : s.offering.isSome = true) (hc : s.cancelled = true) :
    (coinRun inp n cap (fuel + 1) (false :: cs) s).result.isSome = true := by
  obtain ⟨s', h1, h2, _⟩ := done_ends inp n cap 1 s hr ho hc
  unfold coinRun
  simp only [hr, Bool.false_eq_true, if_false]
  cases ho' : s.offering with
  | none => simp [ho'] at ho
  | some o =>
    simp only [h1, Option.getD_some]
    rw [coinRun_of_result inp n cap fuel cs s' h2]
    exact h2

/-- all outcomes of `k` coins -/
def allCoins : Nat → List (List Bool)
  | 0 => [[]]
  | k + 1 => (allCoins k).map (true :: ·) ++ (allCoins k).map (false :: ·)

theorem allCoins_length (k : Nat) : (allCoins k).length = 2 ^ k := by
  induction k with
  | zero => rfl
  | succ k ih => simp [allCoins, ih, Nat.pow_succ]; omega

theorem filter_length_map {α β : Type} (f : α → β) (p : β → Bool) (l : List α) :
    ((l.map f).filter p).length = (l.filter (fun a => p (f a))).length := by
  induction l with
  | nil => rfl
  | cons a l ih =>
    simp only [List.map_cons, List.filter_cons]
    by_cases h : p (f a) = true <;> simp [h, ih]

theorem filter_length_mono {α : Type} (p q : α → Bool) (l : List α) (h : ∀ a, p a = true → q a = true) :
    (l.filter p).length ≤ (l.filter q).length := by
  induction l with
  | nil => simp
  | cons a l ih =>
    simp only [List.filter_cons]
    by_cases hp : p a = true
    · simp [hp, h a hp]; omega
    · by_cases hq : q a = true <;> simp [hp, hq] <;> omega

theorem filter_length_false {α : Type} (p : α → Bool) (l : List α) (h : ∀ a, p a = false) : (l.filter p).length = 0 := by
  induction l with
  | nil => rfl
  | cons a l ih => simp [h a, ih]

theorem filter_length_true {α : Type} (p : α → Bool) (l : List α) (h : ∀ a, p a = true) : (l.filter p).length = l.length := by
  induction l with
  | nil => rfl
  | cons a l ih => simp [h a, ih]

/-- exactly `2^(k-j)` of the `2^k` outcomes of `k` coins start with `j` times `true` -/
theorem heads_count (k : Nat) : ∀ j, j ≤ k → ((allCoins k).filter (fun cs => decide (j ≤ heads cs))).length = 2 ^ (k - j) := by
  induction k with
  | zero =>
    intro j hj
    have : j = 0 := by omega
    subst this
    simp [allCoins]
  | succ k ih =>
    intro j hj
    cases j with
    | zero =>
      rw [filter_length_true _ _ (by intro a; simp), allCoins_length]
      simp
    | succ j =>
      simp only [allCoins, List.filter_append, List.length_append, filter_length_map]
      have h1 : ((allCoins k).filter (fun a => decide (j + 1 ≤ heads (true :: a)))).length = 2 ^ (k - j) := by
        have : (fun a : List Bool => decide (j + 1 ≤ heads (true :: a))) = (fun a => decide (j ≤ heads a)) := by
          funext a; simp [heads]
        rw [this]; exact ih j (by omega)
      have h2 : ((allCoins k).filter (fun a => decide (j + 1 ≤ heads (false :: a)))).length = 0 :=
        filter_length_false _ _ (by intro a; simp [heads])
      rw [h1, h2]
      have : k + 1 - (j + 1) = k - j := by omega
      rw [this]; omega

end Pandora.Proofs.C08
