/-
C08 / C14: from the loop analyses to `Provider.Run` of every kind, with the fuel that `Model.C08.run` uses.
-/
import Pandora.Proofs.C08Loops

namespace Pandora.Proofs.C08
open Pandora.Model.C08

variable {α : Type}

theorem filter_const_true (l : List α) : l.filter (fun _ => true) = l := by
  induction l with
  | nil => rfl
  | cons x xs ih => simp

theorem minPlus_cases (a b : Nat) :
    (a = 0 ∧ minPlus a b = b) ∨ (a ≠ 0 ∧ b = 0 ∧ minPlus a b = a) ∨ (a ≠ 0 ∧ b ≠ 0 ∧ minPlus a b = min a b) := by
  unfold minPlus
  by_cases ha : a = 0
  · left; simp [ha]
  · by_cases hb : b = 0
    · right; left; simp [ha, hb]
    · right; right; simp [ha, hb]

/-- `Model.C08.target` is the stopping count the loop analyses talk about -/
theorem tgt_of_target (limit passes f : Nat) (cancelAt : Option Nat) (T : Nat) (hf : 0 < f)
    (h : target limit passes f cancelAt = some T) : Tgt limit passes f cancelAt T := by
  have hpf : passes * f = 0 ↔ passes = 0 := by
    rw [Nat.mul_eq_zero]; omega
  have hpos : passes ≠ 0 → 0 < passes * f := fun h => Nat.mul_pos (by omega) hf
  unfold target at h
  rcases minPlus_cases limit (passes * f) with ⟨h1, h2⟩ | ⟨h1, h2, h3⟩ | ⟨h1, h2, h3⟩
  all_goals
    cases cancelAt with
    | none =>
      simp only at h
      split at h
      · simp at h
      · simp only [Option.some.injEq] at h
        refine ⟨?_, ?_, ?_, ?_⟩
        · intro; omega
        · intro hp; have := hpos hp; omega
        · intro c hc; simp at hc
        · by_cases hp : passes = 0
          · left; have := hpf.mpr hp; omega
          · have := hpos hp
            by_cases hl : limit = 0
            · right; left; exact ⟨hp, by omega⟩
            · by_cases hm : limit ≤ passes * f
              · left; exact ⟨hl, by omega⟩
              · right; left; exact ⟨hp, by omega⟩
    | some c =>
      simp only at h
      split at h
      · simp only [Option.some.injEq] at h
        rename_i h0
        refine ⟨?_, ?_, ?_, ?_⟩
        · intro; omega
        · intro; omega
        · intro c' hc; simp at hc; omega
        · right; right; rw [h]
      · simp only [Option.some.injEq] at h
        refine ⟨?_, ?_, ?_, ?_⟩
        · intro; omega
        · intro hp; have := hpos hp; omega
        · intro c' hc; simp at hc; omega
        · by_cases hcT : c = T
          · right; right; rw [hcT]
          · by_cases hp : passes = 0
            · left; have := hpf.mpr hp; omega
            · have := hpos hp
              by_cases hl : limit = 0
              · right; left; exact ⟨hp, by omega⟩
              · by_cases hm : limit ≤ passes * f
                · left; exact ⟨hl, by omega⟩
                · right; left; exact ⟨hp, by omega⟩

theorem target_cancel (l p n m c : Nat) (h : target l p n none = some m) :
    target l p n (some c) = some (min c m) := by
  unfold target at h ⊢
  by_cases h0 : l = 0 ∧ p = 0
  · simp [h0] at h
  · simp only [h0, if_false, Option.some.injEq] at h ⊢
    rw [h]

theorem fuel_ge_T (T n f : Nat) (hf : 0 < f) (hfn : f ≤ n) : T + 1 ≤ fuelFor T n f := by
  unfold fuelFor
  have h1 : T < f * (T / f + 1) := Nat.lt_mul_div_succ T hf
  have h2 : f * (T / f + 1) ≤ (n + 1) * (T / f + 1) := Nat.mul_le_mul_right _ (by omega)
  rw [Nat.mul_comm (n + 1)] at h2
  omega

theorem fuel_ge_n (T n f : Nat) : n + 1 ≤ fuelFor T n f := by
  unfold fuelFor
  have := succ_mul' (T / f) (n + 1)
  omega

/-- `Provider.Run` of components/providers/http/provider, both paths, over any decoder that is a `Src` -/
theorem httpRun_spec {σ : Type} (scan : Bounds → σ → ScanRes × σ) (init : σ) (R : Nat → Nat → σ → Prop)
    (file : List α) (chosen : α → Bool) (preload : Bool) (b : Bounds) (cancelAt : Option Nat) (T : Nat)
    (hn : 0 < file.length) (hf : 0 < (file.filter chosen).length)
    (src1 : Src (scan ⟨0, 1⟩) file.length 1 R) (srcP : Src (scan ⟨0, b.passes⟩) file.length b.passes R)
    (hinit : R 0 0 init) (tg : Tgt b.limit b.passes (file.filter chosen).length cancelAt T) :
    httpRun scan init file chosen preload b cancelAt (fuelFor T file.length (file.filter chosen).length)
      = some ⟨cycTake (file.filter chosen) T, endRes cancelAt T, true⟩ := by
  have hfn : (file.filter chosen).length ≤ file.length := List.length_filter_le _ _
  unfold httpRun
  cases preload with
  | true =>
    simp only [if_true]
    have hl := loadAmmo_spec scan R file src1 (fuelFor T file.length (file.filter chosen).length) 0 init hinit
      (by omega) (by have := fuel_ge_n T file.length (file.filter chosen).length; omega)
    rw [List.take_zero] at hl
    rw [hl]
    simp only
    rw [runPreloaded_spec (file.filter chosen) b cancelAt T hf tg _ (fuel_ge_T T _ _ hf hfn)]
    simp only [mapSentinel_preRes]
  | false =>
    simp only [Bool.false_eq_true, if_false]
    have := fullScan_spec (scan ⟨0, b.passes⟩) R file chosen b.limit b.passes cancelAt T hn hf srcP tg
      (fuelFor T file.length (file.filter chosen).length) (T / (file.filter chosen).length) 0 0 init []
      hinit (by omega) (by omega) (by simp [sel]) (by simp) (by omega) (by unfold fuelFor; omega)
    rw [this]

theorem scenarioRun_spec (file : List α) (b : Bounds) (cancelAt : Option Nat) (T : Nat) (hn : 0 < file.length)
    (tg : Tgt b.limit b.passes file.length cancelAt T) :
    scenarioRun file b cancelAt (fuelFor T file.length file.length) = some ⟨cycTake file T, endRes cancelAt T, true⟩ := by
  unfold scenarioRun
  rw [runPreloaded_spec file b cancelAt T hn tg _ (fuel_ge_T T _ _ hn (Nat.le_refl _))]
  simp only [mapSentinel_preRes]

theorem grpcRun_spec (file : List α) (b : Bounds) (cancelAt : Option Nat) (T : Nat) (hn : 0 < file.length)
    (tg : Tgt b.limit b.passes file.length cancelAt T) :
    grpcRun file (fun _ => true) b cancelAt (fuelFor T file.length file.length) = some ⟨cycTake file T, .nil, true⟩ := by
  unfold grpcRun
  have := grpcLoop_spec file b cancelAt T hn tg (fuelFor T file.length file.length) (T / file.length) 0 0
    (by omega) (by omega) (by simp [cyc2]) (by omega) (by unfold fuelFor; omega)
  simp only [cyc2, rep_zero, List.take_zero, List.append_nil, List.length_nil] at this
  simp only [GrpcSt.init]
  rw [this]

theorem genericRun_spec (file : List α) (b : Bounds) (cancelAt : Option Nat) (T : Nat) (hn : 0 < file.length)
    (tg : Tgt b.limit b.passes file.length cancelAt T) :
    genericRun file b cancelAt (fuelFor T file.length file.length) = some ⟨cycTake file T, .nil, true⟩ := by
  unfold genericRun
  have := decodeLoop_spec file b cancelAt T hn tg (fuelFor T file.length file.length) 0 0
    (by omega) (by omega) (by simp [cyc2]) (by have := fuel_ge_T T _ _ hn (Nat.le_refl file.length); omega)
  simp only [cyc2, rep_zero, List.take_zero, List.append_nil, List.length_nil] at this
  simp only [Mpr.init]
  rw [this]

/-- how `Provider.Run` of a kind ends after `T` deliveries -/
def kindEnd (k : Kind) (cancelAt : Option Nat) (T : Nat) : RunRes :=
  match k with
  | .grpcJson | .genericJson => .nil
  | _ => endRes cancelAt T

/-- every kind: with the fuel of `Model.C08.run` the provider ends, having delivered exactly the first `T`
chosen entries of the endlessly repeated file, with a closed sink. -/
theorem runFuel_spec (inp : Input) (file : List α) (chosen : α → Bool) (T : Nat)
    (hn : 0 < file.length) (hf : 0 < (file.filter chosen).length)
    (hch : inp.kind.isHttp = false → chosen = fun _ => true)
    (tg : Tgt inp.b.limit inp.b.passes (file.filter chosen).length inp.cancelAt T) :
    runFuel inp file chosen (fuelFor T file.length (file.filter chosen).length)
      = some ⟨cycTake (file.filter chosen) T, kindEnd inp.kind inp.cancelAt T, true⟩ := by
  unfold runFuel
  cases hk : inp.kind with
  | uri | uripost | raw =>
    simp only [kindEnd]
    exact httpRun_spec _ _ (RStream file.length) file chosen _ _ _ T hn hf (src_eofCheck _ _ hn) (src_eofCheck _ _ hn)
      (RStream_init _) tg
  | jsonLines =>
    simp only [kindEnd]
    exact httpRun_spec _ _ (RStream file.length) file chosen _ _ _ T hn hf (src_topCheck _ _ hn) (src_topCheck _ _ hn)
      (RStream_init _) tg
  | jsonArray =>
    simp only [kindEnd]
    exact httpRun_spec _ _ (RArr file.length) file chosen _ _ _ T hn hf (src_arr _ _ hn) (src_arr _ _ hn)
      (RArr_init _ hn) tg
  | grpcJson =>
    have hc := hch (by simp [hk, Kind.isHttp])
    subst hc
    simp only [filter_const_true, kindEnd] at tg ⊢
    exact grpcRun_spec file _ _ T hn tg
  | httpScenario | grpcScenario =>
    have hc := hch (by simp [hk, Kind.isHttp])
    subst hc
    simp only [filter_const_true, kindEnd] at tg ⊢
    exact scenarioRun_spec file _ _ T hn tg
  | genericJson =>
    have hc := hch (by simp [hk, Kind.isHttp])
    subst hc
    simp only [filter_const_true, kindEnd] at tg ⊢
    exact genericRun_spec file _ _ T hn tg

end Pandora.Proofs.C08
