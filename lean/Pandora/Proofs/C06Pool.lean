/-
C06 helper lemmas: invariants of the pool's await loop (Model/C06Pool.lean).
-/
import Pandora.Model.C06Pool

namespace Pandora.Proofs.C06Pool
open Pandora.Model.C06Pool
open Pandora.Model.AggQueue (Ev NoReportAfterCancel isReportEv)

def b2n (b : Bool) : Nat := if b then 0 else 1
theorem b2n_true : b2n true = 0 := rfl
theorem b2n_false : b2n false = 1 := rfl
theorem b2n_le (b : Bool) : b2n b ≤ 1 := by cases b <;> decide

structure PInv (st : PSt) : Prop where
  cnt : st.launched = st.running + st.finishedCount
  aw : st.awaitedInstances ≤ st.finishedCount
  startTaken : st.startResOpen = false → st.startedInstances = (st.launched : Int) ∧ st.starting = false
  closed : st.runResOpen = false → st.running = 0 ∧ st.starting = false ∧ st.startResOpen = false
  noSend : st.sendOnClosed = false
  acct : st.toWait + b2n st.provOpen + b2n st.aggOpen + b2n st.startResOpen + b2n st.runResOpen = 4
  aggTaken : st.aggOpen = false → st.aggDone = true
  wd : st.waitDone = true → st.toWait = 0
  sent : st.startSent = true → st.starting = false

theorem pinv_init : PInv (init 4) := by
  refine ⟨rfl, Nat.le_refl _, ?_, ?_, rfl, rfl, ?_, ?_, ?_⟩ <;> simp [init]

/-- `checkAllInstancesAreFinished` keeps the invariant, given that the start result was taken before or now -/
theorem pinv_check {st : PSt} (h : PInv st) (hopen : st.runResOpen = true) : PInv st.check := by
  unfold PSt.check
  by_cases hall : ((!st.startResOpen) && decide ((st.awaitedInstances : Int) ≥ st.startedInstances)) = true
  · simp only [hall, Bool.not_true, Bool.false_eq_true, if_false]
    simp only [Bool.and_eq_true, Bool.not_eq_true', decide_eq_true_eq] at hall
    obtain ⟨hs, hge⟩ := hall
    obtain ⟨hsi, hst⟩ := h.startTaken hs
    have hrun : st.running = 0 := by
      have h1 := h.cnt
      have h2 := h.aw
      rw [hsi] at hge
      omega
    have hacct := h.acct
    rw [hopen, b2n_true] at hacct
    refine ⟨h.cnt, h.aw, h.startTaken, fun _ => ⟨hrun, hst, hs⟩, h.noSend, ?_, h.aggTaken, ?_, h.sent⟩
    · have hp := b2n_le st.provOpen
      have ha := b2n_le st.aggOpen
      have hs' := b2n_le st.startResOpen
      show st.toWait - 1 + b2n st.provOpen + b2n st.aggOpen + b2n st.startResOpen + b2n false = 4
      rw [b2n_false]
      omega
    · intro hw
      have := h.wd hw
      simp [this]
  · simp only [hall, Bool.not_false, if_true]
    exact h

theorem pinv_step {st : PSt} (h : PInv st) (e : PEv) : PInv (step st e) := by
  cases e with
  | launch =>
    simp only [step]; split
    · rename_i hs
      refine ⟨by simp [h.cnt]; omega, h.aw, ?_, ?_, h.noSend, h.acct, h.aggTaken, h.wd, h.sent⟩
      · intro ho; have := (h.startTaken ho).2; rw [hs] at this; cases this
      · intro ho; have := (h.closed ho).2.1; rw [hs] at this; cases this
    · exact h
  | startDone =>
    simp only [step]; split
    · rename_i hs
      refine ⟨h.cnt, h.aw, ?_, ?_, h.noSend, h.acct, h.aggTaken, h.wd, fun _ => rfl⟩
      · intro ho; have := (h.startTaken ho).2; rw [hs] at this; cases this
      · intro ho; have := (h.closed ho).2.1; rw [hs] at this; cases this
    · exact h
  | report i =>
    simp only [step]; split
    · exact ⟨h.cnt, h.aw, h.startTaken, h.closed, h.noSend, h.acct, h.aggTaken, h.wd, h.sent⟩
    · exact h
  | finish =>
    simp only [step]; split
    · rename_i hr
      have hopen : st.runResOpen = true := by
        cases ho : st.runResOpen with
        | true => rfl
        | false => have := (h.closed ho).1; omega
      refine ⟨by have := h.cnt; simp; omega, by have := h.aw; simp; omega, h.startTaken, ?_, ?_, h.acct, h.aggTaken, h.wd, h.sent⟩
      · intro ho; simp at ho; rw [hopen] at ho; cases ho
      · simp [h.noSend, hopen]
    · exact h
  | provReturn => exact ⟨h.cnt, h.aw, h.startTaken, h.closed, h.noSend, h.acct, h.aggTaken, h.wd, h.sent⟩
  | aggReturn =>
    exact ⟨h.cnt, h.aw, h.startTaken, h.closed, h.noSend, h.acct, fun _ => rfl, h.wd, h.sent⟩
  | awaitProv =>
    simp only [step]; split
    · rename_i hc
      obtain ⟨hw, hp, _⟩ := hc
      refine ⟨h.cnt, h.aw, h.startTaken, h.closed, h.noSend, ?_, h.aggTaken, ?_, h.sent⟩
      · have := h.acct; rw [hp, b2n_true] at this
        show st.toWait - 1 + b2n false + b2n st.aggOpen + b2n st.startResOpen + b2n st.runResOpen = 4
        rw [b2n_false]; omega
      · intro hwd; have := h.wd hwd; omega
    · exact h
  | awaitAgg =>
    simp only [step]; split
    · rename_i hc
      obtain ⟨hw, hp, hd⟩ := hc
      refine ⟨h.cnt, h.aw, h.startTaken, h.closed, h.noSend, ?_, fun _ => hd, ?_, h.sent⟩
      · have := h.acct; rw [hp, b2n_true] at this
        show st.toWait - 1 + b2n st.provOpen + b2n false + b2n st.startResOpen + b2n st.runResOpen = 4
        rw [b2n_false]; omega
      · intro hwd; have := h.wd hwd; omega
    · exact h
  | awaitStart =>
    simp only [step]; split
    · rename_i hc
      obtain ⟨hw, hso, hss⟩ := hc
      have hopen : st.runResOpen = true := by
        cases ho : st.runResOpen with
        | true => rfl
        | false => have := (h.closed ho).2.2; rw [hso] at this; cases this
      have hstarting : st.starting = false := h.sent hss
      apply pinv_check
      · refine ⟨h.cnt, h.aw, fun _ => ⟨rfl, hstarting⟩, ?_, h.noSend, ?_, h.aggTaken, ?_, h.sent⟩
        · intro ho; rw [hopen] at ho; cases ho
        · have := h.acct; rw [hso, b2n_true] at this
          show st.toWait - 1 + b2n st.provOpen + b2n st.aggOpen + b2n false + b2n st.runResOpen = 4
          rw [b2n_false]; omega
        · intro hwd; have := h.wd hwd; omega
      · exact hopen
    · exact h
  | awaitInst =>
    simp only [step]; split
    · rename_i hc
      obtain ⟨hw, hro, hlt⟩ := hc
      apply pinv_check
      · exact ⟨h.cnt, by simp; omega, h.startTaken, h.closed, h.noSend, h.acct, h.aggTaken, h.wd, h.sent⟩
      · exact hro
    · exact h
  | extCancel =>
    simp only [step]; split
    · exact h
    · exact ⟨h.cnt, h.aw, h.startTaken, h.closed, h.noSend, h.acct, h.aggTaken, h.wd, h.sent⟩
  | waitDone =>
    simp only [step]; split
    · rename_i hz
      exact ⟨h.cnt, h.aw, h.startTaken, h.closed, h.noSend, h.acct, h.aggTaken, fun _ => hz, h.sent⟩
    · exact h

theorem pinv_run (tr : List PEv) {st : PSt} (h : PInv st) : PInv (run st tr) := by
  induction tr generalizing st with
  | nil => exact h
  | cons e es ih => exact ih (pinv_step h e)

/-- `runRes` is closed only together with the cancel -/
theorem cinv_step {st : PSt} (h : st.runResOpen = false → st.cancelled = true) (e : PEv) :
    (step st e).runResOpen = false → (step st e).cancelled = true := by
  have hcheck : ∀ s : PSt, (s.runResOpen = false → s.cancelled = true) →
      (s.check.runResOpen = false → s.check.cancelled = true) := by
    intro s hs
    unfold PSt.check
    dsimp only
    split
    · exact hs
    · intro _; rfl
  cases e with
  | launch => simp only [step]; split <;> exact h
  | startDone => simp only [step]; split <;> exact h
  | report i => simp only [step]; split <;> exact h
  | finish => simp only [step]; split <;> exact h
  | provReturn => exact h
  | aggReturn => exact h
  | awaitProv => simp only [step]; split <;> exact h
  | awaitAgg => simp only [step]; split <;> exact h
  | awaitStart =>
    simp only [step]; split
    · exact hcheck _ h
    · exact h
  | awaitInst =>
    simp only [step]; split
    · exact hcheck _ h
    · exact h
  | extCancel =>
    simp only [step]; split
    · exact h
    · intro _; rfl
  | waitDone => simp only [step]; split <;> exact h

theorem cinv_run (tr : List PEv) {st : PSt} (h : st.runResOpen = false → st.cancelled = true) :
    (run st tr).runResOpen = false → (run st tr).cancelled = true := by
  induction tr generalizing st with
  | nil => exact h
  | cons e es ih => exact ih (cinv_step h e)

/-! ## what the aggregator sees: completed Report calls and the cancel -/

theorem nrac_nocancel (l r : List Ev) (h : ∀ e ∈ l, e ≠ Ev.cancel) :
    NoReportAfterCancel (l ++ r) ↔ NoReportAfterCancel r := by
  induction l with
  | nil => simp
  | cons e es ih =>
    have he := h e (by simp)
    have ih' := ih (fun x hx => h x (by simp [hx]))
    cases e with
    | cancel => exact absurd rfl he
    | report _ => simpa [NoReportAfterCancel] using ih'
    | recv _ => simpa [NoReportAfterCancel] using ih'
    | tick => simpa [NoReportAfterCancel] using ih'
    | spill _ => simpa [NoReportAfterCancel] using ih'
    | seeCancel => simpa [NoReportAfterCancel] using ih'
    | drain => simpa [NoReportAfterCancel] using ih'

theorem nrac_snoc_cancel (l : List Ev) (h : ∀ e ∈ l, e ≠ Ev.cancel) : NoReportAfterCancel (l ++ [Ev.cancel]) := by
  rw [nrac_nocancel l _ h]; simp [NoReportAfterCancel]

theorem nrac_of_nocancel (l : List Ev) (h : ∀ e ∈ l, e ≠ Ev.cancel) : NoReportAfterCancel l := by
  have := (nrac_nocancel l [] h).mpr (by simp [NoReportAfterCancel])
  simpa using this

/-- invariant about `emitted` along traces WITHOUT an external cancel -/
structure EInv (st : PSt) : Prop where
  before : st.cancelled = false → ∀ e ∈ st.emitted, e ≠ Ev.cancel
  after : st.cancelled = true → st.runResOpen = false ∧ NoReportAfterCancel st.emitted

theorem einv_init : EInv (init 4) := ⟨by simp [init], by simp [init]⟩

theorem einv_check {st : PSt} (h : EInv st) (hopen : st.runResOpen = true) : EInv st.check := by
  unfold PSt.check
  dsimp only
  split
  · exact h
  · have hc : st.cancelled = false := by
      cases hc : st.cancelled with
      | false => rfl
      | true => have := (h.after hc).1; rw [hopen] at this; cases this
    exact ⟨by simp, fun _ => ⟨rfl, nrac_snoc_cancel _ (h.before hc)⟩⟩

theorem einv_step {st : PSt} (p : PInv st) (h : EInv st) (e : PEv) (he : e ≠ .extCancel) : EInv (step st e) := by
  cases e with
  | extCancel => exact absurd rfl he
  | launch => simp only [step]; split <;> exact ⟨h.before, h.after⟩
  | startDone => simp only [step]; split <;> exact ⟨h.before, h.after⟩
  | report i =>
    simp only [step]; split
    · rename_i hr
      have hc : st.cancelled = false := by
        cases hc : st.cancelled with
        | false => rfl
        | true => have := (p.closed (h.after hc).1).1; omega
      refine ⟨fun _ e he => ?_, fun hc' => ?_⟩
      · simp only [List.mem_append, List.mem_singleton] at he
        rcases he with he | he
        · exact h.before hc e he
        · subst he; intro hx; cases hx
      · have : st.cancelled = true := hc'
        rw [hc] at this; cases this
    · exact h
  | finish =>
    simp only [step]; split
    · rename_i hr
      refine ⟨h.before, fun hc => ?_⟩
      have := h.after hc
      have := (p.closed this.1).1
      omega
    · exact h
  | provReturn => exact ⟨h.before, h.after⟩
  | aggReturn => exact ⟨h.before, h.after⟩
  | awaitProv => simp only [step]; split <;> exact ⟨h.before, h.after⟩
  | awaitAgg => simp only [step]; split <;> exact ⟨h.before, h.after⟩
  | awaitStart =>
    simp only [step]; split
    · rename_i hc
      obtain ⟨_, hso, _⟩ := hc
      have hopen : st.runResOpen = true := by
        cases ho : st.runResOpen with
        | true => rfl
        | false => have := (p.closed ho).2.2; rw [hso] at this; cases this
      exact einv_check ⟨h.before, h.after⟩ hopen
    · exact h
  | awaitInst =>
    simp only [step]; split
    · rename_i hc
      exact einv_check ⟨h.before, h.after⟩ hc.2.1
    · exact h
  | waitDone => simp only [step]; split <;> exact ⟨h.before, h.after⟩

theorem einv_run (tr : List PEv) {st : PSt} (p : PInv st) (h : EInv st) (hne : ∀ e ∈ tr, e ≠ PEv.extCancel) :
    EInv (run st tr) := by
  induction tr generalizing st with
  | nil => exact h
  | cons e es ih =>
    exact ih (pinv_step p e) (einv_step p h e (hne e (by simp))) (fun x hx => hne x (by simp [hx]))

/-! ## `NoReportAfterCancel` only looks at the report / cancel events of a schedule -/

theorem nrac_filter (sched : List Ev) : NoReportAfterCancel sched ↔ NoReportAfterCancel (sched.filter isRC) := by
  induction sched with
  | nil => simp
  | cons e es ih =>
    cases e with
    | cancel =>
      simp only [NoReportAfterCancel, List.filter_cons, isRC, if_true]
      constructor
      · intro h x hx; exact h x (List.mem_filter.mp hx).1
      · intro h x hx
        by_cases hr : isReportEv x = true
        · have : isRC x = true := by cases x <;> simp_all [isReportEv, isRC]
          exact h x (List.mem_filter.mpr ⟨hx, this⟩)
        · simpa using hr
    | report _ => simpa [NoReportAfterCancel, List.filter_cons, isRC] using ih
    | recv _ => simpa [NoReportAfterCancel, List.filter_cons, isRC] using ih
    | tick => simpa [NoReportAfterCancel, List.filter_cons, isRC] using ih
    | spill _ => simpa [NoReportAfterCancel, List.filter_cons, isRC] using ih
    | seeCancel => simpa [NoReportAfterCancel, List.filter_cons, isRC] using ih
    | drain => simpa [NoReportAfterCancel, List.filter_cons, isRC] using ih

end Pandora.Proofs.C06Pool
