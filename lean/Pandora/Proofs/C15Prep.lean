/-
C15 round 6 helper lemmas: `prepareRequest` as code computes the direct reading; which host the target sees; the
min_waiting_time rule.
-/
import Pandora.Model.C15Prep

namespace Pandora.Proofs.C15
open Pandora.Model.C15

/-- the loop body `[ifHost "Host", setHost, next, endIf, set]` on one header -/
theorem runHdr_body (lib : PrepLib) (k v : String) (q : HReq) :
    runHdrOps lib k v [.ifHost "Host", .setHost, .next, .endIf, .set] false q =
      (if equalFoldTo "Host" k then { q with host := v } else { q with header := setKey (lib.canon k) v q.header }) := by
  by_cases h : equalFoldTo "Host" k <;> simp [runHdrOps, h]

theorem runHdr_loop (lib : PrepLib) (hs : List (String × String)) (q : HReq) :
    hs.foldl (fun q kv => runHdrOps lib kv.1 kv.2 [.ifHost "Host", .setHost, .next, .endIf, .set] false q) q =
      prepHeaders lib hs q := by
  unfold prepHeaders
  congr 1
  funext q kv
  exact runHdr_body lib kv.1 kv.2 q

/-- the statement list of `prepareRequest`, interpreted with Go's `err` explicit, IS the direct reading -/
theorem runPrep_eq (lib : PrepLib) (cfg : PrepCfg) (p : ReqParts) :
    runPrepOps lib cfg p prepCode {} = some (prepareRequest lib cfg p) := by
  unfold prepCode prepareRequest
  cases hn : lib.newReq p.method p.url with
  | none => simp [runPrepOps, hn]
  | some uh =>
    simp only [runPrepOps, hn, runHdr_loop, Bool.false_eq_true, if_false, Option.map_some]
    congr 2
    split <;> rfl

/-- the host the loop leaves behind: the value of the LAST header whose name folds to "Host", else what it was -/
theorem prepHeaders_host (lib : PrepLib) : ∀ (hs : List (String × String)) (q : HReq),
    (prepHeaders lib hs q).host = (((hs.filter fun kv => equalFoldTo "Host" kv.1).getLast?).map (·.2)).getD q.host
  | [], q => by simp [prepHeaders]
  | kv :: hs, q => by
    by_cases h : equalFoldTo "Host" kv.1
    · have ih := prepHeaders_host lib hs { q with host := kv.2 }
      unfold prepHeaders at ih ⊢
      simp only [List.foldl_cons, h, if_true, List.filter_cons]
      rw [ih, List.getLast?_cons]
      cases (List.filter (fun kv => equalFoldTo "Host" kv.1) hs).getLast? <;> simp
    · have ih := prepHeaders_host lib hs { q with header := setKey (lib.canon kv.1) kv.2 q.header }
      unfold prepHeaders at ih ⊢
      simp only [List.foldl_cons, h, Bool.false_eq_true, if_false, List.filter_cons]
      exact ih

/-- headers not named Host never touch the host, headers named Host never touch the header map -/
theorem prepHeaders_header_of_noHost (lib : PrepLib) : ∀ (hs : List (String × String)) (q : HReq),
    (∀ kv ∈ hs, equalFoldTo "Host" kv.1 = false) →
    (prepHeaders lib hs q).header = hs.foldl (fun m kv => setKey (lib.canon kv.1) kv.2 m) q.header
  | [], q, _ => rfl
  | kv :: hs, q, h => by
    have h0 := h kv (by simp)
    have ih := prepHeaders_header_of_noHost lib hs { q with header := setKey (lib.canon kv.1) kv.2 q.header }
      (fun x hx => h x (by simp [hx]))
    unfold prepHeaders at ih ⊢
    simp only [List.foldl_cons, h0, Bool.false_eq_true, if_false]
    exact ih

/-! ### min_waiting_time -/

theorem mwtPause_total (m spent : Int) : spent + (mwtPause m spent).getD 0 = max m spent := by
  unfold mwtPause
  by_cases h : m > spent
  · simp [h]; omega
  · simp [h]; omega

theorem mwtPause_pos (m spent p : Int) (h : mwtPause m spent = some p) : 0 < p := by
  unfold mwtPause at h
  split at h
  · cases h; omega
  · cases h

end Pandora.Proofs.C15
