/-
C19, round 3 — helper lemmas about the model of response-derived variables (`Model/C19Vars.lean`).
-/
import Pandora.Model.C19Vars

namespace Pandora.Proofs.C19
open Pandora.Model.C10 Pandora.Model.C19

/-! ## `calcIndex` -/

theorem intn_ok (n : Int) (raw : Nat) (h : 0 < n) : ∃ r, intn n raw = .ok r ∧ 0 ≤ r ∧ r < n := by
  refine ⟨(raw : Int) % n, ?_, Int.emod_nonneg _ (by omega), Int.emod_lt_of_pos _ h⟩
  unfold intn
  rw [if_neg (by omega)]

theorem goRem_ok (a b : Int) (h : 0 < b) : goRem a b = .ok (a.tmod b) := by
  unfold goRem
  rw [if_neg (by omega)]

/-- `calcIndex` never panics, and an index it returns is an index INTO a slice of that length -/
theorem calcIndex_ok (k : IndexKind) (length : Int) (nextV randRaw : Nat) :
    ∃ r, calcIndex k length nextV randRaw = .ok r ∧ ∀ i, r = some i → 0 ≤ i ∧ i < length := by
  by_cases hl : length ≤ 0
  · refine ⟨none, ?_, by intro i h; cases h⟩
    cases k <;> simp [calcIndex, hl]
  · have hpos : 0 < length := by omega
    cases k with
    | bad => exact ⟨none, by simp [calcIndex], by intro i h; cases h⟩
    | last => exact ⟨some (length - 1), by simp [calcIndex, hl], by intro i h; cases h; omega⟩
    | rand =>
      obtain ⟨r, hr, h0, h1⟩ := intn_ok length randRaw hpos
      exact ⟨some r, by simp [calcIndex, hl, hr, Checked.bind], by intro i h; cases h; exact ⟨h0, h1⟩⟩
    | next =>
      by_cases hge : (nextV : Int) ≥ length
      · refine ⟨some ((nextV : Int).tmod length), by simp [calcIndex, hl, hge, goRem_ok _ _ hpos, Checked.bind], ?_⟩
        intro i h; cases h
        exact ⟨Int.tmod_nonneg _ (by omega), Int.tmod_lt_of_pos _ hpos⟩
      · exact ⟨some nextV, by simp [calcIndex, hl, hge], by intro i h; cases h; omega⟩
    | num j =>
      by_cases hin : 0 ≤ j ∧ j < length
      · exact ⟨some j, by simp [calcIndex, hl, hin], by intro i h; cases h; exact hin⟩
      · have h1 := Int.lt_tmod_of_pos j hpos
        have h2 := Int.tmod_lt_of_pos j hpos
        refine ⟨some (if j.tmod length < 0 then j.tmod length + length else j.tmod length),
          by simp [calcIndex, hl, hin, goRem_ok _ _ hpos, Checked.bind], ?_⟩
        intro i h; cases h
        split <;> omega

/-- without the emptiness guard in front of the keyword branches an EMPTY list makes every keyword index panic or
leave the slice -/
theorem calcIndexGuardNumericOnly_empty (nextV randRaw : Nat) :
    calcIndexGuardNumericOnly .next 0 nextV randRaw = .panic "integer divide by zero" ∧
    calcIndexGuardNumericOnly .rand 0 nextV randRaw = .panic "invalid argument to Intn" ∧
    calcIndexGuardNumericOnly .last 0 nextV randRaw = .ok (some (-1)) := by
  refine ⟨?_, ?_, ?_⟩
  · simp [calcIndexGuardNumericOnly, goRem, Checked.bind]
  · simp [calcIndexGuardNumericOnly, intn, Checked.bind]
  · simp [calcIndexGuardNumericOnly]

/-! ## `extractFromSlice`, `GetMapValue` -/

theorem goIndex_ok (xs : List Val) (i : Int) (h : 0 ≤ i ∧ i < (xs.length : Int)) :
    goIndex xs i = .ok (xs.getD i.toNat .null) := by
  unfold goIndex
  rw [if_pos h]

theorem extractFromSlice_ok (v : Val) (k : IndexKind) (nextV randRaw : Nat) :
    ∃ r, extractFromSlice v k nextV randRaw = .ok r := by
  unfold extractFromSlice extractFromSliceWith
  cases v with
  | list acc xs =>
    cases acc with
    | false => exact ⟨none, rfl⟩
    | true =>
      obtain ⟨r, hr, hb⟩ := calcIndex_ok k xs.length nextV randRaw
      cases r with
      | none => exact ⟨none, by simp [hr, Checked.bind]⟩
      | some i => exact ⟨some (xs.getD i.toNat .null), by simp [hr, Checked.bind, goIndex_ok xs i (hb i rfl)]⟩
  | null => exact ⟨none, rfl⟩
  | str s => exact ⟨none, rfl⟩
  | other t a => exact ⟨none, rfl⟩
  | obj fs => exact ⟨none, rfl⟩

theorem getMapValueWith_ok (it : Iter) (segs : List Seg) :
    ∀ (d : Nat) (cur : Fields), ∃ r, getMapValueWith calcIndex it d cur segs = .ok r := by
  induction segs with
  | nil => intro d cur; exact ⟨_, rfl⟩
  | cons s rest ih =>
    intro d cur
    unfold getMapValueWith
    cases hl : lookupField cur s.name with
    | none => exact ⟨none, rfl⟩
    | some pv =>
      simp only []
      cases hi : s.index with
      | none =>
        simp only []
        cases pv with
        | obj fs => exact ih (d + 1) fs
        | null => cases rest <;> simp
        | str s => cases rest <;> simp
        | other t a => cases rest <;> simp
        | list a xs => cases rest <;> simp
      | some k =>
        simp only []
        obtain ⟨r, hr⟩ := extractFromSlice_ok pv k (it.next d) (it.rand d)
        have hr' : extractFromSliceWith calcIndex pv k (it.next d) (it.rand d) = .ok r := hr
        rw [hr']
        cases r with
        | none => exact ⟨none, rfl⟩
        | some e =>
          cases e with
          | obj fs => exact ih (d + 1) fs
          | null => cases rest <;> simp
          | str s => cases rest <;> simp
          | other t a => cases rest <;> simp
          | list a xs => cases rest <;> simp

theorem getMapValue_ok (it : Iter) (vars : Fields) (segs : List Seg) : ∃ r, getMapValue it vars segs = .ok r :=
  getMapValueWith_ok it segs 0 vars

/-! ## template functions -/

theorem goMakeRunes_ok (n : Int) (h0 : 0 ≤ n) (h1 : n ≤ maxRuneSliceLen) : goMakeRunes n = .ok () := by
  unfold goMakeRunes
  rw [if_neg (by omega)]

/-- with a bound on the length that `make([]rune, n)` accepts, `randString` returns (a string or an error) for every
argument value -/
theorem randString_ok (c : Int) (hc : c ≤ maxRuneSliceLen) (cnt : Val) : ∃ b, randString (some c) cnt = .ok b := by
  unfold randString
  cases valParseInt cnt with
  | none => exact ⟨false, rfl⟩
  | some n0 =>
    simp only []
    by_cases hneg : (if n0 = 0 then 1 else n0) < 0
    · exact ⟨false, by rw [if_pos hneg]⟩
    · rw [if_neg hneg]
      by_cases hbig : (if n0 = 0 then 1 else n0) > c
      · exact ⟨false, by simp [hbig]⟩
      · refine ⟨true, ?_⟩
        simp only [hbig, decide_false, Bool.false_eq_true, if_false]
        rw [goMakeRunes_ok _ (by omega) (by omega)]
        rfl

theorem randIntRange_ok (f t : Int) : ∃ b, randIntRange f t = .ok b := by
  unfold randIntRange
  generalize randIntDiff f t = d
  by_cases h : d ≤ 0
  · exact ⟨false, by rw [if_pos h]⟩
  · exact ⟨true, by rw [if_neg h]; unfold int63n; rw [if_neg h]; rfl⟩

theorem callRandString_ok (c : Int) (hc : c ≤ maxRuneSliceLen) (args : List Val) :
    ∃ b, callRandString (some c) args = .ok b := by
  match args with
  | [] => simp only [callRandString]; exact randString_ok c hc _
  | [a] => simp only [callRandString]; exact randString_ok c hc a
  | [a, _] => simp only [callRandString]; exact randString_ok c hc a
  | _ :: _ :: _ :: _ => exact ⟨false, rfl⟩

theorem callRandInt_ok (args : List Val) : ∃ b, callRandInt args = .ok b := by
  match args with
  | [] => simp only [callRandInt]; exact randIntRange_ok 0 0
  | [a] =>
    simp only [callRandInt]
    cases valParseInt a with
    | none => exact ⟨false, rfl⟩
    | some f => exact randIntRange_ok f 0
  | [a, b] =>
    simp only [callRandInt]
    cases valParseInt a with
    | none => exact ⟨false, rfl⟩
    | some f =>
      cases valParseInt b with
      | none => exact ⟨false, rfl⟩
      | some t => exact randIntRange_ok f t
  | _ :: _ :: _ :: _ => exact ⟨false, rfl⟩

theorem callTplFn_ok (c : Int) (hc : c ≤ maxRuneSliceLen) (fn : TplFn) (args : List Val) :
    ∃ b, callTplFn (some c) fn args = .ok b := by
  cases fn with
  | uuid => exact ⟨true, rfl⟩
  | randString => exact callRandString_ok c hc args
  | randInt => exact callRandInt_ok args

theorem resolveArgs_ok (vars : Fields) (args : List TplArg) : ∃ vs, resolveArgs vars args = .ok vs := by
  induction args with
  | nil => exact ⟨[], rfl⟩
  | cons a as ih =>
    obtain ⟨r, hr⟩ := getMapValue_ok a.it vars a.segs
    obtain ⟨vs, hvs⟩ := ih
    exact ⟨r.getD (.str a.text) :: vs, by simp [resolveArgs, hr, hvs, Checked.bind]⟩

theorem evalPreMap_ok (c : Int) (hc : c ≤ maxRuneSliceLen) (vars : Fields) (m : PreMap) :
    ∃ r, evalPreMap (some c) vars m = .ok r := by
  cases m with
  | path segs it => exact getMapValue_ok it vars segs
  | call fn args =>
    obtain ⟨vs, hvs⟩ := resolveArgs_ok vars args
    obtain ⟨b, hb⟩ := callTplFn_ok c hc fn vs
    exact ⟨if b then some (.str "<generated>") else none, by simp [evalPreMap, hvs, hb, Checked.bind]⟩

theorem preprocess_ok (c : Int) (hc : c ≤ maxRuneSliceLen) (vars : Fields) (ms : List (String × PreMap)) :
    ∃ r, preprocess (some c) vars ms = .ok r := by
  induction ms with
  | nil => exact ⟨_, rfl⟩
  | cons km rest ih =>
    obtain ⟨k, m⟩ := km
    obtain ⟨r, hr⟩ := evalPreMap_ok c hc vars m
    obtain ⟨t, ht⟩ := ih
    cases r with
    | none => exact ⟨none, by simp [preprocess, hr]⟩
    | some v => exact ⟨t.map fun fs => (k, v) :: fs, by simp [preprocess, hr, ht, Checked.bind]⟩

theorem maxRandStringLength_le : maxRandStringLength ≤ maxRuneSliceLen := by decide

/-! ## the scenario shot with variables is the scenario shot with the preprocessors resolved -/

theorem shootScenario_cons_stop (scn : String) (s : Step) (rest rest' : List Step)
    (h : ∀ st, s.outcome ≠ .received st .ok) :
    shootScenario scn (s :: rest) = shootScenario scn (s :: rest') := by
  unfold shootScenario stepHttp
  cases ho : s.outcome with
  | prepErr => rfl
  | doErr e => rfl
  | bodyErr st e => rfl
  | received st p =>
    cases p with
    | ok => exact absurd ho (h st)
    | err => rfl
    | panic => rfl

theorem shootScenarioV_eq (c : Int) (hc : c ≤ maxRuneSliceLen) (h2 : Bool) (scn : String) (steps : List VStep) :
    ∀ s : VarState, shootScenarioV (some c) h2 scn s steps = (GunShot.scenario h2 scn (resolveV (some c) h2 s steps)).run := by
  induction steps with
  | nil => intro s; rfl
  | cons v rest ih =>
    intro s
    unfold shootScenarioV scenarioStepsV resolveV GunShot.run
    simp only []
    obtain ⟨r, hr⟩ := preprocess_ok c hc
      ({ s with request := (v.cfg.name, Val.obj []) :: s.request } : VarState).templateVars v.pre
    rw [hr]
    cases r with
    | none =>
      simp only [List.map_cons]
      have : stepOutcomeH2 h2 v.facts { v.cfg with prepFails := true } v.reply = .prepErr := by
        simp [stepOutcomeH2, stepOutcome]
      rw [this]
      exact shootScenario_cons_stop scn _ _ _ (by intro st h; cases h)
    | some pv =>
      simp only [List.map_cons]
      cases ho : stepOutcomeH2 h2 v.facts v.cfg v.reply with
      | received st p =>
        cases p with
        | ok =>
          simp only []
          have ih' := ih { s with request := (v.cfg.name, Val.obj [("preprocessor", Val.obj pv), ("postprocessor", Val.obj v.post)]) :: s.request }
          unfold shootScenarioV GunShot.run at ih'
          simp only [] at ih'
          unfold shootScenario
          simp only [stepHttp]
          rw [ih']
        | err => exact shootScenario_cons_stop scn _ _ _ (by intro st' h; cases h)
        | panic => exact shootScenario_cons_stop scn _ _ _ (by intro st' h; cases h)
      | prepErr => exact shootScenario_cons_stop scn _ _ _ (by intro st' h; cases h)
      | doErr e => exact shootScenario_cons_stop scn _ _ _ (by intro st' h; cases h)
      | bodyErr st e => exact shootScenario_cons_stop scn _ _ _ (by intro st' h; cases h)

theorem shootGrpcScenario_cons_stop (scn : String) (s : GrpcStep) (rest rest' : List GrpcStep)
    (h : ∀ c, s.outcome ≠ .invoked c .ok) :
    shootGrpcScenario scn (s :: rest) = shootGrpcScenario scn (s :: rest') := by
  unfold shootGrpcScenario stepGrpc
  cases ho : s.outcome with
  | prepErr => rfl
  | unknownMethod => rfl
  | badPayload => rfl
  | invoked c p =>
    cases p with
    | ok => exact absurd ho (h c)
    | err => rfl
    | panic => rfl

theorem shootGrpcScenarioV_eq (c : Int) (hc : c ≤ maxRuneSliceLen) (scn : String) (calls : List VCall) :
    ∀ s : VarState, shootGrpcScenarioV (some c) scn s calls = (GunShot.grpcScenario scn (resolveGrpcV (some c) s calls)).run := by
  induction calls with
  | nil => intro s; rfl
  | cons v rest ih =>
    intro s
    unfold shootGrpcScenarioV resolveGrpcV GunShot.run
    simp only []
    obtain ⟨r, hr⟩ := preprocess_ok c hc
      ({ s with request := (v.name, Val.obj []) :: s.request } : VarState).templateVars v.pre
    rw [hr]
    cases r with
    | none =>
      simp only [List.map_cons]
      have hk : grpcStepOutcome { v.cfg with kind := .prepFails } v.reply = .prepErr := rfl
      rw [hk]
      unfold shootGrpcScenario stepGrpc
      rfl
    | some pv =>
      simp only [List.map_cons]
      cases ho : grpcStepOutcome v.cfg v.reply with
      | invoked code p =>
        cases p with
        | ok =>
          have ih' := ih { s with request := (v.name, Val.obj (callEntry pv v.post)) :: s.request }
          unfold GunShot.run at ih'
          simp only [] at ih'
          unfold shootGrpcScenario
          simp only [stepGrpc]
          rw [ih']
        | err => unfold shootGrpcScenario stepGrpc; rfl
        | panic => unfold shootGrpcScenario stepGrpc; rfl
      | prepErr => unfold shootGrpcScenario stepGrpc; rfl
      | unknownMethod => unfold shootGrpcScenario stepGrpc; rfl
      | badPayload => unfold shootGrpcScenario stepGrpc; rfl

/-- resolving the preprocessors changes nothing of a step but `prepFails` -/
theorem resolveV_shape (cap : Option Int) (h2 : Bool) (steps : List VStep) :
    ∀ s : VarState, (resolveV cap h2 s steps).map (fun p => (p.1.name, p.1.pps, p.2)) =
      steps.map (fun v => (v.cfg.name, v.cfg.pps, v.facts, v.reply)) := by
  induction steps with
  | nil => intro s; rfl
  | cons v rest ih =>
    intro s
    unfold resolveV
    simp only []
    split
    · simp only [List.map_cons, ih]
    · simp [List.map_cons, List.map_map, Function.comp_def]

/-- the code as found (no bound on the length): a digit string the peer sends is a length `make([]rune, n)` refuses -/
theorem randString_as_found_panics :
    randString none (.str "99999999999999999") = .panic "makeslice: len out of range" := by decide

end Pandora.Proofs.C19
