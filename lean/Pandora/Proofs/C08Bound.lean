/-
C08: helper lemmas for Props/C08.lean — the Spec's `expected` is the models' bound, prefixes of the cyclic file,
schedules.
-/
import Pandora.Proofs.C08Conc
import Pandora.Spec.C08

namespace Pandora.Proofs.C08
open Pandora.Model.C08

theorem cycTake_range (n m : Nat) (hn : 0 < n) : cycTake (List.range n) m = cycl n m := by
  induction m with
  | zero => simp [cycl, cycTake_zero]
  | succ m ih =>
    have h : (List.range n)[m % (List.range n).length]? = some (m % n) := by
      simp [Nat.mod_lt _ hn]
    rw [cycTake_succ _ m _ h, ih]
    simp [cycl, List.range_succ]

theorem expected_eq_target (l p n : Nat) (hn : 0 < n) : Spec.C08.expected l p n = target l p n none := by
  unfold Spec.C08.expected target
  cases l with
  | zero =>
    cases p with
    | zero => simp
    | succ p => simp [minPlus]
  | succ l =>
    cases p with
    | zero => simp [minPlus]
    | succ p =>
      have : (p + 1) * n ≠ 0 := Nat.ne_of_gt (Nat.mul_pos (by omega) hn)
      simp [minPlus, this]

theorem expected_of_atBound (b : Bounds) (n k : Nat) (hn : 0 < n) (h : AtBound b n k) :
    Spec.C08.expected b.limit b.passes n = some k := by
  obtain ⟨⟨h1, h2⟩, h3⟩ := h
  unfold Spec.C08.expected
  cases hl : b.limit with
  | zero =>
    cases hp : b.passes with
    | zero => rcases h3 with ⟨h0, _⟩ | ⟨h0, _⟩ <;> omega
    | succ p =>
      rcases h3 with ⟨h0, _⟩ | ⟨_, h0⟩
      · omega
      · simp [h0, hp]
  | succ l =>
    cases hp : b.passes with
    | zero =>
      rcases h3 with ⟨_, h0⟩ | ⟨h0, _⟩
      · simp [h0, hl]
      · omega
    | succ p =>
      simp only [Option.some.injEq]
      rw [hl] at h1 h3; rw [hp] at h2 h3
      rcases h3 with ⟨_, h0⟩ | ⟨_, h0⟩ <;> rcases h1 with h1 | h1 <;> rcases h2 with h2 | h2 <;> omega

theorem atBound_of_expected (b : Bounds) (n m : Nat) (hn : 0 < n) (h : Spec.C08.expected b.limit b.passes n = some m) :
    AtBound b n m := by
  rw [expected_eq_target _ _ _ hn] at h
  exact atBound_of_target b n m hn h

theorem run_append (inp : Input) (n cap cons : Nat) (s : Sys) (l1 l2 : List Label) :
    s.run inp n cap cons (l1 ++ l2) = (s.run inp n cap cons l1).run inp n cap cons l2 := by
  simp [Sys.run, List.foldl_append]

end Pandora.Proofs.C08
