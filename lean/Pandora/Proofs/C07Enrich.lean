import Pandora.Spec.C07

/-! Round 4 — the `headers` option on the request of a raw frame (`enrichF`): helper lemmas. -/
namespace Pandora.Proofs.C07
open Pandora.Model.C07 Pandora.Spec.C07

theorem any_of_lookup (l : List (Bytes × List Bytes)) (k : Bytes) (vs : List Bytes) (h : l.lookup k = some vs) :
    l.any (fun x => x.1 == k) = true := by
  induction l with
  | nil => simp at h
  | cons x r ih =>
    obtain ⟨k', v'⟩ := x
    by_cases hk : k = k'
    · subst hk; simp
    · have hne : (k == k') = false := by simpa using hk
      rw [List.lookup_cons, hne] at h
      simp [ih h]

theorem lookup_insert_other (kv : Bytes × List Bytes) (l : List (Bytes × List Bytes)) (k : Bytes) (hk : k ≠ kv.1) :
    (insertHdrF kv l).lookup k = l.lookup k := by
  obtain ⟨kk, vv⟩ := kv
  have hne : (k == kk) = false := by simpa using hk
  induction l with
  | nil => simp [insertHdrF, List.lookup_cons, hne]
  | cons x r ih =>
    obtain ⟨xk, xv⟩ := x
    unfold insertHdrF
    split
    · rw [List.lookup_cons, hne]
    · rw [List.lookup_cons, List.lookup_cons, ih]

theorem lookup_insert_self (kv : Bytes × List Bytes) (l : List (Bytes × List Bytes))
    (h : l.any (fun x => x.1 == kv.1) = false) : (insertHdrF kv l).lookup kv.1 = some kv.2 := by
  obtain ⟨kk, vv⟩ := kv
  induction l with
  | nil => simp [insertHdrF]
  | cons x r ih =>
    obtain ⟨xk, xv⟩ := x
    have hx : (xk == kk) = false ∧ r.any (fun x => x.1 == kk) = false := by
      simpa [List.any_cons, Bool.or_eq_false_iff] using h
    have hx' : (kk == xk) = false := by
      have : xk ≠ kk := by simpa using hx.1
      simpa using (fun e => this e.symm)
    unfold insertHdrF
    split
    · simp
    · rw [List.lookup_cons, hx', ih hx.2]

theorem enrichStep_core (r : FReq) (kv : Bytes × Bytes) :
    (enrichStep r kv).method = r.method ∧ (enrichStep r kv).uri = r.uri ∧ (enrichStep r kv).body = r.body := by
  unfold enrichStep
  simp only
  split
  · exact ⟨rfl, rfl, rfl⟩
  · split
    · split <;> exact ⟨rfl, rfl, rfl⟩
    · exact ⟨rfl, rfl, rfl⟩

theorem enrichStep_keeps (r : FReq) (kv : Bytes × Bytes) (k : Bytes) (vs : List Bytes) (h : r.hdrs.lookup k = some vs) :
    (enrichStep r kv).hdrs.lookup k = some vs := by
  unfold enrichStep
  simp only
  split
  · exact h
  · rename_i hany
    split
    · split <;> exact h
    · show (insertHdrF _ r.hdrs).lookup k = some vs
      have hne : k ≠ canonKey kv.1 := by
        intro e
        subst e
        exact hany (any_of_lookup r.hdrs _ vs h)
      rw [lookup_insert_other _ _ _ hne]; exact h

theorem enrichStep_host (r : FReq) (kv : Bytes × Bytes) (h : r.host ≠ []) : (enrichStep r kv).host = r.host := by
  unfold enrichStep
  simp only
  split
  · rfl
  · split
    · have : r.host.isEmpty = false := by cases hh : r.host <;> simp_all
      simp [this]
    · rfl

theorem enrichF_core (cfg : Hdrs) (r : FReq) :
    (enrichF cfg r).method = r.method ∧ (enrichF cfg r).uri = r.uri ∧ (enrichF cfg r).body = r.body := by
  unfold enrichF
  induction cfg generalizing r with
  | nil => exact ⟨rfl, rfl, rfl⟩
  | cons kv rest ih =>
    have h1 := enrichStep_core r kv
    have h2 := ih (enrichStep r kv)
    simp only [List.foldl_cons]
    exact ⟨h2.1.trans h1.1, h2.2.1.trans h1.2.1, h2.2.2.trans h1.2.2⟩

theorem enrichF_keeps (cfg : Hdrs) (r : FReq) (k : Bytes) (vs : List Bytes) (h : r.hdrs.lookup k = some vs) :
    (enrichF cfg r).hdrs.lookup k = some vs := by
  unfold enrichF
  induction cfg generalizing r with
  | nil => exact h
  | cons kv rest ih => simp only [List.foldl_cons]; exact ih _ (enrichStep_keeps r kv k vs h)

theorem enrichF_host (cfg : Hdrs) (r : FReq) (h : r.host ≠ []) : (enrichF cfg r).host = r.host := by
  unfold enrichF
  induction cfg generalizing r with
  | nil => rfl
  | cons kv rest ih =>
    simp only [List.foldl_cons]
    have h1 := enrichStep_host r kv h
    rw [ih _ (by rw [h1]; exact h), h1]

end Pandora.Proofs.C07
