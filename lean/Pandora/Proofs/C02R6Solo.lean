/-
C02 round 6 — the ONE-CALLER model is the concurrent model run by one caller.

`Model/C02Sched.lean` (`compNextAux`, `compLeftAux`: what the sequential theorems `C02_tree_refines`,
`C02_seq_refines`, `C02_double_start`, `C02_huge_refines`, `C02_big_refines`, `C02_factory_*` rest on) was written by
hand next to composite.go; the sections of the concurrent model (`nextReader`, `nextWriter`, `leftReader`,
`leftWriter`, `startNext`) ARE the functions regenerated from composite.go (`Bridge/C02Src.lean`).  Here the first is
derived from the second: a caller that performs the atomic actions of its call back to back (`soloCall`: follow
`runSection`, the dispatcher of the concurrent model, until the call returns) gets exactly what `compNextAux` /
`compLeftAux` compute, state included.  So an edit of composite.go that changes a regenerated section re-opens the
sequential theorems as well, and there is no second hand-written reading of `Next` / `Left` left untied.
-/
import Pandora.Model.C02Par
import Pandora.Proofs.C02Sem

namespace Pandora.Proofs.C02R6
open Pandora.Model.C02 Pandora.Model.C02.Par Pandora.Proofs.C02Sem

section
variable {σ : Type} (ops : Ops σ)

/-- one caller alone: its atomic actions (as dispatched by `runSection`) one after the other at one clock reading,
until the call returns.  `none` = the call panicked (the state is lost with it). -/
def soloCall (op : Op) : Nat → Sh σ → Pc → Int → Option (Sh σ) × Ret
  | 0, _, _, _ => (none, .panic "out of fuel")
  | fuel + 1, s, pc, now =>
    match runSection ops s pc op now with
    | (_, .ret (.panic e)) => (none, .panic e)
    | (s', .ret r) => (some s', r)
    | (s', .goto pc') => soloCall op fuel s' pc' now

def nextRes : Except String (Comp σ × Int × Bool) → Option (Sh σ) × Ret
  | .ok (cmp, tx, ok) => (some ⟨cmp.cs, cmp.la, cmp.started⟩, .tok tx ok)
  | .error e => (none, .panic e)

def leftRes : Except String (Comp σ × Int) → Option (Sh σ) × Ret
  | .ok (cmp, n) => (some ⟨cmp.cs, cmp.la, cmp.started⟩, .cnt n)
  | .error e => (none, .panic e)

/-- from the point after `started.Store(true)` -/
theorem solo_next_B (now : Int) : ∀ (rest : List σ) (c : σ) (la : List Int),
    soloCall ops .next (2 * rest.length + 1) ⟨c :: rest, la, true⟩ .nextB now = nextRes (compNextAux ops c rest la now)
  | [], c, la => by
      rw [compNextAux]
      simp only [soloCall, runSection, nextReader]
      cases hn : ops.next c now with
      | error e => simp [nextRes, bind, Except.bind]
      | ok x =>
        obtain ⟨c', tx, ok⟩ := x
        cases ok <;> simp [nextRes, bind, Except.bind, pure, Except.pure]
  | h :: t, c, la => by
      rw [compNextAux_cons]
      have hf : 2 * (h :: t).length + 1 = (2 * t.length + 1) + 1 + 1 := by simp only [List.length_cons]; omega
      rw [hf]
      simp only [soloCall, runSection, nextReader]
      cases hn : ops.next c now with
      | error e => simp [nextRes, bind, Except.bind]
      | ok x =>
        obtain ⟨c', tx, ok⟩ := x
        cases ok with
        | true => simp [nextRes, bind, Except.bind, pure, Except.pure]
        | false =>
          simp only [Bool.false_eq_true, if_false, List.isEmpty_cons, bind, Except.bind, nextWriter, List.length_cons,
            Nat.lt_irrefl, startNext]
          cases hs : ops.start h tx with
          | error e => simp [nextRes]
          | ok h1 =>
            simp only
            cases hn2 : ops.next h1 now with
            | error e => simp [nextRes]
            | ok y =>
              obtain ⟨h2, tx2, ok2⟩ := y
              cases ok2 with
              | true => simp [nextRes, pure, Except.pure]
              | false =>
                have hgt : t.length + 1 + 1 > 1 := by omega
                simp only [Bool.not_false, Bool.true_and, hgt, decide_true, if_true, Bool.false_eq_true, if_false]
                exact solo_next_B now t h2 la.tail

/-- **`Next` of the one-caller model = one caller running the regenerated sections** (state and result; a panic is a panic) -/
theorem solo_next (s : Sh σ) (c : σ) (rest : List σ) (hcs : s.cs = c :: rest) (now : Int) :
    soloCall ops .next (2 * rest.length + 2) s .idle now = nextRes (compNext ops ⟨s.cs, s.la, s.started⟩ now) := by
  obtain ⟨cs, la, st⟩ := s
  simp only at hcs
  subst hcs
  simp only [soloCall, runSection, nextBegin, compNext]
  exact solo_next_B ops now rest c la

theorem soloCall_succ (op : Op) (fuel : Nat) (s : Sh σ) (pc : Pc) (now : Int) :
    soloCall ops op (fuel + 1) s pc now =
      (match runSection ops s pc op now with
      | (_, .ret (.panic e)) => (none, .panic e)
      | (s', .ret r) => (some s', r)
      | (s', .goto pc') => soloCall ops op fuel s' pc' now) := by
  rw [soloCall]

/-- **`Left` of the one-caller model = one caller running the regenerated sections** -/
theorem solo_left_aux (now : Int) (st : Bool) : ∀ (rest : List σ) (c : σ) (la : List Int),
    soloCall ops .left (2 * rest.length + 1) ⟨c :: rest, la, st⟩ .idle now = leftRes (compLeftAux ops st c rest la now)
  | [], c, la => by
      rw [compLeftAux]
      simp only [soloCall, runSection, leftReader]
      cases hl : ops.left c now with
      | error e => simp [leftRes, bind, Except.bind]
      | ok x =>
        obtain ⟨c', left⟩ := x
        simp [leftRes, bind, Except.bind, pure, Except.pure]
  | h :: t, c, la => by
      rw [compLeftAux_cons]
      have hf : 2 * (h :: t).length + 1 = (2 * t.length + 1) + 1 + 1 := by simp only [List.length_cons]; omega
      rw [hf, soloCall_succ]
      simp only [runSection, leftReader]
      cases hl : ops.left c now with
      | error e => simp [leftRes, bind, Except.bind]
      | ok x =>
        obtain ⟨c', left⟩ := x
        simp only [List.isEmpty_cons, Bool.false_eq_true, if_false, bind, Except.bind]
        generalize la.headD 0 = la0
        by_cases h0 : left = 0
        · subst h0
          simp only [beq_self_eq_true, if_true]
          by_cases hla : la0 ≥ 0
          · simp only [hla, if_true]
            simp [leftRes, pure, Except.pure]
          · simp only [hla, if_false]
            cases st with
            | false => simp [leftRes, pure, Except.pure]
            | true =>
              simp only [Bool.not_true, Bool.false_eq_true, if_false]
              rw [soloCall_succ]
              simp only [runSection, leftWriter, List.length_cons, beq_self_eq_true, if_true]
              cases hn : ops.next c' now with
              | error e => simp [leftRes]
              | ok y =>
                obtain ⟨c'', tx, ok⟩ := y
                cases ok with
                | true => simp [leftRes, throw, throwThe, MonadExceptOf.throw]
                | false =>
                  simp only [Bool.false_eq_true, if_false, startNext]
                  cases hs : ops.start h tx with
                  | error e => simp [leftRes]
                  | ok h1 => exact solo_left_aux now true t h1 la.tail
        · have hb : (left == 0) = false := by simpa using h0
          simp only [hb, Bool.false_eq_true, if_false]
          by_cases hn : left < 0
          · simp [hn, leftRes, pure, Except.pure]
          · by_cases hla : la0 < 0
            · simp [hn, hla, leftRes, pure, Except.pure, combineLeft]
            · simp [hn, hla, leftRes, pure, Except.pure, combineLeft]

theorem solo_left (s : Sh σ) (c : σ) (rest : List σ) (hcs : s.cs = c :: rest) (now : Int) :
    soloCall ops .left (2 * rest.length + 1) s .idle now = leftRes (compLeft ops ⟨s.cs, s.la, s.started⟩ now) := by
  obtain ⟨cs, la, st⟩ := s
  simp only at hcs
  subst hcs
  simp only [compLeft]
  exact solo_left_aux ops now st rest c la

end

end Pandora.Proofs.C02R6
