/-
C15 helper lemmas: the instruction-level system `LSys` (Model/C15Lock.lean) running `nextCode`, the code of
`NextIterator.Next`. Invariant under EVERY schedule: the mutex admits one thread between its `lock` and its `unlock`,
no fault (Unlock of an unlocked mutex, nil counter) occurs, every counter decides 0, 1, 2, … in order, and what a
thread has received plus the value it is about to return is exactly what the linearisation order attributes to it.
-/
import Pandora.Model.C15Lock
import Pandora.Proofs.C15Next

namespace Pandora.Proofs.C15
open Pandora.Model.C15

theorem gsRead_gsPut (gs : List (CKey × Nat)) (key key' : CKey) (p : Nat) :
    gsRead (gsPut gs key p) key' = if key' = key then some p else gsRead gs key' := by
  induction gs with
  | nil =>
    simp only [gsPut, gsRead_cons, gsRead_nil]
    by_cases h : key = key'
    · simp [h]
    · have : ¬ key' = key := fun e => h e.symm
      simp [h, this]
  | cons e rest ih =>
    obtain ⟨k, q⟩ := e
    simp only [gsPut]
    by_cases hk : k = key
    · rw [if_pos hk, gsRead_cons, gsRead_cons]
      by_cases h : key = key'
      · simp [h]
      · have h1 : ¬ key' = key := fun e => h e.symm
        have h2 : ¬ k = key' := fun e => h (hk.symm.trans e)
        simp [h, h1, h2]
    · rw [if_neg hk, gsRead_cons, gsRead_cons, ih]
      by_cases h : k = key'
      · have : ¬ key' = key := fun e => hk (h.trans e)
        simp [h, this]
      · simp [h]

/-- where a thread is inside `nextCode` -/
inductive Stage where
  | start    -- before `Lock()`
  | locked   -- holds the mutex, before the map lookup
  | miss0    -- lookup missed, before the insert
  | miss1    -- inserted, before `Unlock()`
  | miss2    -- unlocked, before `return 0`
  | hit0     -- lookup hit, before `Add(1)`
  | hit1     -- added, before `Unlock()`
  | hit2     -- unlocked, before `return int(add)`
deriving DecidableEq, Repr

def stageOps : Stage → List NOp
  | .start => [.lock, .mapGet]
  | .locked => [.mapGet]
  | .miss0 => [.putFresh, .unlock, .ret0]
  | .miss1 => [.unlock, .ret0]
  | .miss2 => [.ret0]
  | .hit0 => [.add 1, .unlock, .retAdd]
  | .hit1 => [.unlock, .retAdd]
  | .hit2 => [.retAdd]

def Stage.holds : Stage → Bool
  | .locked | .miss0 | .miss1 | .hit0 | .hit1 => true
  | _ => false

/-- per-thread invariant of an activation -/
def TInv (holder : Option Nat) (gs : List (CKey × Nat)) (t : Nat) (f : LFrame) : Prop :=
  ∃ st : Stage, f.ops = stageOps st ∧ (st.holds = true → holder = some t) ∧
    (st = .miss0 → gsRead gs f.key = none) ∧
    (st = .hit0 → ∃ p, f.ptr = some p ∧ gsRead gs f.key = some p)

theorem TInv_of_not_holder {holder : Option Nat} {gs : List (CKey × Nat)} {t : Nat} {f : LFrame}
    (h : TInv holder gs t f) (hne : holder ≠ some t) (holder' : Option Nat) (gs' : List (CKey × Nat)) :
    TInv holder' gs' t f := by
  obtain ⟨st, hops, hh, _, _⟩ := h
  have hnh : st.holds = false := by
    cases hs : st.holds with
    | false => rfl
    | true => exact absurd (hh hs) hne
  refine ⟨st, hops, ?_, ?_, ?_⟩
  · intro e; rw [hnh] at e; cases e
  · intro e; subst e; cases hnh
  · intro e; subst e; cases hnh

/-- the pending value of a frame at a given stage -/
def pendOf (f : LFrame) : List Nat :=
  if f.ops = [.unlock, .ret0] ∨ f.ops = [.ret0] then [0]
  else if f.ops = [.unlock, .retAdd] ∨ f.ops = [.retAdd] then [f.addv]
  else []

def optPend : Option LFrame → List Nat
  | some f => pendOf f
  | none => []

theorem pend_eq (s : LSys) (t : Nat) : s.pend t = optPend (s.pcs t) := by
  unfold LSys.pend optPend pendOf
  cases s.pcs t <;> rfl

def stagePend (addv : Nat) : Stage → List Nat
  | .miss1 | .miss2 => [0]
  | .hit1 | .hit2 => [addv]
  | _ => []

theorem pendOf_stage (f : LFrame) (st : Stage) (h : f.ops = stageOps st) : pendOf f = stagePend f.addv st := by
  unfold pendOf
  rw [h]
  cases st <;> simp [stageOps, stagePend]

structure LInv (s : LSys) : Prop where
  thr : ∀ t f, s.pcs t = some f → TInv s.holder s.gs t f
  noFault : s.fault = false
  /-- a counter stores (number of values decided) − 1, and is absent before its first call -/
  quiet : ∀ key, (gsRead s.gs key).map s.heap =
      if (logVals s.lin key).length = 0 then none else some ((logVals s.lin key).length - 1)
  fresh : ∀ key p, gsRead s.gs key = some p → p < s.next
  inj : ∀ k1 k2 p, gsRead s.gs k1 = some p → gsRead s.gs k2 = some p → k1 = k2
  /-- every counter has decided 0, 1, 2, … in order -/
  seq : ∀ key, logVals s.lin key = List.range (logVals s.lin key).length
  /-- received + about to be returned = what the linearisation order attributes to the thread -/
  gotOK : ∀ t, s.got t ++ s.pend t = logValsOf s.lin t

theorem LInv_init : LInv LSys.init where
  thr := by intro t f h; cases h
  noFault := rfl
  quiet := by intro key; rfl
  fresh := by intro key p h; cases h
  inj := by intro k1 k2 p h; cases h
  seq := by intro key; rfl
  gotOK := by intro t; rfl

/-- under the invariant, a thread other than the mutex holder keeps its per-thread invariant whatever happens to the
mutex and the map -/
theorem LInv.other {s : LSys} (h : LInv s) {t t' : Nat} {f' : LFrame} (hne : t' ≠ t) (hf : s.pcs t' = some f')
    (hh : s.holder = none ∨ s.holder = some t) (holder' : Option Nat) (gs' : List (CKey × Nat)) :
    TInv holder' gs' t' f' := by
  refine TInv_of_not_holder (h.thr t' f' hf) ?_ holder' gs'
  rcases hh with e | e
  · rw [e]; intro c; cases c
  · rw [e]; intro c; exact hne (Option.some.inj c).symm

/-- only the frame of thread `t` changes (same stage facts are re-established by the caller) -/
theorem pend_upd_other (s : LSys) (t t' : Nat) (x : Option LFrame) (hne : t' ≠ t)
    (s' : LSys) (hp : s'.pcs = upd s.pcs t x) : s'.pend t' = s.pend t' := by
  rw [pend_eq, pend_eq, hp, upd_other _ _ _ _ hne]

theorem pend_upd_same (s : LSys) (t : Nat) (x : Option LFrame) (s' : LSys) (hp : s'.pcs = upd s.pcs t x) :
    s'.pend t = optPend x := by
  rw [pend_eq, hp, upd_same]

theorem LInv_step (prog : NProg) (s : LSys) (t : Nat) (h : LInv s) : LInv (s.step nextCode prog t) := by
  unfold LSys.step
  cases hpc : s.pcs t with
  | none =>
    simp only []
    cases hp : prog t (s.got t) with
    | none => exact h
    | some key =>
      simp only []
      refine ⟨?_, h.noFault, h.quiet, h.fresh, h.inj, h.seq, ?_⟩
      · intro t' f' hf
        by_cases e : t' = t
        · subst e
          simp only [upd_same] at hf
          cases hf
          exact ⟨.start, rfl, (by intro c; cases c), (by intro c; cases c), (by intro c; cases c)⟩
        · simp only [upd_other _ _ _ _ e] at hf
          exact h.thr t' f' hf
      · intro t'
        by_cases e : t' = t
        · subst e
          have hb := h.gotOK t'
          rw [pend_eq, hpc] at hb
          rw [pend_upd_same s t' _ _ rfl]
          simpa [optPend, stagePend, pendOf, nextCode] using hb
        · rw [pend_upd_other s t t' _ e _ rfl]; exact h.gotOK t'
  | some f =>
    simp only []
    obtain ⟨st, hops, hhold, hmiss, hhit⟩ := h.thr t f hpc
    have hgot := h.gotOK t
    rw [pend_eq, hpc] at hgot
    rw [optPend, pendOf_stage f st hops] at hgot
    cases st with
    | start =>
      simp only [stageOps] at hops
      rw [hops]
      simp only []
      cases hho : s.holder with
      | some _ => simpa [hho] using h
      | none =>
        simp only []
        refine ⟨?_, h.noFault, h.quiet, h.fresh, h.inj, h.seq, ?_⟩
        · intro t' f' hf
          by_cases e : t' = t
          · subst e
            simp only [upd_same] at hf
            cases hf
            exact ⟨.locked, rfl, fun _ => rfl, (by intro c; cases c), (by intro c; cases c)⟩
          · simp only [upd_other _ _ _ _ e] at hf
            exact h.other e hf (Or.inl hho) _ _
        · intro t'
          by_cases e : t' = t
          · subst e
            rw [pend_upd_same s t' _ _ rfl]
            simpa [optPend, stagePend, pendOf] using hgot
          · rw [pend_upd_other s t t' _ e _ rfl]; exact h.gotOK t'
    | locked =>
      simp only [stageOps] at hops
      rw [hops]
      simp only []
      have hho : s.holder = some t := hhold rfl
      refine ⟨?_, h.noFault, h.quiet, h.fresh, h.inj, h.seq, ?_⟩
      · intro t' f' hf
        by_cases e : t' = t
        · subst e
          simp only [upd_same] at hf
          cases hf
          cases hr : gsRead s.gs f.key with
          | none =>
            refine ⟨.miss0, by simp [nextCode, stageOps], fun _ => hho, fun _ => hr, (by intro c; cases c)⟩
          | some p =>
            refine ⟨.hit0, by simp [nextCode, stageOps], fun _ => hho, (by intro c; cases c), fun _ => ⟨p, rfl, hr⟩⟩
        · simp only [upd_other _ _ _ _ e] at hf
          exact h.other e hf (Or.inr hho) _ _
      · intro t'
        by_cases e : t' = t
        · subst e
          rw [pend_upd_same s t' _ _ rfl]
          cases hr : gsRead s.gs f.key <;> simpa [optPend, stagePend, pendOf, nextCode, hr] using hgot
        · rw [pend_upd_other s t t' _ e _ rfl]; exact h.gotOK t'
    | miss0 =>
      simp only [stageOps] at hops
      rw [hops]
      simp only []
      have hho : s.holder = some t := hhold rfl
      have hnone : gsRead s.gs f.key = none := hmiss rfl
      have hlen0 : (logVals s.lin f.key).length = 0 := by
        have q := h.quiet f.key
        rw [hnone] at q
        by_cases c : (logVals s.lin f.key).length = 0
        · exact c
        · rw [if_neg c] at q; cases q
      refine ⟨?_, h.noFault, ?_, ?_, ?_, ?_, ?_⟩
      · intro t' f' hf
        by_cases e : t' = t
        · subst e
          simp only [upd_same] at hf
          cases hf
          exact ⟨.miss1, rfl, fun _ => hho, (by intro c; cases c), (by intro c; cases c)⟩
        · simp only [upd_other _ _ _ _ e] at hf
          exact h.other e hf (Or.inr hho) _ _
      · intro key'
        show (gsRead (gsPut s.gs f.key s.next) key').map (upd s.heap s.next 0) = _
        rw [gsRead_gsPut, vals_snoc]
        by_cases hk : key' = f.key
        · subst hk
          simp [upd_same, hlen0]
        · have hk' : ¬ f.key = key' := fun c => hk c.symm
          rw [if_neg hk, if_neg hk', ← h.quiet key']
          cases hr : gsRead s.gs key' with
          | none => rfl
          | some q =>
            have : q ≠ s.next := Nat.ne_of_lt (h.fresh key' q hr)
            simp [upd_other _ _ _ _ this]
      · intro key' p hr
        show p < s.next + 1
        rw [gsRead_gsPut] at hr
        by_cases hk : key' = f.key
        · rw [if_pos hk] at hr; cases hr; exact Nat.lt_succ_self _
        · rw [if_neg hk] at hr; exact Nat.lt_succ_of_lt (h.fresh key' p hr)
      · intro k1 k2 p h1 h2
        rw [gsRead_gsPut] at h1 h2
        by_cases e1 : k1 = f.key <;> by_cases e2 : k2 = f.key
        · rw [e1, e2]
        · rw [if_pos e1] at h1; rw [if_neg e2] at h2; cases h1
          exact absurd (h.fresh k2 _ h2) (Nat.lt_irrefl _)
        · rw [if_neg e1] at h1; rw [if_pos e2] at h2; cases h2
          exact absurd (h.fresh k1 _ h1) (Nat.lt_irrefl _)
        · rw [if_neg e1] at h1; rw [if_neg e2] at h2; exact h.inj k1 k2 p h1 h2
      · intro key'
        show logVals (s.lin ++ [(f.key, t, 0)]) key' = List.range (logVals (s.lin ++ [(f.key, t, 0)]) key').length
        rw [vals_snoc]
        by_cases hk : f.key = key'
        · subst hk
          rw [if_pos rfl, List.length_append, List.length_singleton, List.range_succ, ← h.seq f.key, hlen0]
        · rw [if_neg hk]; exact h.seq key'
      · intro t'
        show _ = logValsOf (s.lin ++ [(f.key, t, 0)]) t'
        rw [valsOf_snoc]
        by_cases e : t' = t
        · subst e
          rw [pend_upd_same s t' _ _ rfl, if_pos rfl]
          simp only [stagePend, List.append_nil] at hgot
          simp [optPend, pendOf, hgot]
        · have e' : ¬ t = t' := fun c => e c.symm
          rw [pend_upd_other s t t' _ e _ rfl, if_neg e']; exact h.gotOK t'
    | miss1 =>
      simp only [stageOps] at hops
      rw [hops]
      simp only []
      have hho : s.holder = some t := hhold rfl
      rw [hho]
      simp only []
      refine ⟨?_, h.noFault, h.quiet, h.fresh, h.inj, h.seq, ?_⟩
      · intro t' f' hf
        by_cases e : t' = t
        · subst e
          simp only [upd_same] at hf
          cases hf
          exact ⟨.miss2, rfl, (by intro c; cases c), (by intro c; cases c), (by intro c; cases c)⟩
        · simp only [upd_other _ _ _ _ e] at hf
          exact h.other e hf (Or.inr hho) _ _
      · intro t'
        by_cases e : t' = t
        · subst e
          rw [pend_upd_same s t' _ _ rfl]
          simpa [optPend, stagePend, pendOf] using hgot
        · rw [pend_upd_other s t t' _ e _ rfl]; exact h.gotOK t'
    | miss2 =>
      simp only [stageOps] at hops
      rw [hops]
      simp only []
      refine ⟨?_, h.noFault, h.quiet, h.fresh, h.inj, h.seq, ?_⟩
      · intro t' f' hf
        by_cases e : t' = t
        · subst e
          simp only [upd_same] at hf
          cases hf
        · simp only [upd_other _ _ _ _ e] at hf
          exact h.thr t' f' hf
      · intro t'
        by_cases e : t' = t
        · subst e
          rw [pend_upd_same s t' _ _ rfl]
          simpa [upd_same, optPend, stagePend] using hgot
        · rw [pend_upd_other s t t' _ e _ rfl]
          show upd s.got t _ t' ++ _ = _
          rw [upd_other _ _ _ _ e]; exact h.gotOK t'
    | hit0 =>
      simp only [stageOps] at hops
      rw [hops]
      simp only []
      have hho : s.holder = some t := hhold rfl
      obtain ⟨p, hptr, hgs⟩ := hhit rfl
      rw [hptr]
      simp only []
      have hq := h.quiet f.key
      rw [hgs] at hq
      have hlen : (logVals s.lin f.key).length ≠ 0 ∧ s.heap p = (logVals s.lin f.key).length - 1 := by
        by_cases c : (logVals s.lin f.key).length = 0
        · rw [if_pos c] at hq; cases hq
        · rw [if_neg c] at hq
          exact ⟨c, Option.some.inj hq⟩
      have hv : s.heap p + 1 = (logVals s.lin f.key).length := by omega
      refine ⟨?_, h.noFault, ?_, h.fresh, h.inj, ?_, ?_⟩
      · intro t' f' hf
        by_cases e : t' = t
        · subst e
          simp only [upd_same] at hf
          cases hf
          exact ⟨.hit1, rfl, fun _ => hho, (by intro c; cases c), (by intro c; cases c)⟩
        · simp only [upd_other _ _ _ _ e] at hf
          exact h.other e hf (Or.inr hho) _ _
      · intro key'
        show (gsRead s.gs key').map (upd s.heap p (s.heap p + 1)) = _
        rw [vals_snoc]
        by_cases hk : f.key = key'
        · subst hk
          rw [if_pos rfl, hgs]
          simp [upd_same, hv]
        · rw [if_neg hk, ← h.quiet key']
          cases hr : gsRead s.gs key' with
          | none => rfl
          | some q =>
            have : q ≠ p := by
              intro c; subst c
              exact hk (h.inj f.key key' q hgs hr)
            simp [upd_other _ _ _ _ this]
      · intro key'
        show logVals (s.lin ++ [(f.key, t, s.heap p + 1)]) key' =
          List.range (logVals (s.lin ++ [(f.key, t, s.heap p + 1)]) key').length
        rw [vals_snoc]
        by_cases hk : f.key = key'
        · subst hk
          rw [if_pos rfl, List.length_append, List.length_singleton, List.range_succ, ← h.seq f.key, hv]
        · rw [if_neg hk]; exact h.seq key'
      · intro t'
        show _ = logValsOf (s.lin ++ [(f.key, t, s.heap p + 1)]) t'
        rw [valsOf_snoc]
        by_cases e : t' = t
        · subst e
          rw [pend_upd_same s t' _ _ rfl, if_pos rfl]
          simp only [stagePend, List.append_nil] at hgot
          simp [optPend, pendOf, hgot]
        · have e' : ¬ t = t' := fun c => e c.symm
          rw [pend_upd_other s t t' _ e _ rfl, if_neg e']; exact h.gotOK t'
    | hit1 =>
      simp only [stageOps] at hops
      rw [hops]
      simp only []
      have hho : s.holder = some t := hhold rfl
      rw [hho]
      simp only []
      refine ⟨?_, h.noFault, h.quiet, h.fresh, h.inj, h.seq, ?_⟩
      · intro t' f' hf
        by_cases e : t' = t
        · subst e
          simp only [upd_same] at hf
          cases hf
          exact ⟨.hit2, rfl, (by intro c; cases c), (by intro c; cases c), (by intro c; cases c)⟩
        · simp only [upd_other _ _ _ _ e] at hf
          exact h.other e hf (Or.inr hho) _ _
      · intro t'
        by_cases e : t' = t
        · subst e
          rw [pend_upd_same s t' _ _ rfl]
          simpa [optPend, stagePend, pendOf] using hgot
        · rw [pend_upd_other s t t' _ e _ rfl]; exact h.gotOK t'
    | hit2 =>
      simp only [stageOps] at hops
      rw [hops]
      simp only []
      refine ⟨?_, h.noFault, h.quiet, h.fresh, h.inj, h.seq, ?_⟩
      · intro t' f' hf
        by_cases e : t' = t
        · subst e
          simp only [upd_same] at hf
          cases hf
        · simp only [upd_other _ _ _ _ e] at hf
          exact h.thr t' f' hf
      · intro t'
        by_cases e : t' = t
        · subst e
          rw [pend_upd_same s t' _ _ rfl]
          simpa [upd_same, optPend, stagePend] using hgot
        · rw [pend_upd_other s t t' _ e _ rfl]
          show upd s.got t _ t' ++ _ = _
          rw [upd_other _ _ _ _ e]; exact h.gotOK t'

/-- between its `lock` and its `unlock` -/
def inCrit (ops : List NOp) : Bool :=
  ops == [.mapGet] || ops == nextCode.miss || ops == [.unlock, .ret0] || ops == nextCode.hit || ops == [.unlock, .retAdd]

theorem LInv.excl {s : LSys} (h : LInv s) (t : Nat) (f : LFrame) (hf : s.pcs t = some f) (hc : inCrit f.ops = true) :
    s.holder = some t := by
  obtain ⟨st, hops, hh, _, _⟩ := h.thr t f hf
  apply hh
  rw [hops] at hc
  revert hc
  cases st <;> decide

theorem LInv_run (prog : NProg) (sched : List Nat) : ∀ (s : LSys), LInv s → LInv (s.run nextCode prog sched) := by
  induction sched with
  | nil => intro s h; exact h
  | cons t rest ih => intro s h; exact ih _ (LInv_step prog s t h)

end Pandora.Proofs.C15
