/-
C02 — facts about the flat specification (`Spec/C02Flat.lean`): how `segNext` / `segLeft` distribute over
`++` (used by the refinement proofs) and the clauses of the token contract themselves, proved once, on the
flat list of parts.
-/
import Pandora.Spec.C02Flat

set_option linter.unusedVariables false

namespace Pandora.Proofs.C02Flat
open Pandora.Spec.C02

/-! ### Dead -/

theorem dead_mono : ∀ {a : List Seg} {clk clk' : Int}, Dead a clk → clk ≤ clk' → Dead a clk'
  | [], _, _, _, _ => trivial
  | .fin _ _ :: r, _, _, h, hle => ⟨h.1, dead_mono (a := r) h.2 hle⟩
  | .unl _ _ :: r, _, _, h, hle => ⟨by have := h.1; omega, dead_mono (a := r) h.2 hle⟩

theorem dead_append : ∀ (a b : List Seg) (clk : Int), Dead (a ++ b) clk ↔ Dead a clk ∧ Dead b clk
  | [], b, clk => by simp [Dead]
  | .fin toks f :: r, b, clk => by simp [Dead, dead_append r b clk, and_assoc]
  | .unl s f :: r, b, clk => by simp [Dead, dead_append r b clk, and_assoc]

/-! ### finOf -/

theorem finOf_append : ∀ (a b : List Seg) (d : Int), finOf (a ++ b) d = finOf b (finOf a d)
  | [], _, _ => rfl
  | .fin _ f :: r, b, _ => by simp [finOf, finOf_append r b f]
  | .unl _ f :: r, b, _ => by simp [finOf, finOf_append r b f]

theorem finOf_default : ∀ {a : List Seg} (d d' : Int), a ≠ [] → finOf a d = finOf a d'
  | [], _, _, h => absurd rfl h
  | .fin _ _ :: _, _, _, _ => rfl
  | .unl _ _ :: _, _, _, _ => rfl

/-! ### segNext -/

theorem segNextAux_append : ∀ (a b : List Seg) (l now : Int),
    segNextAux l (a ++ b) now =
      if (segNextAux l a now).2.2 then ((segNextAux l a now).1 ++ b, (segNextAux l a now).2)
      else ((segNextAux l a now).1 ++ (segNextAux (segNextAux l a now).2.1 b now).1,
            (segNextAux (segNextAux l a now).2.1 b now).2)
  | [], b, l, now => by simp [segNextAux]
  | .fin (t :: ts) f :: r, b, l, now => by simp [segNextAux]
  | .fin [] f :: r, b, l, now => by
      have ih := segNextAux_append r b f now
      simp only [List.cons_append, segNextAux, ih]
      split <;> simp [*]
  | .unl s f :: r, b, l, now => by
      have ih := segNextAux_append r b f now
      simp only [List.cons_append, segNextAux]
      by_cases h : now < f
      · simp [h]
      · simp only [h, if_false, ih]
        split <;> simp [*]

theorem segNextAux_notok : ∀ (a : List Seg) (l now : Int), (segNextAux l a now).2.2 = false →
    Dead a now ∧ (segNextAux l a now).1 = a ∧ (segNextAux l a now).2.1 = finOf a l
  | [], l, now, _ => ⟨trivial, rfl, rfl⟩
  | .fin (t :: ts) f :: r, l, now, h => by simp [segNextAux] at h
  | .fin [] f :: r, l, now, h => by
      simp only [segNextAux] at h ⊢
      obtain ⟨h1, h2, h3⟩ := segNextAux_notok r f now h
      exact ⟨⟨rfl, h1⟩, by rw [h2], by simpa [finOf] using h3⟩
  | .unl s f :: r, l, now, h => by
      simp only [segNextAux] at h ⊢
      by_cases hlt : now < f
      · simp [hlt] at h
      · simp only [hlt, if_false] at h ⊢
        obtain ⟨h1, h2, h3⟩ := segNextAux_notok r f now h
        exact ⟨⟨by omega, h1⟩, by rw [h2], by simpa [finOf] using h3⟩

theorem segNextAux_dead : ∀ (a : List Seg) (l clk now : Int), Dead a clk → clk ≤ now →
    segNextAux l a now = (a, finOf a l, false)
  | [], _, _, _, _, _ => rfl
  | .fin toks f :: r, l, clk, now, h, hle => by
      obtain ⟨h1, h2⟩ := h
      subst h1
      simp [segNextAux, finOf, segNextAux_dead r f clk now h2 hle]
  | .unl s f :: r, l, clk, now, h, hle => by
      obtain ⟨h1, h2⟩ := h
      have : ¬ now < f := by omega
      simp [segNextAux, finOf, this, segNextAux_dead r f clk now h2 hle]

theorem finOf_segNextAux : ∀ (a : List Seg) (l now d : Int), finOf (segNextAux l a now).1 d = finOf a d
  | [], _, _, _ => rfl
  | .fin (t :: ts) f :: r, _, _, _ => rfl
  | .fin [] f :: r, l, now, d => by simp [segNextAux, finOf, finOf_segNextAux r f now f]
  | .unl s f :: r, l, now, d => by
      by_cases h : now < f <;> simp [segNextAux, finOf, h, finOf_segNextAux r f now f]

theorem segNextAux_default : ∀ {a : List Seg} (l l' now : Int), a ≠ [] → segNextAux l a now = segNextAux l' a now
  | [], _, _, _, h => absurd rfl h
  | .fin (t :: ts) f :: r, _, _, _, _ => rfl
  | .fin [] f :: r, _, _, _, _ => rfl
  | .unl s f :: r, _, _, _, _ => rfl

theorem segNextAux_ne : ∀ (a : List Seg) (l now : Int), a ≠ [] → (segNextAux l a now).1 ≠ []
  | [], _, _, h => absurd rfl h
  | .fin (t :: ts) f :: r, _, _, _ => by simp [segNextAux]
  | .fin [] f :: r, _, _, _ => by simp [segNextAux]
  | .unl s f :: r, _, now, _ => by by_cases h : now < f <;> simp [segNextAux, h]

/-- ok results: the state changes only by popping -/
theorem dead_segNextAux : ∀ (a : List Seg) (l now clk : Int), Dead a clk → Dead (segNextAux l a now).1 clk
  | [], _, _, _, _ => trivial
  | .fin (t :: ts) f :: r, _, _, _, h => by simp [Dead] at h
  | .fin [] f :: r, l, now, clk, h => ⟨rfl, dead_segNextAux r f now clk h.2⟩
  | .unl s f :: r, l, now, clk, h => by
      by_cases hlt : now < f
      · simpa [segNextAux, hlt] using h
      · simp only [segNextAux, hlt, if_false]; exact ⟨h.1, dead_segNextAux r f now clk h.2⟩

/-! ### counts -/

theorem pendSegs_ge : ∀ (a : List Seg), -1 ≤ pendSegs a
  | [] => by simp [pendSegs]
  | .unl _ _ :: _ => by simp [pendSegs]
  | .fin toks _ :: r => by
      have := pendSegs_ge r
      simp only [pendSegs]; split <;> omega

theorem partsLeft_ge : ∀ (a : List Part), -1 ≤ partsLeft a
  | [] => by simp [partsLeft]
  | .unl _ :: _ => by simp [partsLeft]
  | .fin offs _ :: r => by
      have := partsLeft_ge r
      simp only [partsLeft]; split <;> omega

theorem pendSegs_append : ∀ (a b : List Seg),
    pendSegs (a ++ b) = if pendSegs a < 0 ∨ pendSegs b < 0 then -1 else pendSegs a + pendSegs b
  | [], b => by
      have := pendSegs_ge b
      simp only [List.nil_append, pendSegs]
      by_cases h : pendSegs b < 0
      · simp [h]; omega
      · simp [h]
  | .unl _ _ :: r, b => by simp [pendSegs]
  | .fin toks _ :: r, b => by
      have ih := pendSegs_append r b
      have h1 := pendSegs_ge r
      have h2 := pendSegs_ge b
      simp only [List.cons_append, pendSegs, ih]
      repeat' split
      all_goals omega

theorem partsLeft_append : ∀ (a b : List Part),
    partsLeft (a ++ b) = if partsLeft a < 0 ∨ partsLeft b < 0 then -1 else partsLeft a + partsLeft b
  | [], b => by
      have := partsLeft_ge b
      simp only [List.nil_append, partsLeft]
      by_cases h : partsLeft b < 0
      · simp [h]; omega
      · simp [h]
  | .unl _ :: r, b => by simp [partsLeft]
  | .fin offs _ :: r, b => by
      have ih := partsLeft_append r b
      have h1 := partsLeft_ge r
      have h2 := partsLeft_ge b
      simp only [List.cons_append, partsLeft, ih]
      repeat' split
      all_goals omega

theorem pendSegs_inst : ∀ (p : List Part) (t : Int), pendSegs (inst p t) = partsLeft p
  | [], _ => rfl
  | .unl _ :: _, _ => rfl
  | .fin offs dur :: r, t => by simp [inst, pendSegs, partsLeft, pendSegs_inst r (t + dur)]

theorem inst_append : ∀ (a b : List Part) (t : Int), inst (a ++ b) t = inst a t ++ inst b (endOf a t)
  | [], _, _ => rfl
  | .fin offs dur :: r, b, t => by simp [inst, endOf, Part.dur, inst_append r b (t + dur)]
  | .unl dur :: r, b, t => by simp [inst, endOf, Part.dur, inst_append r b (t + dur)]

theorem endOf_append : ∀ (a b : List Part) (t : Int), endOf (a ++ b) t = endOf b (endOf a t)
  | [], _, _ => rfl
  | p :: r, b, t => by simp [endOf, endOf_append r b (t + p.dur)]

theorem finOf_inst : ∀ (p : List Part) (t : Int), finOf (inst p t) t = endOf p t
  | [], _ => rfl
  | .fin offs dur :: r, t => by simpa [inst, finOf, endOf, Part.dur] using finOf_inst r (t + dur)
  | .unl dur :: r, t => by simpa [inst, finOf, endOf, Part.dur] using finOf_inst r (t + dur)

theorem inst_ne : ∀ {p : List Part} (t : Int), p ≠ [] → inst p t ≠ []
  | [], _, h => absurd rfl h
  | .fin _ _ :: _, _, _ => by simp [inst]
  | .unl _ :: _, _, _ => by simp [inst]

theorem dead_inst_of_zero : ∀ (p : List Part) (t clk : Int), partsLeft p = 0 → Dead (inst p t) clk
  | [], _, _, _ => trivial
  | .unl _ :: _, _, _, h => by simp [partsLeft] at h
  | .fin offs dur :: r, t, clk, h => by
      have hr := partsLeft_ge r
      simp only [partsLeft] at h
      split at h
      · omega
      · have h0 : offs.length = 0 := by omega
        have hr0 : partsLeft r = 0 := by omega
        refine ⟨by simp [List.length_eq_zero_iff.mp h0], dead_inst_of_zero r (t + dur) clk hr0⟩

/-! ### segLeft -/

theorem segLeft_ge : ∀ (a : List Seg) (now : Int), -1 ≤ segLeft a now
  | [], _ => by simp [segLeft]
  | .fin toks _ :: r, now => by
      have := segLeft_ge r now
      have := pendSegs_ge r
      simp only [segLeft]
      repeat' split
      all_goals omega
  | .unl _ f :: r, now => by
      have := segLeft_ge r now
      simp only [segLeft]; split <;> omega

theorem segLeft_dead_append : ∀ (a b : List Seg) (clk now : Int), Dead a clk → clk ≤ now →
    segLeft (a ++ b) now = segLeft b now
  | [], _, _, _, _, _ => rfl
  | .fin toks f :: r, b, clk, now, h, hle => by
      obtain ⟨h1, h2⟩ := h
      subst h1
      simp [segLeft, segLeft_dead_append r b clk now h2 hle]
  | .unl s f :: r, b, clk, now, h, hle => by
      obtain ⟨h1, h2⟩ := h
      have : ¬ now < f := by omega
      simp [segLeft, this, segLeft_dead_append r b clk now h2 hle]

theorem segLeft_zero_iff : ∀ (a : List Seg) (now : Int), segLeft a now = 0 ↔ Dead a now
  | [], _ => by simp [segLeft, Dead]
  | .fin toks f :: r, now => by
      have hp := pendSegs_ge r
      simp only [segLeft, Dead]
      cases toks with
      | nil => simp [segLeft_zero_iff r now]
      | cons t ts =>
        simp only [List.isEmpty_cons, Bool.false_eq_true, if_false, List.length_cons]
        constructor
        · intro h; split at h <;> omega
        · intro h; simp at h
  | .unl s f :: r, now => by
      simp only [segLeft, Dead]
      by_cases h : now < f
      · simp only [h, if_true]; constructor
        · intro h'; omega
        · intro h'; omega
      · simp only [h, if_false, segLeft_zero_iff r now]
        constructor
        · intro h'; exact ⟨by omega, h'⟩
        · intro h'; exact h'.2

theorem segLeft_of_pend : ∀ (a : List Seg) (now : Int), 0 ≤ pendSegs a → segLeft a now = pendSegs a
  | [], _, _ => rfl
  | .unl _ _ :: _, _, h => by simp [pendSegs] at h
  | .fin toks f :: r, now, h => by
      have hp := pendSegs_ge r
      simp only [pendSegs] at h
      split at h
      · omega
      · rename_i hu
        have ih := segLeft_of_pend r now (by omega)
        simp only [segLeft, pendSegs, hu, if_false]
        cases toks with
        | nil => simp [ih]
        | cons t ts => simp

theorem segLeft_neg_append : ∀ (a b : List Seg) (now : Int), segLeft a now < 0 → segLeft (a ++ b) now = -1
  | [], _, _, h => by simp [segLeft] at h
  | .fin toks f :: r, b, now, h => by
      simp only [segLeft] at h
      simp only [List.cons_append, segLeft]
      cases toks with
      | nil =>
        simp only [List.isEmpty_nil, if_true] at h ⊢
        exact segLeft_neg_append r b now h
      | cons t ts =>
        simp only [List.isEmpty_cons, Bool.false_eq_true, if_false] at h ⊢
        have hp := pendSegs_ge r
        have hu : pendSegs r < 0 := by
          split at h
          · assumption
          · simp only [List.length_cons] at h; omega
        have : pendSegs (r ++ b) < 0 := by
          rw [pendSegs_append]; simp [hu]
        simp [this]
  | .unl s f :: r, b, now, h => by
      simp only [segLeft] at h
      simp only [List.cons_append, segLeft]
      by_cases hlt : now < f
      · simp [hlt]
      · simp only [hlt, if_false] at h ⊢
        exact segLeft_neg_append r b now h

theorem segLeft_pos_append : ∀ (a b : List Seg) (now : Int), 0 < segLeft a now →
    segLeft (a ++ b) now = if pendSegs b < 0 then -1 else segLeft a now + pendSegs b
  | [], _, _, h => by simp [segLeft] at h
  | .fin toks f :: r, b, now, h => by
      simp only [segLeft] at h
      simp only [List.cons_append, segLeft]
      cases toks with
      | nil =>
        simp only [List.isEmpty_nil, if_true] at h ⊢
        exact segLeft_pos_append r b now h
      | cons t ts =>
        simp only [List.isEmpty_cons, Bool.false_eq_true, if_false] at h ⊢
        have hp := pendSegs_ge r
        have hb := pendSegs_ge b
        have hu : ¬ pendSegs r < 0 := by
          intro hu; simp [hu] at h
        rw [pendSegs_append]
        simp only [hu, false_or, if_false]
        by_cases hbn : pendSegs b < 0
        · simp [hbn]
        · have : ¬ (pendSegs r + pendSegs b < 0) := by omega
          simp only [hbn, if_false, this]
          omega
  | .unl s f :: r, b, now, h => by
      simp only [segLeft] at h
      simp only [List.cons_append, segLeft]
      by_cases hlt : now < f
      · simp [hlt] at h
      · simp only [hlt, if_false] at h ⊢
        exact segLeft_pos_append r b now h

/-! ## The clauses of the token contract, on the flat spec -/

/-- a clock token of a live unlimited part: every part before it is dead, the clock is before its finish,
the token is the clock reading but never before the part's start -/
def UnlTok (a : List Seg) (now tx : Int) : Prop :=
  ∃ pre s f post, a = pre ++ Seg.unl s f :: post ∧ Dead pre now ∧ now < f ∧ tx = max now s

/-- **exactly once**: an ok `Next` either pops the first remaining token of the finite parts (and nothing else
changes), or is a clock token of a live unlimited part and leaves every finite token where it is; a `!ok`
`Next` changes nothing. -/
theorem segNextAux_finToks : ∀ (a : List Seg) (l now : Int),
    ((segNextAux l a now).2.2 = true ∧ finToks a = (segNextAux l a now).2.1 :: finToks (segNextAux l a now).1) ∨
    (finToks (segNextAux l a now).1 = finToks a ∧
      ((segNextAux l a now).2.2 = true → UnlTok a now (segNextAux l a now).2.1))
  | [], _, _ => Or.inr ⟨rfl, by simp [segNextAux]⟩
  | .fin (t :: ts) f :: r, _, _ => Or.inl ⟨rfl, by simp [segNextAux, finToks]⟩
  | .fin [] f :: r, l, now => by
      simp only [segNextAux, finToks, List.nil_append]
      rcases segNextAux_finToks r f now with ⟨h1, h2⟩ | ⟨h1, h2⟩
      · exact Or.inl ⟨h1, h2⟩
      · refine Or.inr ⟨h1, fun hok => ?_⟩
        obtain ⟨pre, s, f', post, rfl, hd, hlt, htx⟩ := h2 hok
        exact ⟨.fin [] f :: pre, s, f', post, rfl, ⟨rfl, hd⟩, hlt, htx⟩
  | .unl s f :: r, l, now => by
      by_cases hlt : now < f
      · exact Or.inr ⟨by simp [segNextAux, hlt, finToks],
          fun _ => ⟨[], s, f, r, rfl, trivial, hlt, by simp [segNextAux, hlt]⟩⟩
      · simp only [segNextAux, hlt, if_false, finToks]
        rcases segNextAux_finToks r f now with ⟨h1, h2⟩ | ⟨h1, h2⟩
        · exact Or.inl ⟨h1, h2⟩
        · refine Or.inr ⟨h1, fun hok => ?_⟩
          obtain ⟨pre, s', f', post, rfl, hd, hlt', htx⟩ := h2 hok
          exact ⟨.unl s f :: pre, s', f', post, rfl, ⟨by omega, hd⟩, hlt', htx⟩

/-- the finite tokens still to come are counted by `pendSegs` when it is known -/
theorem pendSegs_finToks : ∀ (a : List Seg), 0 ≤ pendSegs a → pendSegs a = ((finToks a).length : Int)
  | [], _ => rfl
  | .unl _ _ :: _, h => by simp [pendSegs] at h
  | .fin toks f :: r, h => by
      have hp := pendSegs_ge r
      simp only [pendSegs] at h ⊢
      split at h
      · omega
      · rename_i hu
        have ih := pendSegs_finToks r (by omega)
        simp only [hu, if_false, finToks, List.length_append, ih]
        omega

/-- a known `Left` stays what it is while the clock advances and nobody draws -/
theorem segLeft_known_stable : ∀ (a : List Seg) (now now' : Int), 0 ≤ segLeft a now → now ≤ now' →
    segLeft a now' = segLeft a now
  | [], _, _, _, _ => rfl
  | .fin toks f :: r, now, now', h, hle => by
      simp only [segLeft] at h ⊢
      cases toks with
      | nil =>
        simp only [List.isEmpty_nil, if_true] at h ⊢
        exact segLeft_known_stable r now now' h hle
      | cons t ts => rfl
  | .unl s f :: r, now, now', h, hle => by
      simp only [segLeft] at h ⊢
      by_cases hlt : now < f
      · simp [hlt] at h
      · have : ¬ now' < f := by omega
        simp only [hlt, this, if_false] at h ⊢
        exact segLeft_known_stable r now now' h hle

/-- **Left is exact when it is non-negative**: zero ⇒ the next `Next` (at any later clock) is `!ok` and nothing
changes; positive ⇒ the next `Next` is ok and `Left` drops by exactly one. -/
theorem segLeft_step : ∀ (a : List Seg) (l now : Int), 0 ≤ segLeft a now →
    (segNextAux l a now).2.2 = decide (0 < segLeft a now) ∧
    segLeft (segNextAux l a now).1 now = segLeft a now - (if 0 < segLeft a now then 1 else 0)
  | [], _, _, _ => by simp [segNextAux, segLeft]
  | .fin (t :: ts) f :: r, l, now, h => by
      have hp := pendSegs_ge r
      simp only [segLeft, List.isEmpty_cons, Bool.false_eq_true, if_false, List.length_cons] at h
      have hu : ¬ pendSegs r < 0 := by
        intro hu; simp [hu] at h
      simp only [hu, if_false] at h
      have hpos : 0 < segLeft (Seg.fin (t :: ts) f :: r) now := by
        simp only [segLeft, List.isEmpty_cons, Bool.false_eq_true, if_false, hu, List.length_cons]; omega
      refine ⟨by simp [segNextAux, hpos], ?_⟩
      simp only [hpos, if_true]
      simp only [segNextAux, segLeft, List.isEmpty_cons, Bool.false_eq_true, if_false, hu, List.length_cons]
      cases ts with
      | nil =>
        simp only [List.isEmpty_nil, if_true, List.length_nil]
        rw [segLeft_of_pend r now (by omega)]; omega
      | cons t' ts' =>
        simp only [List.isEmpty_cons, Bool.false_eq_true, if_false, hu, List.length_cons]; omega
  | .fin [] f :: r, l, now, h => by
      simp only [segLeft, List.isEmpty_nil, if_true] at h ⊢
      simp only [segNextAux, segLeft, List.isEmpty_nil, if_true]
      exact segLeft_step r f now h
  | .unl s f :: r, l, now, h => by
      simp only [segLeft] at h ⊢
      by_cases hlt : now < f
      · simp [hlt] at h
      · simp only [hlt, if_false] at h ⊢
        simp only [segNextAux, hlt, if_false, segLeft]
        exact segLeft_step r f now h

theorem pendSegs_neg_unl : ∀ (a : List Seg), pendSegs a < 0 → ∃ pre s f post, a = pre ++ Seg.unl s f :: post
  | [], h => by simp [pendSegs] at h
  | .unl s f :: r, _ => ⟨[], s, f, r, rfl⟩
  | .fin toks f :: r, h => by
      have hp := pendSegs_ge r
      simp only [pendSegs] at h
      have hu : pendSegs r < 0 := by
        split at h
        · assumption
        · omega
      obtain ⟨pre, s, f', post, rfl⟩ := pendSegs_neg_unl r hu
      exact ⟨.fin toks f :: pre, s, f', post, rfl⟩

/-- **Left is negative only while the total is genuinely unknown**: there is a time-bounded unlimited part that
has not finished yet — either it is not reached yet (something before it is still alive), or it is the current
part and the clock is before its finish time. -/
theorem segLeft_neg : ∀ (a : List Seg) (now : Int), segLeft a now < 0 →
    ∃ pre s f post, a = pre ++ Seg.unl s f :: post ∧ (Dead pre now → now < f)
  | [], _, h => by simp [segLeft] at h
  | .fin (t :: ts) f :: r, now, h => by
      have hp := pendSegs_ge r
      simp only [segLeft, List.isEmpty_cons, Bool.false_eq_true, if_false, List.length_cons] at h
      have hu : pendSegs r < 0 := by
        split at h
        · assumption
        · omega
      obtain ⟨pre, s, f', post, rfl⟩ := pendSegs_neg_unl r hu
      exact ⟨.fin (t :: ts) f :: pre, s, f', post, rfl, fun hd => by simp [Dead] at hd⟩
  | .fin [] f :: r, now, h => by
      simp only [segLeft, List.isEmpty_nil, if_true] at h
      obtain ⟨pre, s, f', post, rfl, hd⟩ := segLeft_neg r now h
      exact ⟨.fin [] f :: pre, s, f', post, rfl, fun hd' => hd hd'.2⟩
  | .unl s f :: r, now, h => by
      simp only [segLeft] at h
      by_cases hlt : now < f
      · exact ⟨[], s, f, r, rfl, fun _ => hlt⟩
      · simp only [hlt, if_false] at h
        obtain ⟨pre, s', f', post, rfl, hd⟩ := segLeft_neg r now h
        exact ⟨.unl s f :: pre, s', f', post, rfl, fun hd' => hd hd'.2⟩

/-- and when `Left` is known, no unlimited part is alive: the count is exactly the number of finite tokens left -/
theorem segLeft_exact : ∀ (a : List Seg) (now : Int), 0 ≤ segLeft a now →
    ∃ pre post, a = pre ++ post ∧ Dead pre now ∧ 0 ≤ pendSegs post ∧ segLeft a now = ((finToks post).length : Int)
  | [], _, _ => ⟨[], [], rfl, trivial, by simp [pendSegs], rfl⟩
  | .fin (t :: ts) f :: r, now, h => by
      have hp := pendSegs_ge r
      simp only [segLeft, List.isEmpty_cons, Bool.false_eq_true, if_false, List.length_cons] at h ⊢
      have hu : ¬ pendSegs r < 0 := by
        intro hu; simp [hu] at h
      have hpp : 0 ≤ pendSegs (Seg.fin (t :: ts) f :: r) := by
        simp only [pendSegs, hu, if_false, List.length_cons]; omega
      refine ⟨[], _, rfl, trivial, hpp, ?_⟩
      rw [← pendSegs_finToks _ hpp]
      simp [pendSegs, hu]
  | .fin [] f :: r, now, h => by
      simp only [segLeft, List.isEmpty_nil, if_true] at h ⊢
      obtain ⟨pre, post, rfl, hd, hp, he⟩ := segLeft_exact r now h
      exact ⟨.fin [] f :: pre, post, rfl, ⟨rfl, hd⟩, hp, he⟩
  | .unl s f :: r, now, h => by
      simp only [segLeft] at h ⊢
      by_cases hlt : now < f
      · simp [hlt] at h
      · simp only [hlt, if_false] at h ⊢
        obtain ⟨pre, post, rfl, hd, hp, he⟩ := segLeft_exact r now h
        exact ⟨.unl s f :: pre, post, rfl, ⟨by omega, hd⟩, hp, he⟩

/-! ### times never decrease -/

/-- static well-formedness of a chain whose first part starts at `b` or later: every part finishes after it
starts, the next one starts at that finish time, finite tokens are sorted and lie inside their part -/
def Chain (b : Int) : List Seg → Prop
  | [] => True
  | .fin toks f :: r => b ≤ f ∧ toks.Pairwise (· ≤ ·) ∧ (∀ t ∈ toks, b ≤ t ∧ t ≤ f) ∧ Chain f r
  | .unl s f :: r => b ≤ s ∧ s ≤ f ∧ Chain f r

theorem Chain.weaken : ∀ {a : List Seg} {b b' : Int}, Chain b a → b' ≤ b → Chain b' a
  | [], _, _, _, _ => trivial
  | .fin toks f :: r, b, b', h, hle =>
      ⟨by have := h.1; omega, h.2.1, fun t ht => ⟨by have := (h.2.2.1 t ht).1; omega, (h.2.2.1 t ht).2⟩, h.2.2.2⟩
  | .unl s f :: r, b, b', h, hle => ⟨by have := h.1; omega, h.2.1, h.2.2⟩

/-- every time the chain ever returns lies at or after its start; popping keeps the chain well formed -/
theorem chain_next : ∀ (a : List Seg) (b l now : Int), Chain b a → b ≤ l →
    b ≤ (segNextAux l a now).2.1 ∧ Chain b (segNextAux l a now).1
  | [], _, _, _, _, hl => ⟨hl, trivial⟩
  | .fin (t :: ts) f :: r, b, l, now, h, _ => by
      obtain ⟨h1, h2, h3, h4⟩ := h
      refine ⟨(h3 t (by simp)).1, h1, (List.pairwise_cons.mp h2).2, fun x hx => h3 x (by simp [hx]), h4⟩
  | .fin [] f :: r, b, l, now, h, _ => by
      obtain ⟨h1, h2, h3, h4⟩ := h
      obtain ⟨ih1, ih2⟩ := chain_next r f f now h4 (by omega)
      exact ⟨by simp only [segNextAux]; omega, h1, h2, h3, ih2⟩
  | .unl s f :: r, b, l, now, h, _ => by
      obtain ⟨h1, h2, h3⟩ := h
      by_cases hlt : now < f
      · simp only [segNextAux, hlt, if_true]
        exact ⟨by omega, h1, h2, h3⟩
      · simp only [segNextAux, hlt, if_false]
        obtain ⟨ih1, ih2⟩ := chain_next r f f now h3 (by omega)
        exact ⟨by omega, h1, h2, ih2⟩

/-- **times never decrease**: two successive `Next` calls, the clock not going back in between -/
theorem chain_mono : ∀ (a : List Seg) (b l now1 now2 : Int), Chain b a → b ≤ l → now1 ≤ now2 →
    (segNextAux l a now1).2.1 ≤ (segNextAux l (segNextAux l a now1).1 now2).2.1
  | [], _, _, _, _, _, _, _ => by simp [segNextAux]
  | .fin (t :: ts) f :: r, b, l, now1, now2, h, _, _ => by
      obtain ⟨h1, h2, h3, h4⟩ := h
      simp only [segNextAux]
      cases ts with
      | nil =>
        simp only [segNextAux]
        have := (chain_next r f f now2 h4 (by omega)).1
        have := (h3 t (by simp)).2
        omega
      | cons t' ts' =>
        simp only [segNextAux]
        exact (List.pairwise_cons.mp h2).1 t' (by simp)
  | .fin [] f :: r, b, l, now1, now2, h, _, hn => by
      obtain ⟨h1, h2, h3, h4⟩ := h
      simp only [segNextAux]
      exact chain_mono r f f now1 now2 h4 (by omega) hn
  | .unl s f :: r, b, l, now1, now2, h, _, hn => by
      obtain ⟨h1, h2, h3⟩ := h
      by_cases hlt : now1 < f
      · simp only [segNextAux, hlt, if_true]
        by_cases hlt2 : now2 < f
        · simp only [hlt2, if_true]; omega
        · simp only [hlt2, if_false]
          have := (chain_next r f f now2 h3 (by omega)).1
          omega
      · have hlt2 : ¬ now2 < f := by omega
        simp only [segNextAux, hlt, hlt2, if_false]
        exact chain_mono r f f now1 now2 h3 (by omega) hn

theorem sortedB_pairwise : ∀ (l : List Int), sortedB l = true → l.Pairwise (· ≤ ·)
  | [], _ => List.Pairwise.nil
  | [_], _ => by simp
  | a :: b :: r, h => by
      simp only [sortedB, Bool.and_eq_true, decide_eq_true_eq] at h
      have ih := sortedB_pairwise (b :: r) h.2
      refine List.pairwise_cons.mpr ⟨?_, ih⟩
      intro x hx
      rcases List.mem_cons.mp hx with rfl | hx
      · exact h.1
      · have := (List.pairwise_cons.mp ih).1 x hx
        omega

/-- parts as once/const/line/unlimited produce them give a well-formed chain, whatever the start time -/
theorem chain_inst : ∀ (p : List Part) (t : Int), (∀ x ∈ p, x.wf = true) → Chain t (inst p t)
  | [], _, _ => trivial
  | .fin offs dur :: r, t, h => by
      have hw := h (.fin offs dur) (by simp)
      simp only [Part.wf, Bool.and_eq_true, decide_eq_true_eq, List.all_eq_true] at hw
      obtain ⟨⟨hs, hall⟩, hd⟩ := hw
      refine ⟨by omega, ?_, ?_, chain_inst r (t + dur) (fun x hx => h x (by simp [hx]))⟩
      · exact (List.pairwise_map).mpr ((sortedB_pairwise offs hs).imp (by intro a b hab; omega))
      · intro x hx
        obtain ⟨o, ho, rfl⟩ := List.mem_map.mp hx
        have := hall o ho
        omega
  | .unl dur :: r, t, h => by
      have hw := h (.unl dur) (by simp)
      simp only [Part.wf, decide_eq_true_eq] at hw
      exact ⟨by omega, by omega, chain_inst r (t + dur) (fun x hx => h x (by simp [hx]))⟩

end Pandora.Proofs.C02Flat
