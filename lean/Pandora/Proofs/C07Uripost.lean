/-
C07 — the (repaired) uripost scanner reads back every rendered file.
-/
import Pandora.Proofs.C07Uri

namespace Pandora.Proofs.C07
open Pandora.Model.C07 Pandora.Spec.C07

/-- what `readBlock` does with the trimmed line `data`, the rest of the file being `R` -/
def upBlock (data R : Bytes) (h : Hdrs) : List Ammo × Stop :=
  match data with
  | [] => uripostPass true R h
  | c :: d =>
    if c = LBR then
      match decodeHeader (c :: d) with
      | .ok kv => uripostPass true R (hset h kv.1 kv.2)
      | .error e => ([], .err e)
    else
      match decodeURI (c :: d) with
      | .error e => ([], .err e)
      | .ok (n, uri, tag) =>
        if n < 0 then ([], .err (sizeErr uri .negsize))
        else if R.length < n.toNat then ([], .err (sizeErr uri .shortread))
        else
          let q := uripostPass true (R.drop n.toNat) h
          ({ method := postBytes, url := uri, body := R.take n.toNat, tag := tag, hdrs := h } :: q.1, q.2)

theorem upPass_nil (h : Hdrs) : uripostPass true [] h = ([], .eof) := by
  rw [uripostPass]

theorem upPass_line (line R : Bytes) (h : Hdrs) (hline : LF ∉ line) :
    uripostPass true (line ++ LF :: R) h = upBlock (trimSpace (line ++ [LF])) R h := by
  have hc := cut_append_sep LF line R hline
  cases hb : line ++ LF :: R with
  | nil => simp at hb
  | cons b r =>
    rw [uripostPass]
    rw [hb] at hc
    simp only [hc]
    simp only [Bool.not_true, Bool.and_false, Bool.false_eq_true, if_false, if_true]
    unfold upBlock
    rfl

theorem upPass_lastline (line : Bytes) (h : Hdrs) (hline : LF ∉ line) (hne : line ≠ []) :
    uripostPass true line h = upBlock (trimSpace line) [] h := by
  have hc := cut_no_sep LF line hline
  cases hb : line with
  | nil => exact absurd hb hne
  | cons b r =>
    rw [uripostPass]
    rw [hb] at hc
    simp only [hc]
    simp only [Bool.not_true, Bool.and_false, Bool.false_eq_true, if_false]
    unfold upBlock
    rfl

/-! ### blank lines -/

theorem upPass_blanks (blanks : List Bytes) (X : Bytes) (h : Hdrs) (hb : blanks.all padOK = true) :
    uripostPass true (renderBlanks blanks ++ X) h = uripostPass true X h := by
  induction blanks with
  | nil => rfl
  | cons p r ih =>
    simp only [List.all_cons, Bool.and_eq_true] at hb
    have hshape : renderBlanks (p :: r) ++ X = p ++ LF :: (renderBlanks r ++ X) := by simp [renderBlanks]
    rw [hshape, upPass_line p _ h (padOK_noLF hb.1),
      trimSpace_allWs _ (allWs_append (padOK_allWs hb.1) allWs_LF)]
    exact ih hb.2

theorem upPass_trail (trail : Bytes) (h : Hdrs) (ht : padOK trail = true) :
    uripostPass true trail h = ([], .eof) := by
  by_cases hn : trail = []
  · subst hn; exact upPass_nil h
  · rw [upPass_lastline trail h (padOK_noLF ht) hn, trimSpace_allWs _ (padOK_allWs ht)]
    exact upPass_nil h

/-! ### the request line -/

theorem natToDec_noSP (n : Nat) : SP ∉ natToDec n := fun hm =>
  (isDigit_props ((natToDec_spec n).2.1 _ hm)).2.2.2.1 rfl

theorem natToDec_noLF (n : Nat) : LF ∉ natToDec n := fun hm =>
  (isDigit_props ((natToDec_spec n).2.1 _ hm)).2.2.2.2.1 rfl

theorem natToDec_head (n : Nat) : ∃ c r, natToDec n = c :: r ∧ isDigit c = true := by
  have ⟨h1, h2, _⟩ := natToDec_spec n
  cases hd : natToDec n with
  | nil => exact absurd hd h1
  | cons c r => exact ⟨c, r, rfl, h2 c (by simp [hd])⟩

theorem splitOn_tagPart (u t : Bytes) (hu : SP ∉ u) :
    ∃ rest, splitOn SP (u ++ tagPart t) = u :: rest ∧ join SP rest = t := by
  unfold tagPart
  cases t with
  | nil => exact ⟨[], by simp [splitOn_no_sep SP u hu], rfl⟩
  | cons a r =>
    refine ⟨splitOn SP (a :: r), ?_, join_splitOn SP _⟩
    simp [splitOn_append_sep SP u (a :: r) hu]

/-- `uripost.DecodeURI` reads back `size uri [tag]`, however the size is spelled (`+`, leading zeros) -/
theorem decodeURI_render (sz : Bytes) (n : Nat) (u t : Bytes) (hs : SizeTok sz n) (hu : SP ∉ u) :
    decodeURI (sz ++ SP :: (u ++ tagPart t)) = .ok ((n : Int), u, t) := by
  obtain ⟨rest, hsp, hj⟩ := splitOn_tagPart u t hu
  unfold decodeURI
  rw [splitOn_append_sep SP _ _ hs.noSP, hsp]
  simp only [hs.val, hj]

theorem content_uripost_req (u t b : Bytes) (l : ItemLay) :
    content .uripost (.req u t b) l = sizeText l b.length ++ SP :: (u ++ tagPart t) := by
  simp [content, tagPart]

theorem reqContent_props (sz : Bytes) (n : Nat) (u t : Bytes) (hs : SizeTok sz n) (hu : targetOK u = true) (ht : tagOK t = true) :
    let c := sz ++ SP :: (u ++ tagPart t)
    LF ∉ c ∧ spWidth c = 0 ∧ spWidthRev c.reverse = 0 ∧ ∃ x r, c = x :: r ∧ x ≠ LBR := by
  intro c
  obtain ⟨x, r, hx, hx1, hx2, hx3⟩ := hs.head
  obtain ⟨c0, r0, hcr, hc1, hc2, hc3, huLF, huSP, hurev⟩ := targetOK_props hu
  obtain ⟨htLF, htrev⟩ := tagOK_props ht
  refine ⟨?_, ?_, ?_, x, r ++ SP :: (u ++ tagPart t), by simp [c, hx], hx3⟩
  · simp only [c, List.mem_append, List.mem_cons, not_or]
    exact ⟨hs.noLF, by decide, huLF, tagPart_noLF htLF⟩
  · simp only [c, hx, List.cons_append]
    exact spWidth_ascii x _ hx1 hx2
  · have h1 := rev_edge_tagPart u t hurev htrev
    have : c.reverse = (u ++ tagPart t).reverse ++ SP :: sz.reverse := by simp [c]
    rw [this]
    apply spWidthRev_append _ _ _ h1
    · intro y hy; simp at hy; subst hy; decide
    · rw [hcr]; simp

/-- the block of one request: trimmed line, then exactly `body` from the rest -/
theorem upBlock_req (sz u t b X : Bytes) (h : Hdrs) (hs : SizeTok sz b.length) (hu : targetOK u = true) (ht : tagOK t = true) :
    upBlock (sz ++ SP :: (u ++ tagPart t)) (b ++ X) h =
      ({ method := postBytes, url := u, body := b, tag := t, hdrs := h } :: (uripostPass true X h).1,
       (uripostPass true X h).2) := by
  obtain ⟨_, _, _, x, r, hxr, hx⟩ := reqContent_props sz b.length u t hs hu ht
  obtain ⟨_, _, _, _, _, _, _, huSP, _⟩ := targetOK_props hu
  have hd := decodeURI_render sz b.length u t hs huSP
  rw [hxr] at hd ⊢
  unfold upBlock
  simp only [hx, if_false, hd]
  have h1 : ¬ ((b.length : Int) < 0) := by omega
  have h2 : ¬ (b.length + X.length < b.length) := by omega
  simp [h1, h2]

theorem upBlock_hdr (k v : Bytes) (l : ItemLay) (R : Bytes) (h : Hdrs) (hk : hdrKeyOK k = true) (hv : hdrValOK v = true)
    (hl : itemLayOK l = true) :
    upBlock (content .uripost (.hdr k v) l) R h = uripostPass true R (hset h k v) := by
  simp only [itemLayOK, Bool.and_eq_true] at hl
  obtain ⟨⟨⟨⟨⟨⟨_, _⟩, h1⟩, h2⟩, h3⟩, h4⟩, _⟩ := hl
  simp only [content]
  unfold upBlock
  simp only [if_true]
  rw [decodeHeader_render k v _ _ _ _ hk hv h1 h2 h3 h4]

/-! ### one entry -/

/-- trimmed line of an entry, whether or not the newline is still attached -/
theorem trim_entry (it : Item) (l : ItemLay) (hit : itemOK .uripost it = true) (hl : itemLayOK l = true) :
    LF ∉ l.pre ++ content .uripost it l ++ l.post ∧
    l.pre ++ content .uripost it l ++ l.post ≠ [] ∧
    trimSpace ((l.pre ++ content .uripost it l ++ l.post) ++ [LF]) = content .uripost it l ∧
    trimSpace (l.pre ++ content .uripost it l ++ l.post) = content .uripost it l := by
  have hl0 := hl
  simp only [itemLayOK, Bool.and_eq_true] at hl
  obtain ⟨⟨⟨⟨⟨⟨hpre, hpost⟩, h1⟩, h2⟩, h3⟩, h4⟩, _⟩ := hl
  have np := padOK_noLF hpre
  have nq := padOK_noLF hpost
  have key : ∀ c : Bytes, LF ∉ c → c ≠ [] → spWidth c = 0 → spWidthRev c.reverse = 0 →
      LF ∉ l.pre ++ c ++ l.post ∧ l.pre ++ c ++ l.post ≠ [] ∧
      trimSpace ((l.pre ++ c ++ l.post) ++ [LF]) = c ∧ trimSpace (l.pre ++ c ++ l.post) = c := by
    intro c hc hne hf hr
    refine ⟨?_, by simp [hne], ?_, ?_⟩
    · simp only [List.mem_append, not_or]; exact ⟨⟨np, hc⟩, nq⟩
    · rw [List.append_assoc (l.pre ++ c)]
      exact trimSpace_pad l.pre c (l.post ++ [LF]) (padOK_allWs hpre) (allWs_append (padOK_allWs hpost) allWs_LF) hf hr
    · exact trimSpace_pad l.pre c l.post (padOK_allWs hpre) (padOK_allWs hpost) hf hr
  cases it with
  | hdr k v =>
    simp only [itemOK, Bool.and_eq_true, hdrKeyOK, hdrValOK] at hit
    have hk : LF ∉ k := (noLF_iff k).mp hit.1.2.1.1.2
    have hv : LF ∉ v := (noLF_iff v).mp hit.2.1
    have hp := headerContent_props k v l.i1 l.i2 l.i3 l.i4
    simp only at hp
    apply key _ _ hp.1 hp.2.1 hp.2.2.1
    simp only [List.mem_append, List.mem_cons, List.mem_nil_iff, not_or, or_false]
    exact ⟨by decide, ⟨⟨padOK_noLF h1, hk⟩, padOK_noLF h2⟩, by decide, ⟨⟨padOK_noLF h3, hv⟩, padOK_noLF h4⟩, by decide⟩
  | req u t b =>
    simp only [itemOK, Bool.and_eq_true] at hit
    obtain ⟨hLF, hf, hr, x, r, hxr, _⟩ := reqContent_props (sizeText l b.length) b.length u t (sizeText_tok l _ hit.2) hit.1.1.2 hit.1.2
    rw [content_uripost_req]
    exact key _ hLF (by rw [hxr]; simp) hf hr
  | frame t fr => simp [itemOK] at hit

/-- what one entry does to the rest `X` of the pass (the rest starts after the entry's body) -/
def upStep (it : Item) (h : Hdrs) (X : Bytes) : List Ammo × Stop :=
  match it with
  | .hdr k v => uripostPass true X (hset h k v)
  | .req u t b => ({ method := postBytes, url := u, body := b, tag := t, hdrs := h } :: (uripostPass true X h).1,
                   (uripostPass true X h).2)
  | .frame _ _ => uripostPass true X h

theorem upBlock_item (it : Item) (l : ItemLay) (h : Hdrs) (X : Bytes)
    (hit : itemOK .uripost it = true) (hl : itemLayOK l = true) :
    upBlock (content .uripost it l) (payload .uripost it ++ X) h = upStep it h X := by
  cases it with
  | hdr k v =>
    simp only [itemOK, Bool.and_eq_true] at hit
    simp only [payload, List.nil_append, upStep]
    exact upBlock_hdr k v l X h hit.1.2 hit.2 hl
  | req u t b =>
    simp only [itemOK, Bool.and_eq_true] at hit
    rw [content_uripost_req]
    simp only [payload, if_true, upStep]
    exact upBlock_req _ u t b X h (sizeText_tok l _ hit.2) hit.1.1.2 hit.1.2
  | frame t fr => simp [itemOK] at hit

theorem expAmmo_uripost_cons (it : Item) (r : List Item) (h : Hdrs) (X : Bytes)
    (ih : ∀ h', uripostPass true X h' = (expAmmo .uripost h' r, .eof)) (hit : itemOK .uripost it = true) :
    upStep it h X = (expAmmo .uripost h (it :: r), .eof) := by
  cases it with
  | hdr k v => simp [upStep, expAmmo, ih]
  | req u t b => simp [upStep, expAmmo, ih]
  | frame t fr => simp [itemOK] at hit

/-! ### the whole file -/

theorem upPass_renderItems (fnl : Bool) (trail : Bytes) (htrail : padOK trail = true) :
    ∀ (items : List Item) (per : List ItemLay) (h : Hdrs),
      itemsOK .uripost items = true → per.all itemLayOK = true →
      uripostPass true (renderItems .uripost fnl trail items per) h = (expAmmo .uripost h items, .eof)
  | [], per, h, _, _ => by
    simp only [renderItems]
    exact upPass_trail trail h htrail
  | [it], per, h, hi, hp => by
    have hit : itemOK .uripost it = true := by simpa [itemsOK] using hi
    have hl : itemLayOK (per.headD ({} : ItemLay)) = true := by
      cases per with
      | nil => rfl
      | cons a r => simp only [List.all_cons, Bool.and_eq_true] at hp; exact hp.1
    have hlb : (per.headD ({} : ItemLay)).blanks.all padOK = true := by
      simp only [itemLayOK, Bool.and_eq_true] at hl; exact hl.2
    obtain ⟨hLF, hne, ht1, ht2⟩ := trim_entry it _ hit hl
    simp only [renderItems]
    cases fnl with
    | true =>
      simp only [if_true]
      rw [upPass_line _ _ h hLF, ht1, List.append_assoc, upBlock_item it _ h _ hit hl]
      apply expAmmo_uripost_cons it [] h _ _ hit
      intro h'
      rw [upPass_blanks _ trail h' hlb, upPass_trail trail h' htrail]
      rfl
    | false =>
      simp only [Bool.false_eq_true, if_false]
      by_cases hpe : (payload .uripost it).isEmpty = true
      · simp only [hpe, if_true]
        rw [upPass_lastline _ h hLF hne, ht2]
        have hb := upBlock_item it (per.headD ({} : ItemLay)) h [] hit hl
        rw [List.isEmpty_iff.mp hpe, List.append_nil] at hb
        rw [hb]
        apply expAmmo_uripost_cons it [] h _ _ hit
        intro h'; rw [upPass_nil]; rfl
      · have hpe' : (payload .uripost it).isEmpty = false := by simpa using hpe
        simp only [hpe', Bool.false_eq_true, if_false]
        rw [upPass_line _ _ h hLF, ht1]
        have hb := upBlock_item it (per.headD ({} : ItemLay)) h [] hit hl
        rw [List.append_nil] at hb
        rw [hb]
        apply expAmmo_uripost_cons it [] h _ _ hit
        intro h'; rw [upPass_nil]; rfl
  | it :: it2 :: rest, per, h, hi, hp => by
    have hit : itemOK .uripost it = true := by
      simp only [itemsOK, List.all_cons, Bool.and_eq_true] at hi; exact hi.1
    have hi' : itemsOK .uripost (it2 :: rest) = true := by
      simp only [itemsOK, List.all_cons, Bool.and_eq_true] at hi ⊢; exact hi.2
    have hl : itemLayOK (per.headD ({} : ItemLay)) = true := by
      cases per with
      | nil => rfl
      | cons a r => simp only [List.all_cons, Bool.and_eq_true] at hp; exact hp.1
    have hp' : per.tail.all itemLayOK = true := by
      cases per with
      | nil => rfl
      | cons a r => simp only [List.all_cons, Bool.and_eq_true] at hp; exact hp.2
    have hlb : (per.headD ({} : ItemLay)).blanks.all padOK = true := by
      simp only [itemLayOK, Bool.and_eq_true] at hl; exact hl.2
    obtain ⟨hLF, hne, ht1, ht2⟩ := trim_entry it _ hit hl
    simp only [renderItems]
    rw [upPass_line _ _ h hLF, ht1, List.append_assoc, upBlock_item it _ h _ hit hl]
    apply expAmmo_uripost_cons it (it2 :: rest) h _ _ hit
    intro h'
    rw [upPass_blanks _ _ h' hlb]
    exact upPass_renderItems fnl trail htrail (it2 :: rest) per.tail h' hi' hp'

end Pandora.Proofs.C07
