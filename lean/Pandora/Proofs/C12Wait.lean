import Pandora.Model.C12Wait

namespace Pandora.Proofs.C12Wait
open Pandora.Model.C12Wait

/-- `toWait` counts exactly what is still missing -/
def WInv (s : WSt) : Prop := s.toWait = 4 - (b2i s.prov + b2i s.aggr + b2i s.start + b2i s.runs) ∧ (s.runs = true → s.start = true)

theorem winv_init : WInv (WSt.init stdTab) := by
  simp [WInv, WSt.init, stdTab, b2i]

theorem winv_step (s : WSt) (ev : WEv) (h : WInv s) : WInv (wstep stdTab s ev) := by
  obtain ⟨h1, h2⟩ := h
  cases ev <;> simp only [wstep, stdTab]
  all_goals
    split
    · exact ⟨h1, h2⟩
    · rename_i hc
      simp only [Bool.or_eq_true, Bool.not_eq_true', not_or, Bool.not_eq_true] at hc
      refine ⟨?_, ?_⟩
      · simp only [b2i] at h1 ⊢
        simp_all
        omega
      · simp_all

theorem winv_run (s : WSt) (evs : List WEv) (h : WInv s) : WInv (wrun stdTab s evs) := by
  induction evs generalizing s with
  | nil => exact h
  | cons ev rest ih => exact ih _ (winv_step s ev h)

/-- the loop has ended exactly when all four have happened; the counter never goes below 0 -/
theorem ended_iff (s : WSt) (h : WInv s) :
    (goesOn s = false ↔ (s.prov = true ∧ s.aggr = true ∧ s.start = true ∧ s.runs = true)) ∧ 0 ≤ s.toWait := by
  obtain ⟨h1, _⟩ := h
  simp only [goesOn, b2i] at *
  cases hp : s.prov <;> cases ha : s.aggr <;> cases hs : s.start <;> cases hr : s.runs <;> simp_all <;> omega

end Pandora.Proofs.C12Wait
