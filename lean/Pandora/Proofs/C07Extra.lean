/-
C07 — helper lemmas for the second round of property theorems:
* the `bufio.Scanner` token limit is real (a uri line of 65536 bytes ends the pass with `token too long`),
  while uripost / raw read lines of any length (`ReadString`);
* scope of an in-file header line (entries after it, not the ones before it);
* the delivery under a larger limit extends the delivery under a smaller one.
-/
import Pandora.Proofs.C07Deliver

namespace Pandora.Proofs.C07
open Pandora.Model.C07 Pandora.Spec.C07

/-! ### arbitrarily long request targets -/

/-- `/aaa…a` with `n` letters: a well-formed request target of any length -/
def longTarget (n : Nat) : Bytes := 47 :: List.replicate n 97

theorem longTarget_length (n : Nat) : (longTarget n).length = n + 1 := by simp [longTarget]

theorem mem_longTarget {b : UInt8} {n : Nat} (h : b ∈ longTarget n) : b = 47 ∨ b = 97 := by
  simp only [longTarget, List.mem_cons, List.mem_replicate] at h
  rcases h with h | ⟨_, h⟩
  · exact Or.inl h
  · exact Or.inr h

theorem longTarget_noLF (n : Nat) : LF ∉ longTarget n := by
  intro h; rcases mem_longTarget h with h | h <;> simp [LF] at h

theorem longTarget_noSP (n : Nat) : SP ∉ longTarget n := by
  intro h; rcases mem_longTarget h with h | h <;> simp [SP] at h

theorem longTarget_reverse_edge (n : Nat) : spWidthRev (longTarget n).reverse = 0 := by
  cases n with
  | zero => decide
  | succ m =>
    have : (longTarget (m + 1)).reverse = 97 :: (longTarget m).reverse := by
      have e1 : ∀ k, (longTarget k).reverse = List.replicate k 97 ++ [47] := by
        intro k; simp only [longTarget, List.reverse_cons, List.reverse_replicate]
      rw [e1 (m + 1), e1 m, List.replicate_succ, List.cons_append]
    rw [this]
    exact spWidthRev_ascii 97 _ (by decide) (by decide)

theorem longTarget_ok (n : Nat) : targetOK (longTarget n) = true := by
  have h1 : noLF (longTarget n) = true := (noLF_iff _).mpr (longTarget_noLF n)
  have h2 : (longTarget n).contains SP = false := by
    simpa using longTarget_noSP n
  have h3 := longTarget_reverse_edge n
  simp only [longTarget] at h1 h2 h3 ⊢
  simp only [targetOK]
  rw [h1, h2, h3]
  decide

theorem longTarget_uriOK (n : Nat) : uriOK (longTarget n) = true := by
  cases n with
  | zero => decide
  | succ m =>
    have hb : ∀ k, uriBytesOK (List.replicate k 97) = true := by
      intro k
      induction k with
      | zero => rfl
      | succ k ih =>
        rw [List.replicate_succ]
        unfold uriBytesOK
        rw [if_neg (by decide), ih]
        decide
    simp only [longTarget, List.replicate_succ, uriOK]
    have := hb (m + 1)
    rw [List.replicate_succ] at this
    exact this

/-! ### the Scanner limit -/

/-- with a token limit `l > 0`, a first line of `l` bytes or more ends the pass at once with `token too long` -/
theorem uriPass_toolong (l : Nat) (hl : 0 < l) (line R : Bytes) (h : Hdrs) (hline : LF ∉ line) (hlong : l ≤ line.length)
    (hR : R = [] ∨ ∃ R', R = LF :: R') :
    uriPassLim (some l) (line ++ R) h = ([], .err .toolong) := by
  have hc : (cut LF (line ++ R)).1 = line := by
    rcases hR with hR | ⟨R', hR⟩
    · rw [hR, List.append_nil, cut_no_sep LF line hline]
    · rw [hR, cut_append_sep LF line R' hline]
  have hpos : 0 < line.length := by omega
  cases hb : line ++ R with
  | nil =>
    have : (line ++ R).length = 0 := by rw [hb]; rfl
    rw [List.length_append] at this; omega
  | cons b r =>
    rw [uriPassLim]
    rw [hb] at hc
    simp only [hc, tooLong, hlong, decide_true, if_true]

/-! ### scope of a header line -/

theorem hget_hsetRaw_same (h : Hdrs) (k v : Bytes) : hget (hsetRaw h k v) k = some v := by
  induction h with
  | nil => simp [hsetRaw, hget]
  | cons kv r ih =>
    obtain ⟨k', v'⟩ := kv
    unfold hsetRaw
    by_cases hk : k' = k
    · simp [hk, hget]
    · simp [hk, hget, ih]

theorem hget_hsetRaw_other (h : Hdrs) (k v key : Bytes) (hne : k ≠ key) : hget (hsetRaw h k v) key = hget h key := by
  induction h with
  | nil => simp [hsetRaw, hget, hne]
  | cons kv r ih =>
    obtain ⟨k', v'⟩ := kv
    unfold hsetRaw
    by_cases hk : k' = k
    · subst hk; simp [hget, hne]
    · simp only [hk, if_false, hget]
      by_cases hk2 : k' = key
      · simp [hk2]
      · simp [hk2, ih]

/-- after `[k: v]` the accumulator answers `v` for the canonical key -/
theorem hget_hset_same (h : Hdrs) (k v : Bytes) : hget (hset h k v) (canonKey k) = some v :=
  hget_hsetRaw_same h (canonKey k) v

/-- a header line with another canonical key leaves the value untouched -/
theorem hget_hset_other (h : Hdrs) (k v key : Bytes) (hne : canonKey k ≠ key) : hget (hset h k v) key = hget h key :=
  hget_hsetRaw_other h (canonKey k) v key hne

/-- the header accumulator after the entries `items`, starting from `h` -/
def accHdrs : Hdrs → List Item → Hdrs
  | h, [] => h
  | h, .hdr k v :: r => accHdrs (hset h k v) r
  | h, _ :: r => accHdrs h r

theorem expAmmo_append (f : Fmt) : ∀ (pre post : List Item) (h : Hdrs),
    expAmmo f h (pre ++ post) = expAmmo f h pre ++ expAmmo f (accHdrs h pre) post := by
  intro pre
  induction pre with
  | nil => intro post h; rfl
  | cons it r ih =>
    intro post h
    cases it with
    | hdr k v => simp only [List.cons_append, expAmmo, accHdrs]; exact ih post _
    | req u t b => simp only [List.cons_append, expAmmo, accHdrs, List.cons_append]; rw [ih post h]
    | frame t fr => simp only [List.cons_append, expAmmo, accHdrs]; exact ih post h

/-- no header line among `items` defines the canonical key `key` -/
def noRedef (key : Bytes) : List Item → Bool
  | [] => true
  | .hdr k _ :: r => canonKey k != key && noRedef key r
  | _ :: r => noRedef key r

theorem expAmmo_keeps (f : Fmt) (key v : Bytes) : ∀ (items : List Item) (h : Hdrs),
    hget h key = some v → noRedef key items = true → ∀ a ∈ expAmmo f h items, hget a.hdrs key = some v := by
  intro items
  induction items with
  | nil => intro h _ _ a ha; simp [expAmmo] at ha
  | cons it r ih =>
    intro h hk hn a ha
    cases it with
    | hdr k' v' =>
      simp only [noRedef, Bool.and_eq_true, bne_iff_ne, ne_eq] at hn
      simp only [expAmmo] at ha
      exact ih (hset h k' v') (by rw [hget_hset_other h k' v' key hn.1]; exact hk) hn.2 a ha
    | req u t b =>
      simp only [noRedef] at hn
      simp only [expAmmo, List.mem_cons] at ha
      rcases ha with ha | ha
      · rw [ha]; exact hk
      · exact ih h hk hn a ha
    | frame t fr =>
      simp only [noRedef] at hn
      simp only [expAmmo] at ha
      exact ih h hk hn a ha

/-! ### limits -/

/-- the delivery under a larger limit extends the delivery under a smaller one -/
theorem cycleTake_prefix {α : Type} (xs : List α) (k k' : Nat) (hk : k ≤ k') :
    (cycleTake xs k').take k = cycleTake xs k := by
  by_cases hx : xs = []
  · subst hx; simp [cycleTake_nil]
  · apply List.ext_getElem?
    intro i
    by_cases hi : i < k
    · rw [List.getElem?_take_of_lt hi, cycleTake_get xs hx k' i (by omega), cycleTake_get xs hx k i hi]
    · have h1 : ((cycleTake xs k').take k).length ≤ i := by
        rw [List.length_take, cycleTake_length xs hx]; omega
      have h2 : (cycleTake xs k).length ≤ i := by rw [cycleTake_length xs hx]; omega
      rw [List.getElem?_eq_none h1, List.getElem?_eq_none h2]

end Pandora.Proofs.C07
