/-
C12, round 6 — three facts about C04's model of the loop of `instance.Run` (`Pandora.Model.C04.runLoop`, `drawn`; nothing of the model
is copied: the DEFINITIONS are C04's, imported) that `C12_keeps_firing_tokens_waited_in_time` composes.  They are C04's theorems
`C04_not_discarded_if_fresh`, `C04_every_drawn_token_acted`, `C04_off`, proved here once more (same statements, same proofs over
`Pandora.Proofs.C04`'s lemmas) so that C12's build does not depend on the module `Pandora.Props.C04`, which another builder edits.
-/
import Pandora.Proofs.C04

namespace Pandora.Proofs.C12R6
open Pandora.Go.C04 Pandora.Model.C04 Pandora.Proofs.C04

/-- A token that is reported as discarded was at least 2 s late at the instant of the report: a request less than
2 s late is never discarded (both variants: the recorded overdue never exceeds the real lateness). -/
theorem not_discarded_if_fresh (v : Variant) (w : Waiter) (h : List Iter) (hc : ClockOK w h) :
    ∀ it s, Ev.discard it s ∈ (runLoop v true w h).1 →
      ∃ next, it.env.tok = some next ∧ maxOverdue ≤ it.env.ret - next := by
  induction h generalizing w with
  | nil => simp [runLoop]
  | cons it rest ih =>
    intro jt s hev
    unfold runLoop at hev
    by_cases hf : it.finished = true
    · simp [hf] at hev
    · by_cases ha : it.ammoOk = true
      · simp only [hf, ha] at hev
        by_cases hk : (waitV v w it.env).ok = true
        · simp only [hk] at hev
          simp at hev
          rcases hev with hev | hev
          · obtain ⟨next, h1, _, h3⟩ := waitV_ok v w it.env hc.head.1 hc.head.2 hk
            split at hev
            · cases hev
            · rename_i hfire
              injection hev with hit _
              subst hit
              refine ⟨next, h1, ?_⟩
              simp [fires, isSlowDown, slowCond] at hfire
              omega
          · exact ih _ (hc.tail v) jt s hev
        · simp [hk] at hev
          exact ih _ (hc.tail v) jt s hev
      · simp [hf, ha] at hev


/-- Every token drawn and waited for produces exactly one action, in order (Shoot or Report of a discarded sample). -/
theorem every_drawn_token_acted (v : Variant) (d : Bool) (w : Waiter) (h : List Iter) :
    (runLoop v d w h).1.map Ev.iter = drawn v w h := by
  induction h generalizing w with
  | nil => simp [runLoop, drawn]
  | cons it rest ih =>
    unfold runLoop drawn
    by_cases hf : it.finished = true
    · simp [hf]
    · by_cases ha : it.ammoOk = true
      · by_cases hk : (waitV v w it.env).ok = true
        · simp only [hf, ha, hk]
          simp
          refine ⟨?_, ih _⟩
          split <;> rfl
        · simp [hf, ha, hk, ih]
      · simp [hf, ha]

/-- discard_overflow = false: nothing is discarded and every drawn token is fired, in order. -/
theorem off_all_fired (v : Variant) (w : Waiter) (h : List Iter) :
    (runLoop v false w h).1 = (drawn v w h).map Ev.shoot := by
  induction h generalizing w with
  | nil => simp [runLoop, drawn]
  | cons it rest ih =>
    unfold runLoop drawn
    by_cases hf : it.finished = true
    · simp [hf]
    · by_cases ha : it.ammoOk = true
      · by_cases hk : (waitV v w it.env).ok = true
        · simp [hf, ha, hk, fires, ih]
        · simp [hf, ha, hk, ih]
      · simp [hf, ha]


end Pandora.Proofs.C12R6
