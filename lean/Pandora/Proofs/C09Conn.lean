/-
C09 — helper lemmas about the connection model (`connStep` / `connRun` / `gunConns` of Pandora.Model.C09):
invariants of the per-gun idle pools and the decomposition of the global count into per-gun counts.
-/
import Pandora.Model.C09

namespace Pandora.Proofs.C09
open Pandora.Model.C09

/-! ## counting idle connections -/

theorem count_set (l : List Bool) (g : Nat) (b : Bool) (hg : g < l.length) :
    (l.set g b).count true + (if l.getD g false then 1 else 0) = l.count true + (if b then 1 else 0) := by
  induction l generalizing g with
  | nil => simp at hg
  | cons a t ih =>
    cases g with
    | zero => cases a <;> cases b <;> simp
    | succ g' =>
      have hg' : g' < t.length := by simpa using hg
      have := ih g' hg'
      simp only [List.set_cons_succ, List.count_cons, List.getD_cons_succ]
      simp only [List.getD_eq_getElem?_getD] at this ⊢
      omega

theorem count_le_length (l : List Bool) : l.count true ≤ l.length := List.count_le_length

/-! ## the run keeps the number of guns -/

theorem connStep_length (ka : Bool) (st : List Bool × Nat) (f : Flight) :
    (connStep ka st f).1.length = st.1.length := by
  unfold connStep
  split <;> simp

theorem connRunFrom_length (ka : Bool) (st : List Bool × Nat) (fs : List Flight) :
    (connRunFrom ka st fs).1.length = st.1.length := by
  induction fs generalizing st with
  | nil => rfl
  | cons f fs ih =>
    simp only [connRunFrom, List.foldl_cons] at ih ⊢
    rw [ih, connStep_length]

theorem connRunFrom_cons (ka : Bool) (st : List Bool × Nat) (f : Flight) (fs : List Flight) :
    connRunFrom ka st (f :: fs) = connRunFrom ka (connStep ka st f) fs := rfl

/-! ## keep-alive: connections = idle connections held + requests that asked to close -/

theorem connRunFrom_keepalive (st : List Bool × Nat) (fs : List Flight) (hg : ∀ f ∈ fs, f.gun < st.1.length) :
    (connRunFrom true st fs).2 + st.1.count true =
      st.2 + (connRunFrom true st fs).1.count true + countClosing fs := by
  induction fs generalizing st with
  | nil => simp [connRunFrom, countClosing]
  | cons f fs ih =>
    have hf : f.gun < st.1.length := hg f List.mem_cons_self
    have hrest : ∀ f' ∈ fs, f'.gun < (connStep true st f).1.length := by
      intro f' hf'
      rw [connStep_length]
      exact hg f' (List.mem_cons_of_mem _ hf')
    have := ih (connStep true st f) hrest
    rw [connRunFrom_cons]
    simp only [countClosing]
    by_cases ha : f.arrived = true
    · have hc := count_set st.1 f.gun (true && !f.close) hf
      simp only [connStep, ha, Bool.not_true, Bool.false_eq_true, if_false, Bool.true_and] at this hc ⊢
      cases hcl : f.close <;> cases hid : st.1.getD f.gun false <;>
        simp only [hcl, hid, Bool.not_false, Bool.not_true, if_true, Bool.false_eq_true, if_false,
          Nat.add_zero] at this hc ⊢ <;> omega
    · have ha' : f.arrived = false := by simpa using ha
      simp only [connStep, ha', Bool.not_false, if_true, Bool.false_and, Bool.false_eq_true, if_false] at this ⊢
      omega

/-! ## no keep-alive: no connection is ever idle, every arriving request dials -/

theorem connRunFrom_no_keepalive (st : List Bool × Nat) (fs : List Flight) (hidle : st.1.count true = 0) :
    (connRunFrom false st fs).2 = st.2 + countArrived fs ∧ (connRunFrom false st fs).1.count true = 0 := by
  induction fs generalizing st with
  | nil => simp [connRunFrom, countArrived, hidle]
  | cons f fs ih =>
    rw [connRunFrom_cons]
    simp only [countArrived]
    by_cases ha : f.arrived = true
    · have hget : st.1.getD f.gun false = false := by
        rw [List.getD_eq_getElem?_getD]
        cases hq : st.1[f.gun]? with
        | none => rfl
        | some b =>
          cases b with
          | false => rfl
          | true =>
            have hm : true ∈ st.1 := List.mem_of_getElem? hq
            have : 0 < st.1.count true := List.count_pos_iff.mpr hm
            omega
      have hidle' : ((st.1.set f.gun false)).count true = 0 := by
        by_cases hlt : f.gun < st.1.length
        · have := count_set st.1 f.gun false hlt
          simp only [hget, Bool.false_eq_true, if_false] at this
          omega
        · rw [List.set_eq_of_length_le (by omega)]; exact hidle
      have := ih (connStep false st f) (by simpa [connStep, ha] using hidle')
      simp only [connStep, ha, Bool.not_true, Bool.false_eq_true, if_false, Bool.false_and, hget, if_true] at this ⊢
      refine ⟨by omega, this.2⟩
    · have ha' : f.arrived = false := by simpa using ha
      have := ih st hidle
      simp only [connStep, ha', Bool.not_false, if_true, Bool.false_eq_true, if_false] at this ⊢
      refine ⟨by omega, this.2⟩

/-! ## decomposition into per-gun runs -/

def sumRange (n : Nat) (F : Nat → Nat) : Nat := ((List.range n).map F).sum

theorem sumRange_succ (n : Nat) (F : Nat → Nat) : sumRange (n + 1) F = sumRange n F + F n := by
  simp [sumRange, List.range_succ]

theorem sumRange_congr (n : Nat) (F G : Nat → Nat) (h : ∀ i, i < n → F i = G i) : sumRange n F = sumRange n G := by
  induction n with
  | zero => rfl
  | succ n ih =>
    rw [sumRange_succ, sumRange_succ, ih (fun i hi => h i (by omega)), h n (by omega)]

/-- two functions that differ at one index `g < n` only -/
theorem sumRange_update (n g d : Nat) (F F' : Nat → Nat) (hg : g < n) (hne : ∀ i, i ≠ g → F i = F' i)
    (heq : F g = d + F' g) : sumRange n F = d + sumRange n F' := by
  induction n with
  | zero => omega
  | succ n ih =>
    rw [sumRange_succ, sumRange_succ]
    by_cases hgn : g = n
    · subst hgn
      rw [sumRange_congr g F F' (fun i hi => hne i (by omega)), heq]
      omega
    · rw [ih (by omega), hne n (fun e => hgn e.symm)]
      omega

/-- the flights of gun `g`, in order -/
def flightsOf (g : Nat) (fs : List Flight) : List Flight := fs.filter (fun f => f.gun == g)

theorem connRunFrom_decompose (ka : Bool) (st : List Bool × Nat) (fs : List Flight)
    (hg : ∀ f ∈ fs, f.gun < st.1.length) :
    (connRunFrom ka st fs).2 =
      st.2 + sumRange st.1.length (fun g => gunConns ka (st.1.getD g false) (flightsOf g fs)) := by
  induction fs generalizing st with
  | nil =>
    have hz : ∀ n, sumRange n (fun _ => 0) = 0 := by
      intro n; induction n with
      | zero => rfl
      | succ n ih => rw [sumRange_succ, ih]
    simp [connRunFrom, flightsOf, gunConns, hz]
  | cons f fs ih =>
    have hf : f.gun < st.1.length := hg f List.mem_cons_self
    have hrest : ∀ f' ∈ fs, f'.gun < (connStep ka st f).1.length := by
      intro f' hf'
      rw [connStep_length]
      exact hg f' (List.mem_cons_of_mem _ hf')
    rw [connRunFrom_cons, ih _ hrest, connStep_length]
    by_cases ha : f.arrived = true
    · -- the step changes gun f.gun only
      have hupd := sumRange_update st.1.length f.gun (if st.1.getD f.gun false then 0 else 1)
        (fun g => gunConns ka (st.1.getD g false) (flightsOf g (f :: fs)))
        (fun g => gunConns ka ((connStep ka st f).1.getD g false) (flightsOf g fs)) hf
        (by
          intro i hi
          have hne : (f.gun == i) = false := by simpa using fun e => hi e.symm
          simp only [flightsOf, List.filter_cons, hne, Bool.false_eq_true, if_false, connStep, ha, Bool.not_true]
          congr 1
          simp only [List.getD_eq_getElem?_getD]
          rw [List.getElem?_set_ne (fun e => hi e.symm)])
        (by
          simp only [flightsOf, List.filter_cons, beq_self_eq_true, if_true, gunConns, ha, Bool.not_true,
            Bool.false_eq_true, if_false, connStep]
          congr 2
          simp only [List.getD_eq_getElem?_getD]
          rw [List.getElem?_set_self hf]
          rfl)
      rw [hupd]
      simp only [connStep, ha, Bool.not_true, Bool.false_eq_true, if_false]
      omega
    · have ha' : f.arrived = false := by simpa using ha
      have hsame : (connStep ka st f) = st := by simp [connStep, ha']
      rw [hsame]
      congr 1
      apply sumRange_congr
      intro i _
      simp only [flightsOf, List.filter_cons]
      by_cases hi : (f.gun == i) = true
      · simp [hi, gunConns, ha']
      · simp [hi]

theorem count_true_replicate_false (n : Nat) : (List.replicate n false).count true = 0 := by
  induction n with
  | zero => rfl
  | succ n ih => simp [List.replicate_succ, ih]

theorem countClosing_zero (fs : List Flight) (hc : ∀ f ∈ fs, f.close = false) : countClosing fs = 0 := by
  induction fs with
  | nil => rfl
  | cons f fs ih =>
    simp only [countClosing, hc f List.mem_cons_self, Bool.and_false, Bool.false_eq_true, if_false, Nat.zero_add]
    exact ih (fun f' h' => hc f' (List.mem_cons_of_mem _ h'))

theorem getD_replicate_false (n g : Nat) : (List.replicate n false).getD g false = false := by
  simp only [List.getD_eq_getElem?_getD, List.getElem?_replicate]
  split <;> rfl

/-- one gun, keep-alive, nobody asks to close: at most one connection -/
theorem gunConns_keepalive_le_one (idle : Bool) (fs : List Flight) (hc : ∀ f ∈ fs, f.close = false) :
    gunConns true idle fs ≤ 1 ∧ (idle = true → gunConns true idle fs = 0) := by
  induction fs generalizing idle with
  | nil => simp [gunConns]
  | cons f fs ih =>
    have hcf : f.close = false := hc f List.mem_cons_self
    have hrest : ∀ f' ∈ fs, f'.close = false := fun f' h' => hc f' (List.mem_cons_of_mem _ h')
    simp only [gunConns]
    by_cases ha : f.arrived = true
    · simp only [ha, Bool.not_true, Bool.false_eq_true, if_false, hcf, Bool.not_false, Bool.and_self]
      have := (ih true hrest).2 rfl
      rw [this]
      cases idle <;> simp
    · have ha' : f.arrived = false := by simpa using ha
      simp only [ha', Bool.not_false, if_true]
      exact ih idle hrest

/-! ## shared clients (round 3): several guns on one transport -/

theorem getD_set_true (l : List Bool) (i j : Nat) :
    (l.set i true).getD j false = ((decide (i = j) && decide (i < l.length)) || l.getD j false) := by
  simp only [List.getD_eq_getElem?_getD, List.getElem?_set]
  by_cases h : i = j
  · subst h
    by_cases hl : i < l.length
    · simp [hl]
    · simp [hl]
  · simp [h]

/-- **Merging guns onto shared transports never costs connections** (keep-alive, nobody asks to close, one request at a
time): a simulation between the run of the guns `st` and the run of the clients `st'` they are mapped to by `φ` — whenever a
gun holds an idle connection, so does its client. -/
theorem connRunFrom_merge (φ : Nat → Nat) (st st' : List Bool × Nat) (fs : List Flight)
    (hg : ∀ f ∈ fs, f.gun < st.1.length) (hφ : ∀ f ∈ fs, φ f.gun < st'.1.length)
    (hc : ∀ f ∈ fs, f.close = false)
    (hR : ∀ g, st.1.getD g false = true → st'.1.getD (φ g) false = true)
    (hle : st'.2 ≤ st.2) :
    (connRunFrom true st' (fs.map fun f => { f with gun := φ f.gun })).2 ≤ (connRunFrom true st fs).2 := by
  induction fs generalizing st st' with
  | nil => simpa [connRunFrom] using hle
  | cons f fs ih =>
    have hf : f.gun < st.1.length := hg f List.mem_cons_self
    have hf' : φ f.gun < st'.1.length := hφ f List.mem_cons_self
    have hcf : f.close = false := hc f List.mem_cons_self
    rw [List.map_cons, connRunFrom_cons, connRunFrom_cons]
    apply ih
    · intro f' h'; rw [connStep_length]; exact hg f' (List.mem_cons_of_mem _ h')
    · intro f' h'; rw [connStep_length]; exact hφ f' (List.mem_cons_of_mem _ h')
    · intro f' h'; exact hc f' (List.mem_cons_of_mem _ h')
    · intro g
      by_cases ha : f.arrived = true
      · have e1 : (connStep true st f).1 = st.1.set f.gun true := by simp [connStep, ha, hcf]
        have e2 : (connStep true st' { f with gun := φ f.gun }).1 = st'.1.set (φ f.gun) true := by
          simp [connStep, ha, hcf]
        rw [e1, e2, getD_set_true, getD_set_true]
        intro h
        by_cases hgf : f.gun = g
        · subst hgf
          have : decide (φ f.gun < st'.1.length) = true := decide_eq_true hf'
          simp [this]
        · have hd : decide (f.gun = g) = false := decide_eq_false hgf
          rw [hd, Bool.false_and, Bool.false_or] at h
          rw [hR g h, Bool.or_true]
      · have ha' : f.arrived = false := by simpa using ha
        have e1 : connStep true st f = st := by simp [connStep, ha']
        have e2 : connStep true st' { f with gun := φ f.gun } = st' := by simp [connStep, ha']
        rw [e1, e2]; exact hR g
    · by_cases ha : f.arrived = true
      · have e1 : (connStep true st f).2 = st.2 + (if st.1.getD f.gun false then 0 else 1) := by simp [connStep, ha]
        have e2 : (connStep true st' { f with gun := φ f.gun }).2 =
            st'.2 + (if st'.1.getD (φ f.gun) false then 0 else 1) := by simp [connStep, ha]
        rw [e1, e2]
        cases hid : st.1.getD f.gun false
        · cases st'.1.getD (φ f.gun) false <;> simp <;> omega
        · rw [hR f.gun hid]; simp; omega
      · have ha' : f.arrived = false := by simpa using ha
        have e1 : connStep true st f = st := by simp [connStep, ha']
        have e2 : connStep true st' { f with gun := φ f.gun } = st' := by simp [connStep, ha']
        rw [e1, e2]; exact hle

/-! ## time: the pool with idle expiry and lost answers (round 2) -/

theorem tconnStep_length (t : Transport) (st : List Bool × Nat) (f : TFlight) :
    (tconnStep t st f).1.length = st.1.length := by
  unfold tconnStep
  split <;> simp

theorem tconnRunFrom_cons (t : Transport) (st : List Bool × Nat) (f : TFlight) (fs : List TFlight) :
    tconnRunFrom t st (f :: fs) = tconnRunFrom t (tconnStep t st f) fs := rfl

theorem tconnRunFrom_length (t : Transport) (st : List Bool × Nat) (fs : List TFlight) :
    (tconnRunFrom t st fs).1.length = st.1.length := by
  induction fs generalizing st with
  | nil => rfl
  | cons f fs ih => rw [tconnRunFrom_cons, ih, tconnStep_length]

/-- a quiet step — the pause stays below the idle timeout and the answer comes in time — is the untimed step -/
theorem tconnStep_quiet (t : Transport) (st : List Bool × Nat) (f : TFlight)
    (he : idleExpired t f.pause = false) (hl : responseLost t f.delay = false) :
    tconnStep t st f = connStep (keeps t) st f.untimed := by
  simp [tconnStep, connStep, TFlight.untimed, he, hl]

/-- **refinement**: a run without expiry and without lost answers is the untimed run of the same flights -/
theorem tconnRunFrom_quiet (t : Transport) (st : List Bool × Nat) (fs : List TFlight)
    (hq : ∀ f ∈ fs, idleExpired t f.pause = false ∧ responseLost t f.delay = false) :
    tconnRunFrom t st fs = connRunFrom (keeps t) st (fs.map TFlight.untimed) := by
  induction fs generalizing st with
  | nil => rfl
  | cons f fs ih =>
    rw [tconnRunFrom_cons, List.map_cons, connRunFrom_cons,
      tconnStep_quiet t st f (hq f List.mem_cons_self).1 (hq f List.mem_cons_self).2]
    exact ih _ (fun f' h' => hq f' (List.mem_cons_of_mem _ h'))

/-- the general account: connections + idle connections held before = connections before + idle connections held after
+ what was given up on the way; every arriving request gives up at most one connection, and only for one of four
reasons: the transport keeps none, the request asked to close, the idle connection expired, the answer was lost -/
theorem tconnRunFrom_bound (t : Transport) (st : List Bool × Nat) (fs : List TFlight)
    (hg : ∀ f ∈ fs, f.gun < st.1.length) (hk : keeps t = true) :
    (tconnRunFrom t st fs).2 + st.1.count true ≤
      st.2 + (tconnRunFrom t st fs).1.count true +
        countClosing (fs.map TFlight.untimed) + countExpired t fs + countLost t fs := by
  induction fs generalizing st with
  | nil => simp [tconnRunFrom, countClosing, countExpired, countLost]
  | cons f fs ih =>
    have hf : f.gun < st.1.length := hg f List.mem_cons_self
    have hrest : ∀ f' ∈ fs, f'.gun < (tconnStep t st f).1.length := by
      intro f' hf'
      rw [tconnStep_length]
      exact hg f' (List.mem_cons_of_mem _ hf')
    have := ih (tconnStep t st f) hrest
    rw [tconnRunFrom_cons]
    simp only [List.map_cons, countClosing, countExpired, countLost, TFlight.untimed]
    by_cases ha : f.arrived = true
    · have hc := count_set st.1 f.gun (keeps t && !f.close && !responseLost t f.delay) hf
      simp only [tconnStep, ha, Bool.not_true, Bool.false_eq_true, if_false, hk, Bool.true_and] at this hc ⊢
      cases hcl : f.close <;> cases hid : st.1.getD f.gun false <;> cases hex : idleExpired t f.pause <;>
        cases hlo : responseLost t f.delay <;>
        simp only [hcl, hid, hex, hlo, Bool.not_false, Bool.not_true, Bool.and_true, Bool.and_false,
          if_true, Bool.false_eq_true, if_false, Nat.add_zero] at this hc ⊢ <;> omega
    · have ha' : f.arrived = false := by simpa using ha
      simp only [tconnStep, ha', Bool.not_false, if_true, Bool.false_and, Bool.false_eq_true, if_false] at this ⊢
      omega

theorem countClosing_map_untimed_zero (fs : List TFlight) (hc : ∀ f ∈ fs, f.close = false) :
    countClosing (fs.map TFlight.untimed) = 0 := by
  apply countClosing_zero
  intro f hf
  obtain ⟨g, hg, rfl⟩ := List.mem_map.mp hf
  exact hc g hg

end Pandora.Proofs.C09
