/-
C06 helper lemmas: invariant of `Engine.Run` over any number of pools (Model/C06Engine.lean).
-/
import Pandora.Model.C06Engine
import Pandora.Proofs.C06Pool

namespace Pandora.Proofs.C06Engine
open Pandora.Model.C06Engine Pandora.Proofs.C06Pool
open Pandora.Model.C06Pool (PSt PEv)

/-! ### counting -/

theorem countGot_le (n : Nat) (got : Nat → Bool) : countGot n got ≤ n := by
  induction n with
  | zero => simp [countGot]
  | succ n ih => simp only [countGot]; split <;> omega

theorem countGot_full (n : Nat) (got : Nat → Bool) (h : countGot n got = n) : ∀ j, j < n → got j = true := by
  induction n with
  | zero => intro j hj; omega
  | succ n ih =>
    simp only [countGot] at h
    have hle := countGot_le n got
    by_cases hg : got n = true
    · simp only [hg, if_true] at h
      intro j hj
      by_cases hjn : j = n
      · subst hjn; exact hg
      · exact ih (by omega) j (by omega)
    · simp only [hg] at h
      simp at h
      omega

theorem countGot_set_ge (n : Nat) (got : Nat → Bool) (j : Nat) (hj : n ≤ j) :
    countGot n (setGot got j) = countGot n got := by
  induction n with
  | zero => rfl
  | succ n ih =>
    simp only [countGot]
    rw [ih (by omega)]
    have : setGot got j n = got n := by simp [setGot]; intro h; omega
    rw [this]

theorem countGot_set (n : Nat) (got : Nat → Bool) (j : Nat) (hj : j < n) (hg : got j = false) :
    countGot n (setGot got j) = countGot n got + 1 := by
  induction n with
  | zero => omega
  | succ n ih =>
    simp only [countGot]
    by_cases hjn : j = n
    · subst hjn
      rw [countGot_set_ge j got j (Nat.le_refl _)]
      simp [setGot, hg]
    · rw [ih (by omega)]
      have : setGot got j n = got n := by simp [setGot]; intro h; omega
      rw [this]; omega

/-! ### the pool: `waitDone` is stable and implies that the aggregator's result was awaited -/

theorem check_waitDone (st : PSt) : st.check.waitDone = st.waitDone := by
  unfold PSt.check; dsimp only; split <;> rfl

theorem waitDone_mono (st : PSt) (e : PEv) (h : st.waitDone = true) :
    (Pandora.Model.C06Pool.step st e).waitDone = true := by
  cases e <;> simp only [Pandora.Model.C06Pool.step] <;> (try split) <;> simp [check_waitDone, h]

/-- what `waitDone` stands for -/
theorem wd_all {st : PSt} (p : PInv st) (hw : st.waitDone = true) :
    st.aggDone = true ∧ st.aggOpen = false ∧ st.runResOpen = false ∧ st.running = 0 ∧ st.starting = false := by
  have h0 := p.wd hw
  have hacct := p.acct
  have ha : st.aggOpen = false := by
    cases h : st.aggOpen with
    | false => rfl
    | true =>
      rw [h0, h, b2n_true] at hacct
      have := b2n_le st.provOpen; have := b2n_le st.startResOpen; have := b2n_le st.runResOpen
      omega
  have hr : st.runResOpen = false := by
    cases h : st.runResOpen with
    | false => rfl
    | true =>
      rw [h0, h, b2n_true] at hacct
      have := b2n_le st.provOpen; have := b2n_le st.startResOpen; have := b2n_le st.aggOpen
      omega
  exact ⟨p.aggTaken ha, ha, hr, (p.closed hr).1, (p.closed hr).2.1⟩

/-! ### the engine -/

structure EngInv (st : ESt) : Prop where
  pinv : ∀ j, PInv (st.pools j).p
  retNil : ∀ j, (st.pools j).ret = some true → (st.pools j).p.waitDone = true
  chanLen : st.chan.length ≤ 1
  chanOk : ∀ j ok, (j, ok) ∈ st.chan →
    j < st.n ∧ (st.pools j).sent = true ∧ st.got j = false ∧ (ok = true → (st.pools j).ret = some true)
  gotOk : ∀ j, st.got j = true → j < st.n ∧ (st.pools j).sent = true ∧ (st.pools j).ret = some true
  cnt : st.i = countGot st.n st.got
  retOk : st.ret = some true → st.awaitN ≤ st.i

theorem enginv_init (n awaitN : Nat) : EngInv (init n awaitN 4) := by
  refine ⟨fun _ => pinv_init, ?_, ?_, ?_, ?_, ?_, ?_⟩
  · intro j h; simp [init] at h
  · simp [init]
  · intro j ok h; simp [init] at h
  · intro j h; simp [init] at h
  · show 0 = countGot n (fun _ => false)
    induction n with
    | zero => rfl
    | succ n ih => simp [countGot, ← ih]
  · intro h; simp [init] at h

theorem setPool_same (f : Nat → PoolSt) (j : Nat) (x : PoolSt) : setPool f j x j = x := by simp [setPool]
theorem setPool_other (f : Nat → PoolSt) (j k : Nat) (x : PoolSt) (h : k ≠ j) : setPool f j x k = f k := by
  simp [setPool, h]

/-- replacing pool `j` by a state that keeps what the engine-level invariant says about it -/
theorem pools_update {st : ESt} (h : EngInv st) (j : Nat) (x : PoolSt)
    (hp : PInv x.p) (hret : x.ret = some true → x.p.waitDone = true)
    (hsent : (st.pools j).sent = true → x.sent = true)
    (hkeep : (st.pools j).ret = some true → x.ret = some true) :
    EngInv { st with pools := setPool st.pools j x } := by
  obtain ⟨h1, h2, h3, h4, h5, h6, h7⟩ := h
  refine ⟨?_, ?_, h3, ?_, ?_, h6, h7⟩
  · intro k
    show PInv (setPool st.pools j x k).p
    by_cases hk : k = j
    · subst hk; rw [setPool_same]; exact hp
    · rw [setPool_other _ _ _ _ hk]; exact h1 k
  · intro k
    show (setPool st.pools j x k).ret = some true → (setPool st.pools j x k).p.waitDone = true
    by_cases hk : k = j
    · subst hk; rw [setPool_same]; exact hret
    · rw [setPool_other _ _ _ _ hk]; exact h2 k
  · intro k ok hm
    obtain ⟨a, b, c, d⟩ := h4 k ok hm
    show k < st.n ∧ (setPool st.pools j x k).sent = true ∧ st.got k = false ∧
      (ok = true → (setPool st.pools j x k).ret = some true)
    by_cases hk : k = j
    · subst hk; rw [setPool_same]; exact ⟨a, hsent b, c, fun e => hkeep (d e)⟩
    · rw [setPool_other _ _ _ _ hk]; exact ⟨a, b, c, d⟩
  · intro k hg
    obtain ⟨a, b, c⟩ := h5 k hg
    show k < st.n ∧ (setPool st.pools j x k).sent = true ∧ (setPool st.pools j x k).ret = some true
    by_cases hk : k = j
    · subst hk; rw [setPool_same]; exact ⟨a, hsent b, hkeep c⟩
    · rw [setPool_other _ _ _ _ hk]; exact ⟨a, b, c⟩

theorem enginv_step {st : ESt} (h : EngInv st) (e : EEv) : EngInv (step st e) := by
  cases e with
  | pool j e =>
    simp only [step]
    exact pools_update h j _ (pinv_step (h.pinv j) e) (fun hr => waitDone_mono _ e (h.retNil j hr)) id id
  | poolRetClosed j =>
    simp only [step]
    split
    · rename_i hc
      exact pools_update h j _ (h.pinv j) (fun _ => hc.2) id (fun _ => rfl)
    · exact h
  | poolRetErr j =>
    simp only [step]
    split
    · rename_i hr
      exact pools_update h j _ (h.pinv j) (fun hx => by simp at hx) id (fun hx => by rw [hr] at hx; cases hx)
    · exact h
  | poolSuppress j =>
    simp only [step]
    split
    · split
      · exact pools_update h j _ (h.pinv j) (h.retNil j) (fun _ => rfl) id
      · exact h
    · exact h
  | poolSend j =>
    simp only [step]
    split
    · rename_i ok hr
      split
      · rename_i hc
        obtain ⟨hj, hs, hch⟩ := hc
        have hu := pools_update h j { st.pools j with sent := true } (h.pinv j) (h.retNil j) (fun _ => rfl) id
        obtain ⟨u1, u2, _, _, u5, u6, u7⟩ := hu
        refine ⟨u1, u2, by simp, ?_, u5, u6, u7⟩
        intro k ok' hm
        have hm' : (k, ok') = (j, ok) := by simpa using hm
        obtain ⟨hkj, hok⟩ := Prod.mk.inj hm'
        subst hkj; subst hok
        show k < st.n ∧ (setPool st.pools k { st.pools k with sent := true } k).sent = true ∧ st.got k = false ∧
          (ok' = true → (setPool st.pools k { st.pools k with sent := true } k).ret = some true)
        rw [setPool_same]
        refine ⟨hj, rfl, ?_, ?_⟩
        · cases hg : st.got k with
          | false => rfl
          | true => have := (h.gotOk k hg).2.1; rw [hs] at this; cases this
        · intro hx; subst hx; exact hr
      · exact h
    · exact h
  | engRecv =>
    obtain ⟨h1, h2, h3, h4, h5, h6, h7⟩ := h
    simp only [step]
    split
    · rename_i hc
      obtain ⟨hret, hlt⟩ := hc
      split
      · rename_i j rest hch
        -- a nil result of pool j
        have hm : (j, true) ∈ st.chan := by rw [hch]; simp
        obtain ⟨a, b, c, d⟩ := h4 j true hm
        have hrest : rest = [] := by
          have h3' := h3; rw [hch] at h3'
          simp only [List.length_cons] at h3'
          exact List.eq_nil_of_length_eq_zero (by omega)
        refine ⟨h1, h2, by simp [hrest], ?_, ?_, ?_, ?_⟩
        · intro k ok hm'; rw [hrest] at hm'; simp at hm'
        · intro k hg
          by_cases hk : k = j
          · subst hk; exact ⟨a, b, d rfl⟩
          · have : st.got k = true := by simpa [setGot, hk] using hg
            exact h5 k this
        · show st.i + 1 = countGot st.n (setGot st.got j)
          rw [countGot_set st.n st.got j a c, h6]
        · intro hx; rw [hret] at hx; cases hx
      · rename_i j rest hch
        have hrest : rest = [] := by
          have h3' := h3; rw [hch] at h3'
          simp only [List.length_cons] at h3'
          exact List.eq_nil_of_length_eq_zero (by omega)
        refine ⟨h1, h2, by simp [hrest], ?_, h5, h6, ?_⟩
        · intro k ok hm'; rw [hrest] at hm'; simp at hm'
        · intro hx; simp at hx
      · exact ⟨h1, h2, h3, h4, h5, h6, h7⟩
    · exact ⟨h1, h2, h3, h4, h5, h6, h7⟩
  | engCtxDone =>
    obtain ⟨h1, h2, h3, h4, h5, h6, h7⟩ := h
    simp only [step]
    split
    · exact ⟨h1, h2, h3, h4, h5, h6, fun hx => by simp at hx⟩
    · exact ⟨h1, h2, h3, h4, h5, h6, h7⟩
  | engRetNil =>
    obtain ⟨h1, h2, h3, h4, h5, h6, h7⟩ := h
    simp only [step]
    split
    · rename_i hc
      exact ⟨h1, h2, h3, h4, h5, h6, fun _ => by have := hc.2; show st.awaitN ≤ st.i; omega⟩
    · exact ⟨h1, h2, h3, h4, h5, h6, h7⟩

theorem enginv_run (tr : List EEv) {st : ESt} (h : EngInv st) : EngInv (run st tr) := by
  induction tr generalizing st with
  | nil => exact h
  | cons e es ih => exact ih (enginv_step h e)

theorem n_step (st : ESt) (e : EEv) : (step st e).n = st.n ∧ (step st e).awaitN = st.awaitN := by
  cases e <;> simp only [step] <;> (repeat' split) <;> simp

theorem n_run (tr : List EEv) (st : ESt) : (run st tr).n = st.n ∧ (run st tr).awaitN = st.awaitN := by
  induction tr generalizing st with
  | nil => exact ⟨rfl, rfl⟩
  | cons e es ih =>
    have := n_step st e
    have := ih (step st e)
    simp only [run]
    constructor <;> omega

end Pandora.Proofs.C06Engine
