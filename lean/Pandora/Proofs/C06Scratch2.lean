import Pandora.Props.C06

namespace Pandora.Props.C06
open Pandora.Model.Phout Pandora.Proofs.C06

/-- the format hypothesis on the tag is needed: phout has no escaping. EVERY sample (timestamp ≥ 1 s) whose tag
contains one TAB (reachable: `uri`-style ammo takes the tag verbatim from the file) gives a line of 13 columns
instead of 12. The harness reports such inputs as `skip:out-of-format-tag`. -/
theorem C06_phout_tab_in_tag (s : Sample) (withId : Bool) (a b : Bytes) (hms : 1000 ≤ s.ms)
    (htag : s.tag = a ++ TAB :: b) (ha : TAB ∉ a) (hb : TAB ∉ b) :
    ∃ body, encode s withId = some (body ++ [LF]) ∧ (splitOn TAB body).length = 13 := by
  refine ⟨natDigits (s.ms.toNat / 1000) ++ DOT :: pad3 (s.ms.toNat % 1000) ++ TAB :: s.tag ++ idPart s withId
      ++ fieldsPart s, ?_, ?_⟩
  · unfold encode
    rw [encodeBody_ge1000 s withId hms]
    rfl
  · have hk : s.ms.toNat % 1000 < 1000 := by omega
    have hts := tsText_tabfree (s.ms.toNat / 1000) (s.ms.toNat % 1000) hk
    have e : natDigits (s.ms.toNat / 1000) ++ DOT :: pad3 (s.ms.toNat % 1000) ++ TAB :: s.tag ++ idPart s withId ++ fieldsPart s
        = (natDigits (s.ms.toNat / 1000) ++ DOT :: pad3 (s.ms.toNat % 1000)) ++
          ((a :: (b ++ idPart s withId) :: s.fields.map intBytes).flatMap (fun t => TAB :: t)) := by
      rw [htag, fieldsPart_eq]; simp
    rw [e, splitOn_tokens _ _ hts]
    · simp [Sample.fields]
    · intro t ht
      simp only [List.mem_cons] at ht
      rcases ht with rfl | rfl | ht
      · exact ha
      · simp only [List.mem_append, not_or]; exact ⟨hb, tab_notin_idPart s withId⟩
      · obtain ⟨v, _, rfl⟩ := List.mem_map.mp ht
        exact tab_notin_intBytes v

/-- non-vacuity -/
example : ∃ s : Sample, 1000 ≤ s.ms ∧ s.tag = [97] ++ TAB :: [98] ∧ TAB ∉ ([97] : Bytes) ∧ TAB ∉ ([98] : Bytes) :=
  ⟨{ ms := 1700000000123, tag := [97, 9, 98], id := 1, intervalReal := 1, connect := 2, send := 3, latency := 4,
     receive := 5, intervalEvent := 6, sizeOut := 7, sizeIn := 8, netCode := 9, protoCode := 10 },
   by decide, by decide, by decide, by decide⟩

section Q3
open Pandora.Model.AggQueue

/-- the literal strongest reading — EVERY completed Report call, also one made after the cancel while the
pool is still winding down, is written or counted — as a statement … -/
def C06_queue_every_report_statement : Prop :=
  ∀ (cfg : Cfg) (progs : Nat → List Nat) (sched : List Ev),
    let st := run cfg (init progs) sched
    st.phase = .returned → (st.out ++ st.dropped).Perm st.reports

/-- … is false for a cancelled run: a Report that completes after `Run` has returned (an instance whose shoot
was in flight when the context was cancelled) lands in a queue nobody reads. What holds instead, for every
schedule, is `C06_queue_any_schedule` / `C06_queue_reported_before_cancel` (everything reported before the
cancel, indeed before `Run` returned), and for a run that ends by itself `C06_end_of_run_complete` (the pool
issues the cancel only after the last Report). -/
theorem C06_queue_every_report_counterexample : ¬ C06_queue_every_report_statement := by
  intro h
  have := h ⟨.encoder, 4⟩ (fun r => if r = 0 then [7] else []) [.cancel, .seeCancel, .drain, .report 0] (by decide)
  have hl := this.length_eq
  revert hl
  decide

/-- the part that holds without any hypothesis (`_partial` of the statement above): at the moment `Run`
returns, for every schedule -/
theorem C06_queue_every_report_partial (cfg : Cfg) (progs : Nat → List Nat) (pre : List Ev) :
    let s0 := run cfg (init progs) pre
    let s1 := step cfg s0 .drain
    s0.phase = .draining → s0.q = [] → s1.phase = .returned ∧ (s1.out ++ s1.dropped).Perm s1.reports := by
  intro s0 s1 h1 h2
  have := (C06_queue_any_schedule cfg progs pre [] h1 h2).1
  exact ⟨this.1, this.2.2.1⟩

end Q3
end Pandora.Props.C06
