/-
C06 helper lemmas for the error composition of the encoder aggregator (`Model.C06ErrJoin`).
-/
import Pandora.Model.C06ErrJoin

namespace Pandora.Proofs.C06ErrJoin
open Pandora.Model.C06ErrJoin

/-- the code's `Join` on member lists is concatenation (nil is the empty list) -/
theorem evalJoin_code (a b : Err) : evalJoin codeJoin a b = a ++ b := by
  cases a <;> cases b <;> simp [evalJoin, codeJoin, Cond.holds, Ret.value]

theorem foldl_code (f : Faults) (order : List Joined) (e : Err) :
    order.foldl (fun e j => evalJoin codeJoin e (f.errOf j)) e = e ++ (order.map f.errOf).flatten := by
  induction order generalizing e with
  | nil => simp
  | cons j rest ih => simp [List.foldl, evalJoin_code, List.append_assoc]

/-- with the code's `Join`, whatever the order of the deferred joins: the final error is the loop's error followed
by everything that was joined, nothing lost -/
theorem finalErr_code (f : Faults) (order : List Joined) :
    finalErr codeJoin order f = (if f.loop then [Src.loop] else []) ++ (order.map f.errOf).flatten := by
  unfold finalErr; exact foldl_code f order _

theorem droppedOf_append_of_none {a b : Err} (h : droppedOf a = none) : droppedOf (a ++ b) = droppedOf b := by
  induction a with
  | nil => rfl
  | cons x xs ih =>
    cases x <;> simp_all [droppedOf]

theorem droppedOf_droppedErr (n : Nat) : droppedOf (droppedErr n) = if n = 0 then none else some n := by
  unfold droppedErr; split <;> simp_all [droppedOf]

/-- nothing but the drop count is a `dropped` member -/
theorem droppedOf_errOf_other (f : Faults) {j : Joined} (h : j ≠ .dropped) : droppedOf (f.errOf j) = none := by
  cases j
  · simp only [Faults.errOf]; split <;> simp [droppedOf]
  · simp only [Faults.errOf]; split <;> simp [droppedOf]
  · exact absurd rfl h

theorem droppedOf_flatten_zero (f : Faults) (h0 : f.dropped = 0) (order : List Joined) :
    droppedOf (order.map f.errOf).flatten = none := by
  induction order with
  | nil => rfl
  | cons j rest ih =>
    simp only [List.map_cons, List.flatten_cons]
    by_cases hj : j = .dropped
    · subst hj; simp [Faults.errOf, droppedErr, h0, ih]
    · rw [droppedOf_append_of_none (droppedOf_errOf_other f hj)]; exact ih

theorem droppedOf_flatten_mem (f : Faults) (hd : f.dropped ≠ 0) (order : List Joined) (hm : Joined.dropped ∈ order) :
    droppedOf (order.map f.errOf).flatten = some f.dropped := by
  induction order with
  | nil => cases hm
  | cons j rest ih =>
    simp only [List.map_cons, List.flatten_cons]
    by_cases hj : j = .dropped
    · subst hj; simp [Faults.errOf, droppedErr, hd, droppedOf]
    · rw [droppedOf_append_of_none (droppedOf_errOf_other f hj)]
      rcases List.mem_cons.mp hm with h | h
      · exact absurd h.symm hj
      · exact ih h

end Pandora.Proofs.C06ErrJoin
