/-
C02 — the onFinish wrapper under concurrent callers (`Model/C02Cb.lean`): the invariant of its transition system
and what follows from it.  Nothing is assumed about the wrapped schedule.
-/
import Pandora.Model.C02Cb
import Pandora.Proofs.C02Reach

namespace Pandora.Proofs.C02Cb
open Pandora.Model.C02 Pandora.Model.C02.Par Pandora.Model.C02.CbW Pandora.Spec.C02

abbrev WLog := List (Nat × Int × WEv)

def gotOf (i : Nat) (e : Nat × Int × WEv) : Option Ret :=
  match e.2.2 with
  | .got r => if e.1 = i then some r else none
  | _ => none

/-- what the newest wrapped call of caller `i` that has returned, returned -/
def lastGot (i : Nat) (log : WLog) : Option Ret := log.findSome? (gotOf i)

def isBegin (e : Nat × Int × WEv) : Bool := e.2.2 == .cbBegin

/-- how often `onFinish` was entered according to the log -/
def begins (log : WLog) : Nat := log.countP isBegin

def EvOK (e : Nat × Int × WEv) (older : WLog) : Prop :=
  match e.2.2 with
  | .ret r => lastGot e.1 older = some r ∧ (finishing r = true → ∃ x ∈ older, x.2.2 = .cbEnd)
  | .cbBegin => (∃ r, lastGot e.1 older = some r ∧ finishing r = true) ∧ ∀ x ∈ older, x.2.2 ≠ .cbBegin
  | .cbEnd => ∃ x ∈ older, x.2.2 = .cbBegin
  | _ => True

/-- every event of the log is justified by what is older than it -/
def LogOK : WLog → Prop
  | [] => True
  | e :: older => EvOK e older ∧ LogOK older

def ThrOK (log : WLog) (once : OnceSt) (i : Nat) (th : WThread) : Prop :=
  (th.pc ≠ .idle → th.todo ≠ []) ∧
  match th.pc with
  | .idle | .inner => True
  | .got r => lastGot i log = some r
  | .inCb r => lastGot i log = some r ∧ finishing r = true ∧ once = .running i
  | .wait r => lastGot i log = some r ∧ finishing r = true ∧ once ≠ .fresh

structure WInv {ι : Type} (st : WSt ι) : Prop where
  thr : ∀ i th, st.thr[i]? = some th → ThrOK st.log st.once i th
  owner : ∀ j, st.once = .running j → ∃ th r, st.thr[j]? = some th ∧ th.pc = .inCb r
  calls : st.calls = (if st.once = .fresh then 0 else 1)
  nbeg : begins st.log = st.calls
  done : st.once = .done → ∃ x ∈ st.log, x.2.2 = .cbEnd
  log : LogOK st.log

theorem lastGot_cons_other (i : Nat) (e : Nat × Int × WEv) (log : WLog) (h : e.1 ≠ i) :
    lastGot i (e :: log) = lastGot i log := by
  unfold lastGot
  rw [List.findSome?_cons]
  have : gotOf i e = none := by
    unfold gotOf
    split
    · simp [h]
    · rfl
  rw [this]

theorem lastGot_cons_nongot (i : Nat) (e : Nat × Int × WEv) (log : WLog) (h : ∀ r, e.2.2 ≠ .got r) :
    lastGot i (e :: log) = lastGot i log := by
  unfold lastGot
  rw [List.findSome?_cons]
  have : gotOf i e = none := by
    unfold gotOf
    split
    · rename_i r hr; exact absurd hr (h r)
    · rfl
  rw [this]

theorem lastGot_cons_got (i : Nat) (now : Int) (r : Ret) (log : WLog) :
    lastGot i ((i, now, .got r) :: log) = some r := by
  unfold lastGot
  rw [List.findSome?_cons]
  simp [gotOf]

theorem begins_cons_non (e : Nat × Int × WEv) (log : WLog) (h : e.2.2 ≠ .cbBegin) : begins (e :: log) = begins log := by
  unfold begins
  rw [List.countP_cons]
  have : isBegin e = false := by simp [isBegin, h]
  simp [this]

theorem begins_cons_begin (i : Nat) (now : Int) (log : WLog) : begins ((i, now, .cbBegin) :: log) = begins log + 1 := by
  unfold begins
  rw [List.countP_cons]
  simp [isBegin]

theorem begins_pos {log : WLog} (h : 0 < begins log) : ∃ x ∈ log, x.2.2 = .cbBegin := by
  unfold begins at h
  rw [List.countP_pos_iff] at h
  obtain ⟨x, hx, hb⟩ := h
  exact ⟨x, hx, by simpa [isBegin] using hb⟩

theorem begins_zero {log : WLog} (h : begins log = 0) : ∀ x ∈ log, x.2.2 ≠ .cbBegin := by
  intro x hx hb
  unfold begins at h
  rw [List.countP_eq_zero] at h
  have := h x hx
  simp [isBegin, hb] at this

/-- a caller other than `i` does not notice events of `i` nor the moves of the Once that `i` may make -/
theorem thrOK_other {log : WLog} {once once' : OnceSt} {i j : Nat} {th : WThread} (news : WLog)
    (hne : j ≠ i) (hnews : ∀ e ∈ news, e.1 = i) (h : ThrOK log once j th)
    (honce : once' = once ∨ (once = .fresh ∧ once' = .running i) ∨ (once = .running i ∧ once' = .done)) :
    ThrOK (news ++ log) once' j th := by
  have hl : lastGot j (news ++ log) = lastGot j log := by
    induction news with
    | nil => rfl
    | cons e rest ih =>
      have he : e.1 ≠ j := by
        have := hnews e List.mem_cons_self
        omega
      rw [List.cons_append, lastGot_cons_other j e _ he]
      exact ih (fun x hx => hnews x (List.mem_cons_of_mem _ hx))
  obtain ⟨h1, h2⟩ := h
  refine ⟨h1, ?_⟩
  cases hpc : th.pc with
  | idle => trivial
  | inner => trivial
  | got r => rw [hpc] at h2; simp only at h2 ⊢; rw [hl]; exact h2
  | inCb r =>
    rw [hpc] at h2; simp only at h2 ⊢
    obtain ⟨a, b, c⟩ := h2
    refine ⟨by rw [hl]; exact a, b, ?_⟩
    rcases honce with rfl | ⟨hf, _⟩ | ⟨hr, _⟩
    · exact c
    · rw [hf] at c; cases c
    · rw [hr] at c; cases c; exact absurd rfl hne
  | wait r =>
    rw [hpc] at h2; simp only at h2 ⊢
    obtain ⟨a, b, c⟩ := h2
    refine ⟨by rw [hl]; exact a, b, ?_⟩
    rcases honce with rfl | ⟨_, hr⟩ | ⟨_, hd⟩
    · exact c
    · rw [hr]; intro hx; cases hx
    · rw [hd]; intro hx; cases hx

theorem get_set {α : Type} {l : List α} {i j : Nat} {a b : α} (h : (l.set i a)[j]? = some b) :
    (j = i ∧ b = a) ∨ (j ≠ i ∧ l[j]? = some b) := by
  rw [List.getElem?_set] at h
  split at h
  · rename_i hij
    split at h
    · cases h; exact Or.inl ⟨hij.symm, rfl⟩
    · cases h
  · rename_i hij
    exact Or.inr ⟨fun hx => hij hx.symm, h⟩

theorem set_get_self {α : Type} {l : List α} {i : Nat} {a x : α} (h : l[i]? = some x) : (l.set i a)[i]? = some a := by
  rw [List.getElem?_set]
  have : i < l.length := by
    rcases Nat.lt_or_ge i l.length with hlt | hge
    · exact hlt
    · rw [List.getElem?_eq_none hge] at h; cases h
  simp [this]

theorem set_get_other {α : Type} {l : List α} {i j : Nat} {a : α} (h : j ≠ i) : (l.set i a)[j]? = l[j]? := by
  rw [List.getElem?_set]
  have : ¬ i = j := fun hx => h hx.symm
  simp [this]


section
variable {ι : Type} (I : Inner ι)

theorem thr_field {st : WSt ι} (h : WInv st) {i : Nat} (th' : WThread) (news : WLog) (once' : OnceSt)
    (hnews : ∀ e ∈ news, e.1 = i)
    (honce : once' = st.once ∨ (st.once = .fresh ∧ once' = .running i) ∨ (st.once = .running i ∧ once' = .done))
    (hself : ThrOK (news ++ st.log) once' i th') :
    ∀ j th2, (st.thr.set i th')[j]? = some th2 → ThrOK (news ++ st.log) once' j th2 := by
  intro j th2 hj
  rcases get_set hj with ⟨rfl, rfl⟩ | ⟨hne, hj'⟩
  · exact hself
  · exact thrOK_other news hne hnews (h.thr j th2 hj') honce

/-- the owner of the Once stays where it is when another caller moves -/
theorem owner_other {st : WSt ι} (h : WInv st) {i : Nat} {th : WThread} (hth : st.thr[i]? = some th)
    (hpc : ∀ r, th.pc ≠ .inCb r) (th' : WThread) :
    ∀ j, st.once = .running j → ∃ th2 r, (st.thr.set i th')[j]? = some th2 ∧ th2.pc = .inCb r := by
  intro j hj
  obtain ⟨th2, r, h2, hp⟩ := h.owner j hj
  have hne : j ≠ i := by
    intro hx; subst hx
    rw [hth] at h2; cases h2
    exact hpc r hp
  exact ⟨th2, r, by rw [set_get_other hne]; exact h2, hp⟩

theorem calls_pos_of_begin {st : WSt ι} (h : WInv st) (hf : st.once = .fresh) : ∀ x ∈ st.log, x.2.2 ≠ .cbBegin := by
  apply begins_zero
  rw [h.nbeg, h.calls, hf]; rfl

/-- an action of the wrapped call -/
theorem inv_inner {st : WSt ι} (h : WInv st) {i : Nat} {th : WThread} (hth : st.thr[i]? = some th)
    (hpc : th.pc = .idle ∨ th.pc = .inner) (htodo : th.todo ≠ []) (x : ι) (now : Int) (r? : Option Ret) :
    WInv (match r? with
      | none => setPc { st with inner := x } i th .inner now .innerAct
      | some r => setPc { st with inner := x } i th (.got r) now (.got r)) := by
  have hnot : ∀ r, th.pc ≠ .inCb r := by
    intro r hx; rcases hpc with hp | hp <;> rw [hp] at hx <;> cases hx
  cases r? with
  | none =>
    refine ⟨?_, ?_, h.calls, ?_, ?_, ?_⟩
    · exact thr_field h _ [(i, now, .innerAct)] st.once (by simp) (Or.inl rfl) ⟨fun _ => htodo, trivial⟩
    · exact owner_other h hth hnot _
    · show begins ((i, now, WEv.innerAct) :: st.log) = st.calls
      rw [begins_cons_non _ _ (by simp)]; exact h.nbeg
    · intro hd
      obtain ⟨y, hy, hy2⟩ := h.done hd
      exact ⟨y, List.mem_cons_of_mem _ hy, hy2⟩
    · exact ⟨by simp [EvOK], h.log⟩
  | some r =>
    refine ⟨?_, ?_, h.calls, ?_, ?_, ?_⟩
    · exact thr_field h _ [(i, now, .got r)] st.once (by simp) (Or.inl rfl)
        ⟨fun _ => htodo, by simp only [List.cons_append, List.nil_append]; exact lastGot_cons_got i now r st.log⟩
    · exact owner_other h hth hnot _
    · show begins ((i, now, WEv.got r) :: st.log) = st.calls
      rw [begins_cons_non _ _ (by simp)]; exact h.nbeg
    · intro hd
      obtain ⟨y, hy, hy2⟩ := h.done hd
      exact ⟨y, List.mem_cons_of_mem _ hy, hy2⟩
    · exact ⟨by simp [EvOK], h.log⟩

/-- the call returns without touching the Once -/
theorem inv_ret {st : WSt ι} (h : WInv st) {i : Nat} {th : WThread} (hth : st.thr[i]? = some th)
    (r : Ret) (hpc : th.pc = .got r ∨ th.pc = .wait r) (hfin : finishing r = true → st.once = .done)
    (more : List Op) (now : Int) : WInv (doRet st i more now r) := by
  have hnot : ∀ r', th.pc ≠ .inCb r' := by
    intro r' hx; rcases hpc with hp | hp <;> rw [hp] at hx <;> cases hx
  have hlast : lastGot i st.log = some r := by
    have := (h.thr i th hth).2
    rcases hpc with hp | hp <;> rw [hp] at this
    · exact this
    · exact this.1
  refine ⟨?_, ?_, h.calls, ?_, ?_, ?_⟩
  · exact thr_field h _ [(i, now, .ret r)] st.once (by simp) (Or.inl rfl) ⟨fun hx => absurd rfl hx, trivial⟩
  · exact owner_other h hth hnot _
  · show begins ((i, now, WEv.ret r) :: st.log) = st.calls
    rw [begins_cons_non _ _ (by simp)]; exact h.nbeg
  · intro hd
    obtain ⟨y, hy, hy2⟩ := h.done hd
    exact ⟨y, List.mem_cons_of_mem _ hy, hy2⟩
  · exact ⟨⟨hlast, fun hf => h.done (hfin hf)⟩, h.log⟩

/-- `onFinish` is entered -/
theorem inv_begin {st : WSt ι} (h : WInv st) {i : Nat} {th : WThread} (hth : st.thr[i]? = some th)
    (r : Ret) (hpc : th.pc = .got r) (htodo : th.todo ≠ []) (hfin : finishing r = true) (hfresh : st.once = .fresh) (now : Int) :
    WInv (setPc { st with once := .running i, calls := st.calls + 1 } i th (.inCb r) now .cbBegin) := by
  have hlast : lastGot i st.log = some r := by
    have := (h.thr i th hth).2
    rw [hpc] at this; exact this
  refine ⟨?_, ?_, ?_, ?_, ?_, ?_⟩
  · exact thr_field h _ [(i, now, .cbBegin)] (.running i) (by simp) (Or.inr (Or.inl ⟨hfresh, rfl⟩))
      ⟨fun _ => htodo, by
        simp only [List.cons_append, List.nil_append]
        exact ⟨by rw [lastGot_cons_nongot i _ _ (by simp)]; exact hlast, hfin, by trivial⟩⟩
  · intro j hj
    have : j = i := by cases hj; rfl
    subst this
    exact ⟨_, r, set_get_self hth, rfl⟩
  · show st.calls + 1 = _
    rw [h.calls, hfresh]; rfl
  · show begins ((i, now, WEv.cbBegin) :: st.log) = st.calls + 1
    rw [begins_cons_begin, h.nbeg]
  · intro hd; cases hd
  · exact ⟨⟨⟨r, hlast, hfin⟩, (calls_pos_of_begin h hfresh : ∀ x ∈ st.log, x.2.2 ≠ .cbBegin)⟩, h.log⟩

/-- blocked in `Do` (first time: `got → wait`) -/
theorem inv_block {st : WSt ι} (h : WInv st) {i : Nat} {th : WThread} (hth : st.thr[i]? = some th)
    (r : Ret) (hpc : th.pc = .got r) (htodo : th.todo ≠ []) (hfin : finishing r = true) (j : Nat) (hrun : st.once = .running j) (now : Int) :
    WInv (setPc st i th (.wait r) now .blocked) := by
  have hlast : lastGot i st.log = some r := by
    have := (h.thr i th hth).2
    rw [hpc] at this; exact this
  have hnot : ∀ r', th.pc ≠ .inCb r' := by intro r' hx; rw [hpc] at hx; cases hx
  refine ⟨?_, ?_, h.calls, ?_, ?_, ?_⟩
  · exact thr_field h _ [(i, now, .blocked)] st.once (by simp) (Or.inl rfl)
      ⟨fun _ => htodo, by
        simp only [List.cons_append, List.nil_append]
        exact ⟨by rw [lastGot_cons_nongot i _ _ (by simp)]; exact hlast, hfin, by rw [hrun]; intro hx; cases hx⟩⟩
  · exact owner_other h hth hnot _
  · show begins ((i, now, WEv.blocked) :: st.log) = st.calls
    rw [begins_cons_non _ _ (by simp)]; exact h.nbeg
  · intro hd
    obtain ⟨y, hy, hy2⟩ := h.done hd
    exact ⟨y, List.mem_cons_of_mem _ hy, hy2⟩
  · exact ⟨by simp [EvOK], h.log⟩

/-- still blocked -/
theorem inv_blocked {st : WSt ι} (h : WInv st) (i : Nat) (now : Int) (o : OnceSt) (ho : o = st.once) :
    WInv { inner := st.inner, once := o, calls := st.calls, thr := st.thr, log := (i, now, .blocked) :: st.log } := by
  subst ho
  refine ⟨?_, h.owner, h.calls, ?_, ?_, ?_⟩
  · intro j th2 hj
    have := h.thr j th2 hj
    obtain ⟨h1, h2⟩ := this
    refine ⟨h1, ?_⟩
    have hl : lastGot j ((i, now, WEv.blocked) :: st.log) = lastGot j st.log := lastGot_cons_nongot j _ _ (by simp)
    cases hpc : th2.pc with
    | idle => trivial
    | inner => trivial
    | got r => rw [hpc] at h2; simp only at h2 ⊢; rw [hl]; exact h2
    | inCb r => rw [hpc] at h2; simp only at h2 ⊢; rw [hl]; exact h2
    | wait r => rw [hpc] at h2; simp only at h2 ⊢; rw [hl]; exact h2
  · show begins ((i, now, WEv.blocked) :: st.log) = st.calls
    rw [begins_cons_non _ _ (by simp)]; exact h.nbeg
  · intro hd
    obtain ⟨y, hy, hy2⟩ := h.done hd
    exact ⟨y, List.mem_cons_of_mem _ hy, hy2⟩
  · exact ⟨by simp [EvOK], h.log⟩

/-- `onFinish` returns: the Once is done, the call returns -/
theorem inv_end {st : WSt ι} (h : WInv st) {i : Nat} {th : WThread} (hth : st.thr[i]? = some th)
    (r : Ret) (hpc : th.pc = .inCb r) (more : List Op) (now : Int) :
    WInv (doRet { st with once := .done, log := (i, now, .cbEnd) :: st.log } i more now r) := by
  have hT := (h.thr i th hth).2
  rw [hpc] at hT
  obtain ⟨hlast, hfin, hrun⟩ := hT
  refine ⟨?_, ?_, ?_, ?_, ?_, ?_⟩
  · exact thr_field h _ [(i, now, .ret r), (i, now, .cbEnd)] .done (by simp) (Or.inr (Or.inr ⟨hrun, rfl⟩))
      ⟨fun hx => absurd rfl hx, trivial⟩
  · intro j hj; cases hj
  · show st.calls = _
    rw [h.calls, hrun]; rfl
  · show begins ((i, now, WEv.ret r) :: (i, now, WEv.cbEnd) :: st.log) = st.calls
    rw [begins_cons_non _ _ (by simp), begins_cons_non _ _ (by simp)]; exact h.nbeg
  · intro _
    exact ⟨(i, now, .cbEnd), List.mem_cons_of_mem _ List.mem_cons_self, rfl⟩
  · refine ⟨⟨?_, fun _ => ⟨(i, now, .cbEnd), List.mem_cons_self, rfl⟩⟩, ?_, h.log⟩
    · show lastGot i ((i, now, WEv.cbEnd) :: st.log) = some r
      rw [lastGot_cons_nongot i _ _ (by simp)]; exact hlast
    · show ∃ x ∈ st.log, x.2.2 = .cbBegin
      apply begins_pos
      rw [h.nbeg, h.calls, hrun]; simp

theorem wstep_inv (st : WSt ι) (e : Nat × Int) (h : WInv st) : WInv (wstep I st e) := by
  unfold wstep
  cases hth : st.thr[e.1]? with
  | none => exact h
  | some th =>
    simp only
    cases htodo : th.todo with
    | nil => exact h
    | cons op more =>
      simp only
      have hne : th.todo ≠ [] := by rw [htodo]; simp
      cases hpc : th.pc with
      | idle => exact inv_inner h hth (Or.inl hpc) hne _ _ _
      | inner => exact inv_inner h hth (Or.inr hpc) hne _ _ _
      | got r =>
        simp only
        cases hf : finishing r with
        | false =>
          simp only [Bool.false_eq_true, if_false]
          exact inv_ret h hth r (Or.inl hpc) (by rw [hf]; intro hx; cases hx) more e.2
        | true =>
          simp only [if_true]
          cases ho : st.once with
          | fresh => exact inv_begin h hth r hpc hne hf ho e.2
          | running j => exact inv_block h hth r hpc hne hf j ho e.2
          | done => exact inv_ret h hth r (Or.inl hpc) (fun _ => ho) more e.2
      | inCb r => exact inv_end h hth r hpc more e.2
      | wait r =>
        simp only
        cases ho : st.once with
        | fresh => exact inv_blocked h e.1 e.2 _ ho.symm
        | running j => exact inv_blocked h e.1 e.2 _ ho.symm
        | done => exact inv_ret h hth r (Or.inr hpc) (fun _ => ho) more e.2

theorem wrun_inv : ∀ (sched : List (Nat × Int)) (st : WSt ι), WInv st → WInv (wrun I st sched)
  | [], _, h => h
  | e :: rest, st, h => by
      have := wrun_inv rest (wstep I st e) (wstep_inv I st e h)
      simpa [wrun] using this

theorem winit_inv (x : ι) (progs : List (List Op)) : WInv (winit x progs) := by
  refine ⟨?_, ?_, rfl, rfl, ?_, trivial⟩
  · intro i th hth
    simp only [winit, List.getElem?_map] at hth
    cases hp : progs[i]? with
    | none => rw [hp] at hth; cases hth
    | some p => rw [hp] at hth; cases hth; exact ⟨fun hx => absurd rfl hx, trivial⟩
  · intro j hj; cases hj
  · intro hd; cases hd

end


/-! ### what the invariant says about a log -/

theorem logOK_suffix : ∀ (newer : WLog) {e : Nat × Int × WEv} {older : WLog}, LogOK (newer ++ e :: older) → EvOK e older
  | [], _, _, h => h.1
  | _ :: rest, _, _, h => logOK_suffix rest h.2

theorem gotOf_some {i : Nat} {e : Nat × Int × WEv} {r : Ret} (h : gotOf i e = some r) : ∃ now, e = (i, now, .got r) := by
  obtain ⟨j, now, ev⟩ := e
  cases ev <;> simp [gotOf] at h
  obtain ⟨rfl, rfl⟩ := h
  exact ⟨now, rfl⟩

theorem lastGot_mem {i : Nat} {r : Ret} : ∀ {log : WLog}, lastGot i log = some r →
    ∃ o1 now o2, log = o1 ++ (i, now, .got r) :: o2
  | [], h => by simp [lastGot] at h
  | e :: rest, h => by
      unfold lastGot at h
      rw [List.findSome?_cons] at h
      cases hg : gotOf i e with
      | some r' =>
        rw [hg] at h
        cases h
        obtain ⟨now, rfl⟩ := gotOf_some hg
        exact ⟨[], now, rest, rfl⟩
      | none =>
        rw [hg] at h
        obtain ⟨o1, now, o2, rfl⟩ := lastGot_mem (log := rest) h
        exact ⟨e :: o1, now, o2, rfl⟩

/-! ### the wrapped schedule as the atomic flat spec -/

open Pandora.Proofs.C02Par Pandora.Proofs.C02Reach

/-- the flat spec as the wrapped schedule: every call is one atomic action -/
def absInner : Inner Abs where
  act A _ op now := match op with
    | .next => ((absNext A now).1, some (.tok (absNext A now).2.1 (absNext A now).2.2))
    | .left => (A, some (.cnt (absLeft A now)))

def gotEv (e : Nat × Int × WEv) : Option (Nat × Int × Out) :=
  match e.2.2 with
  | .got r => some (e.1, e.2.1, .ret r)
  | _ => none

/-- the results of the wrapped calls, in the order in which the wrapped calls returned -/
def gotLog (log : WLog) : Log := log.filterMap gotEv

theorem gotLog_cons_non (e : Nat × Int × WEv) (log : WLog) (h : ∀ r, e.2.2 ≠ .got r) : gotLog (e :: log) = gotLog log := by
  unfold gotLog
  rw [List.filterMap_cons]
  have : gotEv e = none := by
    unfold gotEv
    split
    · rename_i r hr; exact absurd hr (h r)
    · rfl
  rw [this]

/-- one action of the wrapper over the flat spec: nothing happens to the wrapped schedule, or one call of it returns -/
theorem abs_step (st : WSt Abs) (e : Nat × Int) :
    (gotLog (wstep absInner st e).log = gotLog st.log ∧ (wstep absInner st e).inner = st.inner) ∨
    (∃ r, gotLog (wstep absInner st e).log = (e.1, e.2, .ret r) :: gotLog st.log ∧
      AbsStep st.inner e.2 (.ret r) (wstep absInner st e).inner) := by
  unfold wstep
  cases hth : st.thr[e.1]? with
  | none => exact Or.inl ⟨rfl, rfl⟩
  | some th =>
    simp only
    cases htodo : th.todo with
    | nil => exact Or.inl ⟨rfl, rfl⟩
    | cons op more =>
      simp only
      have hcall : ∀ (hp : th.pc = .idle ∨ th.pc = .inner),
          ∃ r, (absInner.act st.inner e.1 op e.2).2 = some r ∧ AbsStep st.inner e.2 (.ret r) (absInner.act st.inner e.1 op e.2).1 := by
        intro _
        cases op with
        | next => exact ⟨_, rfl, rfl⟩
        | left => exact ⟨_, rfl, rfl, rfl⟩
      cases hpc : th.pc with
      | idle =>
        obtain ⟨r, hr, hs⟩ := hcall (Or.inl hpc)
        simp only [hr]
        exact Or.inr ⟨r, rfl, hs⟩
      | inner =>
        obtain ⟨r, hr, hs⟩ := hcall (Or.inr hpc)
        simp only [hr]
        exact Or.inr ⟨r, rfl, hs⟩
      | got r =>
        simp only
        split
        · split
          · exact Or.inl ⟨gotLog_cons_non _ _ (by simp), rfl⟩
          · exact Or.inl ⟨gotLog_cons_non _ _ (by simp), rfl⟩
          · exact Or.inl ⟨gotLog_cons_non _ _ (by simp), rfl⟩
        · exact Or.inl ⟨gotLog_cons_non _ _ (by simp), rfl⟩
      | inCb r =>
        refine Or.inl ⟨?_, rfl⟩
        show gotLog ((e.1, e.2, WEv.ret r) :: (e.1, e.2, WEv.cbEnd) :: st.log) = _
        rw [gotLog_cons_non _ _ (by simp), gotLog_cons_non _ _ (by simp)]
      | wait r =>
        simp only
        split
        · exact Or.inl ⟨gotLog_cons_non _ _ (by simp), rfl⟩
        · exact Or.inl ⟨gotLog_cons_non _ _ (by simp), rfl⟩

/-- the results of the wrapped calls are a run of the atomic flat spec, with non-decreasing clock readings -/
theorem abs_run : ∀ (sched : List (Nat × Int)) (st : WSt Abs) (A0 : Abs) (clk : Int), ClockOK clk sched →
    Reach A0 (gotLog st.log) st.inner → LogMono clk (gotLog st.log) →
    Reach A0 (gotLog (wrun absInner st sched).log) (wrun absInner st sched).inner ∧
      LogMono (lastClk clk sched) (gotLog (wrun absInner st sched).log)
  | [], _, _, _, _, h1, h2 => ⟨h1, h2⟩
  | e :: rest, st, A0, clk, hc, h1, h2 => by
      have hw : LogMono e.2 (gotLog st.log) := by
        cases hl : gotLog st.log with
        | nil => trivial
        | cons x xs => rw [hl] at h2; exact ⟨by have := h2.1; have := hc.1; omega, h2.2⟩
      have hstep : Reach A0 (gotLog (wstep absInner st e).log) (wstep absInner st e).inner ∧
          LogMono e.2 (gotLog (wstep absInner st e).log) := by
        rcases abs_step st e with ⟨hl, hi⟩ | ⟨r, hl, hs⟩
        · rw [hl, hi]; exact ⟨h1, hw⟩
        · rw [hl]; exact ⟨⟨st.inner, h1, hs⟩, Int.le_refl _, hw⟩
      have := abs_run rest (wstep absInner st e) A0 e.2 hc.2 hstep.1 hstep.2
      simpa [wrun, lastClk] using this

theorem gotLog_append (a b : WLog) : gotLog (a ++ b) = gotLog a ++ gotLog b := by
  unfold gotLog; rw [List.filterMap_append]

end Pandora.Proofs.C02Cb
