/-
C10, round 6 — helper lemmas: the loop body regenerated from `instance.Run` (C03's `Gen.InstLoop.iterBody`, read-only)
composed with the guns of `Model.C10`.
-/
import Pandora.Gen.InstLoop
import Pandora.Model.C10R6
import Pandora.Proofs.C10R4

namespace Pandora.Proofs.C10
open Pandora.Model.C10 Pandora.Spec.C10
open Pandora.Model.C03Loop (Instr Act Oracle Outcome exec)

/-- every path of the REGENERATED iteration body, by the three answers of the environment -/
theorem exec_iterBody (o : Oracle) :
    exec Gen.InstLoop.iterBody o .run none [] =
      if o.acqOk then
        if o.waitOk then
          if o.fire then ([.acq, .tokOk, .reqAdd, .shoot, .respAdd, .rel], .retNil)
          else ([.acq, .tokOk, .discard, .rel], .retNil)
        else ([.acq, .tokEnd, .rel], .retNil)
      else ([.empty], .retErr) := by
  obtain ⟨a, w, f⟩ := o
  cases a <;> cases w <;> cases f <;> decide

theorem iterReports_gen (o : Oracle) (gun : List Sample) :
    iterReports Gen.InstLoop.iterBody o gun =
      if o.acqOk && o.waitOk then (if o.fire then gun else [discardedSample]) else [] := by
  unfold iterReports
  rw [exec_iterBody]
  obtain ⟨a, w, f⟩ := o
  cases a <;> cases w <;> cases f <;> simp [actReports]

theorem iterShots_gen (o : Oracle) :
    iterShots Gen.InstLoop.iterBody o = if o.acqOk && o.waitOk && o.fire then 1 else 0 := by
  unfold iterShots
  rw [exec_iterBody]
  obtain ⟨a, w, f⟩ := o
  cases a <;> cases w <;> cases f <;> decide

theorem runInstance_gen (its : List Iter) :
    runInstance Gen.InstLoop.iterBody its = (ranIters its).flatMap iterSpec := by
  induction its with
  | nil => rfl
  | cons it rest ih =>
    have hx := exec_iterBody it.oracle
    have hr := iterReports_gen it.oracle it.gun
    unfold iterReports at hr
    unfold runInstance ranIters
    simp only [hr]
    rw [hx]
    by_cases ha : it.acqOk = true
    · have hret : (if it.oracle.acqOk = true then
            if it.oracle.waitOk = true then
              if it.oracle.fire = true then (([.acq, .tokOk, .reqAdd, .shoot, .respAdd, .rel] : List Act), Outcome.retNil)
              else ([.acq, .tokOk, .discard, .rel], .retNil)
            else ([.acq, .tokEnd, .rel], .retNil)
          else ([.empty], .retErr)).2 = Outcome.retNil := by
        simp only [Iter.oracle, ha, if_true]
        split <;> (try split) <;> rfl
      rw [hret]
      simp [ha, ih, iterSpec, Iter.oracle]
    · have hf : it.acqOk = false := by simpa using ha
      simp [hf, iterSpec, Iter.oracle]

/-- through the regenerated body, a pool run is the run in which every acquired ammo meets the fate its iteration's
answers give it -/
theorem runPoolLoop_gen {ι : Type} (cfg : AutoTagCfg) (c : Nat) (its : List (ι × ShotPlan × Oracle)) :
    runPoolLoop Gen.InstLoop.iterBody cfg c its =
      runPoolD cfg c ((its.filter (·.2.2.acqOk)).map fun x => (x.1, x.2.1, fateOf x.2.2)) := by
  induction its generalizing c with
  | nil => rfl
  | cons x rest ih =>
    obtain ⟨i, p, o⟩ := x
    unfold runPoolLoop
    by_cases ha : o.acqOk = true
    · simp only [ha, if_true, List.filter_cons, List.map_cons, runPoolD, ih]
      congr 1
      rw [iterReports_gen]
      obtain ⟨a, w, f⟩ := o
      cases w <;> cases f <;> simp_all [fateOf]
    · have hf : o.acqOk = false := by simpa using ha
      simp only [hf, Bool.false_eq_true, if_false, List.filter_cons, ih]
      rw [iterReports_gen]
      simp [hf]

/-- the samples of a run with discarded shots: the gun's samples of the fired ammo, in acquisition order, with one
discarded-shot sample per discarded ammo somewhere in between -/
theorem runPoolD_perm {ι : Type} (cfg : AutoTagCfg) (c : Nat) (plans : List (ι × ShotPlan × Fate)) :
    (runPoolD cfg c plans).Perm
      (runPool cfg c (firedOnly plans) ++ List.replicate (countFate .discarded plans) discardedSample) := by
  induction plans generalizing c with
  | nil => simp [runPoolD, runPool, firedOnly, countFate]
  | cons x rest ih =>
    obtain ⟨i, p, f⟩ := x
    have ih' := ih (nextID c).1
    cases f with
    | fired =>
      simp only [runPoolD, firedOnly, List.map_cons, runPool, countFate, List.filter_cons] at ih' ⊢
      simp only [beq_self_eq_true, if_true, ShotPlan.toShot, List.append_assoc]
      have : (Fate.fired == Fate.discarded) = false := by decide
      simp only [this, Bool.false_eq_true, if_false]
      exact List.Perm.append_left _ ih'
    | discarded =>
      simp only [runPoolD, firedOnly, List.map_cons, runPool, countFate, List.filter_cons] at ih' ⊢
      have h1 : (Fate.discarded == Fate.fired) = false := by decide
      simp only [h1, Bool.false_eq_true, if_false, beq_self_eq_true, if_true, List.length_cons, List.replicate_succ,
        List.nil_append, List.singleton_append]
      exact (List.Perm.cons _ ih').trans List.perm_middle.symm
    | dropped =>
      simp only [runPoolD, firedOnly, List.map_cons, runPool, countFate, List.filter_cons] at ih' ⊢
      have h1 : (Fate.dropped == Fate.fired) = false := by decide
      have h2 : (Fate.dropped == Fate.discarded) = false := by decide
      simp only [h1, h2, Bool.false_eq_true, if_false, List.nil_append]
      exact ih'

theorem firedOnly_length {ι : Type} (plans : List (ι × ShotPlan × Fate)) : (firedOnly plans).length = plans.length := by
  simp [firedOnly]

theorem firedOnly_fired {ι : Type} (plans : List (ι × ShotPlan × Fate)) :
    ((firedOnly plans).filter (·.2.fired)).length = countFate .fired plans := by
  induction plans with
  | nil => rfl
  | cons x rest ih =>
    obtain ⟨i, p, f⟩ := x
    simp only [firedOnly, List.map_cons, countFate, List.filter_cons] at ih ⊢
    cases f <;> simp_all

/-- no gun sample of a run that does not wrap the counter carries the id 0 (which the discarded-shot sample carries) -/
theorem runPool_ids_pos {ι : Type} (cfg : AutoTagCfg) (c : Nat) (plans : List (ι × ShotPlan))
    (h : c + plans.length < idModulus) : ∀ s ∈ runPool cfg c plans, c < s.id ∧ s.id ≤ c + plans.length := by
  intro s hs
  have hsub := (runPool_ids cfg c plans).1
  have hmem : s.id ∈ (runPool cfg c plans).map (·.id) := List.mem_map.mpr ⟨s, hs, rfl⟩
  have := hsub.subset hmem
  simp only [List.mem_map, List.mem_range'_1] at this
  obtain ⟨k, ⟨hk1, hk2⟩, hk⟩ := this
  have : (c + k) % idModulus = c + k := Nat.mod_eq_of_lt (by omega)
  omega

end Pandora.Proofs.C10
