/-
C03 — `(*instancePool).Run` and the await goroutine (`Pandora.Model.C03Pool`): when does `Run` return nil.
-/
import Pandora.Model.C03Pool

namespace Pandora.Proofs.C03Pool
open Pandora.Model.C03Await Pandora.Model.C03Pool

/-- what the await goroutine does on `awaitErr` -/
theorem goroutine_eq (rs : List Res) :
    goroutine rs goBody goDeferred =
      match arun ainit rs with
      | some s => List.replicate s.errs .send ++ (if s.over then [ChEv.close] else [])
      | none => [] := by
  simp only [goroutine, goBody, goDeferred, List.cons_append, List.nil_append, goTrace]
  cases arun ainit rs with
  | none => rfl
  | some s => cases s.over <;> simp

/-- the first operation on the channel is the `close` exactly when the loop of `awaitRun` is over and `onErrAwaited` was
never called -/
theorem head_close_iff (rs : List Res) :
    (∃ t, goroutine rs goBody goDeferred = .close :: t) ↔ ∃ s, arun ainit rs = some s ∧ s.errs = 0 ∧ s.over = true := by
  rw [goroutine_eq]
  cases h : arun ainit rs with
  | none => simp
  | some s =>
    simp only [Option.some.injEq, exists_eq_left']
    cases he : s.errs with
    | zero =>
      cases ho : s.over <;> simp
    | succ n => simp [List.replicate_succ]

/-- `Run`, path by path -/
theorem outcome_eq (e : PEnv) (rs : List Res) :
    outcome e rs =
      if e.warmErr then { ret := some .warmErr, derived := true, cancelDeferred := true, waitDoneByRun := 1 }
      else if e.asyncErr then { ret := some .asyncErr, derived := true, cancelDeferred := true, waitDoneByRun := 1 }
      else if e.ctxFirst then { ret := some .ctxErr, derived := true, cancelDeferred := true, awaiting := true }
      else match goroutine rs goBody goDeferred with
        | [] => { derived := true, cancelDeferred := true, awaiting := true }
        | .send :: _ => { ret := some .awaitErr, derived := true, cancelDeferred := true, awaiting := true }
        | .close :: _ => { ret := some .nil, derived := true, cancelDeferred := true, awaiting := true } := by
  obtain ⟨w, a, c⟩ := e
  cases w <;> cases a <;> cases c <;> simp [outcome, poolRun, exec, onAwait] <;>
    (cases goroutine rs goBody goDeferred with
     | nil => simp
     | cons x t => cases x <;> simp)

theorem outcome_nil_iff (e : PEnv) (rs : List Res) :
    (outcome e rs).ret = some .nil ↔
      e.warmErr = false ∧ e.asyncErr = false ∧ e.ctxFirst = false ∧
      ∃ s, arun ainit rs = some s ∧ s.errs = 0 ∧ s.over = true := by
  rw [outcome_eq, ← head_close_iff]
  obtain ⟨w, a, c⟩ := e
  cases w <;> cases a <;> cases c <;> simp <;>
    (cases goroutine rs goBody goDeferred with
     | nil => simp
     | cons x t => cases x <;> simp)

/-- whenever `Run` returns, its own context has been derived and its cancellation deferred; `onWaitDone` is called by `Run`
itself exactly when the await goroutine (which calls it otherwise) was not launched -/
theorem outcome_cancel (e : PEnv) (rs : List Res) :
    (outcome e rs).bad = false ∧ (outcome e rs).cancelDeferred = true ∧
    (outcome e rs).waitDoneByRun = (if (outcome e rs).awaiting then 0 else 1) := by
  rw [outcome_eq]
  obtain ⟨w, a, c⟩ := e
  cases w <;> cases a <;> cases c <;> simp <;>
    (cases goroutine rs goBody goDeferred with
     | nil => simp
     | cons x t => cases x <;> simp)

end Pandora.Proofs.C03Pool
