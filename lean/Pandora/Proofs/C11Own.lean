/-
Programs with hand-over objects (`Model/C11Own.lean`): threads whose programs respect the ownership discipline
`progOk` produce, under every schedule, traces that are well-formed (`WF`) — hence data-race free by `drf_of_wf`.
Also: a general tool to refute happens-before in a concrete trace (`hb_cases`). Core Lean only.
-/
import Pandora.Proofs.C11Exec
import Pandora.Model.C11Own

namespace Pandora.Proofs.C11
open Pandora.Model.C11

/-- where thread `t` stands (`O` = the ownership tokens it holds): between two operations, after taking the lock of a
guarded access, or after the guarded access -/
inductive ShapeO (cls : Nat → Class) (held : Locks) (t : Nat) : List Ev → Prop
  | boundary (O : List Nat) (ops : List OOp) (hown : ∀ l ∈ O, held l = some t) (hok : progOk cls t O ops) :
      ShapeO cls held t (ops.flatMap (expandO cls t))
  | inAcc (O : List Nat) (o : Nat) (w : Bool) (v l : Nat) (ops : List OOp) (hcls : cls o = .sharedSync l)
      (hheld : held l = some t) (hown : ∀ l ∈ O, held l = some t) (hnot : l ∉ O) (hok : progOk cls t O ops) :
      ShapeO cls held t (.acc t o w v :: .rel t l :: ops.flatMap (expandO cls t))
  | inRel (O : List Nat) (l : Nat) (ops : List OOp) (hheld : held l = some t) (hown : ∀ l ∈ O, held l = some t)
      (hnot : l ∉ O) (hok : progOk cls t O ops) :
      ShapeO cls held t (.rel t l :: ops.flatMap (expandO cls t))

def CfgOkO (cls : Nat → Class) (c : Cfg) : Prop :=
  ∀ (t : Nat) (evs : List Ev), c.todo[t]? = some evs → ShapeO cls c.held t evs

theorem own_set (held : Locks) (t : Nat) (O : List Nat) (l : Nat) (v : Option Nat) (hl : held l ≠ some t)
    (hown : ∀ l' ∈ O, held l' = some t) : ∀ l' ∈ O, (held.set l v) l' = some t := by
  intro l' hl'
  have hne : l' ≠ l := by
    intro h
    subst h
    exact hl (hown _ hl')
  rw [set_other _ _ _ _ hne]
  exact hown l' hl'

/-- a lock operation on `l` by another party keeps the shape of a thread that does not hold `l` -/
theorem shapeO_set (cls : Nat → Class) (held : Locks) (t : Nat) (evs : List Ev) (l : Nat) (v : Option Nat)
    (hl : held l ≠ some t) (h : ShapeO cls held t evs) : ShapeO cls (held.set l v) t evs := by
  cases h with
  | boundary O ops hown hok => exact ShapeO.boundary O ops (own_set held t O l v hl hown) hok
  | inAcc O o w v' l0 ops hcls hheld hown hnot hok =>
    refine ShapeO.inAcc O o w v' l0 ops hcls ?_ (own_set held t O l v hl hown) hnot hok
    have : l0 ≠ l := by intro h; subst h; exact hl hheld
    rw [set_other _ _ _ _ this]; exact hheld
  | inRel O l0 ops hheld hown hnot hok =>
    refine ShapeO.inRel O l0 ops ?_ (own_set held t O l v hl hown) hnot hok
    have : l0 ≠ l := by intro h; subst h; exact hl hheld
    rw [set_other _ _ _ _ this]; exact hheld

theorem stepT_okO (cls : Nat → Class) (c c' : Cfg) (t : Nat) (e : Ev) (hc : CfgOkO cls c)
    (hs : stepT c t = some (e, c')) : stepOk cls c.held e ∧ c'.held = next c.held e ∧ CfgOkO cls c' := by
  unfold stepT at hs
  cases htodo : c.todo[t]? with
  | none => simp [htodo] at hs
  | some evs =>
    cases evs with
    | nil => simp [htodo] at hs
    | cons e0 rest =>
      simp only [htodo] at hs
      by_cases hen : enabled c.held e0 = true
      · simp only [hen, if_true, Option.some.injEq, Prod.mk.injEq] at hs
        obtain ⟨he, hc'⟩ := hs
        subst he
        subst hc'
        have hsh := hc t (e0 :: rest) htodo
        have hlt : t < c.todo.length := (List.getElem?_eq_some_iff.mp htodo).1
        -- the other threads
        have others : ∀ (held' : Locks), (∀ t' evs, t' ≠ t → c.todo[t']? = some evs → ShapeO cls held' t' evs) →
            ShapeO cls held' t rest → CfgOkO cls { held := held', todo := c.todo.set t rest } := by
          intro held' hoth hme t' evs hget
          simp only [List.getElem?_set] at hget
          by_cases htt : t = t'
          · subst htt
            simp only [if_true, hlt] at hget
            rw [← Option.some.inj hget]; exact hme
          · simp only [htt, if_false] at hget
            exact hoth t' evs (Ne.symm htt) hget
        generalize hev : e0 :: rest = evs at hsh
        cases hsh with
        | boundary O ops hown hok =>
          cases ops with
          | nil => simp at hev
          | cons op ops' =>
            cases op with
            | acc op0 =>
              simp only [progOk] at hok
              obtain ⟨hop, hok'⟩ := hok
              simp only [List.flatMap_cons, expandO, expand] at hev
              cases hcls : cls op0.obj with
              | sharedSync l =>
                rw [hcls] at hev
                simp only [List.cons_append, List.nil_append, List.cons.injEq] at hev
                obtain ⟨he0, hrest⟩ := hev
                subst he0; subst hrest
                have hfree : c.held l = none := by
                  simp only [enabled] at hen
                  exact Option.isNone_iff_eq_none.mp hen
                have hnot : l ∉ O := by
                  intro hin
                  have := hown l hin
                  rw [hfree] at this
                  cases this
                refine ⟨hfree, rfl, ?_⟩
                apply others
                · intro t' evs hne hget
                  apply shapeO_set
                  · rw [hfree]; simp
                  · exact hc t' evs hget
                · refine ShapeO.inAcc O op0.obj op0.write op0.val l ops' hcls (by simp [next, set_same]) ?_ hnot hok'
                  simp only [next]
                  exact own_set c.held t O l (some t) (by rw [hfree]; simp) hown
              | loc i =>
                rw [hcls] at hev
                simp only [List.cons_append, List.nil_append, List.cons.injEq] at hev
                obtain ⟨he0, hrest⟩ := hev
                subst he0; subst hrest
                refine ⟨?_, rfl, ?_⟩
                · simp only [stepOk, hcls]
                  simp only [opOk, hcls] at hop
                  exact hop
                · apply others
                  · intro t' evs _ hget; exact hc t' evs hget
                  · exact ShapeO.boundary O ops' hown hok'
              | sharedRO =>
                rw [hcls] at hev
                simp only [List.cons_append, List.nil_append, List.cons.injEq] at hev
                obtain ⟨he0, hrest⟩ := hev
                subst he0; subst hrest
                refine ⟨?_, rfl, ?_⟩
                · simp only [stepOk, hcls]
                  simp only [opOk, hcls] at hop
                  exact hop
                · apply others
                  · intro t' evs _ hget; exact hc t' evs hget
                  · exact ShapeO.boundary O ops' hown hok'
            | own op0 =>
              simp only [progOk] at hok
              obtain ⟨⟨l, hcls, hin⟩, hok'⟩ := hok
              simp only [List.flatMap_cons, expandO, List.cons_append, List.nil_append, List.cons.injEq] at hev
              obtain ⟨he0, hrest⟩ := hev
              subst he0; subst hrest
              refine ⟨?_, rfl, ?_⟩
              · simp only [stepOk, hcls]
                exact hown l hin
              · apply others
                · intro t' evs _ hget; exact hc t' evs hget
                · exact ShapeO.boundary O ops' hown hok'
            | take l =>
              simp only [progOk] at hok
              simp only [List.flatMap_cons, expandO, List.cons_append, List.nil_append, List.cons.injEq] at hev
              obtain ⟨he0, hrest⟩ := hev
              subst he0; subst hrest
              have hfree : c.held l = none := by
                simp only [enabled] at hen
                exact Option.isNone_iff_eq_none.mp hen
              refine ⟨hfree, rfl, ?_⟩
              apply others
              · intro t' evs hne hget
                apply shapeO_set
                · rw [hfree]; simp
                · exact hc t' evs hget
              · refine ShapeO.boundary (l :: O) ops' ?_ hok
                intro l' hl'
                simp only [next]
                rcases List.mem_cons.mp hl' with h | h
                · subst h; exact set_same _ _ _
                · exact own_set c.held t O l (some t) (by rw [hfree]; simp) hown l' h
            | give l =>
              simp only [progOk] at hok
              obtain ⟨hin, hok'⟩ := hok
              simp only [List.flatMap_cons, expandO, List.cons_append, List.nil_append, List.cons.injEq] at hev
              obtain ⟨he0, hrest⟩ := hev
              subst he0; subst hrest
              have hheld : c.held l = some t := hown l hin
              refine ⟨hheld, rfl, ?_⟩
              apply others
              · intro t' evs hne hget
                apply shapeO_set
                · rw [hheld]; intro h; exact hne (Option.some.inj h).symm
                · exact hc t' evs hget
              · refine ShapeO.boundary (O.filter (· != l)) ops' ?_ hok'
                intro l' hl'
                simp only [List.mem_filter, bne_iff_ne, ne_eq] at hl'
                simp only [next]
                rw [set_other _ _ _ _ hl'.2]
                exact hown l' hl'.1
        | inAcc O o w v l ops hcls hheld hown hnot hok =>
          simp only [List.cons.injEq] at hev
          obtain ⟨he0, hrest⟩ := hev
          subst he0; subst hrest
          refine ⟨?_, rfl, ?_⟩
          · simp only [stepOk, hcls]; exact hheld
          · apply others
            · intro t' evs _ hget; exact hc t' evs hget
            · exact ShapeO.inRel O l ops hheld hown hnot hok
        | inRel O l ops hheld hown hnot hok =>
          simp only [List.cons.injEq] at hev
          obtain ⟨he0, hrest⟩ := hev
          subst he0; subst hrest
          refine ⟨hheld, rfl, ?_⟩
          apply others
          · intro t' evs hne hget
            apply shapeO_set
            · rw [hheld]; intro h; exact hne (Option.some.inj h).symm
            · exact hc t' evs hget
          · refine ShapeO.boundary O ops ?_ hok
            intro l' hl'
            simp only [next]
            have hne : l' ≠ l := by intro h; subst h; exact hnot hl'
            rw [set_other _ _ _ _ hne]
            exact hown l' hl'
      · simp [hen] at hs

theorem exec_wfO (cls : Nat → Class) : ∀ (sched : List Nat) (c : Cfg), CfgOkO cls c → WF cls c.held (exec c sched) := by
  intro sched
  induction sched with
  | nil => intro c _; simp [exec, WF]
  | cons t rest ih =>
    intro c hc
    simp only [exec]
    cases hs : stepT c t with
    | none => exact ih c hc
    | some p =>
      obtain ⟨e, c'⟩ := p
      obtain ⟨hok, hheld, hc'⟩ := stepT_okO cls c c' t e hc hs
      simp only [WF]
      refine ⟨hok, ?_⟩
      rw [← hheld]
      exact ih c' hc'

theorem initCfgO_ok (cls : Nat → Class) (progs : List (List OOp))
    (h : ∀ (t : Nat) (ops : List OOp), progs[t]? = some ops → progOk cls t [] ops) : CfgOkO cls (initCfgO cls progs) := by
  intro t evs hget
  simp only [initCfgO, List.getElem?_map, List.getElem?_zipIdx] at hget
  cases hp : progs[t]? with
  | none => simp [hp] at hget
  | some ops =>
    simp [hp] at hget
    subst hget
    exact ShapeO.boundary [] ops (by simp) (h t ops hp)

/-- the executable check implies the discipline -/
theorem progOk_of_progOkB (cls : Nat → Class) (t : Nat) : ∀ (ops : List OOp) (O : List Nat),
    progOkB cls t O ops = true → progOk cls t O ops := by
  intro ops
  induction ops with
  | nil => intro O _; trivial
  | cons op rest ih =>
    intro O h
    cases op with
    | acc op0 =>
      simp only [progOkB, Bool.and_eq_true] at h
      refine ⟨?_, ih O h.2⟩
      have h1 := h.1
      simp only [opOk]
      cases hcls : cls op0.obj with
      | loc i => rw [hcls] at h1; simpa using h1
      | sharedRO => rw [hcls] at h1; simpa using h1
      | sharedSync l => trivial
    | own op0 =>
      simp only [progOkB, Bool.and_eq_true] at h
      refine ⟨?_, ih O h.2⟩
      have h1 := h.1
      cases hcls : cls op0.obj with
      | loc i => rw [hcls] at h1; cases h1
      | sharedRO => rw [hcls] at h1; cases h1
      | sharedSync l =>
        rw [hcls] at h1
        exact ⟨l, rfl, by simpa using h1⟩
    | take l =>
      simp only [progOkB] at h
      exact ih (l :: O) h
    | give l =>
      simp only [progOkB, Bool.and_eq_true] at h
      exact ⟨by simpa using h.1, ih _ h.2⟩

/-- a thread that only performs `acc` operations: the discipline is `opOk` of every access -/
theorem progOk_acc (cls : Nat → Class) (t : Nat) (O : List Nat) : ∀ (ops : List Op),
    (∀ op ∈ ops, opOk cls t op) → progOk cls t O (ops.map OOp.acc) := by
  intro ops
  induction ops with
  | nil => intro _; trivial
  | cons op rest ih =>
    intro h
    exact ⟨h op List.mem_cons_self, ih fun x hx => h x (List.mem_cons_of_mem _ hx)⟩

/-! ### refuting happens-before in a concrete trace -/

/-- every happens-before pair is either a pair of events of one thread, or spans a `rel`→`acq` edge -/
theorem hb_cases (tr : List Ev) (i j : Nat) (h : HB tr i j) :
    i < j ∧ ((∃ a b, tr[i]? = some a ∧ tr[j]? = some b ∧ a.thread = b.thread) ∨
             (∃ p q t t' l, i ≤ p ∧ p < q ∧ q ≤ j ∧ tr[p]? = some (.rel t l) ∧ tr[q]? = some (.acq t' l))) := by
  induction h with
  | po hij hi hj hth => exact ⟨hij, Or.inl ⟨_, _, hi, hj, hth⟩⟩
  | sw hij hi hj => exact ⟨hij, Or.inr ⟨_, _, _, _, _, Nat.le_refl _, hij, Nat.le_refl _, hi, hj⟩⟩
  | trans _ _ ih1 ih2 =>
    obtain ⟨h1, c1⟩ := ih1
    obtain ⟨h2, c2⟩ := ih2
    refine ⟨Nat.lt_trans h1 h2, ?_⟩
    rcases c1 with ⟨a, b, ha, hb, hab⟩ | ⟨p, q, t, t', l, hp, hpq, hq, hrel, hacq⟩
    · rcases c2 with ⟨b', c, hb', hc, hbc⟩ | ⟨p, q, t, t', l, hp, hpq, hq, hrel, hacq⟩
      · rw [hb] at hb'
        cases hb'
        exact Or.inl ⟨a, c, ha, hc, hab.trans hbc⟩
      · exact Or.inr ⟨p, q, t, t', l, by omega, hpq, hq, hrel, hacq⟩
    · exact Or.inr ⟨p, q, t, t', l, hp, hpq, by omega, hrel, hacq⟩

end Pandora.Proofs.C11
