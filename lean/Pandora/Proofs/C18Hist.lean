/-
C18 — histories: several phases (creations) on one registration.  Monotone allocation frontier, frame (a phase never
touches a configuration object that existed before it started, unless the default-config function itself shares one),
and from these the cross-phase statements.
-/
import Pandora.Proofs.C18Ext

set_option linter.unusedSimpArgs false

namespace Pandora.Proofs.C18
open Pandora.Model.C18 Pandora.Spec.C18

/-! ### one operation: frontier and frame -/

set_option maxHeartbeats 1000000 in
theorem callSpec_frame (sh : Shape) (w : World) (doGet vf pan : Bool) (st : St) (hs : sh.dflt ≠ .shared) :
    st.next ≤ (callSpec sh w doGet vf pan st).2.1 ∧
    ∀ c, c < st.next → (callSpec sh w doGet vf pan st).1 c = st.heap c := by
  unfold callSpec
  by_cases h1 : w.hasFill = true <;> by_cases h2 : w.fillFault st.fills = true <;>
  by_cases hcf : ctorFails sh w st.ctors = true <;>
  by_cases hff : factFails sh w st.facts = true <;>
  cases doGet <;> cases vf <;> cases hk : sh.cfg <;>
  simp (config := { contextual := true }) [fillFails, hcf, hff, h1, h2, hk, nextG, capture,
    cellOf, hs, getHeap, markHeap, upd_lt]

theorem facSpec_frame (sh : Shape) (w : World) (rf : RegFac) (pan : Bool) (st : St) :
    (facSpec sh w rf pan st).2.1 = st.next ∧
    ∀ c, rf.cell ≠ some c → (facSpec sh w rf pan st).1 c = st.heap c := by
  unfold facSpec
  by_cases hff : factFails sh w st.facts = true
  · simp [hff]
  · simp only [hff]
    refine ⟨rfl, ?_⟩
    intro c hc
    cases hk : sh.cfg <;> cases hr : rf.cell <;> simp [markHeap, hk, hr]
    rename_i cr
    rw [hr] at hc
    exact upd_ne _ _ (fun h => hc (by rw [h]))

set_option maxHeartbeats 1000000 in
theorem createSpec_frame (sh : Shape) (w : World) (n : Nat) (st : St) (hs : sh.dflt ≠ .shared) :
    st.next ≤ (createSpec sh w n st).2.1 ∧
    (∀ c, c < st.next → (createSpec sh w n st).1 c = st.heap c) ∧
    (∀ rf, ((createSpec sh w n st).2.2.2 = .ok (.directFactory rf) ∨ (createSpec sh w n st).2.2.2 = .ok (.wrapFactory rf n)) →
      ∀ c, rf.cell = some c → st.next ≤ c ∧ c < (createSpec sh w n st).2.1) := by
  unfold createSpec
  by_cases h1 : w.hasFill = true <;> by_cases h2 : w.fillFault st.fills = true <;>
  by_cases hcf : ctorFails sh w st.ctors = true <;>
  by_cases hty : (sh.iface && (outLen sh.factErr == n)) = true <;>
  by_cases hty2 : (sh.iface && (outLen sh.ctorErr == n)) = true <;>
  cases hfa : sh.factory <;> cases hk : sh.cfg <;>
  simp (config := { contextual := true }) [fillFails, hcf, h1, h2, hk, hfa, hty, hty2, nextG, capture,
    cellOf, hs, getHeap, upd_lt]

/-! ### one phase: frontier and frame -/

/-- the final state of a phase -/
theorem phase_state (inp : Input) (st : St) :
    (inp.form = .component ∧ (phaseSt inp st).1 = (newCalls inp st).1) ∨
    (inp.form ≠ .component ∧ (inp.form.numOut = 1 ∨ inp.form.numOut = 2) ∧
      ((∃ e, (created inp st).2 = .error e ∧ (phaseSt inp st).1 = (created inp st).1) ∨
       (∃ fac, (created inp st).2 = .ok fac ∧ (phaseSt inp st).1 = (facCalls inp st fac).1))) := by
  obtain ⟨sh, form, w, k⟩ := inp
  cases form with
  | component => exact .inl ⟨rfl, rfl⟩
  | facNoErr =>
    refine .inr ⟨by simp, .inl rfl, ?_⟩
    cases hc : (regNewFactory sh w Form.facNoErr.numOut (st0 st)).2 with
    | error e => exact .inl ⟨e, rfl, by simp only [phaseSt, hc]⟩
    | ok fac => exact .inr ⟨fac, rfl, by simp only [phaseSt, hc]⟩
  | facErr =>
    refine .inr ⟨by simp, .inr rfl, ?_⟩
    cases hc : (regNewFactory sh w Form.facErr.numOut (st0 st)).2 with
    | error e => exact .inl ⟨e, rfl, by simp only [phaseSt, hc]⟩
    | ok fac => exact .inr ⟨fac, rfl, by simp only [phaseSt, hc]⟩

/-- the frontier never moves back, and (unless the default-config function shares one object) a phase touches no
configuration object that existed when it started -/
theorem phase_frame (inp : Input) (st : St) (hs : inp.sh.dflt ≠ .shared) :
    st.next ≤ (phaseSt inp st).1.next ∧ ∀ c, c < st.next → (phaseSt inp st).1.heap c = st.heap c := by
  -- invariant of every intermediate state
  let I : St → Prop := fun s => st.next ≤ s.next ∧ ∀ c, c < st.next → s.heap c = st.heap c
  have hI0 : I (st0 st) := ⟨Nat.le_refl _, fun _ _ => rfl⟩
  have hcall : ∀ (doGet vf pan : Bool) (r : St × Step) (s : St),
      tri r = callSpec inp.sh inp.w doGet vf pan s → I s → I r.1 := by
    intro doGet vf pan r s hf hIs
    obtain ⟨t1, t2, _⟩ := tri_step hf
    obtain ⟨c1, c2⟩ := callSpec_frame inp.sh inp.w doGet vf pan s hs
    refine ⟨by rw [t2]; exact Nat.le_trans hIs.1 c1, fun c hc => ?_⟩
    rw [t1, c2 c (Nat.lt_of_lt_of_le hc hIs.1)]
    exact hIs.2 c hc
  suffices h : I (phaseSt inp st).1 from h
  rcases phase_state inp st with ⟨_, hst⟩ | ⟨_, hn, hcr⟩
  · rw [hst]
    exact (iter_inv (step (regNew inp.sh inp.w)) I (fun _ => True)
      (fun s hIs => ⟨hcall true inp.sh.factory false _ s (step_regNew inp.sh inp.w s) hIs, trivial⟩)
      inp.k (st0 st) hI0).1
  · obtain ⟨q1, q2, _, q4⟩ := quad_proj (create_eq inp.sh inp.w inp.form.numOut (st0 st) rfl)
    obtain ⟨f1, f2, f3⟩ := createSpec_frame inp.sh inp.w inp.form.numOut (st0 st) hs
    have hIc : I (created inp st).1 := ⟨by rw [q2]; exact f1, fun c hc => by rw [q1]; exact f2 c hc⟩
    rcases hcr with ⟨e, _, hst⟩ | ⟨fac, hfac, hst⟩
    · rw [hst]; exact hIc
    · rw [hst]
      have hfac' := hfac
      rw [q4] at hfac'
      have hok := createSpec_facOk inp.sh inp.w _ (st0 st) fac hfac'
      exact (iter_inv (step (callFac inp.sh inp.w fac)) I (fun _ => True)
        (fun s hIs => ⟨by
          rcases callFac_cases inp.sh inp.w _ hn fac hok s with ⟨_, doGet, _, hh⟩ | ⟨_, rf, hrf, hh⟩
          · exact hcall doGet false _ _ s hh hIs
          · obtain ⟨t1, t2, _⟩ := tri_step hh
            obtain ⟨c1, c2⟩ := facSpec_frame inp.sh inp.w rf (inp.form.numOut == 1) s
            refine ⟨by rw [t2, c1]; exact hIs.1, fun c hc => ?_⟩
            have hne : rf.cell ≠ some c := by
              intro hcell
              have := (f3 rf (by rcases hrf with rfl | rfl <;> simp [hfac']) c hcell).1
              simp only at this
              omega
            rw [t1, c2 c hne]
            exact hIs.2 c hc, trivial⟩)
        inp.k _ hIc).1

/-! ### the configurations a per-product-configuring phase allocates -/

theorem iter_keys_range (f : St → St × Step) (key : Step → Option Nat)
    (hstep : ∀ st, st.next ≤ (f st).1.next ∧ ∀ c, key (f st).2 = some c → st.next ≤ c ∧ c < (f st).1.next) :
    ∀ k st, st.next ≤ (iter f k st).1.next ∧
      ∀ s ∈ (iter f k st).2, ∀ c, key s = some c → st.next ≤ c ∧ c < (iter f k st).1.next := by
  intro k; induction k with
  | zero => intro st; simp [iter]
  | succ k ih =>
    intro st
    obtain ⟨h2, h3⟩ := hstep st
    obtain ⟨i1, i2⟩ := ih (f st).1
    refine ⟨Nat.le_trans h2 i1, ?_⟩
    intro s hs c hc
    simp only [iter, List.mem_cons] at hs
    rcases hs with rfl | hs
    · obtain ⟨a, b⟩ := h3 c hc
      exact ⟨a, Nat.lt_of_lt_of_le b i1⟩
    · obtain ⟨a, b⟩ := i2 s hs c hc
      exact ⟨Nat.le_trans h2 a, b⟩

/-- the products of a phase that configures per product hold configurations allocated by that phase -/
theorem fresh_phase_cells (inp : Input) (st : St) (ha : freshApplies inp = true) :
    ∀ s ∈ (phaseObs inp st).steps, ∀ c, prodCell? s = some c → st.next ≤ c ∧ c < (phaseSt inp st).1.next := by
  simp only [freshApplies, Bool.and_eq_true, bne_iff_ne, ne_eq, Bool.or_eq_true, beq_iff_eq,
    Bool.not_eq_true'] at ha
  obtain ⟨⟨hc, hs⟩, hform⟩ := ha
  have hop : ∀ (vf pan : Bool) (r : St × Step) (s : St), tri r = callSpec inp.sh inp.w true vf pan s →
      s.next ≤ r.1.next ∧ ∀ c, prodCell? r.2 = some c → s.next ≤ c ∧ c < r.1.next := by
    intro vf pan r s hh
    obtain ⟨_, t2, t3⟩ := tri_step hh
    obtain ⟨a1, _, _, a4, _, _⟩ := callSpec_alloc inp.sh inp.w vf pan s hc hs
    rw [t2, t3, a1]
    refine ⟨by omega, fun c hcc => ?_⟩
    have := a4 c hcc
    omega
  have hcase := phase_cases inp st
  rcases phase_state inp st with ⟨hf, hst⟩ | ⟨hf, hn, hcr⟩
  · rcases hcase with ⟨_, hsteps, _⟩ | ⟨hf', _⟩
    · rw [hsteps, hst]
      exact (iter_keys_range (step (regNew inp.sh inp.w)) prodCell?
        (fun s => hop inp.sh.factory false _ s (step_regNew inp.sh inp.w s)) inp.k (st0 st)).2
    · exact absurd hf hf'
  · have hfa : inp.sh.factory = false := by
      rcases hform with hform | hform
      · exact absurd hform hf
      · exact hform
    obtain ⟨q1, q2, q3, q4⟩ := quad_proj (create_eq inp.sh inp.w inp.form.numOut (st0 st) rfl)
    have hcs : createSpec inp.sh inp.w inp.form.numOut (st0 st) =
        ((st0 st).heap, (st0 st).next, [], .ok (.wrapPlugin inp.form.numOut)) := by
      simp [createSpec, hfa, hc]
    rw [hcs] at q2 q4
    rcases hcase with ⟨hf', _⟩ | ⟨_, _, _, hcr'⟩
    · exact absurd hf' hf
    · rcases hcr' with ⟨e, he, _⟩ | ⟨fac, hfac, hsteps, _⟩
      · rw [q4] at he; simp at he
      · have hfac' : fac = .wrapPlugin inp.form.numOut := by
          rw [q4] at hfac; simp at hfac; exact hfac.symm
        subst hfac'
        rcases hcr with ⟨e, he, _⟩ | ⟨fac2, hfac2, hst⟩
        · rw [q4] at he; simp at he
        · have : fac2 = .wrapPlugin inp.form.numOut := by
            rw [q4] at hfac2; simp at hfac2; exact hfac2.symm
          subst this
          rw [hsteps, hst]
          have hr := iter_keys_range (step (callFac inp.sh inp.w (.wrapPlugin inp.form.numOut))) prodCell?
            (fun s => hop false _ _ s (step_wrapPlugin inp.sh inp.w inp.form.numOut hn s hc)) inp.k (created inp st).1
          intro s hs' c hcc
          simp only [List.mem_cons] at hs'
          rcases hs' with rfl | hs'
          · simp [prodCell?, product?] at hcc
          · have := hr.2 s hs' c hcc
            rw [q2] at this
            exact this

theorem viewsOf_congr (h1 h2 : Nat → Cfg) (steps : List Step)
    (h : ∀ s ∈ steps, ∀ c, prodCell? s = some c → h1 c = h2 c) : viewsOf h1 steps = viewsOf h2 steps := by
  induction steps with
  | nil => rfl
  | cons s l ih =>
    have ih' := ih (fun s' hs' => h s' (List.mem_cons_of_mem _ hs'))
    have hs := h s (List.mem_cons_self ..)
    obtain ⟨evs, res⟩ := s
    simp only [viewsOf, List.filterMap_cons] at ih' ⊢
    cases res with
    | ok p =>
      obtain ⟨serial, cell, seen⟩ := p
      cases cell with
      | none => simpa using ih'
      | some c =>
        have := hs c (by simp [prodCell?, product?])
        simp [this, ih']
    | made => simpa using ih'
    | err e => simpa using ih'
    | panic e => simpa using ih'

theorem viewsOf_append (heap : Nat → Cfg) (a b : List Step) : viewsOf heap (a ++ b) = viewsOf heap a ++ viewsOf heap b := by
  simp [viewsOf, List.filterMap_append]

/-! ### the whole history -/

/-- frontier and frame of the rest of a history -/
theorem hist_frame (h : HInput) (hs : h.sh.dflt ≠ .shared) :
    ∀ ps st, st.next ≤ (histSt h ps st).1.next ∧ ∀ c, c < st.next → (histSt h ps st).1.heap c = st.heap c := by
  intro ps; induction ps with
  | nil => intro st; exact ⟨Nat.le_refl _, fun _ _ => rfl⟩
  | cons p ps ih =>
    intro st
    obtain ⟨f1, f2⟩ := phase_frame (h.input p) st hs
    obtain ⟨i1, i2⟩ := ih (phaseSt (h.input p) st).1
    simp only [histSt]
    exact ⟨Nat.le_trans f1 i1, fun c hc => by rw [i2 c (Nat.lt_of_lt_of_le hc f1), f2 c hc]⟩

/-- cells of per-product-configuring phases: all at or above the start frontier, pairwise distinct -/
theorem hist_cells (h : HInput) (hs : h.sh.dflt ≠ .shared) :
    ∀ ps st, (∀ c ∈ freshCellsH h ps (histSt h ps st).2, st.next ≤ c) ∧ (freshCellsH h ps (histSt h ps st).2).Nodup := by
  intro ps; induction ps with
  | nil => intro st; simp [histSt, freshCellsH]
  | cons p ps ih =>
    intro st
    obtain ⟨f1, _⟩ := phase_frame (h.input p) st hs
    obtain ⟨i1, i2⟩ := ih (phaseSt (h.input p) st).1
    simp only [histSt, freshCellsH]
    by_cases ha : freshApplies (h.input p) = true
    · have hr := fresh_phase_cells (h.input p) st ha
      have hnd : (phaseCells (phaseObs (h.input p) st)).Nodup := by
        have := fresh_phase (h.input p) st ha
        simp only [freshOk, Bool.and_eq_true, nodup, decide_eq_true_eq] at this
        obtain ⟨⟨⟨_, n3⟩, _⟩, _⟩ := this
        -- the calls hold all products: the creation step holds none
        have hcalls : (callsOf (h.input p) (phaseObs (h.input p) st)).filterMap prodCell? =
            (phaseObs (h.input p) st).steps.filterMap prodCell? := by
          have he := errors_phase (h.input p) st
          unfold errorsOk at he
          unfold callsOf
          cases hform : (h.input p).form with
          | component => rfl
          | facNoErr | facErr =>
            simp only [hform] at he ⊢
            cases hsx : (phaseObs (h.input p) st).steps with
            | nil => rfl
            | cons c calls =>
              simp only [hsx, Bool.and_eq_true] at he
              obtain ⟨⟨⟨_, hc⟩, _⟩, _⟩ := he
              have hcp : prodCell? c = none := by
                unfold prodCell? product?
                simp only [isMade, isErr, Bool.or_eq_true, beq_iff_eq] at hc
                rcases hc with hc | hc
                · rw [hc]; rfl
                · cases hr : c.res <;> simp_all
              simp [hcp]
        rw [hcalls] at n3
        exact n3
      have hmem : ∀ c ∈ phaseCells (phaseObs (h.input p) st), st.next ≤ c ∧ c < (phaseSt (h.input p) st).1.next := by
        intro c hc
        simp only [phaseCells, List.mem_filterMap] at hc
        obtain ⟨s, hs', hsc⟩ := hc
        exact hr s hs' c hsc
      simp only [ha, if_true]
      refine ⟨?_, ?_⟩
      · intro c hc
        simp only [List.mem_append] at hc
        rcases hc with hc | hc
        · exact (hmem c hc).1
        · exact Nat.le_trans f1 (i1 c hc)
      · rw [List.nodup_append]
        refine ⟨hnd, i2, ?_⟩
        intro a ha' b hb hab
        subst hab
        have := (hmem a ha').2
        have := i1 a hb
        omega
    · simp only [ha, Bool.false_eq_true, if_false, List.nil_append]
      exact ⟨fun c hc => Nat.le_trans f1 (i1 c hc), i2⟩

/-- final views, phase by phase -/
theorem hist_views (h : HInput) (hs : h.sh.dflt ≠ .shared) :
    ∀ ps st, finalViewsOk h ps (histSt h ps st).2
      (viewsOf (histSt h ps st).1.heap ((histSt h ps st).2.flatMap (·.steps))) = true := by
  intro ps; induction ps with
  | nil => intro st; simp [histSt, finalViewsOk]
  | cons p ps ih =>
    intro st
    have ih' := ih (phaseSt (h.input p) st).1
    obtain ⟨_, g2⟩ := hist_frame h hs ps (phaseSt (h.input p) st).1
    simp only [histSt, List.flatMap_cons, viewsOf_append, finalViewsOk]
    have hlen : (viewsOf (histSt h ps (phaseSt (h.input p) st).1).1.heap (phaseObs (h.input p) st).steps).length =
        (phaseCells (phaseObs (h.input p) st)).length := viewsOf_length _ _
    rw [← hlen, List.take_left, List.drop_left]
    simp only [Bool.and_eq_true, Bool.or_eq_true, Bool.not_eq_true', List.all_eq_true, beq_iff_eq]
    refine ⟨?_, ih'⟩
    by_cases ha : freshApplies (h.input p) = true
    · refine .inr ?_
      have hr := fresh_phase_cells (h.input p) st ha
      have hcong := viewsOf_congr (histSt h ps (phaseSt (h.input p) st).1).1.heap (phaseSt (h.input p) st).1.heap
        (phaseObs (h.input p) st).steps (fun s hs' c hc => g2 c (hr s hs' c hc).2)
      rw [hcong]
      have := fresh_phase (h.input p) st ha
      simp only [freshOk, Bool.and_eq_true, List.all_eq_true, beq_iff_eq] at this
      obtain ⟨⟨_, hown⟩, _⟩ := this
      exact hown
    · exact .inl (by simpa using ha)

theorem hist_cross {h : HInput} {o : HObs} (hr : runHist h = some o) : histCrossOk h o = true := by
  unfold runHist at hr
  by_cases hreg : registerOk h.sh = true
  · simp only [hreg, Bool.not_true, Bool.false_eq_true, if_false, Option.some.injEq] at hr
    subst hr
    unfold histCrossOk
    by_cases hs : h.sh.dflt = .shared
    · simp [hs]
    · simp only [Bool.or_eq_true, beq_iff_eq, hs, false_or, Bool.and_eq_true]
      exact ⟨nodup_of _ (hist_cells h hs h.phases (histInit h)).2, hist_views h hs h.phases (histInit h)⟩
  · simp [hreg] at hr

/-- every phase satisfies the single-creation Spec with its own user settings -/
theorem hist_phases (h : HInput) (fields : List Nat) :
    ∀ ps st, histPhasesOk h fields ps (histSt h ps st).2 = true := by
  intro ps; induction ps with
  | nil => intro st; simp [histSt, histPhasesOk]
  | cons p ps ih =>
    intro st
    simp only [histSt, histPhasesOk, Bool.and_eq_true, Bool.or_eq_true, Bool.not_eq_true', beq_iff_eq]
    refine ⟨⟨⟨⟨⟨⟨errors_phase _ st, ?_⟩, ?_⟩, ?_⟩, ?_⟩, struct_phase _ st⟩, ih _⟩
    · by_cases hs : h.sh.dflt = .shared
      · exact .inl hs
      · refine .inr ?_
        have hcfg := config_phase (h.input p) st (fun hsh => absurd hsh hs)
        simp only [configOk, List.all_eq_true]
        intro pr hpr
        obtain ⟨h1, h2⟩ := hcfg pr hpr
        by_cases hc : (h.input p).sh.cfg = .none
        · simp [hc, h1 hc]
        · simp only [hc, if_false, List.all_eq_true, Bool.or_eq_true, beq_iff_eq]
          intro f _
          by_cases hf : f = markField
          · exact .inl hf
          · exact .inr (h2 hc f hf)
    · by_cases ha : freshApplies (h.input p) = true
      · exact .inr (fresh_phase _ st ha)
      · exact .inl (by simpa using ha)
    · by_cases ha : onceApplies (h.input p) = true
      · exact .inr (once_phase _ st ha)
      · exact .inl (by simpa using ha)
    · by_cases ha : percallApplies (h.input p) = true
      · exact .inr (percall_phase _ st ha)
      · exact .inl (by simpa using ha)

end Pandora.Proofs.C18
