/-
C05 — (1) a successful result means the pool is completely finished (`Done`), with no fairness assumption;
(2) termination of runs nobody cancels: under the finite-input contract (`MustFin`: the startup schedule ends and
every `instance.Run` returns — ammo and schedules are finite) a state in which nothing that is bound to happen can
change anything is a finished pool. The run context need not be assumed cancelled: it follows.
-/
import Pandora.Proofs.C05Prog

namespace Pandora.Proofs.C05
open Pandora.Model.C05

/-! ### a nil result of `Pool.Run`: everything was awaited -/

theorem done_of_ok (cfg : Cfg) (s : State) (ha : InvA s) (hb : InvB s) (hg : InvG cfg s)
    (hm : s.main = .returned .ok) : Done cfg s := by
  obtain ⟨hW, _, _⟩ := ha
  have haw : s.aw = .finished := hb.retOk hm
  have hne : s.aw ≠ .off := by simp [haw]
  have htw := hW.toWait hne
  rw [hW.fin haw] at htw
  have hc : (s.prov = .taken ∧ s.agg = .taken) ∧ s.startTaken = true ∧ s.runResOpen = false := by
    simp only [cnt] at htw
    refine ⟨⟨?_, ?_⟩, ?_, ?_⟩ <;> grind
  have hcl := hW.closedRun hne hc.2.2
  have hsd : s.startPc = .done := hW.startDone.2 (hW.taken hc.2.1).1
  refine ⟨⟨_, hm⟩, hW.wd1 haw, Or.inr haw, hcl.2.1, hcl.2.2, Or.inr hc.1.1, Or.inr hc.1.2, Or.inr ⟨hsd, hc.2.1⟩, ?_⟩
  intro g hgm
  simp only [State.guns, hcl.2.1, List.filterMap_nil, List.append_nil, List.mem_append, Option.mem_toList] at hgm
  rcases hgm with hgm | hgm
  · exact hg.warm1 g hgm
  · exact hg.ret1 g hgm

/-! ### `runRes` is closed only together with the cancel of the run context -/

/-- once the await goroutine exists, `ah.runRes == nil` means `checkAllInstancesAreFinished` has run to its end,
and that cancelled the run context -/
def InvR (s : State) : Prop := s.aw ≠ .off → s.runResOpen = false → s.runC = true

theorem invR_init : InvR init := by simp [InvR, init]

theorem r_finish (s : State) (h : InvR s) : InvR (finish s) := by
  unfold finish InvR at *
  split <;> simp_all

theorem r_checkAll (s : State) (h : InvR s) : InvR (checkAll s) := by
  unfold checkAll InvR at *
  repeat' split
  all_goals simp_all

theorem r_afterErr (s : State) (chk : Bool) (h : InvR { s with aw := .loop }) : InvR (afterErr s chk) := by
  unfold afterErr
  apply r_finish
  split
  · exact r_checkAll _ h
  · exact h

theorem r_handleRes (s : State) (w : Wrap) (r : Ret) (done chk : Bool) (h : InvR s) (hl : s.aw = .loop) :
    InvR (handleRes s w r done chk) := by
  unfold handleRes
  split
  · apply r_afterErr
    have e : { s with aw := AwPc.loop } = s := by cases s; simp_all
    rw [e]; exact h
  · unfold InvR at *; simp_all

macro "r_simp" : tactic => `(tactic|
  simp only [InvR, cancelAll, mainReturn, addErr, sendRes, nextWait] at *)

theorem step_invR (cfg : Cfg) (s : State) (c : Choice) (ha : InvA s) (h : InvR s) : InvR (step cfg s c) := by
  have hpre := ha.1.pre
  have hpre2 := ha.1.pre2
  cases c with
  | extCancel => simp [step, InvR, cancelAll]
  | warm o =>
    simp only [step]; split
    · (cases o <;> (r_simp; grind))
    · exact h
  | sched o =>
    simp only [step]; split
    · (cases o <;> (r_simp; grind))
    · exact h
  | provRet r =>
    simp only [step]; split
    · (cases r <;> (r_simp; grind))
    · exact h
  | aggRet r =>
    simp only [step]; split
    · (cases r <;> (r_simp; grind))
    · exact h
  | rpsFinished =>
    simp only [step]; split
    · (r_simp; grind)
    · exact h
  | startFirst o =>
    simp only [step]; split
    · (cases o <;> (r_simp; grind))
    · exact h
  | startTick =>
    simp only [step]; split
    · (r_simp; grind)
    · exact h
  | startEnd =>
    simp only [step]; split
    · (r_simp; grind)
    · exact h
  | instCreate i o =>
    simp only [step]; split
    · cases o <;> (r_simp; grind)
    · exact h
  | instRet i r =>
    simp only [step]; split
    · split
      · exact h
      · cases r <;> (r_simp; grind)
    · exact h
  | awaitProv =>
    simp only [step]; split
    · rename_i r hl hp
      exact r_handleRes _ _ _ _ _ (by r_simp; grind) (by exact hl)
    · exact h
  | awaitAgg =>
    simp only [step]; split
    · rename_i r hl hp
      exact r_handleRes _ _ _ _ _ (by r_simp; grind) (by exact hl)
    · exact h
  | awaitStart =>
    simp only [step]; split
    · rename_i n r hl ht hr
      exact r_handleRes _ _ _ _ _ (by r_simp; grind) (by exact hl)
    · exact h
  | awaitRun =>
    simp only [step]; split
    · rename_i id r rest hl ho hb
      split
      · exact r_afterErr _ _ (by split <;> (r_simp; grind))
      · exact r_handleRes _ _ _ _ _ (by r_simp; grind) (by exact hl)
    · exact h
  | errDeliver =>
    simp only [step]; split
    · exact r_afterErr _ _ (by r_simp; grind)
    · exact h
  | errSuppress =>
    simp only [step]; split
    · rename_i w r chk hl
      have key : InvR (afterErr s chk) := r_afterErr _ _ (by r_simp; grind)
      repeat' split
      all_goals first | exact h | exact key
    · exact h
  | mainCancel =>
    simp only [step]; split
    · (r_simp; grind)
    · exact h
  | mainClosed =>
    simp only [step]; split
    · (r_simp; grind)
    · exact h

theorem foldl_invAR (cfg : Cfg) (cs : List Choice) (s : State) (ha : InvA s) (h : InvR s) :
    InvR (cs.foldl (step cfg) s) := by
  induction cs generalizing s with
  | nil => exact h
  | cons c cs ih => exact ih _ (step_invA cfg s c ha) (step_invR cfg s c ha h)

theorem run_invR (cfg : Cfg) (cs : List Choice) : InvR (run cfg cs) := foldl_invAR cfg cs _ invA_init invR_init

/-! ### termination of runs nobody cancels -/

/-- `Must` plus the finite-input contract: the startup schedule ends (`waiter.Wait(startCtx)` eventually returns
false) and every `instance.Run` returns (ammo and RPS schedules are finite, `Shoot` returns). Still not bound to
happen: the caller's cancel, further startup tokens, the end of a shared schedule before the instances finish, and a
provider / aggregator returning while its context is live. -/
def MustFin (s : State) : Choice → Prop
  | .startEnd => True
  | .instRet _ _ => True
  | c => Must s c

theorem must_mustFin (s : State) (c : Choice) (h : Must s c) : MustFin s c := by
  cases c <;> first | exact h | trivial

def QuiescentFin (cfg : Cfg) (s : State) : Prop := ∀ c, MustFin s c → step cfg s c = s

theorem quiescent_of_fin (cfg : Cfg) (s : State) (h : QuiescentFin cfg s) : Quiescent cfg s :=
  fun c hc => h c (must_mustFin s c hc)

/-- in such a state the run context IS cancelled: all instances were awaited (or `Pool.Run` has returned) -/
theorem runC_of_quiescentFin (cfg : Cfg) (s : State) (ha : InvA s) (hg : InvG cfg s) (hR : InvR s)
    (hq : QuiescentFin cfg s) : s.runC = true := by
  obtain ⟨hW, hpos, hchk⟩ := ha
  cases hm : s.main with
  | init =>
    exfalso
    have h := hq (.warm (.ok false)) trivial
    simp only [step, hm, if_true] at h
    have := congrArg State.main h
    simp [hm] at this
  | warmed =>
    exfalso
    have h := hq (.sched none) trivial
    simp only [step, hm, if_true] at h
    have := congrArg State.main h
    simp [hm] at this
  | returned r => exact hW.ctx1 (hW.retCancel r hm)
  | selecting =>
    have hne : s.aw ≠ .off := hg.sel hm
    have hon := hW.on hne
    cases haw : s.aw with
    | off => exact absurd haw hne
    | onErr w r chk =>
      exfalso
      have h := hq .errDeliver trivial
      simp only [step, haw, hm] at h
      have this := congrArg State.main h
      rw [(same_afterErr _ _).2.2.2.2.1] at this
      simp [mainReturn, cancelAll, hm] at this
    | finished =>
      exfalso
      have hc : s.closedErr = true := hW.closed.2 haw
      have h := hq .mainClosed trivial
      simp only [step, hm, hc, and_self, if_true] at h
      have := congrArg State.main h
      simp [mainReturn, cancelAll, hm] at this
    | loop =>
      -- the start goroutine has ended and its result was taken
      have p3 : s.startPc = .done := by
        have h := hq .startEnd trivial
        simp only [step] at h
        split at h
        · rename_i hc
          have := congrArg State.startPc h
          simp at this
          rw [← this] at hc
          simp at hc
        · rename_i hc
          cases hs : s.startPc with
          | idle => exact absurd hs hon.2.2.1
          | done => rfl
          | waiting f => cases f <;> simp [hs] at hc
          | exiting => simp [hs] at hc
      have c3 : s.startTaken = true := by
        cases ht : s.startTaken with
        | true => rfl
        | false =>
          exfalso
          have hsome := hW.startDone.1 p3
          cases hsr : s.startRes with
          | none => simp [hsr] at hsome
          | some nr =>
            obtain ⟨n, r⟩ := nr
            have h := hq .awaitStart trivial
            simp only [step, haw, ht, hsr] at h
            have this := congrArg State.startTaken h
            rw [(same_handleRes _ _ _ _ _).2.2.1] at this
            simp [ht] at this
      -- every instance has returned
      have l1 : s.live = [] := by
        cases hl : s.live with
        | nil => rfl
        | cons x l =>
          exfalso
          obtain ⟨id, gun⟩ := x
          cases gun with
          | none =>
            have h := hq (.instCreate 0 (.ok false)) trivial
            simp only [step, hl, List.getElem?_cons_zero] at h
            have := congrArg State.live h
            simp [hl] at this
          | some g =>
            have h := hq (.instRet 0 .ok) trivial
            simp only [step, hl, List.getElem?_cons_zero, reduceCtorEq, false_and, ite_false] at h
            have := congrArg (fun t => t.live.length) h
            simp only [sendRes, addErr] at this
            by_cases hro : s.runResOpen = false <;> simp [hro, hl] at this
      -- so `checkAllInstancesAreFinished` has closed `runRes`, which cancels the run context
      cases ho : s.runResOpen with
      | false => exact hR hne ho
      | true =>
        exfalso
        have hlt := hchk (Or.inl haw) c3 ho
        have hcount := hW.count
        rw [l1] at hcount
        cases hb : s.buf with
        | nil => simp [hb] at hcount; omega
        | cons x rest =>
          obtain ⟨id, r⟩ := x
          have h := hq .awaitRun trivial
          simp only [step, haw, ho, hb] at h
          split at h
          · have this := congrArg State.awaited h
            rw [(same_afterErr _ _).2.2.2.1] at this
            first | (simp at this) | (split at this <;> simp at this)
          · have this := congrArg State.awaited h
            rw [(same_handleRes _ _ _ _ _).2.2.2.1] at this
            simp at this

theorem progress_fin (cfg : Cfg) (hw : cfg.fixWaitDone = true) (s : State) (ha : InvA s) (hg : InvG cfg s)
    (hR : InvR s) (hq : QuiescentFin cfg s) : Done cfg s :=
  progress cfg hw s ha hg (runC_of_quiescentFin cfg s ha hg hR hq) (quiescent_of_fin cfg s hq)

end Pandora.Proofs.C05
