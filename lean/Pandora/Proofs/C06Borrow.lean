/-
C06 helper lemmas for lent samples (`Model.C06Borrow`): while an object is in the queue it is not with its owner, so
nobody overwrites it, and what `Encode` reads is what was reported.
-/
import Pandora.Model.C06Borrow

namespace Pandora.Proofs.C06Borrow
open Pandora.Model.C06Borrow

structure Inv (st : St) : Prop where
  /-- a queued object holds what it was reported with and is not with its owner -/
  q : ∀ p, p ∈ st.queue → st.content p.1 = p.2 ∧ st.free p.1 = false
  /-- an object is in the queue at most once -/
  distinct : (st.queue.map Prod.fst).Nodup
  /-- every line written so far holds the reported value -/
  o : ∀ p, p ∈ st.out → p.1 = p.2
  noPending : st.pending = none

theorem inv_init : Inv {} := ⟨(by intro p h; cases h), List.nodup_nil, (by intro p h; cases h), rfl⟩

theorem inv_step {st : St} (h : Inv st) (e : Ev) : Inv (step false st e) := by
  obtain ⟨hq, hd, ho, hp⟩ := h
  cases e with
  | report o v acc =>
    simp only [step]
    by_cases hf : st.free o = true
    · simp only [hf, if_true]
      have hnotin : ∀ p, p ∈ st.queue → p.1 ≠ o := by
        intro p hm he
        have := (hq p hm).2
        rw [he, hf] at this
        exact absurd this (by simp)
      cases acc with
      | true =>
        simp only [if_true]
        refine ⟨?_, ?_, ho, hp⟩
        · intro p hm
          rcases List.mem_append.mp hm with hm | hm
          · have := hq p hm
            have hne := hnotin p hm
            simp [setV, setB, hne, this]
          · simp at hm; subst hm; simp [setV, setB]
        · rw [List.map_append, List.nodup_append]
          refine ⟨hd, by simp, ?_⟩
          intro a ha b hb
          simp at hb
          subst hb
          obtain ⟨p, hpm, hpa⟩ := List.mem_map.mp ha
          rw [← hpa]
          exact hnotin p hpm
      | false =>
        simp only [Bool.false_eq_true, if_false]
        refine ⟨?_, hd, ho, hp⟩
        intro p hm
        have := hq p hm
        have hne := hnotin p hm
        simp [setV, hne, this]
    · simp only [hf]; exact ⟨hq, hd, ho, hp⟩
  | handle =>
    simp only [step, Bool.false_eq_true, if_false]
    split
    · exact ⟨hq, hd, ho, hp⟩
    · rename_i o v rest hqq
      rw [hqq] at hq hd
      have hx := hq (o, v) (List.mem_cons_self ..)
      rw [List.map_cons, List.nodup_cons] at hd
      refine ⟨?_, hd.2, ?_, hp⟩
      · intro p hm
        have := hq p (List.mem_cons_of_mem _ hm)
        have hne : p.1 ≠ o := by
          intro he
          exact hd.1 (by rw [← he]; exact List.mem_map.mpr ⟨p, hm, rfl⟩)
        simp [setB, hne, this]
      · intro p hm
        rcases List.mem_append.mp hm with hm | hm
        · exact ho p hm
        · simp at hm; subst hm; exact hx.1
  | earlyReturn => simp only [step]; simp; exact ⟨hq, hd, ho, hp⟩
  | lateEncode => simp only [step, hp]; exact ⟨hq, hd, ho, hp⟩

theorem inv_run (tr : List Ev) {st : St} (h : Inv st) : Inv (run false st tr) := by
  induction tr generalizing st with
  | nil => exact h
  | cons e es ih => exact ih (inv_step h e)

end Pandora.Proofs.C06Borrow
