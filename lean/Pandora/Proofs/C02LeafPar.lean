/-
C02 — a leaf under concurrent callers, at the granularity of its accesses to shared state (`Model/C02LeafPar.lean`),
is LINEARIZABLE to the atomic flat spec: for every object that refines the flat spec (`Sem`), every number of callers,
all their programs, every interleaving of the actions (enter / `startOnce.Do` / the operation) and every
non-decreasing clock, the log is a run of the atomic flat spec (`Reach`).  The reason is the one the access tables
show: after the once a call touches the shared state in ONE atomic operation.
-/
import Pandora.Model.C02LeafPar
import Pandora.Proofs.C02Par

set_option linter.unusedVariables false

namespace Pandora.Proofs.C02LeafPar
open Pandora.Model.C02 Pandora.Model.C02.Par Pandora.Model.C02.LeafPar Pandora.Spec.C02
open Pandora.Proofs.C02Flat Pandora.Proofs.C02Sem Pandora.Proofs.C02Par

section
variable {σ : Type} {ops : Ops σ} (sem : Sem ops)

/-- the log is a run of the atomic spec; the object stands for the abstract state reached; nobody is past the once
of an object that is not started -/
def LInv (A0 : Abs) (st : LSt σ) (clk : Int) : Prop :=
  ∃ A, Reach A0 st.log A ∧
    ((∃ segs, A = .running segs ∧ sem.R st.sh segs clk) ∨
     (∃ parts, A = .unstarted parts ∧ sem.U st.sh parts ∧ ∀ th ∈ st.thr, th.pc ≠ LPc.afterDo))

theorem LInv.mono {A0 : Abs} {st : LSt σ} {clk clk' : Int} (h : LInv sem A0 st clk) (hle : clk ≤ clk') : LInv sem A0 st clk' := by
  obtain ⟨A, h1, h2⟩ := h
  refine ⟨A, h1, ?_⟩
  rcases h2 with ⟨segs, hA, hR⟩ | h2
  · exact Or.inl ⟨segs, hA, sem.R_mono hR hle⟩
  · exact Or.inr h2

theorem lstep_inv {A0 : Abs} {st : LSt σ} {clk : Int} (e : Nat × Int) (hinv : LInv sem A0 st clk) (hle : clk ≤ e.2) :
    LInv sem A0 (lstep ops st e) e.2 := by
  unfold lstep
  cases hth : st.thr[e.1]? with
  | none => exact hinv.mono sem hle
  | some th =>
    simp only
    cases htodo : th.todo with
    | nil => exact hinv.mono sem hle
    | cons op more =>
      simp only
      have hmem : th ∈ st.thr := List.mem_of_getElem? hth
      obtain ⟨A, hreach, hrel⟩ := hinv
      cases hpc : th.pc with
      | idle =>
        simp only
        refine ⟨A, ⟨A, hreach, Or.inl rfl⟩, ?_⟩
        rcases hrel with ⟨segs, hA, hR⟩ | ⟨parts, hA, hU, hpcs⟩
        · exact Or.inl ⟨segs, hA, sem.R_mono hR hle⟩
        · refine Or.inr ⟨parts, hA, hU, ?_⟩
          intro y hy
          rcases List.mem_or_eq_of_mem_set hy with hy | rfl
          · exact hpcs y hy
          · simp
      | entered =>
        cases op with
        | next =>
          simp only
          rcases hrel with ⟨segs, hA, hR⟩ | ⟨parts, hA, hU, hpcs⟩
          · have hs : onceDo ops st.sh e.2 = st.sh := by simp [onceDo, sem.start_R hR e.2]
            exact ⟨A, ⟨A, hreach, Or.inl rfl⟩, Or.inl ⟨segs, hA, by rw [hs]; exact sem.R_mono hR hle⟩⟩
          · obtain ⟨s', hs', hR'⟩ := sem.start_U hU e.2
            have hs : onceDo ops st.sh e.2 = s' := by simp [onceDo, hs']
            exact ⟨.running (inst parts e.2), ⟨A, hreach, Or.inr ⟨parts, hA, rfl⟩⟩,
              Or.inl ⟨inst parts e.2, rfl, by rw [hs]; exact hR' e.2⟩⟩
        | left =>
          simp only
          rcases hrel with ⟨segs, hA, hR⟩ | ⟨parts, hA, hU, hpcs⟩
          · obtain ⟨s', hl, hR'⟩ := sem.left_R hR e.2 hle
            rw [hl]
            simp only
            exact ⟨A, ⟨A, hreach, by subst hA; exact ⟨rfl, rfl⟩⟩, Or.inl ⟨segs, hA, hR'⟩⟩
          · rw [sem.left_U hU e.2]
            simp only
            refine ⟨A, ⟨A, hreach, by subst hA; exact ⟨rfl, rfl⟩⟩, Or.inr ⟨parts, hA, hU, ?_⟩⟩
            intro y hy
            rcases List.mem_or_eq_of_mem_set hy with hy | rfl
            · exact hpcs y hy
            · simp
      | afterDo =>
        simp only
        rcases hrel with ⟨segs, hA, hR⟩ | ⟨parts, hA, hU, hpcs⟩
        · obtain ⟨s', hn, hR'⟩ := sem.next_R hR e.2 hle
          rw [hn]
          simp only
          exact ⟨.running (segNext segs e.2).1, ⟨A, hreach, by subst hA; rfl⟩, Or.inl ⟨_, rfl, hR'⟩⟩
        · exact absurd hpc (hpcs th hmem)

theorem lrun_inv {A0 : Abs} : ∀ (sched : List (Nat × Int)) (st : LSt σ) (clk : Int), ClockOK clk sched →
    LInv sem A0 st clk → LInv sem A0 (lrun ops st sched) (lastClk clk sched)
  | [], st, clk, _, h => h
  | e :: rest, st, clk, hc, h => by
    simp only [lrun, List.foldl_cons, lastClk]
    exact lrun_inv rest (lstep ops st e) e.2 hc.2 (lstep_inv sem e h hc.1)

end

end Pandora.Proofs.C02LeafPar
