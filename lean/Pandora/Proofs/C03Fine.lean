/-
C03 — the pool at the granularity of the schedule's atomic operations refines the coarse pool
(`Pandora.Model.C03Fine` → `Pandora.Model.C03`), and the coarse pool is the special case without preemption inside a
schedule call.
-/
import Pandora.Model.C03Fine
import Pandora.Proofs.C03Reach

namespace Pandora.Proofs.C03Fine
open Pandora.Model.C03 Pandora.Model.C03Fine Pandora.Proofs.C03

/-- one fine step either leaves the coarse state alone (a return) or is one coarse step -/
theorem fstep_base {c : Cfg} {s s' : FSt} {e : FEv} (h : fstep c s e = some s') :
    s'.base = s.base ∨ ∃ ev, step c s.base ev = some s'.base := by
  cases e with
  | inc i =>
    simp only [fstep] at h
    split at h
    · cases hs : step c s.base (if decide (0 < s.base.left c i) = true then Ev.tokOk i else Ev.tokEnd i) with
      | none => rw [hs] at h; cases h
      | some b =>
        rw [hs] at h
        simp only [Option.map_some, Option.some.injEq] at h
        subst h
        exact .inr ⟨_, hs⟩
    · cases h
  | nextRet i ok =>
    simp only [fstep] at h
    split at h
    · simp only [Option.some.injEq] at h; subst h; exact .inl rfl
    · cases h
  | load i =>
    simp only [fstep] at h
    split at h
    · cases hs : step c s.base (.chk i (s.base.left c i)) with
      | none => rw [hs] at h; cases h
      | some b =>
        rw [hs] at h
        simp only [Option.map_some, Option.some.injEq] at h
        subst h
        exact .inr ⟨_, hs⟩
    · cases h
  | leftRet i l =>
    simp only [fstep] at h
    split at h
    · simp only [Option.some.injEq] at h; subst h; exact .inl rfl
    · cases h
  | other ev =>
    have key : ∀ ev', (if s.pend[evInst ev']? = some Pend.idle then (step c s.base ev').map (fun b => { s with base := b })
        else none) = some s' → ∃ ev, step c s.base ev = some s'.base := by
      intro ev' h'
      split at h'
      · cases hs : step c s.base ev' with
        | none => rw [hs] at h'; cases h'
        | some b =>
          rw [hs] at h'
          simp only [Option.map_some, Option.some.injEq] at h'
          subst h'
          exact ⟨_, hs⟩
      · cases h'
    cases ev <;> simp only [fstep] at h <;> first | cases h | exact .inr (key _ h)

/-- **refinement**: every run of the fine system — any interleaving of any number of instances, with preemptions
between the atomic access of a `Next()` / `Left()` and its return — ends in a state whose coarse part is reached by a
run of the coarse system (of at most the same length) from the same coarse start -/
theorem fine_refines {c : Cfg} : ∀ (fevs : List FEv) (s0 s : FSt), frun c s0 fevs = some s →
    ∃ evs : List Ev, run c s0.base evs = some s.base ∧ evs.length ≤ fevs.length
  | [], s0, s, h => by
    simp only [frun, Option.some.injEq] at h
    subst h
    exact ⟨[], rfl, Nat.le_refl _⟩
  | e :: es, s0, s, h => by
    simp only [frun] at h
    split at h
    · rename_i s1 hs1
      obtain ⟨evs, hr, hl⟩ := fine_refines es s1 s h
      rcases fstep_base hs1 with hb | ⟨ev, hev⟩
      · exact ⟨evs, by rw [← hb]; exact hr, by simp only [List.length_cons]; omega⟩
      · refine ⟨ev :: evs, ?_, by simp only [List.length_cons]; omega⟩
        simp only [run, hev]
        exact hr
    · cases h

theorem fine_reaches {c : Cfg} {fevs : List FEv} {s : FSt} (h : frun c (finit c) fevs = some s) :
    ∃ evs : List Ev, run c (init c) evs = some s.base :=
  let ⟨evs, hr, _⟩ := fine_refines fevs (finit c) s h
  ⟨evs, hr⟩

theorem frun_append {c : Cfg} : ∀ (pre post : List FEv) (s : FSt),
    frun c s (pre ++ post) = (frun c s pre).bind (fun s1 => frun c s1 post)
  | [], _, _ => rfl
  | e :: pre, post, s => by
    simp only [List.cons_append, frun]
    cases fstep c s e with
    | none => rfl
    | some s1 => exact frun_append pre post s1

/-! ### the other direction: a coarse run is the fine run in which no call is preempted -/

/-- all instances are outside schedule calls, one entry per instance -/
def AllIdle (c : Cfg) (s : FSt) : Prop := s.pend = List.replicate c.instances .idle

theorem idle_get {c : Cfg} {s : FSt} (h : AllIdle c s) {i : Nat} (hi : i < c.instances) : s.pend[i]? = some .idle := by
  rw [h]; simp [hi]

theorem set_back {c : Cfg} (i : Nat) (p : Pend) :
    ((List.replicate c.instances Pend.idle).set i p).set i Pend.idle = List.replicate c.instances Pend.idle := by
  apply List.ext_getElem?
  intro k
  by_cases hk : i = k
  · subst hk
    by_cases hi : i < c.instances
    · rw [getElem?_set_self' _ _ (by simp [hi])]; simp [hi]
    · rw [List.getElem?_eq_none (by simp; omega), List.getElem?_eq_none (by simp; omega)]
  · rw [getElem?_set_ne' _ _ hk, getElem?_set_ne' _ _ hk]

/-- the instance of an enabled coarse event exists -/
theorem step_inst_lt {c : Cfg} {s s' : St} {e : Ev} (hlen : s.pcs.length = c.instances) (h : step c s e = some s') :
    evInst e < c.instances := by
  have aux : ∀ (i : Nat) (p : Pc), s.pcs[i]? = some p → i < c.instances := fun i p hp => hlen ▸ lt_of_get hp
  cases e <;> simp only [step] at h <;> simp only [evInst]
  case start i => split at h; · rename_i hg; exact aux _ _ hg.2
                  · cases h
  case chk i l => split at h; · rename_i hg; exact aux _ _ hg.1
                  · cases h
  case acq i => split at h; · rename_i hg; exact aux _ _ hg
                · cases h
  case empty i => split at h; · rename_i hg; exact aux _ _ hg.1
                  · cases h
  case tokOk i => split at h; · rename_i hg; exact aux _ _ hg.1
                  · cases h
  case tokEnd i => split at h; · rename_i hg; exact aux _ _ hg.1
                   · cases h
  case reqAdd i => split at h; · rename_i hg; exact aux _ _ hg
                   · cases h
  case shoot i k => split at h; · rename_i hg; exact aux _ _ hg.1
                    · cases h
  case respAdd i => split at h; · rename_i hg; exact aux _ _ hg
                    · cases h
  case discard i => split at h; · rename_i hg; exact aux _ _ hg.1
                    · cases h
  case rel i k => split at h; · rename_i hg; exact aux _ _ hg.1
                  · cases h

/-- one coarse step = the fine steps of `refine`, from and to a state without calls in progress -/
theorem refine_step {c : Cfg} {s : FSt} {b' : St} {e : Ev} (hid : AllIdle c s) (hlen : s.base.pcs.length = c.instances)
    (h : step c s.base e = some b') : frun c s (refine e) = some { base := b', pend := s.pend } := by
  have hi := step_inst_lt hlen h
  have hp := idle_get hid hi
  cases e with
  | chk i l =>
    simp only [evInst] at hi hp
    have hl : l = s.base.left c i := by
      simp only [step] at h
      split at h
      · rename_i hg; exact hg.2
      · cases h
    subst hl
    simp only [refine, frun, fstep, hp, if_true, h, Option.map_some]
    rw [hid, getElem?_set_self' _ _ (by simp [hi])]
    simp only [if_true, set_back]
  | tokOk i =>
    simp only [evInst] at hi hp
    have hpos : 0 < s.base.left c i := by
      simp only [step] at h
      split at h
      · rename_i hg; exact hg.2
      · cases h
    simp only [refine, frun, fstep, hp, if_true, hpos, decide_true, h, Option.map_some]
    rw [hid, getElem?_set_self' _ _ (by simp [hi])]
    simp only [if_true, set_back]
  | tokEnd i =>
    simp only [evInst] at hi hp
    have hz : ¬ 0 < s.base.left c i := by
      simp only [step] at h
      split at h
      · rename_i hg; omega
      · cases h
    simp only [refine, frun, fstep, hp, if_true, hz, decide_false, Bool.false_eq_true, if_false, h, Option.map_some]
    rw [hid, getElem?_set_self' _ _ (by simp [hi])]
    simp only [if_true, set_back]
  | start i => simp only [evInst] at hp; simp only [refine, frun, fstep, evInst, hp, if_true, h, Option.map_some]
  | acq i => simp only [evInst] at hp; simp only [refine, frun, fstep, evInst, hp, if_true, h, Option.map_some]
  | empty i => simp only [evInst] at hp; simp only [refine, frun, fstep, evInst, hp, if_true, h, Option.map_some]
  | reqAdd i => simp only [evInst] at hp; simp only [refine, frun, fstep, evInst, hp, if_true, h, Option.map_some]
  | shoot i k => simp only [evInst] at hp; simp only [refine, frun, fstep, evInst, hp, if_true, h, Option.map_some]
  | respAdd i => simp only [evInst] at hp; simp only [refine, frun, fstep, evInst, hp, if_true, h, Option.map_some]
  | discard i => simp only [evInst] at hp; simp only [refine, frun, fstep, evInst, hp, if_true, h, Option.map_some]
  | rel i k => simp only [evInst] at hp; simp only [refine, frun, fstep, evInst, hp, if_true, h, Option.map_some]

/-- every coarse run from a reachable-shaped state is a fine run (each schedule call run without preemption) -/
theorem coarse_is_fine {c : Cfg} : ∀ (evs : List Ev) (s : FSt) (b' : St), AllIdle c s → InvA c s.base →
    run c s.base evs = some b' → frun c s (evs.flatMap refine) = some { base := b', pend := s.pend }
  | [], s, b', _, _, h => by
    simp only [run, Option.some.injEq] at h
    subst h
    rfl
  | e :: es, s, b', hid, hA, h => by
    simp only [run] at h
    split at h
    · rename_i b1 hs1
      have h1 := refine_step hid hA.len hs1
      have ih := coarse_is_fine es { base := b1, pend := s.pend } b' hid (step_invA hA hs1) h
      simp only [List.flatMap_cons, frun_append, h1, Option.bind_some]
      exact ih
    · cases h

end Pandora.Proofs.C03Fine
