/-
C12 — the engine layer (`Model/C12Engine`): n pools + the await loop of `Engine.Run` as one transition system.  For all
interleavings: every pool stays a reachable state of the single-pool layer; the engine's loop state is what the sequential
loop `engSeq` (= the regenerated `engineRun`, Bridge/C12Startup) computes from what it has received; and the run of a
pool is cancelled only if the caller cancelled, a pool failed, or all pools had finished by themselves.  Core Lean only.
-/
import Pandora.Model.C12Engine
import Pandora.Proofs.C12Pool

namespace Pandora.Proofs.C12
open Pandora.Model.C04 Pandora.Model.C12 Pandora.Proofs.C04 Pandora.Go.C12

/-! ### who sets `sawRunCancelled` in a pool -/

theorem complete_sawRun (s : St) (r : Res) (p : Pending) : (complete s r p).sawRunCancelled = s.sawRunCancelled := by
  unfold complete
  dsimp only
  (repeat' split) <;> rfl

theorem checkAll_base (p : PSt) : (checkAll p).base = p.base := by
  unfold checkAll
  split <;> rfl

theorem rps_sawRun (c : Cfg) (s : St) : (step c s .rpsFinished).sawRunCancelled = s.sawRunCancelled := by
  show (if c.perInstance || !anyInstance s then s else _).sawRunCancelled = _
  split <;> rfl

theorem ammoRes_sawRun (c : Cfg) (s : St) : (step c s .outOfAmmoResult).sawRunCancelled = s.sawRunCancelled := by
  show (if !s.ammoOut then s else _).sawRunCancelled = _
  split <;> rfl

/-- the start loop's own events leave the run alone -/
theorem step_loop_sawRun (c : Cfg) (s : St) (ev : Event) (hne : ev ≠ .runCancel) (hl : isLoopEvent ev = true) :
    (step c s ev).sawRunCancelled = s.sawRunCancelled := by
  cases ev with
  | wait env createOk delay =>
    show (stepWait c s env createOk delay).sawRunCancelled = _
    unfold stepWait
    split
    · rfl
    · dsimp only
      split
      · rfl
      · exact complete_sawRun _ _ _
  | timerFire =>
    show (stepFire c s).sawRunCancelled = _
    unfold stepFire
    split
    · rfl
    · exact complete_sawRun _ _ _
  | wakeCancelled =>
    show (stepWake c s).sawRunCancelled = _
    unfold stepWake
    split
    · rfl
    · split
      · rfl
      · exact complete_sawRun _ _ _
  | runCancel => exact absurd rfl hne
  | outOfAmmoResult => cases hl
  | rpsFinished => cases hl
  | instanceExit id r => cases hl

theorem acts_startOnly_sawRun (c : Cfg) (acts : List PoolAct) (s : St) (h : ∀ a ∈ acts, a = PoolAct.cancel Ctx.start) :
    (acts.foldl (applyAct c) s).sawRunCancelled = s.sawRunCancelled := by
  induction acts generalizing s with
  | nil => rfl
  | cons a rest ih =>
    simp only [List.foldl_cons]
    rw [ih _ (fun x hx => h x (List.mem_cons_of_mem _ hx))]
    have ha := h a (List.mem_cons_self ..)
    subst ha
    exact ammoRes_sawRun c s

theorem onRunResult_noReport (a sf : Bool) (ce : Ctx → Bool)
    (h : (onRunResult a sf ce).contains PoolAct.reportErr = false) :
    ∀ x ∈ onRunResult a sf ce, x = PoolAct.cancel Ctx.start := by
  unfold onRunResult at h ⊢
  cases a <;> cases sf <;> cases hce : ce Ctx.run <;> simp_all

theorem onStartResult_noReport (ce : Ctx → Bool)
    (h : (onStartResult ce).contains PoolAct.reportErr = false) :
    ∀ x ∈ onStartResult ce, x = PoolAct.cancel Ctx.start := by
  unfold onStartResult at h ⊢
  cases hce : ce Ctx.start <;> simp_all

theorem onOtherResult_noReport (ce : Ctx → Bool)
    (h : (onOtherResult ce).contains PoolAct.reportErr = false) :
    ∀ x ∈ onOtherResult ce, x = PoolAct.cancel Ctx.start := by
  unfold onOtherResult at h ⊢
  cases hce : ce Ctx.run <;> simp_all

/-- a step of a pool other than the run cancel from outside marks the run as cancelled only by reporting an error -/
theorem poolStep_sawRun (c : Cfg) (p : PSt) (ev : PEvent) (hne : ev ≠ .loop .runCancel)
    (h : (poolStep c p ev).base.sawRunCancelled = true) :
    p.base.sawRunCancelled = true ∨ reportsErr p ev = true := by
  cases ev with
  | loop ev' =>
    left
    have hne' : ev' ≠ .runCancel := fun hx => hne (by rw [hx])
    simp only [poolStep] at h
    by_cases hl : isLoopEvent ev' = true
    · simp only [hl, Bool.not_true, Bool.false_eq_true, if_false] at h
      rwa [step_loop_sawRun c p.base ev' hne' hl] at h
    · simp only [hl, Bool.not_false, if_true] at h
      exact h
  | iter id it e ne =>
    left
    simp only [poolStep] at h
    split at h
    · exact h
    · split at h
      · split at h
        · rwa [rps_sawRun] at h
        · exact h
      · simp only [leave] at h
        split at h
        · rwa [rps_sawRun] at h
        · exact h
  | panic id =>
    left
    simp only [poolStep] at h
    split at h
    · exact h
    · exact h
  | recvRun i =>
    simp only [poolStep] at h
    cases hp : p.pending[i]? with
    | none =>
      left
      simpa [hp] using h
    | some x =>
      obtain ⟨id, k⟩ := x
      simp only [hp, checkAll_base] at h
      by_cases hr : reportsErr p (.recvRun i) = true
      · exact Or.inr hr
      · left
        have hr' : (onRunResult (k == .exit .ammoEnd) p.aw.startFinished
            (fun _ => k == .exit .scheduleEnd || k == .exit .cancelled)).contains PoolAct.reportErr = false := by
          simpa [reportsErr, hp] using hr
        rwa [acts_startOnly_sawRun c _ _ (onRunResult_noReport _ _ _ hr')] at h
  | recvStart =>
    simp only [poolStep] at h
    by_cases hg : (p.base.phase != .done || p.aw.startFinished) = true
    · left
      simpa [hg] using h
    · have hg' : (p.base.phase != .done || p.aw.startFinished) = false := by simpa using hg
      simp only [hg', Bool.false_eq_true, if_false, checkAll_base] at h
      by_cases hr : reportsErr p .recvStart = true
      · exact Or.inr hr
      · left
        have hr' : (onStartResult (fun _ => p.base.ret != .create)).contains PoolAct.reportErr = false := by
          simpa [reportsErr, hg'] using hr
        rwa [acts_startOnly_sawRun c _ _ (onStartResult_noReport _ hr')] at h

  | recvOther ce =>
    simp only [poolStep] at h
    by_cases hr : reportsErr p (.recvOther ce) = true
    · exact Or.inr hr
    · left
      have hr' : (onOtherResult (fun _ => ce)).contains PoolAct.reportErr = false := by
        simpa [reportsErr] using hr
      rwa [acts_startOnly_sawRun c _ _ (onOtherResult_noReport _ hr')] at h

/-- once the pool has found everything finished it stays so -/
theorem poolStep_cancelled_mono (c : Cfg) (p : PSt) (ev : PEvent) (h : p.poolCancelled = true) :
    (poolStep c p ev).poolCancelled = true := by
  cases ev with
  | loop ev' =>
    simp only [poolStep]
    split <;> exact h
  | iter id it e ne =>
    simp only [poolStep]
    split
    · exact h
    · split
      · exact h
      · exact h
  | panic id =>
    simp only [poolStep]
    split <;> exact h
  | recvRun i =>
    simp only [poolStep]
    split
    · exact h
    · unfold checkAll
      split
      · rfl
      · exact h
  | recvStart =>
    simp only [poolStep]
    split
    · exact h
    · unfold checkAll
      split
      · rfl
      · exact h
  | recvOther ce => exact h

/-! ### the sequential loop of `Engine.Run`, one reception at a time -/

theorem engSeq_append_of_none (n : Int) (l l' : List EngEv) (i : Int) (h : (engSeq n i l).ret = none) :
    engSeq n i (l ++ l') = engSeq n (engSeq n i l).awaited l' := by
  induction l generalizing i with
  | nil =>
    simp only [engSeq] at h ⊢
    by_cases hlt : i < n
    · simp [hlt]
    · simp [hlt] at h
  | cons ev rest ih =>
    simp only [engSeq, List.cons_append] at h ⊢
    by_cases hlt : i < n
    · simp only [hlt, if_true] at h ⊢
      cases ev with
      | result errNil =>
        cases errNil with
        | false => simp at h
        | true =>
          simp only [Bool.not_true, Bool.false_eq_true, if_false] at h ⊢
          exact ih (i + 1) h
      | ctxDone => simp at h
    · simp [hlt] at h

theorem engSeq_nil_none (n i : Int) (h : (engSeq n i []).ret = none) : i < n ∧ (engSeq n i []).awaited = i := by
  simp only [engSeq] at h ⊢
  by_cases hlt : i < n
  · simp [hlt]
  · simp [hlt] at h

/-- one reception while the loop is still waiting (so `i < n`) -/
theorem engSeq_one (n i : Int) (hlt : i < n) (ev : EngEv) :
    engSeq n i [ev] = match ev with
      | .result true => (if i + 1 < n then { awaited := i + 1, ret := none } else { awaited := i + 1, ret := some .ok })
      | .result false => { awaited := i, ret := some .failed }
      | .ctxDone => { awaited := i, ret := some .cancelled } := by
  cases ev with
  | result b => cases b <;> simp [engSeq, hlt]
  | ctxDone => simp [engSeq, hlt]

/-! ### counting the awaited pools -/

def cntUpTo (f : Nat → Bool) : Nat → Nat
  | 0 => 0
  | m + 1 => cntUpTo f m + (if f m then 1 else 0)

theorem cntUpTo_le (f : Nat → Bool) (m : Nat) : cntUpTo f m ≤ m := by
  induction m with
  | zero => simp [cntUpTo]
  | succ m ih => simp only [cntUpTo]; split <;> omega

theorem cntUpTo_full (f : Nat → Bool) (m : Nat) (h : cntUpTo f m = m) : ∀ j, j < m → f j = true := by
  induction m with
  | zero => intro j hj; omega
  | succ m ih =>
    simp only [cntUpTo] at h
    have hle := cntUpTo_le f m
    by_cases hf : f m = true
    · simp only [hf, if_true] at h
      intro j hj
      by_cases hjm : j = m
      · rw [hjm]; exact hf
      · exact ih (by omega) j (by omega)
    · simp only [hf, Bool.false_eq_true, if_false] at h
      omega

theorem cntUpTo_congr (f g : Nat → Bool) (m : Nat) (h : ∀ j, j < m → f j = g j) : cntUpTo f m = cntUpTo g m := by
  induction m with
  | zero => rfl
  | succ m ih =>
    simp only [cntUpTo]
    rw [ih (fun j hj => h j (by omega)), h m (by omega)]

theorem cntUpTo_set (f g : Nat → Bool) (j m : Nat) (hj : f j = false) (hgj : g j = true)
    (hg : ∀ k, k ≠ j → g k = f k) :
    cntUpTo g m = cntUpTo f m + (if j < m then 1 else 0) := by
  induction m with
  | zero => simp [cntUpTo]
  | succ m ih =>
    simp only [cntUpTo, ih]
    by_cases hjm : j = m
    · subst hjm
      simp [hj, hgj]
    · rw [hg m (fun hx => hjm hx.symm)]
      by_cases hlt : j < m
      · have : j < m + 1 := by omega
        simp [hlt, this]; omega
      · have : ¬ j < m + 1 := by omega
        simp [hlt, this]

/-! ### the invariant of the engine layer -/

structure EInv (c : Nat → Cfg) (toks : Nat → List Int) (e : ESt) : Prop where
  /-- every pool is a reachable state of the single-pool layer -/
  reach : ∀ j, ∃ pevs, (e.pool j).p = poolRun (c j) (PSt.init (toks j)) pevs
  /-- the loop state is what the sequential loop computes from what it has received -/
  src : e.eng = engSeq e.n 0 e.recvd
  retOk : ∀ j, j < e.n → (e.pool j).ret = some true → (e.pool j).p.poolCancelled = true
  retErr : (∃ j, j < e.n ∧ (e.pool j).ret = some false) →
    e.callerCancelled = true ∨ ∃ k, k < e.n ∧ (e.pool k).failed = true
  cnt : e.eng.ret ≠ some .failed → e.eng.awaited = (cntUpTo (fun j => (e.pool j).awaited) e.n : Int)
  waiting : e.eng.ret = none → e.eng.awaited < e.n
  awaitedTrue : ∀ j, j < e.n → (e.pool j).awaited = true → (e.pool j).ret = some true ∨ e.eng.ret = some .failed
  okAll : e.eng.ret = some .ok → e.eng.awaited = e.n
  failedR : e.eng.ret = some .failed → ∃ j, j < e.n ∧ (e.pool j).ret = some false
  cancelledR : e.eng.ret = some .cancelled → e.callerCancelled = true
  saw : ∀ j, j < e.n → (e.pool j).p.base.sawRunCancelled = true → (e.pool j).failed = true ∨ e.ctxDone = true

theorem engSeq_zero_nil (n : Nat) :
    (0 < n → engSeq (n : Int) 0 [] = { awaited := 0, ret := none }) ∧
      (n = 0 → engSeq (n : Int) 0 [] = { awaited := 0, ret := some .ok }) := by
  constructor
  · intro h
    have : (0 : Int) < (n : Int) := by omega
    simp only [engSeq, this, if_true]
  · intro h
    subst h
    simp [engSeq]

theorem EInv.init (c : Nat → Cfg) (toks : Nat → List Int) (n : Nat) : EInv c toks (ESt.init n toks) := by
  have hc : ∀ m, cntUpTo (fun _ => false) m = 0 := by
    intro m
    induction m with
    | zero => rfl
    | succ m ih => simp [cntUpTo, ih]
  have heng : (ESt.init n toks).eng = engSeq (n : Int) 0 [] := rfl
  refine ⟨fun j => ⟨[], rfl⟩, rfl, ?_, ?_, ?_, ?_, ?_, ?_, ?_, ?_, ?_⟩
  · intro j _ h; simp [ESt.init] at h
  · rintro ⟨j, _, h⟩; simp [ESt.init] at h
  · intro _
    rw [heng]
    show _ = ((cntUpTo (fun _ => false) n : Nat) : Int)
    rw [hc]
    rcases Nat.eq_zero_or_pos n with h0 | hpos
    · rw [(engSeq_zero_nil n).2 h0]; rfl
    · rw [(engSeq_zero_nil n).1 hpos]; rfl
  · intro h
    rw [heng] at h ⊢
    show _ < (n : Int)
    rcases Nat.eq_zero_or_pos n with h0 | hpos
    · rw [(engSeq_zero_nil n).2 h0] at h; simp at h
    · rw [(engSeq_zero_nil n).1 hpos]; show (0 : Int) < n; omega
  · intro j _ h; simp [ESt.init] at h
  · intro h
    rw [heng] at h ⊢
    show _ = (n : Int)
    rcases Nat.eq_zero_or_pos n with h0 | hpos
    · rw [(engSeq_zero_nil n).2 h0]; show (0 : Int) = n; omega
    · rw [(engSeq_zero_nil n).1 hpos] at h; simp at h
  · intro h
    rw [heng] at h
    rcases Nat.eq_zero_or_pos n with h0 | hpos
    · rw [(engSeq_zero_nil n).2 h0] at h; simp at h
    · rw [(engSeq_zero_nil n).1 hpos] at h; simp at h
  · intro h
    rw [heng] at h
    rcases Nat.eq_zero_or_pos n with h0 | hpos
    · rw [(engSeq_zero_nil n).2 h0] at h; simp at h
    · rw [(engSeq_zero_nil n).1 hpos] at h; simp at h
  · intro j _ h; simp [ESt.init, PSt.init, St.init] at h

theorem poolRun_snoc (c : Cfg) (p : PSt) (evs : List PEvent) (ev : PEvent) :
    poolRun c p (evs ++ [ev]) = poolStep c (poolRun c p evs) ev := by
  simp [poolRun, List.foldl_append]

/-- the engine's context becoming done (everything else as in `e`): every pool gets the run cancel -/
theorem cancelAll_inv (c : Nat → Cfg) (toks : Nat → List Int) (e : ESt) (h : EInv c toks e) (hd : e.ctxDone = true) :
    EInv c toks (cancelAll c e) := by
  refine ⟨fun j => ?_, h.src, fun j hj hr => ?_, h.retErr, h.cnt, h.waiting, h.awaitedTrue, h.okAll, h.failedR,
    h.cancelledR, fun j _ _ => Or.inr hd⟩
  · obtain ⟨pevs, hp⟩ := h.reach j
    refine ⟨pevs ++ [.loop .runCancel], ?_⟩
    rw [poolRun_snoc, ← hp]
    rfl
  · exact poolStep_cancelled_mono (c j) _ _ (h.retOk j hj hr)

theorem setPool_same (f : Nat → EPool) (j : Nat) (q : EPool) : setPool f j q j = q := by simp [setPool]
theorem setPool_ne (f : Nat → EPool) (j k : Nat) (q : EPool) (h : k ≠ j) : setPool f j q k = f k := by simp [setPool, h]

/-- a step that replaces pool `j` by `q'` with the same result / awaited flags, a `failed` flag at least as large and a pool
state reached by one more pool event, leaving the engine loop alone -/
theorem setPool_inv (c : Nat → Cfg) (toks : Nat → List Int) (e : ESt) (h : EInv c toks e) (j : Nat) (q' : EPool)
    (hreach : ∃ pevs, q'.p = poolRun (c j) (PSt.init (toks j)) pevs)
    (hret : q'.ret = (e.pool j).ret) (haw : q'.awaited = (e.pool j).awaited)
    (hfail : (e.pool j).failed = true → q'.failed = true)
    (hcan : (e.pool j).p.poolCancelled = true → q'.p.poolCancelled = true)
    (hsaw : q'.p.base.sawRunCancelled = true → (e.pool j).p.base.sawRunCancelled = true ∨ q'.failed = true) :
    EInv c toks { e with pool := setPool e.pool j q' } := by
  have hretk : ∀ k, (setPool e.pool j q' k).ret = (e.pool k).ret := by
    intro k
    by_cases hk : k = j
    · subst hk; rw [setPool_same, hret]
    · rw [setPool_ne _ _ _ _ hk]
  have hawk : ∀ k, (setPool e.pool j q' k).awaited = (e.pool k).awaited := by
    intro k
    by_cases hk : k = j
    · subst hk; rw [setPool_same, haw]
    · rw [setPool_ne _ _ _ _ hk]
  have hfailk : ∀ k, (e.pool k).failed = true → (setPool e.pool j q' k).failed = true := by
    intro k hf
    by_cases hk : k = j
    · subst hk; rw [setPool_same]; exact hfail hf
    · rw [setPool_ne _ _ _ _ hk]; exact hf
  refine ⟨fun k => ?_, h.src, fun k hk hr => ?_, fun hex => ?_, fun hne => ?_, h.waiting, fun k hk ha => ?_, h.okAll,
    fun hf => ?_, h.cancelledR, fun k hk hs => ?_⟩
  · show ∃ pevs, (setPool e.pool j q' k).p = _
    by_cases hkj : k = j
    · subst hkj; rw [setPool_same]; exact hreach
    · rw [setPool_ne _ _ _ _ hkj]; exact h.reach k
  · show (setPool e.pool j q' k).p.poolCancelled = true
    have hr' : (e.pool k).ret = some true := by rw [← hretk k]; exact hr
    by_cases hkj : k = j
    · subst hkj; rw [setPool_same]; exact hcan (h.retOk k hk hr')
    · rw [setPool_ne _ _ _ _ hkj]; exact h.retOk k hk hr'
  · obtain ⟨k, hk, hr⟩ := hex
    have hr' : (e.pool k).ret = some false := by rw [← hretk k]; exact hr
    rcases h.retErr ⟨k, hk, hr'⟩ with hc | ⟨k', hk', hf⟩
    · exact Or.inl hc
    · exact Or.inr ⟨k', hk', hfailk k' hf⟩
  · show e.eng.awaited = ((cntUpTo (fun k => (setPool e.pool j q' k).awaited) e.n : Nat) : Int)
    rw [cntUpTo_congr _ (fun k => (e.pool k).awaited) e.n (fun k _ => hawk k)]
    exact h.cnt hne
  · have ha' : (e.pool k).awaited = true := by rw [← hawk k]; exact ha
    rcases h.awaitedTrue k hk ha' with hr | hr
    · left; show (setPool e.pool j q' k).ret = _; rw [hretk k]; exact hr
    · exact Or.inr hr
  · obtain ⟨k, hk, hr⟩ := h.failedR hf
    exact ⟨k, hk, by show (setPool e.pool j q' k).ret = _; rw [hretk k]; exact hr⟩
  · have hs' : (setPool e.pool j q' k).p.base.sawRunCancelled = true := hs
    by_cases hkj : k = j
    · subst hkj
      rw [setPool_same] at hs'
      show (setPool e.pool k q' k).failed = true ∨ _
      rw [setPool_same]
      rcases hsaw hs' with ho | hn
      · rcases h.saw k hk ho with hf | hd
        · exact Or.inl (hfail hf)
        · exact Or.inr hd
      · exact Or.inl hn
    · rw [setPool_ne _ _ _ _ hkj] at hs'
      show (setPool e.pool j q' k).failed = true ∨ _
      rw [setPool_ne _ _ _ _ hkj]
      exact h.saw k hk hs'

/-- `Run` of pool `j` returns: only its `ret` changes, from `none` -/
theorem poolReturn_inv (c : Nat → Cfg) (toks : Nat → List Int) (e : ESt) (h : EInv c toks e) (j : Nat) (b : Bool)
    (hj : j < e.n) (hnone : (e.pool j).ret = none)
    (hok : b = true → (e.pool j).p.poolCancelled = true)
    (herr : b = false → (e.pool j).failed = true ∨ e.ctxDone = true) :
    EInv c toks { e with pool := setPool e.pool j ({ e.pool j with ret := some b } : EPool) } := by
  have hother : ∀ k r, (e.pool k).ret = some r → k ≠ j := by
    intro k r hr hk
    subst hk
    rw [hnone] at hr
    cases hr
  refine ⟨fun k => ?_, h.src, fun k hk hr => ?_, fun hex => ?_, fun hne => ?_, h.waiting, fun k hk ha => ?_, h.okAll,
    fun hf => ?_, h.cancelledR, fun k hk hs => ?_⟩
  · by_cases hkj : k = j
    · subst hkj; show ∃ pevs, (setPool e.pool k _ k).p = _; rw [setPool_same]; exact h.reach k
    · show ∃ pevs, (setPool e.pool j _ k).p = _; rw [setPool_ne _ _ _ _ hkj]; exact h.reach k
  · by_cases hkj : k = j
    · subst hkj
      have hr' : (setPool e.pool k ({ e.pool k with ret := some b } : EPool) k).ret = some true := hr
      rw [setPool_same] at hr'
      show (setPool e.pool k _ k).p.poolCancelled = true
      rw [setPool_same]
      exact hok (by simpa using hr')
    · have hr' : (setPool e.pool j ({ e.pool j with ret := some b } : EPool) k).ret = some true := hr
      rw [setPool_ne _ _ _ _ hkj] at hr'
      show (setPool e.pool j _ k).p.poolCancelled = true
      rw [setPool_ne _ _ _ _ hkj]
      exact h.retOk k hk hr'
  · -- some pool has returned an error: the caller cancelled, or a pool failed
    have hfailk : ∀ k, (e.pool k).failed = true →
        (setPool e.pool j ({ e.pool j with ret := some b } : EPool) k).failed = true := by
      intro k hf
      by_cases hkj : k = j
      · subst hkj; rw [setPool_same]; exact hf
      · rw [setPool_ne _ _ _ _ hkj]; exact hf
    have hold : (∃ k, k < e.n ∧ (e.pool k).ret = some false) →
        e.callerCancelled = true ∨ ∃ k, k < e.n ∧
          (setPool e.pool j ({ e.pool j with ret := some b } : EPool) k).failed = true := by
      intro hex'
      rcases h.retErr hex' with hc | ⟨k', hk', hf⟩
      · exact Or.inl hc
      · exact Or.inr ⟨k', hk', hfailk k' hf⟩
    obtain ⟨k, hk, hr⟩ := hex
    have hr' : (setPool e.pool j ({ e.pool j with ret := some b } : EPool) k).ret = some false := hr
    by_cases hkj : k = j
    · subst hkj
      rw [setPool_same] at hr'
      have hb : b = false := by simpa using hr'
      rcases herr hb with hf | hd
      · exact Or.inr ⟨k, hk, hfailk k hf⟩
      · simp only [ESt.ctxDone, Bool.or_eq_true] at hd
        rcases hd with hc | hret
        · exact Or.inl hc
        · -- `Engine.Run` has returned: how?
          simp only [ESt.returned] at hret
          cases hres : e.eng.ret with
          | none => rw [hres] at hret; cases hret
          | some r =>
            cases r with
            | ok =>
              -- then every pool had returned already
              have hall := h.okAll hres
              have hcnt := h.cnt (by rw [hres]; simp)
              have hfull : cntUpTo (fun k => (e.pool k).awaited) e.n = e.n := by omega
              have haw := cntUpTo_full _ _ hfull k hk
              rcases h.awaitedTrue k hk haw with hr1 | hr1
              · rw [hnone] at hr1; cases hr1
              · rw [hres] at hr1; cases hr1
            | failed => exact hold (h.failedR hres)
            | cancelled => exact Or.inl (h.cancelledR hres)
    · rw [setPool_ne _ _ _ _ hkj] at hr'
      exact hold ⟨k, hk, hr'⟩
  · show e.eng.awaited = ((cntUpTo (fun k => (setPool e.pool j ({ e.pool j with ret := some b } : EPool) k).awaited) e.n : Nat) : Int)
    rw [cntUpTo_congr _ (fun k => (e.pool k).awaited) e.n]
    · exact h.cnt hne
    · intro k _
      by_cases hkj : k = j
      · subst hkj; rw [setPool_same]
      · rw [setPool_ne _ _ _ _ hkj]
  · have ha' : (setPool e.pool j ({ e.pool j with ret := some b } : EPool) k).awaited = true := ha
    by_cases hkj : k = j
    · subst hkj
      rw [setPool_same] at ha'
      rcases h.awaitedTrue k hk ha' with hr | hr
      · rw [hnone] at hr; cases hr
      · exact Or.inr hr
    · rw [setPool_ne _ _ _ _ hkj] at ha'
      rcases h.awaitedTrue k hk ha' with hr | hr
      · left; show (setPool e.pool j _ k).ret = _; rw [setPool_ne _ _ _ _ hkj]; exact hr
      · exact Or.inr hr
  · obtain ⟨k, hk, hr⟩ := h.failedR hf
    have hkj := hother k _ hr
    exact ⟨k, hk, by show (setPool e.pool j _ k).ret = _; rw [setPool_ne _ _ _ _ hkj]; exact hr⟩
  · have hs' : (setPool e.pool j ({ e.pool j with ret := some b } : EPool) k).p.base.sawRunCancelled = true := hs
    by_cases hkj : k = j
    · subst hkj
      rw [setPool_same] at hs'
      show (setPool e.pool k _ k).failed = true ∨ _
      rw [setPool_same]
      exact h.saw k hk hs'
    · rw [setPool_ne _ _ _ _ hkj] at hs'
      show (setPool e.pool j _ k).failed = true ∨ _
      rw [setPool_ne _ _ _ _ hkj]
      exact h.saw k hk hs'

/-- the await loop of `Engine.Run`, still waiting, receives the result `b` of pool `j` -/
theorem recvResult_inv (c : Nat → Cfg) (toks : Nat → List Int) (e : ESt) (h : EInv c toks e) (j : Nat) (b : Bool)
    (hj : j < e.n) (hnone : e.eng.ret = none) (hna : (e.pool j).awaited = false) (hret : (e.pool j).ret = some b) :
    EInv c toks { e with pool := setPool e.pool j ({ e.pool j with awaited := true } : EPool),
                         eng := engSeq e.n e.eng.awaited [.result b], recvd := e.recvd ++ [.result b] } := by
  have hi : e.eng.awaited < (e.n : Int) := h.waiting hnone
  have hsrc0 : (engSeq (e.n : Int) 0 e.recvd).ret = none := by rw [← h.src]; exact hnone
  have hsrc : engSeq (e.n : Int) e.eng.awaited [.result b] = engSeq (e.n : Int) 0 (e.recvd ++ [.result b]) := by
    rw [engSeq_append_of_none _ _ _ _ hsrc0, ← h.src]
  have hcnt0 := h.cnt (by rw [hnone]; simp)
  have hcnt1 : cntUpTo (fun k => (setPool e.pool j ({ e.pool j with awaited := true } : EPool) k).awaited) e.n =
      cntUpTo (fun k => (e.pool k).awaited) e.n + 1 := by
    rw [cntUpTo_set (fun k => (e.pool k).awaited) _ j e.n hna (by simp [setPool])
      (fun k hk => by simp [setPool, hk])]
    simp [hj]
  have hpk : ∀ k, (setPool e.pool j ({ e.pool j with awaited := true } : EPool) k).p = (e.pool k).p := by
    intro k; by_cases hk : k = j
    · subst hk; rw [setPool_same]
    · rw [setPool_ne _ _ _ _ hk]
  have hrk : ∀ k, (setPool e.pool j ({ e.pool j with awaited := true } : EPool) k).ret = (e.pool k).ret := by
    intro k; by_cases hk : k = j
    · subst hk; rw [setPool_same]
    · rw [setPool_ne _ _ _ _ hk]
  have hfk : ∀ k, (setPool e.pool j ({ e.pool j with awaited := true } : EPool) k).failed = (e.pool k).failed := by
    intro k; by_cases hk : k = j
    · subst hk; rw [setPool_same]
    · rw [setPool_ne _ _ _ _ hk]
  have hone := engSeq_one (e.n : Int) e.eng.awaited hi (.result b)
  refine ⟨fun k => ?_, hsrc, fun k hk hr => ?_, fun hex => ?_, fun hne => ?_, fun hw => ?_, fun k hk ha => ?_,
    fun hok => ?_, fun hf => ?_, fun hc => ?_, fun k hk hs => ?_⟩
  · show ∃ pevs, (setPool e.pool j _ k).p = _
    rw [hpk k]; exact h.reach k
  · show (setPool e.pool j _ k).p.poolCancelled = true
    rw [hpk k]
    exact h.retOk k hk (by rw [← hrk k]; exact hr)
  · obtain ⟨k, hk, hr⟩ := hex
    rcases h.retErr ⟨k, hk, by rw [← hrk k]; exact hr⟩ with hc | ⟨k', hk', hf⟩
    · exact Or.inl hc
    · exact Or.inr ⟨k', hk', by show (setPool e.pool j _ k').failed = true; rw [hfk k']; exact hf⟩
  · show (engSeq (e.n : Int) e.eng.awaited [.result b]).awaited = ((cntUpTo _ e.n : Nat) : Int)
    rw [hcnt1, hone]
    cases b with
    | true => simp only; split <;> (simp only; omega)
    | false => exact absurd (by rw [hone]) hne
  · show (engSeq (e.n : Int) e.eng.awaited [.result b]).awaited < (e.n : Int)
    have hw' : (engSeq (e.n : Int) e.eng.awaited [.result b]).ret = none := hw
    rw [hone] at hw' ⊢
    cases b with
    | true =>
      simp only at hw' ⊢
      split at hw'
      · rename_i hlt; simp only [hlt, if_true]
      · cases hw'
    | false => cases hw'
  · have ha' : (setPool e.pool j ({ e.pool j with awaited := true } : EPool) k).awaited = true := ha
    show (setPool e.pool j _ k).ret = some true ∨ (engSeq (e.n : Int) e.eng.awaited [.result b]).ret = some .failed
    rw [hrk k]
    by_cases hkj : k = j
    · subst hkj
      cases b with
      | true => exact Or.inl hret
      | false => right; rw [hone]
    · rw [setPool_ne _ _ _ _ hkj] at ha'
      rcases h.awaitedTrue k hk ha' with hr | hr
      · exact Or.inl hr
      · rw [hnone] at hr; cases hr
  · show (engSeq (e.n : Int) e.eng.awaited [.result b]).awaited = (e.n : Int)
    have hok' : (engSeq (e.n : Int) e.eng.awaited [.result b]).ret = some .ok := hok
    rw [hone] at hok' ⊢
    cases b with
    | true =>
      simp only at hok' ⊢
      split at hok'
      · cases hok'
      · rename_i hlt; simp only [hlt, if_false]; omega
    | false => cases hok'
  · have hf' : (engSeq (e.n : Int) e.eng.awaited [.result b]).ret = some .failed := hf
    rw [hone] at hf'
    cases b with
    | true =>
      simp only at hf'
      split at hf' <;> cases hf'
    | false => exact ⟨j, hj, by show (setPool e.pool j _ j).ret = _; rw [hrk j]; exact hret⟩
  · have hc' : (engSeq (e.n : Int) e.eng.awaited [.result b]).ret = some .cancelled := hc
    rw [hone] at hc'
    cases b with
    | true =>
      simp only at hc'
      split at hc' <;> cases hc'
    | false => cases hc'
  · have hs' : (setPool e.pool j ({ e.pool j with awaited := true } : EPool) k).p.base.sawRunCancelled = true := hs
    rw [hpk k] at hs'
    show (setPool e.pool j _ k).failed = true ∨ _
    rw [hfk k]
    rcases h.saw k hk hs' with hf | hd
    · exact Or.inl hf
    · right
      simp only [ESt.ctxDone, ESt.returned, hnone, Option.isSome_none, Bool.or_false] at hd
      simp only [ESt.ctxDone, hd, Bool.true_or]

/-- the await loop of `Engine.Run`, still waiting, takes its `ctx.Done()` case (the caller has cancelled) -/
theorem seesCancel_inv (c : Nat → Cfg) (toks : Nat → List Int) (e : ESt) (h : EInv c toks e)
    (hnone : e.eng.ret = none) (hcc : e.callerCancelled = true) :
    EInv c toks { e with eng := engSeq e.n e.eng.awaited [.ctxDone], recvd := e.recvd ++ [.ctxDone] } := by
  have hi : e.eng.awaited < (e.n : Int) := h.waiting hnone
  have hsrc0 : (engSeq (e.n : Int) 0 e.recvd).ret = none := by rw [← h.src]; exact hnone
  have hsrc : engSeq (e.n : Int) e.eng.awaited [.ctxDone] = engSeq (e.n : Int) 0 (e.recvd ++ [.ctxDone]) := by
    rw [engSeq_append_of_none _ _ _ _ hsrc0, ← h.src]
  have hone : engSeq (e.n : Int) e.eng.awaited [.ctxDone] = { awaited := e.eng.awaited, ret := some .cancelled } :=
    engSeq_one (e.n : Int) e.eng.awaited hi .ctxDone
  refine ⟨h.reach, hsrc, h.retOk, h.retErr, fun _ => ?_, fun hw => ?_, fun k hk ha => ?_, fun hok => ?_, fun hf => ?_,
    fun _ => hcc, fun k hk hs => ?_⟩
  · show (engSeq (e.n : Int) e.eng.awaited [.ctxDone]).awaited = _
    rw [hone]
    exact h.cnt (by rw [hnone]; simp)
  · have hw' : (engSeq (e.n : Int) e.eng.awaited [.ctxDone]).ret = none := hw
    rw [hone] at hw'; cases hw'
  · rcases h.awaitedTrue k hk ha with hr | hr
    · exact Or.inl hr
    · rw [hnone] at hr; cases hr
  · have hok' : (engSeq (e.n : Int) e.eng.awaited [.ctxDone]).ret = some .ok := hok
    rw [hone] at hok'; cases hok'
  · have hf' : (engSeq (e.n : Int) e.eng.awaited [.ctxDone]).ret = some .failed := hf
    rw [hone] at hf'; cases hf'
  · right
    simp only [ESt.ctxDone, hcc, Bool.true_or]

theorem engRecv_returned_inv (c : Nat → Cfg) (toks : Nat → List Int) (e' : ESt) (h : EInv c toks e') :
    EInv c toks (if e'.returned then cancelAll c e' else e') := by
  by_cases hr : e'.returned = true
  · rw [if_pos hr]
    exact cancelAll_inv c toks e' h (by simp [ESt.ctxDone, hr])
  · rw [if_neg hr]
    exact h

theorem estep_inv (c : Nat → Cfg) (toks : Nat → List Int) (e : ESt) (ev : EEvent) (h : EInv c toks e) :
    EInv c toks (estep c e ev) := by
  cases ev with
  | pool j pev =>
    simp only [estep]
    by_cases hg : (decide (e.n ≤ j) || pev == .loop .runCancel) = true
    · rw [if_pos hg]; exact h
    · rw [if_neg hg]
      simp only [Bool.or_eq_true, decide_eq_true_eq, beq_iff_eq, not_or] at hg
      obtain ⟨_, hne⟩ := hg
      apply setPool_inv c toks e h j
      · obtain ⟨pevs, hp⟩ := h.reach j
        exact ⟨pevs ++ [pev], by rw [poolRun_snoc, ← hp]⟩
      · rfl
      · rfl
      · intro hf; simp [hf]
      · exact poolStep_cancelled_mono (c j) _ pev
      · intro hs
        rcases poolStep_sawRun (c j) _ pev hne hs with ho | hr
        · exact Or.inl ho
        · right; simp [hr]
  | callerCancel =>
    simp only [estep]
    apply cancelAll_inv
    · exact ⟨h.reach, h.src, h.retOk, fun _ => Or.inl rfl, h.cnt, h.waiting, h.awaitedTrue, h.okAll, h.failedR,
        fun _ => rfl, fun _ _ _ => Or.inr (by simp [ESt.ctxDone])⟩
    · simp [ESt.ctxDone]
  | poolReturn j b =>
    simp only [estep]
    by_cases hg : (decide (e.n ≤ j) || (e.pool j).ret.isSome) = true
    · rw [if_pos hg]; exact h
    · rw [if_neg hg]
      simp only [Bool.or_eq_true, decide_eq_true_eq, not_or, Bool.not_eq_true, Option.isSome_eq_false_iff,
        Option.isNone_iff_eq_none] at hg
      obtain ⟨hj, hnone⟩ := hg
      cases b with
      | true =>
        simp only [if_true]
        by_cases hc : (e.pool j).p.poolCancelled = true
        · rw [if_pos hc]
          exact poolReturn_inv c toks e h j true (by omega) hnone (fun _ => hc) (by intro hx; cases hx)
        · rw [if_neg hc]; exact h
      | false =>
        simp only [Bool.false_eq_true, if_false]
        by_cases hc : ((e.pool j).failed || e.ctxDone) = true
        · rw [if_pos hc]
          refine poolReturn_inv c toks e h j false (by omega) hnone (by intro hx; cases hx) (fun _ => ?_)
          simpa using hc
        · rw [if_neg hc]; exact h
  | engineRecv j =>
    simp only [estep]
    by_cases hg : (decide (e.n ≤ j) || e.returned || (e.pool j).awaited) = true
    · rw [if_pos hg]; exact h
    · rw [if_neg hg]
      simp only [Bool.or_eq_true, decide_eq_true_eq, not_or, Bool.not_eq_true] at hg
      obtain ⟨⟨hj, hret⟩, hna⟩ := hg
      have hnone : e.eng.ret = none := by
        simp only [ESt.returned] at hret
        cases hr : e.eng.ret with
        | none => rfl
        | some r => rw [hr] at hret; cases hret
      cases hb : (e.pool j).ret with
      | none => exact h
      | some b =>
        simp only [engRecv]
        have key := recvResult_inv c toks e h j b (by omega) hnone hna hb
        have heq : ({ e.pool j with awaited := true } : EPool) =
            { p := (e.pool j).p, failed := (e.pool j).failed, ret := some b, awaited := true } := by
          show EPool.mk _ _ _ _ = _
          rw [hb]
        rw [heq] at key
        exact engRecv_returned_inv c toks _ key
  | engineSeesCancel =>
    simp only [estep]
    by_cases hg : (!e.callerCancelled || e.returned) = true
    · rw [if_pos hg]; exact h
    · rw [if_neg hg]
      simp only [Bool.or_eq_true, Bool.not_eq_true', not_or, Bool.not_eq_false, Bool.not_eq_true] at hg
      obtain ⟨hcc, hret⟩ := hg
      have hnone : e.eng.ret = none := by
        simp only [ESt.returned] at hret
        cases hr : e.eng.ret with
        | none => rfl
        | some r => rw [hr] at hret; cases hret
      simp only [engRecv]
      exact engRecv_returned_inv c toks _ (seesCancel_inv c toks e h hnone hcc)

theorem estep_n (c : Nat → Cfg) (e : ESt) (ev : EEvent) : (estep c e ev).n = e.n := by
  cases ev with
  | pool j pev => simp only [estep]; split <;> rfl
  | callerCancel => rfl
  | poolReturn j b =>
    simp only [estep]
    split
    · rfl
    · split
      · split <;> rfl
      · split <;> rfl
  | engineRecv j =>
    simp only [estep]
    split
    · rfl
    · split
      · rfl
      · simp only [engRecv]; split <;> rfl
  | engineSeesCancel =>
    simp only [estep]
    split
    · rfl
    · simp only [engRecv]; split <;> rfl

theorem erun_n (c : Nat → Cfg) (e : ESt) (evs : List EEvent) : (erun c e evs).n = e.n := by
  induction evs generalizing e with
  | nil => rfl
  | cons ev rest ih =>
    show (erun c (estep c e ev) rest).n = e.n
    rw [ih, estep_n]

theorem erun_inv (c : Nat → Cfg) (toks : Nat → List Int) (e : ESt) (evs : List EEvent) (h : EInv c toks e) :
    EInv c toks (erun c e evs) := by
  induction evs generalizing e with
  | nil => exact h
  | cons ev rest ih => exact ih (estep c e ev) (estep_inv c toks e ev h)

/-- why the run of pool `j` was cancelled: the caller, a pool that failed, or everything of every pool had finished -/
theorem cancel_cause (c : Nat → Cfg) (toks : Nat → List Int) (e : ESt) (h : EInv c toks e) (j : Nat) (hj : j < e.n)
    (hs : (e.pool j).p.base.sawRunCancelled = true) :
    e.callerCancelled = true ∨ (∃ k, k < e.n ∧ (e.pool k).failed = true) ∨
      (∀ k, k < e.n → (e.pool k).ret = some true ∧ (e.pool k).p.poolCancelled = true) := by
  rcases h.saw j hj hs with hf | hd
  · exact Or.inr (Or.inl ⟨j, hj, hf⟩)
  · simp only [ESt.ctxDone, Bool.or_eq_true] at hd
    rcases hd with hc | hret
    · exact Or.inl hc
    · simp only [ESt.returned] at hret
      cases hres : e.eng.ret with
      | none => rw [hres] at hret; cases hret
      | some r =>
        cases r with
        | ok =>
          right; right
          have hall := h.okAll hres
          have hcnt := h.cnt (by rw [hres]; simp)
          have hfull : cntUpTo (fun k => (e.pool k).awaited) e.n = e.n := by omega
          intro k hk
          have haw := cntUpTo_full _ _ hfull k hk
          rcases h.awaitedTrue k hk haw with hr1 | hr1
          · exact ⟨hr1, h.retOk k hk hr1⟩
          · rw [hres] at hr1; cases hr1
        | failed =>
          rcases h.retErr (h.failedR hres) with hc | hf
          · exact Or.inl hc
          · exact Or.inr (Or.inl hf)
        | cancelled => exact Or.inl (h.cancelledR hres)

end Pandora.Proofs.C12
