/-
Proofs C16, round 6: line terminators.

* `replaceAll_crlf`      `strings.ReplaceAll(s, "\r\n", "\n")` (the generic model of the regenerated step) is `crlfToLf`;
* `crlfToLf_saveMixed`   a text without carriage returns, saved with ANY subset of its line terminators as CR LF, is read
                         back as the text;
* `crlfToLf_toCrlf`      a text saved with CR LF throughout is read back as the text — whatever it contains (also lone
                         carriage returns and CR LF pairs of its own);
* `crlfToLf_id`          a text without carriage returns is not touched.
-/
import Pandora.Model.C16Text

namespace Pandora.Proofs.C16
open Pandora.Model.C16

theorem crlfToLf_crlf (s : List Char) : crlfToLf ('\r' :: '\n' :: s) = '\n' :: crlfToLf s :=
  crlfToLf.eq_2 s

theorem crlfToLf_cons_ne (c : Char) (s : List Char) (h : c ≠ '\r') : crlfToLf (c :: s) = c :: crlfToLf s :=
  crlfToLf.eq_3 c s (fun _ hc _ => h hc)

theorem crlfToLf_cons_head (c : Char) (s : List Char) (h : ∀ r, s ≠ '\n' :: r) : crlfToLf (c :: s) = c :: crlfToLf s :=
  crlfToLf.eq_3 c s (fun r _ hs => h r hs)

theorem replaceAllAux_crlf (s : List Char) : replaceAllAux ['\r', '\n'] ['\n'] 0 s = crlfToLf s := by
  fun_induction crlfToLf s with
  | case1 => simp [replaceAllAux]
  | case2 cs ih => simp [replaceAllAux, List.isPrefixOf, ih]
  | case3 c cs hne ih =>
    have hp : List.isPrefixOf ['\r', '\n'] (c :: cs) = false := by
      cases cs with
      | nil => simp [List.isPrefixOf]
      | cons d r =>
        by_cases hc : c = '\r'
        · by_cases hd : d = '\n'
          · exact absurd (by rw [hd]) (hne r hc)
          · have hd' : ('\n' == d) = false := by
              simp only [beq_eq_false_iff_ne, ne_eq]
              exact fun e => hd e.symm
            simp [List.isPrefixOf, hd']
        · have hc' : ('\r' == c) = false := by
            simp only [beq_eq_false_iff_ne, ne_eq]
            exact fun e => hc e.symm
          simp [List.isPrefixOf, hc']
    simp [replaceAllAux, hp, ih]

/-- the regenerated step of `ParseHCLFile`, in closed form -/
theorem replaceAll_crlf (s : List Char) : replaceAll "\r\n".toList "\n".toList s = crlfToLf s := by
  have h1 : "\r\n".toList = ['\r', '\n'] := by decide
  have h2 : "\n".toList = ['\n'] := by decide
  rw [h1, h2]
  unfold replaceAll
  simp [replaceAllAux_crlf]

theorem crlfToLf_saveMixed (fl : List Bool) (t : List Char) (h : '\r' ∉ t) : crlfToLf (saveMixed fl t) = t := by
  induction t generalizing fl with
  | nil => simp [saveMixed, crlfToLf]
  | cons c cs ih =>
    have hc : c ≠ '\r' := fun e => h (by rw [e]; exact List.mem_cons_self)
    have hcs : '\r' ∉ cs := fun m => h (List.mem_cons_of_mem _ m)
    unfold saveMixed
    by_cases hn : c = '\n'
    · subst hn
      simp only [if_true]
      cases fl with
      | nil => simp only []; rw [crlfToLf_cons_ne _ _ (by decide), ih [] hcs]
      | cons b fl' =>
        cases b with
        | true => simp only []; rw [crlfToLf_crlf, ih fl' hcs]
        | false => simp only []; rw [crlfToLf_cons_ne _ _ (by decide), ih fl' hcs]
    · simp only [hn, if_false]
      rw [crlfToLf_cons_ne _ _ hc, ih fl hcs]

theorem toCrlf_head (cs r : List Char) : toCrlf cs ≠ '\n' :: r := by
  cases cs with
  | nil => simp [toCrlf]
  | cons c cs =>
    unfold toCrlf
    by_cases hn : c = '\n'
    · simp [hn]
    · simp only [hn, if_false]
      intro e
      exact hn (List.cons.inj e).1

theorem crlfToLf_toCrlf (t : List Char) : crlfToLf (toCrlf t) = t := by
  induction t with
  | nil => simp [toCrlf, crlfToLf]
  | cons c cs ih =>
    unfold toCrlf
    by_cases hn : c = '\n'
    · simp only [hn, if_true]
      rw [crlfToLf_crlf, ih]
    · simp only [hn, if_false]
      rw [crlfToLf_cons_head c _ (toCrlf_head cs), ih]

theorem crlfToLf_id (t : List Char) (h : '\r' ∉ t) : crlfToLf t = t := by
  induction t with
  | nil => simp [crlfToLf]
  | cons c cs ih =>
    have hc : c ≠ '\r' := fun e => h (by rw [e]; exact List.mem_cons_self)
    have hcs : '\r' ∉ cs := fun m => h (List.mem_cons_of_mem _ m)
    rw [crlfToLf_cons_ne _ _ hc, ih hcs]

end Pandora.Proofs.C16
