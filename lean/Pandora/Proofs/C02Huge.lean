/-
C02 — the run-length-encoded model (`Model/C02Huge.lean`) IS the list model on the expanded offsets.

`Hom f a b`: `f` maps the states of object `a` to states of object `b` and commutes with Start/Next/Left.  A `Sem`
(what refining the flat spec means, `Proofs/C02Sem.lean`) pulls back along a homomorphism (`pullSem`); the run leaf
maps onto the list leaf by `HLeaf.expand` (`hleafHom`), so the run leaf refines the flat spec of its expanded part, and
because `compSem` / `sumSem` / `newComposite_sem` / `seq_refines` are generic in the children, every run tree does
(`hbuild_ok`).
-/
import Pandora.Model.C02Huge
import Pandora.Proofs.C02Sem

set_option linter.unusedVariables false

namespace Pandora.Proofs.C02Huge
open Pandora.Model.C02 Pandora.Spec.C02 Pandora.Proofs.C02Flat Pandora.Proofs.C02Sem

/-! ### runs -/

theorem runsExpand_length : ∀ rs : List Run, (runsExpand rs).length = runsLen rs
  | [] => rfl
  | r :: rs => by simp [runsExpand, runsLen, runsExpand_length rs]

theorem runsExpand_get : ∀ (rs : List Run) (k : Nat), (runsExpand rs)[k]? = runsAt rs k
  | [], k => by simp [runsExpand, runsAt]
  | r :: rs, k => by
    simp only [runsExpand, runsAt]
    by_cases hk : k < r.count
    · rw [List.getElem?_append_left (by simpa using hk)]
      simp [hk]
    · rw [List.getElem?_append_right (by simpa using Nat.le_of_not_lt hk)]
      simp [hk, runsExpand_get rs]

/-- one run of `n` offsets 0 is `once(n)` -/
theorem runsExpand_nil : runsExpand [] = [] := rfl

theorem runsExpand_once (n : Nat) : runsExpand [⟨0, 0, n⟩] = List.replicate n 0 := by
  simp only [runsExpand, List.append_nil]
  apply List.ext_getElem
  · simp
  · intro i h1 h2
    simp [Run.nth]

/-! ### homomorphisms of schedule objects -/

structure Hom {α β : Type} (f : α → β) (a : Ops α) (b : Ops β) : Prop where
  start : ∀ s t, (a.start s t).map f = b.start (f s) t
  next : ∀ s now, (a.next s now).map (fun x => (f x.1, x.2)) = b.next (f s) now
  left : ∀ s now, (a.left s now).map (fun x => (f x.1, x.2)) = b.left (f s) now
  once0 : f a.once0 = b.once0

theorem map_ok {ε α β : Type} {f : α → β} {x : Except ε α} {y : β} (h : x.map f = .ok y) : ∃ x', x = .ok x' ∧ f x' = y := by
  cases x with
  | error e => cases h
  | ok x' => exact ⟨x', rfl, by simpa [Except.map] using h⟩

theorem map_err {ε α β : Type} {f : α → β} {x : Except ε α} {e : ε} (h : x.map f = .error e) : x = .error e := by
  cases x with
  | error e' => simpa [Except.map] using h
  | ok x' => cases h

/-- a `Sem` pulls back along a homomorphism, for objects whose `Left` does not change them and whose implicit start by
`Next` is their `Start` (true of leaves) -/
def pullSem {α β : Type} {a : Ops α} {b : Ops β} (f : α → β) (hom : Hom f a b) (sb : Sem b)
    (hleft : ∀ s now s' l, a.left s now = .ok (s', l) → s' = s)
    (hnext : ∀ s now s1, a.start s now = .ok s1 → a.next s now = a.next s1 now) : Sem a where
  R s segs clk := sb.R (f s) segs clk
  U s parts := sb.U (f s) parts
  R_ne h := sb.R_ne h
  U_ne h := sb.U_ne h
  R_mono h hle := sb.R_mono h hle
  next_R := by
    intro s segs clk h now hle
    obtain ⟨sb', hb, hR⟩ := sb.next_R h now hle
    have hh := hom.next s now
    rw [hb] at hh
    obtain ⟨x, hx, hfx⟩ := map_ok hh
    obtain ⟨s', tx, ok⟩ := x
    simp only [Prod.mk.injEq] at hfx
    obtain ⟨h1, h2, h3⟩ := hfx
    exact ⟨s', by rw [hx, h2, h3], by rw [h1]; exact hR⟩
  left_R := by
    intro s segs clk h now hle
    obtain ⟨sb', hb, hR⟩ := sb.left_R h now hle
    have hh := hom.left s now
    rw [hb] at hh
    obtain ⟨x, hx, hfx⟩ := map_ok hh
    obtain ⟨s', l⟩ := x
    simp only [Prod.mk.injEq] at hfx
    obtain ⟨h1, h2⟩ := hfx
    exact ⟨s', by rw [hx, h2], by rw [h1]; exact hR⟩
  start_R := by
    intro s segs clk h t
    have hh := hom.start s t
    rw [sb.start_R h t] at hh
    exact map_err hh
  start_U := by
    intro s parts h t
    obtain ⟨sb', hb, hR⟩ := sb.start_U h t
    have hh := hom.start s t
    rw [hb] at hh
    obtain ⟨s', hx, hfx⟩ := map_ok hh
    exact ⟨s', hx, fun clk => by rw [hfx]; exact hR clk⟩
  next_U := by
    intro s parts h now
    obtain ⟨sb', hb, _⟩ := sb.start_U h now
    have hh := hom.start s now
    rw [hb] at hh
    obtain ⟨s1, hx, _⟩ := map_ok hh
    exact ⟨s1, hx, hnext s now s1 hx⟩
  left_U := by
    intro s parts h now
    have hb := sb.left_U h now
    have hh := hom.left s now
    rw [hb] at hh
    obtain ⟨x, hx, hfx⟩ := map_ok hh
    obtain ⟨s', l⟩ := x
    simp only [Prod.mk.injEq] at hfx
    have hs : s' = s := hleft s now s' l hx
    rw [hx, hs, hfx.2]
  once0_U := by
    show sb.U (f a.once0) _
    rw [hom.once0]
    exact sb.once0_U

/-! ### the run leaf -/

theorem hleafHom : Hom HLeaf.expand hleafOps leafOps where
  start := by
    intro s t
    match s with
    | .fin runs dur i none => rfl
    | .fin runs dur i (some _) => rfl
    | .unl dur none => rfl
    | .unl dur (some _) => rfl
  next := by
    intro s now
    match s with
    | .fin runs dur i st =>
      simp only [hleafOps, leafOps, HLeaf.next, HLeaf.expand, Leaf.next, runsExpand_get]
      cases runsAt runs i <;> rfl
    | .unl dur fi =>
      simp only [hleafOps, leafOps, HLeaf.next, HLeaf.expand, Leaf.next]
      split <;> rfl
  left := by
    intro s now
    match s with
    | .fin runs dur i st => simp [hleafOps, leafOps, HLeaf.left, HLeaf.expand, Leaf.left, runsExpand_length, Except.map]
    | .unl dur none => rfl
    | .unl dur (some f) => rfl
  once0 := rfl

theorem hleaf_left_same (s : HLeaf) (now : Int) (s' : HLeaf) (l : Int) (h : hleafOps.left s now = .ok (s', l)) : s' = s := by
  match s with
  | .fin runs dur i st => simp [hleafOps, HLeaf.left] at h; exact h.1.symm
  | .unl dur none => simp [hleafOps, HLeaf.left] at h; exact h.1.symm
  | .unl dur (some f) => simp [hleafOps, HLeaf.left] at h; exact h.1.symm

theorem hleaf_next_start (s : HLeaf) (now : Int) (s1 : HLeaf) (h : hleafOps.start s now = .ok s1) :
    hleafOps.next s now = hleafOps.next s1 now := by
  match s with
  | .fin runs dur i none => simp [hleafOps, HLeaf.start] at h; subst h; simp [hleafOps, HLeaf.next]
  | .fin runs dur i (some _) => simp [hleafOps, HLeaf.start] at h
  | .unl dur none => simp [hleafOps, HLeaf.start] at h; subst h; simp [hleafOps, HLeaf.next]
  | .unl dur (some _) => simp [hleafOps, HLeaf.start] at h

/-- the run leaf refines the flat spec of its EXPANDED part -/
def hleafSem : Sem hleafOps := pullSem HLeaf.expand hleafHom leafSem hleaf_left_same hleaf_next_start

def hlvlSem : (d : Nat) → Sem (hlvlOps d)
  | 0 => hleafSem
  | d + 1 => sumSem (hlvlSem d) (compSem (hlvlSem d))

/-! ### run trees -/

mutual
theorem hexpand_depth : ∀ t : HTree, t.expand.depth = t.depth
  | .fin runs dur => by simp [HTree.expand, Tree.depth, HTree.depth]
  | .unl dur => by simp [HTree.expand, Tree.depth, HTree.depth]
  | .comp cs => by simp [HTree.expand, Tree.depth, HTree.depth, hexpandList_depth cs]
theorem hexpandList_depth : ∀ ts : List HTree, depthList (hexpandList ts) = hdepthList ts
  | [] => by simp [hexpandList, depthList, hdepthList]
  | t :: ts => by simp [hexpandList, depthList, hdepthList, hexpand_depth t, hexpandList_depth ts]
end

mutual
/-- **every run tree refines the flat succession of the leaf parts of its expansion** -/
theorem hbuild_ok (now : Int) : ∀ (d : Nat) (t : HTree), t.depth ≤ d →
    ∃ s, hbuild now d t = .ok s ∧ (hlvlSem d).U s (flat t.expand)
  | 0, .fin runs dur, _ => ⟨HLeaf.fin runs dur 0 none, by simp [hbuild, pure, Except.pure],
      by simp [hlvlSem, hleafSem, pullSem, HLeaf.expand, leafSem, leafU, flat, HTree.expand]⟩
  | 0, .unl dur, _ => ⟨HLeaf.unl dur none, by simp [hbuild, pure, Except.pure],
      by simp [hlvlSem, hleafSem, pullSem, HLeaf.expand, leafSem, leafU, flat, HTree.expand]⟩
  | 0, .comp cs, h => by simp [HTree.depth] at h
  | d + 1, .comp cs, h => by
      have hd : hdepthList cs ≤ d := by simp only [HTree.depth] at h; omega
      obtain ⟨kids, pss, hk, hU, hfl⟩ := hbuildList_ok now d cs hd
      obtain ⟨s, hs, hU'⟩ := newComposite_sem (hlvlSem d) now kids pss hU
      refine ⟨s, by simp only [hbuild, hk, bind, Except.bind]; exact hs, ?_⟩
      simp only [HTree.expand, flat, ← hfl]
      exact hU'
  | d + 1, .fin runs dur, _ => by
      obtain ⟨x, hx, hU⟩ := hbuild_ok now d (.fin runs dur) (by simp [HTree.depth])
      exact ⟨.inl x, by simp [hbuild, hx, bind, Except.bind, pure, Except.pure], hU⟩
  | d + 1, .unl dur, _ => by
      obtain ⟨x, hx, hU⟩ := hbuild_ok now d (.unl dur) (by simp [HTree.depth])
      exact ⟨.inl x, by simp [hbuild, hx, bind, Except.bind, pure, Except.pure], hU⟩
theorem hbuildList_ok (now : Int) : ∀ (d : Nat) (ts : List HTree), hdepthList ts ≤ d →
    ∃ cs pss, hbuildList now d ts = .ok cs ∧ AllU (hlvlSem d) cs pss ∧ pss.flatten = flatList (hexpandList ts)
  | d, [], _ => ⟨[], [], by simp [hbuildList, pure, Except.pure], trivial, by simp [flatList, hexpandList]⟩
  | d, t :: ts, h => by
      have h1 : t.depth ≤ d := by simp only [hdepthList] at h; omega
      have h2 : hdepthList ts ≤ d := by simp only [hdepthList] at h; omega
      obtain ⟨x, hx, hUx⟩ := hbuild_ok now d t h1
      obtain ⟨xs, pss, hxs, hU, hfl⟩ := hbuildList_ok now d ts h2
      exact ⟨x :: xs, flat t.expand :: pss, by simp [hbuildList, hx, hxs, bind, Except.bind, pure, Except.pure],
        ⟨hUx, hU⟩, by simp [flatList, hexpandList, hfl]⟩
end

/-- `instance_step` with huge steps: the run tree stands for `instanceStepTree` -/
theorem hinstanceStepLoop_expand (to step : Nat) (dur : Int) : ∀ (fuel i : Nat),
    hexpandList (hinstanceStepLoop to step dur fuel i) = instanceStepLoop to step dur fuel i
  | 0, _ => rfl
  | fuel + 1, i => by
    simp only [hinstanceStepLoop, instanceStepLoop]
    split
    · simp [hexpandList, HTree.expand, runsExpand_once, runsExpand_nil, hinstanceStepLoop_expand to step dur fuel]
    · rfl

theorem hinstanceStepTree_expand (frm to step : Nat) (dur : Int) :
    (hinstanceStepTree frm to step dur).expand = instanceStepTree frm to step dur := by
  simp [hinstanceStepTree, instanceStepTree, HTree.expand, hexpandList, runsExpand_once, hinstanceStepLoop_expand]

end Pandora.Proofs.C02Huge
