/-
C11 — refinement lemmas for the pool composition (`Model/C11Pool.lean`): the abstract one-bit discipline of an
iteration of `instance.Run` (`actsOkFrom`) implies the ownership discipline `progOk` of the iteration's program, for
every instance number, every ammo object and every list of samples; iterations compose (nothing is owned between two
iterations); hence every instance's whole program satisfies `progOk`.
-/
import Pandora.Model.C11Pool
import Pandora.Proofs.C11Own

namespace Pandora.Proofs.C11Pool
open Pandora.Model.C11 Pandora.Model.C11Pool
open Pandora.Model.C03Loop (Instr Oracle Outcome)

theorem ownedAfter_append : ∀ (xs ys : List OOp) (O : List Nat),
    ownedAfter O (xs ++ ys) = ownedAfter (ownedAfter O xs) ys := by
  intro xs
  induction xs with
  | nil => intro ys O; rfl
  | cons x xs ih =>
    intro ys O
    cases x <;> simp [ownedAfter, ih]

theorem progOk_append (cls : Nat → Class) (t : Nat) : ∀ (xs ys : List OOp) (O : List Nat),
    progOk cls t O xs → progOk cls t (ownedAfter O xs) ys → progOk cls t O (xs ++ ys) := by
  intro xs
  induction xs with
  | nil => intro ys O _ h; exact h
  | cons x xs ih =>
    intro ys O hx hy
    cases x with
    | acc op => exact ⟨hx.1, ih ys O hx.2 hy⟩
    | own op => exact ⟨hx.1, ih ys O hx.2 hy⟩
    | take l => exact ih ys (l :: O) hx hy
    | give l => exact ⟨hx.1, ih ys _ hx.2 hy⟩

/-! ### the classification of a pool's objects -/

theorem cls_sched : poolCls oSched = .sharedSync 0 := by decide
theorem cls_metrics : poolCls oMetrics = .sharedSync 1 := by decide
theorem cls_queue : poolCls oQueue = .sharedSync 2 := by decide
theorem cls_def : poolCls oDef = .sharedRO := by decide

theorem cls_gun (i : Nat) : poolCls (oGun i) = .loc i := by
  unfold poolCls oGun
  rw [if_neg (by omega), if_neg (by omega), if_pos (by omega)]
  congr 1
  omega

theorem cls_ammo (a : Nat) : poolCls (oAmmo a) = .sharedSync (oAmmo a) := by
  unfold poolCls oAmmo
  rw [if_neg (by omega), if_neg (by omega), if_neg (by omega)]

theorem cls_sample (s : Nat) : poolCls (oSample s) = .sharedSync (oSample s) := by
  unfold poolCls oSample
  rw [if_neg (by omega), if_neg (by omega), if_neg (by omega)]

theorem sample_ne_ammo (s a : Nat) : oSample s ≠ oAmmo a := by
  unfold oSample oAmmo; omega

/-- the tokens an instance holds between two operations of an iteration -/
def hold (h : Bool) (a : Nat) : List Nat := if h then [oAmmo a] else []

theorem samples_ok (t a : Nat) (h : Bool) : ∀ (ss : List Nat),
    progOk poolCls t (hold h a) (ss.flatMap sampleOps) ∧ ownedAfter (hold h a) (ss.flatMap sampleOps) = hold h a := by
  intro ss
  induction ss with
  | nil => exact ⟨trivial, rfl⟩
  | cons s ss ih =>
    have hfil : (oSample s :: hold h a).filter (· != oSample s) = hold h a := by
      cases h
      · simp [hold]
      · have := sample_ne_ammo s a
        simp [hold, Ne.symm this]
    simp only [List.flatMap_cons]
    refine ⟨?_, ?_⟩
    · apply progOk_append
      · refine ⟨⟨oSample s, cls_sample s, List.mem_cons_self⟩, List.mem_cons_self, trivial⟩
      · simp only [sampleOps, ownedAfter, hfil]
        exact ih.1
    · rw [ownedAfter_append]
      simp only [sampleOps, ownedAfter, hfil]
      exact ih.2

/-- **refinement**: the one-bit discipline of an iteration implies the ownership discipline of its program -/
theorem acts_ok (i a : Nat) (ss : List Nat) : ∀ (acts : List Pandora.Model.C03Loop.Act) (h : Bool),
    actsOkFrom h acts = true →
    progOk poolCls i (hold h a) (acts.flatMap (actOps i a ss)) ∧
      ownedAfter (hold h a) (acts.flatMap (actOps i a ss)) = [] := by
  intro acts
  induction acts with
  | nil =>
    intro h hok
    cases h
    · exact ⟨trivial, rfl⟩
    · simp [actsOkFrom] at hok
  | cons act rest ih =>
    intro h hok
    simp only [List.flatMap_cons]
    have accStep : ∀ (op : Op), opOk poolCls i op → actsOkFrom h rest = true →
        progOk poolCls i (hold h a) ([OOp.acc op] ++ rest.flatMap (actOps i a ss)) ∧
          ownedAfter (hold h a) ([OOp.acc op] ++ rest.flatMap (actOps i a ss)) = [] := by
      intro op hop hr
      exact ⟨⟨hop, (ih h hr).1⟩, (ih h hr).2⟩
    cases act with
    | acq =>
      simp only [actsOkFrom, Bool.and_eq_true, Bool.not_eq_true'] at hok
      obtain ⟨hh, hr⟩ := hok
      subst hh
      have := ih true hr
      exact ⟨this.1, this.2⟩
    | empty => exact accStep _ (by simp [opOk, cls_queue]) (by simpa [actsOkFrom] using hok)
    | tokOk => exact accStep _ (by simp [opOk, cls_sched]) (by simpa [actsOkFrom] using hok)
    | tokEnd => exact accStep _ (by simp [opOk, cls_sched]) (by simpa [actsOkFrom] using hok)
    | reqAdd => exact accStep _ (by simp [opOk, cls_metrics]) (by simpa [actsOkFrom] using hok)
    | respAdd => exact accStep _ (by simp [opOk, cls_metrics]) (by simpa [actsOkFrom] using hok)
    | shoot =>
      simp only [actsOkFrom, Bool.and_eq_true] at hok
      obtain ⟨hh, hr⟩ := hok
      subst hh
      have hs := samples_ok i a true ss
      have hrest := ih true hr
      simp only [actOps, List.append_assoc, List.cons_append, List.nil_append]
      refine ⟨⟨⟨oAmmo a, cls_ammo a, by simp [hold]⟩, by simp [opOk, cls_def], by simp [opOk, cls_gun], ?_⟩, ?_⟩
      · apply progOk_append _ _ _ _ _ hs.1
        rw [hs.2]; exact hrest.1
      · simp only [ownedAfter]
        rw [ownedAfter_append, hs.2]; exact hrest.2
    | discard =>
      have hr : actsOkFrom h rest = true := by simpa [actsOkFrom] using hok
      have hs := samples_ok i a h ss
      have hrest := ih h hr
      simp only [actOps]
      refine ⟨?_, ?_⟩
      · apply progOk_append _ _ _ _ _ hs.1
        rw [hs.2]; exact hrest.1
      · rw [ownedAfter_append, hs.2]; exact hrest.2
    | rel =>
      simp only [actsOkFrom, Bool.and_eq_true] at hok
      obtain ⟨hh, hr⟩ := hok
      subst hh
      have hrest := ih false hr
      have hfil : (hold true a).filter (· != oAmmo a) = hold false a := by simp [hold]
      refine ⟨⟨by simp [hold], ?_⟩, ?_⟩
      · rw [hfil]; exact hrest.1
      · simp only [actOps, List.cons_append, List.nil_append, ownedAfter, hfil]; exact hrest.2
    | bad why => simp [actsOkFrom] at hok

theorem bodyOk_at (body : List Instr) (hb : bodyOk body = true) (a w f : Bool) :
    actsOkFrom false (iterActs body a w f) = true := by
  unfold bodyOk at hb
  simp only [List.all_cons, List.all_nil, Bool.and_true, Bool.and_eq_true] at hb
  cases a <;> cases w <;> cases f <;> simp_all

theorem iter_ok (body : List Instr) (hb : bodyOk body = true) (i : Nat) (c : Iter) :
    progOk poolCls i [] (iterOps body i c) ∧ ownedAfter [] (iterOps body i c) = [] := by
  have ho := bodyOk_at body hb c.acqOk c.waitOk c.fire
  have := acts_ok i c.ammo c.samples _ false ho
  exact ⟨⟨by simp [opOk, cls_sched], this.1⟩, this.2⟩

theorem loop_ok (body : List Instr) (hb : bodyOk body = true) (i : Nat) : ∀ (cs : List Iter),
    progOk poolCls i [] (loopOps body i cs) ∧ ownedAfter [] (loopOps body i cs) = [] := by
  intro cs
  induction cs with
  | nil => exact ⟨trivial, rfl⟩
  | cons c cs ih =>
    have hi := iter_ok body hb i c
    simp only [loopOps]
    split
    · refine ⟨progOk_append _ _ _ _ _ hi.1 (by rw [hi.2]; exact ih.1), ?_⟩
      rw [ownedAfter_append, hi.2]; exact ih.2
    · simp only [List.append_nil]; exact hi

theorem inst_ok (body : List Instr) (hb : bodyOk body = true) (i : Nat) (cs : List Iter) :
    progOk poolCls i [] (instProg body i cs) := by
  have hl := loop_ok body hb i cs
  refine ⟨by simp [opOk, cls_metrics], ?_⟩
  apply progOk_append _ _ _ _ _ hl.1
  rw [hl.2]
  exact ⟨by simp [opOk, cls_sched], by simp [opOk, cls_metrics], trivial⟩

/-- every thread of the pool respects the ownership discipline -/
theorem pool_ok (body : List Instr) (hb : bodyOk body = true) (iters : List (List Iter)) (others : List (List OOp))
    (hoth : ∀ (k : Nat) (ops : List OOp), others[k]? = some ops → progOk poolCls (iters.length + k) [] ops) :
    ∀ (t : Nat) (ops : List OOp), (poolProgs body iters others)[t]? = some ops → progOk poolCls t [] ops := by
  intro t ops hget
  unfold poolProgs at hget
  by_cases ht : t < iters.length
  · rw [List.getElem?_append_left (by simpa using ht)] at hget
    simp only [List.getElem?_map, List.getElem?_zipIdx] at hget
    cases hp : iters[t]? with
    | none => simp [hp] at hget
    | some cs =>
      simp only [hp, Option.map_some, Nat.zero_add, Option.some.injEq] at hget
      subst hget
      exact inst_ok body hb t cs
  · have hge : iters.length ≤ t := Nat.le_of_not_lt ht
    rw [List.getElem?_append_right (by simpa using hge)] at hget
    simp only [List.length_map, List.length_zipIdx] at hget
    have := hoth (t - iters.length) ops hget
    rwa [Nat.add_sub_cancel' hge] at this

/-- in a trace consistent with the classification an object of class `loc i` is touched by thread `i` only -/
theorem wf_loc_owner (cls : Nat → Class) : ∀ (tr : List Ev) (h : Locks), WF cls h tr →
    ∀ t o w v i, Ev.acc t o w v ∈ tr → cls o = .loc i → t = i := by
  intro tr
  induction tr with
  | nil => intro _ _ t o w v i hm; cases hm
  | cons e es ih =>
    intro h hwf t o w v i hm hcls
    rcases List.mem_cons.mp hm with heq | hin
    · subst heq
      have := hwf.1
      simp only [stepOk, hcls] at this
      exact this
    · exact ih _ hwf.2 t o w v i hin hcls

end Pandora.Proofs.C11Pool
