/-
C10 — helper lemmas (core Lean only).
-/
import Pandora.Model.C10
import Pandora.Spec.C10

namespace Pandora.Proofs.C10
open Pandora.Model.C10 Pandora.Spec.C10

/-! ### autotag = first k path elements -/

theorem splitSlash_ne_nil (p : List Char) : splitSlash p ≠ [] := by
  induction p with
  | nil => simp [splitSlash]
  | cons c cs ih =>
    unfold splitSlash
    by_cases h : c = '/'
    · simp [h]
    · simp only [h, if_false]
      cases hs : splitSlash cs <;> simp

theorem joinSlash_cons_cons (c : Char) (p : List Char) (rest : List (List Char)) :
    joinSlash ((c :: p) :: rest) = c :: joinSlash (p :: rest) := by
  cases rest <;> simp [joinSlash]

theorem autotag_eq_firstElements (k : Nat) (p : List Char) :
    autotagChars k p = firstElementsChars k p := by
  induction p generalizing k with
  | nil => simp [autotagChars, firstElementsChars, splitSlash, joinSlash]
  | cons c cs ih =>
    by_cases h : c = '/'
    · subst h
      cases k with
      | zero => simp [autotagChars, firstElementsChars, splitSlash, joinSlash]
      | succ k' =>
        have hne := splitSlash_ne_nil cs
        simp only [autotagChars, if_true, firstElementsChars, splitSlash, List.take_succ_cons]
        rw [ih k']
        unfold firstElementsChars
        cases hs : splitSlash cs with
        | nil => exact absurd hs hne
        | cons q qs => simp [joinSlash]
    · have hne := splitSlash_ne_nil cs
      simp only [autotagChars, h, if_false, firstElementsChars, splitSlash]
      rw [ih k]
      unfold firstElementsChars
      cases hs : splitSlash cs with
      | nil => exact absurd hs hne
      | cons q qs => simp [joinSlash_cons_cons]

/-! ### getErrno -/

/-- every `syscall.Errno` inside the chain is a real error number (Go's syscall layer returns `nil`, not `Errno(0)`) -/
def ErrnoNonzero : Err → Prop
  | .opError e => ErrnoNonzero e
  | .syscallError e => ErrnoNonzero e
  | .urlError e => ErrnoNonzero e
  | .underlying e => ErrnoNonzero e
  | .causer e => ErrnoNonzero e
  | .errno n => n ≠ 0
  | _ => True

theorem errnoNonzero_stripUnderlying (e : Err) (h : ErrnoNonzero e) : ErrnoNonzero (stripUnderlying e) := by
  induction e with
  | underlying e ih => simpa [stripUnderlying] using ih h
  | _ => simpa [stripUnderlying] using h

theorem errnoNonzero_cause (e : Err) (h : ErrnoNonzero e) : ErrnoNonzero (cause e) := by
  induction e with
  | causer e ih => simpa [cause] using ih h
  | _ => simpa [cause] using h

theorem unwrapLoop_ne_zero (e : Err) (h : ErrnoNonzero e) : unwrapLoop e ≠ 0 := by
  induction e with
  | opError e ih => simpa [unwrapLoop] using ih h
  | syscallError e ih => simpa [unwrapLoop] using ih h
  | urlError e ih => simpa [unwrapLoop] using ih h
  | errno n => simpa [unwrapLoop, ErrnoNonzero] using h
  | _ => simp [unwrapLoop, protoCodeError]

theorem getErrno_ne_zero (e : Err) (h : ErrnoNonzero e) : getErrno e ≠ 0 := by
  unfold getErrno
  split
  · simp [timeoutErrno]
  · exact unwrapLoop_ne_zero _ (errnoNonzero_cause _ (errnoNonzero_stripUnderlying _ h))

/-- the chain, after `getErrno`'s unwrapping, ends in something that is not a `syscall.Errno` -/
def Unrecognised (e : Err) : Prop :=
  ∀ n, unwrapLoop (cause (stripUnderlying e)) = n → n = protoCodeError

/-! ### scenario loops -/

theorem shootScenario_length (scn : String) (steps : List Step)
    (hp : ∀ s ∈ steps, ∀ st, s.outcome ≠ .received st .panic) :
    (shootScenario scn steps).reports.length = executedSteps steps := by
  induction steps with
  | nil => simp [shootScenario, executedSteps]
  | cons s rest ih =>
    have ih' := ih (fun t ht => hp t (List.mem_cons_of_mem _ ht))
    have hs := hp s (List.mem_cons_self ..)
    unfold shootScenario executedSteps
    cases ho : s.outcome with
    | prepErr => simp [stepHttp, ho]
    | doErr e => simp [stepHttp, ho]
    | bodyErr st e => simp [stepHttp, ho]
    | received st post =>
      cases post with
      | ok => simp [stepHttp, ho, ih']; omega
      | err => simp [stepHttp, ho]
      | panic => exact absurd ho (hs st)

theorem shootGrpcScenario_length (scn : String) (steps : List GrpcStep) :
    (shootGrpcScenario scn steps).reports.length = executedGrpcSteps steps := by
  induction steps with
  | nil => simp [shootGrpcScenario, executedGrpcSteps]
  | cons s rest ih =>
    unfold shootGrpcScenario executedGrpcSteps
    cases ho : s.outcome with
    | prepErr => simp [stepGrpc, ho]
    | unknownMethod => simp [stepGrpc, ho]
    | badPayload => simp [stepGrpc, ho]
    | invoked c post =>
      cases post with
      | ok => simp [stepGrpc, ho, ih]; omega
      | err => simp [stepGrpc, ho]
      | panic => simp [stepGrpc, ho]

/-! ### ids -/

theorem runIds_snd {ι : Type} (c : Nat) (sched : List ι) :
    (runIds c sched).map Prod.snd = List.range' (c + 1) sched.length := by
  induction sched generalizing c with
  | nil => simp [runIds]
  | cons i rest ih => simp [runIds, nextID, ih, List.range'_succ]

theorem runIds_fst {ι : Type} (c : Nat) (sched : List ι) :
    (runIds c sched).map Prod.fst = sched := by
  induction sched generalizing c with
  | nil => simp [runIds]
  | cons i rest ih => simp [runIds, ih]

end Pandora.Proofs.C10
