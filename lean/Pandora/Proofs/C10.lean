/-
C10 — helper lemmas (core Lean only).
-/
import Pandora.Model.C10
import Pandora.Spec.C10

namespace Pandora.Proofs.C10
open Pandora.Model.C10 Pandora.Spec.C10

/-! ### autotag = first k path elements -/

theorem splitSlash_ne_nil (p : List Char) : splitSlash p ≠ [] := by
  induction p with
  | nil => simp [splitSlash]
  | cons c cs ih =>
    unfold splitSlash
    by_cases h : c = '/'
    · simp [h]
    · simp only [h, if_false]
      cases hs : splitSlash cs <;> simp

theorem joinSlash_cons_cons (c : Char) (p : List Char) (rest : List (List Char)) :
    joinSlash ((c :: p) :: rest) = c :: joinSlash (p :: rest) := by
  cases rest <;> simp [joinSlash]

theorem autotag_eq_firstElements (k : Nat) (p : List Char) :
    autotagChars k p = firstElementsChars k p := by
  induction p generalizing k with
  | nil => simp [autotagChars, firstElementsChars, splitSlash, joinSlash]
  | cons c cs ih =>
    by_cases h : c = '/'
    · subst h
      cases k with
      | zero => simp [autotagChars, firstElementsChars, splitSlash, joinSlash]
      | succ k' =>
        have hne := splitSlash_ne_nil cs
        simp only [autotagChars, if_true, firstElementsChars, splitSlash, List.take_succ_cons]
        rw [ih k']
        unfold firstElementsChars
        cases hs : splitSlash cs with
        | nil => exact absurd hs hne
        | cons q qs => simp [joinSlash]
    · have hne := splitSlash_ne_nil cs
      simp only [autotagChars, h, if_false, firstElementsChars, splitSlash]
      rw [ih k]
      unfold firstElementsChars
      cases hs : splitSlash cs with
      | nil => exact absurd hs hne
      | cons q qs => simp [joinSlash_cons_cons]

/-! ### the http gun's tag is the tag the Spec expects -/

theorem httpTag_eq_expected (cfg : AutoTagCfg) (t p : String) :
    httpTag cfg t p = expectedTag cfg.enabled cfg.uriElements cfg.noTagOnly t p := by
  have ha : autotag cfg.uriElements p = firstElements cfg.uriElements p := by
    simp [autotag, firstElements, autotag_eq_firstElements]
  have hne : ∀ a b : String, a ≠ "" → a ++ "|" ++ b ≠ "" := by
    intro a b _ h
    have := congrArg String.length h
    simp [String.length_append] at this
  unfold httpTag expectedTag
  rw [ha]
  by_cases h1 : (cfg.enabled && (!cfg.noTagOnly || decide (t = ""))) = true
  · simp only [h1, if_true]
    by_cases h2 : t = ""
    · subst h2
      by_cases h3 : firstElements cfg.uriElements p = ""
      · simp [addTag, h3, Model.C10.emptyTag, Spec.C10.emptyTag]
      · simp [addTag, h3]
    · simp [addTag, h2, hne t _ h2]
  · simp only [h1]
    by_cases h2 : t = ""
    · subst h2; simp [addTag, Model.C10.emptyTag, Spec.C10.emptyTag]
    · simp [h2]

/-! ### getErrno -/

/-- every `syscall.Errno` inside the chain is a real error number (Go's syscall layer returns `nil`, not `Errno(0)`) -/
def ErrnoNonzero : Err → Prop
  | .opError e => ErrnoNonzero e
  | .syscallError e => ErrnoNonzero e
  | .urlError e => ErrnoNonzero e
  | .underlying e => ErrnoNonzero e
  | .causer e => ErrnoNonzero e
  | .errno n => n ≠ 0
  | _ => True

theorem errnoNonzero_stripUnderlying (e : Err) (h : ErrnoNonzero e) : ErrnoNonzero (stripUnderlying e) := by
  induction e with
  | underlying e ih => simpa [stripUnderlying] using ih h
  | _ => simpa [stripUnderlying] using h

theorem errnoNonzero_cause (e : Err) (h : ErrnoNonzero e) : ErrnoNonzero (cause e) := by
  induction e with
  | causer e ih => simpa [cause] using ih h
  | _ => simpa [cause] using h

theorem unwrapLoop_ne_zero (e : Err) (h : ErrnoNonzero e) : unwrapLoop e ≠ 0 := by
  induction e with
  | opError e ih => simpa [unwrapLoop] using ih h
  | syscallError e ih => simpa [unwrapLoop] using ih h
  | urlError e ih => simpa [unwrapLoop] using ih h
  | errno n => simpa [unwrapLoop, ErrnoNonzero] using h
  | _ => simp [unwrapLoop, protoCodeError]

theorem getErrno_ne_zero (e : Err) (h : ErrnoNonzero e) : getErrno e ≠ 0 := by
  unfold getErrno
  split
  · simp [timeoutErrno]
  · exact unwrapLoop_ne_zero _ (errnoNonzero_cause _ (errnoNonzero_stripUnderlying _ h))

/-- the chain, after `getErrno`'s unwrapping, ends in something that is not a `syscall.Errno` -/
def Unrecognised (e : Err) : Prop :=
  ∀ n, unwrapLoop (cause (stripUnderlying e)) = n → n = protoCodeError

/-! ### scenario loops -/

theorem shootScenario_length (scn : String) (steps : List Step)
    (hp : ∀ s ∈ steps, ∀ st, s.outcome ≠ .received st .panic) :
    (shootScenario scn steps).reports.length = executedSteps steps := by
  induction steps with
  | nil => simp [shootScenario, executedSteps]
  | cons s rest ih =>
    have ih' := ih (fun t ht => hp t (List.mem_cons_of_mem _ ht))
    have hs := hp s (List.mem_cons_self ..)
    unfold shootScenario executedSteps
    cases ho : s.outcome with
    | prepErr => simp [stepHttp, ho]
    | doErr e => simp [stepHttp, ho]
    | bodyErr st e => simp [stepHttp, ho]
    | received st post =>
      cases post with
      | ok => simp [stepHttp, ho, ih']; omega
      | err => simp [stepHttp, ho]
      | panic => exact absurd ho (hs st)

theorem shootGrpcScenario_length (scn : String) (steps : List GrpcStep) :
    (shootGrpcScenario scn steps).reports.length = executedGrpcSteps steps := by
  induction steps with
  | nil => simp [shootGrpcScenario, executedGrpcSteps]
  | cons s rest ih =>
    unfold shootGrpcScenario executedGrpcSteps
    cases ho : s.outcome with
    | prepErr => simp [stepGrpc, ho]
    | unknownMethod => simp [stepGrpc, ho]
    | badPayload => simp [stepGrpc, ho]
    | invoked c post =>
      cases post with
      | ok => simp [stepGrpc, ho, ih]; omega
      | err => simp [stepGrpc, ho]
      | panic => simp [stepGrpc, ho]

/-- no postprocessor of the scenario panics (that is property C19) -/
def NoPanic (steps : List Step) : Prop := ∀ s ∈ steps, ∀ st, s.outcome ≠ .received st .panic

theorem shootScenario_reports (scn : String) (steps : List Step) (hp : NoPanic steps) :
    (shootScenario scn steps).reports = ((steps.take (executedSteps steps)).map (stepSample scn)) ∧
    (shootScenario scn steps).panicked = false := by
  induction steps with
  | nil => simp [shootScenario, executedSteps]
  | cons s rest ih =>
    have ih' := ih (fun t ht => hp t (List.mem_cons_of_mem _ ht))
    have hs := hp s (List.mem_cons_self ..)
    unfold shootScenario executedSteps
    cases ho : s.outcome with
    | prepErr => simp [stepHttp, ho, stepSample]
    | doErr e => simp [stepHttp, ho, stepSample]
    | bodyErr st e => simp [stepHttp, ho, stepSample]
    | received st post =>
      cases post with
      | ok =>
        have : 1 + executedSteps rest = executedSteps rest + 1 := by omega
        simp [stepHttp, ho, stepSample, ih'.1, ih'.2, this]
      | err => simp [stepHttp, ho, stepSample]
      | panic => exact absurd ho (hs st)

theorem shootGrpcScenario_reports (scn : String) (steps : List GrpcStep) :
    (shootGrpcScenario scn steps).reports = ((steps.take (executedGrpcSteps steps)).map (grpcStepSample scn)) := by
  induction steps with
  | nil => simp [shootGrpcScenario, executedGrpcSteps]
  | cons s rest ih =>
    unfold shootGrpcScenario executedGrpcSteps
    cases ho : s.outcome with
    | prepErr => simp [stepGrpc, ho, grpcStepSample]
    | unknownMethod => simp [stepGrpc, ho, grpcStepSample]
    | badPayload => simp [stepGrpc, ho, grpcStepSample]
    | invoked c post =>
      cases post with
      | ok =>
        have : 1 + executedGrpcSteps rest = executedGrpcSteps rest + 1 := by omega
        simp [stepGrpc, ho, grpcStepSample, ih, this]
      | err => simp [stepGrpc, ho, grpcStepSample]
      | panic => simp [stepGrpc, ho, grpcStepSample]

theorem executedSteps_le (steps : List Step) : executedSteps steps ≤ steps.length := by
  induction steps with
  | nil => simp [executedSteps]
  | cons s rest ih =>
    unfold executedSteps
    split <;> simp <;> omega

/-- every executed step but the last one passed -/
theorem executed_prefix_passed (steps : List Step) (i : Nat) (h : i + 1 < executedSteps steps) :
    ∃ s st, steps[i]? = some s ∧ s.outcome = .received st .ok := by
  induction steps generalizing i with
  | nil => simp [executedSteps] at h
  | cons s rest ih =>
    unfold executedSteps at h
    cases ho : s.outcome with
    | received st post =>
      cases post with
      | ok =>
        simp [ho] at h
        cases i with
        | zero => exact ⟨s, st, by simp, ho⟩
        | succ j =>
          obtain ⟨s', st', h1, h2⟩ := ih j (by omega)
          exact ⟨s', st', by simpa using h1, h2⟩
      | err => simp [ho] at h
      | panic => simp [ho] at h
    | prepErr => simp [ho] at h
    | doErr e => simp [ho] at h
    | bodyErr st e => simp [ho] at h

/-! ### tags are never empty on the http guns -/

theorem addTag_ne_empty (a b : String) (hb : b ≠ "") : addTag a b ≠ "" := by
  unfold addTag
  split
  · exact hb
  · intro h
    have := congrArg String.length h
    simp [String.length_append] at this

theorem emptyTag_ne : Model.C10.emptyTag ≠ "" := by decide

theorem httpTag_ne_empty (cfg : AutoTagCfg) (t p : String) : httpTag cfg t p ≠ "" := by
  unfold httpTag
  generalize (if (cfg.enabled && (!cfg.noTagOnly || decide (t = ""))) = true then addTag t (autotag cfg.uriElements p) else t) = t1
  simp only
  by_cases h : t1 = ""
  · simp only [h, if_true]; exact addTag_ne_empty _ _ emptyTag_ne
  · simp only [h, if_false]; exact h

theorem stepTag_ne_empty (a b : String) : stepTag a b ≠ "" := by
  intro h
  have := congrArg String.length h
  simp [stepTag, String.length_append] at this

/-! ### ids -/

theorem runIds_snd {ι : Type} (c : Nat) (sched : List ι) :
    (runIds c sched).map Prod.snd = (List.range' 1 sched.length).map (fun k => (c + k) % idModulus) := by
  induction sched generalizing c with
  | nil => simp [runIds]
  | cons i rest ih =>
    simp only [runIds, nextID, List.map_cons, List.length_cons, ih]
    rw [List.range'_succ, List.map_cons]
    congr 1
    rw [← List.map_add_range' (a := 1), List.map_map]
    apply List.map_congr_left
    intro k _
    simp only [Function.comp, idModulus]
    omega

theorem runIds_fst {ι : Type} (c : Nat) (sched : List ι) :
    (runIds c sched).map Prod.fst = sched := by
  induction sched generalizing c with
  | nil => simp [runIds]
  | cons i rest ih => simp [runIds, ih]

/-- fewer than 2^64 consecutive values of a 64-bit counter are pairwise distinct -/
theorem ids_nodup (c n : Nat) (h : n ≤ idModulus) :
    ((List.range' 1 n).map (fun k => (c + k) % idModulus)).Nodup := by
  rw [List.Nodup, List.pairwise_map]
  have hp : (List.range' 1 n).Pairwise (· < ·) := List.pairwise_lt_range'
  refine List.Pairwise.imp_of_mem ?_ hp
  intro a b ha hb hab
  simp only [List.mem_range'_1] at ha hb
  simp only [idModulus] at h ⊢
  omega

theorem ids_small (c n : Nat) (h : c + n < idModulus) :
    (List.range' 1 n).map (fun k => (c + k) % idModulus) = List.range' (c + 1) n := by
  rw [← List.map_add_range' (a := c)]
  apply List.map_congr_left
  intro k hk
  simp only [List.mem_range'_1] at hk
  simp only [idModulus] at h ⊢
  rw [Nat.mod_eq_of_lt (by omega)]

theorem wrap_general (m : Nat) (hm : 1 < m) : ¬ ((List.range' 1 (m + 1)).map (fun k => (0 + k) % m)).Nodup := by
  intro h
  rw [List.Nodup, List.pairwise_iff_getElem] at h
  have := h 0 m (by simp) (by simp) (by omega)
  simp at this

/-- after 2^64 acquisitions the counter has wrapped and the first id is handed out again -/
theorem ids_wrap {ι : Type} (sched : List ι) (h : sched.length = idModulus + 1) :
    ¬ ((runIds 0 sched).map Prod.snd).Nodup := by
  rw [runIds_snd, h]
  exact wrap_general idModulus (by unfold idModulus; omega)

/-- the http gun reports exactly one sample and it carries the ammo's id -/
theorem shootHttp_one (cfg : AutoTagCfg) (s : HttpShot) (hc : s.connectHook = none) :
    ∃ r, (shootHttp cfg s).reports = [r] ∧ r.id = s.id := by
  unfold shootHttp
  rw [hc]
  by_cases hi : s.invalid = true
  · simp [hi]
  · simp only [hi]
    cases s.outcome with
    | doErr e => simp
    | response st b => cases b <;> simp
    | doPanic => simp

/-- the ids carried by the samples of a pool run are a sub-sequence of the ids handed out, one per FIRED ammo -/
theorem runPool_ids {ι : Type} (cfg : AutoTagCfg) (c : Nat) (plans : List (ι × ShotPlan)) :
    ((runPool cfg c plans).map (·.id)).Sublist ((List.range' 1 plans.length).map (fun k => (c + k) % idModulus)) ∧
    (runPool cfg c plans).length = (plans.filter (·.2.fired)).length := by
  induction plans generalizing c with
  | nil => simp [runPool]
  | cons ip rest ih =>
    obtain ⟨i, p⟩ := ip
    obtain ⟨r, hr, hid⟩ := shootHttp_one cfg (p.toShot (nextID c).2) rfl
    have htail : (List.range' (1 + 1) rest.length).map (fun k => (c + k) % idModulus)
        = (List.range' 1 rest.length).map (fun k => ((nextID c).1 + k) % idModulus) := by
      rw [← List.map_add_range' (a := 1), List.map_map]
      apply List.map_congr_left
      intro k _
      simp only [Function.comp, idModulus, nextID]
      omega
    have hhead : (c + 1) % idModulus = r.id := by rw [hid]; rfl
    simp only [runPool, List.length_cons]
    rw [List.range'_succ, List.map_cons, htail]
    by_cases hf : p.fired = true
    · simp only [hf, if_true, hr, List.cons_append, List.nil_append, List.map_cons, List.length_cons]
      refine ⟨?_, by simp [List.filter, hf, (ih (nextID c).1).2]⟩
      rw [← hhead]
      exact List.Sublist.cons_cons _ (ih (nextID c).1).1
    · simp only [hf]
      refine ⟨List.Sublist.cons _ (ih (nextID c).1).1, by simp [List.filter, hf, (ih (nextID c).1).2]⟩

end Pandora.Proofs.C10
