/-
C08 (round 2): termination of the system provider ∥ channel ∥ consumers ∥ cancel (`Model.C08Mach`).

`mu` (bounded cell, `m` = min⁺(limit, passes·n)) and `muC` (cancelled context, providers that read ctx.Err() in their
loop) are variants: EVERY enabled transition other than `cancel` makes them strictly smaller, `cancel` leaves them as
they are.  So a schedule — any schedule, no fairness — contains at most `mu init` effective steps, and an infinite
schedule that does not idle for ever while something can happen reaches a state where nothing but `cancel` can happen
(which `no_deadlock` characterises as the complete, clean end).  Core Lean only.
-/
import Pandora.Proofs.C08Conc

namespace Pandora.Proofs.C08
open Pandora.Model.C08

/-! ## consumers that have not yet seen the end of ammo -/

def waitingIn : List Nat → List Nat → Nat
  | [], _ => 0
  | x :: l, e => (if x ∈ e then 0 else 1) + waitingIn l e

def waiting (cons : Nat) (s : Sys) : Nat := waitingIn (List.range cons) s.ended

theorem waitingIn_cons_le (l : List Nat) (c : Nat) (e : List Nat) : waitingIn l (c :: e) ≤ waitingIn l e := by
  induction l with
  | nil => exact Nat.le_refl _
  | cons x l ih =>
    simp only [waitingIn]
    by_cases h : x ∈ e
    · have h1 : x ∈ c :: e := List.mem_cons_of_mem _ h
      rw [if_pos h, if_pos h1]; omega
    · rw [if_neg h]
      by_cases h1 : x ∈ c :: e
      · rw [if_pos h1]; omega
      · rw [if_neg h1]; omega

theorem waitingIn_cons_lt (l : List Nat) (c : Nat) (e : List Nat) (hc : c ∈ l) (hn : c ∉ e) :
    waitingIn l (c :: e) < waitingIn l e := by
  induction l with
  | nil => cases hc
  | cons x l ih =>
    have hle := waitingIn_cons_le l c e
    simp only [waitingIn]
    by_cases hx : x = c
    · subst hx
      have h1 : x ∈ x :: e := List.mem_cons_self
      rw [if_pos h1, if_neg hn]; omega
    · have hcl : c ∈ l := by
        rcases List.mem_cons.mp hc with h | h
        · exact absurd h.symm hx
        · exact h
      have := ih hcl
      by_cases h' : x ∈ e
      · have h1 : x ∈ c :: e := List.mem_cons_of_mem _ h'
        rw [if_pos h', if_pos h1]; omega
      · have h1 : x ∉ c :: e := by
          intro hm
          rcases List.mem_cons.mp hm with h | h
          · exact hx h
          · exact h' h
        rw [if_neg h', if_neg h1]; omega

theorem waitingIn_nil (l : List Nat) : waitingIn l [] = l.length := by
  induction l with
  | nil => rfl
  | cons x l ih => simp only [waitingIn, List.length_cons, ih]; simp; omega

theorem waitingIn_le (l : List Nat) (e : List Nat) : waitingIn l e ≤ l.length := by
  induction l with
  | nil => exact Nat.le_refl _
  | cons x l ih =>
    simp only [waitingIn, List.length_cons]
    split <;> omega

theorem waiting_eoa (cons : Nat) (s : Sys) (c : Nat) (hc : c < cons) (hn : c ∉ s.ended) :
    waiting cons { s with ended := c :: s.ended } < waiting cons s :=
  waitingIn_cons_lt (List.range cons) c s.ended (List.mem_range.mpr hc) hn

theorem waiting_init (inp : Input) (n cons : Nat) : waiting cons (Sys.init inp n) = cons := by
  simp [waiting, waitingIn_nil, Sys.init]

/-! ## the variants -/

/-- what `Run` still has to do: `R` = sends that are still possible -/
def provPart (n : Nat) (R : Nat) (s : Sys) : Nat :=
  if s.result.isSome then 0 else 6 * R + (if s.offering.isSome then 1 else 2 + tauBudget n s.ps) + 1

/-- bounded cell, `m` = the bound -/
def mu (n cons m : Nat) (s : Sys) : Nat := provPart n (m - s.sent) s + s.buf.length + waiting cons s

/-- cancelled context, provider that reads ctx.Err() in its loop: only the ammo in the select may still be sent -/
def muC (n cons : Nat) (s : Sys) : Nat :=
  (if s.result.isSome then 0 else (if s.offering.isSome then 5 else 2 + tauBudget n s.ps) + 1) + s.buf.length + waiting cons s

theorem strict_lt_of_atBound {b : Bounds} {n k m : Nat} (hs : Strict b n k) (hm : AtBound b n m) : k < m := by
  obtain ⟨_, h2⟩ := hm
  rcases h2 with ⟨h0, h1⟩ | ⟨h0, h1⟩
  · rcases hs.1 with h | h <;> omega
  · rcases hs.2 with h | h <;> omega

theorem isSome_of_eq_some {α : Type} {o : Option α} {a : α} (h : o = some a) : o.isSome = true := by simp [h]

/-- bounded cell: every enabled transition but `cancel` makes `mu` smaller; `cancel` leaves it as it is -/
theorem mu_next (inp : Input) (n cap cons m : Nat) (hn : 0 < n) (hm : AtBound inp.b n m)
    (s s' : Sys) (l : Label) (hi : SysInv inp n cap s) (h : s.next inp n cap cons l = some s') :
    (l ≠ .cancel → mu n cons m s' < mu n cons m s) ∧ mu n cons m s' ≤ mu n cons m s := by
  cases l with
  | prod =>
    obtain ⟨hres, hoff, h⟩ := next_prod_some inp n cap cons s s' h
    obtain ⟨_, hg, _⟩ := hi.running hres
    have ok := good_step inp n hn s.cancelled s.sent s.ps hg hi.below
    have key : mu n cons m s' < mu n cons m s := by
      rcases h with ⟨r, _, rfl⟩ | ⟨i, ps', _, rfl⟩ | ⟨ps', hstep, rfl⟩
      · simp [mu, provPart, hres, hoff, Sys.sent, waiting]
      · simp [mu, provPart, hres, hoff, Sys.sent, waiting]; try omega
      · have := (ok.tau ps' hstep).2
        simp [mu, provPart, hres, hoff, Sys.sent, waiting]; omega
    exact ⟨fun _ => key, Nat.le_of_lt key⟩
  | push =>
    simp only [Sys.next] at h
    cases hoff : s.offering with
    | none => rw [hoff] at h; cases h
    | some p =>
      obtain ⟨i, ps'⟩ := p
      rw [hoff] at h
      simp only at h
      by_cases hcnd : s.result.isNone = true ∧ s.buf.length < cap
      · rw [if_pos hcnd] at h; cases h
        have hres : s.result = none := by simpa using hcnd.1
        obtain ⟨_, _, ho⟩ := hi.running hres
        have hlt := strict_lt_of_atBound (ho i ps' hoff).2.1 hm
        have htb := tauBudget_le_one n ps'
        have key : mu n cons m { s with ps := ps', offering := none, buf := s.buf ++ [i] } < mu n cons m s := by
          simp only [mu, provPart, hres, hoff, Sys.sent, waiting, List.length_append, List.length_singleton,
            Option.isSome_none, Option.isSome_some, Bool.false_eq_true, if_false, if_true]
          simp only [Sys.sent] at hlt
          omega
        exact ⟨fun _ => key, Nat.le_of_lt key⟩
      · rw [if_neg hcnd] at h; cases h
  | hand c =>
    simp only [Sys.next] at h
    cases hoff : s.offering with
    | none => rw [hoff] at h; cases h
    | some p =>
      obtain ⟨i, ps'⟩ := p
      rw [hoff] at h
      simp only at h
      by_cases hcnd : s.result.isNone = true ∧ s.buf = [] ∧ c < cons ∧ c ∉ s.ended
      · rw [if_pos hcnd] at h; cases h
        have hres : s.result = none := by simpa using hcnd.1
        obtain ⟨_, _, ho⟩ := hi.running hres
        have hlt := strict_lt_of_atBound (ho i ps' hoff).2.1 hm
        have htb := tauBudget_le_one n ps'
        have key : mu n cons m { s with ps := ps', offering := none, log := s.log ++ [(c, i)] } < mu n cons m s := by
          simp only [mu, provPart, hres, hoff, Sys.sent, waiting, List.length_append, List.length_singleton,
            Option.isSome_none, Option.isSome_some, Bool.false_eq_true, if_false, if_true]
          simp only [Sys.sent] at hlt
          omega
        exact ⟨fun _ => key, Nat.le_of_lt key⟩
      · rw [if_neg hcnd] at h; cases h
  | done =>
    simp only [Sys.next] at h
    by_cases hcnd : s.result.isNone = true ∧ s.offering.isSome = true ∧ s.cancelled = true
    · rw [if_pos hcnd] at h; cases h
      have hres : s.result = none := by simpa using hcnd.1
      have key : mu n cons m { s with offering := none, result := some (doneResOf inp.kind), closed := true } < mu n cons m s := by
        simp [mu, provPart, hres, Sys.sent, waiting]
      exact ⟨fun _ => key, Nat.le_of_lt key⟩
    · rw [if_neg hcnd] at h; cases h
  | recv c =>
    simp only [Sys.next] at h
    cases hbuf : s.buf with
    | nil => rw [hbuf] at h; cases h
    | cons i rest =>
      rw [hbuf] at h
      simp only at h
      by_cases hcnd : c < cons ∧ c ∉ s.ended
      · rw [if_pos hcnd] at h; cases h
        have key : mu n cons m { s with buf := rest, log := s.log ++ [(c, i)] } < mu n cons m s := by
          have e : m - (s.log.length + 1 + rest.length) = m - (s.log.length + (rest.length + 1)) := by omega
          by_cases hr : s.result.isSome = true <;> by_cases ho : s.offering.isSome = true <;>
            simp [mu, provPart, Sys.sent, waiting, hbuf, hr, ho, e] <;> omega
        exact ⟨fun _ => key, Nat.le_of_lt key⟩
      · rw [if_neg hcnd] at h; cases h
  | eoa c =>
    simp only [Sys.next] at h
    by_cases hcnd : s.closed = true ∧ s.buf = [] ∧ c < cons ∧ c ∉ s.ended
    · rw [if_pos hcnd] at h; cases h
      have hw := waiting_eoa cons s c hcnd.2.2.1 hcnd.2.2.2
      have key : mu n cons m { s with ended := c :: s.ended } < mu n cons m s := by
        simp only [mu, provPart, Sys.sent] at hw ⊢
        omega
      exact ⟨fun _ => key, Nat.le_of_lt key⟩
    · rw [if_neg hcnd] at h; cases h
  | cancel =>
    simp only [Sys.next] at h
    cases h
    exact ⟨fun h => absurd rfl h, by simp [mu, provPart, Sys.sent, waiting]⟩

/-- cancelled context, provider that reads ctx.Err(): every enabled transition but `cancel` makes `muC` smaller -/
theorem muC_next (inp : Input) (n cap cons : Nat) (hn : 0 < n) (ht : inp.kind.ctxTop = true)
    (s s' : Sys) (l : Label) (hi : SysInv inp n cap s) (hc : s.cancelled = true)
    (h : s.next inp n cap cons l = some s') :
    (l ≠ .cancel → muC n cons s' < muC n cons s) ∧ muC n cons s' ≤ muC n cons s ∧ s'.cancelled = true := by
  have hc' := (pot_next_cancelled inp n cap cons hn ht s s' l hi hc h).2
  cases l with
  | prod =>
    obtain ⟨hres, hoff, h⟩ := next_prod_some inp n cap cons s s' h
    obtain ⟨_, hg, _⟩ := hi.running hres
    have ok := good_step inp n hn s.cancelled s.sent s.ps hg hi.below
    have key : muC n cons s' < muC n cons s := by
      rcases h with ⟨r, _, rfl⟩ | ⟨i, ps', hstep, rfl⟩ | ⟨ps', hstep, rfl⟩
      · simp [muC, hres, hoff, waiting]
      · rw [hc] at hstep
        exact absurd hstep (ctxTop_no_offer inp n hn s.sent s.ps hg ht i ps')
      · have := (ok.tau ps' hstep).2
        simp [muC, hres, hoff, waiting]; omega
    exact ⟨fun _ => key, Nat.le_of_lt key, hc'⟩
  | push =>
    simp only [Sys.next] at h
    cases hoff : s.offering with
    | none => rw [hoff] at h; cases h
    | some p =>
      obtain ⟨i, ps'⟩ := p
      rw [hoff] at h
      simp only at h
      by_cases hcnd : s.result.isNone = true ∧ s.buf.length < cap
      · rw [if_pos hcnd] at h; cases h
        have hres : s.result = none := by simpa using hcnd.1
        have htb := tauBudget_le_one n ps'
        have key : muC n cons { s with ps := ps', offering := none, buf := s.buf ++ [i] } < muC n cons s := by
          simp only [muC, hres, hoff, waiting, List.length_append, List.length_singleton,
            Option.isSome_none, Option.isSome_some, Bool.false_eq_true, if_false, if_true]
          omega
        exact ⟨fun _ => key, Nat.le_of_lt key, hc'⟩
      · rw [if_neg hcnd] at h; cases h
  | hand c =>
    simp only [Sys.next] at h
    cases hoff : s.offering with
    | none => rw [hoff] at h; cases h
    | some p =>
      obtain ⟨i, ps'⟩ := p
      rw [hoff] at h
      simp only at h
      by_cases hcnd : s.result.isNone = true ∧ s.buf = [] ∧ c < cons ∧ c ∉ s.ended
      · rw [if_pos hcnd] at h; cases h
        have hres : s.result = none := by simpa using hcnd.1
        have htb := tauBudget_le_one n ps'
        have key : muC n cons { s with ps := ps', offering := none, log := s.log ++ [(c, i)] } < muC n cons s := by
          simp only [muC, hres, hoff, waiting,
            Option.isSome_none, Option.isSome_some, Bool.false_eq_true, if_false, if_true]
          omega
        exact ⟨fun _ => key, Nat.le_of_lt key, hc'⟩
      · rw [if_neg hcnd] at h; cases h
  | done =>
    simp only [Sys.next] at h
    by_cases hcnd : s.result.isNone = true ∧ s.offering.isSome = true ∧ s.cancelled = true
    · rw [if_pos hcnd] at h; cases h
      have hres : s.result = none := by simpa using hcnd.1
      have key : muC n cons { s with offering := none, result := some (doneResOf inp.kind), closed := true } < muC n cons s := by
        simp [muC, hres, waiting]
      exact ⟨fun _ => key, Nat.le_of_lt key, hc'⟩
    · rw [if_neg hcnd] at h; cases h
  | recv c =>
    simp only [Sys.next] at h
    cases hbuf : s.buf with
    | nil => rw [hbuf] at h; cases h
    | cons i rest =>
      rw [hbuf] at h
      simp only at h
      by_cases hcnd : c < cons ∧ c ∉ s.ended
      · rw [if_pos hcnd] at h; cases h
        have key : muC n cons { s with buf := rest, log := s.log ++ [(c, i)] } < muC n cons s := by
          simp only [muC, waiting, hbuf, List.length_cons]
          omega
        exact ⟨fun _ => key, Nat.le_of_lt key, hc'⟩
      · rw [if_neg hcnd] at h; cases h
  | eoa c =>
    simp only [Sys.next] at h
    by_cases hcnd : s.closed = true ∧ s.buf = [] ∧ c < cons ∧ c ∉ s.ended
    · rw [if_pos hcnd] at h; cases h
      have hw := waiting_eoa cons s c hcnd.2.2.1 hcnd.2.2.2
      have key : muC n cons { s with ended := c :: s.ended } < muC n cons s := by
        simp only [muC] at hw ⊢
        omega
      exact ⟨fun _ => key, Nat.le_of_lt key, hc'⟩
    · rw [if_neg hcnd] at h; cases h
  | cancel =>
    simp only [Sys.next] at h
    cases h
    exact ⟨fun h => absurd rfl h, by simp [muC, waiting], rfl⟩

/-! ## counting the steps of a schedule that really happen -/

/-- number of labels of the schedule that were enabled when their turn came, `cancel` not counted -/
def effSteps (inp : Input) (n cap cons : Nat) : Sys → List Label → Nat
  | _, [] => 0
  | s, l :: ls =>
    match s.next inp n cap cons l with
    | some s' => (if l = .cancel then 0 else 1) + effSteps inp n cap cons s' ls
    | none => effSteps inp n cap cons s ls

theorem effSteps_le_mu (inp : Input) (n cap cons m : Nat) (hn : 0 < n) (hm : AtBound inp.b n m) (ls : List Label) :
    ∀ s, SysInv inp n cap s → effSteps inp n cap cons s ls + mu n cons m (s.run inp n cap cons ls) ≤ mu n cons m s := by
  induction ls with
  | nil => intro s _; simp [effSteps, Sys.run]
  | cons l ls ih =>
    intro s hi
    rw [run_cons]
    cases hnext : s.next inp n cap cons l with
    | none =>
      simp only [effSteps, hnext, Option.getD_none]
      exact ih s hi
    | some s' =>
      have hi' := sysInv_next inp n cap cons hn s s' l hi hnext
      obtain ⟨h1, h2⟩ := mu_next inp n cap cons m hn hm s s' l hi hnext
      have := ih s' hi'
      simp only [effSteps, hnext, Option.getD_some]
      by_cases hl : l = .cancel
      · simp only [hl, if_true]; omega
      · have := h1 hl
        simp only [hl, if_false]; omega

theorem effSteps_le_muC (inp : Input) (n cap cons : Nat) (hn : 0 < n) (ht : inp.kind.ctxTop = true) (ls : List Label) :
    ∀ s, SysInv inp n cap s → s.cancelled = true →
      effSteps inp n cap cons s ls + muC n cons (s.run inp n cap cons ls) ≤ muC n cons s := by
  induction ls with
  | nil => intro s _ _; simp [effSteps, Sys.run]
  | cons l ls ih =>
    intro s hi hc
    rw [run_cons]
    cases hnext : s.next inp n cap cons l with
    | none =>
      simp only [effSteps, hnext, Option.getD_none]
      exact ih s hi hc
    | some s' =>
      have hi' := sysInv_next inp n cap cons hn s s' l hi hnext
      obtain ⟨h1, h2, h3⟩ := muC_next inp n cap cons hn ht s s' l hi hc hnext
      have := ih s' hi' h3
      simp only [effSteps, hnext, Option.getD_some]
      by_cases hl : l = .cancel
      · simp only [hl, if_true]; omega
      · have := h1 hl
        simp only [hl, if_false]; omega

theorem mu_init_le (inp : Input) (n cons m : Nat) : mu n cons m (Sys.init inp n) ≤ 6 * m + cons + 4 := by
  have := tauBudget_le_one n (initSt inp n)
  have hw := waiting_init inp n cons
  simp only [mu, provPart]
  rw [hw]
  simp [Sys.init, Sys.sent]
  omega

/-! ## infinite schedules -/

/-- the state after the first `t` labels of the infinite schedule `σ` -/
def stateAt (inp : Input) (n cap cons : Nat) (σ : Nat → Label) : Nat → Sys
  | 0 => Sys.init inp n
  | t + 1 => ((stateAt inp n cap cons σ t).next inp n cap cons (σ t)).getD (stateAt inp n cap cons σ t)

/-- nothing but a cancel can happen -/
def Stuck (inp : Input) (n cap cons : Nat) (s : Sys) : Prop := ∀ l, l ≠ Label.cancel → s.next inp n cap cons l = none

/-- minimal progress: the schedule does not idle for ever while some transition other than `cancel` is enabled
(weaker than weak fairness: it does not say WHICH enabled transition is taken) -/
def Progressing (inp : Input) (n cap cons : Nat) (σ : Nat → Label) : Prop :=
  ∀ t, ¬ Stuck inp n cap cons (stateAt inp n cap cons σ t) →
    ∃ t', t ≤ t' ∧ σ t' ≠ .cancel ∧ ((stateAt inp n cap cons σ t').next inp n cap cons (σ t')).isSome = true

theorem stateAt_inv (inp : Input) (n cap cons : Nat) (hn : 0 < n) (σ : Nat → Label) :
    ∀ t, SysInv inp n cap (stateAt inp n cap cons σ t) := by
  intro t
  induction t with
  | zero => exact sysInv_init inp n cap hn
  | succ t ih =>
    simp only [stateAt]
    cases hnext : (stateAt inp n cap cons σ t).next inp n cap cons (σ t) with
    | none => simpa using ih
    | some s' => simpa using sysInv_next inp n cap cons hn _ s' _ ih hnext

theorem stateAt_mu_step (inp : Input) (n cap cons m : Nat) (hn : 0 < n) (hm : AtBound inp.b n m) (σ : Nat → Label) (t : Nat) :
    mu n cons m (stateAt inp n cap cons σ (t + 1)) ≤ mu n cons m (stateAt inp n cap cons σ t) ∧
    (σ t ≠ .cancel → ((stateAt inp n cap cons σ t).next inp n cap cons (σ t)).isSome = true →
      mu n cons m (stateAt inp n cap cons σ (t + 1)) < mu n cons m (stateAt inp n cap cons σ t)) := by
  have hi := stateAt_inv inp n cap cons hn σ t
  simp only [stateAt]
  cases hnext : (stateAt inp n cap cons σ t).next inp n cap cons (σ t) with
  | none => simp
  | some s' =>
    obtain ⟨h1, h2⟩ := mu_next inp n cap cons m hn hm _ s' _ hi hnext
    simp only [Option.getD_some, Option.isSome_some]
    exact ⟨h2, fun hl _ => h1 hl⟩

theorem stateAt_mu_mono (inp : Input) (n cap cons m : Nat) (hn : 0 < n) (hm : AtBound inp.b n m) (σ : Nat → Label) (t : Nat) :
    ∀ j, mu n cons m (stateAt inp n cap cons σ (t + j)) ≤ mu n cons m (stateAt inp n cap cons σ t) := by
  intro j
  induction j with
  | zero => exact Nat.le_refl _
  | succ j ih => exact Nat.le_trans (stateAt_mu_step inp n cap cons m hn hm σ (t + j)).1 ih

/-- **termination of a bounded cell**: an infinite schedule that makes minimal progress reaches a state in which
nothing but a cancel can happen -/
theorem progressing_reaches_stuck (inp : Input) (n cap cons m : Nat) (hn : 0 < n) (hm : AtBound inp.b n m)
    (σ : Nat → Label) (hp : Progressing inp n cap cons σ) :
    ∃ t, Stuck inp n cap cons (stateAt inp n cap cons σ t) := by
  apply Classical.byContradiction
  intro hno
  have hns : ∀ t, ¬ Stuck inp n cap cons (stateAt inp n cap cons σ t) := fun t h => hno ⟨t, h⟩
  have key : ∀ k, ∃ t, mu n cons m (stateAt inp n cap cons σ t) + k ≤ mu n cons m (stateAt inp n cap cons σ 0) := by
    intro k
    induction k with
    | zero => exact ⟨0, Nat.le_refl _⟩
    | succ k ih =>
      obtain ⟨t, ht⟩ := ih
      obtain ⟨t', hle, hl, hen⟩ := hp t (hns t)
      obtain ⟨j, rfl⟩ : ∃ j, t' = t + j := ⟨t' - t, by omega⟩
      have h1 := stateAt_mu_mono inp n cap cons m hn hm σ t j
      have h2 := (stateAt_mu_step inp n cap cons m hn hm σ (t + j)).2 hl hen
      exact ⟨t + j + 1, by omega⟩
  obtain ⟨t, ht⟩ := key (mu n cons m (stateAt inp n cap cons σ 0) + 1)
  omega

/-- the state after `t` labels of `σ` is the state `Sys.run` reaches with the list of these labels -/
theorem stateAt_eq_run (inp : Input) (n cap cons : Nat) (σ : Nat → Label) (t : Nat) :
    stateAt inp n cap cons σ t = (Sys.init inp n).run inp n cap cons ((List.range t).map σ) := by
  induction t with
  | zero => simp [stateAt, Sys.run]
  | succ t ih =>
    simp only [stateAt, List.range_succ, List.map_append, List.map_cons, List.map_nil, Sys.run, List.foldl_append,
      List.foldl_cons, List.foldl_nil]
    simp only [Sys.run] at ih
    rw [← ih]

/-! ## without fairness a provider that does not read ctx.Err() may go on sending after a cancel

grpc/json (and the generic JSON provider) notice a cancel only in the `select`; a scheduler that always lets the send
win (a consumer is ready every time) keeps them going.  Go's `select` picks uniformly among the ready cases, so `k`
further sends have probability 2^-k — outside this (possibilistic) model. -/

def grpcUnbounded : Input := ⟨.grpcJson, false, ⟨0, 0⟩, none⟩

/-- after `j` rounds: pass `p`, at the start of the file, `a` ammo sent and acquired, context cancelled -/
def grpcSpinState (p a : Nat) (log : List (Nat × Nat)) : Sys :=
  { ps := .grpc ⟨p, 0, a⟩, cancelled := true, log := log }

/-- one round: an iteration offers the only entry, the consumer takes it, an iteration wraps to the next pass -/
def grpcRound : List Label := [.prod, .hand 0, .prod]

theorem grpcRound_run (p a : Nat) (log : List (Nat × Nat)) :
    (grpcSpinState p a log).run grpcUnbounded 1 grpcUnbounded.kind.chanCap 1 grpcRound =
      grpcSpinState (p + 1) (a + 1) (log ++ [(0, 0)]) := by
  simp [grpcSpinState, grpcRound, grpcUnbounded, Sys.run, Sys.next, stepOf, grpcStep, liftAct]

def grpcRounds : Nat → List Label
  | 0 => []
  | k + 1 => grpcRound ++ grpcRounds k

theorem run_append' (inp : Input) (n cap cons : Nat) (s : Sys) (l1 l2 : List Label) :
    s.run inp n cap cons (l1 ++ l2) = (s.run inp n cap cons l1).run inp n cap cons l2 := by
  simp [Sys.run, List.foldl_append]

theorem grpcRounds_run (k : Nat) : ∀ (p a : Nat) (log : List (Nat × Nat)),
    ((grpcSpinState p a log).run grpcUnbounded 1 grpcUnbounded.kind.chanCap 1 (grpcRounds k)).sent = log.length + k := by
  induction k with
  | zero => intro p a log; simp [grpcRounds, Sys.run, Sys.sent, grpcSpinState]
  | succ k ih =>
    intro p a log
    rw [grpcRounds, run_append', grpcRound_run, ih]
    simp; omega

/-- grpc/json, unbounded, one entry, one consumer: after a cancel at the very start, `k` more ammo are sent for every `k` -/
theorem grpc_sends_after_cancel (k : Nat) :
    (reach grpcUnbounded 1 1 ([] ++ Label.cancel :: grpcRounds k)).sent = k := by
  have h0 : reach grpcUnbounded 1 1 ([] ++ Label.cancel :: grpcRounds k) =
      (grpcSpinState 1 0 []).run grpcUnbounded 1 grpcUnbounded.kind.chanCap 1 (grpcRounds k) := by
    simp [reach, Sys.run, Sys.next, Sys.init, initSt, grpcUnbounded, grpcSpinState, GrpcSt.init]
  rw [h0, grpcRounds_run]; simp

end Pandora.Proofs.C08
