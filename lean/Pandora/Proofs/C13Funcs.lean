/-
C13 — lemmas about the helper-function models: every slice / index / remainder / Intn in the
repaired functions is shown to be within its bounds.
-/
import Pandora.Model.C13Funcs
import Pandora.Proofs.C13Base

namespace Pandora.Proofs.C13
open Pandora.Model.C13

@[simp] theorem Res.bind_ok {α β} (a : α) (f : α → Res β) : (Res.ok a).bind f = f a := rfl

theorem ret_ok {α} (a : α) : (Res.ok a : Res α).returns = true := by simp [Res.returns, Res.isPanic, Res.isFatal]
theorem ret_err {α} (c : String) : (Res.err c : Res α).returns = true := by simp [Res.returns, Res.isPanic, Res.isFatal]

/-! ### `str.ParseStringFunc` -/

theorem parseStringFunc_returns (shoot : Bytes) : (parseStringFunc shoot).returns = true := by
  unfold parseStringFunc
  simp only
  by_cases h1 : indexByte shoot 40 = -1
  · simp only [h1, if_true]
    split <;> simp [Res.returns, Res.isPanic, Res.isFatal]
  · simp only [h1, if_false]
    -- shoot[:openIdx] and shoot[openIdx+1:]: 0 ≤ openIdx < len(shoot)
    rcases indexByte_bounds shoot 40 with hneg | ⟨h0, hlt⟩
    · exact absurd hneg h1
    · rw [sliceC_ok shoot 0 (indexByte shoot 40) (by omega)]
      rw [sliceC_ok shoot (indexByte shoot 40 + 1) shoot.length (by omega)]
      simp only [Res.bind_ok]
      split
      · exact ret_err _
      · rename_i hc
        -- arg[:closeIdx]: closeIdx = len(arg)-1 and closeIdx ≠ -1, so 0 ≤ closeIdx ≤ len(arg)
        have hc' := not_or.mp hc
        have e1 := Decidable.of_not_not hc'.1
        rcases indexByte_bounds (trimSpace ((shoot.take (Int.toNat (shoot.length : Int))).drop (indexByte shoot 40 + 1).toNat)) 41 with hneg | ⟨c0, clt⟩
        · exact absurd hneg hc'.2
        · rw [sliceC_ok _ 0 _ (by omega)]
          simp only [Res.bind_ok]
          exact ret_ok _

/-! ### `ParseShootName` -/

theorem argInt_returns (args : List Bytes) (i : Nat) (d : Int) : (argInt args i d).returns = true := by
  unfold argInt
  split
  · rename_i hl
    -- args[i] is guarded by len(args) > i
    obtain ⟨a, ha⟩ := indexC_ok args (i : Int) (by omega) (by omega)
    rw [ha]; simp only
    split
    · exact ret_ok _
    · split
      · exact ret_err _
      · exact ret_ok _
  · exact ret_ok _

theorem parseShootName_returns (shoot : Bytes) : (parseShootName shoot).returns = true := by
  unfold parseShootName
  rcases returns_cases' (parseStringFunc_returns shoot) with ⟨a, ha⟩ | ⟨c, hc⟩
  · obtain ⟨name, args⟩ := a
    rw [ha]; simp only
    rcases returns_cases' (argInt_returns (args.getD []) 0 1) with ⟨a0, h0⟩ | ⟨c0, h0⟩
    · rw [h0]; simp only
      rcases returns_cases' (argInt_returns (args.getD []) 1 0) with ⟨a1, h1⟩ | ⟨c1, h1⟩
      · rw [h1]; exact ret_ok _
      · rw [h1]; exact ret_err _
    · rw [h0]; exact ret_err _
  · rw [hc]; exact ret_err _
where
  returns_cases' {α} {r : Res α} (h : r.returns = true) : (∃ a, r = .ok a) ∨ (∃ c, r = .err c) := by
    cases r with
    | ok a => exact .inl ⟨a, rfl⟩
    | err c => exact .inr ⟨c, rfl⟩
    | panic w => simp [Res.returns, Res.isPanic] at h
    | fatal w => simp [Res.returns, Res.isPanic, Res.isFatal] at h

theorem ret_cases {α} {r : Res α} (h : r.returns = true) : (∃ a, r = .ok a) ∨ (∃ c, r = .err c) :=
  parseShootName_returns.returns_cases' h

/-! ### scenario expansion -/

theorem addSleep_fixed_returns (acc : List ScnStep) (cnt : Int) : (addSleep true acc cnt).returns = true := by
  unfold addSleep
  cases acc with
  | nil => simp [Res.returns, Res.isPanic, Res.isFatal]
  | cons hd tl => obtain ⟨n, s⟩ := hd; simp [Res.returns, Res.isPanic, Res.isFatal]

theorem expandGo_fixed_returns (known : Bytes → Bool) (reqs : List Bytes) (acc : List ScnStep) :
    (expandGo true known reqs acc).returns = true := by
  induction reqs generalizing acc with
  | nil => simp [expandGo, Res.returns, Res.isPanic, Res.isFatal]
  | cons sh rest ih =>
    unfold expandGo
    rcases ret_cases (parseShootName_returns sh) with ⟨a, ha⟩ | ⟨c, hc⟩
    · obtain ⟨name, cnt, sleep⟩ := a
      rw [ha]; simp only
      split
      · rcases ret_cases (addSleep_fixed_returns acc cnt) with ⟨a', h'⟩ | ⟨c', h'⟩
        · rw [h']; simp only; exact ih a'
        · rw [h']; exact ret_err _
      · split
        · exact ret_err _
        · exact ih _
    · rw [hc]; exact ret_err _

/-- a request string that is rejected whatever has been built so far makes the whole list rejected -/
theorem expandGo_rejects (fixed : Bool) (known : Bytes → Bool) (pre : List Bytes) (sh : Bytes) (rest : List Bytes)
    (hbad : ∀ acc, (expandGo fixed known (sh :: rest) acc).isOk = false) (acc : List ScnStep) :
    (expandGo fixed known (pre ++ sh :: rest) acc).isOk = false := by
  induction pre generalizing acc with
  | nil => simpa using hbad acc
  | cons p ps ih =>
    simp only [List.cons_append]
    unfold expandGo
    cases hp : parseShootName p with
    | ok a =>
      obtain ⟨name, cnt, sleep⟩ := a
      simp only
      split
      · cases hs : addSleep fixed acc cnt with
        | ok acc' => simp only; exact ih acc'
        | err c => simp [Res.isOk]
        | panic w => simp [Res.isOk]
        | fatal w => simp [Res.isOk]
      · split
        · simp [Res.isOk]
        · exact ih _
    | err c => simp [Res.isOk]
    | panic w => simp [Res.isOk]
    | fatal w => simp [Res.isOk]

/-! ### `calcIndex` -/

theorem tmod_range (a b : Int) (hb : 0 < b) :
    let m := Int.tmod a b
    0 ≤ (if m < 0 then m + b else m) ∧ (if m < 0 then m + b else m) < b := by
  have h1 := Int.tmod_lt_of_pos a hb
  have h2 : -b < Int.tmod a b := by
    have := Int.lt_tmod_of_pos a hb
    omega
  simp only
  split <;> omega

/-- repaired `calcIndex`: never panics, and an index it returns is inside the slice -/
theorem calcIndex_fixed (indexStr : Bytes) (length next : Int) (rnd : Nat) (hnext : 0 ≤ next) :
    (∃ c, calcIndex true indexStr length next rnd = .err c) ∨
    (∃ i, calcIndex true indexStr length next rnd = .ok i ∧ 0 ≤ i ∧ i < length) := by
  unfold calcIndex
  simp only
  split
  · left; exact ⟨_, rfl⟩
  · split
    · left; exact ⟨_, rfl⟩
    · rename_i hlen
      have hpos : 0 < length := by
        simp at hlen; omega
      split
      · split
        · rename_i hin; right; exact ⟨_, rfl, hin.1, hin.2⟩
        · rw [tmodC_ok _ _ (by omega)]
          right
          have := tmod_range ((atoi indexStr).getD 0) length hpos
          exact ⟨_, rfl, this.1, this.2⟩
      · split
        · right; exact ⟨_, rfl, by omega, by omega⟩
        · split
          · rw [intnC_ok _ _ hpos]
            right
            refine ⟨_, rfl, ?_, ?_⟩
            · exact Int.emod_nonneg _ (by omega)
            · exact Int.emod_lt_of_pos _ hpos
          · split
            · rw [tmodC_ok _ _ (by omega)]
              right
              refine ⟨_, rfl, ?_, ?_⟩
              · exact Int.tmod_nonneg _ hnext
              · exact Int.tmod_lt_of_pos _ hpos
            · rename_i hge
              right; exact ⟨_, rfl, hnext, by omega⟩

/-- `[anything]` on an empty source is an error in the repaired code -/
theorem calcIndex_fixed_empty (indexStr : Bytes) (next : Int) (rnd : Nat) :
    ∃ c, calcIndex true indexStr 0 next rnd = .err c := by
  unfold calcIndex
  simp only
  split
  · exact ⟨_, rfl⟩
  · refine ⟨"empty", ?_⟩
    simp

theorem iterNext_nonneg (st : IterState) (seg : Bytes) : 0 ≤ (iterNext st seg).1 := by
  unfold iterNext
  split <;> simp <;> omega

theorem extractFromSlice_fixed_returns (cur : Val) (indexStr curSeg : Bytes) (st : IterState) (rnd : Nat) :
    (extractFromSlice true cur indexStr curSeg st rnd).1.returns = true := by
  unfold extractFromSlice
  split
  · rename_i elems
    simp only
    generalize hit : (if (usesNext indexStr && !(true && elems.length == 0)) = true then iterNext st curSeg else (0, st)) = it
    have hnn : 0 ≤ it.1 := by
      rw [← hit]
      split
      · exact iterNext_nonneg st curSeg
      · simp
    rcases calcIndex_fixed indexStr elems.length it.1 rnd hnn with ⟨c, hc⟩ | ⟨i, hi, h0, h1⟩
    · rw [hc]; simp [Res.castFail, Res.returns, Res.isPanic, Res.isFatal]
    · rw [hi]; simp only
      -- v[index]: 0 ≤ index < len(v)
      obtain ⟨a, ha⟩ := indexC_ok elems i h0 h1
      rw [ha]; exact ret_ok _
  · exact ret_err _

/-! ### `GetMapValue` -/

theorem hasSuffix_last (s : Bytes) (c : UInt8) (h : hasSuffix s [c] = true) :
    ∃ hpos : 0 < s.length, s[s.length - 1] = c := by
  unfold hasSuffix at h
  have := List.isSuffixOf_iff_suffix.mp h
  obtain ⟨t, ht⟩ := this
  subst ht
  refine ⟨by simp, ?_⟩
  simp

theorem getGo_fixed_returns (rnd : Nat) (segs : List Bytes) (s : MpState) :
    (getGo true rnd segs s).1.returns = true := by
  induction segs generalizing s with
  | nil => simp [getGo, Res.returns, Res.isPanic, Res.isFatal]
  | cons segment rest ih =>
    unfold getGo
    simp only
    split
    · rename_i hcond
      simp only [Bool.and_eq_true, decide_eq_true_eq] at hcond
      obtain ⟨hopen, hsuf⟩ := hcond
      -- segment[openBraceIdx+1 : len(segment)-1] and segment[:openBraceIdx]:
      -- segment ends with ']' and its first '[' is at openBraceIdx, so openBraceIdx ≤ len(segment)-2
      obtain ⟨i, hi, hil, hget⟩ := indexByte_get (trimSpace segment) 91 hopen
      obtain ⟨hpos, hlast⟩ := hasSuffix_last (trimSpace segment) 93 hsuf
      have hne : i ≠ (trimSpace segment).length - 1 := by
        intro h
        have : (trimSpace segment)[i] = (trimSpace segment)[(trimSpace segment).length - 1] := by
          congr
        rw [hget, hlast] at this
        exact absurd this (by decide)
      rw [sliceC_ok _ (indexByte (trimSpace segment) 91 + 1) _ (by omega)]
      simp only
      rw [sliceC_ok _ 0 _ (by omega)]
      simp only
      split
      · exact ret_err _
      · rename_i pathVal hl
        have hx := fun idx seg => extractFromSlice_fixed_returns pathVal idx seg s.st rnd
        split
        · exact ih _
        · split
          · rename_i heq _
            have := congrArg (fun p => p.1.returns) heq
            simp only at this
            rw [hx] at this
            simpa using this.symm
          · exact ret_err _
        · rename_i r st' _ _ heq
          have := congrArg (fun p => p.1.returns) heq
          simp only at this
          rw [hx] at this
          simpa using this.symm
    · split
      · exact ret_err _
      · exact ih _
      · split
        · exact ret_ok _
        · exact ret_err _

/-! ### property placeholder -/

theorem propScan_returns (property : Bytes) (lines : List Bytes) : (propScan property lines).returns = true := by
  induction lines with
  | nil => exact ret_err _
  | cons l ls ih =>
    unfold propScan
    split
    · split
      · exact ret_ok _
      · exact ih
    · exact ih

theorem propertyResolve_fixed_returns (fileOf : Bytes → Option (List Bytes)) (inp : Bytes) :
    (propertyResolve true fileOf inp).returns = true := by
  unfold propertyResolve
  cases hc : cut inp 35 with
  | none => simp [ret_err]
  | some p =>
    obtain ⟨a, b⟩ := p
    -- split[0], split[1]: the list has two elements
    simp [indexC_zero, indexC_one]
    split
    · exact ret_err _
    · exact propScan_returns _ _

/-- `${property:file}` without `#`: the repaired resolver answers with an error -/
theorem propertyResolve_fixed_no_hash (fileOf : Bytes → Option (List Bytes)) (inp : Bytes)
    (h : cut inp 35 = none) : propertyResolve true fileOf inp = .err "format" := by
  unfold propertyResolve
  simp [h]

theorem resolveGo_fixed_returns (env : Bytes → Option Bytes) (fileOf : Bytes → Option (List Bytes))
    (tags : List Tag) (res : Bytes) : (resolveGo true env fileOf tags res).returns = true := by
  induction tags generalizing res with
  | nil => exact ret_ok _
  | cons t ts ih =>
    unfold resolveGo
    simp only
    split
    · split
      · exact ret_err _
      · exact ih _
    · split
      · rcases ret_cases (propertyResolve_fixed_returns fileOf t.varname) with ⟨v, hv⟩ | ⟨c, hc⟩
        · rw [hv]; simp only; exact ih _
        · rw [hc]; exact ret_err _
      · exact ih _

/-! ### `randInt` -/

theorem wrap64_id (x : Int) (h0 : minInt64 ≤ x) (h1 : x ≤ maxInt64) : wrap64 x = x := by
  unfold wrap64 minInt64 maxInt64 at *
  omega

theorem randInt_fixed_returns (f t : Int) (rnd : Nat) : (randInt true f t rnd).returns = true := by
  unfold randInt
  simp only
  generalize randIntBounds true f t = b
  by_cases hd : wrap64 (b.2 - b.1) ≤ 0
  · simp [hd, ret_err]
  · -- rand.Int63n(t - f): the argument is positive
    simp only [hd, Bool.true_and, decide_false, Bool.false_eq_true, if_false]
    rw [intnC_ok _ _ (by omega)]
    exact ret_ok _

/-! ### `readConfig` -/

theorem massageItems_fixed (items : List PoolItem) : ∃ l, massageItems true items = .ok l := by
  induction items with
  | nil => exact ⟨[], rfl⟩
  | cons i rest ih =>
    obtain ⟨l, hl⟩ := ih
    cases i with
    | mapping d => exact ⟨.mapping true :: l, by simp [massageItems, hl]⟩
    | other => exact ⟨.other :: l, by simp [massageItems, hl]⟩

theorem massagePools_fixed (p : PoolsVal) : ∃ v, massagePools true p = .ok v := by
  cases p with
  | absent => exact ⟨.absent, by simp [massagePools]⟩
  | notList => exact ⟨.notList, by simp [massagePools]⟩
  | list items =>
    obtain ⟨l, hl⟩ := massageItems_fixed items
    exact ⟨.list l, by simp [massagePools, hl]⟩

end Pandora.Proofs.C13
