/-
C13 — lemmas about the helper-function models: every slice / index / remainder / Intn in the
repaired functions is shown to be within its bounds.
-/
import Pandora.Model.C13Funcs
import Pandora.Proofs.C13Base

namespace Pandora.Proofs.C13
open Pandora.Model.C13

@[simp] theorem Res.bind_ok {α β} (a : α) (f : α → Res β) : (Res.ok a).bind f = f a := rfl

theorem ret_ok {α} (a : α) : (Res.ok a : Res α).returns = true := by simp [Res.returns, Res.isPanic, Res.isFatal]
theorem ret_err {α} (c : String) : (Res.err c : Res α).returns = true := by simp [Res.returns, Res.isPanic, Res.isFatal]

/-! ### `str.ParseStringFunc` -/

theorem parseStringFunc_returns (shoot : Bytes) : (parseStringFunc shoot).returns = true := by
  unfold parseStringFunc
  simp only
  by_cases h1 : indexByte shoot 40 = -1
  · simp only [h1, if_true]
    split <;> simp [Res.returns, Res.isPanic, Res.isFatal]
  · simp only [h1, if_false]
    -- shoot[:openIdx] and shoot[openIdx+1:]: 0 ≤ openIdx < len(shoot)
    rcases indexByte_bounds shoot 40 with hneg | ⟨h0, hlt⟩
    · exact absurd hneg h1
    · rw [sliceC_ok shoot 0 (indexByte shoot 40) (by omega)]
      rw [sliceC_ok shoot (indexByte shoot 40 + 1) shoot.length (by omega)]
      simp only [Res.bind_ok]
      split
      · exact ret_err _
      · rename_i hc
        -- arg[:closeIdx]: closeIdx = len(arg)-1 and closeIdx ≠ -1, so 0 ≤ closeIdx ≤ len(arg)
        have hc' := not_or.mp hc
        have e1 := Decidable.of_not_not hc'.1
        rcases indexByte_bounds (trimSpace ((shoot.take (Int.toNat (shoot.length : Int))).drop (indexByte shoot 40 + 1).toNat)) 41 with hneg | ⟨c0, clt⟩
        · exact absurd hneg hc'.2
        · rw [sliceC_ok _ 0 _ (by omega)]
          simp only [Res.bind_ok]
          exact ret_ok _

/-! ### `ParseShootName` -/

theorem argInt_returns (args : List Bytes) (i : Nat) (d : Int) : (argInt args i d).returns = true := by
  unfold argInt
  split
  · rename_i hl
    -- args[i] is guarded by len(args) > i
    obtain ⟨a, ha⟩ := indexC_ok args (i : Int) (by omega) (by omega)
    rw [ha]; simp only
    split
    · exact ret_ok _
    · split
      · exact ret_err _
      · exact ret_ok _
  · exact ret_ok _

theorem parseShootName_returns (shoot : Bytes) : (parseShootName shoot).returns = true := by
  unfold parseShootName
  rcases returns_cases' (parseStringFunc_returns shoot) with ⟨a, ha⟩ | ⟨c, hc⟩
  · obtain ⟨name, args⟩ := a
    rw [ha]; simp only
    rcases returns_cases' (argInt_returns (args.getD []) 0 1) with ⟨a0, h0⟩ | ⟨c0, h0⟩
    · rw [h0]; simp only
      rcases returns_cases' (argInt_returns (args.getD []) 1 0) with ⟨a1, h1⟩ | ⟨c1, h1⟩
      · rw [h1]; exact ret_ok _
      · rw [h1]; exact ret_err _
    · rw [h0]; exact ret_err _
  · rw [hc]; exact ret_err _
where
  returns_cases' {α} {r : Res α} (h : r.returns = true) : (∃ a, r = .ok a) ∨ (∃ c, r = .err c) := by
    cases r with
    | ok a => exact .inl ⟨a, rfl⟩
    | err c => exact .inr ⟨c, rfl⟩
    | panic w => simp [Res.returns, Res.isPanic] at h
    | fatal w => simp [Res.returns, Res.isPanic, Res.isFatal] at h

theorem ret_cases {α} {r : Res α} (h : r.returns = true) : (∃ a, r = .ok a) ∨ (∃ c, r = .err c) :=
  parseShootName_returns.returns_cases' h

/-! ### scenario expansion -/

theorem addSleep_fixed_returns (acc : List ScnStep) (cnt : Int) : (addSleep true acc cnt).returns = true := by
  unfold addSleep
  cases acc with
  | nil => simp [Res.returns, Res.isPanic, Res.isFatal]
  | cons hd tl => obtain ⟨n, s⟩ := hd; simp [Res.returns, Res.isPanic, Res.isFatal]

theorem expandGo_fixed_returns (known : Bytes → Bool) (reqs : List Bytes) (acc : List ScnStep) :
    (expandGo true known reqs acc).returns = true := by
  induction reqs generalizing acc with
  | nil => simp [expandGo, Res.returns, Res.isPanic, Res.isFatal]
  | cons sh rest ih =>
    unfold expandGo
    rcases ret_cases (parseShootName_returns sh) with ⟨a, ha⟩ | ⟨c, hc⟩
    · obtain ⟨name, cnt, sleep⟩ := a
      rw [ha]; simp only
      split
      · rcases ret_cases (addSleep_fixed_returns acc cnt) with ⟨a', h'⟩ | ⟨c', h'⟩
        · rw [h']; simp only; exact ih a'
        · rw [h']; exact ret_err _
      · split
        · exact ret_err _
        · split
          · exact ret_err _
          · exact ih _
    · rw [hc]; exact ret_err _

/-- a request string that is rejected whatever has been built so far makes the whole list rejected -/
theorem expandGo_rejects (fixed : Bool) (known : Bytes → Bool) (pre : List Bytes) (sh : Bytes) (rest : List Bytes)
    (hbad : ∀ acc, (expandGo fixed known (sh :: rest) acc).isOk = false) (acc : List ScnStep) :
    (expandGo fixed known (pre ++ sh :: rest) acc).isOk = false := by
  induction pre generalizing acc with
  | nil => simpa using hbad acc
  | cons p ps ih =>
    simp only [List.cons_append]
    unfold expandGo
    cases hp : parseShootName p with
    | ok a =>
      obtain ⟨name, cnt, sleep⟩ := a
      simp only
      split
      · cases hs : addSleep fixed acc cnt with
        | ok acc' => simp only; exact ih acc'
        | err c => simp [Res.isOk]
        | panic w => simp [Res.isOk]
        | fatal w => simp [Res.isOk]
      · split
        · simp [Res.isOk]
        · split
          · simp [Res.isOk]
          · exact ih _
    | err c => simp [Res.isOk]
    | panic w => simp [Res.isOk]
    | fatal w => simp [Res.isOk]

/-! ### `calcIndex` -/

theorem tmod_range (a b : Int) (hb : 0 < b) :
    let m := Int.tmod a b
    0 ≤ (if m < 0 then m + b else m) ∧ (if m < 0 then m + b else m) < b := by
  have h1 := Int.tmod_lt_of_pos a hb
  have h2 : -b < Int.tmod a b := by
    have := Int.lt_tmod_of_pos a hb
    omega
  simp only
  split <;> omega

/-- repaired `calcIndex`: never panics, and an index it returns is inside the slice -/
theorem calcIndex_fixed (indexStr : Bytes) (length next : Int) (rnd : Nat) (hnext : 0 ≤ next) :
    (∃ c, calcIndex true indexStr length next rnd = .err c) ∨
    (∃ i, calcIndex true indexStr length next rnd = .ok i ∧ 0 ≤ i ∧ i < length) := by
  unfold calcIndex
  simp only
  split
  · left; exact ⟨_, rfl⟩
  · split
    · left; exact ⟨_, rfl⟩
    · rename_i hlen
      have hpos : 0 < length := by
        simp at hlen; omega
      split
      · split
        · rename_i hin; right; exact ⟨_, rfl, hin.1, hin.2⟩
        · rw [tmodC_ok _ _ (by omega)]
          right
          have := tmod_range ((atoi indexStr).getD 0) length hpos
          exact ⟨_, rfl, this.1, this.2⟩
      · split
        · right; exact ⟨_, rfl, by omega, by omega⟩
        · split
          · rw [intnC_ok _ _ hpos]
            right
            refine ⟨_, rfl, ?_, ?_⟩
            · exact Int.emod_nonneg _ (by omega)
            · exact Int.emod_lt_of_pos _ hpos
          · split
            · rw [tmodC_ok _ _ (by omega)]
              right
              refine ⟨_, rfl, ?_, ?_⟩
              · exact Int.tmod_nonneg _ hnext
              · exact Int.tmod_lt_of_pos _ hpos
            · rename_i hge
              right; exact ⟨_, rfl, hnext, by omega⟩

/-- `[anything]` on an empty source is an error in the repaired code -/
theorem calcIndex_fixed_empty (indexStr : Bytes) (next : Int) (rnd : Nat) :
    ∃ c, calcIndex true indexStr 0 next rnd = .err c := by
  unfold calcIndex
  simp only
  split
  · exact ⟨_, rfl⟩
  · refine ⟨"empty", ?_⟩
    simp

theorem iterNext_nonneg (st : IterState) (seg : Bytes) : 0 ≤ (iterNext st seg).1 := by
  unfold iterNext
  split <;> simp <;> omega

theorem extractFromSlice_fixed_returns (cur : Val) (indexStr curSeg : Bytes) (st : IterState) (rnd : Nat) :
    (extractFromSlice true cur indexStr curSeg st rnd).1.returns = true := by
  unfold extractFromSlice
  split
  · rename_i elems
    simp only
    generalize hit : (if (usesNext indexStr && !(true && elems.length == 0)) = true then iterNext st curSeg else (0, st)) = it
    have hnn : 0 ≤ it.1 := by
      rw [← hit]
      split
      · exact iterNext_nonneg st curSeg
      · simp
    rcases calcIndex_fixed indexStr elems.length it.1 rnd hnn with ⟨c, hc⟩ | ⟨i, hi, h0, h1⟩
    · rw [hc]; simp [Res.castFail, Res.returns, Res.isPanic, Res.isFatal]
    · rw [hi]; simp only
      -- v[index]: 0 ≤ index < len(v)
      obtain ⟨a, ha⟩ := indexC_ok elems i h0 h1
      rw [ha]; exact ret_ok _
  · exact ret_err _

/-! ### `GetMapValue` -/

theorem hasSuffix_last (s : Bytes) (c : UInt8) (h : hasSuffix s [c] = true) :
    ∃ hpos : 0 < s.length, s[s.length - 1] = c := by
  unfold hasSuffix at h
  have := List.isSuffixOf_iff_suffix.mp h
  obtain ⟨t, ht⟩ := this
  subst ht
  refine ⟨by simp, ?_⟩
  simp

theorem getGo_fixed_returns (rnd : Nat) (segs : List Bytes) (s : MpState) :
    (getGo true rnd segs s).1.returns = true := by
  induction segs generalizing s with
  | nil => simp [getGo, Res.returns, Res.isPanic, Res.isFatal]
  | cons segment rest ih =>
    unfold getGo
    simp only
    split
    · rename_i hcond
      simp only [Bool.and_eq_true, decide_eq_true_eq] at hcond
      obtain ⟨hopen, hsuf⟩ := hcond
      -- segment[openBraceIdx+1 : len(segment)-1] and segment[:openBraceIdx]:
      -- segment ends with ']' and its first '[' is at openBraceIdx, so openBraceIdx ≤ len(segment)-2
      obtain ⟨i, hi, hil, hget⟩ := indexByte_get (trimSpace segment) 91 hopen
      obtain ⟨hpos, hlast⟩ := hasSuffix_last (trimSpace segment) 93 hsuf
      have hne : i ≠ (trimSpace segment).length - 1 := by
        intro h
        have : (trimSpace segment)[i] = (trimSpace segment)[(trimSpace segment).length - 1] := by
          congr
        rw [hget, hlast] at this
        exact absurd this (by decide)
      rw [sliceC_ok _ (indexByte (trimSpace segment) 91 + 1) _ (by omega)]
      simp only
      rw [sliceC_ok _ 0 _ (by omega)]
      simp only
      split
      · exact ret_err _
      · rename_i pathVal hl
        have hx := fun idx seg => extractFromSlice_fixed_returns pathVal idx seg s.st rnd
        split
        · exact ih _
        · split
          · rename_i heq _
            have := congrArg (fun p => p.1.returns) heq
            simp only at this
            rw [hx] at this
            simpa using this.symm
          · exact ret_err _
        · rename_i r st' _ _ heq
          have := congrArg (fun p => p.1.returns) heq
          simp only at this
          rw [hx] at this
          simpa using this.symm
    · split
      · exact ret_err _
      · exact ih _
      · split
        · exact ret_ok _
        · exact ret_err _

/-! ### property placeholder -/

theorem propScan_returns (property : Bytes) (lines : List Bytes) : (propScan property lines).returns = true := by
  induction lines with
  | nil => exact ret_err _
  | cons l ls ih =>
    unfold propScan
    split
    · split
      · exact ret_ok _
      · exact ih
    · exact ih

theorem propertyResolve_fixed_returns (fileOf : Bytes → Option (List Bytes)) (inp : Bytes) :
    (propertyResolve true fileOf inp).returns = true := by
  unfold propertyResolve
  cases hc : cut inp 35 with
  | none => simp [ret_err]
  | some p =>
    obtain ⟨a, b⟩ := p
    -- split[0], split[1]: the list has two elements
    simp [indexC_zero, indexC_one]
    split
    · exact ret_err _
    · exact propScan_returns _ _

/-- `${property:file}` without `#`: the repaired resolver answers with an error -/
theorem propertyResolve_fixed_no_hash (fileOf : Bytes → Option (List Bytes)) (inp : Bytes)
    (h : cut inp 35 = none) : propertyResolve true fileOf inp = .err "format" := by
  unfold propertyResolve
  simp [h]

theorem resolveGo_fixed_returns (env : Bytes → Option Bytes) (fileOf : Bytes → Option (List Bytes))
    (tags : List Tag) (res : Bytes) : (resolveGo true env fileOf tags res).returns = true := by
  induction tags generalizing res with
  | nil => exact ret_ok _
  | cons t ts ih =>
    unfold resolveGo
    simp only
    split
    · split
      · exact ret_err _
      · exact ih _
    · split
      · rcases ret_cases (propertyResolve_fixed_returns fileOf t.varname) with ⟨v, hv⟩ | ⟨c, hc⟩
        · rw [hv]; simp only; exact ih _
        · rw [hc]; exact ret_err _
      · exact ih _

/-! ### `randInt` -/

theorem wrap64_id (x : Int) (h0 : minInt64 ≤ x) (h1 : x ≤ maxInt64) : wrap64 x = x := by
  unfold wrap64 minInt64 maxInt64 at *
  omega

theorem randInt_fixed_returns (f t : Int) (rnd : Nat) : (randInt true f t rnd).returns = true := by
  unfold randInt
  simp only
  generalize randIntBounds true f t = b
  by_cases hd : wrap64 (b.2 - b.1) ≤ 0
  · simp [hd, ret_err]
  · -- rand.Int63n(t - f): the argument is positive
    simp only [hd, Bool.true_and, decide_false, Bool.false_eq_true, if_false]
    rw [intnC_ok _ _ (by omega)]
    exact ret_ok _

/-! ### `readConfig` -/

theorem massageItems_fixed (items : List PoolItem) : ∃ l, massageItems true items = .ok l := by
  induction items with
  | nil => exact ⟨[], rfl⟩
  | cons i rest ih =>
    obtain ⟨l, hl⟩ := ih
    cases i with
    | mapping d => exact ⟨.mapping true :: l, by simp [massageItems, hl]⟩
    | other => exact ⟨.other :: l, by simp [massageItems, hl]⟩

theorem massagePools_fixed (p : PoolsVal) : ∃ v, massagePools true p = .ok v := by
  cases p with
  | absent => exact ⟨.absent, by simp [massagePools]⟩
  | notList => exact ⟨.notList, by simp [massagePools]⟩
  | list items =>
    obtain ⟨l, hl⟩ := massageItems_fixed items
    exact ⟨.list l, by simp [massagePools, hl]⟩

/-! ### scenario weights -/

theorem gcdGo_pos (fuel : Nat) (a b : Int) (ha : 0 ≤ a) (hb : 0 ≤ b) (hab : 0 < a ∨ 0 < b) : 0 < gcdGo fuel a b := by
  induction fuel generalizing a b with
  | zero => unfold gcdGo; split <;> omega
  | succ f ih =>
    unfold gcdGo
    split
    · rename_i h
      split
      · exact ih _ _ (Int.tmod_nonneg _ ha) hb (.inr h.2)
      · exact ih _ _ ha (Int.tmod_nonneg _ hb) (.inl h.1)
    · split <;> omega

theorem gcd64_pos (a b : Int) (ha : 0 < a) (hb : 0 < b) : 0 < gcd64 a b :=
  gcdGo_pos _ a b (by omega) (by omega) (.inl ha)

/-- the loop of `math.GCD` ends: with more fuel than `a + b` one more unit of fuel changes nothing -/
theorem gcdGo_fuel (fuel : Nat) (a b : Int) (h : a.toNat + b.toNat < fuel) : gcdGo (fuel + 1) a b = gcdGo fuel a b := by
  induction fuel generalizing a b with
  | zero => omega
  | succ f ih =>
    rw [gcdGo]
    conv => rhs; rw [gcdGo]
    split
    · rename_i hp
      split
      · rename_i hle
        have h1 : 0 ≤ Int.tmod a b := Int.tmod_nonneg _ (by omega)
        have h2 : Int.tmod a b < b := Int.tmod_lt_of_pos _ hp.2
        exact ih _ _ (by omega)
      · rename_i hle
        have h1 : 0 ≤ Int.tmod b a := Int.tmod_nonneg _ (by omega)
        have h2 : Int.tmod b a < a := Int.tmod_lt_of_pos _ hp.1
        exact ih _ _ (by omega)
    · rfl

theorem gcdmRev_pos (l : List Int) (hl : 2 ≤ l.length) (hp : ∀ w ∈ l, 0 < w) : 0 < gcdmRev l := by
  match l, hl, hp with
  | b :: a :: rest, _, hp =>
    have hb : 0 < b := hp b (by simp)
    have ha : 0 < a := hp a (by simp)
    unfold gcdmRev
    split
    · exact gcd64_pos a b ha hb
    · rename_i hne
      have hlen : 2 ≤ (a :: rest).length := by
        cases rest with
        | nil => simp at hne
        | cons _ _ => simp
      have ih := gcdmRev_pos (a :: rest) hlen (fun w hw => hp w (by simp at hw ⊢; right; exact hw))
      exact gcd64_pos _ _ ih (gcd64_pos a b ha hb)

theorem normWeight_pos (w : Int) (h : ¬ w < 0) : 0 < normWeight w := by
  unfold normWeight; split <;> omega

theorem mapRes_tdiv (div : Int) (hd : 0 < div) (ws : List Int) (hw : ∀ w ∈ ws, 0 ≤ w) :
    ∃ cs, mapRes (fun w => tdivC w div) ws = .ok cs ∧ cs.length = ws.length ∧ (∀ c ∈ cs, 0 ≤ c) ∧ sumInt cs ≤ sumInt ws := by
  induction ws with
  | nil => exact ⟨[], by simp [mapRes], rfl, by simp, by simp [sumInt]⟩
  | cons w rest ih =>
    obtain ⟨cs, h1, h2, h3, h4⟩ := ih (fun x hx => hw x (by simp [hx]))
    have h0 : 0 ≤ w := hw w (by simp)
    have hne : div ≠ 0 := by omega
    have e : tdivC w div = .ok (Int.tdiv w div) := by simp [tdivC, hne]
    refine ⟨Int.tdiv w div :: cs, by rw [mapRes, e]; simp only; rw [h1], by simp [h2], ?_, ?_⟩
    · intro c hc
      simp at hc
      rcases hc with rfl | hc
      · exact Int.tdiv_nonneg h0 (by omega)
      · exact h3 c hc
    · have : Int.tdiv w div ≤ w := Int.tdiv_le_self _ h0
      simp only [sumInt, List.foldr_cons] at h4 ⊢
      omega

/-- `SpreadNames` on weights none of which is negative: no division by zero, every count is ≥ 0,
and there are no more copies than the weights announce -/
theorem spreadCounts_nonneg (ws : List Int) (h : ∀ w ∈ ws, ¬ w < 0) :
    ∃ cs, spreadCounts ws = .ok cs ∧ cs.length = ws.length ∧ (∀ c ∈ cs, 0 ≤ c) ∧ sumInt cs ≤ sumInt (ws.map normWeight) := by
  match ws, h with
  | [], _ => exact ⟨[], rfl, rfl, by simp, by simp [sumInt]⟩
  | [w], h =>
    refine ⟨[1], rfl, rfl, by simp, ?_⟩
    have := normWeight_pos w (h w (by simp))
    simp [sumInt]; omega
  | a :: b :: rest, h =>
    have hpos : ∀ w ∈ (a :: b :: rest).map normWeight, 0 < w := by
      intro w hw
      obtain ⟨x, hx, rfl⟩ := List.mem_map.mp hw
      exact normWeight_pos x (h x hx)
    have hd : 0 < gcdmRev ((a :: b :: rest).map normWeight).reverse :=
      gcdmRev_pos _ (by simp) (fun w hw => hpos w (List.mem_reverse.mp hw))
    obtain ⟨cs, h1, h2, h3, h4⟩ := mapRes_tdiv _ hd ((a :: b :: rest).map normWeight) (fun w hw => by have := hpos w hw; omega)
    exact ⟨cs, by simp only [spreadCounts]; exact h1, by simpa using h2, h3, h4⟩

theorem makeCapC_ok (n : Int) (h0 : 0 ≤ n) (h1 : n * 8 ≤ memCap) : makeCapC n = .ok () := by
  unfold makeCapC maxAlloc
  unfold memCap at h1
  have a : ¬ n < 0 := by omega
  have b : ¬ n * 8 > 281474976710656 := by omega
  have c : ¬ n * 8 > memCap := by unfold memCap; omega
  simp [a, b, c]

theorem sumInt_nonneg (l : List Int) (h : ∀ c ∈ l, 0 ≤ c) : 0 ≤ sumInt l := by
  induction l with
  | nil => simp [sumInt]
  | cons a as ih =>
    have := ih (fun c hc => h c (by simp [hc]))
    have := h a (by simp)
    simp only [sumInt, List.foldr_cons] at *
    omega

theorem spread_fixed_neg (ws : List Int) (h : ∃ w ∈ ws, w < 0) : spread true ws = .err "weight" := by
  unfold spread
  have : ws.any (fun w => decide (w < 0)) = true := by
    obtain ⟨w, hw, hn⟩ := h
    exact List.any_eq_true.mpr ⟨w, hw, by simpa using hn⟩
  simp [this]

theorem wrap64_id_nonneg (x : Int) (h0 : 0 ≤ x) (h1 : x < 9223372036854775808) : wrap64 x = x := by
  unfold wrap64; omega

theorem sumInt_le_mul (cs : List Int) (b : Int) (h : ∀ c ∈ cs, c ≤ b) : sumInt cs ≤ cs.length * b := by
  induction cs with
  | nil => simp [sumInt]
  | cons a as ih =>
    have h1 := ih (fun c hc => h c (by simp [hc]))
    have h2 := h a (by simp)
    simp only [sumInt, List.foldr_cons, List.length_cons] at h1 ⊢
    have : ((as.length + 1 : Nat) : Int) * b = (as.length : Int) * b + b := by
      rw [Int.natCast_add, Int.add_mul]; simp
    omega

/-- the repaired `decodeAmmo` (4cfc662), EVERY list of weights: an error, or the counts - each between 0 and `MaxSpreadSize`, and
so is the (wrapped) total the slice is allocated from -/
theorem spread_fixed (ws : List Int) :
    (∃ c, spread true ws = .err c) ∨
    ∃ cs, spread true ws = .ok cs ∧ cs.length = ws.length ∧ (∀ c ∈ cs, 0 ≤ c ∧ c ≤ maxSpreadSize) ∧
      0 ≤ wrap64 (sumInt cs) ∧ wrap64 (sumInt cs) ≤ maxSpreadSize := by
  by_cases hneg : ∃ w ∈ ws, w < 0
  · left; exact ⟨_, spread_fixed_neg ws hneg⟩
  · have hall : ∀ w ∈ ws, ¬ w < 0 := fun w hw hn => hneg ⟨w, hw, hn⟩
    obtain ⟨cs, h1, h2, h3, h4⟩ := spreadCounts_nonneg ws hall
    have hany : ws.any (fun w => decide (w < 0)) = false := by
      apply Bool.eq_false_iff.mpr
      intro hany
      obtain ⟨w, hw, hn⟩ := List.any_eq_true.mp hany
      exact hall w hw (by simpa using hn)
    unfold spread
    simp only [hany, Bool.and_false, Bool.false_eq_true, if_false, h1, if_true, Bool.true_and]
    by_cases hc : checkSpread cs (wrap64 (sumInt cs)) = true
    · left; exact ⟨"spread", by simp [hc]⟩
    · right
      have hc' : checkSpread cs (wrap64 (sumInt cs)) = false := by simpa using hc
      unfold checkSpread at hc'
      rw [Bool.or_eq_false_iff] at hc'
      obtain ⟨ht, hcs⟩ := hc'
      have ht' : ¬ (wrap64 (sumInt cs) < 0 ∨ wrap64 (sumInt cs) > maxSpreadSize) := by simpa using ht
      have hcs' : ∀ c ∈ cs, 0 ≤ c ∧ c ≤ maxSpreadSize := by
        intro c hcm
        have := List.any_eq_false.mp hcs c hcm
        have : ¬ (c < 0 ∨ c > maxSpreadSize) := by simpa using this
        omega
      refine ⟨cs, ?_, h2, hcs', by omega, by omega⟩
      simp only [checkSpread, ht, hcs, Bool.or_false, Bool.false_eq_true, if_false]
      rw [makeCapC_ok _ (by omega) (by unfold memCap; unfold maxSpreadSize at ht'; omega)]

/-- with fewer than 2^39 scenarios the total does not wrap: the copies allocated and appended are at most `MaxSpreadSize` -/
theorem spread_fixed_total (ws cs : List Int) (h : spread true ws = .ok cs) (hlen : ws.length < 549755813888) :
    sumInt cs ≤ maxSpreadSize := by
  rcases spread_fixed ws with ⟨c, hc⟩ | ⟨cs', h', hl, hb, h0, h1⟩
  · rw [hc] at h; cases h
  · rw [h'] at h; cases h
    have hs0 : 0 ≤ sumInt cs := sumInt_nonneg cs (fun c hc => (hb c hc).1)
    have hs1 := sumInt_le_mul cs maxSpreadSize (fun c hc => (hb c hc).2)
    have : wrap64 (sumInt cs) = sumInt cs := by
      apply wrap64_id_nonneg _ hs0
      unfold maxSpreadSize at hs1
      have : (cs.length : Int) < 549755813888 := by omega
      have hmul : (cs.length : Int) * 16777216 ≤ 549755813887 * 16777216 :=
        Int.mul_le_mul_of_nonneg_right (by omega) (by omega)
      omega
    omega

/-! ### randString -/

/-- the repaired `randString` (28b7d1e), EVERY announced length -/
theorem randStringLen_fixed (n : Int) :
    (n < 0 ∧ randStringLen true n = .err "length") ∨ (n = 0 ∧ randStringLen true n = .ok 1) ∨
    (0 < n ∧ n ≤ maxRandStringLength ∧ randStringLen true n = .ok n.toNat) ∨
    (maxRandStringLength < n ∧ randStringLen true n = .err "length") := by
  unfold randStringLen makeRunesC maxAlloc memCap maxRandStringLength
  by_cases h0 : n = 0
  · subst h0; right; left; simp
  · by_cases hn : n < 0
    · left; simp [h0, hn]
    · by_cases hb : n > 16777216
      · right; right; right; simp [h0, hn, hb]
      · right; right; left
        have a : ¬ n * 4 > 281474976710656 := by omega
        have b : ¬ n * 4 > 4294967296 := by omega
        refine ⟨by omega, by omega, ?_⟩
        simp [h0, hn, hb, a, b]

theorem randStringLen_fixed_no_panic (n : Int) : (randStringLen true n).isPanic = false := by
  rcases randStringLen_fixed n with ⟨_, h⟩ | ⟨_, h⟩ | ⟨_, _, h⟩ | ⟨_, h⟩ <;> rw [h] <;> simp [Res.isPanic]

theorem pickLetter_returns (nLetters rnd : Nat) : ∃ i, pickLetter nLetters rnd = .ok i := by
  unfold pickLetter defaultLetters
  simp only
  generalize hk : (if nLetters = 0 then 64 else nLetters) = k
  have hpos : 0 < k := by subst hk; split <;> omega
  rw [intnC_ok (k : Int) rnd (by omega)]
  simp only [Res.bind]
  have h0 : 0 ≤ Int.ofNat rnd % (k : Int) := Int.emod_nonneg _ (by omega)
  have h1 : Int.ofNat rnd % (k : Int) < k := Int.emod_lt_of_pos _ (by omega)
  exact indexC_ok (List.range k) _ h0 (by simpa using h1)

end Pandora.Proofs.C13
