/-
C01, step profile: the succession of the levels in time.

`compositeSchedule` (core/schedule/composite.go) as ONE consumer sees it, over the REGENERATED leaf methods
`doAtSchedule_Start/Next` of `Pandora.Gen.Schedule`: the composite keeps the list of its nested schedules; `Next` asks the
first one; when that one is exhausted (`ok = false`, it reports its finish time) `startNext` drops it, starts the following
one AT THAT FINISH TIME and asks it; a schedule that has no operation at all is skipped the same way ("Schedule without
any tokens? Okay, just retry"). Locks and the `somebodyStartedNextBeforeUs` branch only matter with several consumers
(C02); the shape of `NewComposite` for 0 and 1 nested schedules is regenerated (`compositeSmall`, `compositeSmall_eq`).

`chainAnswer` is the closed form of what call number j answers; `compDrain_eq` proves that the model produces it;
`chainAnswer_token` / `chainAnswer_finish` say what that is in the words of the property.
-/
import Pandora.Bridge.C01

set_option linter.unusedVariables false
set_option linter.unusedSimpArgs false

namespace Pandora.Proofs.C01Chain
open Pandora Pandora.Gen.Schedule Pandora.Bridge.C01

/-- one level of a profile: (duration, number of operations, offset of operation k) -/
abbrev Level := ℤ × ℤ × (ℤ → ℤ)

def fresh (l : Level) : DoAtSt := NewDoAtSchedule l.1 l.2.1 l.2.2

/-- `compositeSchedule.Next` for one consumer: `cur` is `scheds[0]`, `rest` the schedules after it (not started yet) -/
def compNext (now : ℤ) : DoAtSt → List DoAtSt → Except String ((ℤ × Bool) × DoAtSt × List DoAtSt)
  | s, [] =>
      match doAtSchedule_Next now s with
      | .error e => .error e
      | .ok (r, s') => .ok (r, s', [])
  | s, s2 :: rest =>
      match doAtSchedule_Next now s with
      | .error e => .error e
      | .ok ((tx, true), s') => .ok ((tx, true), s', s2 :: rest)
      | .ok ((tx, false), _) =>
          -- startNext(tx): scheds = scheds[1:]; scheds[0].Start(tx); then tx, ok = scheds[0].Next()
          match doAtSchedule_Start s2 tx with
          | .error e => .error e
          | .ok (_, s2') =>
              match doAtSchedule_Next now s2' with
              | .error e => .error e
              | .ok ((tx2, true), s2'') => .ok ((tx2, true), s2'', rest)
              | .ok ((_, false), s2'') => compNext now s2'' rest        -- `return s.Next()`: retry

/-- `compositeSchedule.Start`: starts the first nested schedule -/
def compStart (t0 : ℤ) (cur : DoAtSt) (rest : List DoAtSt) : Except String (DoAtSt × List DoAtSt) :=
  match doAtSchedule_Start cur t0 with
  | .error e => .error e
  | .ok (_, s) => .ok (s, rest)

def compDrain : DoAtSt → List DoAtSt → List ℤ → Except String (List (ℤ × Bool))
  | _, _, [] => .ok []
  | cur, rest, now :: nows =>
      match compNext now cur rest with
      | .error e => .error e
      | .ok (r, cur', rest') =>
          match compDrain cur' rest' nows with
          | .error e => .error e
          | .ok rs => .ok (r :: rs)

/-- what `NewComposite` builds from the levels: nothing → `NewOnce(0)`; one → that schedule itself; more → the composite -/
def compInit : List Level → DoAtSt × List DoAtSt
  | [] => (NewDoAtSchedule 0 0 (fun _ => 0), [])
  | l :: rest => (fresh l, rest.map fresh)

/-- a profile made of `levels` is told its start `t0` and asked once per clock reading in `nows` -/
def chainRun (levels : List Level) (t0 : ℤ) (nows : List ℤ) : Except String (List (ℤ × Bool)) :=
  match compStart t0 (compInit levels).1 (compInit levels).2 with
  | .error e => .error e
  | .ok (cur, rest) => compDrain cur rest nows

/-- closed form: the answer to the j-th further call when the current level `(D, n, f)` was started at `t` and has
answered `m` calls, and `rest` are the levels after it: the remaining `n − m` operations of this level, then the next
level started at `t + D`, …, finally `(finish, false)` for ever. -/
def chainAnswer (t D n : ℤ) (f : ℤ → ℤ) (m : ℤ) : List Level → ℕ → ℤ × Bool
  | [], j => if j < (n - m).toNat then (t + f (m + j), true) else (t + D, false)
  | l2 :: rest, j =>
      if j < (n - m).toNat then (t + f (m + j), true)
      else chainAnswer (t + D) l2.1 l2.2.1 l2.2.2 0 rest (j - (n - m).toNat)

theorem chainAnswer_exhausted (t D n : ℤ) (f : ℤ → ℤ) (m m' : ℤ) (hm : n ≤ m) (hm' : n ≤ m') (rest : List Level) :
    chainAnswer t D n f m rest = chainAnswer t D n f m' rest := by
  have h1 : (n - m).toNat = 0 := by omega
  have h2 : (n - m').toNat = 0 := by omega
  funext j
  cases rest <;> simp [chainAnswer, h1, h2]

theorem chainAnswer_succ (t D n : ℤ) (f : ℤ → ℤ) (m : ℤ) (hm : m < n) (rest : List Level) (j : ℕ) :
    chainAnswer t D n f (m + 1) rest j = chainAnswer t D n f m rest (j + 1) := by
  have hc : (n - m).toNat = (n - (m + 1)).toNat + 1 := by omega
  have harg : m + 1 + (j : ℤ) = m + ((j + 1 : ℕ) : ℤ) := by push_cast; ring
  cases rest with
  | nil =>
      simp only [chainAnswer, hc, harg]
      by_cases hj : j < (n - (m + 1)).toNat
      · simp [hj]
      · simp [hj]
  | cons l2 rest =>
      simp only [chainAnswer, hc, harg]
      by_cases hj : j < (n - (m + 1)).toNat
      · simp [hj]
      · have e : j + 1 - ((n - (m + 1)).toNat + 1) = j - (n - (m + 1)).toNat := by omega
        simp [hj, e]

theorem chainAnswer_zero_lt (t D n : ℤ) (f : ℤ → ℤ) (m : ℤ) (hm : m < n) (rest : List Level) :
    chainAnswer t D n f m rest 0 = (t + f m, true) := by
  have hc : 0 < (n - m).toNat := by omega
  cases rest <;> simp [chainAnswer, hc]

/-- one call of the composite: it answers `chainAnswer … 0` and is afterwards in a state of the same shape whose
answers are the old ones shifted by one -/
theorem compNext_step (now : ℤ) : ∀ (rest : List Level) (t D n : ℤ) (f : ℤ → ℤ) (m : ℕ),
    ∃ (t' D' n' : ℤ) (f' : ℤ → ℤ) (m' : ℕ) (rest' : List Level),
      compNext now (startedSt D n f t m) (rest.map fresh) =
        .ok (chainAnswer t D n f m rest 0, startedSt D' n' f' t' m', rest'.map fresh) ∧
      ∀ j, chainAnswer t' D' n' f' m' rest' j = chainAnswer t D n f m rest (j + 1) := by
  intro rest
  induction rest with
  | nil =>
      intro t D n f m
      refine ⟨t, D, n, f, m + 1, [], ?_, ?_⟩
      · simp only [List.map_nil, compNext, next_started]
        by_cases hm : n ≤ (m : ℤ)
        · have : (n - (m : ℤ)).toNat = 0 := by omega
          simp [chainAnswer, hm, this]
        · have : 0 < (n - (m : ℤ)).toNat := by omega
          simp [chainAnswer, hm, this]
      · intro j
        by_cases hm : n ≤ (m : ℤ)
        · have := chainAnswer_exhausted t D n f ((m + 1 : ℕ) : ℤ) (m : ℤ) (by push_cast; omega) hm []
          rw [this]
          have h0 : (n - (m : ℤ)).toNat = 0 := by omega
          simp [chainAnswer, h0]
        · have := chainAnswer_succ t D n f (m : ℤ) (by omega) [] j
          push_cast
          exact this
  | cons l2 rest ih =>
      intro t D n f m
      by_cases hm : n ≤ (m : ℤ)
      · -- the current level is exhausted: the next one is started at its finish time t + D
        have h0 : (n - (m : ℤ)).toNat = 0 := by omega
        by_cases hn2 : l2.2.1 ≤ 0
        · -- … and has no operation at all: retry
          obtain ⟨t', D', n', f', m', rest', hrun, hshift⟩ := ih (t + D) l2.1 l2.2.1 l2.2.2 1
          simp only [Nat.cast_one] at hrun hshift
          have e := chainAnswer_exhausted (t + D) l2.1 l2.2.1 l2.2.2 1 0 (by omega) hn2 rest
          refine ⟨t', D', n', f', m', rest', ?_, ?_⟩
          · have hn2' : l2.2.1 ≤ ((0 : ℕ) : ℤ) := by simpa using hn2
            simp only [List.map_cons, compNext, next_started, hm, if_true, fresh, start_fresh, hn2']
            rw [hrun]
            simp [chainAnswer, h0, e]
          · intro j
            rw [hshift j]
            simp [chainAnswer, h0, e]
        · -- … and hands out its operation 0
          refine ⟨t + D, l2.1, l2.2.1, l2.2.2, 1, rest, ?_, ?_⟩
          · have hn2' : ¬ l2.2.1 ≤ ((0 : ℕ) : ℤ) := by simpa using hn2
            simp only [List.map_cons, compNext, next_started, hm, if_true, fresh, start_fresh, hn2', if_false]
            have e := chainAnswer_zero_lt (t + D) l2.1 l2.2.1 l2.2.2 0 (by omega) rest
            simp [chainAnswer, h0, e]
          · intro j
            have e := chainAnswer_succ (t + D) l2.1 l2.2.1 l2.2.2 0 (by omega) rest j
            simp only [chainAnswer, h0]
            simpa using e
      · -- the current level still has an operation
        refine ⟨t, D, n, f, m + 1, l2 :: rest, ?_, ?_⟩
        · have e := chainAnswer_zero_lt t D n f (m : ℤ) (by omega) (l2 :: rest)
          simp only [List.map_cons, compNext, next_started, hm, if_false, e]
        · intro j
          have := chainAnswer_succ t D n f (m : ℤ) (by omega) (l2 :: rest) j
          push_cast
          exact this

theorem compDrain_eq : ∀ (nows : List ℤ) (rest : List Level) (t D n : ℤ) (f : ℤ → ℤ) (m : ℕ),
    compDrain (startedSt D n f t m) (rest.map fresh) nows =
      .ok ((List.range nows.length).map (chainAnswer t D n f m rest)) := by
  intro nows
  induction nows with
  | nil => intros; simp [compDrain]
  | cons now nows ih =>
      intro rest t D n f m
      obtain ⟨t', D', n', f', m', rest', hrun, hshift⟩ := compNext_step now rest t D n f m
      simp only [compDrain, hrun, ih rest' t' D' n' f' m', List.length_cons, List.range_succ_eq_map, List.map_cons,
        List.map_map]
      congr 2
      apply List.map_congr_left
      intro j _
      exact hshift j

/-- sum of the durations / of the numbers of operations of the levels -/
def totalDur : List Level → ℤ
  | [] => 0
  | l :: rest => l.1 + totalDur rest
def totalOps : List Level → ℕ
  | [] => 0
  | l :: rest => l.2.1.toNat + totalOps rest

/-- after all operations: the finish time is the start plus the sum of ALL level durations (also of levels without any
operation) -/
theorem chainAnswer_finish : ∀ (rest : List Level) (t D n : ℤ) (f : ℤ → ℤ) (m : ℤ) (j : ℕ),
    (n - m).toNat + totalOps rest ≤ j → chainAnswer t D n f m rest j = (t + D + totalDur rest, false) := by
  intro rest
  induction rest with
  | nil => intro t D n f m j hj; simp only [totalOps, Nat.add_zero] at hj; simp [chainAnswer, totalDur, Nat.not_lt.mpr hj]
  | cons l2 rest ih =>
      intro t D n f m j hj
      simp only [totalOps] at hj
      have h1 : ¬ j < (n - m).toNat := by omega
      simp only [chainAnswer, h1, if_false, totalDur]
      rw [ih (t + D) l2.1 l2.2.1 l2.2.2 0 (j - (n - m).toNat) (by simp only [Int.sub_zero]; omega)]
      congr 1; ring

/-- operation `k` of the `i`-th later level (`i = 0`: the current one) is answered after all operations before it,
at (start of that level) + (its offset within the level); the level starts where all levels before it have finished -/
theorem chainAnswer_current (rest : List Level) (t D n : ℤ) (f : ℤ → ℤ) (m : ℤ) (k : ℕ) (hk : k < (n - m).toNat) :
    chainAnswer t D n f m rest k = (t + f (m + k), true) := by
  cases rest <;> simp [chainAnswer, hk]

theorem chainAnswer_later (l2 : Level) (rest : List Level) (t D n : ℤ) (f : ℤ → ℤ) (m : ℤ) (j : ℕ) :
    chainAnswer t D n f m (l2 :: rest) ((n - m).toNat + j) = chainAnswer (t + D) l2.1 l2.2.1 l2.2.2 0 rest j := by
  simp [chainAnswer]

/-- the levels before index `i` -/
def durBefore (levels : List Level) (i : ℕ) : ℤ := totalDur (levels.take i)
def opsBefore (levels : List Level) (i : ℕ) : ℕ := totalOps (levels.take i)

/-- **placement of every operation of every level**: with `levels = l₀ :: rest` started at `t0`, operation `k` of level `i`
is call number `opsBefore i + k` and is scheduled at `t0 + durBefore i + fᵢ k` -/
theorem chainAnswer_token : ∀ (levels : List Level) (l0 : Level) (t0 : ℤ) (i : ℕ) (hi : i < (l0 :: levels).length) (k : ℕ),
    k < ((l0 :: levels)[i]).2.1.toNat →
    chainAnswer t0 l0.1 l0.2.1 l0.2.2 0 levels (opsBefore (l0 :: levels) i + k) =
      (t0 + durBefore (l0 :: levels) i + ((l0 :: levels)[i]).2.2 k, true) := by
  intro levels
  induction levels with
  | nil =>
      intro l0 t0 i hi k hk
      have : i = 0 := by simpa using hi
      subst this
      simp only [List.getElem_cons_zero] at hk
      simp [opsBefore, durBefore, totalOps, totalDur, chainAnswer, hk]
  | cons l1 rest ih =>
      intro l0 t0 i hi k hk
      cases i with
      | zero =>
          simp only [List.getElem_cons_zero] at hk
          simp [opsBefore, durBefore, totalOps, totalDur, chainAnswer, hk]
      | succ i =>
          have hi' : i < (l1 :: rest).length := by simpa using hi
          have hk' : k < ((l1 :: rest)[i]).2.1.toNat := by simpa using hk
          have := ih l1 (t0 + l0.1) i hi' k hk'
          have e1 : opsBefore (l0 :: l1 :: rest) (i + 1) + k = (l0.2.1 - 0).toNat + (opsBefore (l1 :: rest) i + k) := by
            simp [opsBefore, totalOps]; omega
          rw [e1, chainAnswer_later, this]
          simp only [durBefore, List.take_succ_cons, totalDur, List.getElem_cons_succ]
          congr 1; ring

theorem totalDur_const : ∀ (ls : List Level) (D : ℤ), (∀ l ∈ ls, l.1 = D) → totalDur ls = (ls.length : ℤ) * D := by
  intro ls
  induction ls with
  | nil => intro D _; simp [totalDur]
  | cons l rest ih =>
      intro D h
      have h1 : l.1 = D := h l (by simp)
      have h2 := ih D (fun x hx => h x (by simp [hx]))
      simp only [totalDur, h1, h2, List.length_cons]
      push_cast; ring

theorem durBefore_const (ls : List Level) (D : ℤ) (h : ∀ l ∈ ls, l.1 = D) (i : ℕ) (hi : i ≤ ls.length) :
    durBefore ls i = (i : ℤ) * D := by
  unfold durBefore
  rw [totalDur_const (ls.take i) D (fun l hl => h l (List.mem_of_mem_take hl))]
  simp [List.length_take, Nat.min_eq_left hi]

end Pandora.Proofs.C01Chain
