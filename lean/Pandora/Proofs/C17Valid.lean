/-
C17 — the repo's own validations (`endpoint`, `url-path`, `min-time`, `max-time`) against what the documentation
demands of the values (`Spec.C17.demand`).
-/
import Pandora.Proofs.C17Cast
import Pandora.Spec.C17

namespace Pandora.Proofs.C17
open Pandora.Model.C17 Pandora.Spec.C17

/-! ## ports -/

theorem allDigits_head (c : Char) (r : Str) (h : allDigits (c :: r) = true) : isDigitC c = true := by
  simp [allDigits] at h
  exact h.1

theorem atoi_allDigits (p : Str) (h : allDigits p = true) : atoi p = some (digitsVal p 0 : Int) := by
  cases p with
  | nil => simp [allDigits] at h
  | cons c r =>
    have hd := allDigits_head c r h
    have h1 : c ≠ '-' := by intro e; subst e; revert hd; decide
    have h2 : c ≠ '+' := by intro e; subst e; revert hd; decide
    unfold atoi
    split
    · next heq => cases heq; exact absurd rfl h1
    · next heq => cases heq; exact absurd rfl h2
    · simp [h]

theorem isPort_of_class_true (p : Str) (h : portClass p = some true) : isPort p = true := by
  unfold portClass at h
  by_cases hd : allDigits p = true
  · simp only [hd, if_true] at h
    unfold isPort
    rw [atoi_allDigits p hd]
    by_cases hz : (digitsVal p 0 == 0 || decide (digitsVal p 0 > 65535)) = true
    · simp [hz] at h
    · simp only [Bool.or_eq_true, beq_iff_eq, decide_eq_true_eq, not_or] at hz
      simp only [Bool.and_eq_true, decide_eq_true_eq]
      omega
  · simp only [hd, Bool.false_eq_true, if_false] at h
    split at h
    · split at h <;> simp at h
    · simp at h

theorem atoi_other (c : Char) (r : Str) (h1 : c ≠ '-') (h2 : c ≠ '+') :
    atoi (c :: r) = if allDigits (c :: r) then some (digitsVal (c :: r) 0 : Int) else none := by
  unfold atoi
  split
  · next heq => cases heq; exact absurd rfl h1
  · next heq => cases heq; exact absurd rfl h2
  · rfl

theorem isPort_of_class_false (p : Str) (h : portClass p = some false) : isPort p = false := by
  unfold portClass at h
  by_cases hd : allDigits p = true
  · simp only [hd, if_true] at h
    unfold isPort
    rw [atoi_allDigits p hd]
    by_cases hz : (digitsVal p 0 == 0 || decide (digitsVal p 0 > 65535)) = true
    · simp only [Bool.or_eq_true, beq_iff_eq, decide_eq_true_eq] at hz
      simp only [Bool.and_eq_false_iff, decide_eq_false_iff_not]
      omega
    · simp only [hz, Bool.false_eq_true, if_false] at h
      split at h <;> simp at h
  · simp only [hd, Bool.false_eq_true, if_false] at h
    cases p with
    | nil => rfl
    | cons c r =>
      by_cases h1 : c = '-'
      · subst h1
        unfold isPort
        show (match (if allDigits r then some (- (digitsVal r 0 : Int)) else none) with
          | some i => decide (0 < i) && decide (i < 65536) | none => false) = false
        by_cases hr : allDigits r = true
        · simp only [hr, if_true, Bool.and_eq_false_iff, decide_eq_false_iff_not]
          omega
        · simp [hr]
      · by_cases h2 : c = '+'
        · subst h2
          by_cases hr : allDigits r = true
          · simp [hr] at h
          · unfold isPort
            show (match (if allDigits r then some (digitsVal r 0 : Int) else none) with
              | some i => decide (0 < i) && decide (i < 65536) | none => false) = false
            simp [hr]
        · unfold isPort
          rw [atoi_other c r h1 h2]
          simp [hd]

/-! ## host:port -/

theorem cutColon_none (xs : Str) : ∀ acc, (∀ c ∈ xs, c ≠ ':') → cutColon xs acc = none := by
  induction xs with
  | nil => intro acc _; rfl
  | cons c cs ih =>
    intro acc h
    have hc : (c == ':') = false := by simp [h c (by simp)]
    simp only [cutColon, hc, Bool.false_eq_true, if_false]
    exact ih _ (fun c hm => h c (by simp [hm]))

theorem cutColon_some (xs : Str) : ∀ acc p q, cutColon xs acc = some (p, q) →
    ∃ p', p = acc.reverse ++ p' ∧ xs = p' ++ ':' :: q ∧ ∀ c ∈ p', c ≠ ':' := by
  induction xs with
  | nil => intro acc p q h; simp [cutColon] at h
  | cons c cs ih =>
    intro acc p q h
    by_cases hc : c = ':'
    · subst hc
      simp only [cutColon, beq_self_eq_true, if_true, Option.some.injEq, Prod.mk.injEq] at h
      exact ⟨[], by simp [h.1], by simp [h.2], by simp⟩
    · have hb : (c == ':') = false := by simp [hc]
      simp only [cutColon, hb, Bool.false_eq_true, if_false] at h
      rcases ih _ p q h with ⟨p', hp, hx, hno⟩
      refine ⟨c :: p', by simp [hp], by simp [hx], ?_⟩
      intro d hd
      simp only [List.mem_cons] at hd
      rcases hd with rfl | hd
      · exact hc
      · exact hno d hd

/-- a text without `:` has no last colon -/
theorem cutLastColon_none (s : Str) (h : ∀ c ∈ s, c ≠ ':') : cutLastColon s = none := by
  unfold cutLastColon
  rw [cutColon_none s.reverse [] (fun c hc => h c (List.mem_reverse.mp hc))]

/-- the last colon of `host:port` when the port has none -/
theorem cutLastColon_join (host port : Str) (h : ∀ c ∈ port, c ≠ ':') :
    cutLastColon (host ++ ':' :: port) = some (host, port) := by
  unfold cutLastColon
  have : (host ++ ':' :: port).reverse = port.reverse ++ ':' :: host.reverse := by simp
  rw [this, cutColon_type port.reverse (fun c hc => h c (List.mem_reverse.mp hc))]
  simp

/-- what `cutLastColon` returns: the text is `host:port` and the port has no colon -/
theorem cutLastColon_some (s host port : Str) (h : cutLastColon s = some (host, port)) :
    s = host ++ ':' :: port ∧ ∀ c ∈ port, c ≠ ':' := by
  unfold cutLastColon at h
  split at h
  · simp at h
  · next pr hr heq =>
    simp only [Option.some.injEq, Prod.mk.injEq] at h
    rcases cutColon_some s.reverse [] pr hr heq with ⟨p', hp, hx, hno⟩
    simp only [List.reverse_nil, List.nil_append] at hp
    subst hp
    have : s = (pr ++ ':' :: hr).reverse := by rw [← hx]; simp
    refine ⟨?_, ?_⟩
    · rw [this, ← h.1, ← h.2]; simp
    · intro c hc
      rw [← h.2] at hc
      exact hno c (List.mem_reverse.mp hc)

/-- whatever `net.SplitHostPort` makes of the host, the port it returns is the text after the last colon -/
theorem splitHostPort_port (s h p host port : Str) (hc : cutLastColon s = some (host, port))
    (hs : splitHostPort s = some (h, p)) : p = port := by
  unfold splitHostPort at hs
  rw [hc] at hs
  simp only at hs
  split at hs
  · split at hs
    · simp at hs
    · split at hs
      · split at hs
        · simp at hs
        · simp only [Option.some.injEq, Prod.mk.injEq] at hs; exact hs.2.symm
      · simp at hs
  · split at hs
    · simp at hs
    · split at hs
      · simp at hs
      · simp only [Option.some.injEq, Prod.mk.injEq] at hs; exact hs.2.symm

theorem splitHostPort_none_of_no_colon (s : Str) (h : ∀ c ∈ s, c ≠ ':') : splitHostPort s = none := by
  unfold splitHostPort
  rw [cutLastColon_none s h]

theorem contains_false_of (s : Str) (x : Char) (h : ∀ c ∈ s, c ≠ x) : s.contains x = false := by
  rw [List.contains_eq_any_beq, List.any_eq_false]
  intro c hc
  simp only [beq_iff_eq]
  exact fun e => h c hc e.symm

/-- a plain host (no `:`, `[`, `]`) and a port without them: `net.SplitHostPort` returns the two parts -/
theorem splitHostPort_plain (host port : Str)
    (hh : ∀ c ∈ host, c ≠ ':' ∧ c ≠ '[' ∧ c ≠ ']') (hp : ∀ c ∈ port, c ≠ ':' ∧ c ≠ '[' ∧ c ≠ ']') :
    splitHostPort (host ++ ':' :: port) = some (host, port) := by
  have hall : ∀ c ∈ host ++ ':' :: port, c ≠ '[' ∧ c ≠ ']' := by
    intro c hc
    simp only [List.mem_append, List.mem_cons] at hc
    rcases hc with hc | rfl | hc
    · exact (hh c hc).2
    · decide
    · exact (hp c hc).2
  unfold splitHostPort
  rw [cutLastColon_join host port (fun c hc => (hp c hc).1)]
  simp only
  split
  · next r heq =>
    have := (hall '[' (by rw [heq]; simp)).1
    exact absurd rfl this
  · rw [contains_false_of host ':' (fun c hc => (hh c hc).1),
      contains_false_of _ '[' (fun c hc => (hall c hc).1), contains_false_of _ ']' (fun c hc => (hall c hc).2)]
    simp

/-! ## hosts -/

theorem hostLabel_label (l : Str) (h : hostLabelOk l = true) : labelOk l = true ∧ l ≠ [] := by
  cases l with
  | nil => simp [hostLabelOk] at h
  | cons c r =>
    simp only [hostLabelOk, Bool.and_eq_true, List.all_eq_true, Bool.or_eq_true, beq_iff_eq] at h
    refine ⟨?_, by simp⟩
    simp only [labelOk, Bool.and_eq_true, Bool.or_eq_true, beq_iff_eq, List.all_eq_true]
    refine ⟨Or.inl h.1.1.1, ?_⟩
    intro x hx
    rcases h.1.1.2 x hx with h' | h'
    · exact Or.inl (Or.inl h')
    · exact Or.inr h'

theorem isHostName_of_simple (h : Str) (hs : simpleHost h = true) : isHostName h = true := by
  simp only [simpleHost, Bool.and_eq_true, List.all_eq_true] at hs
  have hl := hs.2
  unfold isHostName
  have hlast : ((splitDots h).getLast? == some []) = false := by
    cases hg : (splitDots h).getLast? with
    | none => rfl
    | some x =>
      have hm : x ∈ splitDots h := List.mem_of_getLast? hg
      have := (hostLabel_label x (hl x hm)).2
      cases x with
      | nil => exact absurd rfl this
      | cons a b => rfl
  simp only [hlast, Bool.false_and, Bool.false_eq_true, if_false, List.all_eq_true]
  intro l hm
  exact (hostLabel_label l (hl l hm)).1

theorem simple_chars (h : Str) (hs : simpleHost h = true) : ∀ c ∈ h, c ≠ ':' ∧ c ≠ '[' ∧ c ≠ ']' := by
  simp only [simpleHost, Bool.and_eq_true, List.all_eq_true, Bool.or_eq_true, beq_iff_eq] at hs
  intro c hc
  have := hs.1.2 c hc
  refine ⟨?_, ?_, ?_⟩ <;> (intro e; subst e; revert this; decide)

theorem digits_chars (p : Str) (hp : allDigits p = true) : ∀ c ∈ p, c ≠ ':' ∧ c ≠ '[' ∧ c ≠ ']' := by
  simp only [allDigits, Bool.and_eq_true, List.all_eq_true] at hp
  intro c hc
  have := hp.2 c hc
  refine ⟨?_, ?_, ?_⟩ <;> (intro e; subst e; revert this; decide)

theorem class_true_digits (p : Str) (h : portClass p = some true) : allDigits p = true := by
  unfold portClass at h
  by_cases hd : allDigits p = true
  · exact hd
  · simp only [hd, Bool.false_eq_true, if_false] at h
    split at h
    · split at h <;> simp at h
    · simp at h

/-! ## `endpoint` -/

/-- **The `endpoint` validation does what the documentation says**: every text that certainly is no `host:port` /
`:port` with a port 1 … 65535 fails it — in particular `:port` forms with a bad port, whatever the host —, every
`host:port` / `:port` with a plain host name or dotted quad and a decimal port passes it. -/
theorem endpoint_demand (s : Str) (b : Bool) (h : endpointDemand s = some b) : endpointOk s = b := by
  unfold endpointDemand at h
  cases hc : cutLastColon s with
  | none =>
    rw [hc] at h
    simp only [Option.some.injEq] at h
    subst h
    unfold endpointOk splitHostPort
    rw [hc]
    rfl
  | some hp =>
    obtain ⟨host, port⟩ := hp
    rw [hc] at h
    simp only at h
    have hjoin := cutLastColon_some s host port hc
    cases hpc : portClass port with
    | none => rw [hpc] at h; simp at h
    | some pb =>
      rw [hpc] at h
      cases pb with
      | false =>
        simp only [Option.some.injEq] at h
        subst h
        have hport := isPort_of_class_false port hpc
        unfold endpointOk
        cases hsp : splitHostPort s with
        | none => rfl
        | some hp' =>
          obtain ⟨h', p'⟩ := hp'
          have := splitHostPort_port s h' p' host port hc hsp
          subst this
          simp [endpointShape, hport]
      | true =>
        simp only at h
        by_cases hh : (host.isEmpty || simpleHost host) = true
        · simp only [hh, if_true, Option.some.injEq] at h
          subst h
          have hport := isPort_of_class_true port hpc
          have hpd := digits_chars port (class_true_digits port hpc)
          have hhost : ∀ c ∈ host, c ≠ ':' ∧ c ≠ '[' ∧ c ≠ ']' := by
            simp only [Bool.or_eq_true, List.isEmpty_iff] at hh
            rcases hh with rfl | hs
            · simp
            · exact simple_chars host hs
          unfold endpointOk
          rw [hjoin.1, splitHostPort_plain host port hhost hpd]
          simp only [endpointShape, hport, Bool.and_true, Bool.true_and]
          simp only [Bool.or_eq_true, List.isEmpty_iff] at hh ⊢
          rcases hh with rfl | hs
          · exact Or.inl rfl
          · refine Or.inr ?_
            have hnc : host.contains ':' = false := by
              rw [Bool.eq_false_iff]
              intro hc
              rw [List.contains_iff_mem] at hc
              exact (simple_chars host hs ':' hc).1 rfl
            simp only [isHost, hnc, Bool.false_eq_true, if_false]
            exact isHostName_of_simple host hs
        · simp [hh] at h

/-! ## `url-path` -/

theorem splitSlashes_ne_nil : ∀ (s : Str), splitSlashes s ≠ []
  | [] => by simp [splitSlashes]
  | c :: cs => by
    unfold splitSlashes
    split
    · simp
    · split <;> simp

def segOk (seg : Str) : Bool := !seg.isEmpty && seg.all pathCharOk

theorem urlPathLoop_spec : ∀ (r : Str),
    urlPathLoop r true = (splitSlashes r).all segOk ∧
    urlPathLoop r false = (match splitSlashes r with
      | l :: ls => l.all pathCharOk && ls.all segOk
      | [] => true)
  | [] => by simp [urlPathLoop, splitSlashes, segOk]
  | c :: cs => by
    have ih := urlPathLoop_spec cs
    by_cases hc : c = '/'
    · subst hc
      simp [urlPathLoop, splitSlashes, segOk, ih.1]
    · have hb : (c == '/') = false := by simp [hc]
      cases hs : splitSlashes cs with
      | nil => exact absurd hs (splitSlashes_ne_nil cs)
      | cons l ls =>
        have ih2 := ih.2
        rw [hs] at ih2
        simp only at ih2
        simp only [urlPathLoop, splitSlashes, hb, Bool.false_eq_true, if_false, hs, ih2, List.all_cons, segOk]
        simp [Bool.and_assoc]

/-- **`url-path` is the language of the regular expression** `^(/[a-zA-Z0-9._~!$&'()*+,;=:@%-]+)+$`: a `/`, then
non-empty segments of those characters separated by single slashes -/
theorem urlPath_demand (s : Str) : urlPathOk s = urlPathDemand s := by
  unfold urlPathOk urlPathDemand
  split
  · next r => rw [(urlPathLoop_spec r).1]; rfl
  · next hne =>
    split
    · next r => exact absurd rfl (hne r)
    · rfl

/-! ## literals: the base-0 grammar extends plain decimal -/

theorem digit_facts (c : Char) (h : isDigitC c = true) : (c == '_') = false ∧ digitVal c = some (c.toNat - 48) ∧ c.toNat - 48 < 10 := by
  simp only [isDigitC, Bool.and_eq_true, decide_eq_true_eq] at h
  refine ⟨?_, ?_, by omega⟩
  · cases hc : c == '_' with
    | false => rfl
    | true =>
      have : c = '_' := by simpa using hc
      subst this
      exact absurd h (by decide)
  · simp [digitVal, isDigitC, h.1, h.2]

theorem digitsBase_decimal : ∀ (s : Str) (acc : Nat), s.all isDigitC = true → digitsBase 10 s acc = some (digitsVal s acc)
  | [], acc, _ => rfl
  | c :: cs, acc, h => by
    simp only [List.all_cons, Bool.and_eq_true] at h
    rcases digit_facts c h.1 with ⟨h1, h2, h3⟩
    simp only [digitsBase, h1, Bool.false_eq_true, if_false, h2, h3, if_true, digitsVal]
    exact digitsBase_decimal cs _ h.2

theorem no_underscore (s : Str) (h : s.all isDigitC = true) : s.contains '_' = false := by
  apply contains_false_of
  intro c hc e
  subst e
  have := List.all_eq_true.mp h _ hc
  exact absurd this (by decide)

/-- a plain decimal (no sign, no leading zero) is read by `ParseUint(s, 0, _)` / `ParseInt(s, 0, _)` as that number -/
theorem parseUintLit_decimal (s : Str) (n : Nat) (h : decimalNat s = some n) : parseUintLit s = some n := by
  cases s with
  | nil => simp [decimalNat] at h
  | cons c r =>
    by_cases hz : c = '0'
    · subst hz
      cases r with
      | nil =>
        simp only [decimalNat, Option.some.injEq] at h
        subst h
        decide
      | cons d r' => simp [decimalNat] at h
    · have hne : (c == '0') = false := by simp [hz]
      have hd : allDigits (c :: r) = true ∧ n = digitsVal (c :: r) 0 := by
        unfold decimalNat at h
        split at h
        · simp at h
        · next heq => cases heq; exact absurd rfl hz
        · next c' r'' _ heq =>
          cases heq
          simp only [hne, Bool.false_eq_true, if_false] at h
          by_cases ha : allDigits (c :: r) = true
          · simp only [ha, if_true, Option.some.injEq] at h
            exact ⟨ha, h.symm⟩
          · simp [ha] at h
      have hall : (c :: r).all isDigitC = true := by
        have := hd.1
        simp only [allDigits, Bool.and_eq_true] at this
        exact this.2
      unfold parseUintLit
      split
      · next heq => cases heq
      · next rest heq => cases heq; exact absurd rfl hz
      · rw [digitsBase_decimal _ 0 hall, no_underscore _ hall, hd.2]
        simp

/-! ## every documented constraint -/

theorem decide_lt_not_le (a b : Int) : decide (a < b) = !decide (b ≤ a) := by
  by_cases h : b ≤ a
  · have : ¬ a < b := by omega
    simp [h, this]
  · have : a < b := by omega
    simp [h, this]

theorem demand_tagFail (t : VTag) (v : DVal) (b : Bool) (h : demand t v = some b) : tagFail t v = !b := by
  cases t with
  | required =>
    simp only [demand, Option.some.injEq] at h
    subst h; simp [tagFail]
  | min n =>
    cases v <;> simp only [demand, Option.some.injEq, reduceCtorEq] at h
    · subst h; simp only [tagFail]; exact decide_lt_not_le _ _
    · subst h; simp only [tagFail]; exact decide_lt_not_le _ _
    · subst h; simp [tagFail]
  | minTime ns =>
    cases v <;> simp only [demand, Option.some.injEq, reduceCtorEq] at h
    subst h; simp [tagFail, boundShape]
  | maxTime ns =>
    cases v <;> simp only [demand, Option.some.injEq, reduceCtorEq] at h
    subst h; simp [tagFail, boundShape]
  | endpoint =>
    cases v <;> simp only [demand, reduceCtorEq] at h
    simp [tagFail, endpoint_demand _ b h]
  | urlPath =>
    cases v <;> simp only [demand, Option.some.injEq, reduceCtorEq] at h
    subst h; simp [tagFail, urlPath_demand]
  | oneOf alts =>
    cases v <;> simp only [demand, Option.some.injEq, reduceCtorEq] at h
    subst h; simp [tagFail]
  | dive => simp [demand] at h
  | omitempty => simp [demand] at h
  | other t => simp [demand] at h

theorem demandAll_tagsFail (ts : List VTag) (v : DVal) :
    (demandAll ts v = some false → tagsFail ts v = true) ∧ (demandAll ts v = some true → tagsFail ts v = false) := by
  induction ts with
  | nil => simp [demandAll, tagsFail]
  | cons t r ih =>
    have gen : ∀ (hne : t ≠ .omitempty) (hnd : t ≠ .dive),
        demandAll (t :: r) v = (match demand t v, demandAll r v with
          | some false, _ => some false
          | _, some false => some false
          | some true, some true => some true
          | _, _ => none) ∧ tagsFail (t :: r) v = (tagFail t v || tagsFail r v) := by
      intro hne hnd
      cases t <;> first | exact absurd rfl hne | exact absurd rfl hnd | exact ⟨rfl, rfl⟩
    by_cases ho : t = .omitempty
    · subst ho
      by_cases hz : v.isZero = true
      · simp [demandAll, tagsFail, hz]
      · simp only [demandAll, tagsFail, hz, Bool.false_eq_true, if_false]
        exact ih
    · by_cases hd : t = .dive
      · subst hd
        simp only [demandAll, tagsFail, tagFail, Bool.false_or]
        exact ih
      · rcases gen ho hd with ⟨h1, h2⟩
        rw [h1, h2]
        cases hdt : demand t v with
        | none =>
          cases hdr : demandAll r v with
          | none => simp
          | some br =>
            cases br with
            | false => simp [ih.1 hdr]
            | true => simp
        | some bt =>
          have hf := demand_tagFail t v bt hdt
          cases bt with
          | false => simp [hf]
          | true =>
            cases hdr : demandAll r v with
            | none => simp
            | some br =>
              cases br with
              | false => simp [ih.1 hdr]
              | true => simp [hf, ih.2 hdr]

end Pandora.Proofs.C17
