/-
C14, round 2: the uri / uripost decoder WITH its header accumulator (`Model.C14H.scanLines`) is a decoder in the
sense of `Proofs/C08Src.Src` over the list of decoded entries `decodeLines` — so the analyses of runFullScan,
LoadAmmo and the cyclic replay loop apply to it unchanged — and in every pass it hands to `a.Setup`, for entry `i`,
exactly the header map `(decodeLines s)[i].hdr` (the accumulator is REPLACED when Scan wraps, and an entry gets a
clone).  Core Lean only.
-/
import Pandora.Model.C14Hdr
import Pandora.Proofs.C14

namespace Pandora.Proofs.C14H
open Pandora.Model.C08 hiding fullScan httpRun runFuel run
open Pandora.Model.C14 Pandora.Model.C14H Pandora.Proofs.C08 Pandora.Proofs.C14

/-! ## the accumulator -/

theorem accAt_zero (s : Source) : accAt s 0 = [] := by simp [accAt]

theorem accAt_succ (s : Source) (r : Nat) : accAt s (r + 1) = (s.block r).foldl HMap.setH (accAt s r) := by
  unfold accAt
  rw [List.range_succ, List.flatMap_append, List.foldl_append]
  simp

theorem decode_length (k : Fmt) (s : Source) : (decode k s).length = s.n := by
  simp [decode, Source.n]

theorem decode_getElem? (k : Fmt) (s : Source) (i : Nat) :
    (decode k s)[i]? = (s.tags[i]?).map (entryOf k s i) := by
  unfold decode
  rw [List.getElem?_zipWith]
  by_cases h : i < s.tags.length
  · simp [List.getElem?_range h, List.getElem?_eq_getElem h]
  · have h1 : s.tags[i]? = none := List.getElem?_eq_none (by omega)
    simp [h1]

/-- every decoded entry is `entryOf` of its position and tag -/
theorem mem_decode (k : Fmt) (s : Source) (e : EntryH) (h : e ∈ decode k s) :
    ∃ i t, s.tags[i]? = some t ∧ e = entryOf k s i t := by
  obtain ⟨i, hi⟩ := List.getElem?_of_mem h
  rw [decode_getElem?] at hi
  cases ht : s.tags[i]? with
  | none => rw [ht] at hi; simp at hi
  | some t => rw [ht] at hi; exact ⟨i, t, ht, by simpa using hi.symm⟩

/-! ## `scanLines` is a `Src` -/

/-- the decoder state after `q` complete passes and `r` entries of the current pass: counters as for every stream
decoder; the accumulator holds exactly the header lines of the current pass read so far; the map handed out with the
last entry is the one `decodeLines` says -/
def RLine (s : Source) (q r : Nat) (d : LDec) : Prop :=
  d.pos = r ∧ d.passNum = q ∧ d.ammoNum = q * s.n + r ∧ r ≤ s.n ∧ d.acc = accAt s r ∧
    (∀ i, r = i + 1 → d.last = hdrLines s i)

theorem RLine_init (s : Source) : RLine s 0 0 LDec.init := by
  simp [RLine, LDec.init, accAt_zero]

theorem src_lines (s : Source) (passes : Nat) (hn : 0 < s.n) :
    Src (scanLines s ⟨0, passes⟩) s.n passes (RLine s) where
  next := by
    intro q r d ⟨h1, h2, h3, h4, h5, _⟩ hr _
    refine ⟨{ d with pos := d.pos + 1, acc := (s.block d.pos).foldl HMap.setH d.acc, ammoNum := d.ammoNum + 1,
                     last := mergeMissing ((s.block d.pos).foldl HMap.setH d.acc) (cfgMap s.ch) }, ?_, ?_⟩
    · have : d.pos < s.n := by omega
      simp [scanLines, scanLinesLoop, this, ← h1]
    · refine ⟨by simp [h1], h2, by simp [h3]; omega, by omega, ?_, ?_⟩
      · simp only [h1, h5, accAt_succ]
      · intro i hi
        have : i = r := by omega
        subst this
        simp only [h1, h5, hdrLines, accAt_succ]
  wrap := by
    intro q d ⟨h1, h2, h3, _, _, _⟩ hp
    have hne : ¬ (¬ passes = 0 ∧ passes ≤ q + 1) := by omega
    have hn' : ¬ (s.n < s.n) := by omega
    have hn0 : ¬ (s.n = 0) := by omega
    refine ⟨{ d with pos := 1, acc := (s.block 0).foldl HMap.setH [], ammoNum := d.ammoNum + 1, passNum := q + 1,
                     last := mergeMissing ((s.block 0).foldl HMap.setH []) (cfgMap s.ch) }, ?_, ?_⟩
    · simp [scanLines, scanLinesLoop, h1, h2, h3, hn, hn', hne, hn0]
    · refine ⟨rfl, rfl, by simp [h3, Nat.succ_mul], by omega, ?_, ?_⟩
      · simp only [accAt_succ, accAt_zero]
      · intro i hi
        have : i = 0 := by omega
        subst this
        simp only [hdrLines, accAt_succ, accAt_zero]
  stop := by
    intro q d ⟨h1, h2, _, _, _, _⟩ hp0 hp
    have hn' : ¬ (s.n < s.n) := by omega
    refine ⟨{ d with acc := (s.block s.n).foldl HMap.setH d.acc, passNum := q + 1 }, ?_⟩
    simp [scanLines, scanLinesLoop, h1, h2, hn', hp0, hp]

theorem passFacts_lines (s : Source) : PassFacts (fun d : LDec => d.passNum) s.n (RLine s) where
  pos_imp := by
    intro q r d ⟨_, h2, _⟩ hp
    left; simpa [h2] using hp
  of_q := by
    intro q r d ⟨_, h2, _⟩ hq
    simpa [h2] using hq

/-- **what the decoder hands out is the decoded entry, in every pass**: from the state after `q` passes and `r`
entries, `Scan` returns entry `r` and the header map it passed to `a.Setup` is `(decodeLines s)[r].hdr` (next entry
of the pass), resp. entry `0` with `(decodeLines s)[0].hdr` (first entry after wrapping to the next pass: the
accumulator was replaced by an empty map, nothing of the previous pass is left in it). -/
theorem lines_handout (s : Source) (passes : Nat) (hn : 0 < s.n) (q r : Nat) (d : LDec) (hR : RLine s q r d) :
    (r < s.n → (passes = 0 ∨ q < passes) →
      ∃ d', scanLines s ⟨0, passes⟩ d = (.ammo r, d') ∧ RLine s q (r + 1) d' ∧
        ((decodeLines s)[r]?).map (·.hdr) = some d'.last) ∧
    (r = s.n → (passes = 0 ∨ q + 1 < passes) →
      ∃ d', scanLines s ⟨0, passes⟩ d = (.ammo 0, d') ∧ RLine s (q + 1) 1 d' ∧
        ((decodeLines s)[0]?).map (·.hdr) = some d'.last) := by
  have hdr_at : ∀ i, i < s.n → ((decodeLines s)[i]?).map (·.hdr) = some (hdrLines s i) := by
    intro i hi
    have : i < s.tags.length := hi
    rw [decode_getElem?, List.getElem?_eq_getElem this]
    simp [entryOf]
  constructor
  · intro hr hq
    obtain ⟨d', hs, hR'⟩ := (src_lines s passes hn).next q r d hR hr hq
    exact ⟨d', hs, hR', by rw [hdr_at r hr, hR'.2.2.2.2.2 r rfl]⟩
  · intro hr hq
    subst hr
    obtain ⟨d', hs, hR'⟩ := (src_lines s passes hn).wrap q d hR hq
    exact ⟨d', hs, hR', by rw [hdr_at 0 hn, hR'.2.2.2.2.2 0 rfl]⟩

/-! ## `Provider.Run` over the decoder with its accumulator -/

theorem runLinesFuel_spec (s : Source) (preload : Bool) (chosen : EntryH → Bool) (b : Bounds)
    (cancelAt : Option Nat) (T : Nat) (hf : 0 < ((decodeLines s).filter chosen).length)
    (tg : Tgt b.limit b.passes ((decodeLines s).filter chosen).length cancelAt T) :
    runLinesFuel s preload chosen b cancelAt (fuelFor T (decodeLines s).length ((decodeLines s).filter chosen).length)
      = some ⟨cycTake ((decodeLines s).filter chosen) T, endRes cancelAt T, true⟩ := by
  have hlen : (decodeLines s).length = s.n := decode_length _ s
  have hn : 0 < (decodeLines s).length := Nat.lt_of_lt_of_le hf (List.length_filter_le _ _)
  have hn' : 0 < s.n := by omega
  unfold runLinesFuel
  by_cases hpc : loadSeesCancel .uri preload cancelAt = true
  · rw [if_pos hpc]
    have hT := T_zero_of_loadSeesCancel .uri preload cancelAt T hpc tg
    subst hT
    have hc : cancelled cancelAt 0 = true := by
      unfold loadSeesCancel at hpc; simp only [Bool.and_eq_true] at hpc; exact hpc.2
    simp [cycTake_zero, endRes, hc]
  rw [if_neg hpc]
  refine httpRun_spec (scanLines s) (·.passNum) LDec.init (RLine s) (decodeLines s) chosen preload b cancelAt T hn hf
    ?_ ?_ ?_ (RLine_init s) tg
  · rw [hlen]; exact src_lines s 1 hn'
  · rw [hlen]; exact src_lines s b.passes hn'
  · rw [hlen]; exact passFacts_lines s

theorem runLinesFuel_nomatch (s : Source) (preload : Bool) (chosen : EntryH → Bool) (b : Bounds)
    (cancelAt : Option Nat) (hf : ((decodeLines s).filter chosen).length = 0) (hc : cancelAt ≠ some 0) :
    runLinesFuel s preload chosen b cancelAt (fuelNoMatch (decodeLines s).length) = some ⟨[], .errNoAmmo, true⟩ := by
  have hc0 := cancelled_zero cancelAt hc
  have hf' : (decodeLines s).filter chosen = [] := List.eq_nil_of_length_eq_zero hf
  have hlen : (decodeLines s).length = s.n := decode_length _ s
  by_cases hn : 0 < (decodeLines s).length
  · have hn' : 0 < s.n := by omega
    unfold runLinesFuel
    rw [loadSeesCancel_false .uri preload cancelAt hc0]
    simp only [Bool.false_eq_true, if_false]
    refine httpRun_nomatch (scanLines s) (·.passNum) LDec.init (RLine s) (decodeLines s) chosen preload b cancelAt
      hn hf' hc0 ?_ ?_ ?_ (RLine_init s)
    · rw [hlen]; exact src_lines s 1 hn'
    · rw [hlen]; exact src_lines s b.passes hn'
    · rw [hlen]; exact passFacts_lines s
  · -- a source without entries: `Scan` hits EOF at once
    have h0 : s.n = 0 := by omega
    have hd : decodeLines s = [] := List.eq_nil_of_length_eq_zero (by omega)
    have hlt : ¬ (0 < s.n) := by omega
    unfold runLinesFuel
    rw [loadSeesCancel_false .uri preload cancelAt hc0]
    simp only [Bool.false_eq_true, if_false]
    rw [hd]
    by_cases hp : ¬ b.passes = 0 ∧ b.passes ≤ 1 <;>
    cases preload <;>
      simp [httpRun, fuelNoMatch, fullScan, loadAmmo, runPreloaded, scanLines, scanLinesLoop, LDec.init, hc0,
        mapSentinel, hp, hlt]

/-! ## membership in a cyclic prefix -/

theorem mem_rep {α : Type} (q : Nat) (F : List α) (a : α) (h : a ∈ rep q F) : a ∈ F := by
  unfold rep at h
  simp only [List.mem_flatten, List.mem_replicate] at h
  obtain ⟨l, ⟨_, rfl⟩, ha⟩ := h
  exact ha

theorem mem_cycTake {α : Type} (F : List α) (t : Nat) (a : α) (h : a ∈ cycTake F t) : a ∈ F :=
  mem_rep t F a (List.mem_of_mem_take h)

/-! ## the variant without the clone -/

/-- if only the first block declares headers (all `[K: v]` lines stand before the first entry), the accumulator
never changes after it -/
theorem accAt_top_only (s : Source) (h : ∀ i, 1 ≤ i → s.block i = []) : ∀ r, 1 ≤ r → accAt s r = accAt s 1 := by
  intro r hr
  induction r with
  | zero => omega
  | succ r ih =>
    by_cases h1 : r = 0
    · subst h1; rfl
    · rw [accAt_succ, h r (by omega), List.foldl_nil]; exact ih (by omega)

theorem mergeMissing_nil (m : HMap) : mergeMissing m (cfgMap []) = m := by simp [mergeMissing, cfgMap]

end Pandora.Proofs.C14H
