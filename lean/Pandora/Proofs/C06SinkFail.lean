/-
C06 helper lemmas: invariant of the failing-sink transition system (Model/C06SinkFail.lean).
-/
import Pandora.Model.C06SinkFail

namespace Pandora.Proofs.C06SinkFail
open Pandora.Model.C06SinkFail

/-- what holds of every reachable state -/
structure Inv (kind : Kind) (st : St) : Prop where
  fw : st.failed = st.werr
  sf : st.serr = true → st.failed = true
  live : st.phase ≠ .returned → st.checkedAfterFail = false ∧ st.err = false ∧ st.serr = false ∧ st.closes = 0 ∧
           st.failedInLastFlush = false
  done : st.phase = .returned → st.closes = 1 ∧ st.err = st.checkedAfterFail
  wac : st.writeAfterClose = false
  last : st.failedInLastFlush = true → st.failed = true ∧ st.err = false
  /-- jsonlines: a rejected write that `Run` does not report was the very last flush of the bufio layer -/
  json : kind = .jsonlines → st.phase = .returned → st.failed = true → st.err = false → st.failedInLastFlush = true

theorem inv_init (kind : Kind) : Inv kind {} := by
  refine ⟨rfl, ?_, ?_, ?_, rfl, ?_, ?_⟩ <;> simp

/-- the facts about a helper's result that the invariant needs -/
structure Keeps (st st' : St) : Prop where
  phase : st'.phase = st.phase
  closes : st'.closes = st.closes
  err : st'.err = st.err
  lastF : st'.failedInLastFlush = st.failedInLastFlush
  fw : st.failed = st.werr → st'.failed = st'.werr
  mono : st.failed = true → st'.failed = true
  wac : st.closes = 0 → st'.writeAfterClose = st.writeAfterClose

theorem keeps_refl (st : St) : Keeps st st := ⟨rfl, rfl, rfl, rfl, id, id, fun _ => rfl⟩

theorem keeps_trans {a b c : St} (h1 : Keeps a b) (h2 : Keeps b c) : Keeps a c :=
  ⟨h2.phase.trans h1.phase, h2.closes.trans h1.closes, h2.err.trans h1.err, h2.lastF.trans h1.lastF,
   fun h => h2.fw (h1.fw h), fun h => h2.mono (h1.mono h),
   fun h => (h2.wac (h1.closes.trans h)).trans (h1.wac h)⟩

theorem bflush_keeps (st : St) :
    Keeps st (bflush st).1 ∧ (bflush st).2 = !(bflush st).1.werr ∧ (bflush st).1.serr = st.serr ∧
    (bflush st).1.checkedAfterFail = st.checkedAfterFail := by
  unfold bflush
  split
  · rename_i h; exact ⟨keeps_refl st, by simp [h], rfl, rfl⟩
  · split
    · rename_i h _; exact ⟨keeps_refl st, by simpa using h, rfl, rfl⟩
    · split
      · refine ⟨⟨rfl, rfl, rfl, rfl, fun _ => rfl, fun _ => rfl, ?_⟩, rfl, rfl, rfl⟩
        intro hc; simp [hc]
      · rename_i h _ _
        refine ⟨⟨rfl, rfl, rfl, rfl, id, id, ?_⟩, by simpa using h, rfl, rfl⟩
        intro hc; simp [hc]

theorem bwrite_keeps (st : St) (k : Nat) (spill : Bool) :
    Keeps st (bwrite st k spill).1 ∧ (bwrite st k spill).2 = !(bwrite st k spill).1.werr ∧
    (bwrite st k spill).1.serr = st.serr ∧ (bwrite st k spill).1.checkedAfterFail = st.checkedAfterFail := by
  unfold bwrite
  split
  · rename_i h; exact ⟨keeps_refl st, by simp [h], rfl, rfl⟩
  · rename_i h
    split
    · obtain ⟨b1, b2, b3, b4⟩ := bflush_keeps st
      dsimp only
      split
      · rename_i hok
        rw [b2] at hok
        refine ⟨⟨b1.phase, b1.closes, b1.err, b1.lastF, b1.fw, b1.mono, b1.wac⟩, ?_, b3, b4⟩
        simpa using hok
      · exact ⟨b1, b2, b3, b4⟩
    · refine ⟨⟨rfl, rfl, rfl, rfl, id, id, fun _ => rfl⟩, by simpa using h, rfl, rfl⟩

theorem checked_keeps (st : St) : Keeps st (checked st) :=
  ⟨rfl, rfl, rfl, rfl, id, id, fun _ => rfl⟩

/-- `eflush`: the stream part succeeds iff no failure is visible at that moment; afterwards the ghost says so -/
theorem eflush_keeps (st : St) (spill : Bool) (hfw : st.failed = st.werr) (hsf : st.serr = true → st.failed = true) :
    Keeps st (eflush st spill).1 ∧
    ((eflush st spill).2 = true → (eflush st spill).1.serr = st.serr ∧ st.failed = false ∧
        (eflush st spill).1.checkedAfterFail = st.checkedAfterFail) ∧
    ((eflush st spill).2 = false → (eflush st spill).1.serr = true ∧ (eflush st spill).1.failed = true ∧
        (eflush st spill).1.checkedAfterFail = true) := by
  unfold eflush
  by_cases hs : st.serr = true
  · simp only [hs, if_true]
    obtain ⟨b1, _, b3, b4⟩ := bflush_keeps (checked st)
    have hf := hsf hs
    refine ⟨keeps_trans (checked_keeps st) b1, by simp, fun _ => ⟨?_, ?_, ?_⟩⟩
    · rw [b3]; exact hs
    · exact b1.mono hf
    · rw [b4]; simp [checked, hf]
  · have hs' : st.serr = false := by simpa using hs
    simp only [hs', Bool.false_eq_true, if_false]
    obtain ⟨w1, w2, w3, w4⟩ := bwrite_keeps st st.sbuf spill
    by_cases hw : (bwrite st st.sbuf spill).2 = true
    · simp only [hw, if_true]
      have hwerr : (bwrite st st.sbuf spill).1.werr = false := by rw [w2] at hw; simpa using hw
      have hfail : (bwrite st st.sbuf spill).1.failed = false := by rw [w1.fw hfw]; exact hwerr
      have hpre : st.failed = false := by
        cases h : st.failed with
        | false => rfl
        | true => have := w1.mono h; rw [hfail] at this; cases this
      let m : St := checked { (bwrite st st.sbuf spill).1 with sbuf := 0 }
      obtain ⟨b1, _, b3, b4⟩ := bflush_keeps m
      have km : Keeps st m :=
        ⟨w1.phase, w1.closes, w1.err, w1.lastF, w1.fw, w1.mono, w1.wac⟩
      refine ⟨keeps_trans km b1, fun _ => ⟨?_, hpre, ?_⟩, fun h => by simp at h⟩
      · have e1 : (bflush m).1.serr = st.serr := by rw [b3]; exact w3
        exact e1.trans hs'
      · show (bflush m).1.checkedAfterFail = st.checkedAfterFail
        rw [b4]; show ((bwrite st st.sbuf spill).1.checkedAfterFail || (bwrite st st.sbuf spill).1.failed) = _
        rw [w4, hfail]; simp
    · have hw' : (bwrite st st.sbuf spill).2 = false := by simpa using hw
      simp only [hw', Bool.false_eq_true, if_false]
      have hwerr : (bwrite st st.sbuf spill).1.werr = true := by rw [w2] at hw'; simpa using hw'
      have hfail : (bwrite st st.sbuf spill).1.failed = true := by rw [w1.fw hfw]; exact hwerr
      let m : St := checked { (bwrite st st.sbuf spill).1 with serr := true }
      obtain ⟨b1, _, b3, b4⟩ := bflush_keeps m
      have km : Keeps st m :=
        ⟨w1.phase, w1.closes, w1.err, w1.lastF, w1.fw, w1.mono, w1.wac⟩
      refine ⟨keeps_trans km b1, fun h => by simp at h, fun _ => ⟨?_, ?_, ?_⟩⟩
      · show (bflush m).1.serr = true
        rw [b3]; rfl
      · exact b1.mono hfail
      · show (bflush m).1.checkedAfterFail = true
        rw [b4]; show ((bwrite st st.sbuf spill).1.checkedAfterFail || (bwrite st st.sbuf spill).1.failed) = true
        rw [hfail]; simp

/-- the return path (deferred flush and close) from a state that has not returned yet -/
theorem ret_inv (kind : Kind) (st : St) (errArg spill : Bool)
    (hfw : st.failed = st.werr) (hsf : st.serr = true → st.failed = true)
    (hc : st.closes = 0) (hwac : st.writeAfterClose = false)
    (he : errArg = st.checkedAfterFail) (hef : errArg = true → st.failed = true) :
    Inv kind (ret kind st errArg spill) := by
  cases kind with
  | phout =>
    obtain ⟨b1, _, b3, b4⟩ := bflush_keeps st
    unfold ret
    refine ⟨b1.fw hfw, ?_, ?_, ?_, ?_, ?_, fun hk => by cases hk⟩
    · intro h; exact b1.mono (hsf (b3 ▸ h))
    · intro h; exact absurd rfl h
    · intro _; exact ⟨by show (bflush st).1.closes + 1 = 1; rw [b1.closes, hc], by show errArg = _; rw [b4]; exact he⟩
    · show (bflush st).1.writeAfterClose = false
      rw [b1.wac hc]; exact hwac
    · intro h
      have h' : (!st.failed && (bflush st).1.failed) = true := h
      simp only [Bool.and_eq_true, Bool.not_eq_true'] at h'
      refine ⟨h'.2, ?_⟩
      show errArg = false
      cases hx : errArg with
      | false => rfl
      | true => have := hef hx; rw [h'.1] at this; cases this
  | jsonlines =>
    obtain ⟨k1, k2, k3⟩ := eflush_keeps st spill hfw hsf
    unfold ret
    refine ⟨k1.fw hfw, ?_, ?_, ?_, ?_, ?_, ?_⟩
    · intro h
      show (eflush st spill).1.failed = true
      cases hr : (eflush st spill).2 with
      | true => exact k1.mono (hsf ((k2 hr).1 ▸ h))
      | false => exact (k3 hr).2.1
    · intro h; exact absurd rfl h
    · intro _
      refine ⟨by show (eflush st spill).1.closes + 1 = 1; rw [k1.closes, hc], ?_⟩
      show (errArg || !(eflush st spill).2) = (eflush st spill).1.checkedAfterFail
      cases hr : (eflush st spill).2 with
      | true => rw [(k2 hr).2.2, he]; simp
      | false => rw [(k3 hr).2.2]; simp
    · show (eflush st spill).1.writeAfterClose = false
      rw [k1.wac hc]; exact hwac
    · intro h
      have h' : (!st.failed && (eflush st spill).1.failed && (eflush st spill).2) = true := h
      simp only [Bool.and_eq_true, Bool.not_eq_true'] at h'
      refine ⟨h'.1.2, ?_⟩
      show (errArg || !(eflush st spill).2) = false
      rw [h'.2]
      cases hx : errArg with
      | false => rfl
      | true => have := hef hx; rw [h'.1.1] at this; cases this
    · intro _ _ hf he'
      have hf' : (eflush st spill).1.failed = true := hf
      have he'' : (errArg || !(eflush st spill).2) = false := he'
      simp only [Bool.or_eq_false_iff, Bool.not_eq_false'] at he''
      have hpre := (k2 he''.2).2.1
      show (!st.failed && (eflush st spill).1.failed && (eflush st spill).2) = true
      rw [hpre, hf', he''.2]; rfl

/-- a state that agrees with a good one on everything the invariant looks at -/
theorem inv_of_same {kind : Kind} {st : St} (h : Inv kind st) (st' : St) (e1 : st'.failed = st.failed) (e2 : st'.werr = st.werr)
    (e3 : st'.serr = st.serr) (e4 : st'.phase = st.phase) (e5 : st'.checkedAfterFail = st.checkedAfterFail)
    (e6 : st'.err = st.err) (e7 : st'.closes = st.closes) (e8 : st'.failedInLastFlush = st.failedInLastFlush)
    (e9 : st'.writeAfterClose = st.writeAfterClose) : Inv kind st' := by
  refine ⟨by rw [e1, e2]; exact h.fw, by rw [e1, e3]; exact h.sf, ?_, ?_, by rw [e9]; exact h.wac,
    by rw [e8, e1, e6]; exact h.last, by rw [e4, e1, e6, e8]; exact h.json⟩
  · rw [e4, e5, e6, e3, e7, e8]; exact h.live
  · rw [e4, e5, e6, e7]; exact h.done

theorem inv_ite {kind : Kind} {c : Bool} {a b : St} (ha : c = true → Inv kind a) (hb : c = false → Inv kind b) :
    Inv kind (if c then a else b) := by
  cases c
  · simpa using hb rfl
  · simpa using ha rfl

/-- `handle`, then either go on or return its error -/
theorem handle_inv (kind : Kind) (st : St) (spill : Bool) (h : Inv kind st) (hp : st.phase ≠ .returned) :
    Inv kind (if (handle kind st spill).2 then (handle kind st spill).1 else ret kind (handle kind st spill).1 true spill) := by
  obtain ⟨l1, l2, l3, l4, l5⟩ := h.live hp
  cases kind with
  | jsonlines =>
    have hok : (handle .jsonlines st spill).2 = true := by simp [handle, l3]
    rw [if_pos hok]
    exact inv_of_same h _ rfl rfl rfl rfl rfl rfl rfl rfl rfl
  | phout =>
    obtain ⟨w1, w2, w3, w4⟩ := bwrite_keeps { st with q := st.q - 1 } 1 spill
    simp only [handle]
    apply inv_ite
    · intro hw
      have hwerr : (bwrite { st with q := st.q - 1 } 1 spill).1.werr = false := by rw [w2] at hw; simpa using hw
      have hfail : (bwrite { st with q := st.q - 1 } 1 spill).1.failed = false := by rw [w1.fw h.fw]; exact hwerr
      refine ⟨w1.fw h.fw, ?_, ?_, ?_, ?_, ?_, fun hk => by cases hk⟩
      · intro hs; have : st.serr = true := w3 ▸ hs; rw [l3] at this; cases this
      · intro _
        refine ⟨?_, w1.err.trans l2, w3.trans l3, w1.closes.trans l4, w1.lastF.trans l5⟩
        show ((bwrite { st with q := st.q - 1 } 1 spill).1.checkedAfterFail ||
              (bwrite { st with q := st.q - 1 } 1 spill).1.failed) = false
        rw [w4, hfail]; simpa using l1
      · intro hr; exact absurd (hr.symm.trans w1.phase) (fun e => hp e.symm)
      · exact (w1.wac l4).trans h.wac
      · intro hl; have : st.failedInLastFlush = true := (w1.lastF ▸ hl); rw [l5] at this; cases this
    · intro hw
      have hwerr : (bwrite { st with q := st.q - 1 } 1 spill).1.werr = true := by rw [w2] at hw; simpa using hw
      have hfail : (bwrite { st with q := st.q - 1 } 1 spill).1.failed = true := by rw [w1.fw h.fw]; exact hwerr
      apply ret_inv
      · exact w1.fw h.fw
      · intro _; exact hfail
      · exact w1.closes.trans l4
      · exact (w1.wac l4).trans h.wac
      · show true = ((bwrite { st with q := st.q - 1 } 1 spill).1.checkedAfterFail ||
              (bwrite { st with q := st.q - 1 } 1 spill).1.failed)
        rw [hfail]; simp
      · intro _; exact hfail

theorem inv_step (kind : Kind) {st : St} (h : Inv kind st) (e : Ev) : Inv kind (step kind st e) := by
  have same := fun st' => inv_of_same h st'
  cases e with
  | report => exact same _ rfl rfl rfl rfl rfl rfl rfl rfl rfl
  | sinkBreaks => exact same _ rfl rfl rfl rfl rfl rfl rfl rfl rfl
  | cancel => exact same _ rfl rfl rfl rfl rfl rfl rfl rfl rfl
  | seeCancel =>
    simp only [step]
    split
    · split
      · rename_i hp _
        have hl := h.live (by rw [hp]; decide)
        refine ⟨h.fw, h.sf, fun _ => hl, fun hr => by simp at hr, h.wac, h.last, fun _ hr => by simp at hr⟩
      · exact h
    · exact h
  | recv spill =>
    simp only [step]
    split
    · rename_i hp
      split
      · exact h
      · exact handle_inv kind st spill h (by rw [hp]; decide)
    · exact h
  | drain spill =>
    simp only [step]
    split
    · rename_i hp
      have hne : st.phase ≠ .returned := by rw [hp]; decide
      obtain ⟨l1, l2, l3, l4, l5⟩ := h.live hne
      split
      · exact ret_inv kind st false spill h.fw h.sf l4 h.wac (by rw [l1]) (fun hx => by cases hx)
      · exact handle_inv kind st spill h hne
    · exact h
  | tick spill =>
    simp only [step]
    split
    · rename_i hp
      have hne : st.phase ≠ .returned := by rw [hp]; decide
      obtain ⟨l1, l2, l3, l4, l5⟩ := h.live hne
      cases kind with
      | phout =>
        obtain ⟨b1, _, b3, b4⟩ := bflush_keeps st
        simp only
        refine ⟨b1.fw h.fw, ?_, ?_, ?_, (b1.wac l4).trans h.wac, ?_, fun hk => by cases hk⟩
        · intro hs; rw [b3, l3] at hs; cases hs
        · intro _; exact ⟨b4.trans l1, b1.err.trans l2, b3.trans l3, b1.closes.trans l4, b1.lastF.trans l5⟩
        · intro hr; exact absurd (hr.symm.trans b1.phase) (fun e => hne e.symm)
        · intro hl; rw [b1.lastF, l5] at hl; cases hl
      | jsonlines =>
        simp only
        split
        · obtain ⟨k1, k2, k3⟩ := eflush_keeps st spill h.fw h.sf
          apply inv_ite
          · intro hr
            obtain ⟨r1, r2, r3⟩ := k2 hr
            refine ⟨k1.fw h.fw, ?_, ?_, ?_, (k1.wac l4).trans h.wac, ?_,
              fun _ hx => absurd (Eq.symm (Eq.trans (Eq.symm hx) k1.phase)) hne⟩
            · intro hs
              have : (eflush st spill).1.serr = true := hs
              rw [r1, l3] at this; cases this
            · intro _; exact ⟨r3.trans l1, k1.err.trans l2, r1.trans l3, k1.closes.trans l4, k1.lastF.trans l5⟩
            · intro hx; exact absurd (Eq.symm (hx.symm.trans k1.phase)) hne
            · intro hl
              have : (eflush st spill).1.failedInLastFlush = true := hl
              rw [k1.lastF, l5] at this; cases this
          · intro hr
            obtain ⟨r1, r2, r3⟩ := k3 hr
            apply ret_inv
            · exact k1.fw h.fw
            · intro _; exact r2
            · exact k1.closes.trans l4
            · exact (k1.wac l4).trans h.wac
            · exact r3.symm
            · intro _; exact r2
        · exact same _ rfl rfl rfl rfl rfl rfl rfl rfl rfl
    · exact h

theorem inv_run (kind : Kind) (tr : List Ev) {st : St} (h : Inv kind st) : Inv kind (run kind st tr) := by
  induction tr generalizing st with
  | nil => exact h
  | cons e es ih => exact ih (inv_step kind h e)

/-- jsonlines: a failure that was there before the return path began makes the final stream flush fail -/
theorem json_pre_failed (st : St) (spill : Bool) (hfw : st.failed = st.werr) (hsf : st.serr = true → st.failed = true)
    (hf : st.failed = true) : (eflush st spill).2 = false := by
  obtain ⟨_, k2, _⟩ := eflush_keeps st spill hfw hsf
  cases hr : (eflush st spill).2 with
  | false => rfl
  | true => have := (k2 hr).2.1; rw [hf] at this; cases this

end Pandora.Proofs.C06SinkFail
