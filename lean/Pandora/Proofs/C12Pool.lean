/-
C12 — the pool layer (`Pandora.Model.C12` in Model/C12Pool.lean) refines the abstract startup transition system; an exit
produced by a pass of `instance.Run` is an enabled abstract exit; the pool cancels the run by itself only when no
instance runs and no result is in flight.  Core Lean only.
-/
import Pandora.Model.C12Pool
import Pandora.Proofs.C12

namespace Pandora.Proofs.C12
open Pandora.Model.C04 Pandora.Model.C12 Pandora.Proofs.C04 Pandora.Go.C12

/-! ### frames: events that only set flags -/

/-- `b` differs from `s` in flags only -/
structure Frame (s b : St) : Prop where
  phase : b.phase = s.phase
  started : b.started = s.started
  running : b.running = s.running
  created : b.created = s.created
  ammoOut : b.ammoOut = s.ammoOut
  ret : b.ret = s.ret

theorem Frame.refl (s : St) : Frame s s := ⟨rfl, rfl, rfl, rfl, rfl, rfl⟩

theorem Frame.trans {a b d : St} (h1 : Frame a b) (h2 : Frame b d) : Frame a d :=
  ⟨h2.phase.trans h1.phase, h2.started.trans h1.started, h2.running.trans h1.running, h2.created.trans h1.created,
    h2.ammoOut.trans h1.ammoOut, h2.ret.trans h1.ret⟩

theorem frame_rps (c : Cfg) (s : St) : Frame s (step c s .rpsFinished) := by
  show Frame s (if c.perInstance || !anyInstance s then s else _)
  split
  · exact Frame.refl s
  · exact ⟨rfl, rfl, rfl, rfl, rfl, rfl⟩

theorem rps_runCtx (c : Cfg) (s : St) : (step c s .rpsFinished).runCtxDone = s.runCtxDone := by
  show (if c.perInstance || !anyInstance s then s else _).runCtxDone = _
  split <;> rfl

theorem frame_ammoRes (c : Cfg) (s : St) : Frame s (step c s .outOfAmmoResult) := by
  show Frame s (if !s.ammoOut then s else _)
  split
  · exact Frame.refl s
  · exact ⟨rfl, rfl, rfl, rfl, rfl, rfl⟩

theorem frame_cancel (c : Cfg) (s : St) : Frame s (step c s .runCancel) := ⟨rfl, rfl, rfl, rfl, rfl, rfl⟩

/-- the abstract event an action of the pool is -/
def evOfAct : PoolAct → Event
  | .cancel .start => .outOfAmmoResult
  | .cancel .run => .runCancel
  | .reportErr => .runCancel

theorem applyAct_eq (c : Cfg) (s : St) (a : PoolAct) : applyAct c s a = step c s (evOfAct a) := by
  cases a with
  | cancel x => cases x <;> rfl
  | reportErr => rfl

theorem frame_applyAct (c : Cfg) (s : St) (a : PoolAct) : Frame s (applyAct c s a) := by
  rw [applyAct_eq]
  cases a with
  | cancel x => cases x
                · exact frame_ammoRes c s
                · exact frame_cancel c s
  | reportErr => exact frame_cancel c s

theorem frame_acts (c : Cfg) (acts : List PoolAct) (s : St) : Frame s (acts.foldl (applyAct c) s) := by
  induction acts generalizing s with
  | nil => exact Frame.refl s
  | cons a rest ih => exact (frame_applyAct c s a).trans (ih _)

theorem acts_eq_run (c : Cfg) (acts : List PoolAct) (s : St) :
    acts.foldl (applyAct c) s = run c s (acts.map evOfAct) := by
  induction acts generalizing s with
  | nil => rfl
  | cons a rest ih =>
    simp only [List.foldl_cons, List.map_cons, run]
    rw [applyAct_eq, ih]
    rfl

theorem run_append (c : Cfg) (s : St) (a b : List Event) : run c s (a ++ b) = run c (run c s a) b := by
  simp [run, List.foldl_append]

/-- an event of the start loop or the caller's cancel in a state whose start loop has returned changes flags only -/
theorem frame_loop_done (c : Cfg) (all : List Int) (s : St) (ev : Event) (h : Inv c all s) (hl : isLoopEvent ev = true)
    (hd : s.phase = .done) : Frame s (step c s ev) := by
  have hpn : s.pending = none := by
    cases hp : s.pending with
    | none => rfl
    | some q =>
      have := (h.pend q hp).1
      rw [hd] at this; cases this
  cases ev with
  | wait env createOk delay =>
    show Frame s (stepWait c s env createOk delay)
    unfold stepWait
    have hg : (s.phase != .starting || s.pending.isSome || !envMatches s env) = true := by simp [hd]
    rw [if_pos hg]
    exact Frame.refl s
  | timerFire =>
    show Frame s (stepFire c s)
    unfold stepFire
    rw [hpn]
    exact Frame.refl s
  | wakeCancelled =>
    show Frame s (stepWake c s)
    unfold stepWake
    rw [hpn]
    exact Frame.refl s
  | runCancel => exact frame_cancel c s
  | outOfAmmoResult => cases hl
  | rpsFinished => cases hl
  | instanceExit id r => cases hl

/-! ### counting: goroutines launched = results awaited + results in flight + instances running -/

theorem newFailures_same (s b : St) (h : b.created = s.created) : newFailures s b = [] := by
  simp [newFailures, h]

theorem counts_same (s b : St) (h1 : b.started = s.started) (h2 : b.running = s.running) (h3 : b.created = s.created) :
    (b.started : Int) = s.started + ((b.running.length : Int) - s.running.length) + ((newFailures s b).length : Int) := by
  rw [newFailures_same s b h3, h1, h2]
  simp

theorem complete_counts (s : St) (r : Res) (p : Pending) :
    ((complete s r p).started : Int) = s.started + (((complete s r p).running.length : Int) - s.running.length) +
      ((newFailures s (complete s r p)).length : Int) := by
  unfold complete newFailures
  dsimp only
  by_cases hok : r.ok = true
  · by_cases h0 : (s.started == 0) = true
    · have hs0 : s.started = 0 := by simpa using h0
      by_cases hc : p.createOk = true <;> by_cases hd : drew r.path = true <;> simp [hok, hc, hd, hs0] <;> omega
    · by_cases hc : p.createOk = true <;> by_cases hd : drew r.path = true <;> simp [hok, h0, hc, hd] <;> omega
  · have hok' : r.ok = false := by simpa using hok
    by_cases hd : drew r.path = true <;> simp [hok', hd]

theorem complete_ammoOut (s : St) (r : Res) (p : Pending) : (complete s r p).ammoOut = s.ammoOut := by
  unfold complete
  dsimp only
  (repeat' split) <;> rfl

/-- goroutines launched by a step = instances that began to run + creations that failed; ammo untouched -/
def Counts (s b : St) : Prop :=
  (b.started : Int) = s.started + ((b.running.length : Int) - s.running.length) + ((newFailures s b).length : Int) ∧
    b.ammoOut = s.ammoOut

theorem Counts.same (s b : St) (h1 : b.started = s.started) (h2 : b.running = s.running) (h3 : b.created = s.created)
    (h4 : b.ammoOut = s.ammoOut) : Counts s b := ⟨counts_same s b h1 h2 h3, h4⟩

theorem Counts.complete (s : St) (r : Res) (p : Pending) : Counts s (complete s r p) :=
  ⟨complete_counts s r p, complete_ammoOut s r p⟩

theorem loop_counts (c : Cfg) (s : St) (ev : Event) (hl : isLoopEvent ev = true) : Counts s (step c s ev) := by
  cases ev with
  | wait env createOk delay =>
    show Counts s (stepWait c s env createOk delay)
    unfold stepWait
    split
    · exact Counts.same s s rfl rfl rfl rfl
    · dsimp only
      split
      · exact Counts.same s _ rfl rfl rfl rfl
      · exact Counts.complete s _ _
  | timerFire =>
    show Counts s (stepFire c s)
    unfold stepFire
    split
    · exact Counts.same s s rfl rfl rfl rfl
    · exact Counts.complete s _ _
  | wakeCancelled =>
    show Counts s (stepWake c s)
    unfold stepWake
    split
    · exact Counts.same s s rfl rfl rfl rfl
    · split
      · exact Counts.same s s rfl rfl rfl rfl
      · exact Counts.complete s _ _
  | runCancel => exact Counts.same s _ rfl rfl rfl rfl
  | outOfAmmoResult => cases hl
  | rpsFinished => cases hl
  | instanceExit id r => cases hl

theorem newFailures_kind (s b : St) : ∀ x ∈ newFailures s b, x.2 = ResKind.createErr := by
  intro x hx
  simp only [newFailures, List.mem_filterMap] at hx
  obtain ⟨cr, _, hcr⟩ := hx
  by_cases hk : cr.ok = true
  · simp [hk] at hcr
  · simp only [hk, Bool.false_eq_true, if_false, Option.some.injEq] at hcr
    rw [← hcr]

/-! ### an exit produced by a pass of `instance.Run` is an enabled abstract exit -/

theorem anyInstance_of_running {c : Cfg} {all : List Int} {s : St} (h : Inv c all s) {id : Nat} (hid : id ∈ s.running) :
    anyInstance s = true := by
  obtain ⟨cr, hcr, _, hok⟩ := h.running id hid
  simp only [anyInstance, List.any_eq_true]
  exact ⟨cr, hcr, hok⟩

/-- the state after the finish callback this pass may run -/
def afterCallback (c : Cfg) (s : St) (it : RunIter) (nextEmpty : Bool) : St :=
  if firesCallback c.perInstance it nextEmpty then step c s .rpsFinished else s

theorem frame_afterCallback (c : Cfg) (s : St) (it : RunIter) (ne : Bool) : Frame s (afterCallback c s it ne) := by
  unfold afterCallback
  split
  · exact frame_rps c s
  · exact Frame.refl s

/-- The link between the returns of `instance.Run` and the exit reasons of the abstract system: in a reachable state, a
pass of the loop of a running instance that sees what the state allows (`iterMatches`) and ends the instance, ends it
with a reason whose abstract exit is ENABLED after the finish callback the pass itself may have run:
"cancelled" only with the run context done, "schedule exhausted" only for a per-instance schedule or after the shared
schedule has reported its end (which this very pass does, through `Left()`), and "out of ammo" only after the provider
refused it. -/
theorem iter_exit_enabled (c : Cfg) (all : List Int) (s : St) (h : Inv c all s) (id : Nat) (hid : id ∈ s.running)
    (it : RunIter) (e ne : Bool) (hm : iterMatches s it e ne = true) (r : ExitReason)
    (hr : iterOutcome it e = some r) :
    exitEnabled c (afterCallback c s it ne) r = true ∧ (r = .ammoEnd → it.ammoOk = false) ∧
      (r = .cancelled → s.runCtxDone = true) ∧ r ≠ .error := by
  simp only [iterMatches, Bool.and_eq_true, Bool.or_eq_true, Bool.not_eq_true'] at hm
  obtain ⟨⟨⟨_, h2⟩, h3⟩, _⟩ := hm
  unfold iterOutcome at hr
  simp only [instRun] at hr
  by_cases hf : instFinished it.ctxDone it.left = true
  · -- `return ctx.Err()`
    simp only [hf, Bool.not_true, Bool.false_eq_true, if_false, exitReasonOf, Option.some.injEq] at hr
    by_cases he : e = true
    · simp only [he, if_true] at hr
      subst hr
      have hrc : s.runCtxDone = true := by
        rcases h2 with h2 | h2
        · rw [he] at h2; cases h2
        · exact h2
      refine ⟨?_, (by intro hx; cases hx), fun _ => hrc, (by intro hx; cases hx)⟩
      show (afterCallback c s it ne).runCtxDone = true
      unfold afterCallback
      split
      · rw [rps_runCtx]; exact hrc
      · exact hrc
    · have he' : e = false := by simpa using he
      simp only [he', Bool.false_eq_true, if_false] at hr
      subst hr
      refine ⟨?_, (by intro hx; cases hx), (by intro hx; cases hx), (by intro hx; cases hx)⟩
      have hcd : it.ctxDone = false := by
        rcases h3 with h3 | h3
        · exact h3
        · rw [he'] at h3; cases h3
      have hl0 : (it.left == 0) = true := by
        simpa [instFinished, hcd] using hf
      show (c.perInstance || (afterCallback c s it ne).sharedRpsDone) = true
      by_cases hp : c.perInstance = true
      · simp [hp]
      · have hp' : c.perInstance = false := by simpa using hp
        have hfire : firesCallback c.perInstance it ne = true := by
          simp [firesCallback, hp', hcd, hl0]
        have hany := anyInstance_of_running h hid
        unfold afterCallback
        rw [if_pos hfire]
        show (c.perInstance || (if c.perInstance || !anyInstance s then s else _).sharedRpsDone) = true
        simp [hp', hany]
  · -- the body
    have hf' : instFinished it.ctxDone it.left = false := by simpa using hf
    simp only [hf', Bool.not_false, if_true] at hr
    by_cases ha : it.ammoOk = true
    · have hb : instBody it.ammoOk it.waitOk = .nil := by simp [instBody, ha]
      simp [hb, exitReasonOf] at hr
    · have ha' : it.ammoOk = false := by simpa using ha
      have hb : instBody it.ammoOk it.waitOk = .outOfAmmo := by simp [instBody, ha']
      rw [hb] at hr
      simp only [show (BodyErr.outOfAmmo != BodyErr.nil) = true by decide, if_true, exitReasonOf,
        Option.some.injEq] at hr
      subst hr
      exact ⟨rfl, fun _ => ha', (by intro hx; cases hx), (by intro hx; cases hx)⟩

/-- `instance.Run` is the iteration of single passes -/
theorem instRun_cons (it : RunIter) (rest : List RunIter) :
    instRun (it :: rest) = if instRun [it] = .running then instRun rest else instRun [it] := by
  simp only [instRun]
  by_cases hf : instFinished it.ctxDone it.left = true
  · simp [hf]
  · simp only [hf, Bool.not_false, if_true]
    by_cases hb : (instBody it.ammoOk it.waitOk != .nil) = true
    · simp [hb]
    · simp [hb]

/-! ### invariant of the pool layer -/

structure PInv (c : Cfg) (all : List Int) (p : PSt) : Prop where
  inv : Inv c all p.base
  count : p.aw.awaited + (p.pending.length : Int) + (p.base.running.length : Int) = (p.base.started : Int)
  startFin : p.aw.startFinished = true → p.base.phase = .done ∧ p.aw.started = (p.base.started : Int)
  pendAmmo : ∀ x ∈ p.pending, x.2 = .exit .ammoEnd → p.base.ammoOut = true
  cancelled : p.poolCancelled = true → p.base.running = [] ∧ p.pending = [] ∧ p.aw.startFinished = true

theorem PInv.init (c : Cfg) (all : List Int) : PInv c all (PSt.init all) :=
  ⟨Inv.init c all, by simp [PSt.init, St.init], by intro h; simp [PSt.init] at h, by intro x hx; simp [PSt.init] at hx,
    by intro h; simp [PSt.init] at h⟩

/-- what `checkAllInstancesAreFinished` needs: the other fields carried over, and if it fires, everything has finished -/
theorem checkAll_inv (c : Cfg) (all : List Int) (p : PSt) (hinv : Inv c all p.base)
    (hcount : p.aw.awaited + (p.pending.length : Int) + (p.base.running.length : Int) = (p.base.started : Int))
    (hstart : p.aw.startFinished = true → p.base.phase = .done ∧ p.aw.started = (p.base.started : Int))
    (hammo : ∀ x ∈ p.pending, x.2 = .exit .ammoEnd → p.base.ammoOut = true)
    (hcan : p.poolCancelled = true → p.base.running = [] ∧ p.pending = [] ∧ p.aw.startFinished = true) :
    PInv c all (checkAll p) := by
  unfold checkAll
  by_cases hall : allFinished p.aw = true
  · rw [if_pos hall]
    refine ⟨hinv, hcount, hstart, hammo, fun _ => ?_⟩
    simp only [allFinished, Bool.and_eq_true, decide_eq_true_eq] at hall
    obtain ⟨hsf, hle⟩ := hall
    have hst := (hstart hsf).2
    have hp : p.pending.length = 0 := by omega
    have hr : p.base.running.length = 0 := by omega
    exact ⟨List.length_eq_zero_iff.mp hr, List.length_eq_zero_iff.mp hp, hsf⟩
  · rw [if_neg hall]
    exact ⟨hinv, hcount, hstart, hammo, hcan⟩

theorem acts_inv (c : Cfg) (all : List Int) (acts : List PoolAct) (s : St) (h : Inv c all s) :
    Inv c all (acts.foldl (applyAct c) s) := by
  rw [acts_eq_run]
  exact run_inv c all s _ h

/-- the base state of `leave` is the abstract exit event -/
theorem leave_base (c : Cfg) (p : PSt) (b : St) (id : Nat) (r : ExitReason) (hid : b.running.contains id = true)
    (hen : exitEnabled c b r = true) : (leave p b id r).base = step c b (.instanceExit id r) := by
  show _ = stepExit c b id r
  unfold stepExit leave
  have hid' : id ∈ b.running := by simpa using hid
  simp [hid', hen]

theorem poolStep_inv (c : Cfg) (all : List Int) (p : PSt) (ev : PEvent) (h : PInv c all p) : PInv c all (poolStep c p ev) := by
  cases ev with
  | loop ev =>
    show PInv c all (if !isLoopEvent ev then p else _)
    by_cases hl : isLoopEvent ev = true
    · simp only [hl, Bool.not_true, Bool.false_eq_true, if_false]
      obtain ⟨hcnt, hao⟩ := loop_counts c p.base ev hl
      refine ⟨step_inv c all p.base ev h.inv, ?_, ?_, ?_, ?_⟩
      · have := h.count
        simp only [List.length_append]
        push_cast
        omega
      · intro hsf
        obtain ⟨hd, hst⟩ := h.startFin hsf
        have hfr := frame_loop_done c all p.base ev h.inv hl hd
        exact ⟨hfr.phase.trans hd, by rw [hfr.started]; exact hst⟩
      · intro x hx hk
        simp only [List.mem_append] at hx
        rcases hx with hx | hx
        · rw [hao]; exact h.pendAmmo x hx hk
        · have := newFailures_kind _ _ x hx
          rw [this] at hk; cases hk
      · intro hpc
        obtain ⟨hr, hp, hsf⟩ := h.cancelled hpc
        obtain ⟨hd, _⟩ := h.startFin hsf
        have hfr := frame_loop_done c all p.base ev h.inv hl hd
        refine ⟨hfr.running.trans hr, ?_, hsf⟩
        rw [hp, newFailures_same _ _ hfr.created]
        rfl
    · simpa [hl] using h
  | iter id it e ne =>
    show PInv c all (if !p.base.running.contains id || !iterMatches p.base it e ne then p else _)
    by_cases hg : (!p.base.running.contains id || !iterMatches p.base it e ne) = true
    · rw [if_pos hg]; exact h
    · rw [if_neg hg]
      simp only [Bool.or_eq_true, Bool.not_eq_true', not_or, Bool.not_eq_false] at hg
      obtain ⟨hc, hm⟩ := hg
      have hid : id ∈ p.base.running := by simpa using hc
      have hfr := frame_afterCallback c p.base it ne
      have hbinv : Inv c all (afterCallback c p.base it ne) := by
        unfold afterCallback
        split
        · exact step_inv c all _ _ h.inv
        · exact h.inv
      have hnc : p.poolCancelled = false := by
        cases hpc : p.poolCancelled with
        | false => rfl
        | true =>
          have := (h.cancelled hpc).1
          rw [this] at hid; cases hid
      show PInv c all (match iterOutcome it e with
        | none => { p with base := afterCallback c p.base it ne }
        | some r => leave p (afterCallback c p.base it ne) id r)
      cases hr : iterOutcome it e with
      | none =>
        refine ⟨hbinv, ?_, ?_, ?_, ?_⟩
        · show p.aw.awaited + (p.pending.length : Int) + ((afterCallback c p.base it ne).running.length : Int) = _
          rw [hfr.running, hfr.started]; exact h.count
        · intro hsf
          obtain ⟨hd, hst⟩ := h.startFin hsf
          exact ⟨hfr.phase.trans hd, by show p.aw.started = ((afterCallback c p.base it ne).started : Int); rw [hfr.started]; exact hst⟩
        · intro x hx hk
          show (afterCallback c p.base it ne).ammoOut = true
          rw [hfr.ammoOut]; exact h.pendAmmo x hx hk
        · intro hpc
          show _ ∧ _ ∧ _
          rw [hnc] at hpc; cases hpc
      | some r =>
        obtain ⟨hen, _, _, _⟩ := iter_exit_enabled c all p.base h.inv id hid it e ne hm r hr
        have hcb : (afterCallback c p.base it ne).running.contains id = true := by rw [hfr.running]; exact hc
        have hbase := leave_base c p _ id r hcb hen
        refine ⟨by rw [hbase]; exact step_inv c all _ _ hbinv, ?_, ?_, ?_, ?_⟩
        · show p.aw.awaited + ((p.pending ++ [(id, ResKind.exit r)]).length : Int) +
            (((afterCallback c p.base it ne).running.erase id).length : Int) = ((afterCallback c p.base it ne).started : Int)
          rw [hfr.running, hfr.started, List.length_erase_of_mem hid]
          have := h.count
          have hpos : 0 < p.base.running.length := List.length_pos_of_mem hid
          simp only [List.length_append, List.length_singleton]
          push_cast
          omega
        · intro hsf
          obtain ⟨hd, hst⟩ := h.startFin hsf
          exact ⟨hfr.phase.trans hd, by show p.aw.started = ((afterCallback c p.base it ne).started : Int); rw [hfr.started]; exact hst⟩
        · intro x hx hk
          show ((afterCallback c p.base it ne).ammoOut || r == .ammoEnd) = true
          have hx : x ∈ p.pending ++ [(id, ResKind.exit r)] := hx
          simp only [List.mem_append, List.mem_singleton] at hx
          rcases hx with hx | hx
          · rw [hfr.ammoOut, h.pendAmmo x hx hk]; rfl
          · subst hx
            simp only [ResKind.exit.injEq] at hk
            subst hk
            simp
        · intro hpc
          have : p.poolCancelled = true := hpc
          rw [hnc] at this; cases this
  | panic id =>
    show PInv c all (if !p.base.running.contains id then p else leave p p.base id .error)
    by_cases hc : p.base.running.contains id = true
    · simp only [hc, Bool.not_true, Bool.false_eq_true, if_false]
      have hid : id ∈ p.base.running := by simpa using hc
      have hnc : p.poolCancelled = false := by
        cases hpc : p.poolCancelled with
        | false => rfl
        | true =>
          have := (h.cancelled hpc).1
          rw [this] at hid; cases hid
      have hbase := leave_base c p p.base id .error hc rfl
      refine ⟨by rw [hbase]; exact step_inv c all _ _ h.inv, ?_, ?_, ?_, ?_⟩
      · show p.aw.awaited + ((p.pending ++ [(id, ResKind.exit .error)]).length : Int) +
            ((p.base.running.erase id).length : Int) = (p.base.started : Int)
        rw [List.length_erase_of_mem hid]
        have := h.count
        have hpos : 0 < p.base.running.length := List.length_pos_of_mem hid
        simp only [List.length_append, List.length_singleton]
        push_cast
        omega
      · exact h.startFin
      · intro x hx hk
        show (p.base.ammoOut || ExitReason.error == .ammoEnd) = true
        have hx : x ∈ p.pending ++ [(id, ResKind.exit .error)] := hx
        simp only [List.mem_append, List.mem_singleton] at hx
        rcases hx with hx | hx
        · rw [h.pendAmmo x hx hk]; rfl
        · subst hx
          simp at hk
      · intro hpc
        have : p.poolCancelled = true := hpc
        rw [hnc] at this; cases this
    · have hn : (!p.base.running.contains id) = true := by
        cases hcc : p.base.running.contains id with
        | true => exact absurd hcc hc
        | false => rfl
      rw [if_pos hn]; exact h
  | recvRun i =>
    show PInv c all (match p.pending[i]? with
      | none => p
      | some (_, k) => _)
    cases hpi : p.pending[i]? with
    | none => exact h
    | some x =>
      obtain ⟨xid, k⟩ := x
      have hilt : i < p.pending.length := by
        rcases List.getElem?_eq_some_iff.mp hpi with ⟨hlt, _⟩
        exact hlt
      have hnc : p.poolCancelled = false := by
        cases hpc : p.poolCancelled with
        | false => rfl
        | true =>
          have := (h.cancelled hpc).2.1
          rw [this] at hilt; simp at hilt
      let acts := onRunResult (k == .exit .ammoEnd) p.aw.startFinished
        (fun _ => k == .exit .scheduleEnd || k == .exit .cancelled)
      have hfr := frame_acts c acts p.base
      refine checkAll_inv c all _ (acts_inv c all acts p.base h.inv) ?_ ?_ ?_ ?_
      · show (onRunResAwait p.aw).awaited + ((p.pending.eraseIdx i).length : Int) +
          ((acts.foldl (applyAct c) p.base).running.length : Int) = ((acts.foldl (applyAct c) p.base).started : Int)
        rw [hfr.running, hfr.started, List.length_eraseIdx_of_lt hilt]
        have := h.count
        simp only [onRunResAwait]
        omega
      · intro hsf
        have hsf' : p.aw.startFinished = true := hsf
        obtain ⟨hd, hst⟩ := h.startFin hsf'
        exact ⟨hfr.phase.trans hd, by show p.aw.started = _; rw [hfr.started]; exact hst⟩
      · intro y hy hk
        show (acts.foldl (applyAct c) p.base).ammoOut = true
        rw [hfr.ammoOut]
        exact h.pendAmmo y (List.mem_of_mem_eraseIdx hy) hk
      · intro hpc
        have : p.poolCancelled = true := hpc
        rw [hnc] at this; cases this
  | recvStart =>
    show PInv c all (if p.base.phase != .done || p.aw.startFinished then p else _)
    by_cases hg : (p.base.phase != .done || p.aw.startFinished) = true
    · rw [if_pos hg]; exact h
    · rw [if_neg hg]
      simp only [Bool.or_eq_true, not_or, Bool.not_eq_true, bne_eq_false_iff_eq] at hg
      obtain ⟨hd, hsf⟩ := hg
      let acts := onStartResult (fun _ => p.base.ret != .create)
      have hfr := frame_acts c acts p.base
      refine checkAll_inv c all _ (acts_inv c all acts p.base h.inv) ?_ ?_ ?_ ?_
      · show (onStartResAwait p.aw p.base.started).awaited + (p.pending.length : Int) +
          ((acts.foldl (applyAct c) p.base).running.length : Int) = ((acts.foldl (applyAct c) p.base).started : Int)
        rw [hfr.running, hfr.started]
        exact h.count
      · intro _
        exact ⟨hfr.phase.trans hd, by show (p.base.started : Int) = _; rw [hfr.started]⟩
      · intro y hy hk
        show (acts.foldl (applyAct c) p.base).ammoOut = true
        rw [hfr.ammoOut]
        exact h.pendAmmo y hy hk
      · intro hpc
        have hpc' : p.poolCancelled = true := hpc
        have := (h.cancelled hpc').2.2
        rw [hsf] at this; cases this

  | recvOther ce =>
    let acts := onOtherResult (fun _ => ce)
    have hfr := frame_acts c acts p.base
    refine ⟨acts_inv c all acts p.base h.inv, ?_, ?_, ?_, ?_⟩
    · show p.aw.awaited + (p.pending.length : Int) + ((acts.foldl (applyAct c) p.base).running.length : Int) =
        ((acts.foldl (applyAct c) p.base).started : Int)
      rw [hfr.running, hfr.started]
      exact h.count
    · intro hsf
      obtain ⟨hd, hst⟩ := h.startFin hsf
      exact ⟨hfr.phase.trans hd, by
        show p.aw.started = ((acts.foldl (applyAct c) p.base).started : Int)
        rw [hfr.started]; exact hst⟩
    · intro y hy hk
      show (acts.foldl (applyAct c) p.base).ammoOut = true
      rw [hfr.ammoOut]
      exact h.pendAmmo y hy hk
    · intro hpc
      obtain ⟨h1, h2, h3⟩ := h.cancelled hpc
      exact ⟨by show (acts.foldl (applyAct c) p.base).running = []; rw [hfr.running]; exact h1, h2, h3⟩

theorem poolRun_inv (c : Cfg) (all : List Int) (p : PSt) (evs : List PEvent) (h : PInv c all p) :
    PInv c all (poolRun c p evs) := by
  induction evs generalizing p with
  | nil => exact h
  | cons ev rest ih => exact ih _ (poolStep_inv c all p ev h)

/-! ### refinement -/

/-- every step of the pool layer is a (possibly empty) sequence of steps of the abstract system -/
theorem poolStep_refines (c : Cfg) (all : List Int) (p : PSt) (ev : PEvent) (h : PInv c all p) :
    ∃ evs, (poolStep c p ev).base = run c p.base evs := by
  cases ev with
  | loop ev =>
    by_cases hl : isLoopEvent ev = true
    · exact ⟨[ev], by simp [poolStep, hl, run]⟩
    · exact ⟨[], by simp [poolStep, hl, run]⟩
  | iter id it e ne =>
    by_cases hg : (!p.base.running.contains id || !iterMatches p.base it e ne) = true
    · exact ⟨[], by simp only [poolStep]; rw [if_pos hg]; rfl⟩
    · have hg' := hg
      simp only [Bool.or_eq_true, Bool.not_eq_true', not_or, Bool.not_eq_false] at hg'
      obtain ⟨hc, hm⟩ := hg'
      have hid : id ∈ p.base.running := by simpa using hc
      have hfr := frame_afterCallback c p.base it ne
      have hcbrun : ∃ evs, afterCallback c p.base it ne = run c p.base evs := by
        unfold afterCallback
        split
        · exact ⟨[.rpsFinished], rfl⟩
        · exact ⟨[], rfl⟩
      obtain ⟨e1, he1⟩ := hcbrun
      have hstep : (poolStep c p (.iter id it e ne)).base = (match iterOutcome it e with
          | none => afterCallback c p.base it ne
          | some r => (leave p (afterCallback c p.base it ne) id r).base) := by
        show (if !p.base.running.contains id || !iterMatches p.base it e ne then p else _).base = _
        rw [if_neg hg]
        show (match iterOutcome it e with
          | none => { p with base := afterCallback c p.base it ne }
          | some r => leave p (afterCallback c p.base it ne) id r).base = _
        cases iterOutcome it e <;> rfl
      rw [hstep]
      cases hr : iterOutcome it e with
      | none => exact ⟨e1, he1⟩
      | some r =>
        obtain ⟨hen, _, _, _⟩ := iter_exit_enabled c all p.base h.inv id hid it e ne hm r hr
        have hcb : (afterCallback c p.base it ne).running.contains id = true := by rw [hfr.running]; exact hc
        refine ⟨e1 ++ [.instanceExit id r], ?_⟩
        show (leave p (afterCallback c p.base it ne) id r).base = _
        rw [leave_base c p _ id r hcb hen, run_append, ← he1]
        rfl
  | panic id =>
    by_cases hc : p.base.running.contains id = true
    · refine ⟨[.instanceExit id .error], ?_⟩
      show (if !p.base.running.contains id then p else leave p p.base id .error).base = _
      simp only [hc, Bool.not_true, Bool.false_eq_true, if_false]
      rw [leave_base c p p.base id .error hc rfl]
      rfl
    · have hn : (!p.base.running.contains id) = true := by
        cases hcc : p.base.running.contains id with
        | true => exact absurd hcc hc
        | false => rfl
      refine ⟨[], ?_⟩
      show (if !p.base.running.contains id then p else leave p p.base id .error).base = _
      rw [if_pos hn]; rfl
  | recvRun i =>
    cases hpi : p.pending[i]? with
    | none => exact ⟨[], by simp [poolStep, hpi, run]⟩
    | some x =>
      obtain ⟨xid, k⟩ := x
      refine ⟨(onRunResult (k == .exit .ammoEnd) p.aw.startFinished
        (fun _ => k == .exit .scheduleEnd || k == .exit .cancelled)).map evOfAct, ?_⟩
      rw [← acts_eq_run]
      simp only [poolStep, hpi, checkAll]
      split <;> rfl
  | recvStart =>
    by_cases hg : (p.base.phase != .done || p.aw.startFinished) = true
    · exact ⟨[], by simp only [poolStep]; rw [if_pos hg]; rfl⟩
    · refine ⟨(onStartResult (fun _ => p.base.ret != .create)).map evOfAct, ?_⟩
      rw [← acts_eq_run]
      simp only [poolStep]
      rw [if_neg hg]
      simp only [checkAll]
      split <;> rfl

  | recvOther ce =>
    refine ⟨(onOtherResult (fun _ => ce)).map evOfAct, ?_⟩
    rw [← acts_eq_run]
    rfl

/-- the pool layer refines the abstract system: what it does to the abstract state is a run of abstract events -/
theorem poolRun_refines (c : Cfg) (all : List Int) (p : PSt) (pevs : List PEvent) (h : PInv c all p) :
    ∃ evs, (poolRun c p pevs).base = run c p.base evs := by
  induction pevs generalizing p with
  | nil => exact ⟨[], rfl⟩
  | cons ev rest ih =>
    obtain ⟨e1, h1⟩ := poolStep_refines c all p ev h
    obtain ⟨e2, h2⟩ := ih (poolStep c p ev) (poolStep_inv c all p ev h)
    refine ⟨e1 ++ e2, ?_⟩
    show (poolRun c (poolStep c p ev) rest).base = _
    rw [h2, h1, run_append]

/-! ### `Engine.Run` -/

/-- the engine returns without error only after every pool has returned without error; it returns "failed" only on a pool
result with an error and "cancelled" only when its context is done — nothing else makes it return (and cancel all pools) -/
theorem engSeq_spec (n : Int) (evs : List EngEv) (i : Int) (k : Int) (r : EngRet) (hi : i ≤ n)
    (h : engSeq n i evs = { awaited := k, ret := some r }) :
    (r = .ok → k = n ∧ ∃ pre, pre.length = (n - i).toNat ∧ pre <+: evs ∧ ∀ e ∈ pre, e = EngEv.result true) ∧
    (r = .failed → EngEv.result false ∈ evs) ∧ (r = .cancelled → EngEv.ctxDone ∈ evs) := by
  induction evs generalizing i with
  | nil =>
    simp only [engSeq] at h
    by_cases hlt : i < n
    · simp [hlt] at h
    · simp only [hlt, if_false, EngRes.mk.injEq, Option.some.injEq] at h
      obtain ⟨rfl, rfl⟩ := h
      have : i = n := by omega
      subst this
      exact ⟨fun _ => ⟨rfl, [], by simp, List.prefix_refl _, by simp⟩, (by intro hx; cases hx), (by intro hx; cases hx)⟩
  | cons ev rest ih =>
    simp only [engSeq] at h
    by_cases hlt : i < n
    · simp only [hlt, if_true] at h
      cases ev with
      | result errNil =>
        cases errNil with
        | false =>
          simp only [Bool.not_false, if_true, EngRes.mk.injEq, Option.some.injEq] at h
          obtain ⟨_, rfl⟩ := h
          exact ⟨(by intro hx; cases hx), fun _ => by simp, (by intro hx; cases hx)⟩
        | true =>
          simp only [Bool.not_true, Bool.false_eq_true, if_false] at h
          obtain ⟨h1, h2, h3⟩ := ih (i + 1) (by omega) h
          refine ⟨fun hr => ?_, fun hr => List.mem_cons_of_mem _ (h2 hr), fun hr => List.mem_cons_of_mem _ (h3 hr)⟩
          obtain ⟨hk, pre, hlen, hpre, hall⟩ := h1 hr
          refine ⟨hk, EngEv.result true :: pre, ?_, ?_, ?_⟩
          · simp only [List.length_cons, hlen]
            omega
          · exact List.cons_prefix_cons.mpr ⟨rfl, hpre⟩
          · intro e he
            simp only [List.mem_cons] at he
            rcases he with he | he
            · exact he
            · exact hall e he
      | ctxDone =>
        simp only [EngRes.mk.injEq, Option.some.injEq] at h
        obtain ⟨_, rfl⟩ := h
        exact ⟨(by intro hx; cases hx), (by intro hx; cases hx), fun _ => by simp⟩
    · simp only [hlt, if_false, EngRes.mk.injEq, Option.some.injEq] at h
      obtain ⟨rfl, rfl⟩ := h
      have : i = n := by omega
      subst this
      exact ⟨fun _ => ⟨rfl, [], by simp, List.nil_prefix, by simp⟩, (by intro hx; cases hx), (by intro hx; cases hx)⟩

end Pandora.Proofs.C12
