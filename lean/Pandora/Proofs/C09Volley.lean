/-
C09 — helper lemmas about the volley pool (`vpoolStep` / `vpoolRun` of Pandora.Model.C09, round 4): a transport that serves
several requests at once. For a client that is used by ONE instance (volleys of at most one request) it is the
one-connection-per-gun pool `tconnStep`; with room for all its guns it never dials more often than it has guns; without
(net/http's default of two idle connections per host) every further volley costs the surplus again.
-/
import Pandora.Model.C09
import Pandora.Proofs.C09Conn

namespace Pandora.Proofs.C09
open Pandora.Model.C09

def b2n (b : Bool) : Nat := if b then 1 else 0

/-- a transport that keeps connections at all keeps at least one per host -/
theorem keeps_idleLimit_pos (t : Transport) (hk : keeps t = true) : 1 ≤ idleLimit t := by
  simp only [keeps, Bool.and_eq_true, Bool.not_eq_true', decide_eq_true_eq] at hk
  obtain ⟨⟨_, h1⟩, h2⟩ := hk
  simp only [idleLimit]
  have e1 : ((t.maxIdleConnsPerHost.toNat : Nat) : Int) = t.maxIdleConnsPerHost := Int.toNat_of_nonneg h1
  have e2 : ((t.maxIdleConns.toNat : Nat) : Int) = t.maxIdleConns := Int.toNat_of_nonneg h2
  by_cases hp : t.maxIdleConnsPerHost = 0 <;> by_cases hm : t.maxIdleConns = 0 <;> simp only [hp, hm, if_true, if_false] <;> omega

theorem vpoolRunFrom_cons (t : Transport) (st : Nat × Nat) (v : Volley) (vs : List Volley) :
    vpoolRunFrom t st (v :: vs) = vpoolRunFrom t (vpoolStep t st v) vs := rfl

theorem vpoolRunFrom_nil (t : Transport) (st : Nat × Nat) : vpoolRunFrom t st [] = st := rfl

/-- one request through a client of its own: the volley pool does what the per-gun pool does -/
theorem vpoolStep_single (t : Transport) (b : Bool) (n : Nat) (f : TFlight) (hg : f.gun = 0) :
    vpoolStep t (b2n b, n) f.volley =
      (b2n ((tconnStep t ([b], n) f).1.getD 0 false), (tconnStep t ([b], n) f).2) := by
  cases ha : f.arrived
  · simp [vpoolStep, tconnStep, TFlight.volley, ha]
  · have hlim : keeps t = true → 1 ≤ idleLimit t := keeps_idleLimit_pos t
    simp only [vpoolStep, tconnStep, TFlight.volley, ha, hg, if_true, Bool.true_and, Bool.not_true, Bool.false_eq_true,
      if_false, List.set_cons_zero, List.getD_cons_zero, Nat.one_ne_zero]
    cases hk : keeps t <;> cases hc : f.close <;> cases hl : responseLost t f.delay <;> cases he : idleExpired t f.pause <;>
      cases b <;> simp [b2n] <;> (try (have := hlim hk; omega))

theorem tconnStep_single_shape (t : Transport) (b : Bool) (n : Nat) (f : TFlight) (hg : f.gun = 0) :
    tconnStep t ([b], n) f = ([(tconnStep t ([b], n) f).1.getD 0 false], (tconnStep t ([b], n) f).2) := by
  cases ha : f.arrived <;> simp [tconnStep, ha, hg]

/-- the whole run of a client that one instance uses -/
theorem vpoolRunFrom_single (t : Transport) (fs : List TFlight) (hg : ∀ f ∈ fs, f.gun = 0) (b : Bool) (n : Nat) :
    vpoolRunFrom t (b2n b, n) (fs.map TFlight.volley) =
      (b2n ((tconnRunFrom t ([b], n) fs).1.getD 0 false), (tconnRunFrom t ([b], n) fs).2) := by
  induction fs generalizing b n with
  | nil => simp [vpoolRunFrom_nil, tconnRunFrom]
  | cons f fs ih =>
    have h0 := hg f List.mem_cons_self
    rw [List.map_cons, vpoolRunFrom_cons, vpoolStep_single t b n f h0, tconnRunFrom_cons,
      ih (fun f' h' => hg f' (List.mem_cons_of_mem _ h'))]
    rw [← tconnStep_single_shape t b n f h0]

/-- room for every gun, nobody closing, nothing expiring: idle = dialed ≤ guns is an invariant -/
theorem vpoolRunFrom_room (t : Transport) (m : Nat) (hk : keeps t = true) (hL : m ≤ idleLimit t) (vs : List Volley)
    (hv : ∀ v ∈ vs, v.k ≤ m ∧ v.closing = 0 ∧ idleExpired t v.pause = false ∧ responseLost t v.delay = false)
    (st : Nat × Nat) (hst : st.1 = st.2 ∧ st.2 ≤ m) :
    (vpoolRunFrom t st vs).1 = (vpoolRunFrom t st vs).2 ∧ (vpoolRunFrom t st vs).2 ≤ m := by
  induction vs generalizing st with
  | nil => simpa [vpoolRunFrom_nil] using hst
  | cons v vs ih =>
    rw [vpoolRunFrom_cons]
    apply ih (fun v' h' => hv v' (List.mem_cons_of_mem _ h'))
    obtain ⟨h1, h2, h3, h4⟩ := hv v List.mem_cons_self
    obtain ⟨s1, s2⟩ := hst
    simp only [vpoolStep, h2, h3, h4, hk, Bool.not_false, Bool.and_self, if_true, Bool.false_eq_true, if_false, Nat.sub_zero]
    by_cases hk0 : v.k = 0
    · simp [hk0, s1, s2]
    · simp only [hk0, if_false]
      omega

/-- `n` further volleys of `m` requests on a pool that keeps `L < m`: each costs `m - L` connections again -/
theorem vpoolRunFrom_replicate (t : Transport) (m p d : Nat) (hk : keeps t = true) (hm : idleLimit t ≤ m) (hpos : 0 < m)
    (he : idleExpired t p = false) (hl : responseLost t d = false) (n tot : Nat) :
    vpoolRunFrom t (idleLimit t, tot) (List.replicate n { k := m, closing := 0, pause := p, delay := d }) =
      (idleLimit t, tot + n * (m - idleLimit t)) := by
  induction n generalizing tot with
  | zero => simp [vpoolRunFrom_nil]
  | succ n ih =>
    rw [List.replicate_succ, vpoolRunFrom_cons]
    have hstep : vpoolStep t (idleLimit t, tot) { k := m, closing := 0, pause := p, delay := d } =
        (idleLimit t, tot + (m - idleLimit t)) := by
      have hm0 : m ≠ 0 := by omega
      simp only [vpoolStep, he, hl, hk, hm0, if_false, Bool.false_eq_true, Bool.not_false, Bool.and_self, if_true, Nat.sub_zero]
      congr 1 <;> omega
    rw [hstep, ih, Nat.succ_mul]
    congr 1
    omega

/-- two transports that treat every flight of a run alike give the same run -/
theorem tconnRunFrom_congr (t t' : Transport) (fs : List TFlight)
    (h : ∀ f ∈ fs, ∀ st, tconnStep t st f = tconnStep t' st f) (st : List Bool × Nat) :
    tconnRunFrom t st fs = tconnRunFrom t' st fs := by
  induction fs generalizing st with
  | nil => rfl
  | cons f fs ih =>
    rw [tconnRunFrom_cons, tconnRunFrom_cons, h f List.mem_cons_self st]
    exact ih (fun f' h' => h f' (List.mem_cons_of_mem _ h')) _

/-- the first volley on a fresh transport: every request dials, the pool keeps what it has room for -/
theorem vpoolStep_first (t : Transport) (m p d : Nat) (hk : keeps t = true) (hpos : 0 < m)
    (hl : responseLost t d = false) :
    vpoolStep t (0, 0) { k := m, closing := 0, pause := p, delay := d } = (min (idleLimit t) m, m) := by
  have hm0 : m ≠ 0 := by omega
  simp only [vpoolStep, hl, hk, hm0, if_false, Bool.not_false, Bool.and_self, if_true, Nat.sub_zero]
  cases idleExpired t p <;> simp

/-! ### `[k: v]` lines -/

theorem cut_append (k rest : Str) (sep : Nat) (h : sep ∉ k) : cut (k ++ sep :: rest) sep = some (k, rest) := by
  induction k with
  | nil => simp [cut]
  | cons a t ih =>
    have ha : a ≠ sep := by intro e; exact h (by simp [e])
    have ht : sep ∉ t := by intro m; exact h (List.mem_cons_of_mem _ m)
    simp [cut, ha, ih ht]

theorem trim_bracketed (xs : Str) : trim (91 :: xs ++ [93]) = 91 :: xs ++ [93] := by
  have h1 : isSpace 91 = false := by decide
  have h2 : isSpace 93 = false := by decide
  simp [trim, trimBy, h1, h2]

/-- what util.DecodeHeader makes of the line `[k:v]` as readLine / readBlock see it -/
theorem decodeHeader_headerLine (k v : Str) (hc : 58 ∉ k) (hk : trim k ≠ []) :
    decodeHeader (headerLine (k, v)) = .ok (trim k, trim v) := by
  have hl : headerLine (k, v) = 91 :: (k ++ 58 :: v) ++ [93] := by
    have := trim_bracketed (k ++ 58 :: v)
    simpa [headerLine] using this
  have hlen : ¬ ((91 :: (k ++ 58 :: v) ++ [93]).length < 3) := by simp; omega
  have hlast : (91 :: (k ++ 58 :: v) ++ [93]).getLast? = some 93 := by
    rw [show (91 :: (k ++ 58 :: v) ++ [93]) = (91 :: (k ++ 58 :: v)) ++ [93] from rfl, List.getLast?_append]; rfl
  have hmid : ((91 :: (k ++ 58 :: v) ++ [93]).drop 1).dropLast = k ++ 58 :: v := by
    show ((k ++ 58 :: v) ++ [93]).dropLast = k ++ 58 :: v
    exact List.dropLast_concat
  rw [hl]
  simp only [decodeHeader, hlen, hlast, hmid, cut_append k v 58 hc]
  simp [hk]

end Pandora.Proofs.C09
