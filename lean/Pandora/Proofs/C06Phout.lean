/-
C06 helper lemmas about the phout line: the shift loop of `appendTimestamp` in closed form, the
shape of an encoded line, and the round trip through `decode`. Core only.
-/
import Pandora.Proofs.C06Decimal

namespace Pandora.Proofs.C06
open Pandora.Model.Phout

/-! ## the shift loop -/

theorem getD_at (a : Bytes) (y : UInt8) (t : Bytes) (d : UInt8) : (a ++ y :: t).getD a.length d = y := by
  induction a with
  | nil => simp
  | cons b r ih => simp

theorem set_at (a : Bytes) (y : UInt8) (t : Bytes) (v : UInt8) : (a ++ y :: t).set a.length v = a ++ v :: t := by
  induction a with
  | nil => simp
  | cons b r ih => simp [ih]

theorem set_at1 (a : Bytes) (y x : UInt8) (t : Bytes) (v : UInt8) :
    (a ++ y :: x :: t).set (a.length + 1) v = a ++ y :: v :: t := by
  induction a with
  | nil => simp
  | cons b r ih => simp [ih]

/-- the loop copies every byte of `r` one place to the right, the byte `x` behind `r` is overwritten
and the first byte of `r` stays duplicated at `p.length` -/
theorem shiftLoop_spec (p : Bytes) : ∀ (k : Nat) (r : Bytes) (x : UInt8) (s : Bytes), r.length = k →
    shiftLoop p.length k (p ++ r ++ x :: s) = p ++ (r.headD x) :: r ++ s := by
  intro k
  induction k with
  | zero =>
    intro r x s h
    have : r = [] := List.length_eq_zero_iff.mp h
    subst this
    simp [shiftLoop]
  | succ k ih =>
    intro r x s h
    have hne : r ≠ [] := by intro e; subst e; simp at h
    obtain ⟨r', y, rfl⟩ : ∃ r' y, r = r' ++ [y] := ⟨r.dropLast, r.getLast hne, (List.dropLast_concat_getLast hne).symm⟩
    have hk : r'.length = k := by simpa using h
    have hlen : (p ++ r').length = p.length + k := by simp [hk]
    have e1 : p ++ (r' ++ [y]) ++ x :: s = (p ++ r') ++ y :: x :: s := by simp
    simp only [shiftLoop]
    rw [e1, ← hlen, getD_at, set_at1]
    have e2 : (p ++ r') ++ y :: y :: s = p ++ r' ++ y :: (y :: s) := by simp
    rw [e2, ih r' y (y :: s) hk]
    cases r' with
    | nil => simp
    | cons a t => simp

/-- `appendTimestamp`'s dot insertion in closed form -/
theorem insertDot_eq (d : Bytes) :
    insertDot d = if d.length < 3 then none
                  else some (d.take (d.length - 3) ++ DOT :: d.drop (d.length - 3)) := by
  unfold insertDot dotFromEnd
  by_cases h : d.length < 3
  · have h' : ((d.length : Int) - ((3 : Nat) : Int)) < 0 := by omega
    dsimp only
    rw [if_pos h', if_pos h]
  · have hn : ¬ ((d.length : Int) - ((3 : Nat) : Int)) < 0 := by omega
    dsimp only
    rw [if_neg hn, if_neg h]
    have hdot : ((d.length : Int) - ((3 : Nat) : Int)).toNat = d.length - 3 := by omega
    rw [hdot]
    congr 1
    -- decompose d = p ++ r with |r| = 3
    have hd : d = d.take (d.length - 3) ++ d.drop (d.length - 3) := (List.take_append_drop _ _).symm
    generalize hp : d.take (d.length - 3) = p at hd ⊢
    generalize hr : d.drop (d.length - 3) = r at hd ⊢
    have hpl : p.length = d.length - 3 := by rw [← hp]; simp
    have hrl : r.length = 3 := by rw [← hr]; simp; omega
    have hk : (d ++ [0]).length - 1 - (d.length - 3) = 3 := by simp; omega
    rw [hk, ← hpl]
    have e : d ++ [0] = p ++ r ++ (0 : UInt8) :: [] := by rw [hd]
    rw [e, shiftLoop_spec p 3 r 0 [] hrl]
    match r, hrl with
    | [a, b, c], _ =>
      simp only [List.headD_cons, List.append_nil]
      exact set_at p a [a, b, c] DOT

theorem intBytes_of_nonneg {i : Int} (h : 0 ≤ i) : intBytes i = natDigits i.toNat := by
  unfold intBytes
  have : ¬ i < 0 := by omega
  simp [this]

/-- timestamps of at least one second: `<seconds>.<3 digit milliseconds>` -/
theorem appendTimestamp_ge1000 {ms : Int} (h : 1000 ≤ ms) :
    appendTimestamp ms = some (natDigits (ms.toNat / 1000) ++ DOT :: pad3 (ms.toNat % 1000)) := by
  unfold appendTimestamp
  rw [intBytes_of_nonneg (by omega), insertDot_eq]
  have hn : 1000 ≤ ms.toNat := by omega
  rw [natDigits_split3 hn]
  have hl : ¬ (natDigits (ms.toNat / 1000) ++ pad3 (ms.toNat % 1000)).length < 3 := by
    simp [pad3_length]
  simp only [hl, if_false]
  have e : (natDigits (ms.toNat / 1000) ++ pad3 (ms.toNat % 1000)).length - 3 = (natDigits (ms.toNat / 1000)).length := by
    simp [pad3_length]
  rw [e]
  simp

/-- 0 … 99 ms after the epoch: the loop indexes `dst[-1]` -/
theorem appendTimestamp_small {ms : Int} (h0 : 0 ≤ ms) (h : ms < 100) : appendTimestamp ms = none := by
  unfold appendTimestamp
  rw [intBytes_of_nonneg h0, insertDot_eq]
  have := natDigits_length_lt100 (n := ms.toNat) (by omega)
  simp [this]

/-- 100 … 999 ms after the epoch: no seconds part at all -/
theorem appendTimestamp_subsecond {ms : Int} (h0 : 100 ≤ ms) (h : ms < 1000) :
    appendTimestamp ms = some (DOT :: natDigits ms.toNat) := by
  unfold appendTimestamp
  rw [intBytes_of_nonneg (by omega), insertDot_eq]
  have := natDigits_length_100_999 (n := ms.toNat) (by omega) (by omega)
  simp [this]

/-! ## the line -/

theorem parseTimestamp_ok {ms : Int} (h : 1000 ≤ ms) :
    parseTimestamp (natDigits (ms.toNat / 1000) ++ DOT :: pad3 (ms.toNat % 1000)) = some ms := by
  unfold parseTimestamp
  have hk : ms.toNat % 1000 < 1000 := by omega
  have h1 : DOT ∉ natDigits (ms.toNat / 1000) := notin_of_digits (natDigits_isDigit _) (by decide)
  have h2 : DOT ∉ pad3 (ms.toNat % 1000) := notin_of_digits (pad3_isDigit hk) (by decide)
  rw [splitOn_append_sep _ h1, splitOn_nosep h2]
  simp only [pad3_length, if_true, parseNat_natDigits, parseNat_pad3 hk]
  simp
  omega

theorem idSigned_roundtrip {id : Nat} (h : id < 18446744073709551616) :
    (idSigned id % 18446744073709551616).toNat = id := by
  unfold idSigned
  split <;> omega

theorem parseTagId_ok (tag : Bytes) (id : Nat) (h : id < 18446744073709551616) :
    parseTagId (tag ++ HASH :: intBytes (idSigned id)) true = some (tag, id) := by
  unfold parseTagId
  simp only [if_true]
  rw [splitLast_append _ (hash_notin_intBytes _)]
  simp [parseInt_intBytes, idSigned_roundtrip h]

/-- the tokens of a body -/
def tokens (s : Sample) (withId : Bool) : List Bytes :=
  (s.tag ++ idPart s withId) :: s.fields.map intBytes

theorem fieldsPart_eq (s : Sample) : fieldsPart s = (s.fields.map intBytes).flatMap (fun t => TAB :: t) := by
  unfold fieldsPart
  simp [List.flatMap_map]

theorem tab_notin_idPart (s : Sample) (withId : Bool) : TAB ∉ idPart s withId := by
  unfold idPart
  cases withId
  · simp
  · simp only [if_true, List.mem_cons, not_or]
    exact ⟨by decide, tab_notin_intBytes _⟩

theorem lf_notin_idPart (s : Sample) (withId : Bool) : LF ∉ idPart s withId := by
  unfold idPart
  cases withId
  · simp
  · simp only [if_true, List.mem_cons, not_or]
    exact ⟨by decide, lf_notin_intBytes _⟩

theorem tokens_tabfree (s : Sample) (withId : Bool) (ht : TAB ∉ s.tag) : ∀ t ∈ tokens s withId, TAB ∉ t := by
  intro t h
  unfold tokens at h
  simp only [List.mem_cons, List.mem_map] at h
  rcases h with h | ⟨v, _, rfl⟩
  · subst h
    simp only [List.mem_append, not_or]
    exact ⟨ht, tab_notin_idPart s withId⟩
  · exact tab_notin_intBytes v

/-- body with an abstract timestamp text -/
theorem body_tokens (ts : Bytes) (s : Sample) (withId : Bool) :
    ts ++ TAB :: s.tag ++ idPart s withId ++ fieldsPart s = ts ++ (tokens s withId).flatMap (fun t => TAB :: t) := by
  unfold tokens
  rw [fieldsPart_eq]
  simp

theorem encodeBody_ge1000 (s : Sample) (withId : Bool) (h : 1000 ≤ s.ms) :
    encodeBody s withId = some (natDigits (s.ms.toNat / 1000) ++ DOT :: pad3 (s.ms.toNat % 1000)
        ++ TAB :: s.tag ++ idPart s withId ++ fieldsPart s) := by
  unfold encodeBody
  rw [appendTimestamp_ge1000 h]
  simp

theorem tsText_tabfree (n : Nat) (k : Nat) (hk : k < 1000) : TAB ∉ natDigits n ++ DOT :: pad3 k := by
  simp only [List.mem_append, List.mem_cons, not_or]
  exact ⟨notin_of_digits (natDigits_isDigit _) (by decide), by decide,
         notin_of_digits (pad3_isDigit hk) (by decide)⟩

theorem tsText_lffree (n : Nat) (k : Nat) (hk : k < 1000) : LF ∉ natDigits n ++ DOT :: pad3 k := by
  simp only [List.mem_append, List.mem_cons, not_or]
  exact ⟨notin_of_digits (natDigits_isDigit _) (by decide), by decide,
         notin_of_digits (pad3_isDigit hk) (by decide)⟩

theorem splitOn_body (ts : Bytes) (s : Sample) (withId : Bool) (hts : TAB ∉ ts) (ht : TAB ∉ s.tag) :
    splitOn TAB (ts ++ TAB :: s.tag ++ idPart s withId ++ fieldsPart s) = ts :: tokens s withId := by
  rw [body_tokens, splitOn_tokens ts _ hts (tokens_tabfree s withId ht)]

theorem decodeBody_ok (s : Sample) (withId : Bool) (h : 1000 ≤ s.ms) (ht : TAB ∉ s.tag)
    (hid : s.id < 18446744073709551616) :
    decodeBody (natDigits (s.ms.toNat / 1000) ++ DOT :: pad3 (s.ms.toNat % 1000)
        ++ TAB :: s.tag ++ idPart s withId ++ fieldsPart s) withId
      = some (if withId then s else { s with id := 0 }) := by
  unfold decodeBody
  have hk : s.ms.toNat % 1000 < 1000 := by omega
  rw [splitOn_body _ s withId (tsText_tabfree _ _ hk) ht]
  simp only [tokens, Sample.fields, List.map_cons, List.map_nil, parseTimestamp_ok h, parseInt_intBytes]
  cases withId
  · simp [idPart, parseTagId]
  · simp only [idPart, if_true, parseTagId_ok s.tag s.id hid]
    simp

theorem body_lffree (s : Sample) (withId : Bool) (hl : LF ∉ s.tag) (ts : Bytes) (hts : LF ∉ ts) :
    LF ∉ ts ++ TAB :: s.tag ++ idPart s withId ++ fieldsPart s := by
  simp only [List.mem_append, List.mem_cons, not_or, List.append_assoc, List.cons_append]
  refine ⟨hts, by decide, hl, lf_notin_idPart s withId, ?_⟩
  unfold fieldsPart
  simp only [List.mem_flatMap, List.mem_cons, not_exists, not_and, not_or]
  intro v _
  exact ⟨by decide, lf_notin_intBytes v⟩

end Pandora.Proofs.C06
