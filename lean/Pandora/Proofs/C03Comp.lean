/-
C03 — the pool over a composite profile at the granularity of the composite's lock sections
(`Pandora.Model.C03Comp`) refines the pool at the granularity of atomic schedule operations (`Pandora.Model.C03Fine`),
hence the coarse pool (`Pandora.Model.C03`): whatever the interleaving of reader sections, writer sections, retries and
the other operations of any number of instances,

* the answer a concluding section of `Next()` hands to the loop is the answer of the atomic token counter at that
  moment (`ok` iff a token was left, and then exactly one is taken) — no token is lost when a drained part is dropped,
  "finished" is said only when nothing is left in ANY part;
* a section that does not conclude (reader section that goes on to the writer section, writer section that retries)
  leaves the number of tokens alone.

The invariant that carries it: a caller between its two sections that saw `len(s.scheds) = seen` finds at most `seen`
parts later, and if it still finds `seen` parts the current part is the drained one it saw (`WaitOk`).
-/
import Pandora.Model.C03Comp
import Pandora.Proofs.C03Fine

namespace Pandora.Proofs.C03Comp
open Pandora.Model.C03 Pandora.Model.C03Fine Pandora.Model.C03Comp Pandora.Proofs.C03

/-! ### the sections on the list of parts -/

/-- what a caller between its sections may rely on -/
def WaitOk (p : List Nat) (seen : Nat) : Prop :=
  p.length ≤ seen ∧ (p.length = seen → ∃ r, p = 0 :: r) ∧ 1 ≤ p.length ∧ 2 ≤ seen

/-- how the parts change in a section: the current part loses a token (it had one), or nothing changes, or drained
parts are dropped (never the last one) -/
def Evolves (p p' : List Nat) : Prop :=
  (p'.length = p.length ∧ ∀ r, p = 0 :: r → p' = p) ∨ (p'.length < p.length ∧ 1 ≤ p'.length)

theorem evolves_refl (p : List Nat) : Evolves p p := .inl ⟨rfl, fun _ _ => rfl⟩

theorem waitOk_evolves {p p' : List Nat} {seen : Nat} (h : WaitOk p seen) (e : Evolves p p') : WaitOk p' seen := by
  obtain ⟨h1, h2, h3, h4⟩ := h
  rcases e with ⟨el, ez⟩ | ⟨el, e1⟩
  · refine ⟨by omega, ?_, by omega, h4⟩
    intro hl
    obtain ⟨r, hr⟩ := h2 (by omega)
    exact ⟨r, by rw [ez r hr]; exact hr⟩
  · exact ⟨by omega, fun hl => by omega, e1, h4⟩

theorem rsec_ret_true {p p' : List Nat} (h : rsec p = (p', .ret true)) : tot p' + 1 = tot p ∧ Evolves p p' := by
  match p with
  | [] => simp [rsec] at h
  | (n + 1) :: r =>
    simp only [rsec, Prod.mk.injEq, and_true] at h
    subst h
    exact ⟨by simp only [tot]; omega, .inl ⟨rfl, fun r' hr => by cases hr⟩⟩
  | [0] => simp [rsec] at h
  | 0 :: b :: r => simp [rsec] at h

theorem rsec_ret_false {p p' : List Nat} (h : rsec p = (p', .ret false)) : p' = p ∧ tot p = 0 := by
  match p with
  | [] => simp [rsec] at h
  | (n + 1) :: r => simp [rsec] at h
  | [0] =>
    simp only [rsec, Prod.mk.injEq, and_true] at h
    exact ⟨h.symm, rfl⟩
  | 0 :: b :: r => simp [rsec] at h

theorem rsec_wait {p p' : List Nat} {seen : Nat} (h : rsec p = (p', .wait seen)) : p' = p ∧ WaitOk p seen := by
  match p with
  | [] => simp [rsec] at h
  | (n + 1) :: r => simp [rsec] at h
  | [0] => simp [rsec] at h
  | 0 :: b :: r =>
    simp only [rsec, Prod.mk.injEq, SecOut.wait.injEq] at h
    obtain ⟨h1, h2⟩ := h
    subst h1 h2
    exact ⟨rfl, by simp only [List.length_cons]; omega, fun _ => ⟨_, rfl⟩, by simp only [List.length_cons]; omega, by omega⟩

theorem rsec_no_retry {p p' : List Nat} : rsec p ≠ (p', .retry) := by
  match p with
  | [] => simp [rsec]
  | (n + 1) :: r => simp [rsec]
  | [0] => simp [rsec]
  | 0 :: b :: r => simp [rsec]

theorem rsec_no_panic {p p' : List Nat} (hp : 1 ≤ p.length) : rsec p ≠ (p', .panic) := by
  match p, hp with
  | (n + 1) :: r, _ => simp [rsec]
  | [0], _ => simp [rsec]
  | 0 :: b :: r, _ => simp [rsec]

/-- the shape of the parts a waiting caller finds -/
theorem waitOk_cases {p : List Nat} {seen : Nat} (h : WaitOk p seen) :
    (p.length < seen ∧ ∃ a r, p = a :: r) ∨ (p.length = seen ∧ ∃ b r, p = 0 :: b :: r) := by
  obtain ⟨h1, h2, h3, h4⟩ := h
  by_cases hl : p.length < seen
  · left
    refine ⟨hl, ?_⟩
    match p, h3 with
    | a :: r, _ => exact ⟨a, r, rfl⟩
  · right
    have he : p.length = seen := by omega
    obtain ⟨r, hr⟩ := h2 he
    subst hr
    match r with
    | [] => simp only [List.length_cons, List.length_nil] at he; omega
    | b :: r' => exact ⟨he, b, r', rfl⟩

theorem wsec_ret_true {p p' : List Nat} {seen : Nat} (hw : WaitOk p seen) (h : wsec p seen = (p', .ret true)) :
    tot p' + 1 = tot p ∧ Evolves p p' := by
  rcases waitOk_cases hw with ⟨hl, a, r, rfl⟩ | ⟨hl, b, r, rfl⟩
  · simp only [wsec, hl, if_true] at h
    match a, r with
    | n + 1, r =>
      simp only [Prod.mk.injEq, and_true] at h
      subst h
      exact ⟨by simp only [tot]; omega, .inl ⟨rfl, fun r' hr => by cases hr⟩⟩
    | 0, [] => simp at h
    | 0, b :: r => simp at h
  · have hn : ¬ (0 :: b :: r).length < seen := by omega
    simp only [wsec, hn, if_false] at h
    match b with
    | n + 1 =>
      simp only [Prod.mk.injEq, and_true] at h
      subst h
      exact ⟨by simp only [tot]; omega, .inr ⟨by simp only [List.length_cons]; omega, by simp only [List.length_cons]; omega⟩⟩
    | 0 => simp at h

theorem wsec_ret_false {p p' : List Nat} {seen : Nat} (hw : WaitOk p seen) (h : wsec p seen = (p', .ret false)) :
    p' = p ∧ tot p = 0 := by
  rcases waitOk_cases hw with ⟨hl, a, r, rfl⟩ | ⟨hl, b, r, rfl⟩
  · simp only [wsec, hl, if_true] at h
    match a, r with
    | n + 1, r => simp at h
    | 0, [] =>
      simp only [Prod.mk.injEq, and_true] at h
      exact ⟨h.symm, rfl⟩
    | 0, b :: r => simp at h
  · have hn : ¬ (0 :: b :: r).length < seen := by omega
    simp only [wsec, hn, if_false] at h
    match b with
    | n + 1 => simp at h
    | 0 => simp at h

theorem wsec_retry {p p' : List Nat} {seen : Nat} (hw : WaitOk p seen) (h : wsec p seen = (p', .retry)) :
    tot p' = tot p ∧ Evolves p p' := by
  rcases waitOk_cases hw with ⟨hl, a, r, rfl⟩ | ⟨hl, b, r, rfl⟩
  · simp only [wsec, hl, if_true] at h
    match a, r with
    | n + 1, r => simp at h
    | 0, [] => simp at h
    | 0, b :: r =>
      simp only [Prod.mk.injEq, and_true] at h
      subst h
      exact ⟨rfl, evolves_refl _⟩
  · have hn : ¬ (0 :: b :: r).length < seen := by omega
    simp only [wsec, hn, if_false] at h
    match b with
    | n + 1 => simp at h
    | 0 =>
      simp only [Prod.mk.injEq, and_true] at h
      subst h
      exact ⟨by simp only [tot]; omega, .inr ⟨by simp only [List.length_cons]; omega, by simp only [List.length_cons]; omega⟩⟩

/-- a writer section of a caller that may rely on `WaitOk` never panics and never asks for another writer section -/
theorem wsec_total {p : List Nat} {seen : Nat} (hw : WaitOk p seen) :
    ∃ p' o, wsec p seen = (p', o) ∧ (o = .ret true ∨ o = .ret false ∨ o = .retry) := by
  rcases waitOk_cases hw with ⟨hl, a, r, rfl⟩ | ⟨hl, b, r, rfl⟩
  · simp only [wsec, hl, if_true]
    match a, r with
    | n + 1, r => exact ⟨_, _, rfl, .inl rfl⟩
    | 0, [] => exact ⟨_, _, rfl, .inr (.inl rfl)⟩
    | 0, b :: r => exact ⟨_, _, rfl, .inr (.inr rfl)⟩
  · have hn : ¬ (0 :: b :: r).length < seen := by omega
    simp only [wsec, hn, if_false]
    match b with
    | n + 1 => exact ⟨_, _, rfl, .inl rfl⟩
    | 0 => exact ⟨_, _, rfl, .inr (.inr rfl)⟩

/-! ### what a step of the coarse pool does to the token counters -/

theorem step_tokOk {c : Cfg} {b b' : St} {i : Nat} (h : step c b (.tokOk i) = some b') :
    0 < b.left c i ∧ b'.shared = (if c.perInstance then b.shared else b.shared - 1) ∧
    b'.own = (if c.perInstance then b.own.set i (b.own[i]?.getD 0 - 1) else b.own) := by
  simp only [step] at h
  split at h
  · rename_i hg
    simp only [Option.some.injEq] at h
    subst h
    refine ⟨hg.2, ?_, ?_⟩ <;> simp only [St.draw] <;> split <;> rfl
  · cases h

theorem step_tokEnd {c : Cfg} {b b' : St} {i : Nat} (h : step c b (.tokEnd i) = some b') :
    b.left c i = 0 ∧ b'.shared = b.shared ∧ b'.own = b.own := by
  simp only [step] at h
  split at h
  · rename_i hg
    simp only [Option.some.injEq] at h
    subst h
    exact ⟨hg.2, rfl, rfl⟩
  · cases h

theorem step_chk {c : Cfg} {b b' : St} {i l : Nat} (h : step c b (.chk i l) = some b') :
    b'.shared = b.shared ∧ b'.own = b.own := by
  simp only [step] at h
  split at h
  · simp only [Option.some.injEq] at h
    subst h
    exact ⟨rfl, rfl⟩
  · cases h

theorem step_start {c : Cfg} {b b' : St} {i : Nat} (h : step c b (.start i) = some b') :
    b'.shared = b.shared ∧ b'.own = b.own.set i c.tokens := by
  simp only [step] at h
  split at h
  · simp only [Option.some.injEq] at h
    subst h
    exact ⟨rfl, rfl⟩
  · cases h

/-- the other operations of the loop do not touch the profiles -/
theorem step_keeps {c : Cfg} {b b' : St} {e : Ev} (h : step c b e = some b')
    (h1 : ∀ i, e ≠ .tokOk i) (h2 : ∀ i, e ≠ .start i) : b'.shared = b.shared ∧ b'.own = b.own := by
  cases e with
  | tokOk i => exact absurd rfl (h1 i)
  | start i => exact absurd rfl (h2 i)
  | tokEnd i => exact (step_tokEnd h).2
  | chk i l => exact step_chk h
  | acq i =>
    simp only [step] at h
    split at h
    · split at h
      · simp only [Option.some.injEq] at h; subst h; exact ⟨rfl, rfl⟩
      · cases h
      · simp only [Option.some.injEq] at h; subst h; exact ⟨rfl, rfl⟩
    · cases h
  | empty i => simp only [step] at h; split at h
               · simp only [Option.some.injEq] at h; subst h; exact ⟨rfl, rfl⟩
               · cases h
  | reqAdd i => simp only [step] at h; split at h
                · simp only [Option.some.injEq] at h; subst h; exact ⟨rfl, rfl⟩
                · cases h
  | shoot i k => simp only [step] at h; split at h
                 · simp only [Option.some.injEq] at h; subst h; exact ⟨rfl, rfl⟩
                 · cases h
  | respAdd i => simp only [step] at h; split at h
                 · simp only [Option.some.injEq] at h; subst h; exact ⟨rfl, rfl⟩
                 · cases h
  | discard i => simp only [step] at h; split at h
                 · simp only [Option.some.injEq] at h; subst h; exact ⟨rfl, rfl⟩
                 · cases h
  | rel i k => simp only [step] at h; split at h
               · simp only [Option.some.injEq] at h; subst h; exact ⟨rfl, rfl⟩
               · cases h

/-! ### the invariant of the pool over composite profiles -/

structure CInv (c : Cfg) (s : CSt) : Prop where
  /-- the pool's token counter IS the number of tokens left in the parts of the shared profile … -/
  shared : s.f.base.shared = tot s.sp
  /-- … and of each instance's own profile -/
  own : s.f.base.own = s.op.map tot
  /-- every caller between its sections may rely on `WaitOk` -/
  wait : ∀ i seen, s.w[i]? = some (some seen) → WaitOk (s.prof c i) seen
  /-- one entry per instance in both lists -/
  lens : s.op.length = s.w.length

theorem tot_getD (l : List (List Nat)) (i : Nat) : (l.map tot)[i]?.getD 0 = tot (l[i]?.getD []) := by
  rw [List.getElem?_map]
  cases l[i]? <;> rfl

theorem left_eq {c : Cfg} {s : CSt} (hI : CInv c s) (i : Nat) : s.f.base.left c i = tot (s.prof c i) := by
  unfold St.left CSt.prof
  split
  · rw [hI.own, tot_getD]
  · exact hI.shared

theorem map_set_tot (l : List (List Nat)) (i : Nat) (p : List Nat) : (l.set i p).map tot = (l.map tot).set i (tot p) := by
  apply List.ext_getElem?
  intro k
  simp only [List.getElem?_map, List.getElem?_set, List.length_map]
  by_cases hk : i = k
  · subst hk
    by_cases hi : i < l.length <;> simp [hi]
  · simp [hk]

theorem set_same_tot (l : List (List Nat)) (i : Nat) : (l.set i (l[i]?.getD [])).map tot = l.map tot := by
  apply List.ext_getElem?
  intro k
  simp only [List.getElem?_map, List.getElem?_set]
  by_cases hk : i = k
  · subst hk
    by_cases hi : i < l.length
    · simp [hi]
    · simp [hi, List.getElem?_eq_none (Nat.le_of_not_lt hi)]
  · simp [hk]

theorem setProf_sp (c : Cfg) (s : CSt) (i : Nat) (p : List Nat) :
    (s.setProf c i p).sp = if c.perInstance then s.sp else p := by
  unfold CSt.setProf; split <;> rfl

theorem setProf_op (c : Cfg) (s : CSt) (i : Nat) (p : List Nat) :
    (s.setProf c i p).op = if c.perInstance then s.op.set i p else s.op := by
  unfold CSt.setProf; split <;> rfl

theorem setProf_f (c : Cfg) (s : CSt) (i : Nat) (p : List Nat) : (s.setProf c i p).f = s.f := by
  unfold CSt.setProf; split <;> rfl

theorem setProf_w (c : Cfg) (s : CSt) (i : Nat) (p : List Nat) : (s.setProf c i p).w = s.w := by
  unfold CSt.setProf; split <;> rfl

theorem prof_of {c : Cfg} {s s' : CSt} (h1 : s'.sp = s.sp) (h2 : s'.op = s.op) (j : Nat) : s'.prof c j = s.prof c j := by
  unfold CSt.prof; rw [h1, h2]

/-- after instance `i`'s profile went from `prof i` to `p` (as a section does it), another instance's profile has
evolved accordingly -/
theorem evolves_other {c : Cfg} {s : CSt} {i j : Nat} {p : List Nat} (hij : j ≠ i) (he : Evolves (s.prof c i) p) :
    Evolves (s.prof c j) ((s.setProf c i p).prof c j) := by
  unfold CSt.prof at he ⊢
  rw [setProf_sp, setProf_op]
  cases hp : c.perInstance with
  | true =>
    simp only [if_true]
    rw [getElem?_set_ne' _ _ (Ne.symm hij)]
    exact evolves_refl _
  | false =>
    simp only [hp, Bool.false_eq_true, if_false] at he ⊢
    exact he

theorem prof_self {c : Cfg} {s : CSt} {i : Nat} {p : List Nat} (hi : c.perInstance = true → i < s.op.length) :
    (s.setProf c i p).prof c i = p := by
  unfold CSt.prof
  rw [setProf_sp, setProf_op]
  cases hp : c.perInstance with
  | true =>
    simp only [if_true]
    rw [getElem?_set_self' _ _ (hi hp)]
    rfl
  | false => simp only [Bool.false_eq_true, if_false]

theorem set_getD_self (l : List Nat) (i : Nat) : l.set i (l[i]?.getD 0) = l := by
  apply List.ext_getElem?
  intro k
  rw [List.getElem?_set]
  by_cases hk : i = k
  · subst hk
    by_cases hi : i < l.length
    · simp [hi]
    · simp [hi, List.getElem?_eq_none (Nat.le_of_not_lt hi)]
  · simp [hk]

/-- the token counters after instance `i`'s profile went from `prof i` to `p` with `d` tokens taken -/
theorem counters_after {c : Cfg} {s : CSt} (hI : CInv c s) {i : Nat} {p : List Nat} {sh : Nat} {ow : List Nat}
    (d : Nat) (hd : tot p + d = tot (s.prof c i))
    (hsh : sh = if c.perInstance then s.f.base.shared else s.f.base.shared - d)
    (how : ow = if c.perInstance then s.f.base.own.set i (s.f.base.own[i]?.getD 0 - d) else s.f.base.own) :
    sh = tot (s.setProf c i p).sp ∧ ow = (s.setProf c i p).op.map tot := by
  rw [setProf_sp, setProf_op]
  have hl := left_eq hI i
  unfold St.left at hl
  unfold CSt.prof at hd hl
  cases hpi : c.perInstance with
  | true =>
    simp only [hpi, if_true] at hd hl hsh how ⊢
    refine ⟨by rw [hsh]; exact hI.shared, ?_⟩
    rw [how, map_set_tot, ← hI.own, hl]
    congr 1
    omega
  | false =>
    simp only [hpi, Bool.false_eq_true, if_false] at hd hl hsh how ⊢
    refine ⟨by rw [hsh, hI.shared]; omega, by rw [how]; exact hI.own⟩

/-! ### a concluding section is the atomic access of the fine pool -/

theorem conclude_spec {c : Cfg} {s s' : CSt} {i : Nat} {p : List Nat} {ok : Bool} (hI : CInv c s)
    (hpend : s.f.pend[i]? = some .idle)
    (hok : ok = true → tot p + 1 = tot (s.prof c i))
    (hno : ok = false → p = s.prof c i ∧ tot (s.prof c i) = 0)
    (hev : Evolves (s.prof c i) p)
    (h : conclude c s i p ok = some s') :
    fstep c s.f (.inc i) = some s'.f ∧ CInv c s' := by
  unfold conclude at h
  cases hs : step c s.f.base (if ok = true then Ev.tokOk i else Ev.tokEnd i) with
  | none => rw [hs] at h; cases h
  | some b =>
    rw [hs] at h
    simp only [Option.map_some, Option.some.injEq] at h
    subst h
    have hl := left_eq hI i
    have hdec : decide (0 < s.f.base.left c i) = ok := by
      cases ok with
      | true => have := hok rfl; simp only [decide_eq_true_eq]; omega
      | false => have := (hno rfl).2; simp only [decide_eq_false_iff_not]; omega
    refine ⟨?_, ?_⟩
    · simp only [fstep, hpend, if_true, hdec, hs, Option.map_some]
    · -- the invariant
      have hwait : ∀ j seen, (s.w.set i none)[j]? = some (some seen) →
          WaitOk ((s.setProf c i p).prof c j) seen := by
        intro j seen hj
        by_cases hji : j = i
        · subst hji
          rw [List.getElem?_set] at hj
          split at hj
          · split at hj <;> cases hj
          · rename_i hne; exact absurd rfl hne
        · rw [getElem?_set_ne' _ _ (Ne.symm hji)] at hj
          exact waitOk_evolves (hI.wait j seen hj) (evolves_other hji hev)
      cases ok with
      | true =>
        simp only [if_true] at hs
        obtain ⟨_, h2, h3⟩ := step_tokOk hs
        obtain ⟨hsh, how⟩ := counters_after hI (p := p) (i := i) (sh := b.shared) (ow := b.own) 1 (hok rfl) h2 h3
        exact ⟨hsh, how, hwait, by simp [setProf_op, setProf_w]; split <;> simp [hI.lens]⟩
      | false =>
        simp only [Bool.false_eq_true, if_false] at hs
        obtain ⟨_, h2, h3⟩ := step_tokEnd hs
        obtain ⟨hsh, how⟩ := counters_after hI (p := p) (i := i) (sh := b.shared) (ow := b.own) 0 (by rw [(hno rfl).1]; rfl)
          (by rw [h2]; split <;> rfl) (by rw [h3]; split <;> simp [set_getD_self])
        exact ⟨hsh, how, hwait, by simp [setProf_op, setProf_w]; split <;> simp [hI.lens]⟩

/-- a section that does not conclude (`wait`, `retry`): the fine pool does not move, the invariant stays -/
theorem stutter_spec {c : Cfg} {s : CSt} {i : Nat} {p : List Nat} {wi : Option Nat} (hI : CInv c s)
    (hlen : c.perInstance = true → i < s.op.length)
    (htot : tot p = tot (s.prof c i)) (hev : Evolves (s.prof c i) p)
    (hw : ∀ seen, wi = some seen → WaitOk p seen) :
    CInv c { (s.setProf c i p) with w := s.w.set i wi } := by
  obtain ⟨hsh, how⟩ := counters_after hI (p := p) (i := i) (sh := s.f.base.shared) (ow := s.f.base.own) 0 (by omega)
    (by split <;> rfl) (by split <;> simp [set_getD_self])
  refine ⟨by simpa [setProf_f] using hsh, by simpa [setProf_f] using how, ?_,
    by simp [setProf_op, setProf_w]; split <;> simp [hI.lens]⟩
  intro j seen hj
  show WaitOk ((s.setProf c i p).prof c j) seen
  by_cases hji : j = i
  · subst hji
    simp only at hj
    rw [List.getElem?_set] at hj
    split at hj
    · split at hj
      · simp only [Option.some.injEq] at hj
        rw [prof_self hlen]
        exact hw seen hj
      · cases hj
    · rename_i hne; exact absurd rfl hne
  · simp only at hj
    rw [getElem?_set_ne' _ _ (Ne.symm hji)] at hj
    exact waitOk_evolves (hI.wait j seen hj) (evolves_other hji hev)

/-! ### every step of the pool over composite profiles is a step of the fine pool, or none -/

theorem inst_lt_of_w {c : Cfg} {s : CSt} (hI : CInv c s) {i : Nat} {x : Option Nat} (h : s.w[i]? = some x) :
    c.perInstance = true → i < s.op.length := fun _ => by rw [hI.lens]; exact lt_of_get h

/-- a step that only moves the fine pool's `pend` / `base` and leaves the profiles alone keeps the invariant as long as
the token counters stay -/
theorem cinv_same_profiles {c : Cfg} {s s' : CSt} (hI : CInv c s) (hsp : s'.sp = s.sp) (hop : s'.op = s.op) (hw : s'.w = s.w)
    (hsh : s'.f.base.shared = s.f.base.shared) (how : s'.f.base.own = s.f.base.own) : CInv c s' :=
  ⟨by rw [hsh, hsp]; exact hI.shared, by rw [how, hop]; exact hI.own,
   fun j seen hj => by rw [prof_of hsp hop]; exact hI.wait j seen (hw ▸ hj), by rw [hop, hw]; exact hI.lens⟩

/-- what a step of the pool over composite profiles is for the fine pool, when it is one: a section that concludes a
`Next()` is the atomic access `inc`, the reader section of `Left()` the atomic access `load` -/
def feOf : CEv → FEv
  | .rsec i => .inc i
  | .wsec i => .inc i
  | .nextRet i ok => .nextRet i ok
  | .lsec i => .load i
  | .leftRet i l => .leftRet i l
  | .other e => .other e

theorem cstep_spec {c : Cfg} {parts : List Nat} (hparts : tot parts = c.tokens) {s s' : CSt} {e : CEv} (hI : CInv c s)
    (h : cstep c parts s e = some s') : (s'.f = s.f ∨ fstep c s.f (feOf e) = some s'.f) ∧ CInv c s' := by
  cases e with
  | rsec i =>
    simp only [cstep] at h
    split at h
    · rename_i hg
      obtain ⟨hpend, hwi, _⟩ := hg
      generalize hr : rsec (s.prof c i) = r at h
      obtain ⟨p, o⟩ := r
      cases o with
      | ret ok =>
        simp only at h
        cases ok with
        | true =>
          obtain ⟨h1, h2⟩ := rsec_ret_true hr
          obtain ⟨hf, hI'⟩ := conclude_spec hI hpend (fun _ => h1) (fun hx => by cases hx) h2 h
          exact ⟨.inr hf, hI'⟩
        | false =>
          obtain ⟨h1, h2⟩ := rsec_ret_false hr
          obtain ⟨hf, hI'⟩ := conclude_spec hI hpend (fun hx => by cases hx) (fun _ => ⟨h1, h2⟩) (h1 ▸ evolves_refl _) h
          exact ⟨.inr hf, hI'⟩
      | wait seen =>
        simp only [Option.some.injEq] at h
        subst h
        obtain ⟨h1, h2⟩ := rsec_wait hr
        subst h1
        exact ⟨.inl (setProf_f _ _ _ _), stutter_spec hI (inst_lt_of_w hI hwi) rfl (evolves_refl _)
          (fun sn hsn => by cases hsn; exact h2)⟩
      | retry => simp only at h; cases h
      | panic => simp only at h; cases h
    · cases h
  | wsec i =>
    simp only [cstep] at h
    split at h
    · rename_i seen hwi
      split at h
      · rename_i hpend
        have hw := hI.wait i seen hwi
        generalize hr : wsec (s.prof c i) seen = r at h
        obtain ⟨p, o⟩ := r
        cases o with
        | ret ok =>
          simp only at h
          cases ok with
          | true =>
            obtain ⟨h1, h2⟩ := wsec_ret_true hw hr
            obtain ⟨hf, hI'⟩ := conclude_spec hI hpend (fun _ => h1) (fun hx => by cases hx) h2 h
            exact ⟨.inr hf, hI'⟩
          | false =>
            obtain ⟨h1, h2⟩ := wsec_ret_false hw hr
            obtain ⟨hf, hI'⟩ := conclude_spec hI hpend (fun hx => by cases hx) (fun _ => ⟨h1, h2⟩) (h1 ▸ evolves_refl _) h
            exact ⟨.inr hf, hI'⟩
        | retry =>
          simp only [Option.some.injEq] at h
          subst h
          obtain ⟨h1, h2⟩ := wsec_retry hw hr
          exact ⟨.inl (setProf_f _ _ _ _), stutter_spec hI (inst_lt_of_w hI hwi) h1 h2 (fun sn hsn => by cases hsn)⟩
        | wait sn => simp only at h; cases h
        | panic => simp only at h; cases h
      · cases h
    · cases h
  | nextRet i ok =>
    simp only [cstep] at h
    split at h
    · rename_i hg
      simp only [Option.some.injEq] at h
      subst h
      exact ⟨.inr (by simp only [feOf, fstep, hg, if_true]), cinv_same_profiles hI rfl rfl rfl rfl rfl⟩
    · cases h
  | lsec i =>
    simp only [cstep] at h
    split at h
    · rename_i hg
      have hl : compLeft (s.prof c i) = s.f.base.left c i := (left_eq hI i).symm
      rw [hl] at h
      cases hs : step c s.f.base (.chk i (s.f.base.left c i)) with
      | none => rw [hs] at h; cases h
      | some b =>
        rw [hs] at h
        simp only [Option.map_some, Option.some.injEq] at h
        subst h
        obtain ⟨k1, k2⟩ := step_chk hs
        exact ⟨.inr (by simp only [feOf, fstep, hg.1, if_true, hs, Option.map_some]),
          cinv_same_profiles hI rfl rfl rfl k1 k2⟩
    · cases h
  | leftRet i l =>
    simp only [cstep] at h
    split at h
    · rename_i hg
      simp only [Option.some.injEq] at h
      subst h
      exact ⟨.inr (by simp only [feOf, fstep, hg, if_true]), cinv_same_profiles hI rfl rfl rfl rfl rfl⟩
    · cases h
  | other e =>
    have key : ∀ e', (∀ i, e' ≠ .tokOk i) → (∀ i, e' ≠ .start i) → (∀ i, e' ≠ .tokEnd i) → (∀ i l, e' ≠ .chk i l) →
        (if s.f.pend[evInst e']? = some Pend.idle ∧ s.w[evInst e']? = some none then
          (step c s.f.base e').map (fun b => { s with f := { s.f with base := b } }) else none) = some s' →
        (s'.f = s.f ∨ fstep c s.f (.other e') = some s'.f) ∧ CInv c s' := by
      intro e' n1 n2 n3 n4 h'
      split at h'
      · rename_i hg
        cases hs : step c s.f.base e' with
        | none => rw [hs] at h'; cases h'
        | some b =>
          rw [hs] at h'
          simp only [Option.map_some, Option.some.injEq] at h'
          subst h'
          obtain ⟨k1, k2⟩ := step_keeps hs n1 n2
          refine ⟨.inr ?_, cinv_same_profiles hI rfl rfl rfl k1 k2⟩
          cases e' with
          | chk i l => exact absurd rfl (n4 i l)
          | tokOk i => exact absurd rfl (n1 i)
          | tokEnd i => exact absurd rfl (n3 i)
          | start i => exact absurd rfl (n2 i)
          | acq i => simp only [fstep, hg.1, if_true, hs, Option.map_some]
          | empty i => simp only [fstep, hg.1, if_true, hs, Option.map_some]
          | reqAdd i => simp only [fstep, hg.1, if_true, hs, Option.map_some]
          | shoot i k => simp only [fstep, hg.1, if_true, hs, Option.map_some]
          | respAdd i => simp only [fstep, hg.1, if_true, hs, Option.map_some]
          | discard i => simp only [fstep, hg.1, if_true, hs, Option.map_some]
          | rel i k => simp only [fstep, hg.1, if_true, hs, Option.map_some]
      · cases h'
    cases e with
    | chk i l => simp only [cstep] at h; cases h
    | tokOk i => simp only [cstep] at h; cases h
    | tokEnd i => simp only [cstep] at h; cases h
    | start i =>
      simp only [cstep] at h
      split at h
      · rename_i hg
        cases hs : step c s.f.base (.start i) with
        | none => rw [hs] at h; cases h
        | some b =>
          rw [hs] at h
          simp only [Option.map_some, Option.some.injEq] at h
          subst h
          obtain ⟨k1, k2⟩ := step_start hs
          refine ⟨.inr (by simp only [feOf, fstep, evInst, hg.1, if_true, hs, Option.map_some]), ?_⟩
          refine ⟨by simp only [k1]; exact hI.shared, ?_, ?_, by simp [hI.lens]⟩
          · simp only [k2, map_set_tot, hparts, hI.own]
          · intro j seen hj
            simp only at hj
            have hji : j ≠ i := by
              intro hx; subst hx; rw [hg.2] at hj; cases hj
            have := hI.wait j seen hj
            unfold CSt.prof at this ⊢
            simp only
            rw [getElem?_set_ne' _ _ (Ne.symm hji)]
            exact this
      · cases h
    | acq i => exact key (.acq i) (fun _ hx => by cases hx) (fun _ hx => by cases hx) (fun _ hx => by cases hx) (fun _ _ hx => by cases hx) (by simpa only [cstep] using h)
    | empty i => exact key (.empty i) (fun _ hx => by cases hx) (fun _ hx => by cases hx) (fun _ hx => by cases hx) (fun _ _ hx => by cases hx) (by simpa only [cstep] using h)
    | reqAdd i => exact key (.reqAdd i) (fun _ hx => by cases hx) (fun _ hx => by cases hx) (fun _ hx => by cases hx) (fun _ _ hx => by cases hx) (by simpa only [cstep] using h)
    | shoot i k => exact key (.shoot i k) (fun _ hx => by cases hx) (fun _ hx => by cases hx) (fun _ hx => by cases hx) (fun _ _ hx => by cases hx) (by simpa only [cstep] using h)
    | respAdd i => exact key (.respAdd i) (fun _ hx => by cases hx) (fun _ hx => by cases hx) (fun _ hx => by cases hx) (fun _ _ hx => by cases hx) (by simpa only [cstep] using h)
    | discard i => exact key (.discard i) (fun _ hx => by cases hx) (fun _ hx => by cases hx) (fun _ hx => by cases hx) (fun _ _ hx => by cases hx) (by simpa only [cstep] using h)
    | rel i k => exact key (.rel i k) (fun _ hx => by cases hx) (fun _ hx => by cases hx) (fun _ hx => by cases hx) (fun _ _ hx => by cases hx) (by simpa only [cstep] using h)

theorem cinit_inv (c : Cfg) (parts : List Nat) (hparts : tot parts = c.tokens) : CInv c (cinitWith c parts) := by
  refine ⟨hparts.symm, ?_, ?_, by simp [cinitWith, cinit]⟩
  · simp only [cinitWith, cinit, finit, init, List.map_replicate]
    rfl
  · intro i seen hi
    simp only [cinitWith, cinit] at hi
    rw [List.getElem?_replicate] at hi
    split at hi <;> cases hi

/-- **refinement**: every run of the pool over composite profiles — any interleaving of reader sections, writer
sections, retries, returns and the other operations of any number of instances — ends in a state whose fine part is
reached by a run of the fine pool (atomic token counter) that is not longer; the invariant holds at the end -/
theorem comp_refines {c : Cfg} {parts : List Nat} (hparts : tot parts = c.tokens) :
    ∀ (evs : List CEv) (s0 s : CSt), CInv c s0 → crun c parts s0 evs = some s →
      (∃ fevs : List FEv, frun c s0.f fevs = some s.f ∧ fevs.length ≤ evs.length) ∧ CInv c s
  | [], s0, s, hI, h => by
    simp only [crun, Option.some.injEq] at h
    subst h
    exact ⟨⟨[], rfl, Nat.le_refl _⟩, hI⟩
  | e :: es, s0, s, hI, h => by
    simp only [crun] at h
    split at h
    · rename_i s1 hs1
      obtain ⟨hf, hI1⟩ := cstep_spec hparts hI hs1
      obtain ⟨⟨fevs, hr, hl⟩, hIs⟩ := comp_refines hparts es s1 s hI1 h
      refine ⟨?_, hIs⟩
      rcases hf with hb | hfe
      · exact ⟨fevs, by rw [← hb]; exact hr, by simp only [List.length_cons]; omega⟩
      · refine ⟨feOf e :: fevs, ?_, by simp only [List.length_cons]; omega⟩
        simp only [frun, hfe]
        exact hr
    · cases h

/-- the invariant at the end of a run from the initial state -/
theorem comp_inv {c : Cfg} {parts : List Nat} (hparts : tot parts = c.tokens) {evs : List CEv} {s : CSt}
    (h : crun c parts (cinitWith c parts) evs = some s) : CInv c s :=
  (comp_refines hparts evs _ s (cinit_inv c parts hparts) h).2

theorem comp_reaches {c : Cfg} {parts : List Nat} (hparts : tot parts = c.tokens) {evs : List CEv} {s : CSt}
    (h : crun c parts (cinitWith c parts) evs = some s) : ∃ fevs : List FEv, frun c (finit c) fevs = some s.f :=
  let ⟨⟨fevs, hr, _⟩, _⟩ := comp_refines hparts evs _ s (cinit_inv c parts hparts) h
  ⟨fevs, hr⟩

/-- what the atomic access of the fine pool leaves in `pend`: the answer of the token counter -/
theorem fstep_inc_pend {c : Cfg} {f f' : FSt} {i : Nat} (h : fstep c f (.inc i) = some f') :
    f'.pend[i]? = some (.drew (decide (0 < f.base.left c i))) := by
  simp only [fstep] at h
  split at h
  · rename_i hp
    cases hs : step c f.base (if decide (0 < f.base.left c i) = true then Ev.tokOk i else Ev.tokEnd i) with
    | none => rw [hs] at h; cases h
    | some b =>
      rw [hs] at h
      simp only [Option.map_some, Option.some.injEq] at h
      subst h
      exact getElem?_set_self' _ _ (lt_of_get hp)
  · cases h

/-- a section of `Next()` (reader or writer) either does not conclude (the fine pool does not move) or hands the loop
exactly the answer of the pool's token counter: `ok` iff a token is left in SOME part -/
theorem section_answer {c : Cfg} {parts : List Nat} (hparts : tot parts = c.tokens) {s s' : CSt} (hI : CInv c s) {i : Nat}
    {e : CEv} (he : e = .rsec i ∨ e = .wsec i) (h : cstep c parts s e = some s') :
    s'.f = s.f ∨ s'.f.pend[i]? = some (.drew (decide (0 < tot (s.prof c i)))) := by
  obtain ⟨hf, _⟩ := cstep_spec hparts hI h
  rcases hf with hb | hfe
  · exact .inl hb
  · right
    have : feOf e = .inc i := by rcases he with rfl | rfl <;> rfl
    rw [this] at hfe
    rw [← left_eq hI i]
    exact fstep_inc_pend hfe

end Pandora.Proofs.C03Comp
