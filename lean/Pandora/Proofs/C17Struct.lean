/-
C17 — what a decoded struct holds (defaults), validation, type errors of containers, the discard_overflow default.
-/
import Pandora.Proofs.C17

namespace Pandora.Proofs.C17
open Pandora.Model.C17

/-! ## the fields of a decoded struct -/

def Fields.toList : Fields → List (FInfo × Schema)
  | .nil => []
  | .cons f s rest => (f, s) :: Fields.toList rest

/-- what decoding does with one field: the key is looked up; no key → the default stays -/
def fieldResult (fl : Flags) (env : Env) (kvs : List (Str × Val)) (f : FInfo) (s : Schema) : R :=
  match (if f.settable then findKey kvs f.key else none) with
  | none => keep false s
  | some (_, v) => decode fl env s v

theorem decodeFlat_vals (fl : Flags) (env : Env) : ∀ (fs : Fields) (kvs : List (Str × Val)),
    (decodeFlat fl env fs kvs).vals =
      (Fields.toList fs).map fun p => (p.1.name, (fieldResult fl env kvs p.1 p.2).val)
  | .nil, _ => by simp [decodeFlat, Fields.toList]
  | .cons f s rest, kvs => by
    rw [decodeFlat_cons]
    have ih := decodeFlat_vals fl env rest kvs
    simp only [Fields.toList, List.map_cons]
    have hfr : fieldResult fl env kvs f s =
        match (if f.settable then findKey kvs f.key else none) with
        | none => keep false s
        | some (_, v) => decode fl env s v := rfl
    rw [hfr]
    generalize (if f.settable = true then findKey kvs f.key else none) = o
    cases o with
    | none => simp [ih]
    | some kv => cases kv; simp [ih]

theorem decodeFlat_vfail (fl : Flags) (env : Env) : ∀ (fs : Fields) (kvs : List (Str × Val)),
    (decodeFlat fl env fs kvs).vfail =
      (Fields.toList fs).any fun p =>
        tagsFail p.1.tags (fieldResult fl env kvs p.1 p.2).val || childVfail p.1 p.2 (fieldResult fl env kvs p.1 p.2)
  | .nil, _ => by simp [decodeFlat, Fields.toList]
  | .cons f s rest, kvs => by
    rw [decodeFlat_cons]
    have ih := decodeFlat_vfail fl env rest kvs
    simp only [Fields.toList, List.any_cons]
    have hfr : fieldResult fl env kvs f s =
        match (if f.settable then findKey kvs f.key else none) with
        | none => keep false s
        | some (_, v) => decode fl env s v := rfl
    rw [hfr]
    generalize (if f.settable = true then findKey kvs f.key else none) = o
    cases o with
    | none => simp [ih]
    | some kv => cases kv; simp [ih]

theorem fieldIn_toList : ∀ {fs : Fields} {f : FInfo} {s : Schema}, FieldIn f s fs → (f, s) ∈ Fields.toList fs
  | _, _, _, .head f s rest => by simp [Fields.toList]
  | _, _, _, .tail f s g t rest h => by simp [Fields.toList, fieldIn_toList h]

theorem keepFields_vals (zero : Bool) : ∀ (fs : Fields),
    (keepFields zero fs).vals = (Fields.toList fs).map fun p => (p.1.name, (keep zero p.2).val)
  | .nil => by simp [keepFields, Fields.toList]
  | .cons f s rest => by
    have ih := keepFields_vals zero rest
    simp [keepFields, Fields.toList, ih]

/-! ## validation -/

theorem vfail_of_field (fl : Flags) (env : Env) (fs : Fields) (kvs : List (Str × Val)) (f : FInfo) (s : Schema)
    (hin : FieldIn f s fs)
    (h : tagsFail f.tags (fieldResult fl env kvs f s).val = true ∨ childVfail f s (fieldResult fl env kvs f s) = true) :
    (decodeFlat fl env fs kvs).vfail = true := by
  rw [decodeFlat_vfail, List.any_eq_true]
  refine ⟨(f, s), fieldIn_toList hin, ?_⟩
  rcases h with h | h <;> simp [h]

theorem rejected_of_vfail (fl : Flags) (env : Env) (s : Schema) (cfg : Val) (h : (decode fl env s cfg).vfail = true) :
    (decodeAndValidate fl env s cfg).rejected = true := by
  unfold decodeAndValidate
  generalize decode fl env s cfg = r at h
  have : settle r ≠ [] := by
    unfold settle
    cases he : r.errs with
    | nil => simp [h]
    | cons x xs => simp
  cases hs : settle r with
  | nil => exact absurd hs this
  | cons x xs => simp [Outcome.rejected, hs]

/-! ## the discard_overflow default -/

theorem find?_append_of_none {α} (p : α → Bool) : ∀ (l : List α) (a : α), (∀ x ∈ l, p x = false) → p a = true →
    (l ++ [a]).find? p = some a
  | [], a, _, ha => by simp [ha]
  | x :: xs, a, h, ha => by
    have hx := h x (by simp)
    simp only [List.cons_append, List.find?_cons, hx]
    exact find?_append_of_none p xs a (fun y hy => h y (by simp [hy])) ha

/-- a pool mapping without the key: after `readConfig`'s loop the struct field with that key gets the inserted value -/
theorem findKey_defaulted (pk : List (Str × Val)) (key : Str) (b : Val) (h : ∀ e ∈ pk, e.1 ≠ key) :
    findKey (pk ++ [(key, b)]) key = some (key, b) := by
  unfold findKey
  rw [find?_append_of_none (fun kv => kv.1 == key) pk (key, b) (by intro x hx; simpa using h x hx) (by simp)]

end Pandora.Proofs.C17
