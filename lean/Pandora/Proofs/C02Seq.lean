/-
C02, sequential part, compositional in the nesting depth.

`FinSem ops` says what a FINITE schedule object means: unstarted (`U s tk fn`: started at `t` it will hand out
`tk t` and finish at `fn t`) or running (`R s toks f`: hands out exactly `toks`, in order, then reports `f`
for ever; `Left` is exact and does not disturb it).  The composite construction preserves `FinSem`, with the
meaning "each part starts exactly at the finish time of the part before it" (`chainTk`/`chainFn`).  Iterating
it over `Lvl d` covers composites nested to any depth, empty parts and 0/1-child composites included.
-/
import Pandora.Model.C02Sched

namespace Pandora.Proofs.C02Seq
open Pandora.Model.C02

abbrev Den := (Int → List Int) × (Int → Int)

structure FinSem {σ : Type} (ops : Ops σ) where
  R : σ → List Int → Int → Prop
  U : σ → (Int → List Int) → (Int → Int) → Prop
  next_cons : ∀ {s t ts f}, R s (t :: ts) f → ∀ now, ∃ s', ops.next s now = .ok (s', t, true) ∧ R s' ts f
  next_nil : ∀ {s f}, R s [] f → ∀ now, ∃ s', ops.next s now = .ok (s', f, false) ∧ R s' [] f
  left_R : ∀ {s ts f}, R s ts f → ∀ now, ops.left s now = .ok (s, (ts.length : Int))
  start_U : ∀ {s tk fn}, U s tk fn → ∀ t, ∃ s', ops.start s t = .ok s' ∧ R s' (tk t) (fn t)
  next_U : ∀ {s tk fn}, U s tk fn → ∀ now, ∃ s1, ops.start s now = .ok s1 ∧ ops.next s now = ops.next s1 now
  left_U : ∀ {s tk fn}, U s tk fn → ∀ now, ops.left s now = .ok (s, ((tk 0).length : Int))
  len_U : ∀ {s tk fn}, U s tk fn → ∀ t, (tk t).length = (tk 0).length
  once0_U : U ops.once0 (fun _ => []) (fun t => t)

/-! ### leaves -/

def leafR : Leaf → List Int → Int → Prop
  | .fin offs dur i (some s), toks, f => toks = (offs.drop i).map (s + ·) ∧ f = s + dur
  | _, _, _ => False

def leafU : Leaf → (Int → List Int) → (Int → Int) → Prop
  | .fin offs dur 0 none, tk, fn => tk = (fun t => offs.map (t + ·)) ∧ fn = (fun t => t + dur)
  | _, _, _ => False

theorem drop_cons_of_map {offs : List Int} {i : Nat} {s t : Int} {ts : List Int}
    (h : t :: ts = (offs.drop i).map (s + ·)) : ∃ o, offs[i]? = some o ∧ t = s + o ∧ ts = (offs.drop (i + 1)).map (s + ·) := by
  have hi : i < offs.length := by
    rcases Nat.lt_or_ge i offs.length with h' | h'
    · exact h'
    · rw [List.drop_eq_nil_of_le h'] at h; simp at h
  rw [List.drop_eq_getElem_cons hi] at h
  simp only [List.map_cons, List.cons.injEq] at h
  exact ⟨offs[i], by simp [hi], h.1, h.2⟩

def leafSem : FinSem leafOps where
  R := leafR
  U := leafU
  next_cons := by
    intro s t ts f h now
    match s, h with
    | .fin offs dur i (some st), ⟨h1, h2⟩ =>
      obtain ⟨o, ho, rfl, rfl⟩ := drop_cons_of_map h1
      exact ⟨.fin offs dur (i + 1) (some st), by simp [leafOps, Leaf.next, ho], rfl, h2⟩
  next_nil := by
    intro s f h now
    match s, h with
    | .fin offs dur i (some st), ⟨h1, h2⟩ =>
      have hlen : offs.length ≤ i := by
        have := congrArg List.length h1
        simp at this; omega
      have hnone : offs[i]? = none := List.getElem?_eq_none hlen
      refine ⟨.fin offs dur (i + 1) (some st), by simp [leafOps, Leaf.next, hnone, h2], ?_, h2⟩
      simp [List.drop_eq_nil_of_le (by omega : offs.length ≤ i + 1)]
  left_R := by
    intro s ts f h now
    match s, h with
    | .fin offs dur i (some st), ⟨h1, _⟩ =>
      subst h1
      simp [leafOps, Leaf.left]
  start_U := by
    intro s tk fn h t
    match s, h with
    | .fin offs dur 0 none, ⟨h1, h2⟩ =>
      subst h1; subst h2
      exact ⟨.fin offs dur 0 (some t), rfl, by simp [leafR]⟩
  next_U := by
    intro s tk fn h now
    match s, h with
    | .fin offs dur 0 none, _ =>
      exact ⟨.fin offs dur 0 (some now), rfl, by simp [leafOps, Leaf.next]⟩
  left_U := by
    intro s tk fn h now
    match s, h with
    | .fin offs dur 0 none, ⟨h1, _⟩ =>
      subst h1
      simp [leafOps, Leaf.left]
  len_U := by
    intro s tk fn h t
    match s, h with
    | .fin offs dur 0 none, ⟨h1, _⟩ => subst h1; simp
  once0_U := by
    show leafU (.fin [] 0 0 none) _ _
    exact ⟨by funext t; simp, by funext t; simp⟩

/-! ### chains: part j+1 starts at the finish time of part j -/

def chainTk : List Den → Int → List Int
  | [], _ => []
  | d :: ds, t => d.1 t ++ chainTk ds (d.2 t)

def chainFn : List Den → Int → Int
  | [], t => t
  | d :: ds, t => chainFn ds (d.2 t)

/-- number of tokens of unstarted parts -/
def cnt (d : Den) : Nat := (d.1 0).length

def total : List Den → Nat
  | [] => 0
  | d :: ds => cnt d + total ds

/-- `leftAfter` for a head followed by `ds`: suffix sums, last entry 0 -/
def sufs : List Den → List Int
  | [] => [0]
  | d :: ds => ((cnt d + total ds : Nat) : Int) :: sufs ds

theorem sufs_head (ds : List Den) : (sufs ds).headD 0 = (total ds : Int) := by
  cases ds <;> simp [sufs, total]

theorem sufs_tail (d : Den) (ds : List Den) : (sufs (d :: ds)).tail = sufs ds := rfl

/-! ### the composite construction preserves `FinSem` -/

section comp
variable {σ : Type} {ops : Ops σ} (fs : FinSem ops)

/-- children are unstarted, with the given denotations -/
def AllU : List σ → List Den → Prop
  | [], [] => True
  | r :: rs, d :: ds => fs.U r d.1 d.2 ∧ AllU rs ds
  | _, _ => False

def compR (s : Comp σ) (toks : List Int) (f : Int) : Prop :=
  ∃ c rest toksH fH ds, s = ⟨c :: rest, sufs ds, true⟩ ∧ fs.R c toksH fH ∧ AllU fs rest ds ∧
    toks = toksH ++ chainTk ds fH ∧ f = chainFn ds fH

def compU (s : Comp σ) (tk : Int → List Int) (fn : Int → Int) : Prop :=
  ∃ c rest d ds, s = ⟨c :: rest, sufs ds, false⟩ ∧ fs.U c d.1 d.2 ∧ AllU fs rest ds ∧
    tk = chainTk (d :: ds) ∧ fn = chainFn (d :: ds)

theorem chainTk_len : ∀ (rest : List σ) (ds : List Den) (t : Int), AllU fs rest ds → (chainTk ds t).length = total ds
  | [], [], _, _ => rfl
  | r :: rs, d :: ds, t, h => by
      simp only [chainTk, total, List.length_append, cnt]
      rw [fs.len_U h.1 t, chainTk_len rs ds _ h.2]
  | [], _ :: _, _, h => absurd h (by simp [AllU])
  | _ :: _, [], _, h => absurd h (by simp [AllU])

theorem compNextAux_cons (c h : σ) (t : List σ) (la : List Int) (now : Int) :
    compNextAux ops c (h :: t) la now = (do
      let (c', tx, ok) ← ops.next c now
      if ok then pure (⟨c' :: h :: t, la, true⟩, tx, true) else do
        let h1 ← ops.start h tx
        let (h2, tx2, ok2) ← ops.next h1 now
        if ok2 then pure (⟨h2 :: t, la.tail, true⟩, tx2, true)
        else compNextAux ops h2 t la.tail now) := by
  rw [compNextAux]

theorem compNextAux_spec (now : Int) : ∀ (rest : List σ) (ds : List Den) (c : σ) (toksH : List Int) (fH : Int),
    fs.R c toksH fH → AllU fs rest ds →
    (∀ t ts, toksH ++ chainTk ds fH = t :: ts →
      ∃ s', compNextAux ops c rest (sufs ds) now = .ok (s', t, true) ∧ compR fs s' ts (chainFn ds fH)) ∧
    (toksH ++ chainTk ds fH = [] →
      ∃ s', compNextAux ops c rest (sufs ds) now = .ok (s', chainFn ds fH, false) ∧ compR fs s' [] (chainFn ds fH))
  | [], [], c, toksH, fH, hR, _ => by
    constructor
    · intro t ts h
      simp only [chainTk, List.append_nil] at h
      subst h
      obtain ⟨c', hn, hR'⟩ := fs.next_cons hR now
      refine ⟨⟨c' :: [], sufs [], true⟩, ?_, c', [], ts, fH, [], rfl, hR', trivial, by simp [chainTk], rfl⟩
      simp [compNextAux, hn, bind, Except.bind, pure, Except.pure]
    · intro h
      simp only [chainTk, List.append_nil] at h
      subst h
      obtain ⟨c', hn, hR'⟩ := fs.next_nil hR now
      refine ⟨⟨[c'], sufs [], true⟩, ?_, c', [], [], fH, [], rfl, hR', trivial, by simp [chainTk], rfl⟩
      simp [compNextAux, hn, bind, Except.bind, pure, Except.pure, chainFn]
  | h :: t, d :: ds, c, toksH, fH, hR, hU => by
    cases toksH with
    | cons t0 ts0 =>
      constructor
      · intro t' ts' heq
        simp only [List.cons_append, List.cons.injEq] at heq
        obtain ⟨rfl, rfl⟩ := heq
        obtain ⟨c', hn, hR'⟩ := fs.next_cons hR now
        refine ⟨⟨c' :: h :: t, sufs (d :: ds), true⟩, ?_, c', h :: t, ts0, fH, d :: ds, rfl, hR', hU, rfl, rfl⟩
        simp [compNextAux, hn, bind, Except.bind, pure, Except.pure]
      · intro heq; simp at heq
    | nil =>
      obtain ⟨c', hn, _⟩ := fs.next_nil hR now
      obtain ⟨h1, hs, hR1⟩ := fs.start_U hU.1 fH
      have ih := compNextAux_spec now t ds
      simp only [List.nil_append, chainTk, chainFn]
      cases hd : d.1 fH with
      | cons t1 ts1 =>
        rw [hd] at hR1
        obtain ⟨h2, hn2, hR2⟩ := fs.next_cons hR1 now
        constructor
        · intro t' ts' heq
          simp only [List.cons_append, List.cons.injEq] at heq
          obtain ⟨rfl, rfl⟩ := heq
          refine ⟨⟨h2 :: t, sufs ds, true⟩, ?_, h2, t, ts1, d.2 fH, ds, rfl, hR2, hU.2, rfl, rfl⟩
          simp [compNextAux, hn, hs, hn2, bind, Except.bind, pure, Except.pure, sufs_tail]
        · intro heq; simp at heq
      | nil =>
        rw [hd] at hR1
        obtain ⟨h2, hn2, hR2⟩ := fs.next_nil hR1 now
        obtain ⟨ih1, ih2⟩ := ih h2 [] (d.2 fH) hR2 hU.2
        constructor
        · intro t' ts' heq
          obtain ⟨s', hs', hc⟩ := ih1 t' ts' (by simpa using heq)
          refine ⟨s', ?_, hc⟩
          rw [compNextAux_cons]
          simp only [hn, hs, hn2, bind, Except.bind, Bool.false_eq_true, if_false, sufs_tail]
          exact hs'
        · intro heq
          obtain ⟨s', hs', hc⟩ := ih2 (by simpa using heq)
          refine ⟨s', ?_, hc⟩
          rw [compNextAux_cons]
          simp only [hn, hs, hn2, bind, Except.bind, Bool.false_eq_true, if_false, sufs_tail]
          exact hs'
  | [], _ :: _, _, _, _, _, hU => absurd hU (by simp [AllU])
  | _ :: _, [], _, _, _, _, hU => absurd hU (by simp [AllU])

theorem compLeftAux_cons (st : Bool) (c h : σ) (t : List σ) (la : List Int) (now : Int) :
    compLeftAux ops st c (h :: t) la now = (do
      let (c', left) ← ops.left c now
      let la0 := la.headD 0
      if left == 0 then
        if la0 ≥ 0 then pure (⟨c' :: h :: t, la, st⟩, la0)
        else if !st then pure (⟨c' :: h :: t, la, st⟩, -1)
        else do
          let (_, tx, ok) ← ops.next c' now
          if ok then throw "current schedule is not finished"
          let h1 ← ops.start h tx
          compLeftAux ops st h1 t la.tail now
      else if left < 0 then pure (⟨c' :: h :: t, la, st⟩, -1)
      else pure (⟨c' :: h :: t, la, st⟩, combineLeft left la0)) := by
  rw [compLeftAux]

/-- `Left` of a composite whose head reports `n ≥ 0` exactly and whose later parts are unstarted finite parts:
exact total, state untouched -/
theorem compLeftAux_spec (st : Bool) (now : Int) (c : σ) (n : Nat) (hl : ops.left c now = .ok (c, (n : Int)))
    (rest : List σ) (ds : List Den) (hU : AllU fs rest ds) :
    compLeftAux ops st c rest (sufs ds) now = .ok (⟨c :: rest, sufs ds, st⟩, ((n + total ds : Nat) : Int)) := by
  match rest, ds, hU with
  | [], [], _ =>
    rw [compLeftAux]
    simp [hl, bind, Except.bind, pure, Except.pure, total]
  | h :: t, d :: ds, _ =>
    rw [compLeftAux_cons]
    simp only [hl, bind, Except.bind, sufs_head]
    by_cases hn : n = 0
    · subst hn
      simp [pure, Except.pure]
    · have h1 : ((n : Int) == 0) = false := by simp [hn]
      have h2 : ¬ ((n : Int) < 0) := by omega
      simp only [h1, Bool.false_eq_true, if_false, h2, combineLeft]
      have h3 : ¬ (((total (d :: ds) : Nat) : Int) < 0) := by omega
      simp [h3, pure, Except.pure]

def compSem : FinSem (compOps ops) where
  R := compR fs
  U := compU fs
  next_cons := by
    rintro s t ts f ⟨c, rest, toksH, fH, ds, rfl, hR, hU, htoks, rfl⟩ now
    exact (compNextAux_spec fs now rest ds c toksH fH hR hU).1 t ts htoks.symm
  next_nil := by
    rintro s f ⟨c, rest, toksH, fH, ds, rfl, hR, hU, htoks, rfl⟩ now
    exact (compNextAux_spec fs now rest ds c toksH fH hR hU).2 htoks.symm
  left_R := by
    rintro s ts f ⟨c, rest, toksH, fH, ds, rfl, hR, hU, rfl, rfl⟩ now
    show compLeftAux ops true c rest (sufs ds) now = _
    rw [compLeftAux_spec fs true now c toksH.length (fs.left_R hR now) rest ds hU]
    simp [chainTk_len fs rest ds fH hU]
  start_U := by
    rintro s tk fn ⟨c, rest, d, ds, rfl, hc, hU, rfl, rfl⟩ t
    obtain ⟨c1, hs, hR⟩ := fs.start_U hc t
    refine ⟨⟨c1 :: rest, sufs ds, true⟩, ?_, c1, rest, d.1 t, d.2 t, ds, rfl, hR, hU, rfl, rfl⟩
    simp [compOps, compStart, hs, bind, Except.bind, pure, Except.pure]
  next_U := by
    rintro s tk fn ⟨c, rest, d, ds, rfl, hc, hU, rfl, rfl⟩ now
    obtain ⟨c1, hs, hn⟩ := fs.next_U hc now
    refine ⟨⟨c1 :: rest, sufs ds, true⟩, ?_, ?_⟩
    · simp [compOps, compStart, hs, bind, Except.bind, pure, Except.pure]
    · show compNextAux ops c rest (sufs ds) now = compNextAux ops c1 rest (sufs ds) now
      cases rest with
      | nil => rw [compNextAux, compNextAux, hn]
      | cons h t => rw [compNextAux_cons, compNextAux_cons, hn]
  left_U := by
    rintro s tk fn ⟨c, rest, d, ds, rfl, hc, hU, rfl, rfl⟩ now
    show compLeftAux ops false c rest (sufs ds) now = _
    rw [compLeftAux_spec fs false now c (cnt d) (fs.left_U hc now) rest ds hU]
    simp [chainTk, chainTk_len fs rest ds _ hU, cnt]
  len_U := by
    rintro s tk fn ⟨c, rest, d, ds, rfl, hc, hU, rfl, rfl⟩ t
    simp [chainTk, chainTk_len fs rest ds _ hU, fs.len_U hc t]
  once0_U := by
    refine ⟨ops.once0, [], (fun _ => [], fun t => t), [], rfl, fs.once0_U, trivial, ?_, ?_⟩
    · funext t; simp [chainTk]
    · funext t; simp [chainFn]

/-- denotation list → `leftAfter` as `NewComposite` computes it -/
def laOf : List Den → List Int
  | [] => []
  | _ :: ds => sufs ds

theorem mkLeftAfter_spec (now : Int) : ∀ (cs : List σ) (dens : List Den), AllU fs cs dens →
    mkLeftAfter ops now cs = .ok (cs, laOf dens, ((total dens : Nat) : Int), false)
  | [], [], _ => rfl
  | c :: rest, d :: ds, h => by
    have ih := mkLeftAfter_spec now rest ds h.2
    have hl := fs.left_U h.1 now
    simp only [mkLeftAfter, ih, hl, bind, Except.bind, pure, Except.pure]
    have h1 : ¬ (((d.1 0).length : Int) < 0) := by omega
    simp only [h1, if_false, Bool.false_eq_true]
    cases ds <;> simp [laOf, sufs, total, cnt] <;> omega
  | [], _ :: _, h => absurd h (by simp [AllU])
  | _ :: _, [], h => absurd h (by simp [AllU])

end comp

/-! ### sums and levels -/

def sumSem {α β : Type} {a : Ops α} {b : Ops β} (fa : FinSem a) (fb : FinSem b) : FinSem (sumOps a b) where
  R s toks f := match s with | .inl x => fa.R x toks f | .inr y => fb.R y toks f
  U s tk fn := match s with | .inl x => fa.U x tk fn | .inr y => fb.U y tk fn
  next_cons := by
    intro s t ts f h now
    cases s with
    | inl x => obtain ⟨x', hn, hr⟩ := fa.next_cons h now; exact ⟨.inl x', by simp [sumOps, hn, Except.map], hr⟩
    | inr y => obtain ⟨y', hn, hr⟩ := fb.next_cons h now; exact ⟨.inr y', by simp [sumOps, hn, Except.map], hr⟩
  next_nil := by
    intro s f h now
    cases s with
    | inl x => obtain ⟨x', hn, hr⟩ := fa.next_nil h now; exact ⟨.inl x', by simp [sumOps, hn, Except.map], hr⟩
    | inr y => obtain ⟨y', hn, hr⟩ := fb.next_nil h now; exact ⟨.inr y', by simp [sumOps, hn, Except.map], hr⟩
  left_R := by
    intro s ts f h now
    cases s with
    | inl x => simp [sumOps, fa.left_R h now, Except.map]
    | inr y => simp [sumOps, fb.left_R h now, Except.map]
  start_U := by
    intro s tk fn h t
    cases s with
    | inl x => obtain ⟨x', hs, hr⟩ := fa.start_U h t; exact ⟨.inl x', by simp [sumOps, hs, Except.map], hr⟩
    | inr y => obtain ⟨y', hs, hr⟩ := fb.start_U h t; exact ⟨.inr y', by simp [sumOps, hs, Except.map], hr⟩
  next_U := by
    intro s tk fn h now
    cases s with
    | inl x => obtain ⟨x', hs, hn⟩ := fa.next_U h now; exact ⟨.inl x', by simp [sumOps, hs, Except.map], by simp [sumOps, hn]⟩
    | inr y => obtain ⟨y', hs, hn⟩ := fb.next_U h now; exact ⟨.inr y', by simp [sumOps, hs, Except.map], by simp [sumOps, hn]⟩
  left_U := by
    intro s tk fn h now
    cases s with
    | inl x => simp [sumOps, fa.left_U h now, Except.map]
    | inr y => simp [sumOps, fb.left_U h now, Except.map]
  len_U := by
    intro s tk fn h t
    cases s with
    | inl x => exact fa.len_U h t
    | inr y => exact fb.len_U h t
  once0_U := fa.once0_U

/-- every nesting depth -/
def lvlSem : (d : Nat) → FinSem (lvlOps d)
  | 0 => leafSem
  | d + 1 => sumSem (lvlSem d) (compSem (lvlSem d))

/-- `NewComposite` of unstarted finite parts (0, 1 or more of them) is the unstarted chain of those parts -/
theorem newComposite_sem {σ : Type} {ops : Ops σ} (fs : FinSem ops) (now : Int) (cs : List σ) (dens : List Den)
    (h : AllU fs cs dens) :
    ∃ s, newComposite ops now cs = .ok s ∧ (sumSem fs (compSem fs)).U s (chainTk dens) (chainFn dens) := by
  match cs, dens, h with
  | [], [], _ =>
    refine ⟨.inl ops.once0, rfl, ?_⟩
    have h1 : chainTk ([] : List Den) = fun _ => [] := by funext t; rfl
    have h2 : chainFn ([] : List Den) = fun t => t := by funext t; rfl
    show fs.U ops.once0 _ _
    rw [h1, h2]; exact fs.once0_U
  | [c], [d], h =>
    refine ⟨.inl c, rfl, ?_⟩
    have h1 : chainTk [d] = d.1 := by funext t; simp [chainTk]
    have h2 : chainFn [d] = d.2 := by funext t; simp [chainFn]
    show fs.U c _ _
    rw [h1, h2]; exact h.1
  | c1 :: c2 :: rest, d1 :: d2 :: ds, h =>
    refine ⟨.inr ⟨c1 :: c2 :: rest, sufs (d2 :: ds), false⟩, ?_, c1, c2 :: rest, d1, d2 :: ds, rfl, h.1, h.2, rfl, rfl⟩
    simp [newComposite, mkLeftAfter_spec fs now _ _ h, bind, Except.bind, pure, Except.pure, laOf]


end Pandora.Proofs.C02Seq
