/-
C09, round 6 — COMPOSITION with C07 (ammo decoding fidelity).

C07's model reads the BYTES of an ammo file (`Pandora.Model.C07.uriPassLim`, `uripostPass`: bufio line reading, TrimSpace,
`[k: v]` lines through util.DecodeHeader, the URL/tag cut, size-prefixed bodies) and is tied to decoders/uri.go, uripost.go by its
own regenerated area (`ammodec`) and bridge lemmas. C09's model starts where the decoder calls `Ammo.Setup`. This file joins the
two over C07's definitions (imported read-only), so that the end-to-end statement "file bytes → what `Client.Do` is handed"
does not assume the decoder's behaviour as a hypothesis:

* `toStr`, `toHdr` : C07's bytes / single-valued header maps as C09's strings / http.Header;
* `canonKey_eq` : C07's CanonicalMIMEHeaderKey model IS C09's (`toStr (C07.canonKey k) = canon (toStr k)`, all keys);
* `toHdr_hset` : C07's `http.Header.Set` IS C09's;
* `uriPass_wf`, `uripostPass_wf` : every ammo of a pass carries a well-formed header map (canonical, distinct keys), method GET / POST.
-/
import Pandora.Model.C07
import Pandora.Proofs.C09

namespace Pandora.Proofs.C09R6
open Pandora.Model Pandora.Model.C09 Pandora.Proofs.C09

/-- a C07 byte string as a C09 string -/
def toStr (b : C07.Bytes) : Str := b.map UInt8.toNat

/-- a C07 header map (single values, insertion order) as an http.Header of C09 -/
def toHdr (h : C07.Hdrs) : Hdr := h.map fun kv => (toStr kv.1, [toStr kv.2])

theorem toStr_inj {a b : C07.Bytes} (h : toStr a = toStr b) : a = b := by
  induction a generalizing b with
  | nil => cases b <;> simp_all [toStr]
  | cons x xs ih =>
    cases b with
    | nil => simp [toStr] at h
    | cons y ys =>
      simp only [toStr, List.map_cons, List.cons.injEq] at h
      have := ih (b := ys) (by simpa [toStr] using h.2)
      rw [UInt8.toNat_inj.mp h.1, this]

/-! ## byte classes and the case mapping agree -/

theorem forall_uint8 (P : UInt8 → Prop) (h : ∀ n : Fin 256, P (UInt8.ofFin n)) : ∀ b, P b := by
  intro b
  have := h b.toFin
  simpa using this

theorem tok_eq : ∀ b : UInt8, C07.isTokByte b = isTokenByte b.toNat := by
  apply forall_uint8
  decide +kernel

theorem map_eq : ∀ b : UInt8, ∀ up : Bool,
    (if up then C07.upperB b else C07.lowerB b).toNat = mapByte up b.toNat := by
  apply forall_uint8
  decide +kernel

theorem dash_eq : ∀ b : UInt8, (b == 45) = (b.toNat == 45) := by
  apply forall_uint8
  decide +kernel

theorem canonAux_eq (up : Bool) (k : C07.Bytes) : toStr (C07.canonAux up k) = caseMap up (toStr k) := by
  induction k generalizing up with
  | nil => simp [C07.canonAux, caseMap, toStr]
  | cons b r ih =>
    have e := map_eq b up
    simp only [toStr, List.map_cons, C07.canonAux] at ih ⊢
    rw [caseMap_cons, ← e, ih, dash_eq]

theorem all_tok_eq (k : C07.Bytes) : k.all C07.isTokByte = (toStr k).all isTokenByte := by
  induction k with
  | nil => simp [toStr]
  | cons b r ih => simp only [toStr, List.map_cons, List.all_cons] at ih ⊢; rw [ih, tok_eq]

/-- C07's and C09's models of textproto.CanonicalMIMEHeaderKey agree on every key -/
theorem canonKey_eq (k : C07.Bytes) : toStr (C07.canonKey k) = canon (toStr k) := by
  unfold C07.canonKey canon
  by_cases h : k.all C07.isTokByte = true
  · have h' : (toStr k).all isTokenByte = true := by rw [← all_tok_eq]; exact h
    obtain ⟨j1, j2⟩ := tok_all_or _ h'
    simp only [h, if_true, j1, j2, Bool.false_eq_true, if_false]
    exact canonAux_eq true k
  · have h' : ¬ (toStr k).all isTokenByte = true := by rw [← all_tok_eq]; exact h
    simp only [h]
    by_cases h1 : (toStr k).all (fun c => isTokenByte c || c == 32) = true
    · by_cases h2 : (toStr k).any (· == 32) = true
      · simp [h1, h2]
      · exact absurd (all_tok_of _ h1 (Bool.eq_false_iff.mpr h2)) h'
    · simp [h1]

theorem canon_canonKey (k : C07.Bytes) : canon (toStr (C07.canonKey k)) = toStr (C07.canonKey k) := by
  rw [canonKey_eq, canon_idem]

/-! ## http.Header.Set / lookups agree -/

theorem toHdr_hsetRaw (h : C07.Hdrs) (k v : C07.Bytes) :
    toHdr (C07.hsetRaw h k v) = hput (toHdr h) (toStr k) [toStr v] := by
  induction h with
  | nil => simp [C07.hsetRaw, toHdr, hput]
  | cons kv r ih =>
    obtain ⟨k', v'⟩ := kv
    simp only [toHdr, List.map_cons, C07.hsetRaw, hput] at ih ⊢
    by_cases e : k' = k
    · subst e; simp
    · have : ¬ toStr k' = toStr k := fun c => e (toStr_inj c)
      simp [e, this, ih]

/-- C07's `http.Header.Set` is C09's -/
theorem toHdr_hset (h : C07.Hdrs) (k v : C07.Bytes) :
    toHdr (C07.hset h k v) = hset (toHdr h) (toStr k) (toStr v) := by
  simp only [C07.hset, hset, toHdr_hsetRaw, canonKey_eq]

theorem hget_toHdr (h : C07.Hdrs) (k : C07.Bytes) :
    hget (toHdr h) (toStr k) = (C07.hget h k).map fun v => [toStr v] := by
  induction h with
  | nil => simp [toHdr, hget, C07.hget]
  | cons kv r ih =>
    obtain ⟨k', v'⟩ := kv
    simp only [toHdr, List.map_cons, hget, C07.hget] at ih ⊢
    by_cases e : k' = k
    · subst e; simp
    · have : ¬ toStr k' = toStr k := fun c => e (toStr_inj c)
      simp [e, this, ih]

theorem WF_toHdr_hset {h : C07.Hdrs} (w : WF (toHdr h)) (k v : C07.Bytes) : WF (toHdr (C07.hset h k v)) := by
  rw [toHdr_hset]
  exact WF_hput w (canon_idem _) (by simp)

/-! ## every ammo of a uri pass: GET, no body, a well-formed header map -/

/-- what C09 needs to know of an ammo C07's decoder model hands to `Ammo.Setup` -/
structure AmmoOK (m : C07.Bytes) (a : C07.Ammo) : Prop where
  method : a.method = m
  wf : WF (toHdr a.hdrs)

theorem uriLine_ok (tok : C07.Bytes) (h : C07.Hdrs) (w : WF (toHdr h)) :
    match C07.uriLine tok h with
    | .skip h' => WF (toHdr h')
    | .ammo a => AmmoOK C07.getBytes a ∧ a.body = [] ∧ a.hdrs = h
    | .err _ => True := by
  unfold C07.uriLine
  cases C07.trimSpace tok with
  | nil => exact w
  | cons b r =>
    by_cases hb : b = C07.LBR
    · simp only [hb, if_true]
      cases C07.decodeHeader (C07.LBR :: r) with
      | ok kv => exact WF_toHdr_hset w _ _
      | error e => trivial
    · show (match (if b = C07.LBR then _ else _ : C07.LineRes) with | .skip h' => _ | .ammo a => _ | .err _ => _)
      rw [if_neg hb]
      exact ⟨⟨rfl, w⟩, rfl, rfl⟩

theorem uriPass_ok (lim : Option Nat) (bs : C07.Bytes) (h : C07.Hdrs) (w : WF (toHdr h)) (a : C07.Ammo)
    (ha : a ∈ (C07.uriPassLim lim bs h).1) : AmmoOK C07.getBytes a ∧ a.body = [] := by
  fun_induction C07.uriPassLim lim bs h with
  | case1 h => simp at ha
  | case2 => simp at ha
  | case3 h b r p hl h' hline ih =>
    have := uriLine_ok (C07.dropCR p.1) h w
    rw [hline] at this
    exact ih this ha
  | case4 h b r p hl a' hline q ih =>
    have := uriLine_ok (C07.dropCR p.1) h w
    rw [hline] at this
    simp only [List.mem_cons] at ha
    rcases ha with rfl | ha
    · exact ⟨this.1, this.2.1⟩
    · exact ih w ha
  | case5 => simp at ha

/-- every ammo of a uripost pass: POST, a well-formed header map -/
theorem uripostPass_ok (fixed : Bool) (bs : C07.Bytes) (h : C07.Hdrs) (w : WF (toHdr h)) (a : C07.Ammo)
    (ha : a ∈ (C07.uripostPass fixed bs h).1) : AmmoOK C07.postBytes a := by
  fun_induction C07.uripostPass fixed bs h <;> simp_all
  case case4 ih => exact ih (WF_toHdr_hset w _ _)
  case case9 ih =>
    rcases ha with rfl | ha
    · exact ⟨rfl, w⟩
    · exact ih ha

/-! ## from the decoded ammo to what `Client.Do` is handed -/

/-- the Host an ammo's header map and the option give a request without a URL host: first value of the merged map's entry -/
def mapsHost (file conf : Hdr) : Str :=
  match hget (mergeUri file conf) hostKey with
  | some (v :: _) => v
  | _ => []

/-- … which is the file's Host when the file's map has one, else the option's -/
theorem mapsHost_eq (file : Hdr) (confL : List (Str × Str)) :
    mapsHost file (confHdr confL) = match (match hget file hostKey with
        | some x => some x
        | none => hget (confHdr confL) hostKey) with
      | some (v :: _) => v
      | _ => [] := by
  unfold mapsHost
  rw [hget_mergeUri _ _ (WF_confHdr confL).canonKeys]
  cases hget file hostKey <;> cases hget (confHdr confL) hostKey <;> rfl

/-- Setup → BuildRequest (http.NewRequest + Enrich over the add-if-absent merge of uri.go / uripost.go) → Shoot, for an ammo of
C07's decoder model and ANY `headers` option: never panics; method, request-URI, body are the ammo's; every header is the
file's when the file's map has it, else the option's; Host is the URL's, else the file's, else the option's, else the target's;
scheme by `ssl`, dialed at the resolved target. -/
theorem wire_of_ammo (m : C07.Bytes) (a : C07.Ammo) (ok : AmmoOK m a) (confL : List (Str × Str)) (g : Gun) :
    ∃ r, buildAmmo (toStr a.method) (toStr a.url) (toStr a.body) (mergeUri (toHdr a.hdrs) (confHdr confL)) = some r ∧
      (shoot g r).method = (if toStr m = [] then GET else toStr m) ∧
      (shoot g r).uri = (splitURL (toStr a.url)).2 ∧ (shoot g r).body = toStr a.body ∧
      (shoot g r).dial = g.targetResolved ∧ (shoot g r).scheme = (if g.ssl then Scheme.https else Scheme.http) ∧
      (∀ n, n ≠ hostKey → hget (shoot g r).header n = match hget (toHdr a.hdrs) n with
          | some x => some x
          | none => hget (confHdr confL) n) ∧
      (shoot g r).host =
        (if (splitURL (toStr a.url)).1 ≠ [] then (splitURL (toStr a.url)).1
         else if mapsHost (toHdr a.hdrs) (confHdr confL) ≠ [] then mapsHost (toHdr a.hdrs) (confHdr confL)
         else hostWithoutPort g.target) := by
  have wconf := WF_confHdr confL
  have wm := WF_mergeUri _ _ ok.wf wconf
  obtain ⟨r, hr⟩ := enrich_no_panic (newRequest (toStr a.method) (toStr a.url) (toStr a.body)) _ wm.nonempty
  have hf := enrich_fields _ _ _ hr
  have hh := enrich_host _ _ _ wm (by simp [newRequest, hget]) hr
  refine ⟨r, hr, ?_, ?_, ?_, rfl, rfl, ?_, ?_⟩
  · simp [shoot, hf.1, newRequest, ok.method]
  · simp [shoot, hf.2.1, newRequest]
  · simp [shoot, hf.2.2, newRequest]
  · intro n hn
    have := enrich_header _ _ _ wm.canonKeys hr n hn
    simp only [shoot]
    rw [this]
    simp only [newRequest, hget]
    exact hget_mergeUri _ _ wconf.canonKeys n
  · have hh' : r.host = if (splitURL (toStr a.url)).1 ≠ [] then (splitURL (toStr a.url)).1
        else mapsHost (toHdr a.hdrs) (confHdr confL) := hh
    simp only [shoot, hh']
    generalize mapsHost (toHdr a.hdrs) (confHdr confL) = M
    by_cases hu : (splitURL (toStr a.url)).1 = [] <;> by_cases hM : M = [] <;> simp [hu, hM]

/-! ## http/json: C07's entity → `Ammo.Setup` arguments are C09's reading of a json entry -/

/-- the header members of a C07 entity as C09 header lines -/
def jsonLines (e : C07.Entity) : List (Str × Str) := e.headers.map fun kv => (toStr kv.1, toStr kv.2)

/-- a C07 entity as a C09 entry -/
def jsonEntry (e : C07.Entity) : Entry :=
  { method := toStr e.method, uri := toStr e.uri, host := toStr e.host, body := toStr e.body }

theorem toHdr_foldl_hset (l : List (C07.Bytes × C07.Bytes)) (h : C07.Hdrs) :
    toHdr (l.foldl (fun h kv => C07.hset h kv.1 kv.2) h) =
      commonOf (toHdr h) (l.map fun kv => (toStr kv.1, toStr kv.2)) := by
  induction l generalizing h with
  | nil => simp [commonOf]
  | cons kv r ih =>
    simp only [List.foldl_cons, List.map_cons, commonOf] at ih ⊢
    rw [ih, toHdr_hset]

theorem validMethod_eq (m : C07.Bytes) : C07.validMethod m = validMethod (toStr m) := by
  unfold C07.validMethod validMethod
  rw [all_tok_eq]
  cases m <;> simp [toStr]

/-- what C07's model hands to `Ammo.Setup` for an entity is, field by field, what C09's `buildReq .jsonline` starts from -/
theorem entityAmmo_json (e : C07.Entity) (a : C07.Ammo) (h : C07.entityAmmo e = .ok a) :
    toStr a.method = (jsonEntry e).method ∧ toStr a.url = httpPfx ++ (jsonEntry e).host ++ (jsonEntry e).uri ∧
      toStr a.body = (jsonEntry e).body ∧ toHdr a.hdrs = commonOf [] (jsonLines e) ∧
      validMethod (jsonEntry e).method = true := by
  unfold C07.entityAmmo at h
  split at h
  · rename_i hv
    injection h with h
    subst h
    refine ⟨rfl, ?_, rfl, ?_, ?_⟩
    · simp [toStr, jsonEntry, C07.httpPrefix, httpPfx]
    · exact toHdr_foldl_hset e.headers []
    · show validMethod (toStr e.method) = true
      rw [← validMethod_eq]; exact hv
  · cases h

/-- the entity is refused (ErrBadMethod) exactly when C09's `scanJson` refuses it -/
theorem entityAmmo_refused (e : C07.Entity) (err : C07.Err) (h : C07.entityAmmo e = .error err) :
    validMethod (jsonEntry e).method = false := by
  unfold C07.entityAmmo at h
  split at h
  · cases h
  · rename_i hv
    show validMethod (toStr e.method) = false
    rw [← validMethod_eq]
    exact Bool.eq_false_iff.mpr hv

end Pandora.Proofs.C09R6
