/-
C06 helper lemmas: `onWaitDone` is called exactly once per pool, and for a started pool only after its tasks are
over (Model/C06PoolRun.lean).
-/
import Pandora.Model.C06PoolRun
import Pandora.Proofs.C06Engine

namespace Pandora.Proofs.C06PoolRun
open Pandora.Model.C06PoolRun Pandora.Proofs.C06Pool Pandora.Proofs.C06Engine
open Pandora.Model.C06Pool (PSt PEv)

structure RInv (ps : PoolSt) : Prop where
  pinv : PInv ps.p
  /-- a pool that has not been started has not taken a step of its tasks -/
  untouched : ps.path ≠ .started → ps.p = Pandora.Model.C06Pool.init 4
  fresh : ps.path = .fresh → ps.dones = 0
  early : ps.path = .failedEarly → ps.dones = 1
  started : ps.path = .started → ps.dones = (if ps.p.waitDone then 1 else 0)

theorem rinv_init : RInv { p := Pandora.Model.C06Pool.init 4 } := by
  refine ⟨pinv_init, fun _ => rfl, fun _ => rfl, ?_, ?_⟩ <;> intro h <;> simp at h

theorem setPool_same (f : Nat → PoolSt) (j : Nat) (x : PoolSt) : setPool f j x j = x := by simp [setPool]
theorem setPool_other (f : Nat → PoolSt) (j k : Nat) (x : PoolSt) (h : k ≠ j) : setPool f j x k = f k := by
  simp [setPool, h]

theorem init_waitDone : (Pandora.Model.C06Pool.init 4).waitDone = false := rfl

theorem rinv_early {ps : PoolSt} (hk : RInv ps) (hf : ps.path = .fresh) (d : Nat) (hd : d = 1) :
    RInv { ps with path := .failedEarly, dones := ps.dones + d } := by
  refine ⟨hk.pinv, fun _ => hk.untouched (by rw [hf]; decide), ?_, ?_, ?_⟩
  · intro hh; simp at hh
  · intro _; simp [hk.fresh hf, hd]
  · intro hh; simp at hh

theorem rinv_step {st : St} (h : ∀ k, RInv (st.pools k)) (e : Ev) : ∀ k, RInv ((step Cfg.code st e).pools k) := by
  intro k
  cases e with
  | warmFail j =>
    simp only [step]
    split
    · rename_i hf
      by_cases hk : k = j
      · subst hk; simp only [setPool_same]
        exact rinv_early (h k) hf _ (by simp [Cfg.code, done1])
      · simp only [setPool_other _ _ _ _ hk]; exact h k
    · exact h k
  | asyncFail j =>
    simp only [step]
    split
    · rename_i hf
      by_cases hk : k = j
      · subst hk; simp only [setPool_same]
        exact rinv_early (h k) hf _ (by simp [Cfg.code, done1])
      · simp only [setPool_other _ _ _ _ hk]; exact h k
    · exact h k
  | asyncOk j =>
    simp only [step]
    split
    · rename_i hf
      by_cases hk : k = j
      · subst hk; simp only [setPool_same]
        have hk := h k
        have hu := hk.untouched (by rw [hf]; decide)
        refine ⟨hk.pinv, ?_, ?_, ?_, ?_⟩
        · intro hh; simp at hh
        · intro hh; simp at hh
        · intro hh; simp at hh
        · intro _; simp [hk.fresh hf, hu, init_waitDone]
      · simp only [setPool_other _ _ _ _ hk]; exact h k
    · exact h k
  | pool j ev =>
    simp only [step]
    split
    · rename_i hs
      by_cases hk : k = j
      · subst hk; simp only [setPool_same]
        have hk := h k
        have hd := hk.started hs
        refine ⟨pinv_step hk.pinv ev, ?_, ?_, ?_, ?_⟩
        · intro hh; exact absurd hs hh
        · intro hh; rw [hs] at hh; simp at hh
        · intro hh; rw [hs] at hh; simp at hh
        · intro _
          cases hw : (st.pools k).p.waitDone with
          | true =>
            have := waitDone_mono (st.pools k).p ev hw
            simp [hd, hw, this, done1]
          | false =>
            cases hw' : (Pandora.Model.C06Pool.step (st.pools k).p ev).waitDone <;> simp [hd, hw, done1]
      · simp only [setPool_other _ _ _ _ hk]; exact h k
    · exact h k
  | ctxReturn j =>
    simp only [step]
    split
    · rename_i hs
      by_cases hk : k = j
      · subst hk; simp only [setPool_same]
        have hk := h k
        refine ⟨hk.pinv, hk.untouched, ?_, ?_, ?_⟩
        · intro hh; rw [hs.1] at hh; simp at hh
        · intro hh; rw [hs.1] at hh; simp at hh
        · intro hh; simp [hk.started hh, Cfg.code, done1]
      · simp only [setPool_other _ _ _ _ hk]; exact h k
    · exact h k

theorem rinv_run (tr : List Ev) {st : St} (h : ∀ k, RInv (st.pools k)) : ∀ k, RInv ((run Cfg.code st tr).pools k) := by
  induction tr generalizing st with
  | nil => exact h
  | cons e es ih => exact ih (rinv_step h e)

theorem rinv_dones_le {ps : PoolSt} (h : RInv ps) : ps.dones ≤ 1 := by
  cases hp : ps.path with
  | fresh => rw [h.fresh hp]; omega
  | failedEarly => rw [h.early hp]; omega
  | started => rw [h.started hp]; split <;> omega

theorem totalDones_le (st : St) (h : ∀ k, RInv (st.pools k)) (n : Nat) : totalDones st n ≤ n := by
  induction n with
  | zero => simp [totalDones]
  | succ n ih => simp only [totalDones]; have := rinv_dones_le (h n); omega

theorem totalDones_full (st : St) (h : ∀ k, RInv (st.pools k)) (n : Nat) (hn : totalDones st n = n) :
    ∀ j, j < n → (st.pools j).dones = 1 := by
  induction n with
  | zero => intro j hj; omega
  | succ n ih =>
    simp only [totalDones] at hn
    have h1 := rinv_dones_le (h n)
    have h2 := totalDones_le st h n
    intro j hj
    by_cases hjn : j = n
    · subst hjn; omega
    · exact ih (by omega) j (by omega)

/-! ### a variant that forgets `onWaitDone` on an early failure: `Engine.Wait` never returns -/

theorem forgotten_step (cfg : Cfg) {st : St} (j : Nat) (h : (st.pools j).path = .failedEarly ∧ (st.pools j).dones = 0)
    (e : Ev) : ((step cfg st e).pools j).path = .failedEarly ∧ ((step cfg st e).pools j).dones = 0 := by
  cases e with
  | warmFail i | asyncFail i | asyncOk i =>
    simp only [step]
    split
    · rename_i hf
      by_cases hk : j = i
      · subst hk; rw [h.1] at hf; simp at hf
      · simp only [setPool_other _ _ _ _ hk]; exact h
    · exact h
  | pool i ev =>
    simp only [step]
    split
    · rename_i hf
      by_cases hk : j = i
      · subst hk; rw [h.1] at hf; simp at hf
      · simp only [setPool_other _ _ _ _ hk]; exact h
    · exact h
  | ctxReturn i =>
    simp only [step]
    split
    · rename_i hf
      by_cases hk : j = i
      · subst hk; rw [h.1] at hf; simp at hf
      · simp only [setPool_other _ _ _ _ hk]; exact h
    · exact h

theorem forgotten_run (cfg : Cfg) (tr : List Ev) {st : St} (j : Nat)
    (h : (st.pools j).path = .failedEarly ∧ (st.pools j).dones = 0) :
    ((run cfg st tr).pools j).dones = 0 := by
  induction tr generalizing st with
  | nil => exact h.2
  | cons e es ih => exact ih (forgotten_step cfg j h e)

theorem totalDones_le' (st : St) (hle : ∀ k, (st.pools k).dones ≤ 1) (n : Nat) : totalDones st n ≤ n := by
  induction n with
  | zero => simp [totalDones]
  | succ m ihm => simp only [totalDones]; have := hle m; omega

theorem totalDones_lt (st : St) (n j : Nat) (hj : j < n) (h0 : (st.pools j).dones = 0)
    (hle : ∀ k, (st.pools k).dones ≤ 1) : totalDones st n < n := by
  induction n with
  | zero => omega
  | succ n ih =>
    simp only [totalDones]
    by_cases hjn : j = n
    · subst hjn
      have := totalDones_le' st hle j
      omega
    · have := ih (by omega); have := hle n; omega

end Pandora.Proofs.C06PoolRun
