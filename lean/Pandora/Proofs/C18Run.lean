/-
C18 — from the per-operation lemmas of Proofs/C18 to statements about a whole run (`Model.C18.run`):
case analysis of a run, then the assembled Spec predicates `freshOk` and `onceOk`.
-/
import Pandora.Proofs.C18

namespace Pandora.Proofs.C18
open Pandora.Model.C18 Pandora.Spec.C18

/-- a phase starts with an empty event log -/
abbrev st0 (st : St) : St := { st with log := [] }

/-- creation step + state of `NewFactory` for the requested form, in a phase started in `st` -/
abbrev created (inp : Input) (st : St) : St × Except Err Fac :=
  regNewFactory inp.sh inp.w inp.form.numOut (st0 st)

/-- the k calls of `New` -/
abbrev newCalls (inp : Input) (st : St) : St × List Step :=
  iter (step (regNew inp.sh inp.w)) inp.k (st0 st)

/-- the k calls of the factory `fac` handed out by `NewFactory` -/
abbrev facCalls (inp : Input) (st : St) (fac : Fac) : St × List Step :=
  iter (step (callFac inp.sh inp.w fac)) inp.k (created inp st).1

/-- every phase is: either k calls of `New`, or a failed `NewFactory`, or a successful `NewFactory` followed by k
calls of its result -/
theorem phase_cases (inp : Input) (st : St) :
    ((inp.form = .component ∧ (phaseObs inp st).steps = (newCalls inp st).2 ∧
        (phaseObs inp st).views = viewsOf (newCalls inp st).1.heap (newCalls inp st).2) ∨
     (inp.form ≠ .component ∧ (inp.form.numOut = 1 ∨ inp.form.numOut = 2) ∧
        (inp.form == .facNoErr) = (inp.form.numOut == 1) ∧
        ((∃ e, (created inp st).2 = .error e ∧ (phaseObs inp st).steps = [⟨(created inp st).1.log.reverse, .err e⟩]) ∨
         (∃ fac, (created inp st).2 = .ok fac ∧
            (phaseObs inp st).steps = ⟨(created inp st).1.log.reverse, .made⟩ :: (facCalls inp st fac).2 ∧
            (phaseObs inp st).views = viewsOf (facCalls inp st fac).1.heap (phaseObs inp st).steps)))) := by
  obtain ⟨sh, form, w, k⟩ := inp
  cases form with
  | component => exact .inl ⟨rfl, rfl, rfl⟩
  | facNoErr =>
    refine .inr ⟨by simp, .inl rfl, rfl, ?_⟩
    cases hc : (regNewFactory sh w Form.facNoErr.numOut (st0 st)).2 with
    | error e =>
      refine .inl ⟨e, rfl, ?_⟩
      simp only [phaseObs, phaseSt, hc]
    | ok fac =>
      refine .inr ⟨fac, rfl, ?_, ?_⟩ <;> simp only [phaseObs, phaseSt, hc]
  | facErr =>
    refine .inr ⟨by simp, .inr rfl, rfl, ?_⟩
    cases hc : (regNewFactory sh w Form.facErr.numOut (st0 st)).2 with
    | error e =>
      refine .inl ⟨e, rfl, ?_⟩
      simp only [phaseObs, phaseSt, hc]
    | ok fac =>
      refine .inr ⟨fac, rfl, ?_, ?_⟩ <;> simp only [phaseObs, phaseSt, hc]

theorem st0_initSt (sh : Shape) (w : World) : st0 (initSt sh w) = initSt sh w := by
  unfold initSt; split <;> rfl

/-- a run is the phase started in the state right after registration -/
theorem run_eq_phase {inp : Input} {obs : Obs} (h : run inp = some obs) :
    registerOk inp.sh = true ∧ obs = phaseObs inp (initSt inp.sh inp.w) := by
  obtain ⟨sh, form, w, k⟩ := inp
  unfold run runSt at h
  by_cases hr : registerOk sh = true
  · refine ⟨hr, ?_⟩
    simp only [hr, Bool.not_true, Bool.false_eq_true, if_false] at h
    have h0 := st0_initSt sh w
    cases form with
    | component =>
      simp only [Option.map_some, Option.some.injEq] at h
      subst h
      simp only [phaseObs, phaseSt, h0]
    | facNoErr =>
      simp only at h
      cases hc : (regNewFactory sh w Form.facNoErr.numOut (initSt sh w)).2 with
      | error e =>
        simp only [hc, Option.map_some, Option.some.injEq] at h
        subst h
        simp only [phaseObs, phaseSt, h0, hc]
      | ok fac =>
        simp only [hc, Option.map_some, Option.some.injEq] at h
        subst h
        simp only [phaseObs, phaseSt, h0, hc]
    | facErr =>
      simp only at h
      cases hc : (regNewFactory sh w Form.facErr.numOut (initSt sh w)).2 with
      | error e =>
        simp only [hc, Option.map_some, Option.some.injEq] at h
        subst h
        simp only [phaseObs, phaseSt, h0, hc]
      | ok fac =>
        simp only [hc, Option.map_some, Option.some.injEq] at h
        subst h
        simp only [phaseObs, phaseSt, h0, hc]
  · simp [hr] at h

theorem viewsOf_made (heap : Nat → Cfg) (evs : List Ev) (l : List Step) :
    viewsOf heap (⟨evs, .made⟩ :: l) = viewsOf heap l := by
  simp [viewsOf]

theorem nodup_of (l : List Nat) (h : l.Nodup) : nodup l = true := by simp [nodup, h]

/-- `freshOk` of a phase started in any state -/
theorem fresh_phase (inp : Input) (st : St) (ha : freshApplies inp = true) :
    freshOk inp (phaseObs inp st) = true := by
  have hcase := phase_cases inp st
  generalize phaseObs inp st = obs at hcase ⊢
  simp only [freshApplies, Bool.and_eq_true, bne_iff_ne, ne_eq, Bool.or_eq_true, beq_iff_eq,
    Bool.not_eq_true'] at ha
  obtain ⟨⟨hc, hs⟩, hform⟩ := ha
  rcases hcase with ⟨hf, hsteps, hviews⟩ | ⟨hf, hn, _, hcr⟩
  · -- k calls of `New`
    obtain ⟨f1, f2, f3, f4, f5⟩ := fresh_iter inp.sh inp.w inp.sh.factory false (step (regNew inp.sh inp.w))
      (fun st => step_regNew inp.sh inp.w st) hc hs rfl inp.k (st0 st)
    have hcalls : callsOf inp obs = (newCalls inp st).2 := by simp [callsOf, hf, hsteps]
    simp only [freshOk, hcalls, hf, beq_self_eq_true, Bool.true_or, Bool.true_and, Bool.and_eq_true,
      List.all_eq_true, beq_iff_eq]
    refine ⟨⟨⟨⟨⟨f1, nodup_of _ f2⟩, nodup_of _ f3⟩, nodup_of _ f4⟩, ?_⟩, ?_⟩
    · intro v hv; rw [hviews] at hv; exact f5 v hv
    · rw [hviews]; exact viewsOf_length _ _
  · -- a factory made from a component constructor
    have hfa : inp.sh.factory = false := by
      rcases hform with hform | hform
      · exact absurd hform hf
      · exact hform
    obtain ⟨q1, q2, q3, q4⟩ := quad_proj (create_eq inp.sh inp.w inp.form.numOut (st0 st) rfl)
    have hcs : createSpec inp.sh inp.w inp.form.numOut (st0 st) =
        ((st0 st).heap, (st0 st).next, [], .ok (.wrapPlugin inp.form.numOut)) := by
      simp [createSpec, hfa, hc]
    rw [hcs] at q3 q4
    rcases hcr with ⟨e, he, _⟩ | ⟨fac, hfac, hsteps, hviews⟩
    · rw [q4] at he; simp at he
    · have hfac' : fac = .wrapPlugin inp.form.numOut := by
        rw [q4] at hfac; simp at hfac; exact hfac.symm
      subst hfac'
      obtain ⟨f1, f2, f3, f4, f5⟩ := fresh_iter inp.sh inp.w false (inp.form.numOut == 1)
        (step (callFac inp.sh inp.w (.wrapPlugin inp.form.numOut)))
        (fun st => step_wrapPlugin inp.sh inp.w inp.form.numOut hn st hc) hc hs hfa.symm inp.k (created inp st).1
      have hcalls : callsOf inp obs = (facCalls inp st (.wrapPlugin inp.form.numOut)).2 := by
        cases hform' : inp.form with
        | component => exact absurd hform' hf
        | facNoErr => simp [callsOf, hsteps, hform']
        | facErr => simp [callsOf, hsteps, hform']
      have hhead : (obs.steps.head?.map (·.evs)) = some [] := by
        rw [hsteps]; simp [q3]
      simp only [freshOk, hcalls, hhead, beq_self_eq_true, Bool.or_true, Bool.true_and, Bool.and_eq_true,
        List.all_eq_true, beq_iff_eq]
      have hv : obs.views = viewsOf (facCalls inp st (.wrapPlugin inp.form.numOut)).1.heap
          (facCalls inp st (.wrapPlugin inp.form.numOut)).2 := by
        rw [hviews, hsteps, viewsOf_made]
      refine ⟨⟨⟨⟨⟨f1, nodup_of _ f2⟩, nodup_of _ f3⟩, nodup_of _ f4⟩, ?_⟩, ?_⟩
      · intro v hvv; rw [hv] at hvv; exact f5 v hvv
      · rw [hv]; exact viewsOf_length _ _

/-- `onceOk` of a phase started in any state -/
theorem once_phase (inp : Input) (st : St) (ha : onceApplies inp = true) :
    onceOk inp (phaseObs inp st) = true := by
  have hcase := phase_cases inp st
  generalize phaseObs inp st = obs at hcase ⊢
  simp only [onceApplies, Bool.and_eq_true, bne_iff_ne, ne_eq] at ha
  obtain ⟨hfa, hform⟩ := ha
  rcases hcase with ⟨hf, _⟩ | ⟨_, hn, _, hcr⟩
  · exact absurd hf hform
  · obtain ⟨o1, o2⟩ := once_factory inp.sh inp.w inp.form.numOut inp.k hn (st0 st) rfl hfa
    rcases hcr with ⟨e, _, hsteps⟩ | ⟨fac, hfac, hsteps, _⟩
    · simp only [onceOk, hsteps, o1, List.all_nil, Bool.and_self]
    · simp only [onceOk, hsteps, o1, Bool.true_and, List.all_eq_true]
      exact o2 fac hfac

theorem fresh_run {inp : Input} {obs : Obs} (h : run inp = some obs) (ha : freshApplies inp = true) :
    freshOk inp obs = true := by
  rw [(run_eq_phase h).2]; exact fresh_phase inp _ ha

theorem once_run {inp : Input} {obs : Obs} (h : run inp = some obs) (ha : onceApplies inp = true) :
    onceOk inp obs = true := by
  rw [(run_eq_phase h).2]; exact once_phase inp _ ha

end Pandora.Proofs.C18
