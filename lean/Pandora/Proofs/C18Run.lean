/-
C18 — from the per-operation lemmas of Proofs/C18 to statements about a whole run (`Model.C18.run`):
case analysis of a run, then the assembled Spec predicates `freshOk` and `onceOk`.
-/
import Pandora.Proofs.C18

namespace Pandora.Proofs.C18
open Pandora.Model.C18 Pandora.Spec.C18

/-- creation step + state of `NewFactory` for the requested form -/
abbrev created (inp : Input) : St × Except Err Fac :=
  regNewFactory inp.sh inp.w inp.form.numOut (initSt inp.sh inp.w)

/-- the k calls of `New` -/
abbrev newCalls (inp : Input) : St × List Step :=
  iter (step (regNew inp.sh inp.w)) inp.k (initSt inp.sh inp.w)

/-- the k calls of the factory `fac` handed out by `NewFactory` -/
abbrev facCalls (inp : Input) (fac : Fac) : St × List Step :=
  iter (step (callFac inp.sh inp.w fac)) inp.k (created inp).1

/-- every run is: registration accepted, and either k calls of `New`, or a failed `NewFactory`, or a successful
`NewFactory` followed by k calls of its result -/
theorem run_cases {inp : Input} {obs : Obs} (h : run inp = some obs) :
    registerOk inp.sh = true ∧
    ((inp.form = .component ∧ obs.steps = (newCalls inp).2 ∧ obs.views = viewsOf (newCalls inp).1.heap (newCalls inp).2) ∨
     (inp.form ≠ .component ∧ (inp.form.numOut = 1 ∨ inp.form.numOut = 2) ∧
        (inp.form == .facNoErr) = (inp.form.numOut == 1) ∧
        ((∃ e, (created inp).2 = .error e ∧ obs.steps = [⟨(created inp).1.log.reverse, .err e⟩]) ∨
         (∃ fac, (created inp).2 = .ok fac ∧
            obs.steps = ⟨(created inp).1.log.reverse, .made⟩ :: (facCalls inp fac).2 ∧
            obs.views = viewsOf (facCalls inp fac).1.heap obs.steps)))) := by
  obtain ⟨sh, form, w, k⟩ := inp
  unfold run runSt at h
  by_cases hr : registerOk sh = true
  · refine ⟨hr, ?_⟩
    simp only [hr, Bool.not_true, Bool.false_eq_true, if_false] at h
    cases form with
    | component =>
      simp only [Option.map_some, Option.some.injEq] at h
      subst h
      exact .inl ⟨rfl, rfl, rfl⟩
    | facNoErr =>
      refine .inr ⟨by simp, .inl rfl, rfl, ?_⟩
      simp only at h
      cases hc : (regNewFactory sh w Form.facNoErr.numOut (initSt sh w)).2 with
      | error e =>
        simp only [hc, Option.map_some, Option.some.injEq] at h
        subst h
        exact .inl ⟨e, rfl, rfl⟩
      | ok fac =>
        simp only [hc, Option.map_some, Option.some.injEq] at h
        subst h
        exact .inr ⟨fac, rfl, rfl, rfl⟩
    | facErr =>
      refine .inr ⟨by simp, .inr rfl, rfl, ?_⟩
      simp only at h
      cases hc : (regNewFactory sh w Form.facErr.numOut (initSt sh w)).2 with
      | error e =>
        simp only [hc, Option.map_some, Option.some.injEq] at h
        subst h
        exact .inl ⟨e, rfl, rfl⟩
      | ok fac =>
        simp only [hc, Option.map_some, Option.some.injEq] at h
        subst h
        exact .inr ⟨fac, rfl, rfl, rfl⟩
  · simp [hr] at h

theorem viewsOf_made (heap : Nat → Cfg) (evs : List Ev) (l : List Step) :
    viewsOf heap (⟨evs, .made⟩ :: l) = viewsOf heap l := by
  simp [viewsOf]

theorem nodup_of (l : List Nat) (h : l.Nodup) : nodup l = true := by simp [nodup, h]

/-- `freshOk` of a run -/
theorem fresh_run {inp : Input} {obs : Obs} (h : run inp = some obs) (ha : freshApplies inp = true) :
    freshOk inp obs = true := by
  obtain ⟨_, hcase⟩ := run_cases h
  simp only [freshApplies, Bool.and_eq_true, bne_iff_ne, ne_eq, Bool.or_eq_true, beq_iff_eq,
    Bool.not_eq_true'] at ha
  obtain ⟨⟨hc, hs⟩, hform⟩ := ha
  rcases hcase with ⟨hf, hsteps, hviews⟩ | ⟨hf, hn, _, hcr⟩
  · -- k calls of `New`
    obtain ⟨f1, f2, f3, f4, f5⟩ := fresh_iter inp.sh inp.w inp.sh.factory false (step (regNew inp.sh inp.w))
      (fun st => step_regNew inp.sh inp.w st) hc hs rfl inp.k (initSt inp.sh inp.w)
    have hcalls : callsOf inp obs = (newCalls inp).2 := by simp [callsOf, hf, hsteps]
    simp only [freshOk, hcalls, hf, beq_self_eq_true, Bool.true_or, Bool.true_and, Bool.and_eq_true,
      List.all_eq_true, beq_iff_eq]
    refine ⟨⟨⟨⟨⟨f1, nodup_of _ f2⟩, nodup_of _ f3⟩, nodup_of _ f4⟩, ?_⟩, ?_⟩
    · intro v hv; rw [hviews] at hv; exact f5 v hv
    · rw [hviews]; exact viewsOf_length _ _
  · -- a factory made from a component constructor
    have hfa : inp.sh.factory = false := by
      rcases hform with hform | hform
      · exact absurd hform hf
      · exact hform
    obtain ⟨q1, q2, q3, q4⟩ := quad_proj (create_eq inp.sh inp.w inp.form.numOut (initSt inp.sh inp.w) (initSt_log _ _))
    have hcs : createSpec inp.sh inp.w inp.form.numOut (initSt inp.sh inp.w) =
        ((initSt inp.sh inp.w).heap, (initSt inp.sh inp.w).next, [], .ok (.wrapPlugin inp.form.numOut)) := by
      simp [createSpec, hfa, hc]
    rw [hcs] at q3 q4
    rcases hcr with ⟨e, he, _⟩ | ⟨fac, hfac, hsteps, hviews⟩
    · rw [q4] at he; simp at he
    · have hfac' : fac = .wrapPlugin inp.form.numOut := by
        rw [q4] at hfac; simp at hfac; exact hfac.symm
      subst hfac'
      obtain ⟨f1, f2, f3, f4, f5⟩ := fresh_iter inp.sh inp.w false (inp.form.numOut == 1)
        (step (callFac inp.sh inp.w (.wrapPlugin inp.form.numOut)))
        (fun st => step_wrapPlugin inp.sh inp.w inp.form.numOut hn st hc) hc hs hfa.symm inp.k (created inp).1
      have hcalls : callsOf inp obs = (facCalls inp (.wrapPlugin inp.form.numOut)).2 := by
        cases hform' : inp.form with
        | component => exact absurd hform' hf
        | facNoErr => simp [callsOf, hsteps, hform']
        | facErr => simp [callsOf, hsteps, hform']
      have hhead : (obs.steps.head?.map (·.evs)) = some [] := by
        rw [hsteps]; simp [q3]
      simp only [freshOk, hcalls, hhead, beq_self_eq_true, Bool.or_true, Bool.true_and, Bool.and_eq_true,
        List.all_eq_true, beq_iff_eq]
      have hv : obs.views = viewsOf (facCalls inp (.wrapPlugin inp.form.numOut)).1.heap
          (facCalls inp (.wrapPlugin inp.form.numOut)).2 := by
        rw [hviews, hsteps, viewsOf_made]
      refine ⟨⟨⟨⟨⟨f1, nodup_of _ f2⟩, nodup_of _ f3⟩, nodup_of _ f4⟩, ?_⟩, ?_⟩
      · intro v hvv; rw [hv] at hvv; exact f5 v hvv
      · rw [hv]; exact viewsOf_length _ _

/-- `onceOk` of a run -/
theorem once_run {inp : Input} {obs : Obs} (h : run inp = some obs) (ha : onceApplies inp = true) :
    onceOk inp obs = true := by
  obtain ⟨_, hcase⟩ := run_cases h
  simp only [onceApplies, Bool.and_eq_true, bne_iff_ne, ne_eq] at ha
  obtain ⟨hfa, hform⟩ := ha
  rcases hcase with ⟨hf, _⟩ | ⟨_, hn, _, hcr⟩
  · exact absurd hf hform
  · obtain ⟨o1, o2⟩ := once_factory inp.sh inp.w inp.form.numOut inp.k hn (initSt inp.sh inp.w) (initSt_log _ _) hfa
    rcases hcr with ⟨e, _, hsteps⟩ | ⟨fac, hfac, hsteps, _⟩
    · simp only [onceOk, hsteps, o1, List.all_nil, Bool.and_self]
    · simp only [onceOk, hsteps, o1, Bool.true_and, List.all_eq_true]
      exact o2 fac hfac

end Pandora.Proofs.C18
