/-
C18 — validation of the decoded configuration: what a world in which EVERY fillConf fails (the configuration is
invalid) resp. NO fillConf fails (it is valid) does to a phase started in any state.
-/
import Pandora.Proofs.C18Ext
import Pandora.Spec.C18Valid

namespace Pandora.Proofs.C18
open Pandora.Model.C18 Pandora.Spec.C18

theorem resFill_conv_fill (pan : Bool) (i : Nat) : resFill ⟨evs, conv pan (.fill i)⟩ = true := by
  cases pan <;> simp [conv, resFill]

theorem resFill_conv_ctor (pan : Bool) (i : Nat) : resFill ⟨evs, conv pan (.ctor i)⟩ = false := by
  cases pan <;> simp [conv, resFill]

theorem resFill_conv_fact (pan : Bool) (i : Nat) : resFill ⟨evs, conv pan (.fact i)⟩ = false := by
  cases pan <;> simp [conv, resFill]

/-- every fillConf fails: a call that gets a configuration ends with fillConf's error -/
theorem callSpec_allfail (sh : Shape) (w : World) (vf pan : Bool) (st : St)
    (hf : w.hasFill = true) (ha : ∀ i, w.fillFault i = true) :
    resFill (callSpec sh w true vf pan st).2.2 = true := by
  simp only [callSpec, fillFails, hf, ha, Bool.and_self, if_true]
  exact resFill_conv_fill pan _

/-- no fillConf fails: no call ends with fillConf's error -/
theorem callSpec_nofail (sh : Shape) (w : World) (doGet vf pan : Bool) (st : St)
    (hn : ∀ i, w.fillFault i = false) :
    resFill (callSpec sh w doGet vf pan st).2.2 = false := by
  simp only [callSpec, fillFails, hn, Bool.and_false, Bool.false_eq_true, if_false]
  by_cases hcf : ctorFails sh w st.ctors = true
  · simp only [hcf, if_true]; exact resFill_conv_ctor pan _
  · simp only [hcf, Bool.false_eq_true, if_false]
    by_cases hv : vf = true
    · simp only [hv, Bool.not_true, Bool.false_eq_true, if_false]
      by_cases hff : factFails sh w st.facts = true
      · simp only [hff, if_true]; exact resFill_conv_fact pan _
      · simp only [hff, Bool.false_eq_true, if_false]; rfl
    · simp only [hv, Bool.not_false, if_true]; rfl

theorem facSpec_nofill (sh : Shape) (w : World) (rf : RegFac) (pan : Bool) (st : St) :
    resFill (facSpec sh w rf pan st).2.2 = false := by
  unfold facSpec
  by_cases hff : factFails sh w st.facts = true
  · simp only [hff, if_true]; exact resFill_conv_fact pan _
  · simp only [hff, Bool.false_eq_true, if_false]; rfl

/-- every fillConf fails: a factory constructor's `NewFactory` ends with fillConf's error -/
theorem createSpec_allfail (sh : Shape) (w : World) (n : Nat) (st : St)
    (hf : w.hasFill = true) (ha : ∀ i, w.fillFault i = true) (hfa : sh.factory = true) :
    (createSpec sh w n st).2.2.2 = .error (.fill st.fills) := by
  simp [createSpec, hfa, fillFails, hf, ha]

/-- no fillConf fails: `NewFactory` does not end with fillConf's error -/
theorem createSpec_nofail (sh : Shape) (w : World) (n : Nat) (st : St) (hn : ∀ i, w.fillFault i = false) (e : Err)
    (he : (createSpec sh w n st).2.2.2 = .error e) : ∀ i, e ≠ .fill i := by
  intro i
  unfold createSpec at he
  simp only [fillFails, hn, Bool.and_false, Bool.false_eq_true, if_false] at he
  by_cases hfa : sh.factory = true
  · simp only [hfa, Bool.not_true, Bool.false_eq_true, if_false] at he
    by_cases hcf : ctorFails sh w st.ctors = true
    · simp only [hcf, if_true, Except.error.injEq] at he
      subst he; simp
    · simp [hcf] at he
  · simp only [hfa, Bool.not_false, if_true] at he
    by_cases hc : sh.cfg = .none <;> simp [hc] at he

/-- **the configuration is invalid** (every fillConf invocation fails, the constructor takes a config): every
operation of the phase is the creation of a factory from a component constructor (which needs no configuration) or
ends with fillConf's error -/
theorem allfail_phase (inp : Input) (st : St) (hf : inp.w.hasFill = true) (ha : ∀ i, inp.w.fillFault i = true)
    (hc : inp.sh.cfg ≠ .none) :
    ∀ s ∈ (phaseObs inp st).steps, isMade s = true ∨ resFill s = true := by
  have hcase := phase_cases inp st
  generalize phaseObs inp st = obs at hcase ⊢
  intro s hs
  rcases hcase with ⟨_, hsteps, _⟩ | ⟨_, hn, _, hcr⟩
  · rw [hsteps] at hs
    have := iter_inv (step (regNew inp.sh inp.w)) (fun _ => True) (fun s => resFill s = true)
      (fun st _ => ⟨trivial, by
        rw [(tri_step (step_regNew inp.sh inp.w st)).2.2]
        exact callSpec_allfail inp.sh inp.w inp.sh.factory false st hf ha⟩) inp.k (st0 st) trivial
    exact .inr (this.2 s hs)
  · obtain ⟨_, _, q3, q4⟩ := quad_proj (create_eq inp.sh inp.w inp.form.numOut (st0 st) rfl)
    by_cases hfa : inp.sh.factory = true
    · -- a factory constructor: the creation itself fails
      have hce := createSpec_allfail inp.sh inp.w inp.form.numOut (st0 st) hf ha hfa
      rw [hce] at q4
      rcases hcr with ⟨e, he, hsteps⟩ | ⟨fac, hfac, _, _⟩
      · rw [hsteps] at hs
        simp only [List.mem_singleton] at hs
        subst hs
        rw [q4] at he
        simp only [Except.error.injEq] at he
        subst he
        exact .inr (by simp [resFill])
      · rw [q4] at hfac; simp at hfac
    · -- a component constructor: every call gets its own configuration
      simp only [Bool.not_eq_true] at hfa
      have hcs : createSpec inp.sh inp.w inp.form.numOut (st0 st) =
          ((st0 st).heap, (st0 st).next, [], .ok (.wrapPlugin inp.form.numOut)) := by
        simp [createSpec, hfa, hc]
      rw [hcs] at q4
      rcases hcr with ⟨e, he, _⟩ | ⟨fac, hfac, hsteps, _⟩
      · rw [q4] at he; simp at he
      · have hfac' : fac = .wrapPlugin inp.form.numOut := by
          rw [q4] at hfac; simp at hfac; exact hfac.symm
        subst hfac'
        rw [hsteps] at hs
        simp only [List.mem_cons] at hs
        rcases hs with rfl | hs
        · exact .inl (by simp [isMade])
        · have := iter_inv (step (callFac inp.sh inp.w (.wrapPlugin inp.form.numOut))) (fun _ => True)
            (fun s => resFill s = true)
            (fun st _ => ⟨trivial, by
              rw [(tri_step (step_wrapPlugin inp.sh inp.w inp.form.numOut hn st hc)).2.2]
              exact callSpec_allfail inp.sh inp.w false _ st hf ha⟩) inp.k (created inp st).1 trivial
          exact .inr (this.2 s hs)

/-- **the configuration is valid** (no fillConf invocation fails): no operation of the phase ends with fillConf's error -/
theorem nofail_phase (inp : Input) (st : St) (hn' : ∀ i, inp.w.fillFault i = false) :
    ∀ s ∈ (phaseObs inp st).steps, resFill s = false := by
  have hcase := phase_cases inp st
  generalize phaseObs inp st = obs at hcase ⊢
  intro s hs
  rcases hcase with ⟨_, hsteps, _⟩ | ⟨_, hn, _, hcr⟩
  · rw [hsteps] at hs
    have := iter_inv (step (regNew inp.sh inp.w)) (fun _ => True) (fun s => resFill s = false)
      (fun st _ => ⟨trivial, by
        rw [(tri_step (step_regNew inp.sh inp.w st)).2.2]
        exact callSpec_nofail inp.sh inp.w true inp.sh.factory false st hn'⟩) inp.k (st0 st) trivial
    exact this.2 s hs
  · obtain ⟨_, _, q3, q4⟩ := quad_proj (create_eq inp.sh inp.w inp.form.numOut (st0 st) rfl)
    rcases hcr with ⟨e, he, hsteps⟩ | ⟨fac, hfac, hsteps, _⟩
    · rw [hsteps] at hs
      simp only [List.mem_singleton] at hs
      subst hs
      rw [q4] at he
      have := createSpec_nofail inp.sh inp.w inp.form.numOut (st0 st) hn' e he
      cases e with
      | fill i => exact absurd rfl (this i)
      | ctor i => rfl
      | fact i => rfl
    · rw [hsteps] at hs
      simp only [List.mem_cons] at hs
      rcases hs with rfl | hs
      · rfl
      · rw [q4] at hfac
        have hok := createSpec_facOk inp.sh inp.w inp.form.numOut (st0 st) fac hfac
        have := iter_inv (step (callFac inp.sh inp.w fac)) (fun _ => True) (fun s => resFill s = false)
          (fun st _ => ⟨trivial, by
            rcases callFac_cases inp.sh inp.w inp.form.numOut hn fac hok st with ⟨_, doGet, _, h⟩ | ⟨_, rf, _, h⟩
            · rw [(tri_step h).2.2]; exact callSpec_nofail inp.sh inp.w doGet false _ st hn'
            · rw [(tri_step h).2.2]; exact facSpec_nofill inp.sh inp.w rf _ st⟩) inp.k (created inp st).1 trivial
        exact this.2 s hs

/-- the rule looks at what the products are built from, and that does not depend on the fault plan -/
theorem ruleHolds_validating (r : Rule) (inp : Input) : ruleHolds r (validating r inp) = ruleHolds r inp := by
  simp [ruleHolds, validating, withFill, expected, defaults]

/-- a step that is `made` or ends with an error yields no product -/
theorem products_nil {steps : List Step} (h : ∀ s ∈ steps, isMade s = true ∨ resFill s = true) : products steps = [] := by
  simp only [products, List.filterMap_eq_nil_iff]
  intro s hs
  rcases h s hs with h | h
  · simp only [isMade, beq_iff_eq] at h; simp [product?, h]
  · unfold resFill at h
    unfold product?
    split <;> simp_all

end Pandora.Proofs.C18
