/-
C16 helper lemmas for `Model/C16Src.lean`: the extension switch of `ReadAmmoConfig` and the `locals` blocks that
`PartialContent` takes out of the body.
-/
import Pandora.Model.C16Src

namespace Pandora.Proofs.C16
open Pandora.Model.C16

/-- a `HasSuffix` case whose literal is suffix-incomparable with `ext` matches no name that ends with `ext` -/
theorem caseMatches_incomparable (c : ExtCase) (ext name : List Char) (hk : c.1 = "HasSuffix")
    (hi : suffixIncomparable c.2.1.toList ext = true) (hs : ext <:+ name) : caseMatches name c = false := by
  unfold caseMatches
  simp only [hk, beq_self_eq_true, if_true]
  cases hm : c.2.1.toList.isSuffixOf name with
  | false => rfl
  | true =>
    have h1 : c.2.1.toList <:+ name := List.isSuffixOf_iff_suffix.mp hm
    unfold suffixIncomparable at hi
    rcases List.suffix_or_suffix_of_suffix h1 hs with h | h
    · have := List.isSuffixOf_iff_suffix.mpr h
      simp [this] at hi
    · have := List.isSuffixOf_iff_suffix.mpr h
      simp [this] at hi

/-- the switch on a table with `extSelects`: every name ending with `ext` runs `parser` -/
theorem frontEndOf_of_extSelects (cases : List ExtCase) (ext parser : String)
    (h : extSelects cases ext parser = true) (name : List Char) (hs : ext.toList <:+ name) :
    frontEndOf cases name = routeOf parser := by
  induction cases with
  | nil => simp [extSelects] at h
  | cons c rest ih =>
    unfold extSelects at h
    by_cases hc : (c.1 == "HasSuffix" && c.2.1 == ext) = true
    · rw [if_pos hc] at h
      simp only [Bool.and_eq_true, beq_iff_eq] at hc
      have hm : caseMatches name c = true := by
        unfold caseMatches
        simp only [hc.1, beq_self_eq_true, if_true, hc.2]
        exact List.isSuffixOf_iff_suffix.mpr hs
      unfold frontEndOf
      rw [List.find?_cons, hm]
      simp only [beq_iff_eq] at h
      simp [h]
    · rw [if_neg hc] at h
      simp only [Bool.and_eq_true, beq_iff_eq] at h
      obtain ⟨⟨hk, hi⟩, hr⟩ := h
      have hm : caseMatches name c = false := caseMatches_incomparable c ext.toList name hk hi hs
      have := ih hr
      unfold frontEndOf at this ⊢
      rw [List.find?_cons, hm]
      exact this

/-- `strings.ToLower` (or whatever is done to the name, character by character) distributes over the base name and
the extension -/
theorem suffix_of_mapped (lc : Char → Char) (s e ext : List Char) (he : e.map lc = ext) :
    ext <:+ (s ++ e).map lc := by
  rw [List.map_append, he]
  exact List.suffix_append _ _

/-! ### `splitLocals` -/

theorem filter_plain_of_all (bs : List LBlock) (h : bs.all LBlock.plain = true) : bs.filter LBlock.plain = bs := by
  induction bs with
  | nil => rfl
  | cons b rest ih =>
    simp only [List.all_cons, Bool.and_eq_true] at h
    simp [h.1, ih h.2]

/-- under the strict reading an accepted file has only plain `locals` blocks, and all of them are evaluated -/
theorem splitLocals_strict (s : HclSrc) (f : HclFile) (h : splitLocals true s = some f) :
    s.blocks.all LBlock.plain = true ∧ f = s.allLocals := by
  unfold splitLocals at h
  by_cases hp : s.blocks.all LBlock.plain = true
  · simp only [hp, Bool.not_true, Bool.and_false] at h
    simp only [Bool.false_eq_true, if_false, Option.some.injEq] at h
    refine ⟨hp, ?_⟩
    rw [← h, filter_plain_of_all _ hp]
    rfl
  · simp only [Bool.not_eq_true] at hp
    simp [hp] at h

/-- a file without labelled blocks is split the same way under both readings -/
theorem splitLocals_plain (strict : Bool) (s : HclSrc) (hp : s.blocks.all LBlock.plain = true) :
    splitLocals strict s = some s.allLocals := by
  unfold splitLocals
  simp only [hp, Bool.not_true, Bool.and_false, Bool.false_eq_true, if_false]
  rw [filter_plain_of_all _ hp]
  rfl

end Pandora.Proofs.C16
