/-
C03 — invariants of the instance-loop transition system, for ANY number of instances and ANY trace.
-/
import Pandora.Model.C03

namespace Pandora.Proofs.C03
open Pandora.Model.C03

theorem count_set_of {α : Type} [DecidableEq α] (l : List α) (i : Nat) (old new x : α) (h : l[i]? = some old) :
    (l.set i new).count x + (if old = x then 1 else 0) = l.count x + (if new = x then 1 else 0) := by
  have hi : i < l.length := by
    rcases Nat.lt_or_ge i l.length with h' | h'
    · exact h'
    · rw [List.getElem?_eq_none h'] at h; cases h
  have hget : l[i] = old := by rw [List.getElem?_eq_getElem hi] at h; exact Option.some.inj h
  rw [List.count_set hi, hget]
  by_cases ho : old = x
  · subst ho
    have hpos : 0 < l.count old := List.count_pos_iff.mpr (hget ▸ List.getElem_mem hi)
    simp only [beq_self_eq_true, if_true]
    by_cases hn : new = old <;> simp [hn] <;> omega
  · have : (old == x) = false := by simpa using ho
    simp only [this, Bool.false_eq_true, if_false, ho]
    by_cases hn : new = x <;> simp [hn]

theorem lt_of_get {l : List α} {i : Nat} {a : α} (h : l[i]? = some a) : i < l.length := by
  rcases Nat.lt_or_ge i l.length with h' | h'
  · exact h'
  · rw [List.getElem?_eq_none h'] at h; cases h

/-! ### counting invariant (both modes) -/

/-- the five counts that change when instance `i` moves from `old` to `new` -/
theorem counts_move (l : List Pc) (i : Nat) (old new : Pc) (h : l[i]? = some old) :
    ((l.set i new).count .wait + (if old = .wait then 1 else 0) = l.count .wait + (if new = .wait then 1 else 0)) ∧
    ((l.set i new).count .decide + (if old = .decide then 1 else 0) = l.count .decide + (if new = .decide then 1 else 0)) ∧
    ((l.set i new).count .firing + (if old = .firing then 1 else 0) = l.count .firing + (if new = .firing then 1 else 0)) ∧
    ((l.set i new).count .shot + (if old = .shot then 1 else 0) = l.count .shot + (if new = .shot then 1 else 0)) ∧
    ((l.set i new).count .release + (if old = .release then 1 else 0) = l.count .release + (if new = .release then 1 else 0)) :=
  ⟨count_set_of l i old new .wait h, count_set_of l i old new .decide h, count_set_of l i old new .firing h,
   count_set_of l i old new .shot h, count_set_of l i old new .release h⟩

structure InvA (c : Cfg) (s : St) : Prop where
  len : s.pcs.length = c.instances
  startedLe : s.started ≤ c.instances
  idleHi : ∀ i : Nat, s.started ≤ i → i < c.instances → s.pcs[i]? = some Pc.idle
  idleLo : ∀ i : Nat, i < s.started → s.pcs[i]? ≠ some Pc.idle
  held : s.acquired = s.released + s.pcs.count .wait + s.pcs.count .decide + s.pcs.count .firing
            + s.pcs.count .shot + s.pcs.count .release
  classified : s.acquired = s.fired + s.discarded + s.unfired + s.pcs.count .wait + s.pcs.count .decide
            + s.pcs.count .firing
  ammo : match c.ammo with
    | none => s.ammoLeft = none
    | some a0 => ∃ a, s.ammoLeft = some a ∧ s.acquired + a = a0
  metrics : s.request = s.fired + s.pcs.count .firing ∧ s.response + s.pcs.count .shot = s.fired
  discOff : c.discardOn = false → s.discarded = 0

theorem init_invA (c : Cfg) : InvA c (init c) := by
  refine ⟨by simp [init], by simp [init], ?_, ?_, ?_, ?_, ?_, ?_, fun _ => rfl⟩
  · intro i _ hi; simp [init, List.getElem?_replicate, hi]
  · intro i hi; simp [init] at hi
  · simp [init, List.count_replicate]
  · simp [init, List.count_replicate]
  · cases h : c.ammo <;> simp [init, h]
  · simp [init, List.count_replicate]

/-- a move of a STARTED instance `i` from `old` to `new ≠ idle` keeps the idle bookkeeping -/
theorem idle_move {c : Cfg} {s : St} (hlen : s.pcs.length = c.instances)
    (hHi : ∀ i : Nat, s.started ≤ i → i < c.instances → s.pcs[i]? = some Pc.idle)
    (hLo : ∀ i : Nat, i < s.started → s.pcs[i]? ≠ some Pc.idle)
    {i : Nat} {old new : Pc} (h : s.pcs[i]? = some old) (hold : old ≠ .idle) (hnew : new ≠ .idle) :
    (∀ k : Nat, s.started ≤ k → k < c.instances → (s.pcs.set i new)[k]? = some Pc.idle) ∧
    (∀ k : Nat, k < s.started → (s.pcs.set i new)[k]? ≠ some Pc.idle) := by
  have hi := lt_of_get h
  have hist : i < s.started := by
    rcases Nat.lt_or_ge i s.started with h1 | h1
    · exact h1
    · have := hHi i h1 (by omega); rw [h] at this; exact absurd (Option.some.inj this) hold
  constructor
  · intro k hk1 hk2
    rw [List.getElem?_set]
    have : i ≠ k := by omega
    simp [this]; exact hHi k hk1 hk2
  · intro k hk
    rw [List.getElem?_set]
    by_cases hik : i = k
    · simp [hik]; intro _; exact fun h' => hnew h'
    · simp [hik]; exact hLo k hk

theorem step_invA {c : Cfg} {s s' : St} {e : Ev} (hi : InvA c s) (hs : step c s e = some s') : InvA c s' := by
  obtain ⟨hlen, hsl, hHi, hLo, hheld, hcls, hammo, hmet, hdis⟩ := hi
  cases e with
  | start i =>
    simp only [step] at hs
    split at hs
    · rename_i h
      cases hs
      obtain ⟨hist, h⟩ := h
      obtain ⟨cw, cd, cf, cs, cr⟩ := counts_move s.pcs i .idle .check h
      simp at cw cd cf cs cr
      have hi := lt_of_get h
      refine ⟨by simpa using hlen, by simp; omega, ?_, ?_, by simp; omega, by simp; omega, hammo, by simp; omega, hdis⟩
      · intro k hk1 hk2
        simp only at hk1 ⊢
        rw [List.getElem?_set]
        have : i ≠ k := by omega
        simp [this]; exact hHi k (by omega) hk2
      · intro k hk
        simp only at hk ⊢
        rw [List.getElem?_set]
        by_cases hik : i = k
        · subst hik; simp [hi]
        · simp [hik]; exact hLo k (by omega)
    · cases hs
  | chk i left =>
    simp only [step] at hs
    split at hs
    · rename_i h
      cases hs
      obtain ⟨cw, cd, cf, cs, cr⟩ := counts_move s.pcs i .check (if left = 0 then .done else .acquire) h.1
      obtain ⟨iH, iL⟩ := idle_move (new := if left = 0 then .done else .acquire) hlen hHi hLo h.1 (by decide)
        (by by_cases hl : left = 0 <;> simp [hl])
      refine ⟨by simpa using hlen, hsl, iH, iL, ?_, ?_, hammo, ?_, hdis⟩ <;>
        (by_cases hl : left = 0 <;> simp [hl] at cw cd cf cs cr ⊢ <;> omega)
    · cases hs
  | acq i =>
    simp only [step] at hs
    split at hs
    · rename_i h
      obtain ⟨cw, cd, cf, cs, cr⟩ := counts_move s.pcs i .acquire .wait h
      simp at cw cd cf cs cr
      obtain ⟨iH, iL⟩ := idle_move (new := .wait) hlen hHi hLo h (by decide) (by decide)
      split at hs
      · rename_i ha
        cases hs
        refine ⟨by simpa using hlen, hsl, iH, iL, by simp; omega, by simp; omega, ?_, by simp; omega, hdis⟩
        cases hc : c.ammo with
        | none => simpa [hc] using ha
        | some a0 => rw [hc] at hammo; obtain ⟨a, h1, _⟩ := hammo; rw [ha] at h1; cases h1
      · cases hs
      · rename_i a ha
        cases hs
        refine ⟨by simpa using hlen, hsl, iH, iL, by simp; omega, by simp; omega, ?_, by simp; omega, hdis⟩
        cases hc : c.ammo with
        | none => rw [hc] at hammo; rw [ha] at hammo; cases hammo
        | some a0 =>
          rw [hc] at hammo; obtain ⟨a', h1, h2⟩ := hammo
          rw [ha] at h1; cases h1
          exact ⟨a, rfl, by simp; omega⟩
    · cases hs
  | empty i =>
    simp only [step] at hs
    split at hs
    · rename_i h
      cases hs
      obtain ⟨cw, cd, cf, cs, cr⟩ := counts_move s.pcs i .acquire .done h.1
      simp at cw cd cf cs cr
      obtain ⟨iH, iL⟩ := idle_move (new := .done) hlen hHi hLo h.1 (by decide) (by decide)
      exact ⟨by simpa using hlen, hsl, iH, iL, by simp; omega, by simp; omega, hammo, by simp; omega, hdis⟩
    · cases hs
  | tokOk i =>
    simp only [step] at hs
    split at hs
    · rename_i h
      cases hs
      obtain ⟨cw, cd, cf, cs, cr⟩ := counts_move s.pcs i .wait .decide h.1
      simp at cw cd cf cs cr
      obtain ⟨iH, iL⟩ := idle_move (new := .decide) hlen hHi hLo h.1 (by decide) (by decide)
      unfold St.draw
      split <;> exact ⟨by simpa using hlen, hsl, iH, iL, by simp; omega, by simp; omega, hammo, by simp; omega, hdis⟩
    · cases hs
  | tokEnd i =>
    simp only [step] at hs
    split at hs
    · rename_i h
      cases hs
      obtain ⟨cw, cd, cf, cs, cr⟩ := counts_move s.pcs i .wait .release h.1
      simp at cw cd cf cs cr
      obtain ⟨iH, iL⟩ := idle_move (new := .release) hlen hHi hLo h.1 (by decide) (by decide)
      exact ⟨by simpa using hlen, hsl, iH, iL, by simp; omega, by simp; omega, hammo, by simp; omega, hdis⟩
    · cases hs
  | reqAdd i =>
    simp only [step] at hs
    split at hs
    · rename_i h
      cases hs
      obtain ⟨cw, cd, cf, cs, cr⟩ := counts_move s.pcs i .decide .firing h
      simp at cw cd cf cs cr
      obtain ⟨iH, iL⟩ := idle_move (new := .firing) hlen hHi hLo h (by decide) (by decide)
      exact ⟨by simpa using hlen, hsl, iH, iL, by simp; omega, by simp; omega, hammo, by simp; omega, hdis⟩
    · cases hs
  | shoot i k =>
    simp only [step] at hs
    split at hs
    · rename_i h
      cases hs
      obtain ⟨cw, cd, cf, cs, cr⟩ := counts_move s.pcs i .firing .shot h.1
      simp at cw cd cf cs cr
      obtain ⟨iH, iL⟩ := idle_move (new := .shot) hlen hHi hLo h.1 (by decide) (by decide)
      exact ⟨by simpa using hlen, hsl, iH, iL, by simp; omega, by simp; omega, hammo, by simp; omega, hdis⟩
    · cases hs
  | respAdd i =>
    simp only [step] at hs
    split at hs
    · rename_i h
      cases hs
      obtain ⟨cw, cd, cf, cs, cr⟩ := counts_move s.pcs i .shot .release h
      simp at cw cd cf cs cr
      obtain ⟨iH, iL⟩ := idle_move (new := .release) hlen hHi hLo h (by decide) (by decide)
      exact ⟨by simpa using hlen, hsl, iH, iL, by simp; omega, by simp; omega, hammo, by simp; omega, hdis⟩
    · cases hs
  | discard i =>
    simp only [step] at hs
    split at hs
    · rename_i h
      cases hs
      obtain ⟨cw, cd, cf, cs, cr⟩ := counts_move s.pcs i .decide .release h.1
      simp at cw cd cf cs cr
      obtain ⟨iH, iL⟩ := idle_move (new := .release) hlen hHi hLo h.1 (by decide) (by decide)
      exact ⟨by simpa using hlen, hsl, iH, iL, by simp; omega, by simp; omega, hammo, by simp; omega,
        fun hoff => by simp [hoff] at h⟩
    · cases hs
  | rel i k =>
    simp only [step] at hs
    split at hs
    · rename_i h
      cases hs
      obtain ⟨cw, cd, cf, cs, cr⟩ := counts_move s.pcs i .release .check h.1
      simp at cw cd cf cs cr
      obtain ⟨iH, iL⟩ := idle_move (new := .check) hlen hHi hLo h.1 (by decide) (by decide)
      exact ⟨by simpa using hlen, hsl, iH, iL, by simp; omega, by simp; omega, hammo, by simp; omega, hdis⟩
    · cases hs

/-! ### shared profile -/

def Parked (p : Option Pc) : Prop := p = some Pc.release ∨ p = some Pc.check ∨ p = some Pc.done

/-- the instance has drawn a token in this or an earlier iteration and is not waiting for one -/
def Drawn (p : Option Pc) : Prop := p = some Pc.decide ∨ p = some Pc.firing ∨ p = some Pc.shot ∨ Parked p

structure InvS (c : Cfg) (s : St) : Prop where
  tok : c.tokens = s.shared + s.fired + s.discarded + s.pcs.count .decide + s.pcs.count .firing
  busy : ∀ i : Nat, (s.pcs[i]? = some Pc.acquire ∨ s.pcs[i]? = some Pc.wait) → 0 < c.tokens
  unfPos : 0 < s.unfired → s.shared = 0 ∧ 0 < c.tokens
  done : ∀ i : Nat, s.pcs[i]? = some Pc.done → s.shared = 0 ∨ s.ammoLeft = some 0
  unfLen : s.unf.length = c.instances
  pcsLen : s.pcs.length = c.instances
  unfCnt : s.unfired = s.unf.count true
  unfPc : ∀ i : Nat, s.unf[i]? = some true → s.shared = 0 ∧ Parked s.pcs[i]?
  last : s.shared = 0 → 0 < c.tokens →
    ∃ j : Nat, s.lastDrawer = some j ∧ s.unf[j]? = some false ∧ Drawn s.pcs[j]?

theorem getElem?_set_ne' {α : Type} (l : List α) {i j : Nat} (a : α) (h : i ≠ j) : (l.set i a)[j]? = l[j]? := by
  rw [List.getElem?_set]; simp [h]

theorem getElem?_set_self' {α : Type} (l : List α) {i : Nat} (a : α) (h : i < l.length) : (l.set i a)[i]? = some a := by
  rw [List.getElem?_set]; simp [h]

/-- how the pc of an arbitrary instance `k` looks after instance `i` moved from `old` to `new` -/
theorem pcs_after {l : List Pc} {i : Nat} {old new : Pc} (h : l[i]? = some old) (k : Nat) :
    (l.set i new)[k]? = if k = i then some new else l[k]? := by
  by_cases hk : k = i
  · subst hk; simp [getElem?_set_self' l new (lt_of_get h)]
  · simp [hk, getElem?_set_ne' l new (Ne.symm hk)]

theorem init_invS (c : Cfg) : InvS c (init c) := by
  refine ⟨by simp [init, List.count_replicate], ?_, by simp [init], ?_, by simp [init], by simp [init], by simp [init, List.count_replicate], ?_, ?_⟩
  · intro i h
    simp only [init] at h
    rcases h with h | h <;> (rw [List.getElem?_replicate] at h; split at h <;> cases h)
  · intro i h
    simp only [init] at h
    rw [List.getElem?_replicate] at h; split at h <;> cases h
  · intro i h
    simp only [init] at h
    rw [List.getElem?_replicate] at h; split at h <;> cases h
  · intro h0 hpos
    simp only [init] at h0
    omega

theorem parked_some (p : Pc) : Parked (some p) ↔ (p = .release ∨ p = .check ∨ p = .done) := by
  simp [Parked]

theorem drawn_some (p : Pc) : Drawn (some p) ↔ (p = .decide ∨ p = .firing ∨ p = .shot ∨ p = .release ∨ p = .check ∨ p = .done) := by
  simp [Drawn, Parked]

/-- a pcs-only move of instance `i` (old → new) that leaves tokens, flags and the last drawer alone -/
theorem invS_move {c : Cfg} {s : St} (hi : InvS c s) {i : Nat} {old new : Pc} (h : s.pcs[i]? = some old)
    (s' : St) (hpcs : s'.pcs = s.pcs.set i new) (hsh : s'.shared = s.shared) (hunf : s'.unf = s.unf)
    (hunfired : s'.unfired = s.unfired) (hlast : s'.lastDrawer = s.lastDrawer)
    (htok : c.tokens = s'.shared + s'.fired + s'.discarded + s'.pcs.count .decide + s'.pcs.count .firing)
    (hbusy : (new = .acquire ∨ new = .wait) → 0 < c.tokens)
    (hdoneNew : new = .done → s'.shared = 0 ∨ s'.ammoLeft = some 0)
    (hdoneOld : ∀ k : Nat, k ≠ i → s.pcs[k]? = some Pc.done → s'.shared = 0 ∨ s'.ammoLeft = some 0)
    (hflag : s.unf[i]? = some true → Parked (some new))
    (hlastpc : s.shared = 0 → Drawn (some old) → Drawn (some new)) :
    InvS c s' := by
  refine ⟨htok, ?_, ?_, ?_, ?_, by rw [hpcs, List.length_set]; exact hi.pcsLen, ?_, ?_, ?_⟩
  · intro k hk
    rw [hpcs, pcs_after h k] at hk
    by_cases hki : k = i
    · simp only [hki, if_true, Option.some.injEq] at hk; exact hbusy hk
    · simp only [hki, if_false] at hk; exact hi.busy k hk
  · rw [hunfired, hsh]; exact hi.unfPos
  · intro k hk
    rw [hpcs, pcs_after h k] at hk
    by_cases hki : k = i
    · simp only [hki, if_true, Option.some.injEq] at hk; exact hdoneNew hk
    · simp only [hki, if_false] at hk; exact hdoneOld k hki hk
  · rw [hunf]; exact hi.unfLen
  · rw [hunfired, hunf]; exact hi.unfCnt
  · intro k hk
    rw [hunf] at hk
    have := hi.unfPc k hk
    refine ⟨by rw [hsh]; exact this.1, ?_⟩
    rw [hpcs, pcs_after h k]
    by_cases hki : k = i
    · simp only [hki, if_true]; exact hflag (hki ▸ hk)
    · simp only [hki, if_false]; exact this.2
  · intro h0 hpos
    rw [hsh] at h0
    obtain ⟨j, hj1, hj2, hj3⟩ := hi.last h0 hpos
    refine ⟨j, by rw [hlast]; exact hj1, by rw [hunf]; exact hj2, ?_⟩
    rw [hpcs, pcs_after h j]
    by_cases hji : j = i
    · simp only [hji, if_true]
      rw [hji, h] at hj3
      exact hlastpc h0 hj3
    · simp only [hji, if_false]; exact hj3

theorem step_invS {c : Cfg} (hc : c.perInstance = false) {s s' : St} {e : Ev} (hi : InvS c s)
    (hs : step c s e = some s') : InvS c s' := by
  have hleft : ∀ i, s.left c i = s.shared := by intro i; simp [St.left, hc]
  cases e with
  | start i =>
    simp only [step] at hs
    split at hs
    · rename_i h
      cases hs
      obtain ⟨_, h⟩ := h
      obtain ⟨cw, cd, cf, cs, cr⟩ := counts_move s.pcs i .idle .check h
      simp at cd cf
      refine invS_move hi h _ rfl rfl rfl rfl rfl ?_ ?_ ?_ ?_ ?_ ?_
      · have := hi.tok; simp; omega
      · intro hn; rcases hn with hn | hn <;> cases hn
      · intro hn; cases hn
      · intro k _ hk; exact hi.done k hk
      · intro _; simp [parked_some]
      · intro _ ho; simp [drawn_some] at ho
    · cases hs
  | chk i left =>
    simp only [step, hleft] at hs
    split at hs
    · rename_i h
      cases hs
      obtain ⟨h, hl⟩ := h
      obtain ⟨cw, cd, cf, cs, cr⟩ := counts_move s.pcs i .check (if left = 0 then .done else .acquire) h
      refine invS_move hi h _ rfl rfl rfl rfl rfl ?_ ?_ ?_ ?_ ?_ ?_
      · have := hi.tok; by_cases hl0 : left = 0 <;> simp [hl0] at cd cf ⊢ <;> omega
      · intro hn
        have := hi.tok
        by_cases hl0 : left = 0
        · simp [hl0] at hn
        · omega
      · intro hn
        by_cases hl0 : left = 0
        · left; show s.shared = 0; omega
        · simp [hl0] at hn
      · intro k _ hk; exact hi.done k hk
      · intro hf
        have := (hi.unfPc i hf).1
        have hl0 : left = 0 := by omega
        simp [hl0, parked_some]
      · intro h0 _
        have hl0 : left = 0 := by omega
        simp [hl0, drawn_some]
    · cases hs
  | acq i =>
    simp only [step] at hs
    split at hs
    · rename_i h
      obtain ⟨cw, cd, cf, cs, cr⟩ := counts_move s.pcs i .acquire .wait h
      simp at cd cf
      have hne0 : s.ammoLeft ≠ some 0 := by
        intro h0; rw [h0] at hs; simp at hs
      have hflag : s.unf[i]? = some true → Parked (some Pc.wait) := by
        intro hf; have := (hi.unfPc i hf).2; rw [h] at this; simp [Parked] at this
      have hdoneOld : ∀ k : Nat, k ≠ i → s.pcs[k]? = some Pc.done → s.shared = 0 := by
        intro k _ hk; rcases hi.done k hk with h1 | h1
        · exact h1
        · exact absurd h1 hne0
      split at hs
      · cases hs
        refine invS_move hi h _ rfl rfl rfl rfl rfl ?_ ?_ ?_ ?_ hflag ?_
        · have := hi.tok; simp; omega
        · intro _; exact hi.busy i (Or.inl h)
        · intro hn; cases hn
        · intro k hk1 hk2; exact Or.inl (hdoneOld k hk1 hk2)
        · intro _ ho; simp [drawn_some] at ho
      · cases hs
      · cases hs
        refine invS_move hi h _ rfl rfl rfl rfl rfl ?_ ?_ ?_ ?_ hflag ?_
        · have := hi.tok; simp; omega
        · intro _; exact hi.busy i (Or.inl h)
        · intro hn; cases hn
        · intro k hk1 hk2; exact Or.inl (hdoneOld k hk1 hk2)
        · intro _ ho; simp [drawn_some] at ho
    · cases hs
  | empty i =>
    simp only [step] at hs
    split at hs
    · rename_i h
      cases hs
      obtain ⟨h, ha⟩ := h
      obtain ⟨cw, cd, cf, cs, cr⟩ := counts_move s.pcs i .acquire .done h
      simp at cd cf
      refine invS_move hi h _ rfl rfl rfl rfl rfl ?_ ?_ ?_ ?_ ?_ ?_
      · have := hi.tok; simp; omega
      · intro hn; rcases hn with hn | hn <;> cases hn
      · intro _; exact Or.inr ha
      · intro k _ hk; exact hi.done k hk
      · intro _; simp [parked_some]
      · intro _ _; simp [drawn_some]
    · cases hs
  | tokOk i =>
    simp only [step, hleft] at hs
    split at hs
    · rename_i h
      cases hs
      obtain ⟨h, hpos⟩ := h
      obtain ⟨cw, cd, cf, cs, cr⟩ := counts_move s.pcs i .wait .decide h
      simp at cd cf
      have hlen := lt_of_get h
      have hnoflag : s.unf[i]? ≠ some true := by
        intro hf; have := (hi.unfPc i hf).1; omega
      simp only [St.draw, hc, Bool.false_eq_true, if_false]
      refine ⟨?_, ?_, ?_, ?_, hi.unfLen, by simpa using hi.pcsLen, hi.unfCnt, ?_, ?_⟩
      · have := hi.tok; simp; omega
      · intro k hk
        simp only at hk
        rw [pcs_after h k] at hk
        by_cases hki : k = i
        · simp [hki] at hk
        · simp only [hki, if_false] at hk; exact hi.busy k hk
      · intro hu
        have := hi.unfPos hu
        omega
      · intro k hk
        simp only at hk
        rw [pcs_after h k] at hk
        by_cases hki : k = i
        · simp [hki] at hk
        · simp only [hki, if_false] at hk
          rcases hi.done k hk with h1 | h1
          · omega
          · exact Or.inr h1
      · intro k hk
        have := (hi.unfPc k hk).1
        simp only at this ⊢
        omega
      · intro h0 hposT
        simp only at h0 ⊢
        refine ⟨i, rfl, ?_, ?_⟩
        · have hlt : i < s.unf.length := by
            have h1 := hi.unfLen
            have h2 := hi.pcsLen
            omega
          rw [List.getElem?_eq_getElem hlt]
          cases hv : s.unf[i] with
          | false => rfl
          | true => exact absurd (by rw [List.getElem?_eq_getElem hlt, hv]) hnoflag
        · left; rw [pcs_after h i]; simp
    · cases hs
  | tokEnd i =>
    simp only [step, hleft] at hs
    split at hs
    · rename_i h
      cases hs
      obtain ⟨h, h0⟩ := h
      obtain ⟨cw, cd, cf, cs, cr⟩ := counts_move s.pcs i .wait .release h
      simp at cd cf
      have htokpos := hi.busy i (Or.inr h)
      have hnoflag : s.unf[i]? ≠ some true := by
        intro hf; have := (hi.unfPc i hf).2; rw [h] at this; simp [Parked] at this
      have hlt : i < s.unf.length := by
        have h1 := hi.unfLen; have h2 := hi.pcsLen; have h3 := lt_of_get h; omega
      have hfalse : s.unf[i]? = some false := by
        rw [List.getElem?_eq_getElem hlt]
        cases hv : s.unf[i] with
        | false => rfl
        | true => exact absurd (by rw [List.getElem?_eq_getElem hlt, hv]) hnoflag
      refine ⟨?_, ?_, ?_, ?_, ?_, by simpa using hi.pcsLen, ?_, ?_, ?_⟩
      · have := hi.tok; simp; omega
      · intro k hk
        simp only at hk
        rw [pcs_after h k] at hk
        by_cases hki : k = i
        · simp [hki] at hk
        · simp only [hki, if_false] at hk; exact hi.busy k hk
      · intro _; exact ⟨h0, htokpos⟩
      · intro k hk
        simp only at hk
        rw [pcs_after h k] at hk
        by_cases hki : k = i
        · simp [hki] at hk
        · simp only [hki, if_false] at hk; exact hi.done k hk
      · simpa using hi.unfLen
      · have cu := count_set_of s.unf i false true true hfalse
        simp at cu
        have := hi.unfCnt
        simp only
        omega
      · intro k hk
        simp only at hk ⊢
        refine ⟨h0, ?_⟩
        rw [pcs_after h k]
        by_cases hki : k = i
        · simp [hki, Parked]
        · simp only [hki, if_false]
          rw [getElem?_set_ne' s.unf true (Ne.symm hki)] at hk
          exact (hi.unfPc k hk).2
      · intro _ hposT
        obtain ⟨j, hj1, hj2, hj3⟩ := hi.last h0 hposT
        have hji : j ≠ i := by
          intro hji; subst hji
          rw [h] at hj3
          simp [drawn_some] at hj3
        refine ⟨j, hj1, ?_, ?_⟩
        · simp only; rw [getElem?_set_ne' s.unf true (Ne.symm hji)]; exact hj2
        · simp only; rw [pcs_after h j]; simp only [hji, if_false]; exact hj3
    · cases hs
  | reqAdd i =>
    simp only [step] at hs
    split at hs
    · rename_i h
      cases hs
      obtain ⟨cw, cd, cf, cs, cr⟩ := counts_move s.pcs i .decide .firing h
      simp at cd cf
      refine invS_move hi h _ rfl rfl rfl rfl rfl ?_ ?_ ?_ ?_ ?_ ?_
      · have := hi.tok; simp; omega
      · intro hn; rcases hn with hn | hn <;> cases hn
      · intro hn; cases hn
      · intro k _ hk; exact hi.done k hk
      · intro hf; have := (hi.unfPc i hf).2; rw [h] at this; simp [Parked] at this
      · intro _ _; simp [drawn_some]
    · cases hs
  | shoot i k =>
    simp only [step] at hs
    split at hs
    · rename_i h
      cases hs
      obtain ⟨h, _⟩ := h
      obtain ⟨cw, cd, cf, cs, cr⟩ := counts_move s.pcs i .firing .shot h
      simp at cd cf
      refine invS_move hi h _ rfl rfl rfl rfl rfl ?_ ?_ ?_ ?_ ?_ ?_
      · have := hi.tok; simp; omega
      · intro hn; rcases hn with hn | hn <;> cases hn
      · intro hn; cases hn
      · intro k _ hk; exact hi.done k hk
      · intro hf; have := (hi.unfPc i hf).2; rw [h] at this; simp [Parked] at this
      · intro _ _; simp [drawn_some]
    · cases hs
  | respAdd i =>
    simp only [step] at hs
    split at hs
    · rename_i h
      cases hs
      obtain ⟨cw, cd, cf, cs, cr⟩ := counts_move s.pcs i .shot .release h
      simp at cd cf
      refine invS_move hi h _ rfl rfl rfl rfl rfl ?_ ?_ ?_ ?_ ?_ ?_
      · have := hi.tok; simp; omega
      · intro hn; rcases hn with hn | hn <;> cases hn
      · intro hn; cases hn
      · intro k _ hk; exact hi.done k hk
      · intro _; simp [parked_some]
      · intro _ _; simp [drawn_some]
    · cases hs
  | discard i =>
    simp only [step] at hs
    split at hs
    · rename_i h
      cases hs
      obtain ⟨h, _⟩ := h
      obtain ⟨cw, cd, cf, cs, cr⟩ := counts_move s.pcs i .decide .release h
      simp at cd cf
      refine invS_move hi h _ rfl rfl rfl rfl rfl ?_ ?_ ?_ ?_ ?_ ?_
      · have := hi.tok; simp; omega
      · intro hn; rcases hn with hn | hn <;> cases hn
      · intro hn; cases hn
      · intro k _ hk; exact hi.done k hk
      · intro _; simp [parked_some]
      · intro _ _; simp [drawn_some]
    · cases hs
  | rel i k =>
    simp only [step] at hs
    split at hs
    · rename_i h
      cases hs
      obtain ⟨h, _⟩ := h
      obtain ⟨cw, cd, cf, cs, cr⟩ := counts_move s.pcs i .release .check h
      simp at cd cf
      refine invS_move hi h _ rfl rfl rfl rfl rfl ?_ ?_ ?_ ?_ ?_ ?_
      · have := hi.tok; simp; omega
      · intro hn; rcases hn with hn | hn <;> cases hn
      · intro hn; cases hn
      · intro k _ hk; exact hi.done k hk
      · intro _; simp [parked_some]
      · intro _ _; simp [drawn_some]
    · cases hs

/-! ### one profile per instance -/

theorem sum_set_pred : ∀ (l : List Nat) (i : Nat), i < l.length → 0 < l[i]?.getD 0 →
    (l.set i (l[i]?.getD 0 - 1)).sum + 1 = l.sum
  | [], _, h, _ => by simp at h
  | a :: l, 0, _, hp => by simp at hp ⊢; omega
  | a :: l, i + 1, h, hp => by
    have := sum_set_pred l i (by simpa using h) (by simpa using hp)
    simp at this ⊢; omega

theorem sum_set_zero : ∀ (l : List Nat) (i v : Nat), i < l.length → l[i]?.getD 0 = 0 →
    (l.set i v).sum = l.sum + v
  | [], _, _, h, _ => by simp at h
  | a :: l, 0, v, _, hp => by simp at hp ⊢; omega
  | a :: l, i + 1, v, h, hp => by
    have := sum_set_zero l i v (by simpa using h) (by simpa using hp)
    simp at this ⊢; omega

theorem sum_replicate_nat (n a : Nat) : (List.replicate n a).sum = n * a := by
  induction n with
  | zero => simp
  | succ n ih => simp [List.replicate_succ, ih, Nat.succ_mul]; omega

theorem sum_zero_of_all : ∀ (l : List Nat), (∀ i : Nat, i < l.length → l[i]?.getD 0 = 0) → l.sum = 0
  | [], _ => rfl
  | a :: l, h => by
    have h0 := h 0 (by simp)
    have := sum_zero_of_all l (fun i hi => by simpa using h (i + 1) (by simpa using hi))
    simp at h0 ⊢; omega

structure InvP (c : Cfg) (s : St) : Prop where
  ownLen : s.own.length = c.instances
  pcsLen : s.pcs.length = c.instances
  tok : s.started * c.tokens = s.own.sum + s.fired + s.discarded + s.pcs.count .decide + s.pcs.count .firing
  unf0 : s.unfired = 0
  busy : ∀ i : Nat, (s.pcs[i]? = some Pc.acquire ∨ s.pcs[i]? = some Pc.wait) → 0 < s.own[i]?.getD 0
  done : ∀ i : Nat, s.pcs[i]? = some Pc.done → s.own[i]?.getD 0 = 0 ∨ s.ammoLeft = some 0
  ownIdle : ∀ i : Nat, s.pcs[i]? = some Pc.idle → s.own[i]?.getD 0 = 0

theorem init_invP (c : Cfg) : InvP c (init c) := by
  refine ⟨by simp [init], by simp [init], by simp [init, List.count_replicate, sum_replicate_nat], rfl, ?_, ?_, ?_⟩
  · intro i h
    simp only [init] at h
    rcases h with h | h <;> (rw [List.getElem?_replicate] at h; split at h <;> cases h)
  · intro i h
    simp only [init] at h
    rw [List.getElem?_replicate] at h; split at h <;> cases h
  · intro i _
    simp only [init]
    rw [List.getElem?_replicate]; split <;> rfl

/-- a pcs-only move that leaves the own-token buckets alone -/
theorem invP_move {c : Cfg} {s : St} (hi : InvP c s) {i : Nat} {old new : Pc} (h : s.pcs[i]? = some old)
    (s' : St) (hpcs : s'.pcs = s.pcs.set i new) (hown : s'.own = s.own) (hunfired : s'.unfired = s.unfired)
    (htok : s'.started * c.tokens = s'.own.sum + s'.fired + s'.discarded + s'.pcs.count .decide + s'.pcs.count .firing)
    (hbusy : (new = .acquire ∨ new = .wait) → 0 < s.own[i]?.getD 0)
    (hdoneNew : new = .done → s.own[i]?.getD 0 = 0 ∨ s'.ammoLeft = some 0)
    (hdoneOld : ∀ k : Nat, k ≠ i → s.pcs[k]? = some Pc.done → s.own[k]?.getD 0 = 0 ∨ s'.ammoLeft = some 0)
    (hnewIdle : new ≠ .idle) :
    InvP c s' := by
  refine ⟨by rw [hown]; exact hi.ownLen, by rw [hpcs, List.length_set]; exact hi.pcsLen, htok,
    by rw [hunfired]; exact hi.unf0, ?_, ?_, ?_⟩
  · intro k hk
    rw [hpcs, pcs_after h k] at hk
    rw [hown]
    by_cases hki : k = i
    · simp only [hki, if_true, Option.some.injEq] at hk; rw [hki]; exact hbusy hk
    · simp only [hki, if_false] at hk; exact hi.busy k hk
  · intro k hk
    rw [hpcs, pcs_after h k] at hk
    rw [hown]
    by_cases hki : k = i
    · simp only [hki, if_true, Option.some.injEq] at hk; rw [hki]; exact hdoneNew hk
    · simp only [hki, if_false] at hk; exact hdoneOld k hki hk
  · intro k hk
    rw [hpcs, pcs_after h k] at hk
    rw [hown]
    by_cases hki : k = i
    · simp only [hki, if_true, Option.some.injEq] at hk; exact absurd hk hnewIdle
    · simp only [hki, if_false] at hk; exact hi.ownIdle k hk

theorem step_invP {c : Cfg} (hc : c.perInstance = true) {s s' : St} {e : Ev} (hi : InvP c s)
    (hs : step c s e = some s') : InvP c s' := by
  have hleft : ∀ i, s.left c i = s.own[i]?.getD 0 := by intro i; simp [St.left, hc]
  cases e with
  | start i =>
    simp only [step] at hs
    split at hs
    · rename_i h
      cases hs
      obtain ⟨_, h⟩ := h
      obtain ⟨cw, cd, cf, cs, cr⟩ := counts_move s.pcs i .idle .check h
      simp at cd cf
      have hlt : i < s.own.length := by
        have h1 := hi.ownLen; have h2 := hi.pcsLen; have h3 := lt_of_get h; omega
      have hsum := sum_set_zero s.own i c.tokens hlt (hi.ownIdle i h)
      refine ⟨by simpa using hi.ownLen, by simpa using hi.pcsLen, ?_, hi.unf0, ?_, ?_, ?_⟩
      · have := hi.tok; simp only [Nat.add_mul, Nat.one_mul, hsum]; omega
      · intro k hk
        simp only at hk ⊢
        rw [pcs_after h k] at hk
        by_cases hki : k = i
        · simp [hki] at hk
        · simp only [hki, if_false] at hk
          rw [getElem?_set_ne' s.own _ (Ne.symm hki)]
          exact hi.busy k hk
      · intro k hk
        simp only at hk ⊢
        rw [pcs_after h k] at hk
        by_cases hki : k = i
        · simp [hki] at hk
        · simp only [hki, if_false] at hk
          rw [getElem?_set_ne' s.own _ (Ne.symm hki)]
          exact hi.done k hk
      · intro k hk
        simp only at hk ⊢
        rw [pcs_after h k] at hk
        by_cases hki : k = i
        · simp [hki] at hk
        · simp only [hki, if_false] at hk
          rw [getElem?_set_ne' s.own _ (Ne.symm hki)]
          exact hi.ownIdle k hk
    · cases hs
  | chk i left =>
    simp only [step, hleft] at hs
    split at hs
    · rename_i h
      cases hs
      obtain ⟨h, hl⟩ := h
      obtain ⟨cw, cd, cf, cs, cr⟩ := counts_move s.pcs i .check (if left = 0 then .done else .acquire) h
      refine invP_move hi h _ rfl rfl rfl ?_ ?_ ?_ ?_ ?_
      · have := hi.tok; by_cases hl0 : left = 0 <;> simp [hl0] at cd cf ⊢ <;> omega
      · intro hn
        by_cases hl0 : left = 0
        · simp [hl0] at hn
        · omega
      · intro hn
        by_cases hl0 : left = 0
        · left; omega
        · simp [hl0] at hn
      · intro k _ hk; exact hi.done k hk
      · by_cases hl0 : left = 0 <;> simp [hl0]
    · cases hs
  | acq i =>
    simp only [step] at hs
    split at hs
    · rename_i h
      obtain ⟨cw, cd, cf, cs, cr⟩ := counts_move s.pcs i .acquire .wait h
      simp at cd cf
      have hne0 : s.ammoLeft ≠ some 0 := by
        intro h0; rw [h0] at hs; simp at hs
      have hdoneOld : ∀ k : Nat, k ≠ i → s.pcs[k]? = some Pc.done → s.own[k]?.getD 0 = 0 := by
        intro k _ hk; rcases hi.done k hk with h1 | h1
        · exact h1
        · exact absurd h1 hne0
      split at hs
      · cases hs
        refine invP_move hi h _ rfl rfl rfl ?_ ?_ ?_ ?_ (by decide)
        · have := hi.tok; simp; omega
        · intro _; exact hi.busy i (Or.inl h)
        · intro hn; cases hn
        · intro k hk1 hk2; exact Or.inl (hdoneOld k hk1 hk2)
      · cases hs
      · cases hs
        refine invP_move hi h _ rfl rfl rfl ?_ ?_ ?_ ?_ (by decide)
        · have := hi.tok; simp; omega
        · intro _; exact hi.busy i (Or.inl h)
        · intro hn; cases hn
        · intro k hk1 hk2; exact Or.inl (hdoneOld k hk1 hk2)
    · cases hs
  | empty i =>
    simp only [step] at hs
    split at hs
    · rename_i h
      cases hs
      obtain ⟨h, ha⟩ := h
      obtain ⟨cw, cd, cf, cs, cr⟩ := counts_move s.pcs i .acquire .done h
      simp at cd cf
      refine invP_move hi h _ rfl rfl rfl ?_ ?_ ?_ ?_ (by decide)
      · have := hi.tok; simp; omega
      · intro hn; rcases hn with hn | hn <;> cases hn
      · intro _; exact Or.inr ha
      · intro k _ hk; exact hi.done k hk
    · cases hs
  | tokOk i =>
    simp only [step, hleft] at hs
    split at hs
    · rename_i h
      cases hs
      obtain ⟨h, hpos⟩ := h
      obtain ⟨cw, cd, cf, cs, cr⟩ := counts_move s.pcs i .wait .decide h
      simp at cd cf
      have hlt : i < s.own.length := by
        have h1 := hi.ownLen; have h2 := hi.pcsLen; have h3 := lt_of_get h; omega
      have hsum := sum_set_pred s.own i hlt hpos
      simp only [St.draw, hc, if_true]
      refine ⟨by simpa using hi.ownLen, by simpa using hi.pcsLen, ?_, hi.unf0, ?_, ?_, ?_⟩
      · have := hi.tok; simp; omega
      · intro k hk
        simp only at hk ⊢
        rw [pcs_after h k] at hk
        by_cases hki : k = i
        · simp [hki] at hk
        · simp only [hki, if_false] at hk
          rw [getElem?_set_ne' s.own _ (Ne.symm hki)]
          exact hi.busy k hk
      · intro k hk
        simp only at hk ⊢
        rw [pcs_after h k] at hk
        by_cases hki : k = i
        · simp [hki] at hk
        · simp only [hki, if_false] at hk
          rw [getElem?_set_ne' s.own _ (Ne.symm hki)]
          exact hi.done k hk
      · intro k hk
        simp only at hk ⊢
        rw [pcs_after h k] at hk
        by_cases hki : k = i
        · simp [hki] at hk
        · simp only [hki, if_false] at hk
          rw [getElem?_set_ne' s.own _ (Ne.symm hki)]
          exact hi.ownIdle k hk
    · cases hs
  | tokEnd i =>
    simp only [step, hleft] at hs
    split at hs
    · rename_i h
      have := hi.busy i (Or.inr h.1)
      omega
    · cases hs
  | reqAdd i =>
    simp only [step] at hs
    split at hs
    · rename_i h
      cases hs
      obtain ⟨cw, cd, cf, cs, cr⟩ := counts_move s.pcs i .decide .firing h
      simp at cd cf
      refine invP_move hi h _ rfl rfl rfl ?_ ?_ ?_ ?_ (by decide)
      · have := hi.tok; simp; omega
      · intro hn; rcases hn with hn | hn <;> cases hn
      · intro hn; cases hn
      · intro k _ hk; exact hi.done k hk
    · cases hs
  | shoot i k =>
    simp only [step] at hs
    split at hs
    · rename_i h
      cases hs
      obtain ⟨h, _⟩ := h
      obtain ⟨cw, cd, cf, cs, cr⟩ := counts_move s.pcs i .firing .shot h
      simp at cd cf
      refine invP_move hi h _ rfl rfl rfl ?_ ?_ ?_ ?_ (by decide)
      · have := hi.tok; simp; omega
      · intro hn; rcases hn with hn | hn <;> cases hn
      · intro hn; cases hn
      · intro k _ hk; exact hi.done k hk
    · cases hs
  | respAdd i =>
    simp only [step] at hs
    split at hs
    · rename_i h
      cases hs
      obtain ⟨cw, cd, cf, cs, cr⟩ := counts_move s.pcs i .shot .release h
      simp at cd cf
      refine invP_move hi h _ rfl rfl rfl ?_ ?_ ?_ ?_ (by decide)
      · have := hi.tok; simp; omega
      · intro hn; rcases hn with hn | hn <;> cases hn
      · intro hn; cases hn
      · intro k _ hk; exact hi.done k hk
    · cases hs
  | discard i =>
    simp only [step] at hs
    split at hs
    · rename_i h
      cases hs
      obtain ⟨h, _⟩ := h
      obtain ⟨cw, cd, cf, cs, cr⟩ := counts_move s.pcs i .decide .release h
      simp at cd cf
      refine invP_move hi h _ rfl rfl rfl ?_ ?_ ?_ ?_ (by decide)
      · have := hi.tok; simp; omega
      · intro hn; rcases hn with hn | hn <;> cases hn
      · intro hn; cases hn
      · intro k _ hk; exact hi.done k hk
    · cases hs
  | rel i k =>
    simp only [step] at hs
    split at hs
    · rename_i h
      cases hs
      obtain ⟨h, _⟩ := h
      obtain ⟨cw, cd, cf, cs, cr⟩ := counts_move s.pcs i .release .check h
      simp at cd cf
      refine invP_move hi h _ rfl rfl rfl ?_ ?_ ?_ ?_ (by decide)
      · have := hi.tok; simp; omega
      · intro hn; rcases hn with hn | hn <;> cases hn
      · intro hn; cases hn
      · intro k _ hk; exact hi.done k hk
    · cases hs

/-! ### lifting to whole traces -/

theorem run_inv {c : Cfg} {P : St → Prop} (hstep : ∀ s s' e, P s → step c s e = some s' → P s') :
    ∀ (evs : List Ev) (s s' : St), P s → run c s evs = some s' → P s'
  | [], s, s', hp, h => by simp [run] at h; exact h ▸ hp
  | e :: es, s, s', hp, h => by
    simp only [run] at h
    split at h
    · rename_i s1 hs1; exact run_inv hstep es s1 s' (hstep s s1 e hp hs1) h
    · cases h

/-- at the end of the pool every instance is `done` or was never started -/
theorem count_of_terminal {s : St} (h : s.terminal = true) (p : Pc) (hp : p ≠ .done) (hp' : p ≠ .idle) :
    s.pcs.count p = 0 := by
  unfold St.terminal at h
  rw [List.all_eq_true] at h
  apply List.count_eq_zero.mpr
  intro hm
  have := h p hm
  simp at this
  rcases this with h1 | h1
  · exact hp h1
  · exact hp' h1

end Pandora.Proofs.C03
