/-
C01 — the lazy start of a leaf schedule is safe under every interleaving of any number of callers (helper lemmas; the
property theorems are in `Props/C01.lean`).  Core Lean only.

`Inv g body V s`: the invariant of the small-step system of `Model/C01Conc.lean` for a `Next` of one of the two shapes
`safeLazy` recognises:
  g = false   onceEnter (|body|+1) :: body ++ [onceExit, incI, readStartRet]
  g = true    skipIfStarted (|body|+2) :: the same, with `swapStarted` as the LAST statement of the body
                (double-checked lazy start done right: the flag is published after the value it guards)
`Open g s` ("callers may go past the Once") is what makes the two cases one proof: as long as the Once is not open
nobody is past it and nothing is logged; once it is open the start is stored and is never written again.
-/
import Pandora.Model.C01Conc

namespace Pandora.Proofs.C01Conc
open Pandora.Model.C01Conc

def tail3 : List Stmt := [.onceExit, .incI, .readStartRet]

/-- `Next` from its Once on -/
def paOf (body : List Stmt) : List Stmt := Stmt.onceEnter (body.length + 1) :: (body ++ tail3)

/-- the whole `Next`: optionally a check of the started flag in front of the Once -/
def progG (g : Bool) (body : List Stmt) : List Stmt :=
  (if g then [Stmt.skipIfStarted (body.length + 2)] else []) ++ paOf body

structure BodyOK (g : Bool) (body : List Stmt) : Prop where
  stmts : ∀ c ∈ body, c = Stmt.swapStarted ∨ c = Stmt.writeStartNow
  writes : Stmt.writeStartNow ∈ body
  swaps : body.count Stmt.swapStarted ≤ 1
  last : g = true → body.getLast? = some Stmt.swapStarted

theorem safeOnce_shape (k : Nat) (rest : List Stmt) (h : safeOnce k rest = true) :
    ∃ body, Stmt.onceEnter k :: rest = paOf body ∧ body = rest.take (k - 1) ∧
      (∀ c ∈ body, c = .swapStarted ∨ c = .writeStartNow) ∧ .writeStartNow ∈ body ∧ body.count .swapStarted ≤ 1 := by
  unfold safeOnce at h
  simp only [Bool.and_eq_true, decide_eq_true_eq, List.all_eq_true, List.contains_iff_mem] at h
  obtain ⟨⟨⟨⟨hk, hall⟩, hw⟩, hc⟩, hd⟩ := h
  refine ⟨rest.take (k - 1), ?_, rfl, ?_, hw, hc⟩
  · have hlen : rest.length = (k - 1) + 3 := by
      have := congrArg List.length hd
      simp at this
      omega
    have hl : (rest.take (k - 1)).length = k - 1 := by simp [List.length_take]; omega
    unfold paOf tail3
    rw [hl, ← hd, List.take_append_drop]
    have : k - 1 + 1 = k := by omega
    rw [this]
  · intro c hcm
    have := hall c hcm
    cases c <;> simp [isBodyStmt] at this <;> simp

theorem safeLazy_shape (p : List Stmt) (h : safeLazy p = true) : ∃ g body, p = progG g body ∧ BodyOK g body := by
  unfold safeLazy at h
  match p, h with
  | .onceEnter k :: rest, h =>
    obtain ⟨body, hp, _, h1, h2, h3⟩ := safeOnce_shape k rest h
    exact ⟨false, body, by simp [progG, hp], h1, h2, h3, by simp⟩
  | .skipIfStarted g :: .onceEnter k :: rest, h =>
    simp only [Bool.and_eq_true, decide_eq_true_eq] at h
    obtain ⟨⟨hg, hs⟩, hl⟩ := h
    obtain ⟨body, hp, hb, h1, h2, h3⟩ := safeOnce_shape k rest hs
    refine ⟨true, body, ?_, h1, h2, h3, fun _ => by rw [hb]; exact hl⟩
    have hk : k = body.length + 1 := by
      unfold paOf at hp
      injection hp with hp1 _
      injection hp1
    simp only [progG, if_true, List.singleton_append, ← hp]
    rw [hg, hk]


/-- the call has passed the Once (or skipped it) -/
def Post (s : St) (j : Nat) : Prop := s.th j = [.incI, .readStartRet] ∨ s.th j = [.readStartRet] ∨ s.th j = []
/-- the call has not reached the inside of the Once -/
def Pre (g : Bool) (body : List Stmt) (s : St) (j : Nat) : Prop := s.th j = progG g body ∨ s.th j = paOf body
/-- callers may go past the Once: it is done, or (flag check in front) the flag is up -/
def Open (g : Bool) (s : St) : Prop := s.once = .done ∨ (g = true ∧ s.started = true)
/-- the callers that hold an index they have not used yet -/
def Held (s : St) (j : Nat) : Prop := s.th j = [.readStartRet]

structure Inv (g : Bool) (body : List Stmt) (V : Int → Prop) (s : St) : Prop where
  nopanic : s.panics = []
  idle : s.once = .idle → s.started = false
  running : ∀ r, s.once = .running r → ∃ pre bs, body = pre ++ bs ∧ s.th r = bs ++ tail3 ∧
      (s.started = true → Stmt.swapStarted ∉ bs) ∧ (Stmt.writeStartNow ∉ bs → ∃ v, V v ∧ s.start = some v)
  others : ∀ j, s.once ≠ .running j → Pre g body s j ∨ Post s j
  closed : ¬ Open g s → s.log = [] ∧ ∀ j, ¬ Post s j
  opened : Open g s → ∃ v, V v ∧ s.start = some v
  logstart : ∀ a ∈ s.log, a.start = s.start
  ctr0 : 0 ≤ s.ctr
  held_lt : ∀ j, Held s j → 0 ≤ s.loc j ∧ s.loc j < s.ctr
  held_ne : ∀ j k, j ≠ k → Held s j → Held s k → s.loc j ≠ s.loc k
  log_lt : ∀ a ∈ s.log, 0 ≤ a.idx ∧ a.idx < s.ctr
  log_held : ∀ a ∈ s.log, ∀ j, Held s j → a.idx ≠ s.loc j
  log_nodup : (s.log.map (·.idx)).Nodup

theorem paOf_ne_held (body : List Stmt) : paOf body ≠ [Stmt.readStartRet] := by simp [paOf]
theorem progG_ne_held (g : Bool) (body : List Stmt) : progG g body ≠ [Stmt.readStartRet] := by
  cases g <;> simp [progG, paOf]
theorem body_tail_ne_held (bs : List Stmt) : bs ++ tail3 ≠ [Stmt.readStartRet] := by
  intro h
  have := congrArg List.length h
  simp [tail3] at this

theorem body_tail_not_post (s : St) (j : Nat) (bs : List Stmt) (h : s.th j = bs ++ tail3) : ¬ Post s j := by
  intro hp
  have hl : (s.th j).length = bs.length + 3 := by rw [h]; simp [tail3]
  rcases hp with h1 | h1 | h1 <;> rw [h1] at hl <;> simp at hl <;> omega

theorem pre_not_post (g : Bool) (body : List Stmt) (s : St) (j : Nat) (h : Pre g body s j) : ¬ Post s j := by
  intro hp
  rcases h with h | h <;> rcases hp with h1 | h1 | h1 <;> rw [h] at h1 <;> revert h1 <;> cases g <;> simp [progG, paOf]

theorem upd_same {α : Type} (f : Nat → α) (t : Nat) (x : α) : upd f t x t = x := by simp [upd]
theorem upd_other {α : Type} (f : Nat → α) (t j : Nat) (x : α) (h : j ≠ t) : upd f t x j = f j := by simp [upd, h]

theorem inv_initLazy (g : Bool) (body : List Stmt) (V : Int → Prop) : Inv g body V (initLazy (progG g body)) := by
  refine ⟨rfl, ?_, ?_, ?_, ?_, ?_, ?_, ?_, ?_, ?_, ?_, ?_, ?_⟩
  · intro _; rfl
  · intro r hr; simp [initLazy] at hr
  · intro j _; left; left; rfl
  · intro _
    refine ⟨rfl, ?_⟩
    intro j; exact pre_not_post g body _ j (Or.inl rfl)
  · intro ho; rcases ho with ho | ⟨_, ho⟩ <;> simp [initLazy] at ho
  · intro a ha; simp [initLazy] at ha
  · simp [initLazy]
  · intro j hj; exact absurd hj (progG_ne_held g body)
  · intro j k _ hj; exact absurd hj (progG_ne_held g body)
  · intro a ha; simp [initLazy] at ha
  · intro a ha; simp [initLazy] at ha
  · simp [initLazy]

theorem inv_initStarted (g : Bool) (body : List Stmt) (V : Int → Prop) (t0 : Int) (h0 : V t0) :
    Inv g body V (initStarted t0 (progG g body)) := by
  refine ⟨rfl, ?_, ?_, ?_, ?_, ?_, ?_, ?_, ?_, ?_, ?_, ?_, ?_⟩
  · intro h; simp [initStarted] at h
  · intro r hr; simp [initStarted] at hr
  · intro j _; left; left; rfl
  · intro hno; exact absurd (Or.inl rfl) hno
  · intro _; exact ⟨t0, h0, rfl⟩
  · intro a ha; simp [initStarted] at ha
  · simp [initStarted]
  · intro j hj; exact absurd hj (progG_ne_held g body)
  · intro j k _ hj; exact absurd hj (progG_ne_held g body)
  · intro a ha; simp [initStarted] at ha
  · intro a ha; simp [initStarted] at ha
  · simp [initStarted]

section stepInv
variable (g : Bool) (body : List Stmt) (V : Int → Prop) (hb : BodyOK g body)

/-- flag check in front of the Once, flag up: the runner has nothing left to do in the body (the flag goes up last) -/
theorem runner_done_of_open (hb : BodyOK g body) (pre bs : List Stmt) (hpre : body = pre ++ bs) (hg : g = true)
    (hsw : Stmt.swapStarted ∉ bs) : bs = [] := by
  cases hbs : bs with
  | nil => rfl
  | cons c bs' =>
    exfalso
    have hl := hb.last hg
    rw [hpre, List.getLast?_append] at hl
    have hne : bs.getLast? ≠ none := by rw [hbs]; simp [List.getLast?_cons]
    cases hx : bs.getLast? with
    | none => exact hne hx
    | some x =>
      rw [hx] at hl
      simp at hl
      subst hl
      exact hsw (List.mem_of_getLast? hx)

/-- a caller outside the Once moves on without touching the shared state (it enters `Next` proper, or goes past the
Once because the Once is open) -/
theorem th_update_inv (s : St) (t : Nat) (X : List Stmt) (h : Inv g body V s) (hnr : s.once ≠ .running t)
    (hX : X = paOf body ∨ (X = [.incI, .readStartRet] ∧ Open g s)) :
    Inv g body V { s with th := upd s.th t X } := by
  have hXh : X ≠ [Stmt.readStartRet] := by
    rcases hX with rfl | ⟨rfl, _⟩
    · exact paOf_ne_held body
    · simp
  have hheld : ∀ j, Held { s with th := upd s.th t X } j → j ≠ t ∧ Held s j := by
    intro j hj
    simp only [Held, upd] at hj
    split at hj
    · exact absurd hj hXh
    · rename_i hne; exact ⟨hne, hj⟩
  refine ⟨h.nopanic, h.idle, ?_, ?_, ?_, h.opened, h.logstart, h.ctr0, ?_, ?_, h.log_lt, ?_, h.log_nodup⟩
  · intro r hr
    have hrt : r ≠ t := by intro e; subst e; exact hnr hr
    obtain ⟨pre, bs, h1, h2, h3, h4⟩ := h.running r hr
    exact ⟨pre, bs, h1, by simpa [upd, hrt] using h2, h3, h4⟩
  · intro j hj
    by_cases hjt : j = t
    · subst hjt
      rcases hX with rfl | ⟨rfl, _⟩
      · left; right; simp [upd]
      · right; left; simp [upd]
    · have := h.others j hj
      simpa [Pre, Post, upd, hjt] using this
  · intro hno
    obtain ⟨hl, hp⟩ := h.closed hno
    refine ⟨hl, ?_⟩
    intro j
    by_cases hjt : j = t
    · subst hjt
      rcases hX with rfl | ⟨_, ho⟩
      · apply pre_not_post g body _ j; right; simp [upd]
      · exact absurd ho hno
    · have := hp j
      simpa [Post, upd, hjt] using this
  · intro j hj; exact h.held_lt j (hheld j hj).2
  · intro j k hjk hj hk; exact h.held_ne j k hjk (hheld j hj).2 (hheld k hk).2
  · intro a ha j hj; exact h.log_held a ha j (hheld j hj).2

/-- a caller past the Once: draw the index, read the start and answer -/
theorem post_step_inv (arg : Int) (s : St) (t : Nat) (now : Int) (h : Inv g body V s) (hp : Post s t) :
    Inv g body V (step arg s t now) := by
  have hopen : Open g s := by
    apply Classical.byContradiction
    intro hno
    exact (h.closed hno).2 t hp
  have hnr : ∀ r, s.once = .running r → r ≠ t := by
    intro r hr e
    subst e
    obtain ⟨pre, bs, _, h2, _, _⟩ := h.running r hr
    exact body_tail_not_post s r bs h2 hp
  rcases hp with h1 | h2 | h3
  · -- i := s.i.Inc() - 1
    have hstep : step arg s t now = { s with ctr := s.ctr + 1, loc := upd s.loc t s.ctr, th := upd s.th t [.readStartRet] } := by
      simp [step, h1]
    rw [hstep]
    have hheld : ∀ j, Held { s with ctr := s.ctr + 1, loc := upd s.loc t s.ctr, th := upd s.th t [.readStartRet] } j →
        j = t ∨ (j ≠ t ∧ Held s j) := by
      intro j hj
      by_cases hjt : j = t
      · exact Or.inl hjt
      · right; simp only [Held, upd, hjt, if_false] at hj; exact ⟨hjt, hj⟩
    have hc0 := h.ctr0
    refine ⟨h.nopanic, h.idle, ?_, ?_, ?_, h.opened, h.logstart, by show 0 ≤ s.ctr + 1; omega, ?_, ?_, ?_, ?_, h.log_nodup⟩
    · intro r hr
      have hrt := hnr r hr
      obtain ⟨pre, bs, e1, e2, e3, e4⟩ := h.running r hr
      exact ⟨pre, bs, e1, by simpa [upd, hrt] using e2, e3, e4⟩
    · intro j hj
      by_cases hjt : j = t
      · subst hjt; right; right; left; simp [upd]
      · have := h.others j hj
        simpa [Pre, Post, upd, hjt] using this
    · intro hno; exact absurd hopen hno
    · intro j hj
      show 0 ≤ upd s.loc t s.ctr j ∧ upd s.loc t s.ctr j < s.ctr + 1
      rcases hheld j hj with rfl | ⟨hne, hh⟩
      · simp [upd]; omega
      · have := h.held_lt j hh
        simp [upd, hne]; omega
    · intro j k hjk hj hk
      show upd s.loc t s.ctr j ≠ upd s.loc t s.ctr k
      rcases hheld j hj with rfl | ⟨hne, hh⟩
      · rcases hheld k hk with rfl | ⟨hne', hh'⟩
        · exact absurd rfl hjk
        · have := h.held_lt k hh'
          simp [upd, hne']; omega
      · rcases hheld k hk with rfl | ⟨hne', hh'⟩
        · have := h.held_lt j hh
          simp [upd, hne]; omega
        · simpa [upd, hne, hne'] using h.held_ne j k hjk hh hh'
    · intro a ha
      have := h.log_lt a ha
      show 0 ≤ a.idx ∧ a.idx < s.ctr + 1
      omega
    · intro a ha j hj
      show a.idx ≠ upd s.loc t s.ctr j
      rcases hheld j hj with rfl | ⟨hne, hh⟩
      · have := h.log_lt a ha
        simp [upd]; omega
      · simpa [upd, hne] using h.log_held a ha j hh
  · -- the rest of Next: read s.start, answer
    have hstep : step arg s t now = { s with log := ⟨t, s.start, s.loc t⟩ :: s.log, th := upd s.th t [] } := by
      simp [step, h2]
    rw [hstep]
    have hheld : ∀ j, Held { s with log := ⟨t, s.start, s.loc t⟩ :: s.log, th := upd s.th t [] } j → j ≠ t ∧ Held s j := by
      intro j hj
      simp only [Held, upd] at hj
      split at hj
      · simp at hj
      · rename_i hne; exact ⟨hne, hj⟩
    have ht : Held s t := h2
    refine ⟨h.nopanic, h.idle, ?_, ?_, ?_, h.opened, ?_, h.ctr0, ?_, ?_, ?_, ?_, ?_⟩
    · intro r hr
      have hrt := hnr r hr
      obtain ⟨pre, bs, e1, e2, e3, e4⟩ := h.running r hr
      exact ⟨pre, bs, e1, by simpa [upd, hrt] using e2, e3, e4⟩
    · intro j hj
      by_cases hjt : j = t
      · subst hjt; right; right; right; simp [upd]
      · have := h.others j hj
        simpa [Pre, Post, upd, hjt] using this
    · intro hno; exact absurd hopen hno
    · intro a ha
      simp only [List.mem_cons] at ha
      rcases ha with rfl | ha
      · rfl
      · exact h.logstart a ha
    · intro j hj; exact h.held_lt j (hheld j hj).2
    · intro j k hjk hj hk; exact h.held_ne j k hjk (hheld j hj).2 (hheld k hk).2
    · intro a ha
      simp only [List.mem_cons] at ha
      rcases ha with rfl | ha
      · exact h.held_lt t ht
      · exact h.log_lt a ha
    · intro a ha j hj
      obtain ⟨hne, hh⟩ := hheld j hj
      simp only [List.mem_cons] at ha
      rcases ha with rfl | ha
      · exact h.held_ne t j (Ne.symm hne) ht hh
      · exact h.log_held a ha j hh
    · simp only [List.map_cons, List.nodup_cons]
      refine ⟨?_, h.log_nodup⟩
      intro hmem
      rw [List.mem_map] at hmem
      obtain ⟨a, ha, hae⟩ := hmem
      exact h.log_held a ha t ht hae
  · -- the call has returned
    have hstep : step arg s t now = s := by simp [step, h3]
    rw [hstep]; exact h

include hb in
/-- the runner of the Once performs the next statement of the body, or leaves the Once -/
theorem runner_step_inv (arg : Int) (s : St) (t : Nat) (now : Int) (hV : V now) (h : Inv g body V s)
    (ho : s.once = .running t) : Inv g body V (step arg s t now) := by
  obtain ⟨pre, bs, hpre, hthr, hsw, hwr⟩ := h.running t ho
  have hoth : ∀ j, j ≠ t → Pre g body s j ∨ Post s j := by
    intro j hj; apply h.others j; rw [ho]; intro e; injection e with e; exact hj e.symm
  cases bs with
  | nil =>
    -- `})`: the Once is done
    have hstep : step arg s t now = { s with once := .done, th := upd s.th t [.incI, .readStartRet] } := by
      simp [step, hthr, tail3]
    rw [hstep]
    have hheld : ∀ j, Held { s with once := Once.done, th := upd s.th t [.incI, .readStartRet] } j → j ≠ t ∧ Held s j := by
      intro j hj
      simp only [Held, upd] at hj
      split at hj
      · simp at hj
      · rename_i hne; exact ⟨hne, hj⟩
    refine ⟨h.nopanic, ?_, ?_, ?_, ?_, ?_, h.logstart, h.ctr0, ?_, ?_, h.log_lt, ?_, h.log_nodup⟩
    · intro h'; simp at h'
    · intro r' hr'; simp at hr'
    · intro j _
      by_cases hjt : j = t
      · subst hjt; right; left; simp [upd]
      · have := hoth j hjt
        simpa [Pre, Post, upd, hjt] using this
    · intro hno; exact absurd (Or.inl rfl) hno
    · intro _; exact hwr (by simp)
    · intro j hj; exact h.held_lt j (hheld j hj).2
    · intro j k hjk hj hk; exact h.held_ne j k hjk (hheld j hj).2 (hheld k hk).2
    · intro a ha j hj; exact h.log_held a ha j (hheld j hj).2
  | cons c bs' =>
    have hcm : c ∈ body := by rw [hpre]; simp
    -- the flag is not up yet, or there is no flag check: nobody is past the Once, nothing is logged
    have hclosed : ¬ Open g s := by
      intro hop
      rcases hop with hd | ⟨hg, hst⟩
      · rw [ho] at hd; simp at hd
      · have := runner_done_of_open g body hb pre (c :: bs') hpre hg (hsw hst)
        simp at this
    obtain ⟨hlog, hnopost⟩ := h.closed hclosed
    have hpre_all : ∀ j, j ≠ t → Pre g body s j := by
      intro j hj
      rcases hoth j hj with hp | hp
      · exact hp
      · exact absurd hp (hnopost j)
    have hnh : ∀ (s' : St), s'.th = upd s.th t (bs' ++ tail3) → ∀ j, ¬ Held s' j := by
      intro s' hs' j hj
      simp only [Held, hs', upd] at hj
      split at hj
      · exact body_tail_ne_held _ hj
      · rename_i hne
        rcases hpre_all j hne with hp | hp <;> rw [hp] at hj
        · exact progG_ne_held g body hj
        · exact paOf_ne_held body hj
    have hothers' : ∀ (s' : St), s'.th = upd s.th t (bs' ++ tail3) → s'.once = .running t →
        ∀ j, s'.once ≠ .running j → Pre g body s' j ∨ Post s' j := by
      intro s' hs' ho' j hj
      have hjt : j ≠ t := by intro e; subst e; exact hj ho'
      left
      have := hpre_all j hjt
      simpa [Pre, hs', upd, hjt] using this
    rcases hb.stmts c hcm with rfl | rfl
    · -- MarkStarted
      cases hstd : s.started with
      | true => exact absurd (by simp) (hsw hstd)
      | false =>
        have hstep : step arg s t now = { s with started := true, th := upd s.th t (bs' ++ tail3) } := by
          simp [step, hthr, hstd]
        rw [hstep]
        have hnsw : Stmt.swapStarted ∉ bs' := by
          intro hmem
          have h1 : (Stmt.swapStarted :: bs').count Stmt.swapStarted ≤ body.count Stmt.swapStarted := by
            rw [hpre, List.count_append]; omega
          have h2 : 0 < bs'.count Stmt.swapStarted := List.count_pos_iff.mpr hmem
          have h3 := hb.swaps
          simp at h1
          omega
        have hnh' := hnh { s with started := true, th := upd s.th t (bs' ++ tail3) } rfl
        refine ⟨h.nopanic, ?_, ?_, hothers' _ rfl ho, ?_, ?_, ?_, h.ctr0, ?_, ?_, ?_, ?_, ?_⟩
        · intro h'; simp [ho] at h'
        · intro r' hr'
          have : r' = t := by simp [ho] at hr'; exact hr'.symm
          subst this
          refine ⟨pre ++ [.swapStarted], bs', by simp [hpre], by simp [upd], fun _ => hnsw, ?_⟩
          intro hnw
          exact hwr (by simp [hnw])
        · intro _
          refine ⟨hlog, ?_⟩
          intro j
          by_cases hjt : j = t
          · subst hjt
            apply body_tail_not_post _ j bs'
            simp [upd]
          · have := pre_not_post g body s j (hpre_all j hjt)
            simpa [Post, upd, hjt] using this
        · intro hop
          rcases hop with hd | ⟨hg, _⟩
          · simp [ho] at hd
          · -- flag check in front: the flag goes up last, the clock has been stored
            have hnil : bs' = [] := runner_done_of_open g body hb (pre ++ [.swapStarted]) bs' (by simp [hpre]) hg hnsw
            exact hwr (by simp [hnil])
        · intro a ha; simp [hlog] at ha
        · intro j hj; exact absurd hj (hnh' j)
        · intro j _ _ hj; exact absurd hj (hnh' j)
        · intro a ha; simp [hlog] at ha
        · intro a ha; simp [hlog] at ha
        · simp [hlog]
    · -- s.start = time.Now()
      have hstep : step arg s t now = { s with start := some now, th := upd s.th t (bs' ++ tail3) } := by
        simp [step, hthr]
      rw [hstep]
      have hnh' := hnh { s with start := some now, th := upd s.th t (bs' ++ tail3) } rfl
      refine ⟨h.nopanic, h.idle, ?_, hothers' _ rfl ho, ?_, ?_, ?_, h.ctr0, ?_, ?_, ?_, ?_, ?_⟩
      · intro r' hr'
        have : r' = t := by simp [ho] at hr'; exact hr'.symm
        subst this
        refine ⟨pre ++ [.writeStartNow], bs', by simp [hpre], by simp [upd], ?_, fun _ => ⟨now, hV, rfl⟩⟩
        intro hs' hmem
        exact hsw hs' (by simp [hmem])
      · intro _
        refine ⟨hlog, ?_⟩
        intro j
        by_cases hjt : j = t
        · subst hjt
          apply body_tail_not_post _ j bs'
          simp [upd]
        · have := pre_not_post g body s j (hpre_all j hjt)
          simpa [Post, upd, hjt] using this
      · intro _; exact ⟨now, hV, rfl⟩
      · intro a ha; simp [hlog] at ha
      · intro j hj; exact absurd hj (hnh' j)
      · intro j _ _ hj; exact absurd hj (hnh' j)
      · intro a ha; simp [hlog] at ha
      · intro a ha; simp [hlog] at ha
      · simp [hlog]

include hb in
theorem step_inv (arg : Int) (s : St) (t : Nat) (now : Int) (hV : V now) (h : Inv g body V s) :
    Inv g body V (step arg s t now) := by
  by_cases hrun : s.once = .running t
  · exact runner_step_inv g body V hb arg s t now hV h hrun
  · rcases h.others t hrun with hp | hp
    · have hpa : s.th t = paOf body → Inv g body V (step arg s t now) := by
        intro hth
        cases ho : s.once with
        | done =>
          have hstep : step arg s t now = { s with th := upd s.th t [.incI, .readStartRet] } := by
            simp [step, hth, paOf, ho, tail3]
          rw [hstep]
          exact th_update_inv g body V s t _ h hrun (Or.inr ⟨rfl, Or.inl ho⟩)
        | running r =>
          have hstep : step arg s t now = s := by simp [step, hth, paOf, ho]
          rw [hstep]; exact h
        | idle =>
          have hst := h.idle ho
          have hclosed : ¬ Open g s := by
            intro hop
            rcases hop with hd | ⟨_, hs'⟩
            · rw [ho] at hd; simp at hd
            · rw [hst] at hs'; simp at hs'
          obtain ⟨hlog, hnopost⟩ := h.closed hclosed
          have hpre_all : ∀ j, Pre g body s j := by
            intro j
            rcases h.others j (by rw [ho]; simp) with hq | hq
            · exact hq
            · exact absurd hq (hnopost j)
          have hstep : step arg s t now = { s with once := .running t, th := upd s.th t (body ++ tail3) } := by
            simp [step, hth, paOf, ho]
          rw [hstep]
          have nh : ∀ j, ¬ Held { s with once := Once.running t, th := upd s.th t (body ++ tail3) } j := by
            intro j hj
            simp only [Held, upd] at hj
            split at hj
            · exact body_tail_ne_held _ hj
            · rcases hpre_all j with hq | hq <;> rw [hq] at hj
              · exact progG_ne_held g body hj
              · exact paOf_ne_held body hj
          refine ⟨h.nopanic, ?_, ?_, ?_, ?_, ?_, ?_, h.ctr0, ?_, ?_, ?_, ?_, ?_⟩
          · intro h'; simp at h'
          · intro r hr
            simp only [Once.running.injEq] at hr
            subst hr
            refine ⟨[], body, rfl, by simp [upd], ?_, ?_⟩
            · intro h'; simp [hst] at h'
            · intro h'; exact absurd hb.writes h'
          · intro j hj
            have hjt : j ≠ t := by intro e; subst e; exact hj rfl
            left
            have := hpre_all j
            simpa [Pre, upd, hjt] using this
          · intro _
            refine ⟨hlog, ?_⟩
            intro j
            by_cases hjt : j = t
            · subst hjt
              apply body_tail_not_post _ j body
              simp [upd]
            · have := pre_not_post g body s j (hpre_all j)
              simpa [Post, upd, hjt] using this
          · intro hop
            rcases hop with hd | ⟨_, hs'⟩
            · simp at hd
            · simp [hst] at hs'
          · intro a ha; simp [hlog] at ha
          · intro j hj; exact absurd hj (nh j)
          · intro j _ _ hj; exact absurd hj (nh j)
          · intro a ha; simp [hlog] at ha
          · intro a ha; simp [hlog] at ha
          · simp [hlog]
      rcases hp with hp | hp
      · cases g with
        | false => exact hpa (by simpa [progG] using hp)
        | true =>
          -- the flag check in front of the Once
          have hstep : step arg s t now =
              { s with th := upd s.th t (if s.started then [.incI, .readStartRet] else paOf body) } := by
            simp [step, hp, progG, paOf, tail3]
          rw [hstep]
          cases hst : s.started with
          | true =>
            have := th_update_inv true body V s t [.incI, .readStartRet] h hrun (Or.inr ⟨rfl, Or.inr ⟨rfl, hst⟩⟩)
            simpa [hst] using this
          | false =>
            have := th_update_inv true body V s t (paOf body) h hrun (Or.inl rfl)
            simpa [hst] using this
      · exact hpa hp
    · exact post_step_inv g body V arg s t now h hp

/-- once the Once is done, no step consults the clock, writes `start` or reopens the Once -/
theorem step_done (arg : Int) (s : St) (t : Nat) (now : Int) (h : Inv g body V s) (ho : s.once = .done) :
    (step arg s t now).once = .done ∧ (step arg s t now).start = s.start := by
  rcases h.others t (by rw [ho]; simp) with (hp | hp) | (hp | hp | hp)
  · cases g <;> simp [step, hp, progG, paOf, ho]
  · simp [step, hp, paOf, ho]
  · simp [step, hp, ho]
  · simp [step, hp, ho]
  · simp [step, hp, ho]

include hb in
theorem run_inv (arg : Int) (l : List (Nat × Int)) :
    ∀ (s : St), (∀ x ∈ l, V x.2) → Inv g body V s → Inv g body V (run arg s l) := by
  induction l with
  | nil => intro s _ h; exact h
  | cons x r ih =>
    intro s hV h
    obtain ⟨t, now⟩ := x
    simp only [run]
    exact ih _ (fun y hy => hV y (List.mem_cons_of_mem _ hy))
      (step_inv g body V hb arg s t now (hV (t, now) (List.mem_cons_self ..)) h)

end stepInv

end Pandora.Proofs.C01Conc
