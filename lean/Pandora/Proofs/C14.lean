/-
C14: analyses of `Model.C14.fullScan` / `httpRun` (runFullScan with the chosen-case filter after the decoder and the
no-ammo ending; the preloaded path with the filter before the cyclic replay).  The decoder abstraction `Src`, the
analyses of `LoadAmmo` and of the cyclic replay loop, and the list lemmas are the ones of `Proofs/C08*`.
Core Lean only.
-/
import Pandora.Model.C14
import Pandora.Proofs.C08Run

namespace Pandora.Proofs.C14
open Pandora.Model.C08 hiding fullScan httpRun runFuel run
open Pandora.Model.C14 Pandora.Proofs.C08

variable {α : Type}

/-- what `runFullScan` needs to know about `Decoder.PassNum()` in the decoder state after `q` complete passes and
`r` entries of the current pass (`R q r s`, see Proofs/C08Src) -/
structure PassFacts {σ : Type} (passNum : σ → Nat) (n : Nat) (R : Nat → Nat → σ → Prop) : Prop where
  pos_imp : ∀ q r s, R q r s → 0 < passNum s → 0 < q ∨ r = n
  of_q : ∀ q r s, R q r s → 0 < q → 0 < passNum s

theorem passFacts_stream (n : Nat) : PassFacts (fun d : Dec => d.passNum) n (RStream n) where
  pos_imp := by
    intro q r d ⟨_, h2, _, _⟩ hp
    left; simpa [h2] using hp
  of_q := by
    intro q r d ⟨_, h2, _, _⟩ hq
    simpa [h2] using hq

theorem passFacts_arr (n : Nat) : PassFacts (fun d : ArrDec => d.passNum) n (RArr n) where
  pos_imp := by
    intro q r d ⟨_, _, h3⟩ hp
    by_cases hrn : r = n
    · right; exact hrn
    · left; simp only [h3, if_neg hrn] at hp; exact hp
  of_q := by
    intro q r d ⟨_, _, h3⟩ hq
    simp only [h3]
    split <;> omega

/-! ## something is chosen: `f = (file.filter chosen).length > 0` -/

theorem fullScan_spec {σ : Type} (scan : σ → ScanRes × σ) (passNum : σ → Nat) (R : Nat → Nat → σ → Prop)
    (file : List α) (chosen : α → Bool) (limit passes : Nat) (cancelAt : Option Nat) (T : Nat)
    (hn : 0 < file.length) (hf : 0 < (file.filter chosen).length)
    (src : Src scan file.length passes R) (pf : PassFacts passNum file.length R)
    (tg : Tgt limit passes (file.filter chosen).length cancelAt T) :
    ∀ fuel D q r s out, R q r s → r ≤ file.length → (passes = 0 ∨ q < passes) → out = sel file chosen q r →
      out.length ≤ T → q + D = T / (file.filter chosen).length →
      (D + 1) * (file.length + 1) + 1 ≤ fuel + r →
      fullScan scan passNum file chosen limit cancelAt fuel s out
        = some (cycTake (file.filter chosen) T, endRes cancelAt T) := by
  intro fuel
  induction fuel with
  | zero =>
    intro D q r s out _ hr _ _ _ _ hfuel
    have := succ_mul' D (file.length + 1)
    omega
  | succ fuel ih =>
    intro D q r s out hR hr hq hout hlen hD hfuel
    subst hout
    have hpre := sel_prefix file chosen q r
    have hcyc := eq_cycTake_of_prefix _ _ _ hf hpre
    unfold fullScan
    by_cases hc : cancelled cancelAt (sel file chosen q r).length = true
    · -- cancelled
      obtain ⟨c, hc1, hc2⟩ := (cancelled_true_iff _ _).mp hc
      have hT : (sel file chosen q r).length = T := by have := tg.le_cancel c hc1; omega
      rw [if_pos hc]
      have : endRes cancelAt T = .canceled := by simp [endRes, ← hT, hc]
      rw [this, ← hT, ← hcyc]
    · rw [if_neg hc]
      have hnc : ∀ c, cancelAt = some c → (sel file chosen q r).length < c :=
        (cancelled_false_iff _ _).mp (by simpa using hc)
      by_cases hl : limit ≠ 0 ∧ limit ≤ (sel file chosen q r).length
      · -- the limit is reached
        have hT : (sel file chosen q r).length = T := by have := tg.le_limit hl.1; omega
        rw [if_pos hl]
        have : endRes cancelAt T = .nil := by simp [endRes, ← hT, hc]
        rw [this, ← hT, ← hcyc]
      · rw [if_neg hl]
        -- a complete pass has delivered something: the no-ammo ending does not fire
        have hpn : ¬ ((sel file chosen q r).length = 0 ∧ 0 < passNum s) := by
          intro ⟨h0, hp⟩
          rcases pf.pos_imp q r s hR hp with hq0 | hrn
          · have h1 := sel_len_ge file chosen q r
            have h2 : 1 * (file.filter chosen).length ≤ q * (file.filter chosen).length :=
              Nat.mul_le_mul_right _ hq0
            omega
          · subst hrn
            rw [sel_full, length_rep] at h0
            exact absurd h0 (Nat.ne_of_gt (Nat.mul_pos (Nat.succ_pos q) hf))
        rw [if_neg hpn]
        by_cases hrn : r < file.length
        · -- next entry of the current pass
          obtain ⟨s', hs, hR'⟩ := src.next q r s hR hrn hq
          obtain ⟨a, ha⟩ : ∃ a, file[r]? = some a := ⟨file[r], List.getElem?_eq_getElem hrn⟩
          have hsel := sel_next file chosen q r a ha
          have hlen' : (sel file chosen q (r + 1)).length ≤ T := by
            rcases tg.attained with ⟨h0, hT⟩ | ⟨h0, hT⟩ | hT
            · rw [hsel]; split
              · rw [List.length_append, List.length_singleton]; omega
              · exact hlen
            · have := sel_len_le file chosen q (r + 1)
              have h2 : (q + 1) * (file.filter chosen).length ≤ passes * (file.filter chosen).length :=
                Nat.mul_le_mul_right _ (by omega)
              omega
            · have := hnc T hT
              rw [hsel]; split
              · rw [List.length_append, List.length_singleton]; omega
              · exact hlen
          simp only [hs, ha]
          by_cases hch : chosen a = true
          · rw [if_pos hch] at hsel ⊢
            rw [← hsel]
            exact ih D q (r + 1) s' _ hR' (by omega) hq rfl hlen' hD (by omega)
          · rw [if_neg hch] at hsel ⊢
            rw [← hsel]
            exact ih D q (r + 1) s' _ hR' (by omega) hq rfl hlen' hD (by omega)
        · -- end of file
          have hrn' : r = file.length := by omega
          subst hrn'
          rw [sel_full] at hlen hcyc hnc hl hc ⊢
          have hlenF : (rep (q + 1) (file.filter chosen)).length = (q + 1) * (file.filter chosen).length := length_rep _ _
          have hpos : 0 < (q + 1) * (file.filter chosen).length := Nat.mul_pos (Nat.succ_pos q) hf
          by_cases hp : passes ≠ 0 ∧ passes ≤ q + 1
          · -- last pass done
            obtain ⟨s', hs⟩ := src.stop q s hR hp.1 hp.2
            have hpq : passes = q + 1 := by omega
            have hT : (rep (q + 1) (file.filter chosen)).length = T := by
              have := tg.le_pass hp.1
              rw [hpq] at this
              omega
            simp only [hs]
            rw [if_neg (by omega)]
            have hc' : cancelled cancelAt T = false := by rw [← hT]; simpa using hc
            have : endRes cancelAt T = .nil := by simp [endRes, hc']
            rw [this, ← hT, ← hcyc]
          · -- seek to start, first entry of the next pass
            have hp' : passes = 0 ∨ q + 1 < passes := by omega
            obtain ⟨s', hs, hR'⟩ := src.wrap q s hR hp'
            obtain ⟨a, ha⟩ : ∃ a, file[0]? = some a := ⟨file[0], List.getElem?_eq_getElem hn⟩
            have hsel := sel_next file chosen (q + 1) 0 a ha
            rw [sel_zero] at hsel
            have hq1 : q + 1 ≤ T / (file.filter chosen).length := by
              rw [Nat.le_div_iff_mul_le hf]; omega
            obtain ⟨D', hD'⟩ : ∃ D', D = D' + 1 := ⟨D - 1, by omega⟩
            subst hD'
            have hmul := succ_mul' (D' + 1) (file.length + 1)
            have hlen' : (sel file chosen (q + 1) (0 + 1)).length ≤ T := by
              rcases tg.attained with ⟨h0, hT⟩ | ⟨h0, hT⟩ | hT
              · rw [hsel]; split
                · rw [List.length_append, List.length_singleton]; omega
                · exact hlen
              · have := sel_len_le file chosen (q + 1) (0 + 1)
                have h2 : (q + 1 + 1) * (file.filter chosen).length ≤ passes * (file.filter chosen).length :=
                  Nat.mul_le_mul_right _ (by omega)
                omega
              · have := hnc T hT
                rw [hsel]; split
                · rw [List.length_append, List.length_singleton]; omega
                · exact hlen
            simp only [hs, ha]
            by_cases hch : chosen a = true
            · rw [if_pos hch] at hsel ⊢
              rw [← hsel]
              exact ih D' (q + 1) (0 + 1) s' _ hR' (by omega) hp' rfl hlen' (by omega) (by omega)
            · rw [if_neg hch] at hsel ⊢
              rw [← hsel]
              exact ih D' (q + 1) (0 + 1) s' _ hR' (by omega) hp' rfl hlen' (by omega) (by omega)

/-- `Provider.Run`, both paths, over any decoder that is a `Src`: the same outcome -/
theorem httpRun_spec {σ : Type} (scan : Bounds → σ → ScanRes × σ) (passNum : σ → Nat) (init : σ)
    (R : Nat → Nat → σ → Prop) (file : List α) (chosen : α → Bool) (preload : Bool) (b : Bounds)
    (cancelAt : Option Nat) (T : Nat)
    (hn : 0 < file.length) (hf : 0 < (file.filter chosen).length)
    (src1 : Src (scan ⟨0, 1⟩) file.length 1 R) (srcP : Src (scan ⟨0, b.passes⟩) file.length b.passes R)
    (pf : PassFacts passNum file.length R)
    (hinit : R 0 0 init) (tg : Tgt b.limit b.passes (file.filter chosen).length cancelAt T) :
    httpRun scan passNum init file chosen preload b cancelAt (fuelFor T file.length (file.filter chosen).length)
      = some ⟨cycTake (file.filter chosen) T, endRes cancelAt T, true⟩ := by
  have hfn : (file.filter chosen).length ≤ file.length := List.length_filter_le _ _
  unfold httpRun
  cases preload with
  | true =>
    simp only [if_true]
    have hl := loadAmmo_spec scan R file src1 (fuelFor T file.length (file.filter chosen).length) 0 init hinit
      (by omega) (by have := fuel_ge_n T file.length (file.filter chosen).length; omega)
    rw [List.take_zero] at hl
    rw [hl]
    simp only
    rw [runPreloaded_spec (file.filter chosen) b cancelAt T hf tg _ (fuel_ge_T T _ _ hf hfn)]
    simp only [mapSentinel_preRes]
  | false =>
    simp only [Bool.false_eq_true, if_false]
    have := fullScan_spec (scan ⟨0, b.passes⟩) passNum R file chosen b.limit b.passes cancelAt T hn hf srcP pf tg
      (fuelFor T file.length (file.filter chosen).length) (T / (file.filter chosen).length) 0 0 init []
      hinit (by omega) (by omega) (by simp [sel]) (by simp) (by omega) (by unfold fuelFor; omega)
    rw [this]

/-! ## nothing is chosen: `file.filter chosen = []`, `n > 0` -/

theorem not_chosen_of_filter_nil (file : List α) (chosen : α → Bool) (hf : file.filter chosen = [])
    (r : Nat) (a : α) (h : file[r]? = some a) : chosen a = false := by
  have hmem : a ∈ file := List.mem_of_getElem? h
  have := List.filter_eq_nil_iff.mp hf a hmem
  simpa using this

/-- streaming over a non-empty file from which nothing is chosen: one scan of the file, then ErrNoAmmo -/
theorem fullScan_nomatch {σ : Type} (scan : σ → ScanRes × σ) (passNum : σ → Nat) (R : Nat → Nat → σ → Prop)
    (file : List α) (chosen : α → Bool) (limit passes : Nat) (cancelAt : Option Nat)
    (hn : 0 < file.length) (hf : file.filter chosen = []) (hc0 : cancelled cancelAt 0 = false)
    (src : Src scan file.length passes R) (pf : PassFacts passNum file.length R) :
    ∀ fuel r s, R 0 r s → r ≤ file.length → file.length + 3 ≤ fuel + r →
      fullScan scan passNum file chosen limit cancelAt fuel s [] = some ([], .errNoAmmo) := by
  intro fuel
  induction fuel with
  | zero => intro r s _ hr hfuel; omega
  | succ fuel ih =>
    intro r s hR hr hfuel
    unfold fullScan
    have hlim : ¬ (limit ≠ 0 ∧ limit ≤ ([] : List α).length) := by simp
    simp only [List.length_nil] at hlim ⊢
    rw [hc0]
    simp only [Bool.false_eq_true, if_false]
    rw [if_neg hlim]
    by_cases hp : 0 < passNum s
    · simp [hp]
    · have hp' : ¬ (True ∧ 0 < passNum s) := by simp [hp]
      simp only [true_and] at hp' ⊢
      rw [if_neg hp]
      by_cases hrn : r < file.length
      · obtain ⟨s', hs, hR'⟩ := src.next 0 r s hR hrn (by omega)
        obtain ⟨a, ha⟩ : ∃ a, file[r]? = some a := ⟨file[r], List.getElem?_eq_getElem hrn⟩
        have hch := not_chosen_of_filter_nil file chosen hf r a ha
        simp only [hs, ha, hch, Bool.false_eq_true, if_false]
        exact ih (r + 1) s' hR' (by omega) (by omega)
      · have hrn' : r = file.length := by omega
        subst hrn'
        by_cases hps : passes ≠ 0 ∧ passes ≤ 0 + 1
        · obtain ⟨s', hs⟩ := src.stop 0 s hR hps.1 hps.2
          simp only [hs, if_true]
        · obtain ⟨s', hs, hR'⟩ := src.wrap 0 s hR (by omega)
          obtain ⟨a, ha⟩ : ∃ a, file[0]? = some a := ⟨file[0], List.getElem?_eq_getElem hn⟩
          have hch := not_chosen_of_filter_nil file chosen hf 0 a ha
          simp only [hs, ha, hch, Bool.false_eq_true, if_false]
          obtain ⟨fuel', rfl⟩ : ∃ f', fuel = f' + 1 := ⟨fuel - 1, by omega⟩
          unfold fullScan
          have hpq := pf.of_q (0 + 1) 1 s' hR' (by omega)
          simp only [List.length_nil]
          rw [hc0]
          simp only [Bool.false_eq_true, if_false]
          rw [if_neg hlim]
          simp [hpq]

theorem httpRun_nomatch {σ : Type} (scan : Bounds → σ → ScanRes × σ) (passNum : σ → Nat) (init : σ)
    (R : Nat → Nat → σ → Prop) (file : List α) (chosen : α → Bool) (preload : Bool) (b : Bounds)
    (cancelAt : Option Nat)
    (hn : 0 < file.length) (hf : file.filter chosen = []) (hc0 : cancelled cancelAt 0 = false)
    (src1 : Src (scan ⟨0, 1⟩) file.length 1 R) (srcP : Src (scan ⟨0, b.passes⟩) file.length b.passes R)
    (pf : PassFacts passNum file.length R) (hinit : R 0 0 init) :
    httpRun scan passNum init file chosen preload b cancelAt (fuelNoMatch file.length)
      = some ⟨[], .errNoAmmo, true⟩ := by
  unfold httpRun fuelNoMatch
  cases preload with
  | true =>
    simp only [if_true]
    have hl := loadAmmo_spec scan R file src1 (file.length + 3) 0 init hinit (by omega) (by omega)
    rw [List.take_zero] at hl
    rw [hl]
    simp only [hf]
    simp [runPreloaded, mapSentinel]
  | false =>
    simp only [Bool.false_eq_true, if_false]
    rw [fullScan_nomatch (scan ⟨0, b.passes⟩) passNum R file chosen b.limit b.passes cancelAt hn hf hc0 srcP pf
      (file.length + 3) 0 init hinit (by omega) (by omega)]

/-! ## all formats -/

theorem cancelled_zero (cancelAt : Option Nat) (h : cancelAt ≠ some 0) : cancelled cancelAt 0 = false := by
  cases cancelAt with
  | none => rfl
  | some c =>
    have : c ≠ 0 := fun hc => h (by rw [hc])
    simp [cancelled]; omega

theorem loadSeesCancel_false (k : Fmt) (preload : Bool) (cancelAt : Option Nat) (hc0 : cancelled cancelAt 0 = false) :
    loadSeesCancel k preload cancelAt = false := by simp [loadSeesCancel, hc0]

/-- a context cancelled before Run stops the run at count 0 -/
theorem T_zero_of_loadSeesCancel (k : Fmt) (preload : Bool) (cancelAt : Option Nat) (T : Nat) {l p f : Nat}
    (hpc : loadSeesCancel k preload cancelAt = true) (tg : Tgt l p f cancelAt T) : T = 0 := by
  have hc : cancelled cancelAt 0 = true := by
    unfold loadSeesCancel at hpc; simp only [Bool.and_eq_true] at hpc; exact hpc.2
  obtain ⟨c, hc1, hc2⟩ := (cancelled_true_iff _ _).mp hc
  have := tg.le_cancel c hc1
  omega

/-- something is chosen: with the fuel of `Model.C14.runWith` the provider ends in both modes, having delivered
exactly the first `T` chosen entries of the endlessly repeated file, with a closed sink -/
theorem runFuel_spec (k : Fmt) (preload : Bool) (file : List α) (chosen : α → Bool) (b : Bounds)
    (cancelAt : Option Nat) (T : Nat) (hf : 0 < (file.filter chosen).length)
    (tg : Tgt b.limit b.passes (file.filter chosen).length cancelAt T) :
    runFuel k preload file chosen b cancelAt (fuelFor T file.length (file.filter chosen).length)
      = some ⟨cycTake (file.filter chosen) T, endRes cancelAt T, true⟩ := by
  have hn : 0 < file.length := Nat.lt_of_lt_of_le hf (List.length_filter_le _ _)
  unfold runFuel
  by_cases hpc : loadSeesCancel k preload cancelAt = true
  · -- the context is cancelled before Run: T = 0, nothing is loaded
    rw [if_pos hpc]
    have hT := T_zero_of_loadSeesCancel k preload cancelAt T hpc tg
    subst hT
    have hc : cancelled cancelAt 0 = true := by
      unfold loadSeesCancel at hpc; simp only [Bool.and_eq_true] at hpc; exact hpc.2
    simp [cycTake_zero, endRes, hc]
  rw [if_neg hpc]
  cases k with
  | uri | uripost | raw =>
    exact httpRun_spec _ _ _ (RStream file.length) file chosen _ _ _ T hn hf (src_eofCheck _ _ hn) (src_eofCheck _ _ hn)
      (passFacts_stream _) (RStream_init _) tg
  | jsonLines =>
    exact httpRun_spec _ _ _ (RStream file.length) file chosen _ _ _ T hn hf (src_topCheck _ _ hn) (src_topCheck _ _ hn)
      (passFacts_stream _) (RStream_init _) tg
  | jsonArray =>
    exact httpRun_spec _ _ _ (RArr file.length) file chosen _ _ _ T hn hf (src_arr _ _ hn) (src_arr _ _ hn)
      (passFacts_arr _) (RArr_init _ hn) tg

/-- an empty file: ErrNoAmmo in both modes, for every format -/
theorem runFuel_empty (k : Fmt) (preload : Bool) (chosen : α → Bool) (b : Bounds) (cancelAt : Option Nat)
    (hc0 : cancelled cancelAt 0 = false) :
    runFuel k preload ([] : List α) chosen b cancelAt (fuelNoMatch 0) = some ⟨[], .errNoAmmo, true⟩ := by
  by_cases hp : ¬ b.passes = 0 ∧ b.passes ≤ 1 <;>
  cases k <;> cases preload <;>
    simp [runFuel, loadSeesCancel, httpRun, fuelNoMatch, fullScan, loadAmmo, runPreloaded, scanStream, scanLoop, scanArr,
      Dec.init, ArrDec.init, hc0, mapSentinel, hp]

/-- nothing is chosen (or the file is empty): nothing is delivered and `Run` returns ErrNoAmmo, in both modes -/
theorem runFuel_nomatch (k : Fmt) (preload : Bool) (file : List α) (chosen : α → Bool) (b : Bounds)
    (cancelAt : Option Nat) (hf : (file.filter chosen).length = 0) (hc : cancelAt ≠ some 0) :
    runFuel k preload file chosen b cancelAt (fuelNoMatch file.length) = some ⟨[], .errNoAmmo, true⟩ := by
  have hc0 := cancelled_zero cancelAt hc
  have hf' : file.filter chosen = [] := List.eq_nil_of_length_eq_zero hf
  by_cases hn : 0 < file.length
  · unfold runFuel
    rw [loadSeesCancel_false k preload cancelAt hc0]
    simp only [Bool.false_eq_true, if_false]
    cases k with
    | uri | uripost | raw =>
      exact httpRun_nomatch _ _ _ (RStream file.length) file chosen _ _ _ hn hf' hc0 (src_eofCheck _ _ hn)
        (src_eofCheck _ _ hn) (passFacts_stream _) (RStream_init _)
    | jsonLines =>
      exact httpRun_nomatch _ _ _ (RStream file.length) file chosen _ _ _ hn hf' hc0 (src_topCheck _ _ hn)
        (src_topCheck _ _ hn) (passFacts_stream _) (RStream_init _)
    | jsonArray =>
      exact httpRun_nomatch _ _ _ (RArr file.length) file chosen _ _ _ hn hf' hc0 (src_arr _ _ hn)
        (src_arr _ _ hn) (passFacts_arr _) (RArr_init _ hn)
  · have : file = [] := List.eq_nil_of_length_eq_zero (by omega)
    subst this
    exact runFuel_empty k preload chosen b cancelAt hc0

end Pandora.Proofs.C14
