/-
C07 — the raw scanner finds exactly the frames of every rendered file.
-/
import Pandora.Proofs.C07Uripost

namespace Pandora.Proofs.C07
open Pandora.Model.C07 Pandora.Spec.C07

/-- what `rawDecoder.Scan` does with the trimmed size line `data`, the rest of the file being `R` -/
def rawBlock (data R : Bytes) : List RawAmmo × Stop :=
  match data with
  | [] => rawPass R
  | c :: d =>
    match rawDecodeHeader (c :: d) with
    | none => ([], .err .rawsize)
    | some (n, tag) =>
      if n < 0 then ([], .err .negsize)
      else if n = 0 then
        let q := rawPass R
        ({ frame := [], tag := [] } :: q.1, q.2)
      else if R.length < n.toNat then ([], .err .shortread)
      else
        let q := rawPass (R.drop n.toNat)
        ({ frame := R.take n.toNat, tag := tag } :: q.1, q.2)

theorem rawPass_nil : rawPass [] = ([], .eof) := by unfold rawPass; rw [rawPassF]

theorem rawPass_line (line R : Bytes) (hline : LF ∉ line) :
    rawPass (line ++ LF :: R) = rawBlock (trimSpace (line ++ [LF])) R := by
  have hc := cut_append_sep LF line R hline
  cases hb : line ++ LF :: R with
  | nil => simp at hb
  | cons b r =>
    unfold rawPass
    rw [rawPassF]
    rw [hb] at hc
    simp only [hc]
    simp only [Bool.not_true, Bool.false_and, Bool.false_eq_true, if_false, if_true]
    unfold rawBlock
    rfl

/-- a last line that lacks its newline is read like every other line (ReadString returns it together with io.EOF;
/repo dbbf16d) -/
theorem rawPass_lastline' (line : Bytes) (hline : LF ∉ line) (hne : line ≠ []) :
    rawPass line = rawBlock (trimSpace line) [] := by
  have hc := cut_no_sep LF line hline
  cases hb : line with
  | nil => exact absurd hb hne
  | cons b r =>
    unfold rawPass
    rw [rawPassF]
    rw [hb] at hc
    simp only [hc]
    simp only [Bool.not_true, Bool.and_false, Bool.false_eq_true, if_false]
    unfold rawBlock
    rfl

/-- blanks after the last newline are one more blank line -/
theorem rawPass_lastline (line : Bytes) (hline : LF ∉ line) (hws : allWs line) : rawPass line = ([], .eof) := by
  by_cases hne : line = []
  · subst hne; exact rawPass_nil
  · rw [rawPass_lastline' line hline hne, trimSpace_allWs _ hws]
    exact rawPass_nil

theorem rawPass_blanks (blanks : List Bytes) (X : Bytes) (hb : blanks.all padOK = true) :
    rawPass (renderBlanks blanks ++ X) = rawPass X := by
  induction blanks with
  | nil => rfl
  | cons p r ih =>
    simp only [List.all_cons, Bool.and_eq_true] at hb
    have hshape : renderBlanks (p :: r) ++ X = p ++ LF :: (renderBlanks r ++ X) := by simp [renderBlanks]
    rw [hshape, rawPass_line p _ (padOK_noLF hb.1),
      trimSpace_allWs _ (allWs_append (padOK_allWs hb.1) allWs_LF)]
    exact ih hb.2

theorem content_raw_frame (t fr : Bytes) (l : ItemLay) :
    content .raw (.frame t fr) l = sizeText l fr.length ++ tagPart t := by
  simp [content, tagPart]

theorem frameContent_props (sz : Bytes) (n : Nat) (t : Bytes) (hs : SizeTok sz n) (ht : tagOK t = true) :
    let c := sz ++ tagPart t
    LF ∉ c ∧ spWidth c = 0 ∧ spWidthRev c.reverse = 0 ∧ ∃ x r, c = x :: r := by
  intro c
  obtain ⟨x, r, hx, hx1, hx2, _⟩ := hs.head
  obtain ⟨htLF, htrev⟩ := tagOK_props ht
  refine ⟨?_, ?_, rev_edge_tagPart _ t hs.revEdge htrev, x, r ++ tagPart t, by simp [c, hx]⟩
  · simp only [c, List.mem_append, not_or]
    exact ⟨hs.noLF, tagPart_noLF htLF⟩
  · simp only [c, hx, List.cons_append]
    exact spWidth_ascii x _ hx1 hx2

theorem rawBlock_frame (sz t fr X : Bytes) (hs : SizeTok sz fr.length) (ht : tagOK t = true) (hne : fr ≠ []) :
    rawBlock (sz ++ tagPart t) (fr ++ X) =
      ({ frame := fr, tag := t } :: (rawPass X).1, (rawPass X).2) := by
  obtain ⟨_, _, _, x, r, hxr⟩ := frameContent_props sz fr.length t hs ht
  have hcut := cut_tagPart sz t hs.noSP
  have hd : rawDecodeHeader (sz ++ tagPart t) = some ((fr.length : Int), t) := by
    unfold rawDecodeHeader
    simp only [hcut.1, hcut.2, hs.val]
  rw [hxr] at hd ⊢
  unfold rawBlock
  simp only [hd]
  have hpos : 0 < fr.length := List.length_pos_iff.mpr hne
  have h1 : ¬ ((fr.length : Int) < 0) := by omega
  have h3 : ¬ (fr.length + X.length < fr.length) := by omega
  simp [h1, h3, hne]

/-! ### the whole file -/

theorem rawPass_renderItems (fnl : Bool) (trail : Bytes) (htrail : padOK trail = true) :
    ∀ (items : List Item) (per : List ItemLay),
      itemsOK .raw items = true → per.all itemLayOK = true →
      rawPass (renderItems .raw fnl trail items per) = (expFrames items, .eof)
  | [], per, _, _ => by
    simp only [renderItems]
    exact rawPass_lastline trail (padOK_noLF htrail) (padOK_allWs htrail)
  | [it], per, hi, hp => by
    have hit : itemOK .raw it = true := by simpa [itemsOK] using hi
    have hl : itemLayOK (per.headD ({} : ItemLay)) = true := by
      cases per with
      | nil => rfl
      | cons a r => simp only [List.all_cons, Bool.and_eq_true] at hp; exact hp.1
    cases it with
    | hdr k v => simp [itemOK] at hit
    | req u t b => simp [itemOK] at hit
    | frame t fr =>
      simp only [itemOK, Bool.and_eq_true, beq_self_eq_true, true_and, Bool.not_eq_true', List.isEmpty_eq_false_iff] at hit
      obtain ⟨⟨ht, hne⟩, hn⟩ := hit
      simp only [itemLayOK, Bool.and_eq_true] at hl
      obtain ⟨⟨⟨⟨⟨⟨hpre, hpost⟩, _⟩, _⟩, _⟩, _⟩, hlb⟩ := hl
      have hs := sizeText_tok (per.headD ({} : ItemLay)) fr.length hn
      obtain ⟨hLF, hf, hr, _⟩ := frameContent_props _ fr.length t hs ht
      have hline : LF ∉ (per.headD ({} : ItemLay)).pre ++ (sizeText (per.headD ({} : ItemLay)) fr.length ++ tagPart t) ++ (per.headD ({} : ItemLay)).post := by
        simp only [List.mem_append, not_or] at hLF ⊢
        exact ⟨⟨padOK_noLF hpre, hLF.1, hLF.2⟩, padOK_noLF hpost⟩
      have htrim := trimSpace_pad _ _ ((per.headD ({} : ItemLay)).post ++ [LF]) (padOK_allWs hpre)
        (allWs_append (padOK_allWs hpost) allWs_LF) hf hr
      have hpe : fr.isEmpty = false := by simp [hne]
      simp only [renderItems, content_raw_frame, payload, hpe, Bool.false_eq_true, if_false]
      cases fnl with
      | true =>
        simp only [if_true]
        rw [rawPass_line _ _ hline, List.append_assoc _ _ [LF], htrim, List.append_assoc,
          rawBlock_frame _ t fr _ hs ht hne, rawPass_blanks _ _ hlb, rawPass_lastline trail (padOK_noLF htrail) (padOK_allWs htrail)]
        rfl
      | false =>
        simp only [Bool.false_eq_true, if_false]
        rw [rawPass_line _ _ hline, List.append_assoc _ _ [LF], htrim]
        have hb := rawBlock_frame _ t fr [] hs ht hne
        rw [List.append_nil] at hb
        rw [hb, rawPass_nil]
        rfl
  | it :: it2 :: rest, per, hi, hp => by
    have hit : itemOK .raw it = true := by
      simp only [itemsOK, List.all_cons, Bool.and_eq_true] at hi; exact hi.1
    have hi' : itemsOK .raw (it2 :: rest) = true := by
      simp only [itemsOK, List.all_cons, Bool.and_eq_true] at hi ⊢; exact hi.2
    have hl : itemLayOK (per.headD ({} : ItemLay)) = true := by
      cases per with
      | nil => rfl
      | cons a r => simp only [List.all_cons, Bool.and_eq_true] at hp; exact hp.1
    have hp' : per.tail.all itemLayOK = true := by
      cases per with
      | nil => rfl
      | cons a r => simp only [List.all_cons, Bool.and_eq_true] at hp; exact hp.2
    cases it with
    | hdr k v => simp [itemOK] at hit
    | req u t b => simp [itemOK] at hit
    | frame t fr =>
      simp only [itemOK, Bool.and_eq_true, beq_self_eq_true, true_and, Bool.not_eq_true', List.isEmpty_eq_false_iff] at hit
      obtain ⟨⟨ht, hne⟩, hn⟩ := hit
      simp only [itemLayOK, Bool.and_eq_true] at hl
      obtain ⟨⟨⟨⟨⟨⟨hpre, hpost⟩, _⟩, _⟩, _⟩, _⟩, hlb⟩ := hl
      have hs := sizeText_tok (per.headD ({} : ItemLay)) fr.length hn
      obtain ⟨hLF, hf, hr, _⟩ := frameContent_props _ fr.length t hs ht
      have hline : LF ∉ (per.headD ({} : ItemLay)).pre ++ (sizeText (per.headD ({} : ItemLay)) fr.length ++ tagPart t) ++ (per.headD ({} : ItemLay)).post := by
        simp only [List.mem_append, not_or] at hLF ⊢
        exact ⟨⟨padOK_noLF hpre, hLF.1, hLF.2⟩, padOK_noLF hpost⟩
      have htrim := trimSpace_pad _ _ ((per.headD ({} : ItemLay)).post ++ [LF]) (padOK_allWs hpre)
        (allWs_append (padOK_allWs hpost) allWs_LF) hf hr
      simp only [renderItems, content_raw_frame, payload]
      rw [rawPass_line _ _ hline, List.append_assoc _ _ [LF], htrim, List.append_assoc,
        rawBlock_frame _ t fr _ hs ht hne, rawPass_blanks _ _ hlb,
        rawPass_renderItems fnl trail htrail (it2 :: rest) per.tail hi' hp']
      rfl

end Pandora.Proofs.C07
