/-
C06 helper lemmas: the atomic drop counter counts every dropped sample (Model/C06DropCount.lean).
-/
import Pandora.Model.C06DropCount

namespace Pandora.Proofs.C06DropCount
open Pandora.Model.C06DropCount

/-- the counter is the number of completed `dropSample` calls; exactly the first of them saw `dropped == 1` -/
def CInv (st : St) : Prop := st.c = st.done ∧ st.first = (if st.done = 0 then 0 else 1)

theorem cinv_init : CInv {} := ⟨rfl, rfl⟩

theorem inc_step (st : St) (h : CInv st) (t : Nat) : CInv (step .inc st t) := by
  obtain ⟨h1, h2⟩ := h
  simp only [step, CInv]
  refine ⟨by omega, ?_⟩
  rw [h2, h1]
  by_cases hd : st.done = 0 <;> simp [hd]

theorem inc_run (sched : List Nat) (st : St) (h : CInv st) :
    CInv (run .inc st sched) ∧ (run .inc st sched).done = st.done + sched.length := by
  induction sched generalizing st with
  | nil => exact ⟨h, rfl⟩
  | cons t ts ih =>
    have := ih (step .inc st t) (inc_step st h t)
    refine ⟨this.1, ?_⟩
    show (run .inc (step .inc st t) ts).done = _
    rw [this.2]; simp [step]; omega

end Pandora.Proofs.C06DropCount
