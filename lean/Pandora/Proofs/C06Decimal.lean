/-
C06 helper lemmas: decimal printing / parsing of Nat and Int, byte-level splitting. Core only.
-/
import Pandora.Model.C06Phout

namespace Pandora.Proofs.C06
open Pandora.Model.Phout

/-! ## digits -/

theorem digitByte_toNat {d : Nat} (h : d < 10) : (digitByte d).toNat = 48 + d := by
  unfold digitByte
  rw [UInt8.toNat_ofNat']
  omega

def IsDigit (b : UInt8) : Prop := 48 ≤ b.toNat ∧ b.toNat ≤ 57

instance (b : UInt8) : Decidable (IsDigit b) := by unfold IsDigit; infer_instance

theorem isDigit_digitByte {d : Nat} (h : d < 10) : IsDigit (digitByte d) := by
  unfold IsDigit; rw [digitByte_toNat h]; omega

theorem digitVal_digitByte {d : Nat} (h : d < 10) : digitVal (digitByte d) = some d := by
  unfold digitVal
  rw [digitByte_toNat h]
  have : 48 ≤ 48 + d ∧ 48 + d ≤ 57 := by omega
  simp [this]

theorem natDigits_lt {n : Nat} (h : n < 10) : natDigits n = [digitByte n] := by
  rw [natDigits]; simp [h]

theorem natDigits_ge {n : Nat} (h : 10 ≤ n) :
    natDigits n = natDigits (n / 10) ++ [digitByte (n % 10)] := by
  rw [natDigits]
  have : ¬ n < 10 := by omega
  simp [this]

theorem natDigits_ne_nil (n : Nat) : natDigits n ≠ [] := by
  by_cases h : n < 10
  · rw [natDigits_lt h]; simp
  · rw [natDigits_ge (by omega)]; simp

theorem natDigits_isDigit (n : Nat) : ∀ b ∈ natDigits n, IsDigit b := by
  induction n using Nat.strongRecOn with
  | _ n ih =>
    by_cases h : n < 10
    · rw [natDigits_lt h]
      intro b hb
      simp at hb
      subst hb
      exact isDigit_digitByte h
    · rw [natDigits_ge (by omega)]
      intro b hb
      simp at hb
      rcases hb with hb | hb
      · exact ih (n / 10) (by omega) b hb
      · subst hb; exact isDigit_digitByte (by omega)

/-- `n ≥ 1000`: the decimal text is the text of the seconds followed by three millisecond digits -/
theorem natDigits_split3 {n : Nat} (h : 1000 ≤ n) :
    natDigits n = natDigits (n / 1000) ++ pad3 (n % 1000) := by
  rw [natDigits_ge (by omega), natDigits_ge (n := n / 10) (by omega),
      natDigits_ge (n := n / 10 / 10) (by omega)]
  have e1 : n / 10 / 10 / 10 = n / 1000 := by omega
  have e2 : n / 10 / 10 % 10 = n % 1000 / 100 := by omega
  have e3 : n / 10 % 10 = n % 1000 / 10 % 10 := by omega
  have e4 : n % 10 = n % 1000 % 10 := by omega
  rw [e1, e2, e3, e4]
  simp [pad3]

theorem natDigits_length_ge3 {n : Nat} (h : 100 ≤ n) : 3 ≤ (natDigits n).length := by
  rw [natDigits_ge (by omega), natDigits_ge (n := n / 10) (by omega)]
  have := natDigits_ne_nil (n / 10 / 10)
  have : 0 < (natDigits (n / 10 / 10)).length := List.length_pos_iff.mpr this
  simp; omega

theorem natDigits_length_lt100 {n : Nat} (h : n < 100) : (natDigits n).length < 3 := by
  by_cases h1 : n < 10
  · rw [natDigits_lt h1]; simp
  · rw [natDigits_ge (by omega), natDigits_lt (n := n / 10) (by omega)]; simp

theorem natDigits_length_100_999 {n : Nat} (h : 100 ≤ n) (h2 : n < 1000) : (natDigits n).length = 3 := by
  rw [natDigits_ge (by omega), natDigits_ge (n := n / 10) (by omega), natDigits_lt (n := n/10/10) (by omega)]
  simp

theorem pad3_length (k : Nat) : (pad3 k).length = 3 := by simp [pad3]

theorem pad3_isDigit {k : Nat} (h : k < 1000) : ∀ b ∈ pad3 k, IsDigit b := by
  intro b hb
  simp [pad3] at hb
  rcases hb with hb | hb | hb <;> subst hb <;> apply isDigit_digitByte <;> omega

/-! ## parsing back -/

theorem parseNatAcc_append (acc : Nat) (a b : Bytes) :
    parseNatAcc acc (a ++ b) = (parseNatAcc acc a).bind (fun x => parseNatAcc x b) := by
  induction a generalizing acc with
  | nil => simp [parseNatAcc]
  | cons c r ih =>
    simp only [List.cons_append, parseNatAcc]
    cases digitVal c with
    | none => simp
    | some d => simp [ih]

theorem parseNatAcc_natDigits (n : Nat) : parseNatAcc 0 (natDigits n) = some n := by
  induction n using Nat.strongRecOn with
  | _ n ih =>
    by_cases h : n < 10
    · rw [natDigits_lt h]
      simp [parseNatAcc, digitVal_digitByte h]
    · rw [natDigits_ge (by omega), parseNatAcc_append, ih (n / 10) (by omega)]
      simp [parseNatAcc, digitVal_digitByte (show n % 10 < 10 by omega)]
      omega

theorem parseNat_of_ne_nil {l : Bytes} (h : l ≠ []) : parseNat l = parseNatAcc 0 l := by
  cases l with
  | nil => exact absurd rfl h
  | cons _ _ => rfl

theorem parseNat_natDigits (n : Nat) : parseNat (natDigits n) = some n := by
  rw [parseNat_of_ne_nil (natDigits_ne_nil n), parseNatAcc_natDigits]

theorem parseNat_pad3 {k : Nat} (h : k < 1000) : parseNat (pad3 k) = some k := by
  simp [pad3, parseNat, parseNatAcc, digitVal_digitByte (show k / 100 < 10 by omega),
    digitVal_digitByte (show k / 10 % 10 < 10 by omega), digitVal_digitByte (show k % 10 < 10 by omega)]
  omega

theorem minus_not_digit : ¬ IsDigit MINUS := by decide

theorem head_natDigits_ne_minus (n : Nat) : ∀ b r, natDigits n = b :: r → b ≠ MINUS := by
  intro b r h hb
  have := natDigits_isDigit n b (by rw [h]; simp)
  rw [hb] at this
  exact minus_not_digit this

theorem parseInt_intBytes (i : Int) : parseInt (intBytes i) = some i := by
  unfold intBytes
  by_cases h : i < 0
  · simp only [h, if_true, parseInt, parseNat_natDigits]
    simp
    omega
  · simp only [h, if_false]
    cases hd : natDigits i.toNat with
    | nil => exact absurd hd (natDigits_ne_nil _)
    | cons b r =>
      have hb := head_natDigits_ne_minus _ b r hd
      simp only [parseInt, hb, if_false]
      rw [← hd, parseNat_natDigits]
      simp
      omega

/-- bytes of a printed integer: digits or the minus sign -/
theorem intBytes_chars (i : Int) : ∀ b ∈ intBytes i, IsDigit b ∨ b = MINUS := by
  intro b hb
  unfold intBytes at hb
  by_cases h : i < 0
  · simp only [h, if_true, List.mem_cons] at hb
    rcases hb with hb | hb
    · exact Or.inr hb
    · exact Or.inl (natDigits_isDigit _ b hb)
  · simp only [h, if_false] at hb
    exact Or.inl (natDigits_isDigit _ b hb)

theorem not_mem_of_chars {l : Bytes} {c : UInt8} (hl : ∀ b ∈ l, IsDigit b ∨ b = MINUS)
    (h1 : ¬ IsDigit c) (h2 : c ≠ MINUS) : c ∉ l := by
  intro hc
  rcases hl c hc with h | h
  · exact h1 h
  · exact h2 h

theorem tab_notin_intBytes (i : Int) : TAB ∉ intBytes i :=
  not_mem_of_chars (intBytes_chars i) (by decide) (by decide)
theorem lf_notin_intBytes (i : Int) : LF ∉ intBytes i :=
  not_mem_of_chars (intBytes_chars i) (by decide) (by decide)
theorem hash_notin_intBytes (i : Int) : HASH ∉ intBytes i :=
  not_mem_of_chars (intBytes_chars i) (by decide) (by decide)
theorem dot_notin_intBytes (i : Int) : DOT ∉ intBytes i :=
  not_mem_of_chars (intBytes_chars i) (by decide) (by decide)

theorem notin_of_digits {l : Bytes} {c : UInt8} (hl : ∀ b ∈ l, IsDigit b) (h1 : ¬ IsDigit c) : c ∉ l :=
  fun hc => h1 (hl c hc)

/-! ## splitting -/

theorem splitOn_ne_nil (sep : UInt8) (l : Bytes) : splitOn sep l ≠ [] := by
  cases l with
  | nil => simp [splitOn]
  | cons b r =>
    simp only [splitOn]
    split
    · simp
    · split <;> simp

theorem splitOn_nosep {sep : UInt8} {a : Bytes} (h : sep ∉ a) : splitOn sep a = [a] := by
  induction a with
  | nil => rfl
  | cons b r ih =>
    have hb : b ≠ sep := fun e => h (by simp [e])
    have hr : sep ∉ r := fun e => h (by simp [e])
    simp [splitOn, hb, ih hr]

theorem splitOn_append_sep {sep : UInt8} {a : Bytes} (r : Bytes) (h : sep ∉ a) :
    splitOn sep (a ++ sep :: r) = a :: splitOn sep r := by
  induction a with
  | nil => simp [splitOn]
  | cons b t ih =>
    have hb : b ≠ sep := fun e => h (by simp [e])
    have ht : sep ∉ t := fun e => h (by simp [e])
    simp [splitOn, hb, ih ht]

/-- a sep-free head followed by sep-prefixed sep-free tokens splits into exactly those pieces -/
theorem splitOn_tokens {sep : UInt8} (a : Bytes) (toks : List Bytes) (ha : sep ∉ a)
    (ht : ∀ t ∈ toks, sep ∉ t) :
    splitOn sep (a ++ toks.flatMap (fun t => sep :: t)) = a :: toks := by
  induction toks generalizing a with
  | nil => simp [splitOn_nosep ha]
  | cons t ts ih =>
    simp only [List.flatMap_cons, List.cons_append]
    rw [splitOn_append_sep _ ha]
    rw [ih t (ht t (by simp)) (fun x hx => ht x (by simp [hx]))]

/-- sep-free pieces each followed by sep split into the pieces plus a final empty piece -/
theorem splitOn_terminated {sep : UInt8} (toks : List Bytes) (ht : ∀ t ∈ toks, sep ∉ t) :
    splitOn sep (toks.flatMap (fun t => t ++ [sep])) = toks ++ [[]] := by
  induction toks with
  | nil => simp [splitOn]
  | cons t ts ih =>
    simp only [List.flatMap_cons, List.append_assoc, List.cons_append]
    rw [splitOn_append_sep _ (ht t (by simp))]
    simp only [List.nil_append]
    rw [ih (fun x hx => ht x (by simp [hx]))]

theorem splitLast_nosep {sep : UInt8} {y : Bytes} (h : sep ∉ y) : splitLast sep y = none := by
  induction y with
  | nil => rfl
  | cons b r ih =>
    have hb : b ≠ sep := fun e => h (by simp [e])
    have hr : sep ∉ r := fun e => h (by simp [e])
    simp [splitLast, ih hr, hb]

theorem splitLast_append {sep : UInt8} (x : Bytes) {y : Bytes} (h : sep ∉ y) :
    splitLast sep (x ++ sep :: y) = some (x, y) := by
  induction x with
  | nil => simp [splitLast, splitLast_nosep h]
  | cons b t ih => simp [splitLast, ih]

end Pandora.Proofs.C06
