/-
C06 helper lemmas: a channel with blocking sends loses no result (Model/C06ResChan.lean).
-/
import Pandora.Model.C06ResChan

namespace Pandora.Proofs.C06ResChan
open Pandora.Model.C06ResChan

def CInv (st : St) : Prop :=
  st.received + st.buffered + st.blocked + st.lost = st.sent ∧ st.buffered ≤ st.cap ∧
  (st.blocked > 0 → st.buffered = st.cap)

theorem cinv_init (cap : Nat) : CInv { cap := cap } := by simp [CInv]

theorem cinv_step (b : Bool) {st : St} (h : CInv st) (e : Ev) : CInv (step b st e) := by
  obtain ⟨h1, h2, h3⟩ := h
  cases e with
  | send =>
    simp only [step]
    split
    · refine ⟨by simp; omega, by simp; omega, ?_⟩
      intro hb; simp at hb; have := h3 hb; omega
    · cases b
      · refine ⟨by simp; omega, by simpa using h2, ?_⟩
        intro hb; simp at hb; simpa using h3 hb
      · refine ⟨by simp; omega, by simpa using h2, ?_⟩
        intro _; simp; omega
  | recv =>
    simp only [step]
    split
    · split
      · refine ⟨by simp; omega, by simpa using h2, ?_⟩
        intro hb; simp at hb; simp; exact h3 (by omega)
      · refine ⟨by simp; omega, by simp; omega, ?_⟩
        intro hb; simp at hb; omega
    · split
      · refine ⟨by simp; omega, by simpa using h2, ?_⟩
        intro hb; simp at hb; simp; exact h3 (by omega)
      · exact ⟨h1, h2, h3⟩

theorem cinv_run (b : Bool) (tr : List Ev) {st : St} (h : CInv st) : CInv (run b st tr) := by
  induction tr generalizing st with
  | nil => exact h
  | cons e es ih => exact ih (cinv_step b h e)

theorem cap_step (b : Bool) (st : St) (e : Ev) : (step b st e).cap = st.cap := by
  cases e <;> simp only [step] <;> (repeat' split) <;> rfl

theorem lost_step_blocking (st : St) (e : Ev) : (step true st e).lost = st.lost := by
  cases e <;> simp only [step] <;> (repeat' split) <;> first | rfl | simp_all

theorem lost_run_blocking (tr : List Ev) (st : St) : (run true st tr).lost = st.lost := by
  induction tr generalizing st with
  | nil => rfl
  | cons e es ih => simp only [run]; rw [ih, lost_step_blocking]

/-- `cap + 1` sends without a receive: the last one finds the buffer full -/
theorem sends_fill (b : Bool) (n : Nat) (st : St) (h : st.buffered + n ≤ st.cap) :
    (run b st (List.replicate n .send)).buffered = st.buffered + n ∧
    (run b st (List.replicate n .send)).lost = st.lost ∧ (run b st (List.replicate n .send)).cap = st.cap := by
  induction n generalizing st with
  | zero => exact ⟨rfl, rfl, rfl⟩
  | succ n ih =>
    simp only [List.replicate, run]
    have hlt : st.buffered < st.cap := by omega
    have hs : step b st .send = { st with buffered := st.buffered + 1, sent := st.sent + 1 } := by
      simp [step, hlt]
    rw [hs]
    have := ih { st with buffered := st.buffered + 1, sent := st.sent + 1 } (by simp; omega)
    simp at this
    refine ⟨by rw [this.1]; omega, this.2.1, this.2.2⟩

end Pandora.Proofs.C06ResChan
