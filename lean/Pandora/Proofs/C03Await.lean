/-
C03 — proofs about the pool's bookkeeping `awaitRun` (`Pandora.Model.C03Await`): an invariant of every run (results
in any order, any number of them), and termination with everything awaited for every complete set of results.
-/
import Pandora.Model.C03Await

namespace Pandora.Proofs.C03Await
open Pandora.Model.C03Await

def b2n (b : Bool) : Nat := if b then 1 else 0

/-- holds in every state `awaitRun` can be in -/
structure AInv (s : ASt) : Prop where
  /-- `toWait` counts the channels that are still open -/
  wait : s.toWait = b2n s.provOpen + b2n s.aggrOpen + b2n s.startOpen + b2n s.runOpen
  /-- the run results are closed (and the run context cancelled) exactly when the start result is in and every started
  instance has been awaited -/
  closed : s.runOpen = false ↔ (s.startOpen = false ∧ s.started ≤ (s.awaited : Int))
  /-- `runCancel()` is called once, at that moment -/
  cancels : s.runCancels = if s.runOpen then 0 else 1
  /-- until the start result arrives the number of started instances is "undefined" (-1) -/
  undef : s.startOpen = true → s.started = -1
  nonneg : s.startOpen = false → 0 ≤ s.started

theorem init_inv : AInv ainit := by
  refine ⟨by decide, ?_, by decide, fun _ => rfl, fun h => by simp [ainit] at h⟩
  simp [ainit]

theorem checkAll_inv {s : ASt} (hw : s.toWait = b2n s.provOpen + b2n s.aggrOpen + b2n s.startOpen + b2n s.runOpen)
    (ho : s.runOpen = true) (hc : s.runCancels = 0) (hu : s.startOpen = true → s.started = -1)
    (hn : s.startOpen = false → 0 ≤ s.started) : AInv (checkAll s) := by
  unfold checkAll
  split
  · rename_i h
    simp only [Bool.and_eq_true, Bool.not_eq_true', decide_eq_true_eq] at h
    refine ⟨?_, ?_, ?_, ?_, ?_⟩
    · simp only [hw, ho, b2n]; simp
    · simp [h.1, h.2]
    · simp [hc]
    · intro h'; simp [h.1] at h'
    · intro _; exact hn h.1
  · rename_i h
    simp only [Bool.and_eq_true, Bool.not_eq_true', decide_eq_true_eq, not_and] at h
    refine ⟨hw, ?_, by simp [ho, hc], hu, hn⟩
    simp only [ho, Bool.true_eq_false, false_iff, not_and]
    exact h

theorem step_inv {s s' : ASt} {r : Res} (hi : AInv s) (h : astep s r = some s') : AInv s' := by
  obtain ⟨hw, hcl, hca, hu, hn⟩ := hi
  unfold astep at h
  split at h
  · -- provider
    split at h
    · rename_i hp
      simp only [Option.some.injEq] at h
      subst h
      refine ⟨?_, hcl, hca, hu, hn⟩
      simp only [hw, hp, b2n]; simp <;> omega
    · cases h
  · split at h
    · rename_i hp
      simp only [Option.some.injEq] at h
      subst h
      refine ⟨?_, hcl, hca, hu, hn⟩
      simp only [hw, hp, b2n]; simp <;> omega
    · cases h
  · -- start
    split at h
    · rename_i hp
      simp only [Option.some.injEq] at h
      subst h
      have hro : s.runOpen = true := by
        cases hr : s.runOpen with
        | true => rfl
        | false => have := (hcl.mp hr).1; rw [hp] at this; cases this
      apply checkAll_inv
      · simp only [hw, hp, hro, b2n]; simp
      · exact hro
      · simp [hca, hro]
      · intro h'; cases h'
      · intro _; exact Int.natCast_nonneg _
    · cases h
  · -- run
    split at h
    · rename_i hp
      simp only [Option.some.injEq] at h
      subst h
      apply checkAll_inv
      · split <;> simp only [hw]
      · split <;> exact hp
      · split <;> simp [hca, hp]
      · split <;> exact hu
      · split <;> exact hn
    · cases h

theorem run_inv : ∀ (rs : List Res) (s s' : ASt), AInv s → arun s rs = some s' → AInv s'
  | [], s, s', hi, h => by simp only [arun, Option.some.injEq] at h; exact h ▸ hi
  | r :: rs, s, s', hi, h => by
    simp only [arun] at h
    split at h
    · rename_i s1 hs1; exact run_inv rs s1 s' (step_inv hi hs1) h
    · cases h

theorem reach_inv {rs : List Res} {s : ASt} (h : arun ainit rs = some s) : AInv s := run_inv rs ainit s init_inv h

/-- the loop is over exactly when all four kinds of results are in -/
theorem over_iff {s : ASt} (hi : AInv s) :
    s.over = true ↔ (s.provOpen = false ∧ s.aggrOpen = false ∧ s.startOpen = false ∧ s.runOpen = false) := by
  have hw := hi.wait
  unfold ASt.over
  cases hp : s.provOpen <;> cases ha : s.aggrOpen <;> cases hs : s.startOpen <;> cases hr : s.runOpen <;>
    simp [hp, ha, hs, hr, b2n] at hw ⊢ <;> omega

/-! ### every complete set of results, in any order, ends the loop with everything awaited -/

def cnt (c : Chan) (rs : List Res) : Nat := rs.countP (fun r => r.chan == c)

theorem cnt_cons (c : Chan) (r : Res) (rs : List Res) : cnt c (r :: rs) = cnt c rs + (if r.chan = c then 1 else 0) := by
  unfold cnt
  rw [List.countP_cons]
  by_cases h : r.chan = c <;> simp [h]

/-- what is still to come fits the state: one result per open channel (none for a closed one), the start result
announces `n` instances, and exactly the results of the instances not yet awaited -/
structure Rem (n : Nat) (s : ASt) (rs : List Res) : Prop where
  prov : cnt .provider rs = b2n s.provOpen
  aggr : cnt .aggregator rs = b2n s.aggrOpen
  start : cnt .start rs = b2n s.startOpen
  startN : ∀ r ∈ rs, r.chan = .start → r.started = n
  known : s.startOpen = false → s.started = (n : Int)
  runs : s.awaited + cnt .run rs = n

theorem complete_ends (n : Nat) : ∀ (rs : List Res) (s : ASt), AInv s → Rem n s rs →
    ∃ s', arun s rs = some s' ∧ s'.over = true ∧ s'.awaited = n ∧ s'.started = (n : Int)
  | [], s, hi, hr => by
    refine ⟨s, rfl, ?_, ?_, ?_⟩
    · have h1 := hr.prov; have h2 := hr.aggr; have h3 := hr.start
      simp only [cnt, List.countP_nil] at h1 h2 h3
      have hp : s.provOpen = false := by cases h : s.provOpen <;> simp [h, b2n] at h1 ⊢
      have ha : s.aggrOpen = false := by cases h : s.aggrOpen <;> simp [h, b2n] at h2 ⊢
      have hs : s.startOpen = false := by cases h : s.startOpen <;> simp [h, b2n] at h3 ⊢
      have hk := hr.known hs
      have hrn := hr.runs
      simp only [cnt, List.countP_nil, Nat.add_zero] at hrn
      have hro : s.runOpen = false := hi.closed.mpr ⟨hs, by rw [hk, hrn]; exact Int.le_refl _⟩
      exact (over_iff hi).mpr ⟨hp, ha, hs, hro⟩
    · have := hr.runs; simpa [cnt] using this
    · have h3 := hr.start
      simp only [cnt, List.countP_nil] at h3
      have hs : s.startOpen = false := by cases h : s.startOpen <;> simp [h, b2n] at h3 ⊢
      exact hr.known hs
  | r :: rs, s, hi, hr => by
    obtain ⟨hp, ha, hs, hsn, hk, hru⟩ := hr
    rw [cnt_cons] at hp ha hs hru
    have hsn' : ∀ q ∈ rs, q.chan = .start → q.started = n := fun q hq => hsn q (List.mem_cons_of_mem _ hq)
    cases hc : r.chan with
    | provider =>
      simp only [hc, if_true, reduceCtorEq, if_false, Nat.add_zero] at hp ha hs hru
      have hpo : s.provOpen = true := by cases h : s.provOpen <;> simp [h, b2n] at hp ⊢
      have hst : astep s r = some { s with provOpen := false, toWait := s.toWait - 1, errs := bump r.badRun s.errs } := by
        simp [astep, hc, hpo]
      have hi' := step_inv hi hst
      have hcnt : cnt .provider rs = 0 := by simp [hpo, b2n] at hp; omega
      obtain ⟨s', h1, h2⟩ := complete_ends n rs _ hi' ⟨by simp [hcnt, b2n], ha, hs, hsn', hk, hru⟩
      exact ⟨s', by simp only [arun, hst]; exact h1, h2⟩
    | aggregator =>
      simp only [hc, if_true, reduceCtorEq, if_false, Nat.add_zero] at hp ha hs hru
      have hao : s.aggrOpen = true := by cases h : s.aggrOpen <;> simp [h, b2n] at ha ⊢
      have hst : astep s r = some { s with aggrOpen := false, toWait := s.toWait - 1, errs := bump r.badRun s.errs } := by
        simp [astep, hc, hao]
      have hi' := step_inv hi hst
      have hcnt : cnt .aggregator rs = 0 := by simp [hao, b2n] at ha; omega
      obtain ⟨s', h1, h2⟩ := complete_ends n rs _ hi' ⟨hp, by simp [hcnt, b2n], hs, hsn', hk, hru⟩
      exact ⟨s', by simp only [arun, hst]; exact h1, h2⟩
    | start =>
      simp only [hc, if_true, reduceCtorEq, if_false, Nat.add_zero] at hp ha hs hru
      have hso : s.startOpen = true := by cases h : s.startOpen <;> simp [h, b2n] at hs ⊢
      have hrn : r.started = n := hsn r (List.mem_cons_self ..) hc
      have hst : astep s r = some (checkAll { s with startOpen := false, toWait := s.toWait - 1, started := r.started, errs := bump r.badStart s.errs }) := by simp [astep, hc, hso]
      have hi' := step_inv hi hst
      have hcnt : cnt .start rs = 0 := by simp [hso, b2n] at hs; omega
      have hrem : Rem n (checkAll { s with startOpen := false, toWait := s.toWait - 1, started := r.started, errs := bump r.badStart s.errs }) rs := by
        unfold checkAll
        split
        · exact ⟨hp, ha, by simp [hcnt, b2n], hsn', fun _ => by simp [hrn], hru⟩
        · exact ⟨hp, ha, by simp [hcnt, b2n], hsn', fun _ => by simp [hrn], hru⟩
      obtain ⟨s', h1, h2⟩ := complete_ends n rs _ hi' hrem
      exact ⟨s', by simp only [arun, hst]; exact h1, h2⟩
    | run =>
      simp only [hc, if_true, reduceCtorEq, if_false, Nat.add_zero] at hp ha hs hru
      -- the run channel cannot be closed yet: one more result is due
      have hro : s.runOpen = true := by
        cases h : s.runOpen with
        | true => rfl
        | false =>
          obtain ⟨h1, h2⟩ := hi.closed.mp h
          have := hk h1
          rw [this] at h2
          omega
      cases hst : astep s r with
      | none => simp [astep, hc, hro] at hst
      | some s1 =>
        have hi' := step_inv hi hst
        have hrem : Rem n s1 rs := by
          simp only [astep, hc, hro, if_true, Option.some.injEq] at hst
          subst hst
          unfold checkAll
          split <;> split <;>
            exact ⟨hp, ha, hs, hsn', hk, by simp only []; omega⟩
        obtain ⟨s', h1, h2⟩ := complete_ends n rs s1 hi' hrem
        exact ⟨s', by simp only [arun, hst]; exact h1, h2⟩

/-- a complete set of results for a pool that started `n` instances -/
structure Complete (n : Nat) (rs : List Res) : Prop where
  prov : cnt .provider rs = 1
  aggr : cnt .aggregator rs = 1
  start : cnt .start rs = 1
  startN : ∀ r ∈ rs, r.chan = .start → r.started = n
  runs : cnt .run rs = n

theorem complete_from_init {n : Nat} {rs : List Res} (h : Complete n rs) :
    ∃ s, arun ainit rs = some s ∧ s.over = true ∧ s.awaited = n ∧ s.started = (n : Int) :=
  complete_ends n rs ainit init_inv
    ⟨by simp [h.prov, ainit, b2n], by simp [h.aggr, ainit, b2n], by simp [h.start, ainit, b2n], h.startN,
     fun hh => by simp [ainit] at hh, by simp [ainit, h.runs]⟩

/-- the start of further instances is cancelled only for out-of-ammo results -/
theorem startCancels_le : ∀ (rs : List Res) (s s' : ASt), arun s rs = some s' →
    s'.startCancels ≤ s.startCancels + rs.countP (fun r => r.chan == .run && r.outOfAmmo)
  | [], s, s', h => by simp only [arun, Option.some.injEq] at h; subst h; simp
  | r :: rs, s, s', h => by
    simp only [arun] at h
    split at h
    · rename_i s1 hs1
      have ih := startCancels_le rs s1 s' h
      have h1 : s1.startCancels ≤ s.startCancels + (if (r.chan == .run && r.outOfAmmo) = true then 1 else 0) := by
        unfold astep at hs1
        split at hs1
        · split at hs1
          · simp only [Option.some.injEq] at hs1; subst hs1; simp
          · cases hs1
        · split at hs1
          · simp only [Option.some.injEq] at hs1; subst hs1; simp
          · cases hs1
        · split at hs1
          · simp only [Option.some.injEq] at hs1; subst hs1; unfold checkAll; split <;> simp
          · cases hs1
        · rename_i hc
          split at hs1
          · simp only [Option.some.injEq] at hs1
            subst hs1
            unfold checkAll bump
            cases ho : r.outOfAmmo <;> simp [hc, ho] <;> (repeat' split) <;> simp <;> omega
          · cases hs1
      rw [List.countP_cons]
      omega
    · cases h

end Pandora.Proofs.C03Await
