/-
C08 (round 3): one iteration of `runFullScan` does the same over ANY two decoders that are the abstract cyclic source
(`Src`) of the same file — in particular over the line-level decoder of `Model.C08Scan` (any file with header / blank
lines anywhere) and over the entry-level decoder `scanStream` the concurrent machine `Model.C08Mach.stepOf` runs on.
Core Lean only.
-/
import Pandora.Proofs.C08Src
import Pandora.Proofs.C08Scan
import Pandora.Model.C08Mach

namespace Pandora.Proofs.C08
open Pandora.Model.C08

/-- two iterations end alike: the same result of `Run`, or the same ammo on offer with successor states related by `P` -/
inductive ActRel {σ τ : Type} (P : σ → τ → Prop) : Act σ → Act τ → Prop where
  | ret (r : RunRes) : ActRel P (.ret r) (.ret r)
  | offer (i : Nat) (s : σ) (t : τ) : P s t → ActRel P (.offer i s) (.offer i t)
  | tau (s : σ) (t : τ) : P s t → ActRel P (.tau s) (.tau t)

/-- decoder states after the same `q` complete passes and `r` entries of the current pass (a position from which the
decoder still has something to say: `passes = 0 ∨ q < passes`), with the same number of delivered ammo -/
def SrcRel {σ τ : Type} (n passes : Nat) (R1 : Nat → Nat → σ → Prop) (R2 : Nat → Nat → τ → Prop)
    (a : σ × Nat) (b : τ × Nat) : Prop :=
  a.2 = b.2 ∧ ∃ q r, r ≤ n ∧ (passes = 0 ∨ q < passes) ∧ R1 q r a.1 ∧ R2 q r b.1

/-- **step bisimulation** — `runFullScan`'s iteration over two decoders that are both the cyclic source of an
`n`-entry file (pass counters in step with the abstraction) does the same from related states, and the successor
states are related again.  Whatever is proved about the iteration over one of them holds over the other. -/
theorem streamStep_bisim {σ τ : Type} (scan1 : σ → ScanRes × σ) (scan2 : τ → ScanRes × τ)
    (pn1 : σ → Nat) (pn2 : τ → Nat) (n passes : Nat) (hn : 0 < n)
    (R1 : Nat → Nat → σ → Prop) (R2 : Nat → Nat → τ → Prop)
    (h1 : Src scan1 n passes R1) (h2 : Src scan2 n passes R2)
    (hp1 : ∀ q r s, R1 q r s → pn1 s = q) (hp2 : ∀ q r t, R2 q r t → pn2 t = q)
    (limit : Nat) (c : Bool) (s : σ) (t : τ) (k : Nat) (hrel : SrcRel n passes R1 R2 (s, k) (t, k)) :
    ActRel (SrcRel n passes R1 R2) (streamStep scan1 pn1 limit c s k) (streamStep scan2 pn2 limit c t k) := by
  obtain ⟨_, q, r, hr, hq, hs, ht⟩ := hrel
  simp only at hs ht
  unfold streamStep
  rw [hp1 q r s hs, hp2 q r t ht]
  cases c
  · simp only [Bool.false_eq_true, if_false]
    by_cases hl : limit ≠ 0 ∧ limit ≤ k
    · rw [if_pos hl, if_pos hl]; exact .ret _
    · rw [if_neg hl, if_neg hl]
      by_cases h0 : k = 0 ∧ 0 < q
      · rw [if_pos h0, if_pos h0]; exact .ret _
      · rw [if_neg h0, if_neg h0]
        by_cases hrn : r < n
        · obtain ⟨s', e1, r1⟩ := h1.next q r s hs hrn hq
          obtain ⟨t', e2, r2⟩ := h2.next q r t ht hrn hq
          rw [e1, e2]
          exact .offer _ _ _ ⟨rfl, q, r + 1, by omega, hq, r1, r2⟩
        · have hre : r = n := by omega
          subst hre
          by_cases hw : passes = 0 ∨ q + 1 < passes
          · obtain ⟨s', e1, r1⟩ := h1.wrap q s hs hw
            obtain ⟨t', e2, r2⟩ := h2.wrap q t ht hw
            rw [e1, e2]
            exact .offer _ _ _ ⟨rfl, q + 1, 1, by omega, hw, r1, r2⟩
          · obtain ⟨s', e1⟩ := h1.stop q s hs (by omega) (by omega)
            obtain ⟨t', e2⟩ := h2.stop q t ht (by omega) (by omega)
            rw [e1, e2]
            exact .ret _
  · simp only [if_true]; exact .ret _

end Pandora.Proofs.C08
