/-
Go numeric semantics over exact reals/integers, used by the regenerated
definitions (`Pandora/Gen/*.lean`).  float64 is read as ℝ (rounding is
*measured* by the sampling tie, never proved); integer kinds as ℤ.
-/
import Mathlib.Analysis.Real.Sqrt
import Mathlib.Algebra.Order.Floor.Ring
import Mathlib.Tactic.Linarith
import Mathlib.Tactic.Ring
import Mathlib.Tactic.FieldSimp
import Mathlib.Tactic.Positivity

namespace Pandora

namespace Go

/-- `int64(x)` / `time.Duration(x)` for a float `x` in range: truncation toward zero. -/
noncomputable def f2i (x : ℝ) : ℤ := if 0 ≤ x then ⌊x⌋ else ⌈x⌉

/-- Go's `/` on integers (T-division). -/
def tdiv (a b : ℤ) : ℤ := Int.tdiv a b
/-- Go's `%` on integers. -/
def tmod (a b : ℤ) : ℤ := Int.tmod a b

/-- `for i := a; i <= b; i += s` over floats (exact arithmetic), `s > 0`. -/
noncomputable def loopLE (a b s : ℝ) : List ℝ :=
  if a ≤ b then (List.range (⌊(b - a) / s⌋₊ + 1)).map (fun (j : ℕ) => a + (j : ℝ) * s) else []

/-- `for i := a; i <= b; i += s` over integers, `s > 0`. -/
def loopLEInt (a b s : ℤ) : List ℤ :=
  if a ≤ b then (List.range ((b - a) / s).toNat.succ).map (fun (j : ℕ) => a + (j : ℤ) * s) else []

theorem f2i_of_nonneg {x : ℝ} (h : 0 ≤ x) : f2i x = ⌊x⌋ := by simp [f2i, h]

end Go

/-- What a schedule constructor returns, at the level C01 speaks about. -/
inductive Sched where
  | doAt (duration n : ℤ) (f : ℤ → ℤ)
  | composite (nested : List Sched)

end Pandora
