/-
C19, round 4 — bridge between what `gen -area respguard` (gen/area_respguard_r4.go) reads off the CURRENT source and
Model/C19Run.lean. A harmless rewrite (renamed locals, reworded messages, logging / metrics moved around, reordered
conjuncts) keeps these lemmas; a changed condition, a moved Report, a dropped error check or a new unchecked assertion
breaks the one that names it.
-/
import Pandora.Gen.RespGuard
import Pandora.Model.C19Run

namespace Pandora.Bridge.C19
open Pandora.Model.C10 Pandora.Model.C19

/-! ## instance.Run against the clock -/

/-- the condition of the `if` around `i.gun.Shoot(ammo)` of the current source IS the model's `shootCond`, for every
valuation of its atoms -/
theorem instanceShootCond_eq (discardOverflow isSlowDown : Bool) :
    Gen.RespGuard.instanceShootCond discardOverflow isSlowDown = shootCond discardOverflow isSlowDown := by
  cases discardOverflow <;> cases isSlowDown <;> rfl

theorem instanceShootCondUnknownAtoms_eq : Gen.RespGuard.instanceShootCondUnknownAtoms = [] := rfl

/-- one iteration of the loop (model `instanceRunSched`): the ammo is acquired and its release deferred BEFORE the
waiter is asked, a cancelled wait ends the iteration, then the shot OR the report of one discarded sample -/
theorem instanceLoopEvents_eq : Gen.RespGuard.instanceLoopEvents = [
    "Acquire",
    "if !ok {return outOfAmmoErr}",
    "defer Release",
    "if !waiter.Wait(ctx) {return nil}",
    "if SHOOT-COND {Shoot} else {DiscardedShootSample;Report}",
    "return nil"] := rfl

/-! the waiter: until round 5 two lemmas pinned the canonical STATEMENTS of `Wait` / `IsSlowDown` here (`waiterWaitStmts_eq`,
`waiterIsSlowDownStmts_eq`): every harmless respelling alarmed. Round 6: both are regenerated as FUNCTIONS by gen area `waiter`
(`Gen.Waiter.Wait`, `IsSlowDown`) and proved equal to the model in `Bridge.Waiter` (`Wait_eq`, `IsSlowDown_eq`), which
Props/C19.lean imports through Proofs/C19R6.lean (`C19_slow_answer_costs_only_late_tokens`). `Gen.RespGuard.waiterWaitStmts`
stays in the generated file for information. -/

theorem maxOverdueNanos_eq : Gen.RespGuard.maxOverdueNanos = maxOverdue := rfl

theorem discardedTag_eq : Gen.RespGuard.discardedTag = discardedTag := rfl
theorem discardedNet_eq : Gen.RespGuard.discardedNet = discardedNet := rfl

/-- `DiscardedShootSample`: a fresh sample (not a pooled one) with the tag and the failure code, no status -/
theorem discardedSampleStmts_eq : Gen.RespGuard.discardedSampleStmts = [
    "v0 := &Sample{timeStamp: time.Now(), tags: DiscardedShootTag}",
    "v0.SetUserNet(DiscardedShootCodeError)",
    "return v0"] := rfl

/-- what the model's discarded sample carries is what the current constants say, and it is a FAILURE (net ≠ 0) without
a status -/
theorem discardedSample_eq :
    discardedSample = { tags := Gen.RespGuard.discardedTag, id := 0, proto := 0, net := Gen.RespGuard.discardedNet } ∧
      Gen.RespGuard.discardedNet ≠ 0 := ⟨rfl, by decide⟩

/-- a pooled sample is reset COMPLETELY (struct assignment) before it is handed out: nothing of its previous use — the
failure code of an earlier request — can show on the next one -/
theorem sampleAcquireStmts_eq : Gen.RespGuard.sampleAcquireStmts = [
    "v0 := samplePool.Get().(*Sample)",
    "*v0 = Sample{timeStamp: time.Now(), tags: v1}",
    "return v0"] := rfl

/-- the phout aggregator returns a sample to the pool AFTER its line is formatted and written (model `SampleOp.report`
is the hand-over; nobody reads the sample after `releaseSample`). Order-free FACTS about the current source (round 6: the
literal statement list broke on the legitimate repair 89739df, which flushes the writer before a line that would not
fit): what else `handle` does is free; releasing before the line is formatted / written (mutant x17 of round 4), releasing
twice or touching the sample afterwards is not. -/
theorem phoutHandleFacts_eq : Gen.RespGuard.phoutHandleFacts = [
    "releaseCalls=1",
    "releaseAtTopLevel=true",
    "lineFormattedBeforeRelease=true",
    "lineWrittenBeforeRelease=true",
    "sampleUsedAfterRelease=false"] := rfl

/-! ## the shared iterator: both methods run under the mutex (model `iterStep true`) -/

theorem mpIterNext_locked : Gen.RespGuard.mpIterNext.take 2 = ["v0.mx.Lock()", "defer v0.mx.Unlock()"] := rfl
theorem mpIterRand_locked : Gen.RespGuard.mpIterRand.take 2 = ["v0.mx.Lock()", "defer v0.mx.Unlock()"] := rfl

/-! ## lib/netutil: the DNS-caching dialer (model `dnsDial`) -/

/-- a cache hit dials the remembered address and hands the result through; a failed dial returns BEFORE anything is
read from the connection or remembered; the connection of a successful dial is closed when the address cannot be split -/
theorem dnsCachingDialStmts_eq : Gen.RespGuard.dnsCachingDialStmts = [
    "v0, v1 := v2.Get(v3)",
    "if v1 { return v4.DialContext(v5, v6, v0) }",
    "v7, v8 = v4.DialContext(v5, v6, v3)",
    "if v8 != nil { return }",
    "v9 := v7.RemoteAddr().(*net.TCPAddr)",
    "_, v10, v8 := net.SplitHostPort(v3)",
    "if v8 != nil { _ = v7.Close() return nil, errors.Wrap(v8, \"invalid address, but successful dial - should not happen\") }",
    "v2.Add(v3, net.JoinHostPort(v9.IP.String(), v10))",
    "return"] := rfl

/-- the cache: a nil map is only read under the nil check and created before the first write; every path unlocks -/
theorem dnsCacheGetStmts_eq : Gen.RespGuard.dnsCacheGetStmts = [
    "v0.rw.RLock()",
    "if v0.hostToAddr == nil { v0.rw.RUnlock() return }",
    "v1, v2 = v0.hostToAddr[v3]",
    "v0.rw.RUnlock()",
    "return"] := rfl

theorem dnsCacheAddStmts_eq : Gen.RespGuard.dnsCacheAddStmts = [
    "v0.rw.Lock()",
    "if v0.hostToAddr == nil { v0.hostToAddr = make(map[string]string) }",
    "v0.hostToAddr[v1] = v2",
    "v0.rw.Unlock()"] := rfl

/-- `PreResolveTargetAddr`: a target that cannot be reached at configuration time keeps its NAME and the caching dialer
(the gun factories ignore the error: "we should not fail shooting, we should try to connect on every shoot") -/
theorem preResolveStmts_eq : Gen.RespGuard.preResolveStmts = [
    "if !v0.Dialer.DNSCache { return v1, nil }",
    "if endpointIsResolved(v1) { v0.Dialer.DNSCache = false return v1, nil }",
    "v2, v3 := netutil.LookupReachable(v1, v0.Dialer.Timeout)",
    "if v3 != nil { zap.L().Warn(\"DNS target pre resolve failed\", zap.String(\"target\", v1), zap.Error(v3)) return v1, v3 }",
    "v0.Dialer.DNSCache = false",
    "return v2, nil"] := rfl

/-- run-time panic sites of lib/netutil/dial.go: none but the two assertions on the remote address of a CONNECTED tcp
connection (model `DialFacts.remoteIsTCP`) and the cache's map write under the nil check -/
theorem netutilInventory_eq :
    Gen.RespGuard.netutilExplicitPanics = [] ∧
    Gen.RespGuard.netutilUncheckedAssertions = [
      "lib/netutil/dial.go|LookupReachable|_.RemoteAddr().(*net.TCPAddr)",
      "lib/netutil/dial.go|NewDNSCachingDialer|_.RemoteAddr().(*net.TCPAddr)"] ∧
    Gen.RespGuard.netutilIndexings = [] ∧
    Gen.RespGuard.netutilMapWritesWithoutMake = ["lib/netutil/dial.go|SimpleDNSCache.Add|_.hostToAddr[_]"] :=
  ⟨rfl, rfl, rfl, rfl⟩

/-! ## who owns the sample of a scenario step (model `stepOps false`) -/

/-- exactly one Report per path: one in `shootStep` (success), none in `shoot` itself, one in `reportErr` (failure) -/
theorem scenarioReportCalls_eq : Gen.RespGuard.scenarioReportCalls = [1, 0, 1] := rfl

/-- `shootStep` reports the sample as its LAST use of it and cannot return an error afterwards — so `shoot` never calls
`reportErr` on a sample the aggregator already owns (the seeded order, model `stepOps true`, makes this `false`) -/
theorem scenarioReportLastUse_eq : Gen.RespGuard.scenarioReportLastUse = true := rfl

theorem scenarioReportErrStmts_eq : Gen.RespGuard.scenarioReportErrStmts = [
    "if v0 == nil { return }",
    "v1.AddTag(EmptyTag)",
    "v1.SetProtoCode(0)",
    "v1.SetErr(v0)",
    "v2.base.Aggregator.Report(v1)"] := rfl

/-- the step loop: a fresh sample per step; an error of `shootStep` is reported ON THAT sample and ends the shot -/
theorem scenarioShootLoop_eq : Gen.RespGuard.scenarioShootLoop = [
    "v0 := v1.Name + \".\" + v2.Name",
    "v3.buildLogID(&v4, v0, v1.ID, v5)",
    "v6 := netsample.Acquire(v0)",
    "v7 := v3.shootStep(v2, v6, v1.Name, v8, v9, v4.String())",
    "if v7 != nil { v3.reportErr(v6, v7) return v7 }"] := rfl

end Pandora.Bridge.C19
