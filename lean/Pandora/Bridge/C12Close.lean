/-
Bridge for the gen area `c12close` (round 6): the cleanup / accounting facts re-extracted from core/engine are what the model and
the harness rely on — an instance's gun is closed on EVERY path out of `instance.Run` (the `Close()` is deferred before `Run` is
called, in every function body that calls `Run`), `InstanceStart` / `InstanceFinish` are counted once per run of an instance
whatever its outcome (the finish inside a deferred function registered before the start is counted), and a gun whose `Bind` failed is
closed.  The harness observes an instance's end as the `Close` of its gun and compares `Metrics.InstanceStart/InstanceFinish` with
the bound / closed guns (Spec key `metric`); the pool layer's events `iter … (sends a result)` / `panic id` assume exactly this.
The lemmas do not name the callers: extracting the first-instance closure into a function, or creating the first instance through
`runNewInstance` too, keeps them true; dropping a defer, closing only on the nil path, counting the finish outside the defer do not.
-/
import Pandora.Gen.C12Close

namespace Pandora.Bridge.C12Close
open Pandora.Gen.C12Close

/-- every function body that calls `Run` on an instance defers that instance's `Close()` first (and there is such a body) -/
theorem runCallers_defer_close : runCallers ≠ [] ∧ ∀ r ∈ runCallers, r.2 = true := by decide

/-- the start of an instance is counted unconditionally, its finish inside a deferred function registered before that and nowhere
else; `newInstance` closes the gun when `Bind` fails -/
theorem counting_and_bind_cleanup :
    startCountedUnconditionally = true ∧ finishCountedInDefer = true ∧ finishDeferBeforeStartCount = true ∧
    finishCountedElsewhere = 0 ∧ closesGunWhenBindFails = true := by decide

end Pandora.Bridge.C12Close
