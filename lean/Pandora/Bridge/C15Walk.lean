/-
C15 (round 3) — bridge between what /verif/gen (area `c15walk`) re-extracted from the CURRENT source and the model.

  `walkCode_eq`, `walk_gen`        the loop body of `mp.GetMapValue` as regenerated, run by the interpreter, IS the model's `walk`
  `walkSplit_eq`                   the path is split at "." after ONE leading "." was dropped
  `calcCode_eq`, `calcIndex_gen`   the guards / keyword branches of `calcIndex` in source order compute the model's `calcIndex`
  `extract_total`                  every list type `extractFromSlice` accepts has a case (each returning row `index`)
  `strFnFacts_eq`, `funcNames_eq`, `parseFuncExact_eq`, `entryCode_eq`, `resolveEntry_gen`
                                   `parseStr` / `GetFuncs` / `ParseFunc` / `Preprocessor.Process` / `ExecTemplateFuncWithVariables`
  `feedLoop_gen`, `feedFacts_ok`   one iteration of the loop of `scenario.Provider.Run` with the regenerated arithmetic and stop conditions
-/
import Pandora.Gen.C15Walk
import Pandora.Proofs.C15Walk

namespace Pandora.Bridge.C15Walk
open Pandora.Model.C15 Pandora.Proofs.C15

theorem walkCode_eq : Gen.C15Walk.walkCode = walkCode := by decide

/-- **`GetMapValue`'s segment loop as regenerated computes the model's `walk`** -/
theorem walk_gen (id : Nat) (segs : List String) (cur : List (String × Val)) (key : String) (it : Iter) :
    walkBy Gen.C15Walk.walkCode id segs cur key it = some (walk id segs cur key it) := by
  rw [walkCode_eq]; exact walkBy_eq id segs cur key it

theorem walkSplit_eq : Gen.C15Walk.walkSplit = (".", ".") := rfl

theorem calcCode_eq : Gen.C15Walk.calcCode = calcCode := by decide

/-- **`calcIndex` as regenerated (order of the guards and keyword branches) computes the model's `calcIndex`** -/
theorem calcIndex_gen (indexStr seg : String) (len id : Nat) (it : Iter) :
    runCOps indexStr seg len id Gen.C15Walk.calcCode none it = some (outInt (calcIndex indexStr seg len id it)) := by
  rw [calcCode_eq]; exact runCOps_eq indexStr seg len id it

/-- every list type `extractFromSlice` accepts is handled by a case of its type switch (the line after the switch is
unreachable), and there is no case for a type it does not accept -/
theorem extract_total : Gen.C15Walk.extractCases = Gen.C15Walk.extractValid := by decide

theorem strFnFacts_eq : Gen.C15Walk.strFnFacts = strFnFacts := by decide

theorem funcNames_eq : Gen.C15Walk.funcNames = funcNames := by decide

theorem parseFuncExact_eq : Gen.C15Walk.parseFuncExact = true := rfl

theorem entryCode_eq : Gen.C15Walk.entryCode = entryCode := by decide

/-- **one mapping entry as regenerated**: the entry resolution with the regenerated dispatch and argument rules is the model's -/
theorem resolveEntry_gen (fn : String → List Val → Option String) (vars : List (String × Val)) (v : String) (id : Nat) (it : Iter) :
    resolveEntryBy Gen.C15Walk.entryCode fn vars v id it = resolveEntry fn vars v id it := by
  rw [entryCode_eq]; rfl

theorem parseStr_gen (v : List Char) : parseStrBy Gen.C15Walk.strFnFacts v = parseStrF v := by
  rw [strFnFacts_eq]; rfl

theorem feedFacts_ok : Gen.C15Walk.feedFacts.all (·.2) = true := by decide

/-- **one iteration of the loop of `Provider.Run` as regenerated** -/
theorem feedLoop_gen {α} (ring : List α) (p l fuel k : Nat) :
    feedLoop ring p l (fuel + 1) k =
      if Gen.C15Walk.feedPassStop p (Gen.C15Walk.feedPassNum k ring.length) then []
      else if Gen.C15Walk.feedLimitStop l k then []
      else match ring[(Gen.C15Walk.feedIndex k ring.length).toNat]? with
        | some a => a :: feedLoop ring p l fuel (k + 1)
        | none => [] := by
  have hmod : Gen.C15Walk.feedIndex k ring.length = ((k % ring.length : Nat) : Int) := (Int.ofNat_tmod k ring.length).symm
  have hdiv : Gen.C15Walk.feedPassNum k ring.length = ((k / ring.length : Nat) : Int) := (Int.ofNat_tdiv k ring.length).symm
  rw [feedLoop, hmod, hdiv]
  unfold Gen.C15Walk.feedPassStop Gen.C15Walk.feedLimitStop
  simp only [Int.toNat_natCast]
  generalize k / ring.length = q
  generalize ring[k % ring.length]? = e
  by_cases h1 : p = 0 <;> by_cases h2 : l = 0 <;> by_cases h3 : p ≤ q <;> by_cases h4 : l ≤ k <;>
    simp [h1, h2, h3, h4] <;> (try omega)
  all_goals (cases e <;> rfl)

end Pandora.Bridge.C15Walk
